(** * EvalProofsC: C15 - part C: king squares and king rings under [Rules.mirror]; evalKing
    in closed form (the KingDangerMalus branch is dead: the own king defends its whole ring,
    so the unsigned comparison of the two bitboards is never true); evalPiece sums. *)
From Coq Require Import NArith ZArith List Bool Lia Floats.
From FG Require Import Geom Rules FenSpec EvalImpl EvalProofsA EvalProofsB.
Import ListNotations.
Open Scope Z_scope.

(** ** kings *)
Definition one_king (b : list N) (c : N) : Prop := count_piece b (mk_piece c KING) = 1%nat.

Lemma legal_one_king p c : legal_pos p = true -> (c < 2)%N -> one_king (brd p) c.
Proof.
  unfold legal_pos. rewrite !andb_true_iff.
  intros [[[[[[[[[_ _] HW] HB] _] _] _] _] _] _] Hc.
  apply Nat.eqb_eq in HW, HB. unfold one_king.
  assert (c = 0 \/ c = 1)%N as [-> | ->] by lia; [exact HW | exact HB].
Qed.

Lemma king_sq_spec b c : one_king b c ->
  (king_sq b c < 64)%N /\ is_piece b (king_sq b c) c KING = true /\
  forall s, (s < 64)%N -> is_piece b s c KING = true -> s = king_sq b c.
Proof.
  unfold one_king, count_piece, king_sq, is_piece.
  set (f := fun s => (at_ b s =? mk_piece c KING)%N).
  destruct (filter f squares64) as [|k [|k2 l]] eqn:E; cbn [length]; try discriminate. intros _.
  assert (Hk : In k (filter f squares64)) by (rewrite E; left; reflexivity).
  apply filter_In in Hk. destruct Hk as [Hk1 Hk2]. repeat split.
  - apply in_sq64, Hk1.
  - exact Hk2.
  - intros s Hs Hf. assert (H : In s (filter f squares64)) by (apply filter_In; split; [apply in_sq64, Hs | exact Hf]).
    rewrite E in H. destruct H as [<- | []]. reflexivity.
Qed.

Lemma length_filter_popcnt f : Z.of_nat (length (filter f squares64)) = popcnt f.
Proof.
  unfold popcnt. induction squares64 as [|a l IH]; cbn [filter fold_right length]; [reflexivity|].
  destruct (f a); cbn [length]; lia.
Qed.

Section Kings.
Variable p : pos.
Hypothesis Hp : pos_ok p = true.
Local Notation p' := (mirror p).

Lemma one_king_mirror c : (c < 2)%N -> one_king (brd p) (flip c) -> one_king (brd p') c.
Proof.
  unfold one_king, count_piece. intros Hc H. apply Nat2Z.inj. rewrite length_filter_popcnt.
  rewrite <- H, length_filter_popcnt. apply popcnt_mirror_ext. intros s Hs.
  apply (is_piece_mirror p Hp s c KING Hs Hc). cbn; tauto.
Qed.

Lemma king_sq_mirror c : (c < 2)%N -> one_king (brd p) (flip c) ->
  king_sq (brd p') c = mirror_sq (king_sq (brd p) (flip c)).
Proof.
  intros Hc H1. destruct (king_sq_spec _ _ H1) as [K1 [K2 _]].
  destruct (king_sq_spec _ _ (one_king_mirror c Hc H1)) as [_ [_ U]].
  symmetry. apply U; [apply msq_lt, K1|].
  rewrite (is_piece_mirror p Hp _ c KING K1 Hc) by (cbn; tauto). exact K2.
Qed.

Lemma ring_mirror c t : (c < 2)%N -> (t < 64)%N -> one_king (brd p) (flip c) ->
  ring (brd p') c (mirror_sq t) = ring (brd p) (flip c) t.
Proof.
  intros Hc Ht H1. unfold ring. rewrite king_sq_mirror by assumption.
  apply king_targets_mirror; [apply (king_sq_spec _ _ H1) | exact Ht].
Qed.

(* the own king attacks its whole ring, so "our defence" is the ring itself *)
Lemma mk_king_type c : type_of (mk_piece c KING) = 1%N.
Proof. unfold type_of, mk_piece, KING. symmetry. apply N.mod_unique with c; lia. Qed.
Lemma mk_king_col c : is_col (mk_piece c KING) c = true.
Proof.
  unfold is_col, colour_of, mk_piece, KING.
  replace ((8 * c + 1) / 8)%N with c by (apply N.div_unique with 1%N; lia).
  rewrite N.eqb_refl. replace (8 * c + 1 =? 0)%N with false by (symmetry; apply N.eqb_neq; lia). reflexivity.
Qed.
Lemma ring_unfold b c t : ring b c t = mem t (king_targets (king_sq b c)).
Proof. unfold ring. reflexivity. Qed.
Lemma own_king_targets b c k t : at_ b k = mk_piece c KING -> mem t (king_targets k) = true ->
  own_nonpawn b c k && mem t (piece_targets b k) = true.
Proof.
  intros K2 Hr. unfold own_nonpawn, piece_targets. rewrite K2, mk_king_type, mk_king_col.
  change (1 =? PAWN)%N with false. change (1 =? KING)%N with true. cbn [negb andb]. exact Hr.
Qed.
Lemma ring_defended b c t : one_king b c -> ring b c t = true -> all_att b c t = true.
Proof.
  intros H1 Hr. destruct (king_sq_spec _ _ H1) as [K1 [K2 _]].
  apply N.eqb_eq in K2. rewrite ring_unfold in Hr.
  pose proof (own_king_targets b c _ t K2 Hr) as G.
  unfold all_att. apply existsb_exists. exists (king_sq b c). split; [apply in_sq64, K1 | exact G].
Qed.

Lemma rook_trapped_mirror cfg c s : (c < 2)%N -> (s < 64)%N -> one_king (brd p) (flip c) ->
  rook_trapped cfg (av_of p') p' c (mirror_sq s) = rook_trapped cfg (av_of p) p (flip c) s.
Proof.
  intros Hc Hs H1. unfold rook_trapped. rewrite king_sq_mirror by assumption.
  pose proof (proj1 (king_sq_spec _ _ H1)) as K1.
  rewrite rank_eq_msq, !file_msq by assumption.
  replace (popcnt (av_from (av_of p') c (mirror_sq s))) with (popcnt (av_from (av_of p) (flip c) s)); [reflexivity|].
  symmetry. apply popcnt_mirror_ext. intros t Ht. apply av_from_mirror; assumption.
Qed.

Lemma adv_mid_mirror cfg c : (c < 2)%N -> one_king (brd p) (flip c) ->
  adv_mid cfg (av_of p') p' c = adv_mid cfg (av_of p) p (flip c).
Proof.
  intros Hc H1. unfold adv_mid, pair_bonus. rewrite (count_pt_mirror p Hp c BISHOP Hc) by (cbn; tauto). f_equal.
  apply bsum_mirror; [exact Hp|]. intros pc s Hv Hs. unfold adv_mid_term.
  rewrite !eq_piece_mirror by (try assumption; cbn; tauto).
  rewrite (pawn_in_front_mirror p Hp), (bishop_blocked_mirror p Hp), (queen_on_file_mirror p Hp),
    (no_own_pawn_on_file_mirror p Hp), center_aim_msq, rook_trapped_mirror by assumption.
  reflexivity.
Qed.
Lemma adv_end_mirror cfg c : (c < 2)%N ->
  adv_end cfg p' c = adv_end cfg p (flip c).
Proof.
  intros Hc. unfold adv_end, pair_bonus. rewrite (count_pt_mirror p Hp c BISHOP Hc) by (cbn; tauto). f_equal.
  apply bsum_mirror; [exact Hp|]. intros pc s Hv Hs. unfold adv_end_term.
  rewrite !eq_piece_mirror by (try assumption; cbn; tauto).
  rewrite (pawns_same_colour_mirror p Hp), (bishop_blocked_mirror p Hp), (queen_on_file_mirror p Hp) by assumption.
  reflexivity.
Qed.
End Kings.

Lemma bbnum_mono f g : (forall t, f t = true -> g t = true) -> bbnum f <= bbnum g.
Proof.
  intros H. unfold bbnum. induction squares64 as [|a l IH]; cbn [fold_right]; [lia|].
  assert (0 < 2 ^ Z.of_N a) by (apply Z.pow_pos_nonneg; lia).
  specialize (H a). destruct (f a), (g a); try lia; discriminate (H eq_refl).
Qed.

(* evalKing in closed form when both kings are on the board: the "danger" branch is dead *)
Lemma king_term_closed cfg p c : (c < 2)%N -> one_king (brd p) c ->
  king_term cfg (av_of p) (ring (brd p)) c =
  if use_attacks cfg then
    let ne := popcnt (fun t => ring (brd p) c t && av_all (av_of p) (flip c) t) in
    let nd := popcnt (fun t => ring (brd p) c t && av_all (av_of p) c t) in
    let k := b2z (0 <? popcnt (fun t => av_all (av_of p) c t && ring (brd p) (flip c) t)) (king_ring_attacks_bonus cfg) in
    ((nd - ne) * king_defender_bonus cfg + k, (nd - ne) * king_defender_bonus cfg + k)
  else (0, 0).
Proof.
  intros Hc H1. unfold king_term. destruct (use_attacks cfg); [|reflexivity].
  set (en := fun t => ring (brd p) c t && av_all (av_of p) (flip c) t).
  set (df := fun t => ring (brd p) c t && av_all (av_of p) c t).
  assert (L : bbnum en <= bbnum df).
  { apply bbnum_mono. intros t. unfold en, df. rewrite !andb_true_iff. intros [A _]. split; [exact A|].
    unfold av_of, av_compute. cbn [av_all av_empty orb]. apply ring_defended; assumption. }
  replace (bbnum en >? bbnum df) with false by (symmetry; rewrite Z.gtb_ltb; apply Z.ltb_ge, L).
  cbv zeta. rewrite !Z.add_0_l. reflexivity.
Qed.

Lemma king_term_mirror cfg p c : pos_ok p = true -> (c < 2)%N ->
  one_king (brd p) WHITE -> one_king (brd p) BLACK ->
  king_term cfg (av_of (mirror p)) (ring (brd (mirror p))) c = king_term cfg (av_of p) (ring (brd p)) (flip c).
Proof.
  intros Hp Hc KW KB.
  assert (K : forall d, (d < 2)%N -> one_king (brd p) d).
  { intros d Hd. assert (d = 0 \/ d = 1)%N as [-> | ->] by lia; [exact KW | exact KB]. }
  assert (Hfc : (flip c < 2)%N) by (unfold flip; lia).
  assert (Hff : flip (flip c) = c) by (unfold flip; lia).
  assert (Kc : one_king (brd p) (flip (flip c))) by (apply K; rewrite Hff; exact Hc).
  rewrite (king_term_closed cfg (mirror p) c Hc (one_king_mirror p Hp c Hc (K _ Hfc))).
  rewrite (king_term_closed cfg p (flip c) Hfc (K _ Hfc)).
  destruct (use_attacks cfg); [|reflexivity]. cbv zeta. rewrite Hff.
  assert (E1 : popcnt (fun t => ring (brd (mirror p)) c t && av_all (av_of (mirror p)) (flip c) t) =
               popcnt (fun t => ring (brd p) (flip c) t && av_all (av_of p) c t)).
  { apply popcnt_mirror_ext. intros t Ht.
    rewrite (ring_mirror p Hp c t Hc Ht (K _ Hfc)), (av_all_mirror p Hp (flip c) t Hfc Ht), Hff. reflexivity. }
  assert (E2 : popcnt (fun t => ring (brd (mirror p)) c t && av_all (av_of (mirror p)) c t) =
               popcnt (fun t => ring (brd p) (flip c) t && av_all (av_of p) (flip c) t)).
  { apply popcnt_mirror_ext. intros t Ht.
    rewrite (ring_mirror p Hp c t Hc Ht (K _ Hfc)), (av_all_mirror p Hp c t Hc Ht). reflexivity. }
  assert (E3 : popcnt (fun t => av_all (av_of (mirror p)) c t && ring (brd (mirror p)) (flip c) t) =
               popcnt (fun t => av_all (av_of p) (flip c) t && ring (brd p) c t)).
  { apply popcnt_mirror_ext. intros t Ht.
    rewrite (ring_mirror p Hp (flip c) t Hfc Ht Kc), (av_all_mirror p Hp c t Hc Ht), Hff. reflexivity. }
  rewrite E1, E2, E3. reflexivity.
Qed.
