(** * TerminalProofs: soundness of the checkmate / stalemate classification (property C07)

    Model: Terminal.v.  Hypothesis used (named): [1 <= thr] - LmpMovesSearched(depth) >= 1 in
    the move loop of [search].  Justification: params.go:77-83 sets lmp[i] = 6 + int((i+0.5)^1.3)
    >= 7 for i = 1..15, LmpMovesSearched(depth) = lmp[min(depth,15)] (:90-95), and the move loop
    is only reached with depth >= 1 (depth == 0 delegates to qsearch, alphabeta.go:190-192);
    lmp[0] = 0 is never used.  (Checked on the engine: LmpMovesSearched(d) >= 7 for d = 1..40.) *)

From FG Require Import Terminal.
From Coq Require Import List ZArith Bool Arith Lia.
Import ListNotations.

(** ** search *)

Lemma sloop_mono in_check thr dec l : forall i ms mp,
  ms <= r_searched (sloop in_check thr dec l i ms mp) /\
  mp <= r_pruned (sloop in_check thr dec l i ms mp).
Proof.
  induction l as [ | lg l IH]; intros i ms mp; cbn [sloop]; cbv zeta; [cbn; lia | ].
  assert (D : forall b : bool,
             ms <= r_searched (if b then sloop in_check thr dec l (S i) ms mp
                               else if ld_stop (dec i) then mkLres (S ms) mp true
                                    else if ld_cut (dec i) then mkLres (S ms) mp false
                                         else sloop in_check thr dec l (S i) (S ms) mp) /\
             mp <= r_pruned (if b then sloop in_check thr dec l (S i) ms mp
                             else if ld_stop (dec i) then mkLres (S ms) mp true
                                  else if ld_cut (dec i) then mkLres (S ms) mp false
                                       else sloop in_check thr dec l (S i) (S ms) mp)).
  { intros [ | ]; [apply IH | ].
    destruct (ld_stop (dec i)); [cbn; lia | ].
    destruct (ld_cut (dec i)); [cbn; lia | ].
    destruct (IH (S i) (S ms) mp). lia. }
  destruct (negb in_check && ld_guard (dec i)); [ | apply D].
  destruct (ld_fut (dec i)); [destruct (IH (S i) ms (S mp)); lia | ].
  destruct (ld_lmp (dec i) && (thr <=? ms)); [apply IH | apply D].
Qed.

(** nothing searched and nothing futility-pruned: every delivered move was made and found illegal *)
Lemma sloop_none in_check thr dec : 1 <= thr -> forall l i mp,
  r_searched (sloop in_check thr dec l i 0 mp) = 0 ->
  r_pruned (sloop in_check thr dec l i 0 mp) = mp ->
  Forall (fun lg => lg = false) l.
Proof.
  intros Hthr. induction l as [ | lg l IH]; intros i mp; cbn [sloop]; cbv zeta; [constructor | ].
  assert (D : forall r,
             r = (if negb lg then sloop in_check thr dec l (S i) 0 mp
                  else if ld_stop (dec i) then mkLres 1 mp true
                       else if ld_cut (dec i) then mkLres 1 mp false
                            else sloop in_check thr dec l (S i) 1 mp) ->
             r_searched r = 0 -> r_pruned r = mp -> Forall (fun lg => lg = false) (lg :: l)).
  { intros r -> H1 H2. destruct lg; cbn [negb] in *.
    - exfalso. destruct (ld_stop (dec i)); [cbn in H1; lia | ].
      destruct (ld_cut (dec i)); [cbn in H1; lia | ].
      destruct (sloop_mono in_check thr dec l (S i) 1 mp). lia.
    - constructor; auto. eapply IH; eauto. }
  destruct (negb in_check && ld_guard (dec i)).
  - destruct (ld_fut (dec i)).
    + intros _ H2. exfalso. destruct (sloop_mono in_check thr dec l (S i) 0 (S mp)). lia.
    + assert (E : thr <=? 0 = false) by (apply Nat.leb_gt; lia).
      rewrite E, andb_false_r. intros H1 H2. eapply D; eauto.
  - intros H1 H2. eapply D; eauto.
Qed.

(** *** C07 for [search]: under every oracle (every configuration of pruning heuristics, every
    stop moment), if the node is scored as mate or stalemate then HasLegalMove answered "no",
    or every move the generator delivered is illegal.  The verdict is mate exactly when the
    side to move is in check. *)
Theorem terminal_sound in_check hl thr dec stop_end flags :
  1 <= thr ->
  search_verdict true in_check hl thr dec stop_end flags <> VNone ->
  (hl = false \/ Forall (fun lg => lg = false) flags) /\
  (search_verdict true in_check hl thr dec stop_end flags = VMate <-> in_check = true).
Proof.
  intros Hthr. unfold search_verdict, classify.
  set (r := sloop in_check thr dec flags 0 0 0).
  destruct (r_returned r); [congruence | ].
  destruct (r_searched r =? 0) eqn:E1; cbn [andb]; [ | congruence].
  destruct (negb stop_end); cbn [andb]; [ | congruence].
  destruct (r_pruned r =? 0) eqn:E2; cbn [orb andb].
  - intros _. split.
    + right. apply Nat.eqb_eq in E1, E2. eapply (sloop_none in_check thr dec Hthr flags 0 0); auto.
    + destruct in_check; split; congruence.
  - destruct hl; cbn [negb]; [congruence | ]. intros _. split; [now left | ].
    destruct in_check; split; congruence.
Qed.

(** with HasLegalMove = "some delivered move is legal" (C01/C08: the GenAll moves contain every
    legal move): the side to move has no legal move *)
Corollary terminal_sound_no_legal_move in_check thr dec stop_end flags :
  1 <= thr ->
  search_verdict true in_check (existsb (fun lg => lg) flags) thr dec stop_end flags <> VNone ->
  forall lg, In lg flags -> lg = false.
Proof.
  intros Hthr H. destruct (terminal_sound _ _ _ _ _ _ Hthr H) as [[H1 | H1] _].
  - intros lg Hin. destruct lg; auto. exfalso.
    assert (X : existsb (fun lg => lg) flags = true) by (apply existsb_exists; eauto).
    congruence.
  - now apply Forall_forall.
Qed.

(** the value stored is -MATE+ply for mate and 0 for stalemate (:731, :737) *)
Lemma terminal_value_spec v ply :
  terminal_value v ply = match v with VMate => Some (- MATE + ply)%Z | VStalemate => Some 0%Z | VNone => None end.
Proof. destruct v; reflexivity. Qed.

(** *** Without the clause [(movesPruned == 0 || !HasLegalMove)] (the code before the repair)
    the statement is false: a node whose only move is legal but futility-pruned is scored
    as stalemate. *)
Definition fp_all : nat -> ldec := fun _ => mkLdec true true false false false.

Theorem terminal_refuted_without_probe :
  exists in_check hl thr dec stop_end flags,
    1 <= thr /\ hl = existsb (fun lg => lg) flags /\
    search_verdict false in_check hl thr dec stop_end flags = VStalemate /\
    In true flags.
Proof.
  exists false, true, 7, fp_all, false, [true].
  split; [lia | ]. split; [reflexivity | ]. split; [reflexivity | now left].
Qed.

(** the same node under the real code: not classified (the futility bound stands) *)
Example probe_repairs_witness :
  search_verdict true false true 7 fp_all false [true] = VNone.
Proof. reflexivity. Qed.

(** non-vacuity of [terminal_sound]: a stalemate and a mate that ARE classified, with the
    pruning block open, and a node where futility pruning skipped illegal moves only *)
Example ex_stalemate :
  search_verdict true false false 7 (fun _ => mkLdec true false true false false) false [false; false; false] = VStalemate.
Proof. reflexivity. Qed.

Example ex_mate :
  search_verdict true true false 7 fp_all false [false; false] = VMate.
Proof. reflexivity. Qed.

Example ex_pruned_illegal_only :
  search_verdict true false false 7 fp_all false [false; false] = VStalemate.
Proof. reflexivity. Qed.

(** ** qsearch *)

Lemma qloop_mono in_check dec l : forall i ms, ms <= r_searched (qloop in_check dec l i ms).
Proof.
  induction l as [ | lg l IH]; intros i ms; cbn [qloop]; cbv zeta; [cbn; lia | ].
  destruct (negb in_check && q_guard (dec i) && q_fut (dec i)); [apply IH | ].
  destruct (negb in_check && negb (q_good (dec i))); [apply IH | ].
  destruct (negb lg); [apply IH | ].
  destruct (q_stop (dec i)); [cbn; lia | ].
  destruct (q_cut (dec i)); [cbn; lia | ].
  specialize (IH (S i) (S ms)). lia.
Qed.

Lemma qloop_none dec : forall l i,
  r_searched (qloop true dec l i 0) = 0 -> Forall (fun lg => lg = false) l.
Proof.
  induction l as [ | lg l IH]; intros i; cbn [qloop negb andb]; cbv zeta; [constructor | ].
  destruct lg; cbn [negb].
  - intros H. exfalso. destruct (q_stop (dec i)); [cbn in H; lia | ].
    destruct (q_cut (dec i)); [cbn in H; lia | ].
    pose proof (qloop_mono true dec l (S i) 1). lia.
  - intros H. constructor; auto. eapply IH; eauto.
Qed.

(** *** C07 for [qsearch]: a mate is only scored when in check, and then nothing is pruned
    (all prunings of qsearch are guarded by !hasCheck) and all GenAll moves are illegal. *)
Theorem qsearch_terminal_sound in_check dec stop_end flags nonquiet :
  qsearch_verdict in_check dec stop_end flags nonquiet <> VNone ->
  qsearch_verdict in_check dec stop_end flags nonquiet = VMate /\
  in_check = true /\ Forall (fun lg => lg = false) flags.
Proof.
  unfold qsearch_verdict. cbv zeta.
  destruct in_check.
  - set (r := qloop true dec flags 0 0).
    destruct (r_returned r); [congruence | ].
    destruct (r_searched r =? 0) eqn:E; cbn [andb]; [ | congruence].
    destruct (negb stop_end); cbn [andb]; [ | congruence].
    intros _. repeat split; auto. apply Nat.eqb_eq in E. eapply qloop_none; eauto.
  - destruct (r_returned _); [congruence | ]. rewrite andb_false_r. congruence.
Qed.

Example ex_qmate :
  qsearch_verdict true (fun _ => mkQdec true true false false false) false [false; false] [] = VMate.
Proof. reflexivity. Qed.

(** not in check: never classified, whatever is pruned *)
Example ex_q_quiet :
  qsearch_verdict false (fun _ => mkQdec true true false false false) false [true; false] [0] = VNone.
Proof. reflexivity. Qed.

(** ** Root *)

(** *** C07, converse at the root: a root position without legal moves is reported as mated
    (value -MATE) when in check and as a draw (0) otherwise, with no best move; a root with
    a legal move never takes this branch. *)
Theorem root_terminal_spec in_check legal :
  (legal = [] -> root_terminal in_check legal = Some (None, if in_check then (- MATE)%Z else 0%Z)) /\
  (legal <> [] -> root_terminal in_check legal = None).
Proof.
  split; intros H.
  - now subst.
  - destruct legal; [congruence | reflexivity].
Qed.

Example ex_root_mate : root_terminal true [] = Some (None, (-10000)%Z).
Proof. reflexivity. Qed.
Example ex_root_stalemate : root_terminal false [] = Some (None, 0%Z).
Proof. reflexivity. Qed.

Print Assumptions terminal_sound.
Print Assumptions terminal_sound_no_legal_move.
Print Assumptions terminal_refuted_without_probe.
Print Assumptions qsearch_terminal_sound.
Print Assumptions root_terminal_spec.
