(** * CasesEnc: evaluation helper for the C17 correspondence run (move encoding). *)
From Coq Require Import ZArith NArith List Bool.
From FG Require Import MoveEnc.
Import ListNotations.

Definition enc_case (c : N*N*N*N*Z*N*N * (N*N*N*N*N*Z*N*bool) * (N*Z*N)) : bool :=
  let '(f, t, ty, pr, v, cm, cmv, (m32, gf, gt, gty, gpr, gv, gmo, gvalid), (sm, sv, sgot)) := c in
  enc_create_ok f t ty pr v cm cmv && enc_get_ok m32 gf gt gty gpr gv gmo gvalid && enc_set_ok sm sv sgot.

Fixpoint enc_mismatches_from (i : nat) (cases : list _) : list nat :=
  match cases with
  | [] => []
  | c :: r => (if enc_case c then [] else [i]) ++ enc_mismatches_from (S i) r
  end.
Definition enc_mismatches := enc_mismatches_from 0.
