(** * MovegenSummary: the theorems of the move generator development (C01, C08) in one place.

    Files (build order):
      MovegenImpl            the executable model of movegen.go (definitions only; validated against
                             the real engine by the correspondence run: gen_case_ok, has_legal_case_ok,
                             od_case_ok)
      MovegenProofsOD        chess independent: moveslice.Sort and the GetNextMove state machine
      MovegenLemmas          shared facts (lists, words, codes, legal positions)
      MovegenSpec            facts about Rules.pseudo (shape, NoDup, classes)
      MovegenProofsPieces    officers, king, castling
      MovegenProofsPawns     pawn captures, promotions, en passant, double / single steps
      MovegenProofsMain      pseudo_exact, modes_partition
      MovegenMakeLegal       Rules.make preserves Rules.legal_pos
      MovegenProofsLegal     legal_moves_exact, perft_exact
      MovegenProofsODChess   the phased generator on a chess position (non-evasion)
      MovegenProofsEvasion   evasion list = filter of the non-evasion list; sound, no duplicates
      MovegenProofsEvasionComplete   evasion omits only illegal moves
      MovegenProofsODEvasion the phased generator in evasion mode
      MovegenProofsHasLegal  HasLegalMove
      MovegenExamples        vm_compute examples

    Dependencies on the attack / legality development (imported, not assumed):
      AttacksProofs.attacks_to_exact, AttacksLegalProofs.legal_pre_post_agree and lemmas of
      AttacksMoves / AttacksCheckProofs.  Every theorem below is closed under the global context
      except for the primitive 63-bit integer operations used by the dumped tables. *)
From FG Require Import MovegenImpl MovegenProofsOD MovegenLemmas MovegenSpec MovegenProofsPieces MovegenProofsPawns
                       MovegenProofsMain MovegenMakeLegal MovegenProofsLegal MovegenProofsODChess
                       MovegenProofsEvasion MovegenProofsEvasionComplete MovegenProofsODEvasion MovegenProofsHasLegal.

(* per piece class *)
Check gen_moves_exact. Check gen_king_moves_exact. Check gen_castling_exact.
Check gen_pawn_captures_exact. Check gen_enpassant_exact. Check gen_pawn_promotions_exact.
Check gen_pawn_double_exact. Check gen_pawn_pushes_exact.
(* C01 *)
Check pseudo_exact. Check modes_partition. Check mode_lists_spec. Check sorted_pseudo_exact.
Check legal_moves_exact. Check make_preserves_legal_pos. Check perft_exact.
(* C08 *)
Check go_sort_perm. Check od_sequence. Check od_sequence_noevasion. Check od_sequence_evasion.
Check od_chess_noevasion. Check od_chess_evasion. Check od_chess_evasion_legal.
Check evasion_targets_some. Check gen_pseudo_evasion_filter. Check evasion_sound. Check evasion_nodup.
Check legal_in_check_kept. Check evasion_complete. Check evasion_complete_engine.
Check has_legal_candidates. Check has_legal_move_exact.

Print Assumptions pseudo_exact.
Print Assumptions modes_partition.
Print Assumptions legal_moves_exact.
Print Assumptions make_preserves_legal_pos.
Print Assumptions perft_exact.
Print Assumptions od_sequence.
Print Assumptions od_chess_noevasion.
Print Assumptions od_chess_evasion_legal.
Print Assumptions evasion_sound.
Print Assumptions evasion_nodup.
Print Assumptions evasion_complete_engine.
Print Assumptions has_legal_move_exact.
