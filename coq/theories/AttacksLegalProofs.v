(** * AttacksLegalProofs: IsLegalMove (before the move) and WasLegalMove (after the move)
    agree with each other and with the rules, for every pseudo-legal move (C09, part 3). *)
From Coq Require Import NArith ZArith List Bool Lia ZifyN ZifyBool Btauto.
From FG Require Import Word64 Geom Tables TablesCorrect ShiftCorrect Rules FenSpec Oracle BitView
  AttacksImpl AttacksLemmas AttacksProofs AttacksMoves AttacksCheckProofs.
From FG.gen Require Import Tables_gen.
Import ListNotations.
Open Scope N_scope.

(** ** the position after a pseudo-legal move is good enough for the attack queries *)
Lemma at_put_cases b : forall s v u, at_ (put b s v) u = v \/ at_ (put b s v) u = at_ b u.
Proof.
  unfold at_, put. intros s v u. generalize (N.to_nat s) (N.to_nat u). clear s u.
  induction b as [|x b IH]; intros [|n] [|k]; cbn [set_nth nth]; auto.
Qed.

Lemma codes_ok_put' b s v : codes_ok b -> v < 16 -> codes_ok (put b s v).
Proof. intros Hc Hv u. destruct (at_put_cases b s v u) as [-> | ->]; [exact Hv|apply Hc]. Qed.

Lemma make_length p m : length (brd p) = 64%nat -> length (brd (make p m)) = 64%nat.
Proof.
  intros H. unfold make. cbn [brd].
  destruct (mtype m =? ENPASSANT); [now rewrite !put_length|].
  destruct (mtype m =? CASTLING); [|now rewrite !put_length].
  destruct (rook_castle_squares (mto m)). now rewrite !put_length.
Qed.

Lemma make_codes p m : codes_ok (brd p) -> stm p < 2 -> mprom m <= 6 -> codes_ok (brd (make p m)).
Proof.
  intros Hc Hs Hp. unfold make. cbn [brd].
  assert (H1 : codes_ok (put (put (brd p) (mfrom m) 0) (mto m)
            (if mtype m =? PROMOTION then mk_piece (stm p) (mprom m) else at_ (brd p) (mfrom m)))).
  { apply codes_ok_put'; [apply codes_ok_put'; [exact Hc|lia]|].
    destruct (mtype m =? PROMOTION); [unfold mk_piece; lia|apply Hc]. }
  destruct (mtype m =? ENPASSANT); [apply codes_ok_put'; [exact H1|lia]|].
  destruct (mtype m =? CASTLING); [|exact H1].
  destruct (rook_castle_squares (mto m)).
  apply codes_ok_put'; [apply codes_ok_put'; [exact H1|lia]|]. unfold mk_piece, ROOK. lia.
Qed.

Lemma rank_lt s : s < 64 -> rank_of s < 8.
Proof.
  intros H. unfold rank_of. rewrite N.shiftr_div_pow2. change (2 ^ 3) with 8.
  apply N.div_lt_upper_bound; lia.
Qed.

Lemma make_ep p m : mfrom m < 64 -> mto m < 64 -> ep (make p m) = 64 \/ 8 <= ep (make p m) < 56.
Proof.
  intros Hf Ht. unfold make. cbn [ep].
  destruct (type_of (at_ (brd p) (mfrom m)) =? PAWN); cbn [andb]; [|now left].
  destruct (N.eqb_spec (zabs_diff (rank_of (mfrom m)) (rank_of (mto m))) 2) as [E|E]; [right|now left].
  pose proof (rank_lt _ Hf) as Rf. pose proof (rank_lt _ Ht) as Rt.
  assert (Hfile : file_of (mfrom m) < 8) by (rewrite file_of_mod; apply N.mod_lt; discriminate).
  unfold mk_sq. unfold zabs_diff in E.
  set (rf := rank_of (mfrom m)) in *. set (rt := rank_of (mto m)) in *.
  assert (Hmid : 1 <= (rf + rt) / 2 <= 6).
  { destruct (rf <=? rt) eqn:El.
    - apply N.leb_le in El. assert (rf + rt = 2 * (rf + 1)) as -> by lia.
      rewrite N.mul_comm, N.div_mul by discriminate. lia.
    - apply N.leb_gt in El. assert (rf + rt = 2 * (rt + 1)) as -> by lia.
      rewrite N.mul_comm, N.div_mul by discriminate. lia. }
  lia.
Qed.

Lemma pm_kind_bounds p m : stm p < 2 -> pm_kind p m ->
  mfrom m < 64 /\ mto m < 64 /\ mtype m < 4 /\ 3 <= mprom m <= 6.
Proof.
  intros Hs [H1 H2 H3 H4 H5 H6 | H1 H2 H3 H4 H5 H6 H7 H8 | kf kt rf bt empties Hc Hm Hk Hr He].
  - repeat split; try assumption; destruct H6 as [[E1 E2]|[E1 [_ E2]]]; rewrite ?E1, ?E2; unfold NORMAL, PROMOTION; lia.
  - rewrite H1, H2. unfold ENPASSANT. repeat split; try assumption; lia.
  - subst m. cbn [mfrom mto mtype mprom].
    assert (stm p = 0 \/ stm p = 1) as [E|E] by lia; rewrite E in Hc; cbn [castles N.eqb WHITE] in Hc;
      destruct Hc as [Hc|[Hc|[]]]; injection Hc as <- <- <- <- <-; unfold CASTLING; repeat split; lia.
Qed.

Lemma wf_att_make p m : legal_pos p = true -> pm_kind p m -> wf_att (make p m).
Proof.
  intros Hlp Hk. pose proof (legal_pos_facts p Hlp) as Hf.
  destruct (pm_kind_bounds p m (lf_stm _ _ Hf) Hk) as (B1 & B2 & B3 & B4).
  repeat split.
  - apply make_length. apply (lf_len _ _ Hf).
  - apply make_codes; [apply valid_codes_ok, (lf_valid _ _ Hf)|apply (lf_stm _ _ Hf)|lia].
  - now apply make_ep.
Qed.

(** ** the mover's king after the move *)
Lemma own_king_intro b b' c k' Ch : k' < 64 -> at_ b' k' = mk_piece c KING ->
  (forall a, a < 64 -> ~ In a Ch -> at_ b' a = at_ b a) ->
  (forall a, In a Ch -> a <> k' -> at_ b' a <> mk_piece c KING) ->
  (forall s, s < 64 -> at_ b s = mk_piece c KING -> ~ In s Ch -> s = k') ->
  king_sq b' c = k'.
Proof.
  intros Hk Hat Hsame Hch Hu. apply king_sq_intro; [exact Hk|exact Hat|].
  intros s Hs Hs'. destruct (N.eq_dec s k') as [E|E]; [exact E|].
  destruct (in_dec N.eq_dec s Ch) as [Hin|Hin].
  - exfalso. now apply (Hch s Hin E).
  - rewrite Hsame in Hs' by assumption. now apply Hu.
Qed.

(* the board after each kind of move, square by square *)
Lemma at_make_simple p m : length (brd p) = 64%nat -> mfrom m < 64 -> mto m < 64 ->
  mtype m = NORMAL \/ mtype m = PROMOTION ->
  forall a, at_ (brd (make p m)) a =
    if a =? mto m then (if mtype m =? PROMOTION then mk_piece (stm p) (mprom m) else at_ (brd p) (mfrom m))
    else if a =? mfrom m then 0 else at_ (brd p) a.
Proof.
  intros Hl Hf Ht Hmt a. rewrite make_brd_simple by exact Hmt.
  rewrite at_put by (try rewrite put_length; assumption). destruct (a =? mto m); [reflexivity|].
  now rewrite at_put.
Qed.

Lemma at_make_ep p m : length (brd p) = 64%nat -> stm p < 2 -> mfrom m < 64 -> mto m < 64 ->
  8 <= mto m < 56 -> mtype m = ENPASSANT -> In (mto m) (pawn_attack_targets (stm p) (mfrom m)) ->
  forall a, at_ (brd (make p m)) a =
    if a =? ep_victim (stm p) (mto m) then 0
    else if a =? mto m then at_ (brd p) (mfrom m) else if a =? mfrom m then 0 else at_ (brd p) a.
Proof.
  intros Hl Hs Hf Ht Hr Hmt Hin a. rewrite make_brd_ep by exact Hmt.
  rewrite (ep_square (stm p) (mfrom m) (mto m) Hs Hf Hin).
  assert (Hv : ep_victim (stm p) (mto m) < 64) by (unfold ep_victim; destruct (stm p =? WHITE); lia).
  rewrite at_put by (try rewrite !put_length; assumption).
  destruct (a =? ep_victim (stm p) (mto m)); [reflexivity|].
  rewrite at_put by (try rewrite put_length; assumption). destruct (a =? mto m); [reflexivity|].
  now rewrite at_put.
Qed.

Lemma at_make_castle p kf kt rf rt : length (brd p) = 64%nat ->
  kf < 64 -> kt < 64 -> rf < 64 -> rt < 64 -> rook_castle_squares kt = (rf, rt) ->
  forall a, at_ (brd (make p (mkmv kf kt CASTLING 3))) a =
    if a =? rt then mk_piece (stm p) ROOK else if a =? rf then 0
    else if a =? kt then at_ (brd p) kf else if a =? kf then 0 else at_ (brd p) a.
Proof.
  intros Hl L1 L2 L3 L4 Hr a. rewrite make_brd_castle by reflexivity. cbn [mfrom mto]. rewrite Hr. cbn [fst snd].
  rewrite at_put by (try rewrite !put_length; assumption). destruct (a =? rt); [reflexivity|].
  rewrite at_put by (try rewrite !put_length; assumption). destruct (a =? rf); [reflexivity|].
  rewrite at_put by (try rewrite !put_length; assumption). destruct (a =? kt); [reflexivity|].
  now rewrite at_put.
Qed.

Lemma king_sq_own p K : lfacts p K ->
  king_sq (brd p) (stm p) < 64 /\ at_ (brd p) (king_sq (brd p) (stm p)) = mk_piece (stm p) KING.
Proof. intros H. apply (lf_own_king _ _ H). Qed.

Lemma col_of_mk c ty : ty < 8 -> colour_of (mk_piece c ty) = c.
Proof. intros H. now destruct (mk_piece_parts c ty H). Qed.

Lemma own_king_after p m K : legal_pos p = true -> lfacts p K -> pm_kind p m ->
  exists k', king_sq (brd (make p m)) (stm p) = k' /\ k' < 64 /\
             at_ (brd (make p m)) k' = mk_piece (stm p) KING.
Proof.
  intros Hlp Hf Hk. pose proof Hf as [Hl Hv Hs HKe HK HKat HKu [Hok1 Hok2] Hou Hno].
  destruct Hk as [H1 H2 H3 H4 H5 H6 | H1 H2 H3 H4 H5 H6 H7 H8 | kf kt rf bt empties Hc Hm Hk Hr He].
  - (* normal move or promotion *)
    assert (Hmt : mtype m = NORMAL \/ mtype m = PROMOTION) by (destruct H6 as [[? _]|[? _]]; tauto).
    pose proof (at_make_simple p m Hl H1 H2 Hmt) as Hat.
    set (b := brd p) in *. set (c := stm p) in *. set (k0 := king_sq b c) in *.
    set (f := mfrom m) in *. set (t := mto m) in *.
    assert (Hft : f <> t).
    { intros E. destruct H5 as [H0|[_ [H0 _]]]; rewrite <- E in H0; contradiction. }
    assert (Hk0t : k0 <> t).
    { intros E. destruct H5 as [H0|[_ [H0 _]]]; rewrite <- E in H0; rewrite Hok2 in H0.
      - unfold mk_piece, KING in H0. lia.
      - rewrite col_of_mk in H0 by (unfold KING; lia). contradiction. }
    assert (Hsame : forall a, a < 64 -> ~ In a [f; t] -> at_ (brd (make p m)) a = at_ b a).
    { intros a _ Hn'. rewrite Hat. cbn [In] in Hn'.
      destruct (N.eqb_spec a t); [exfalso; apply Hn'; auto|].
      destruct (N.eqb_spec a f); [exfalso; apply Hn'; auto|reflexivity]. }
    assert (Hatf : at_ (brd (make p m)) f = 0).
    { rewrite Hat. apply N.eqb_neq in Hft. now rewrite Hft, N.eqb_refl. }
    destruct (N.eq_dec (at_ b f) (mk_piece c KING)) as [Ek|Ek].
    + (* the king moves *)
      assert (Hn : mtype m = NORMAL).
      { destruct H6 as [[? _]|[_ [E _]]]; [assumption|]. rewrite Ek in E.
        destruct (mk_piece_parts c KING) as [_ Ht']; [unfold KING; lia|]. rewrite Ht' in E. discriminate. }
      assert (Hatt : at_ (brd (make p m)) t = mk_piece c KING).
      { rewrite Hat, N.eqb_refl, Hn. change (NORMAL =? PROMOTION) with false. cbv iota. exact Ek. }
      exists t. split; [|split; [exact H2|exact Hatt]].
      apply (own_king_intro b _ c t [f; t]); try assumption.
      * intros a [<-|[<-|[]]] Hne; [|contradiction]. rewrite Hatf. unfold mk_piece, KING. lia.
      * intros s Hs' Hs'' Hnin. exfalso. apply Hnin. left.
        pose proof (Hou s Hs' Hs''). pose proof (Hou f H1 Ek). congruence.
    + (* another piece moves *)
      assert (Hk0f : k0 <> f) by (intros E; apply Ek; rewrite <- E; exact Hok2).
      assert (Hat0 : at_ (brd (make p m)) k0 = mk_piece c KING).
      { rewrite Hat. apply N.eqb_neq in Hk0t, Hk0f. now rewrite Hk0t, Hk0f. }
      exists k0. split; [|split; [exact Hok1|exact Hat0]].
      apply (own_king_intro b _ c k0 [f; t]); try assumption.
      * intros a [<-|[<-|[]]] Hne.
        -- rewrite Hatf. unfold mk_piece, KING. lia.
        -- rewrite Hat, N.eqb_refl. destruct H6 as [[E1 _]|[E1 [_ E2]]]; rewrite E1.
           ++ change (NORMAL =? PROMOTION) with false. cbv iota. exact Ek.
           ++ change (PROMOTION =? PROMOTION) with true. cbv iota. unfold mk_piece, KING. lia.
      * intros s Hs' Hs'' _. now apply Hou.
  - (* en passant *)
    assert (Hne : ep p <> 64) by (rewrite <- H4; lia).
    destruct (legal_ep_facts p Hlp Hne) as (Hr & _ & Hvic). rewrite <- H4 in Hr, Hvic.
    pose proof (at_make_ep p m Hl Hs H3 H5 Hr H1 H8) as Hat.
    set (b := brd p) in *. set (c := stm p) in *. set (k0 := king_sq b c) in *.
    set (f := mfrom m) in *. set (t := mto m) in *. set (v := ep_victim c t) in *.
    assert (Hvt : v <> t) by (unfold v, ep_victim; destruct (c =? WHITE); lia).
    assert (Hft : f <> t) by (intros E; rewrite E in H6; rewrite H6 in H7; unfold mk_piece, PAWN in H7; lia).
    assert (Hvf : v <> f).
    { intros E. rewrite E in Hvic. rewrite H6 in Hvic. unfold mk_piece, PAWN, flip in Hvic. lia. }
    assert (Hk0 : k0 <> f /\ k0 <> t /\ k0 <> v).
    { repeat split; intros E; rewrite E in Hok2; rewrite Hok2 in *.
      - unfold mk_piece, KING, PAWN in H6. lia.
      - unfold mk_piece, KING in H7. lia.
      - unfold mk_piece, KING, PAWN, flip in Hvic. lia. }
    destruct Hk0 as (N1 & N2 & N3).
    assert (Hat0 : at_ (brd (make p m)) k0 = mk_piece c KING).
    { rewrite Hat. apply N.eqb_neq in N1, N2, N3. now rewrite N3, N2, N1. }
    exists k0. split; [|split; [exact Hok1|exact Hat0]].
    apply (own_king_intro b _ c k0 [f; t; v]); try assumption.
    + intros a _ Hn'. rewrite Hat. cbn [In] in Hn'.
      destruct (N.eqb_spec a v); [exfalso; apply Hn'; auto|].
      destruct (N.eqb_spec a t); [exfalso; apply Hn'; auto|].
      destruct (N.eqb_spec a f); [exfalso; apply Hn'; auto|reflexivity].
    + intros a [<-|[<-|[<-|[]]]] _; rewrite Hat.
      * replace (f =? v) with false by (symmetry; apply N.eqb_neq; congruence).
        apply N.eqb_neq in Hft. rewrite Hft, N.eqb_refl. unfold mk_piece, KING. lia.
      * replace (t =? v) with false by (symmetry; apply N.eqb_neq; congruence).
        rewrite N.eqb_refl, H6. unfold mk_piece, KING, PAWN. lia.
      * rewrite N.eqb_refl. unfold mk_piece, KING. lia.
    + intros s Hs' Hs'' _. now apply Hou.
  - (* castling *)
    subst m. unfold is_piece in Hk, Hr. apply N.eqb_eq in Hk, Hr.
    assert (Hsq : kf < 64 /\ kt < 64 /\ rf < 64 /\ snd (rook_castle_squares kt) < 64 /\
                  rook_castle_squares kt = (rf, snd (rook_castle_squares kt)) /\
                  kf <> kt /\ kf <> rf /\ kf <> snd (rook_castle_squares kt) /\ kt <> rf /\
                  kt <> snd (rook_castle_squares kt) /\ rf <> snd (rook_castle_squares kt)).
    { assert (stm p = 0 \/ stm p = 1) as [E|E] by lia; rewrite E in Hc; cbn [castles N.eqb WHITE] in Hc;
        destruct Hc as [Hc|[Hc|[]]]; injection Hc as <- <- <- <- <-; cbn; repeat split; try lia; reflexivity. }
    set (rt := snd (rook_castle_squares kt)) in *.
    destruct Hsq as (L1 & L2 & L3 & L4 & Hrcs & D1 & D2 & D3 & D4 & D5 & D6).
    pose proof (at_make_castle p kf kt rf rt Hl L1 L2 L3 L4 Hrcs) as Hat.
    set (b := brd p) in *. set (c := stm p) in *.
    assert (Hatk : at_ (brd (make p (mkmv kf kt CASTLING 3))) kt = mk_piece c KING).
    { rewrite Hat. apply N.eqb_neq in D5, D4. now rewrite D5, D4, N.eqb_refl. }
    exists kt. split; [|split; [exact L2|exact Hatk]].
    apply (own_king_intro b _ c kt [kf; kt; rf; rt]); try assumption.
    + intros a _ Hn'. rewrite Hat. cbn [In] in Hn'.
      destruct (N.eqb_spec a rt); [exfalso; apply Hn'; auto|].
      destruct (N.eqb_spec a rf); [exfalso; apply Hn'; auto|].
      destruct (N.eqb_spec a kt); [exfalso; apply Hn'; auto|].
      destruct (N.eqb_spec a kf); [exfalso; apply Hn'; auto|reflexivity].
    + intros a [<-|[<-|[<-|[<-|[]]]]] Hne; rewrite Hat.
      * apply N.eqb_neq in D1, D2, D3. rewrite D3, D2, D1, N.eqb_refl. unfold mk_piece, KING. lia.
      * contradiction.
      * apply N.eqb_neq in D6. rewrite D6, N.eqb_refl. unfold mk_piece, KING. lia.
      * rewrite N.eqb_refl. unfold mk_piece, KING, ROOK. lia.
    + intros s Hs' Hs'' Hnin. exfalso. apply Hnin. left.
      pose proof (Hou s Hs' Hs''). pose proof (Hou kf L1 Hk). congruence.
Qed.

(** ** "is the mover's king attacked after the move" -- the common tail of both tests *)
Lemma after_check_exact p m K : legal_pos p = true -> lfacts p K -> pm_kind p m ->
  (do k <- king_square (view_of_spec (make p m)) (flipc (vstm (view_of_spec (make p m))));
   is_attacked_impl (view_of_spec (make p m)) k (vstm (view_of_spec (make p m))))
  = Some (in_check_b (brd (make p m)) (stm p)).
Proof.
  intros Hlp Hf Hk. pose proof (lf_stm _ _ Hf) as Hs.
  destruct (own_king_after p m K Hlp Hf Hk) as (k' & Hk1 & Hk2 & Hk3).
  cbn [vstm view_of_spec]. rewrite make_stm.
  rewrite flipc_flip by now apply flip_lt. rewrite flip_flip by exact Hs.
  rewrite king_square_view by exact Hs. cbn [bind]. rewrite Hk1.
  rewrite is_attacked_exact_wf; [|now apply wf_att_make|exact Hk2|now apply flip_lt].
  f_equal. unfold is_attacked_spec, in_check_b. rewrite Hk1.
  rewrite ep_conv1_false; [apply orb_false_r|].
  unfold piece_at. rewrite Hk3. apply king_not_pawn.
Qed.

(** ** the castling clause (from-square and transit square) on any well-formed position *)
Lemma castle_checks_exact q code kf tr c' : wf_att q -> c' < 2 -> kf < 64 -> tr < 64 ->
  mv_from code = kf -> castle_transit_impl (mv_to code) = Some tr ->
  piece_at q kf <> mk_piece (flip c') PAWN -> piece_at q tr <> mk_piece (flip c') PAWN ->
  castle_checks (view_of_spec q) code c' = Some (attacked (brd q) kf c' || attacked (brd q) tr c').
Proof.
  intros Hwf Hc Hkf Htr Hfrom Hto Hp1 Hp2. unfold castle_checks. rewrite Hfrom, Hto.
  rewrite is_attacked_exact_wf by assumption. cbn [bind]. unfold is_attacked_spec.
  rewrite (ep_conv1_false q kf c' Hp1), orb_false_r.
  destruct (attacked (brd q) kf c'); [reflexivity|]. cbn [orb].
  rewrite is_attacked_exact_wf by assumption. unfold is_attacked_spec.
  now rewrite (ep_conv1_false q tr c' Hp2), orb_false_r.
Qed.

Lemma castle_transit_eq kt : kt = 6 \/ kt = 2 \/ kt = 62 \/ kt = 58 ->
  castle_transit_impl kt = Some (castle_transit kt) /\ castle_transit kt = snd (rook_castle_squares kt).
Proof. intros [-> | [-> | [-> | ->]]]; split; reflexivity. Qed.

(* concrete data of a castling move *)
Record castle_data (p : pos) (kf kt rf rt : N) (empties : list N) : Prop := mk_cd {
  cd_lt : kf < 64 /\ kt < 64 /\ rf < 64 /\ rt < 64;
  cd_dist : kf <> kt /\ kf <> rf /\ kf <> rt /\ kt <> rf /\ kt <> rt /\ rf <> rt;
  cd_rcs : rook_castle_squares kt = (rf, rt);
  cd_kt : kt = 6 \/ kt = 2 \/ kt = 62 \/ kt = 58;
  cd_kin : In kt empties;
  cd_rin : In rt empties;
  cd_in : exists bt, In (kf, kt, rf, bt, empties) (castles (stm p))
}.

Lemma castle_data_of p kf kt rf bt empties : stm p < 2 -> In (kf, kt, rf, bt, empties) (castles (stm p)) ->
  castle_data p kf kt rf (snd (rook_castle_squares kt)) empties.
Proof.
  intros Hs Hc. assert (Hc' := Hc).
  assert (stm p = 0 \/ stm p = 1) as [E|E] by lia; rewrite E in Hc; cbn [castles N.eqb WHITE] in Hc;
    destruct Hc as [Hc|[Hc|[]]]; injection Hc as <- <- <- <- <-;
    (constructor; [cbn; repeat split; lia | cbn; repeat split; lia | reflexivity | tauto | cbn; tauto | cbn; tauto
                  | eexists; exact Hc']).
Qed.

(** ** castling: the from-square / transit-square tests give the same answer before and
       after the move.  (The transit square can become attacked through the square the king
       has left, but then the king's square was attacked along the same line.) *)
Definition castle_legal_geom_ok (kf kt rf rt : N) (empties : list N) : bool :=
  forallb (fun a =>
    mem a (kf :: rf :: empties) ||
    forallb (fun d =>
      (negb (ray_in 0 d kf a) || forallb (fun u => negb (mem u [kf; kt; rf; rt])) (btw d kf a)) &&
      (negb (ray_in 0 d rt a) || negb (mem kf (btw d rt a)) ||
         (ray_in 0 d kf a && forallb (fun u => mem u (btw d rt a)) (btw d kf a))) &&
      (negb (ray_in 0 d rt a) || forallb (fun u => negb (mem u [kt; rf; rt])) (btw d rt a)))
    all_dirs) squares64.

Lemma castle_legal_geom_all :
  forallb (fun c => forallb (fun '(kf, kt, rf, _, empties) =>
     castle_legal_geom_ok kf kt rf (snd (rook_castle_squares kt)) empties) (castles c)) [0; 1] = true.
Proof. vm_compute. reflexivity. Qed.

Lemma ray_transfer occA occB d s t : ray_in occA d s t = true ->
  (forall u, In u (btw d s t) -> free occA u = true -> free occB u = true) ->
  ray_in occB d s t = true.
Proof.
  rewrite (ray_in_char occA), (ray_in_char occB). intros H Hf. apply andb_true_iff in H as [H1 H2].
  rewrite H1. cbn [andb]. rewrite forallb_forall in H2. apply forallb_forall. intros u Hu.
  apply Hf; [exact Hu|now apply H2].
Qed.

Section CastleLegal.
  Variables (b b' : list N) (us kf kt rf rt : N) (empties : list N).
  Hypothesis Hus : us < 2.
  Hypothesis Hl : length b = 64%nat.
  Hypothesis Hlt : kf < 64 /\ kt < 64 /\ rf < 64 /\ rt < 64.
  Hypothesis Hkf : at_ b kf = mk_piece us KING.
  Hypothesis Hrf : at_ b rf = mk_piece us ROOK.
  Hypothesis Hemp : forall e, In e empties -> at_ b e = 0.
  Hypothesis Hktin : In kt empties.
  Hypothesis Hrtin : In rt empties.
  Hypothesis Hgeom : castle_legal_geom_ok kf kt rf rt empties = true.
  Hypothesis Hb' : forall a, at_ b' a = if a =? rt then mk_piece us ROOK else if a =? rf then 0
                                        else if a =? kt then mk_piece us KING else if a =? kf then 0 else at_ b a.
  Variables (o o' : N).
  Hypothesis Ho : o = occ_of b.
  Hypothesis Ho' : o' = occ_of b'.

  Let them := flip us.

  Lemma not_enemy_own ty ty' : ty < 8 -> ty' < 8 -> mk_piece us ty <> mk_piece them ty'.
  Proof.
    intros H1 H2 E. assert (colour_of (mk_piece us ty) = colour_of (mk_piece them ty')) by now rewrite E.
    rewrite !col_of_mk in H by assumption. unfold them in H. symmetry in H. now apply flip_neq in H.
  Qed.

  Lemma not_enemy_zero ty' : 1 <= ty' -> 0 <> mk_piece them ty'.
  Proof. unfold mk_piece. lia. Qed.

  Lemma same_off a : ~ In a [kf; kt; rf; rt] -> at_ b' a = at_ b a.
  Proof.
    intros Hn. rewrite Hb'. cbn [In] in Hn.
    destruct (N.eqb_spec a rt); [exfalso; apply Hn; auto|].
    destruct (N.eqb_spec a rf); [exfalso; apply Hn; auto 6|].
    destruct (N.eqb_spec a kt); [exfalso; apply Hn; auto|].
    destruct (N.eqb_spec a kf); [exfalso; apply Hn; auto|reflexivity].
  Qed.

  (* a square holding an enemy piece (before or after) is none of the special squares *)
  Lemma enemy_sq a ty : 1 <= ty < 8 -> at_ b a = mk_piece them ty \/ at_ b' a = mk_piece them ty ->
    mem a (kf :: rf :: empties) = false /\ ~ In a [kf; kt; rf; rt] /\ at_ b' a = at_ b a /\ at_ b a = mk_piece them ty.
  Proof.
    intros Hty H.
    assert (Hb : at_ b a = mk_piece them ty /\ ~ In a [kf; kt; rf; rt]).
    { destruct H as [H|H].
      - split; [exact H|]. cbn [In]. intros [E|[E|[E|[E|[]]]]]; subst a.
        + rewrite Hkf in H. revert H. apply not_enemy_own; unfold KING; lia.
        + rewrite (Hemp kt Hktin) in H. revert H. apply not_enemy_zero. lia.
        + rewrite Hrf in H. revert H. apply not_enemy_own; unfold ROOK; lia.
        + rewrite (Hemp rt Hrtin) in H. revert H. apply not_enemy_zero. lia.
      - assert (Hn : ~ In a [kf; kt; rf; rt]).
        { rewrite Hb' in H. cbn [In]. intros [E|[E|[E|[E|[]]]]]; subst a.
          - destruct (kf =? rt); [revert H; apply not_enemy_own; unfold ROOK; lia|].
            destruct (kf =? rf); [revert H; apply not_enemy_zero; lia|].
            destruct (kf =? kt); [revert H; apply not_enemy_own; unfold KING; lia|].
            rewrite N.eqb_refl in H. revert H. apply not_enemy_zero. lia.
          - destruct (kt =? rt); [revert H; apply not_enemy_own; unfold ROOK; lia|].
            destruct (kt =? rf); [revert H; apply not_enemy_zero; lia|].
            rewrite N.eqb_refl in H. revert H. apply not_enemy_own; unfold KING; lia.
          - destruct (rf =? rt); [revert H; apply not_enemy_own; unfold ROOK; lia|].
            rewrite N.eqb_refl in H. revert H. apply not_enemy_zero. lia.
          - rewrite N.eqb_refl in H. revert H. apply not_enemy_own; unfold ROOK; lia. }
        split; [|exact Hn]. now rewrite <- same_off. }
    destruct Hb as [Hb Hn]. repeat split; try assumption; [|now apply same_off].
    destruct (mem a (kf :: rf :: empties)) eqn:E; [|reflexivity]. exfalso.
    apply mem_In in E. destruct E as [E|[E|E]].
    - apply Hn. cbn. auto.
    - apply Hn. cbn. auto.
    - rewrite (Hemp a E) in Hb. revert Hb. apply not_enemy_zero. lia.
  Qed.

  Lemma free_same u : ~ In u [kf; kt; rf; rt] -> free o u = free o' u.
  Proof.
    intros Hn. unfold free. rewrite Ho, Ho', !occ_of_testbit. now rewrite same_off.
  Qed.

  Lemma kf_blocked : free o kf = false.
  Proof.
    unfold free. rewrite Ho, occ_of_testbit, Hkf. destruct Hlt as (L1 & _).
    replace (kf <? 64) with true by (symmetry; now apply N.ltb_lt).
    replace (mk_piece us KING =? 0) with false by (symmetry; apply N.eqb_neq; unfold mk_piece, KING; lia).
    reflexivity.
  Qed.

  Lemma lgeom a d : a < 64 -> mem a (kf :: rf :: empties) = false ->
    (ray_in 0 d kf a = true -> forall u, In u (btw d kf a) -> ~ In u [kf; kt; rf; rt]) /\
    (ray_in 0 d rt a = true -> mem kf (btw d rt a) = true ->
       ray_in 0 d kf a = true /\ forall u, In u (btw d kf a) -> In u (btw d rt a)) /\
    (ray_in 0 d rt a = true -> forall u, In u (btw d rt a) -> ~ In u [kt; rf; rt]).
  Proof.
    intros Ha Hok. pose proof (forall_squares _ Hgeom a Ha) as H. cbv beta in H. rewrite Hok in H.
    cbn [orb] in H. rewrite forallb_forall in H. specialize (H d (in_all_dirs d)).
    apply andb_true_iff in H as [H H3]. apply andb_true_iff in H as [H1 H2].
    split; [|split].
    - intros E u Hu. rewrite E in H1. cbn [negb orb] in H1. rewrite forallb_forall in H1.
      specialize (H1 u Hu). apply negb_true_iff in H1. intros Hin. apply mem_In in Hin. congruence.
    - intros E1 E2. rewrite E1, E2 in H2. cbn [negb orb] in H2. apply andb_true_iff in H2 as [H2 H2'].
      split; [exact H2|]. intros u Hu. rewrite forallb_forall in H2'. now apply mem_In, H2'.
    - intros E u Hu. rewrite E in H3. cbn [negb orb] in H3. rewrite forallb_forall in H3.
      specialize (H3 u Hu). apply negb_true_iff in H3. intros Hin. apply mem_In in Hin. congruence.
  Qed.

  (* the attack of one enemy piece on the king's square or the transit square, before/after *)
  Lemma att_pair a : a < 64 ->
    (att_from b' kf them a || att_from b' rt them a) = (att_from b kf them a || att_from b rt them a).
  Proof.
    intros Ha. destruct Hlt as (L1 & L2 & L3 & L4).
    apply bool_eq_iff. rewrite !orb_true_iff.
    assert (Hinv : forall X s, att_from X s them a = true ->
              exists ty, 1 <= ty <= 6 /\ at_ X a = mk_piece them ty /\ type_clause X s them a ty = true)
      by (intros X s; apply att_from_inv).
    split.
    - intros H.
      assert (Hex : exists ty, 1 <= ty <= 6 /\ at_ b' a = mk_piece them ty).
      { destruct H as [H|H]; destruct (Hinv _ _ H) as [ty [H1 [H2 _]]]; now exists ty. }
      destruct Hex as [ty [Hty Hpa']].
      destruct (enemy_sq a ty ltac:(lia) (or_intror Hpa')) as (Hok & Hn & Hsm & Hpa).
      rewrite !(att_from_piece b' _ them a ty Hpa') in H by lia.
      rewrite !(att_from_piece b _ them a ty Hpa) by lia.
      destruct (type_cases ty Hty) as [Hns|Hsl].
      + now rewrite <- !(nonslider_clause b' b _ them a ty Hns).
      + rewrite !slider_clause in H |- * by assumption. rewrite <- Ho. rewrite <- Ho' in H.
        unfold slide_in in *. rewrite !existsb_exists in *.
        destruct H as [[d [Hd H]]|[d [Hd H]]].
        * (* the king's old square after the move: same before *)
          left. exists d. split; [exact Hd|]. apply (ray_transfer o' o); [exact H|].
          intros u Hu Hfu. destruct (lgeom a d Ha Hok) as (G1 & _).
          rewrite (ray_in_char o') in H. apply andb_true_iff in H as [Hal _].
          rewrite (free_same u); [exact Hfu|]. now apply (G1 Hal).
        * destruct (lgeom a d Ha Hok) as (G1 & G2 & G3).
          assert (Hal : ray_in 0 d rt a = true).
          { rewrite (ray_in_char o') in H. now apply andb_true_iff in H as [Hal _]. }
          destruct (mem kf (btw d rt a)) eqn:Emk.
          -- (* the line runs through the square the king has left *)
             left. exists d. split; [exact Hd|].
             destruct (G2 Hal eq_refl) as [Hal' Hsub].
             rewrite (ray_in_char o). rewrite Hal'. cbn [andb]. apply forallb_forall. intros u Hu.
             rewrite (free_same u) by now apply (G1 Hal').
             rewrite (ray_in_char o') in H. apply andb_true_iff in H as [_ H].
             rewrite forallb_forall in H. apply H. now apply Hsub.
          -- right. exists d. split; [exact Hd|]. apply (ray_transfer o' o); [exact H|].
             intros u Hu Hfu. rewrite (free_same u); [exact Hfu|].
             pose proof (G3 Hal u Hu) as Hn3. cbn [In] in *. intros [E|[E|[E|[E|[]]]]]; subst u.
             ++ apply mem_In in Hu. congruence.
             ++ apply Hn3. auto.
             ++ apply Hn3. auto.
             ++ apply Hn3. auto.
    - intros H.
      assert (Hex : exists ty, 1 <= ty <= 6 /\ at_ b a = mk_piece them ty).
      { destruct H as [H|H]; destruct (Hinv _ _ H) as [ty [H1 [H2 _]]]; now exists ty. }
      destruct Hex as [ty [Hty Hpa]].
      destruct (enemy_sq a ty ltac:(lia) (or_introl Hpa)) as (Hok & Hn & Hsm & _).
      assert (Hpa' : at_ b' a = mk_piece them ty) by now rewrite Hsm.
      rewrite !(att_from_piece b _ them a ty Hpa) in H by lia.
      rewrite !(att_from_piece b' _ them a ty Hpa') by lia.
      destruct (type_cases ty Hty) as [Hns|Hsl].
      + now rewrite !(nonslider_clause b' b _ them a ty Hns).
      + rewrite !slider_clause in H |- * by assumption. rewrite <- Ho'. rewrite <- Ho in H.
        unfold slide_in in *. rewrite !existsb_exists in *.
        destruct H as [[d [Hd H]]|[d [Hd H]]].
        * left. exists d. split; [exact Hd|]. apply (ray_transfer o o'); [exact H|].
          intros u Hu Hfu. destruct (lgeom a d Ha Hok) as (G1 & _).
          rewrite (ray_in_char o) in H. apply andb_true_iff in H as [Hal _].
          rewrite <- (free_same u); [exact Hfu|]. now apply (G1 Hal).
        * right. exists d. split; [exact Hd|]. apply (ray_transfer o o'); [exact H|].
          intros u Hu Hfu. destruct (lgeom a d Ha Hok) as (_ & _ & G3).
          assert (Hal : ray_in 0 d rt a = true).
          { rewrite (ray_in_char o) in H. now apply andb_true_iff in H as [Hal _]. }
          rewrite <- (free_same u); [exact Hfu|].
          pose proof (G3 Hal u Hu) as Hn3. cbn [In] in *. intros [E|[E|[E|[E|[]]]]]; subst u.
          -- rewrite kf_blocked in Hfu. discriminate.
          -- apply Hn3. auto.
          -- apply Hn3. auto.
          -- apply Hn3. auto.
  Qed.

  Theorem castle_squares_same :
    attacked b' kf them || attacked b' rt them = attacked b kf them || attacked b rt them.
  Proof.
    destruct Hlt as (L1 & L2 & L3 & L4). assert (Ht : them < 2) by (unfold them; now apply flip_lt).
    apply bool_eq_iff. rewrite !orb_true_iff, !attacked_ex by assumption.
    split; intros H.
    - assert (Hex : exists a, a < 64 /\ (att_from b' kf them a || att_from b' rt them a) = true).
      { destruct H as [[a [Ha H]]|[a [Ha H]]]; exists a; (split; [exact Ha|]); rewrite H; [reflexivity|apply orb_true_r]. }
      destruct Hex as [a [Ha Hor]]. rewrite att_pair in Hor by exact Ha.
      apply orb_true_iff in Hor as [Hor|Hor]; [left|right]; now exists a.
    - assert (Hex : exists a, a < 64 /\ (att_from b kf them a || att_from b rt them a) = true).
      { destruct H as [[a [Ha H]]|[a [Ha H]]]; exists a; (split; [exact Ha|]); rewrite H; [reflexivity|apply orb_true_r]. }
      destruct Hex as [a [Ha Hor]]. rewrite <- att_pair in Hor by exact Ha.
      apply orb_true_iff in Hor as [Hor|Hor]; [left|right]; now exists a.
  Qed.
End CastleLegal.

(** ** IsLegalMove and WasLegalMove *)
Lemma flipc_flipc_stm p m : stm p < 2 -> flipc (vstm (view_of_spec (make p m))) = stm p.
Proof.
  intros Hs. cbn [vstm view_of_spec]. rewrite make_stm. rewrite flipc_flip by now apply flip_lt.
  now apply flip_flip.
Qed.

Lemma negb_if (chk : bool) : (if chk then Some false else Some true) = Some (negb chk).
Proof. now destruct chk. Qed.

(* the castling clause before the move and after the move, for a castling move of the rules *)
Lemma castle_clauses p kf kt rf bt empties :
  legal_pos p = true -> In (kf, kt, rf, bt, empties) (castles (stm p)) ->
  is_piece (brd p) kf (stm p) KING = true -> is_piece (brd p) rf (stm p) ROOK = true ->
  forallb (fun s => at_ (brd p) s =? 0) empties = true ->
  let m := mkmv kf kt CASTLING 3 in
  let bad := attacked (brd p) kf (flip (stm p)) || attacked (brd p) (castle_transit kt) (flip (stm p)) in
  castle_checks (view_of_spec p) (code m) (flip (stm p)) = Some bad /\
  castle_checks (view_of_spec (make p m)) (code m) (flip (stm p)) = Some bad.
Proof.
  intros Hlp Hc Hk Hr He m bad. pose proof (legal_pos_facts p Hlp) as Hf.
  pose proof Hf as [Hl Hv Hs HKe HK HKat HKu [Hok1 Hok2] Hou Hno].
  pose proof (castle_data_of p kf kt rf bt empties Hs Hc) as [Hlt Hdist Hrcs Hkt4 Hkin Hrin _].
  set (rt := snd (rook_castle_squares kt)) in *.
  destruct Hlt as (L1 & L2 & L3 & L4). destruct Hdist as (D1 & D2 & D3 & D4 & D5 & D6).
  unfold is_piece in Hk, Hr. apply N.eqb_eq in Hk, Hr.
  assert (Hemp : forall e, In e empties -> at_ (brd p) e = 0).
  { intros e Hein. rewrite forallb_forall in He. specialize (He e Hein). now apply N.eqb_eq in He. }
  assert (Hpk : pm_kind p m) by (apply (pm_castle p m kf kt rf bt empties); try assumption; try reflexivity;
                                 unfold is_piece; now apply N.eqb_eq).
  destruct (pm_kind_bounds p m Hs Hpk) as (B1 & B2 & B3 & B4).
  destruct (decode_code m B2 B1 B3 B4) as (E1 & E2 & E3 & E4). cbn [mto mfrom mtype mprom m] in E1, E2, E3, E4.
  destruct (castle_transit_eq kt Hkt4) as [Htr1 Htr2]. fold rt in Htr2.
  assert (Hbad : bad = attacked (brd p) kf (flip (stm p)) || attacked (brd p) rt (flip (stm p))).
  { unfold bad. now rewrite Htr2. }
  assert (Hfl : flip (flip (stm p)) = stm p) by now apply flip_flip.
  split.
  - rewrite Hbad. apply castle_checks_exact; try assumption.
    + now apply legal_pos_wf.
    + now apply flip_lt.
    + rewrite E1, Htr1, Htr2. reflexivity.
    + unfold piece_at. rewrite Hk, Hfl. apply king_not_pawn.
    + unfold piece_at. rewrite (Hemp rt Hrin), Hfl. unfold mk_piece, PAWN. lia.
  - pose proof (at_make_castle p kf kt rf rt Hl L1 L2 L3 L4 Hrcs) as Hat. rewrite Hk in Hat. fold m in Hat.
    rewrite (castle_checks_exact (make p m) (code m) kf rt (flip (stm p))); try assumption.
    + f_equal. rewrite Hbad.
      assert (Hg : castle_legal_geom_ok kf kt rf rt empties = true).
      { pose proof castle_legal_geom_all as H. rewrite forallb_forall in H.
        assert (Hi : In (stm p) [0; 1]) by (cbn; lia). specialize (H _ Hi). rewrite forallb_forall in H.
        exact (H _ Hc). }
      exact (castle_squares_same (brd p) (brd (make p m)) (stm p) kf kt rf rt empties Hs Hl
               (conj L1 (conj L2 (conj L3 L4))) Hk Hr Hemp Hkin Hrin Hg Hat (occ_of (brd p)) (occ_of (brd (make p m)))
               eq_refl eq_refl).
    + now apply wf_att_make.
    + now apply flip_lt.
    + rewrite E1, Htr1, Htr2. reflexivity.
    + unfold piece_at. rewrite Hat. apply N.eqb_neq in D1, D2, D3. rewrite D3, D2, D1, N.eqb_refl.
      unfold mk_piece, PAWN. lia.
    + unfold piece_at. rewrite Hat, N.eqb_refl, Hfl. unfold mk_piece, PAWN, ROOK. lia.
Qed.

Theorem legal_pre_post_agree p m : legal_pos p = true -> In m (pseudo p) ->
  is_legal_impl (view_of_spec p) (view_of_spec (make p m)) (code m) = Some (is_legal p m) /\
  was_legal_impl (view_of_spec (make p m)) (code m) = Some (is_legal p m).
Proof.
  intros Hlp Hin. pose proof (pseudo_inv p m Hin) as Hk.
  pose proof (legal_pos_facts p Hlp) as Hf. pose proof (lf_stm _ _ Hf) as Hs.
  destruct (pm_kind_bounds p m Hs Hk) as (B1 & B2 & B3 & B4).
  destruct (decode_code m B2 B1 B3 B4) as (E1 & E2 & E3 & E4).
  pose proof (after_check_exact p m _ Hlp Hf Hk) as Hafter.
  unfold is_legal_impl, was_legal_impl. rewrite E3.
  set (v' := view_of_spec (make p m)) in *.
  destruct (king_square v' (flipc (vstm v'))) as [k|]; [|discriminate]. cbn [bind] in Hafter |- *.
  rewrite Hafter. cbn [bind].
  assert (Hvs : vstm v' = flip (stm p)) by reflexivity.
  assert (Hvp : vstm (view_of_spec p) = stm p) by reflexivity.
  rewrite Hvs, Hvp. rewrite flipc_flip by exact Hs.
  unfold is_legal.
  destruct Hk as [H1 H2 H3 H4 H5 H6 | H1 H2 H3 H4 H5 H6 H7 H8 | kf kt rf bt empties Hc Hm Hki Hr He].
  - assert (Hnc : (mtype m =? CASTLING) = false) by (destruct H6 as [[-> _]|[-> _]]; reflexivity).
    rewrite Hnc. cbn [bind andb]. split; [reflexivity|]. apply negb_if.
  - assert (Hnc : (mtype m =? CASTLING) = false) by (rewrite H1; reflexivity).
    rewrite Hnc. cbn [bind andb]. split; [reflexivity|]. apply negb_if.
  - subst m. destruct (castle_clauses p kf kt rf bt empties Hlp Hc Hki Hr He) as [C1 C2]. cbv zeta in C1, C2.
    subst v'. rewrite C1, C2. cbn [mtype mfrom mto].
    change (CASTLING =? CASTLING) with true. cbv iota. cbn [bind].
    generalize (attacked (brd p) kf (flip (stm p))) (attacked (brd p) (castle_transit kt) (flip (stm p)))
      (in_check_b (brd (make p (mkmv kf kt CASTLING 3))) (stm p)).
    intros [|] [|] [|]; split; reflexivity.
Qed.

Corollary is_legal_exact p m : legal_pos p = true -> In m (pseudo p) ->
  is_legal_impl (view_of_spec p) (view_of_spec (make p m)) (code m) = Some (is_legal p m).
Proof. intros H1 H2. apply (legal_pre_post_agree p m H1 H2). Qed.

Corollary was_legal_exact p m : legal_pos p = true -> In m (pseudo p) ->
  was_legal_impl (view_of_spec (make p m)) (code m) = Some (is_legal p m).
Proof. intros H1 H2. apply (legal_pre_post_agree p m H1 H2). Qed.

(** ** C09 on any view that is the view of a legal specification position
    (the plug for the position model: establish [WFview (view_of_impl P) (abs P)]) *)
Theorem c09_on_views v p : WFview v p -> legal_pos p = true ->
  (forall s c, s < 64 -> c < 2 ->
     is_attacked_impl v s c = Some (is_attacked_spec p s c) /\
     attacks_to_impl v s c = Some (attacks_to_spec p s c)) /\
  has_check_impl v = Some (in_check p) /\
  (forall m, In m (legal p) -> gives_check_impl v (code m) = Some (gives_check p m)) /\
  (forall m v', In m (pseudo p) -> WFview v' (make p m) ->
     is_legal_impl v v' (code m) = Some (is_legal p m) /\
     was_legal_impl v' (code m) = Some (is_legal p m)).
Proof.
  intros Hv Hlp. unfold WFview in Hv. subst v. repeat split.
  - now apply is_attacked_exact.
  - now apply attacks_to_exact.
  - now apply has_check_exact.
  - intros m Hm. now apply gives_check_exact.
  - unfold WFview in H0. subst v'. now apply is_legal_exact.
  - unfold WFview in H0. subst v'. now apply was_legal_exact.
Qed.
