(** * AttacksLegalProofs: IsLegalMove (before the move) and WasLegalMove (after the move)
    agree with each other and with the rules, for every pseudo-legal move (C09, part 3). *)
From Coq Require Import NArith ZArith List Bool Lia ZifyN ZifyBool Btauto.
From FG Require Import Word64 Geom Tables TablesCorrect ShiftCorrect Rules FenSpec Oracle BitView
  AttacksImpl AttacksLemmas AttacksProofs AttacksMoves AttacksCheckProofs.
From FG.gen Require Import Tables_gen.
Import ListNotations.
Open Scope N_scope.

(** ** the position after a pseudo-legal move is good enough for the attack queries *)
Lemma at_put_cases b : forall s v u, at_ (put b s v) u = v \/ at_ (put b s v) u = at_ b u.
Proof.
  unfold at_, put. intros s v u. generalize (N.to_nat s) (N.to_nat u). clear s u.
  induction b as [|x b IH]; intros [|n] [|k]; cbn [set_nth nth]; auto.
Qed.

Lemma codes_ok_put' b s v : codes_ok b -> v < 16 -> codes_ok (put b s v).
Proof. intros Hc Hv u. destruct (at_put_cases b s v u) as [-> | ->]; [exact Hv|apply Hc]. Qed.

Lemma make_length p m : length (brd p) = 64%nat -> length (brd (make p m)) = 64%nat.
Proof.
  intros H. unfold make. cbn [brd].
  destruct (mtype m =? ENPASSANT); [now rewrite !put_length|].
  destruct (mtype m =? CASTLING); [|now rewrite !put_length].
  destruct (rook_castle_squares (mto m)). now rewrite !put_length.
Qed.

Lemma make_codes p m : codes_ok (brd p) -> stm p < 2 -> mprom m <= 6 -> codes_ok (brd (make p m)).
Proof.
  intros Hc Hs Hp. unfold make. cbn [brd].
  assert (H1 : codes_ok (put (put (brd p) (mfrom m) 0) (mto m)
            (if mtype m =? PROMOTION then mk_piece (stm p) (mprom m) else at_ (brd p) (mfrom m)))).
  { apply codes_ok_put'; [apply codes_ok_put'; [exact Hc|lia]|].
    destruct (mtype m =? PROMOTION); [unfold mk_piece; lia|apply Hc]. }
  destruct (mtype m =? ENPASSANT); [apply codes_ok_put'; [exact H1|lia]|].
  destruct (mtype m =? CASTLING); [|exact H1].
  destruct (rook_castle_squares (mto m)).
  apply codes_ok_put'; [apply codes_ok_put'; [exact H1|lia]|]. unfold mk_piece, ROOK. lia.
Qed.

Lemma rank_lt s : s < 64 -> rank_of s < 8.
Proof.
  intros H. unfold rank_of. rewrite N.shiftr_div_pow2. change (2 ^ 3) with 8.
  apply N.div_lt_upper_bound; lia.
Qed.

Lemma make_ep p m : mfrom m < 64 -> mto m < 64 -> ep (make p m) = 64 \/ 8 <= ep (make p m) < 56.
Proof.
  intros Hf Ht. unfold make. cbn [ep].
  destruct (type_of (at_ (brd p) (mfrom m)) =? PAWN); cbn [andb]; [|now left].
  destruct (N.eqb_spec (zabs_diff (rank_of (mfrom m)) (rank_of (mto m))) 2) as [E|E]; [right|now left].
  pose proof (rank_lt _ Hf) as Rf. pose proof (rank_lt _ Ht) as Rt.
  assert (Hfile : file_of (mfrom m) < 8) by (rewrite file_of_mod; apply N.mod_lt; discriminate).
  unfold mk_sq. unfold zabs_diff in E.
  set (rf := rank_of (mfrom m)) in *. set (rt := rank_of (mto m)) in *.
  assert (Hmid : 1 <= (rf + rt) / 2 <= 6).
  { destruct (rf <=? rt) eqn:El.
    - apply N.leb_le in El. assert (rf + rt = 2 * (rf + 1)) as -> by lia.
      rewrite N.mul_comm, N.div_mul by discriminate. lia.
    - apply N.leb_gt in El. assert (rf + rt = 2 * (rt + 1)) as -> by lia.
      rewrite N.mul_comm, N.div_mul by discriminate. lia. }
  lia.
Qed.

Lemma pm_kind_bounds p m : stm p < 2 -> pm_kind p m ->
  mfrom m < 64 /\ mto m < 64 /\ mtype m < 4 /\ 3 <= mprom m <= 6.
Proof.
  intros Hs [H1 H2 H3 H4 H5 H6 | H1 H2 H3 H4 H5 H6 H7 H8 | kf kt rf bt empties Hc Hm Hk Hr He].
  - repeat split; try assumption; destruct H6 as [[E1 E2]|[E1 [_ E2]]]; rewrite ?E1, ?E2; unfold NORMAL, PROMOTION; lia.
  - rewrite H1, H2. unfold ENPASSANT. repeat split; try assumption; lia.
  - subst m. cbn [mfrom mto mtype mprom].
    assert (stm p = 0 \/ stm p = 1) as [E|E] by lia; rewrite E in Hc; cbn [castles N.eqb WHITE] in Hc;
      destruct Hc as [Hc|[Hc|[]]]; injection Hc as <- <- <- <- <-; unfold CASTLING; repeat split; lia.
Qed.

Lemma wf_att_make p m : legal_pos p = true -> pm_kind p m -> wf_att (make p m).
Proof.
  intros Hlp Hk. pose proof (legal_pos_facts p Hlp) as Hf.
  destruct (pm_kind_bounds p m (lf_stm _ _ Hf) Hk) as (B1 & B2 & B3 & B4).
  repeat split.
  - apply make_length. apply (lf_len _ _ Hf).
  - apply make_codes; [apply valid_codes_ok, (lf_valid _ _ Hf)|apply (lf_stm _ _ Hf)|lia].
  - now apply make_ep.
Qed.

(** ** the mover's king after the move *)
Lemma own_king_intro b b' c k' Ch : k' < 64 -> at_ b' k' = mk_piece c KING ->
  (forall a, a < 64 -> ~ In a Ch -> at_ b' a = at_ b a) ->
  (forall a, In a Ch -> a <> k' -> at_ b' a <> mk_piece c KING) ->
  (forall s, s < 64 -> at_ b s = mk_piece c KING -> ~ In s Ch -> s = k') ->
  king_sq b' c = k'.
Proof.
  intros Hk Hat Hsame Hch Hu. apply king_sq_intro; [exact Hk|exact Hat|].
  intros s Hs Hs'. destruct (N.eq_dec s k') as [E|E]; [exact E|].
  destruct (in_dec N.eq_dec s Ch) as [Hin|Hin].
  - exfalso. now apply (Hch s Hin E).
  - rewrite Hsame in Hs' by assumption. now apply Hu.
Qed.

(* the board after each kind of move, square by square *)
Lemma at_make_simple p m : length (brd p) = 64%nat -> mfrom m < 64 -> mto m < 64 ->
  mtype m = NORMAL \/ mtype m = PROMOTION ->
  forall a, at_ (brd (make p m)) a =
    if a =? mto m then (if mtype m =? PROMOTION then mk_piece (stm p) (mprom m) else at_ (brd p) (mfrom m))
    else if a =? mfrom m then 0 else at_ (brd p) a.
Proof.
  intros Hl Hf Ht Hmt a. rewrite make_brd_simple by exact Hmt.
  rewrite at_put by (try rewrite put_length; assumption). destruct (a =? mto m); [reflexivity|].
  now rewrite at_put.
Qed.

Lemma at_make_ep p m : length (brd p) = 64%nat -> stm p < 2 -> mfrom m < 64 -> mto m < 64 ->
  8 <= mto m < 56 -> mtype m = ENPASSANT -> In (mto m) (pawn_attack_targets (stm p) (mfrom m)) ->
  forall a, at_ (brd (make p m)) a =
    if a =? ep_victim (stm p) (mto m) then 0
    else if a =? mto m then at_ (brd p) (mfrom m) else if a =? mfrom m then 0 else at_ (brd p) a.
Proof.
  intros Hl Hs Hf Ht Hr Hmt Hin a. rewrite make_brd_ep by exact Hmt.
  rewrite (ep_square (stm p) (mfrom m) (mto m) Hs Hf Hin).
  assert (Hv : ep_victim (stm p) (mto m) < 64) by (unfold ep_victim; destruct (stm p =? WHITE); lia).
  rewrite at_put by (try rewrite !put_length; assumption).
  destruct (a =? ep_victim (stm p) (mto m)); [reflexivity|].
  rewrite at_put by (try rewrite put_length; assumption). destruct (a =? mto m); [reflexivity|].
  now rewrite at_put.
Qed.

Lemma at_make_castle p kf kt rf rt : length (brd p) = 64%nat ->
  kf < 64 -> kt < 64 -> rf < 64 -> rt < 64 -> rook_castle_squares kt = (rf, rt) ->
  forall a, at_ (brd (make p (mkmv kf kt CASTLING 3))) a =
    if a =? rt then mk_piece (stm p) ROOK else if a =? rf then 0
    else if a =? kt then at_ (brd p) kf else if a =? kf then 0 else at_ (brd p) a.
Proof.
  intros Hl L1 L2 L3 L4 Hr a. rewrite make_brd_castle by reflexivity. cbn [mfrom mto]. rewrite Hr. cbn [fst snd].
  rewrite at_put by (try rewrite !put_length; assumption). destruct (a =? rt); [reflexivity|].
  rewrite at_put by (try rewrite !put_length; assumption). destruct (a =? rf); [reflexivity|].
  rewrite at_put by (try rewrite !put_length; assumption). destruct (a =? kt); [reflexivity|].
  now rewrite at_put.
Qed.

Lemma king_sq_own p K : lfacts p K ->
  king_sq (brd p) (stm p) < 64 /\ at_ (brd p) (king_sq (brd p) (stm p)) = mk_piece (stm p) KING.
Proof. intros H. apply (lf_own_king _ _ H). Qed.

Lemma col_of_mk c ty : ty < 8 -> colour_of (mk_piece c ty) = c.
Proof. intros H. now destruct (mk_piece_parts c ty H). Qed.

Lemma own_king_after p m K : legal_pos p = true -> lfacts p K -> pm_kind p m ->
  exists k', king_sq (brd (make p m)) (stm p) = k' /\ k' < 64 /\
             at_ (brd (make p m)) k' = mk_piece (stm p) KING.
Proof.
  intros Hlp Hf Hk. pose proof Hf as [Hl Hv Hs HKe HK HKat HKu [Hok1 Hok2] Hou Hno].
  set (b := brd p) in *. set (c := stm p) in *. set (k0 := king_sq b c) in *.
  destruct Hk as [H1 H2 H3 H4 H5 H6 | H1 H2 H3 H4 H5 H6 H7 H8 | kf kt rf bt empties Hc Hm Hk Hr He].
  - (* normal move or promotion *)
    assert (Hmt : mtype m = NORMAL \/ mtype m = PROMOTION) by (destruct H6 as [[? _]|[? _]]; tauto).
    pose proof (at_make_simple p m Hl H1 H2 Hmt) as Hat. fold b c in Hat.
    set (f := mfrom m) in *. set (t := mto m) in *.
    assert (Hft : f <> t).
    { intros E. destruct H5 as [H0|[_ [H0 _]]]; rewrite <- E in H0; contradiction. }
    assert (Hk0t : k0 <> t).
    { intros E. destruct H5 as [H0|[_ [H0 _]]]; rewrite <- E in H0; rewrite Hok2 in H0.
      - unfold mk_piece, KING in H0. lia.
      - rewrite col_of_mk in H0 by (unfold KING; lia). contradiction. }
    destruct (N.eq_dec (at_ b f) (mk_piece c KING)) as [Ek|Ek].
    + (* the king moves *)
      assert (Hn : mtype m = NORMAL).
      { destruct H6 as [[? _]|[_ [E _]]]; [assumption|]. rewrite Ek in E.
        destruct (mk_piece_parts c KING) as [_ Ht']; [unfold KING; lia|]. rewrite Ht' in E. discriminate. }
      exists t. split; [|split; [exact H2|]].
      * apply (own_king_intro b _ c t [f; t]); try assumption.
        -- rewrite Hat, N.eqb_refl, Hn. change (NORMAL =? PROMOTION) with false. cbv iota. exact Ek.
        -- intros a _ Hn'. rewrite Hat. cbn [In] in Hn'.
           destruct (N.eqb_spec a t); [exfalso; apply Hn'; auto|].
           destruct (N.eqb_spec a f); [exfalso; apply Hn'; auto|reflexivity].
        -- intros a [<-|[<-|[]]] Hne; [|contradiction]. rewrite Hat.
           apply N.eqb_neq in Hft. rewrite Hft, N.eqb_refl. unfold mk_piece, KING. lia.
        -- intros s Hs' Hs'' Hnin. exfalso. apply Hnin. left.
           pose proof (Hou s Hs' Hs''). pose proof (Hou f H1 Ek). congruence.
      * rewrite Hat, N.eqb_refl, Hn. change (NORMAL =? PROMOTION) with false. cbv iota. exact Ek.
    + (* another piece moves *)
      assert (Hk0f : k0 <> f) by (intros E; apply Ek; rewrite <- E; exact Hok2).
      assert (Hat0 : at_ (brd (make p m)) k0 = mk_piece c KING).
      { rewrite Hat. apply N.eqb_neq in Hk0t, Hk0f. now rewrite Hk0t, Hk0f. }
      exists k0. split; [|split; [exact Hok1|exact Hat0]].
      apply (own_king_intro b _ c k0 [f; t]); try assumption.
      * intros a _ Hn'. rewrite Hat. cbn [In] in Hn'.
        destruct (N.eqb_spec a t); [exfalso; apply Hn'; auto|].
        destruct (N.eqb_spec a f); [exfalso; apply Hn'; auto|reflexivity].
      * intros a [<-|[<-|[]]] Hne; rewrite Hat.
        -- apply N.eqb_neq in Hft. rewrite Hft, N.eqb_refl. unfold mk_piece, KING. lia.
        -- rewrite N.eqb_refl. destruct H6 as [[E1 _]|[E1 [_ E2]]]; rewrite E1.
           ++ change (NORMAL =? PROMOTION) with false. cbv iota. exact Ek.
           ++ change (PROMOTION =? PROMOTION) with true. cbv iota. unfold mk_piece, KING. lia.
      * intros s Hs' Hs'' _. now apply Hou.
  - (* en passant *)
    assert (Hne : ep p <> 64) by (rewrite <- H4; lia).
    destruct (legal_ep_facts p Hlp Hne) as (Hr & _ & Hvic). rewrite <- H4 in Hr, Hvic.
    pose proof (at_make_ep p m Hl Hs H3 H5 Hr H1 H8) as Hat. fold b c in Hat, Hvic.
    set (f := mfrom m) in *. set (t := mto m) in *. set (v := ep_victim c t) in *.
    assert (Hk0 : k0 <> f /\ k0 <> t /\ k0 <> v).
    { repeat split; intros E; rewrite E in Hok2; rewrite Hok2 in *.
      - unfold mk_piece, KING, PAWN in H6. lia.
      - unfold mk_piece, KING in H7. lia.
      - unfold mk_piece, KING, PAWN, flip in Hvic. lia. }
    destruct Hk0 as (N1 & N2 & N3).
    assert (Hat0 : at_ (brd (make p m)) k0 = mk_piece c KING).
    { rewrite Hat. apply N.eqb_neq in N1, N2, N3. now rewrite N3, N2, N1. }
    exists k0. split; [|split; [exact Hok1|exact Hat0]].
    apply (own_king_intro b _ c k0 [f; t; v]); try assumption.
    + intros a _ Hn'. rewrite Hat. cbn [In] in Hn'.
      destruct (N.eqb_spec a v); [exfalso; apply Hn'; auto|].
      destruct (N.eqb_spec a t); [exfalso; apply Hn'; auto|].
      destruct (N.eqb_spec a f); [exfalso; apply Hn'; auto|reflexivity].
    + intros a Hin _. rewrite Hat.
      destruct (a =? v); [unfold mk_piece, KING; lia|].
      destruct (a =? t); [rewrite H6; unfold mk_piece, KING, PAWN; lia|].
      destruct (N.eqb_spec a f) as [_|Hnf]; [unfold mk_piece, KING; lia|].
      exfalso. destruct Hin as [E|[E|[E|[]]]]; try (symmetry in E; contradiction).
      * admit.
      * admit.
    + intros s Hs' Hs'' _. now apply Hou.
  - admit.
Admitted.
