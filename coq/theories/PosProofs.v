(** * PosProofs: the position data structure of FrankyGo (internal/position/position.go) --
    main theorems for C02, C03, C04 and the position part of C10, boolean twins of the
    invariants, non-vacuity examples on the real tables, refuted twins, assumptions.

    Files: PosImpl (model), PosTabs (real tables), PosProofsA..J (development), this file.

    Game-phase caveat (faithful to the Go code, confirmed on the engine): putPiece clamps
    the game phase at 24 and removePiece at 0, so remove(put(x)) does not restore it once the
    unclamped sum exceeds 24.  Every theorem below that speaks about the game phase carries
    the explicit hypothesis [PhOK] / a bound on [psum] (the unclamped sum stays <= 24), or
    [clamp t = false] (the model with the two clamps deleted); the [_refuted] lemmas exhibit
    the counterexample to the unguarded statements.  All other observables are covered
    unconditionally. *)
From Coq Require Import NArith ZArith List Bool Lia ZifyN ZifyBool Btauto.
From Coq Require String Ascii.
From FG Require Import Geom Word64 Rules FenSpec PosImpl PosTabs PosProofsA PosProofsB PosProofsC PosProofsD PosProofsE
  PosProofsF PosProofsG PosProofsH PosProofsI PosProofsJ.
Import ListNotations.
Open Scope N_scope.

(** ** boolean twins of the invariants *)
Definition zpair_eqb (x : Z * Z) (f : N -> Z) : bool := (fst x =? f 0%N)%Z && (snd x =? f 1%N)%Z.

Definition cohb (t : tabs) (p : ipos) : bool :=
  let b := i_board p in
  Nat.eqb (length b) 64 && forallb okpc b && Nat.eqb (length (i_pbb p)) 14 &&
  forallb (fun c => forallb (fun ty =>
     (bb_get (i_pbb p) c ty <? W64) &&
     forallb (fun i => Bool.eqb (N.testbit (bb_get (i_pbb p) c ty) i) (pcmatch c ty (at_ b i))) squares64)
     [0;1;2;3;4;5;6]) [0;1] &&
  forallb (fun c => (sel c (i_occ p) <? W64) &&
     forallb (fun i => Bool.eqb (N.testbit (sel c (i_occ p)) i) (is_col c (at_ b i))) squares64) [0;1] &&
  zpair_eqb (i_mat p) (mat_of t b) && zpair_eqb (i_matnp p) (matnp_of t b) &&
  zpair_eqb (i_psqm p) (psqm_of t b) && zpair_eqb (i_psqe p) (psqe_of t b) &&
  forallb (fun c => forallb (fun s => if at_ b s =? 8 * c + KING then sel c (i_ksq p) =? s else true) squares64) [0;1].

Definition epokb (p : ipos) : bool :=
  (i_ep p =? 64) ||
  ((i_ep p <? 64) && (rank_of (i_ep p) =? (if i_stm p =? 0 then 5 else 2)) &&
   (sq_to (i_ep p) (pawn_dir (cflip (i_stm p))) <? 64) &&
   (at_ (i_board p) (sq_to (i_ep p) (pawn_dir (cflip (i_stm p)))) =? 8 * cflip (i_stm p) + PAWN)).

Definition wfb (t : tabs) (p : ipos) : bool :=
  cohb t p && (i_stm p <? 2) && (i_cr p <? 16) && (0 <=? i_hmc p)%Z && (1 <=? i_nhm p)%Z &&
  (i_nhm p mod 2 =? 1 - Z.of_N (i_stm p))%Z && epokb p.

Definition invb (t : tabs) (p : ipos) : bool :=
  wfb t p && (kres t p =? skey t (i_stm p) (i_cr p) (i_ep p)).

Lemma zpair_eqb_sound x f : zpair_eqb x f = true -> forall c, c < 2 -> sel c x = f c.
Proof.
  unfold zpair_eqb. intros H c Hc. apply andb_true_iff in H as [H0 H1]. apply Z.eqb_eq in H0, H1.
  assert (c = 0 \/ c = 1) as [-> | ->] by lia; assumption.
Qed.

Lemma in01 c : c < 2 -> In c [0; 1].
Proof. intro H. assert (c = 0 \/ c = 1) as [-> | ->] by lia; cbn; auto. Qed.
Lemma in06 ty : ty < 7 -> In ty [0;1;2;3;4;5;6].
Proof.
  intro H. assert (ty = 0 \/ ty = 1 \/ ty = 2 \/ ty = 3 \/ ty = 4 \/ ty = 5 \/ ty = 6) as [->|[->|[->|[->|[->|[->| ->]]]]]] by lia;
  cbn; auto 10.
Qed.

Lemma testbit_high a i : a < W64 -> 64 <= i -> N.testbit a i = false.
Proof.
  intros Ha Hi. destruct (N.testbit a i) eqn:E; [|reflexivity]. exfalso.
  apply (testbit_lt_pow2 a 64 i) in E; [lia|]. rewrite <- W64_pow. exact Ha.
Qed.

Lemma cohb_sound t p : cohb t p = true -> Coh t p.
Proof.
  unfold cohb. intro H.
  apply andb_true_iff in H as [H Hksq]. apply andb_true_iff in H as [H Hpe]. apply andb_true_iff in H as [H Hpm].
  apply andb_true_iff in H as [H Hmnp]. apply andb_true_iff in H as [H Hmat]. apply andb_true_iff in H as [H Hocc].
  apply andb_true_iff in H as [H Hpbb]. apply andb_true_iff in H as [H Hpl]. apply andb_true_iff in H as [Hl Hok].
  apply Nat.eqb_eq in Hl, Hpl.
  assert (Hat0 : forall i, 64 <= i -> at_ (i_board p) i = 0) by (intros i Hi; apply at_beyond; rewrite Hl; lia).
  constructor; try assumption.
  - intro s. destruct (N.lt_ge_cases s 64) as [Hs|Hs]; [|rewrite Hat0 by assumption; reflexivity].
    rewrite forallb_forall in Hok. apply Hok. unfold at_. apply nth_In. lia.
  - intros c ty i Hc Hty.
    pose proof Hpbb as Hp.
    rewrite forallb_forall in Hp. specialize (Hp c (in01 c Hc)). cbv beta in Hp. rewrite forallb_forall in Hp.
    specialize (Hp ty (in06 ty Hty)). cbv beta in Hp. apply andb_true_iff in Hp as [Hlt Hbits]. apply N.ltb_lt in Hlt.
    destruct (N.lt_ge_cases i 64) as [Hi|Hi].
    + pose proof (forall_squares _ Hbits i Hi) as E. cbv beta in E. apply eqb_prop in E. exact E.
    + rewrite testbit_high, Hat0 by assumption. reflexivity.
  - intros c i Hc.
    pose proof Hocc as Hp.
    rewrite forallb_forall in Hp. specialize (Hp c (in01 c Hc)). cbv beta in Hp. apply andb_true_iff in Hp as [Hlt Hbits]. apply N.ltb_lt in Hlt.
    destruct (N.lt_ge_cases i 64) as [Hi|Hi].
    + pose proof (forall_squares _ Hbits i Hi) as E. cbv beta in E. apply eqb_prop in E. exact E.
    + rewrite testbit_high, Hat0 by assumption. reflexivity.
  - apply zpair_eqb_sound. assumption.
  - apply zpair_eqb_sound. assumption.
  - apply zpair_eqb_sound. assumption.
  - apply zpair_eqb_sound. assumption.
  - intros c s Hc Hat. rewrite forallb_forall in Hksq. specialize (Hksq c (in01 c Hc)). cbv beta in Hksq.
    destruct (N.lt_ge_cases s 64) as [Hs|Hs]; [|rewrite Hat0 in Hat by assumption; unfold KING in Hat; lia].
    pose proof (forall_squares _ Hksq s Hs) as E. cbv beta in E. rewrite Hat, N.eqb_refl in E. apply N.eqb_eq in E. exact E.
Qed.

Lemma epokb_sound p : epokb p = true -> EpOK p.
Proof.
  unfold epokb, EpOK. intro H. apply orb_true_iff in H as [H|H]; [left; apply N.eqb_eq; exact H|right].
  repeat match goal with H : _ && _ = true |- _ => apply andb_true_iff in H; destruct H end.
  repeat match goal with H : (_ <? _) = true |- _ => apply N.ltb_lt in H | H : (_ =? _) = true |- _ => apply N.eqb_eq in H end.
  auto.
Qed.

Lemma wfb_sound t p : wfb t p = true -> WF t p.
Proof.
  unfold wfb. intro H.
  repeat match goal with H : _ && _ = true |- _ => apply andb_true_iff in H; destruct H end.
  constructor.
  - apply cohb_sound. assumption.
  - apply N.ltb_lt. assumption.
  - apply N.ltb_lt. assumption.
  - apply Z.leb_le. assumption.
  - split; [apply Z.leb_le|apply Z.eqb_eq]; assumption.
  - apply epokb_sound. assumption.
Qed.

Lemma invb_sound t p : invb t p = true -> Inv t p.
Proof.
  unfold invb. intro H. apply andb_true_iff in H as [H1 H2]. split; [apply wfb_sound; exact H1|].
  apply N.eqb_eq. exact H2.
Qed.

(** ** Reachable positions: everything the engine can produce from a fresh position by DoMove
    (pseudo-legal moves), DoNullMove, the matching undo operations and HasCheck caching.
    [R_eqpf] closes under the two things an undo does not restore exactly in the Go code: the
    (clamped) game phase and nothing else -- and under the check-flag cache. *)
Section Reach.
Variable t : tabs.

Inductive Reach : ipos -> Prop :=
| R_base p : Inv t p -> i_hist p = [] -> Reach p
| R_do p m : Reach p -> move_ok p m -> room p -> Reach (do_move_raw t p (code m))
| R_null p : Reach p -> room p -> Reach (do_null_raw t p)
| R_eqpf p q : Reach p -> eqpf q p -> Reach q.

Lemma inv_eqpf p q : eqpf q p -> Inv t p -> Inv t q.
Proof.
  intros E [W K]. split; [apply (wf_eqpf t p q); [apply eqpf_sym; exact E|exact W]|].
  destruct (eqpf_fields _ _ E) as (Fk & Fb & Fcr & Fep & Fhmc & Fstm & _).
  unfold KeyOK, kres in *. rewrite Fk, Fb, Fcr, Fep, Fstm. exact K.
Qed.

(* C04: the invariant holds in every reachable position *)
Theorem reach_inv p : Reach p -> Inv t p.
Proof.
  induction 1 as [p I _|p m _ [W K] Hm _|p _ [W K] _|p q _ I E].
  - exact I.
  - split; [apply do_wf|apply do_keyok]; assumption.
  - split; [apply null_wf|apply null_keyok]; assumption.
  - apply (inv_eqpf p q); assumption.
Qed.

Lemma reach_cases p : Reach p ->
  i_hist p = [] \/
  (exists p0 m, Reach p0 /\ move_ok p0 m /\ room p0 /\ eqpf p (do_move_raw t p0 (code m))) \/
  (exists p0, Reach p0 /\ room p0 /\ eqpf p (do_null_raw t p0)).
Proof.
  induction 1 as [p I Hh|p m R _ Hm Hr|p R _ Hr|p q R IH E].
  - left. exact Hh.
  - right. left. exists p, m. split; [exact R|]. split; [exact Hm|]. split; [exact Hr|apply eqpf_refl].
  - right. right. exists p. split; [exact R|]. split; [exact Hr|apply eqpf_refl].
  - destruct IH as [Hh|[(p0 & m & R0 & Hm & Hr & E0)|(p0 & R0 & Hr & E0)]].
    + left. destruct (eqpf_fields _ _ E) as (_ & _ & _ & _ & _ & _ & _ & _ & _ & _ & Fh & _). congruence.
    + right. left. exists p0, m. split; [exact R0|]. split; [exact Hm|]. split; [exact Hr|eapply eqpf_trans; eassumption].
    + right. right. exists p0. split; [exact R0|]. split; [exact Hr|eapply eqpf_trans; eassumption].
Qed.

Lemma move_ok_ne p m : move_ok p m -> mfrom m <> mto m.
Proof.
  intros [Hc [H|[H|[H|H]]]].
  - apply (tgt_ok_ne p m Hc). apply H.
  - apply (tgt_ok_ne p m Hc). apply H.
  - destruct Hc as [_ _ _ Hpc _]. destruct H as [_ _ Ht _ _ _ _]. intro E. rewrite E in Hpc. contradiction.
  - destruct H as [_ (rf & rt & Hsh & _)]. destruct (castle_info_shape _ _ _ _ _ Hsh) as (_ & _ & _ & _ & _ & _ & N1 & _). exact N1.
Qed.

Lemma move_ok_code_nz p m : move_ok p m -> code m <> 0.
Proof. intro H. pose proof (move_ok_ne p m H). unfold code. lia. Qed.

(* DoMove on a pseudo-legal (in particular: legal) move: C02 + C04 *)
Theorem do_inv p m : Reach p -> In m (pseudo (abs p)) -> room p ->
  exists p', do_move t p (code m) = Some p' /\ Reach p' /\ abs p' = make (abs p) m.
Proof.
  intros R Hm Hr. destruct (reach_inv p R) as [W K].
  pose proof (pseudo_move_ok t p W m Hm) as Hmo.
  destruct (do_move_refines t p m W Hmo Hr) as [Hdo Habs].
  exists (do_move_raw t p (code m)). split; [exact Hdo|]. split; [apply R_do; assumption|exact Habs].
Qed.

Theorem null_inv p : Reach p -> room p -> exists p', do_null t p = Some p' /\ Reach p'.
Proof. intros R Hr. exists (do_null_raw t p). split; [apply do_null_total; exact Hr|apply R_null; assumption]. Qed.

Theorem flag_inv p v : Reach p -> Reach (set_check_flag v p).
Proof. intro R. apply (R_eqpf p); [exact R|]. unfold eqpf. destruct p; reflexivity. Qed.

(* UndoMove in a reachable position whose last operation was a move *)
Theorem undo_inv p : Reach p -> LastMove p <> 0 -> exists p', undo_move t p = Some p' /\ Reach p'.
Proof.
  intros R Hl. destruct (reach_cases p R) as [Hh|[(p0 & m & R0 & Hm & Hr & E0)|(p0 & R0 & Hr & E0)]].
  - unfold LastMove in Hl. rewrite Hh in Hl. contradiction.
  - destruct (reach_inv p0 R0) as [W0 _].
    destruct (undo_do t p0 m p W0 Hm Hr E0) as (p'' & Hu & E & _). exists p''. split; [exact Hu|].
    apply (R_eqpf p0); [exact R0|]. apply (eqpf_of_set_phase _ _ _ E).
  - exfalso. apply Hl. destruct (eqpf_fields _ _ E0) as (_ & _ & _ & _ & _ & _ & _ & _ & _ & _ & Fh & _).
    unfold LastMove. rewrite Fh. destruct (do_null_raw_fields t p0) as (_ & _ & _ & _ & _ & _ & _ & _ & _ & Gh & _).
    rewrite Gh. reflexivity.
Qed.

Theorem undo_null_inv p : Reach p -> i_hist p <> [] -> LastMove p = 0 -> exists p', undo_null p = Some p' /\ Reach p'.
Proof.
  intros R Hne Hl. destruct (reach_cases p R) as [Hh|[(p0 & m & R0 & Hm & Hr & E0)|(p0 & R0 & Hr & E0)]].
  - contradiction.
  - exfalso. destruct (eqpf_fields _ _ E0) as (_ & _ & _ & _ & _ & _ & _ & _ & _ & _ & Fh & _).
    unfold LastMove in Hl. rewrite Fh, do_move_raw_hist in Hl. cbn [h_move] in Hl.
    apply (move_ok_code_nz p0 m Hm). exact Hl.
  - destruct (undo_null_do_null t p0 p E0) as (p'' & Hu & E & _). exists p''. split; [exact Hu|].
    apply (R_eqpf p0); [exact R0|]. apply (eqpf_of_set_phase _ _ _ E).
Qed.

(* a fresh position is reachable *)
Theorem setup_reach q : spec_ok q -> Reach (setup_of_spec t q).
Proof. intro H. destruct (setup_inv t q H) as (I & _ & Hh & _). apply R_base; assumption. Qed.
End Reach.

(** ** C03 at the level of the observation vector *)
Lemma eqpf_full p q : eqpf p q -> i_phase p = i_phase q -> i_flag p = i_flag q -> p = q.
Proof.
  intros E Eph Efl. destruct (eqpf_fields _ _ E) as (Fk & Fb & Fcr & Fep & Fhmc & Fstm & Fksq & Fnhm & Fpbb & Focc & Fhist & Fmat & Fmnp & Fpm & Fpe).
  destruct p, q. cbn in *. subst. reflexivity.
Qed.

(* everything observable except the game-phase entry and the raw check-flag cache *)
Definition observe_core (t : tabs) (p : ipos) : list Z := observe t (set_phase 0 (set_check_flag 0 p)).

Lemma observe_core_eqpf t p q : eqpf p q -> observe_core t p = observe_core t q.
Proof. unfold observe_core, eqpf. intros ->. reflexivity. Qed.

(* C03: a do / ... / undo excursion as a depth-first search performs it (moves admissible where
   they are made, within the 512-ply capacity) restores every observable; the game phase too when
   the unclamped phase sum stays <= 24 in the positions visited (HB := True), or clamp t = false *)
Theorem excursion_restores_observables t e p p' :
  WF t p -> exc_ok t False e p -> run_exc t e p = Some p' ->
  observe_core t p' = observe_core t p /\ i_flag p' = exc_flag e (i_flag p).
Proof.
  intros W Hok Hrun. destruct (excursion_restores t False e p W Hok ltac:(tauto)) as (p2 & R & E & F & _).
  assert (p2 = p') by congruence. subst p2. split; [apply observe_core_eqpf; exact E|exact F].
Qed.

Theorem excursion_restores_all t e p p' :
  phval_nonneg t -> WF t p -> PhOK t p -> exc_ok t True e p -> run_exc t e p = Some p' ->
  i_flag p' = i_flag p -> p' = p /\ observe t p' = observe t p.
Proof.
  intros Hnn W P Hok Hrun Hfl. destruct (excursion_restores t True e p W Hok ltac:(auto)) as (p2 & R & E & F & Ph).
  assert (p2 = p') by congruence. subst p2.
  assert (p' = p) by (apply eqpf_full; auto). subst. auto.
Qed.

(** ** C02 / C03 stated directly for pseudo-legal and legal moves *)
Theorem do_move_refines_pseudo t p m : WF t p -> In m (pseudo (abs p)) -> room p ->
  exists p', do_move t p (code m) = Some p' /\ abs p' = make (abs p) m /\ fen_of p' = print (make (abs p) m).
Proof.
  intros W Hm Hr. destruct (do_move_refines t p m W (pseudo_move_ok t p W m Hm) Hr) as [Hdo Habs].
  exists (do_move_raw t p (code m)). split; [exact Hdo|]. split; [exact Habs|]. unfold fen_of. now rewrite Habs.
Qed.

Theorem do_move_refines_legal t p m : WF t p -> In m (legal (abs p)) -> room p ->
  exists p', do_move t p (code m) = Some p' /\ abs p' = make (abs p) m /\ fen_of p' = print (make (abs p) m).
Proof. intros W Hm Hr. apply do_move_refines_pseudo; auto. apply legal_pseudo. exact Hm. Qed.

Theorem undo_do_pseudo t p m : WF t p -> In m (pseudo (abs p)) -> room p ->
  exists p1 p2, do_move t p (code m) = Some p1 /\ undo_move t p1 = Some p2 /\
    observe_core t p2 = observe_core t p /\ i_flag p2 = i_flag p /\
    (phval_nonneg t -> PhOK t p -> (clamp t = true -> (psum t (i_board p1) <= GamePhaseMax)%Z) -> p2 = p).
Proof.
  intros W Hm Hr. pose proof (pseudo_move_ok t p W m Hm) as Hmo.
  destruct (do_move_refines t p m W Hmo Hr) as [Hdo _].
  destruct (undo_do t p m (do_move_raw t p (code m)) W Hmo Hr (eqpf_refl _)) as (p2 & Hu & E & Ph).
  exists (do_move_raw t p (code m)), p2. split; [exact Hdo|]. split; [exact Hu|].
  destruct (eqpf_of_set_phase _ _ _ E) as [E' F]. split; [apply observe_core_eqpf; exact E'|]. split; [exact F|].
  intros Hnn P Hb. apply eqpf_full; auto. apply Ph; auto. apply do_phase; auto.
Qed.

(** ** C04: separation of keys on the real tables.  Full injectivity of a 64-bit hash on more
    than 2^64 positions is impossible; what the dumped randoms do guarantee is that two positions
    differing in exactly one of: the content of one square, the side to move, the castling
    rights, the en-passant file, have different keys. *)
Section Separation.
Let t := real_tabs.

Lemma rnd_inj i j : (i < 1049)%nat -> (j < 1049)%nat -> nth i all_randoms 0 = nth j all_randoms 0 -> i = j.
Proof.
  intros Hi Hj E. apply (proj1 (NoDup_nth all_randoms 0) randoms_distinct); rewrite ?randoms_count; assumption.
Qed.
Lemma rnd_nz i : (i < 1049)%nat -> nth i all_randoms 0 <> 0.
Proof. intro Hi. apply randoms_nonzero. apply nth_In. rewrite randoms_count. exact Hi. Qed.

Lemma zp_rnd pc sq : pc < 16 -> sq < 64 -> zp t pc sq = nth (N.to_nat (64 * pc + sq)) all_randoms 0.
Proof.
  intros Hp Hs. unfold t, real_tabs, zp, nthN, all_randoms. rewrite app_nth1; [reflexivity|].
  destruct table_shapes as (E & _). rewrite E. lia.
Qed.
Lemma zc_rnd c : c < 16 -> zc t c = nth (1024 + N.to_nat c) all_randoms 0.
Proof.
  intros Hc. unfold t, real_tabs, zc, nthN, all_randoms. destruct table_shapes as (E1 & E2 & _).
  rewrite app_nth2 by lia. rewrite E1. rewrite app_nth1 by lia. f_equal. lia.
Qed.
Lemma ze_rnd f : f < 8 -> ze t f = nth (1040 + N.to_nat f) all_randoms 0.
Proof.
  intros Hf. unfold t, real_tabs, ze, nthN, all_randoms. destruct table_shapes as (E1 & E2 & E3 & _).
  rewrite app_nth2 by lia. rewrite E1. rewrite app_nth2 by lia. rewrite E2. rewrite app_nth1 by lia. f_equal. lia.
Qed.
Lemma zn_rnd : zn t = nth 1048 all_randoms 0.
Proof. reflexivity. Qed.

Lemma lxor_neq a b : N.lxor a b <> 0 -> a <> b.
Proof. intros H E. apply H. rewrite E. apply N.lxor_nilpotent. Qed.

Lemma file_lt e : file_of e < 8.
Proof. unfold file_of. change 7 with (N.ones 3). rewrite N.land_ones. apply N.mod_lt. discriminate. Qed.

Theorem key_separates_side b c e h f h' f' :
  key_of t (mkpos b 0 c e h f) <> key_of t (mkpos b 1 c e h' f').
Proof.
  apply lxor_neq. unfold key_of, skey. cbn [brd stm cr ep N.eqb].
  replace (N.lxor _ _) with (zn t) by xor_solve. rewrite zn_rnd. apply rnd_nz. lia.
Qed.

Theorem key_separates_rights b s c c' e h f h' f' : c < 16 -> c' < 16 -> c <> c' ->
  key_of t (mkpos b s c e h f) <> key_of t (mkpos b s c' e h' f').
Proof.
  intros Hc Hc' Hne. apply lxor_neq. unfold key_of, skey. cbn [brd stm cr ep].
  replace (N.lxor _ _) with (N.lxor (zc t c) (zc t c')) by xor_solve.
  intro E. apply N.lxor_eq in E. rewrite !zc_rnd in E by assumption. apply rnd_inj in E; lia.
Qed.

(* en-passant: none (64) against a file, or two different files *)
Theorem key_separates_ep b s c e e' h f h' f' : e <= 64 -> e' <= 64 ->
  (e = 64 /\ e' < 64) \/ (e < 64 /\ e' = 64) \/ (e < 64 /\ e' < 64 /\ file_of e <> file_of e') ->
  key_of t (mkpos b s c e h f) <> key_of t (mkpos b s c e' h' f').
Proof.
  intros He He' Hd. apply lxor_neq. unfold key_of, skey. cbn [brd stm cr ep].
  replace (N.lxor _ _) with (N.lxor (epk t e) (epk t e')) by xor_solve.
  pose proof (file_lt e). pose proof (file_lt e').
  destruct Hd as [[-> H1]|[[H1 ->]|(H1 & H2 & H3)]].
  - rewrite epk_64, (epk_lt t e') by assumption. rewrite N.lxor_0_l, ze_rnd by assumption. apply rnd_nz. lia.
  - rewrite epk_64, (epk_lt t e) by assumption. rewrite N.lxor_0_r, ze_rnd by assumption. apply rnd_nz. lia.
  - rewrite !epk_lt by assumption. intro E. apply N.lxor_eq in E. rewrite !ze_rnd in E by assumption.
    apply rnd_inj in E; lia.
Qed.

(* exactly one square differs *)
Theorem key_separates_square b sq a' s c e h f h' f' :
  List.length b = 64%nat -> sq < 64 -> okpc (at_ b sq) = true -> okpc a' = true -> a' <> at_ b sq ->
  key_of t (mkpos b s c e h f) <> key_of t (mkpos (put b sq a') s c e h' f').
Proof.
  intros Hl Hs Ho Ho' Hne. apply lxor_neq. unfold key_of, piece_key. cbn [brd stm cr ep].
  unfold put. rewrite (xsum_set (key_f t) b (N.to_nat sq) 0 (at_ b sq) a') by (apply nth_error_at; lia).
  rewrite N.add_0_l, N2Nat.id.
  replace (N.lxor _ _) with (N.lxor (key_f t (at_ b sq) sq) (key_f t a' sq)) by xor_solve.
  set (a := at_ b sq) in *.
  assert (Ha : a < 16) by (apply okpc_cases in Ho; lia).
  assert (Ha' : a' < 16) by (apply okpc_cases in Ho'; lia).
  unfold key_f. destruct (N.eqb_spec a 0) as [Ea|Ea]; destruct (N.eqb_spec a' 0) as [Ea'|Ea'].
  - congruence.
  - rewrite N.lxor_0_l, zp_rnd by assumption. apply rnd_nz. lia.
  - rewrite N.lxor_0_r, zp_rnd by assumption. apply rnd_nz. lia.
  - intro E. apply N.lxor_eq in E. rewrite !zp_rnd in E by assumption. apply rnd_inj in E; lia.
Qed.
End Separation.

(** ** Non-vacuity: the invariants hold on concrete positions (real tables), by computation *)
Definition fen (s : String.string) : str := map Ascii.N_of_ascii (String.list_ascii_of_string s).
Definition pos_of (s : String.string) : pos := match parse (fen s) with Some q => q | None => start_pos end.

Module FenStrings.
  Import String.
  Local Open Scope string_scope.
  Definition kiwipete_s : string := "r3k2r/p1ppqpb1/bn2pnp1/3PN3/1p2P3/2N2Q1p/PPPBBPPP/R3K2R w KQkq - 0 1".
  Definition promo_s : string := "rnbqkbnr/pPpppppp/8/8/8/8/1PPPPPPP/RNBQKBNR w KQkq - 0 1".
  Definition ep_s : string := "8/8/8/K1pP3r/8/8/8/4k3 w - c6 0 1".
End FenStrings.

Definition kiwipete : pos := pos_of FenStrings.kiwipete_s.
Definition promo_pos : pos := pos_of FenStrings.promo_s.
Definition ep_pos : pos := pos_of FenStrings.ep_s.

Example inv_start : invb real_tabs (setup_of_spec real_tabs start_pos) = true.
Proof. vm_compute. reflexivity. Qed.
Example inv_kiwipete : invb real_tabs (setup_of_spec real_tabs kiwipete) = true.
Proof. vm_compute. reflexivity. Qed.
Example inv_promo : invb real_tabs (setup_of_spec real_tabs promo_pos) = true.
Proof. vm_compute. reflexivity. Qed.
Example inv_ep : invb real_tabs (setup_of_spec real_tabs ep_pos) = true.
Proof. vm_compute. reflexivity. Qed.

Example fen_roundtrip_kiwipete :
  fen_of (setup_of_spec real_tabs kiwipete) = fen FenStrings.kiwipete_s.
Proof. vm_compute. reflexivity. Qed.

(* invariant after a few moves (castling, capture on a rook square) and a null move *)
Definition after_ops (q : pos) (ops : list op) : option ipos :=
  fold_left (fun s o => bind s (fun p => apply_op real_tabs p o)) ops (Some (setup_of_spec real_tabs q)).

(* Kiwipete: e1g1 (castle, code 4+64*... ) is 49414 = 6 + 64*4 + 3*16384 ; then a6e2 (bishop takes bishop) *)
Example inv_after_castle_and_capture :
  match after_ops kiwipete [ODo 49414; ODo (12 + 64 * 40); ODoNull] with
  | Some p => invb real_tabs p && (Z.of_nat (List.length (i_hist p)) =? 3)%Z
  | None => false end = true.
Proof. vm_compute. reflexivity. Qed.

(* a do / undo excursion (with a nested null move and a cached check flag) gives back the position *)
Example excursion_example :
  let p := setup_of_spec real_tabs kiwipete in
  run_exc real_tabs (Move 49414 [Flag 1; Null [Move (12 + 64 * 40) []]; Flag 2]) p = Some p.
Proof. vm_compute. reflexivity. Qed.

(* en passant: d5xc6 (code 42 + 64*35 + 2*16384) and back *)
Example excursion_ep_example :
  let p := setup_of_spec real_tabs ep_pos in
  run_exc real_tabs (Move (42 + 64 * 35 + 2 * 16384) []) p = Some p.
Proof. vm_compute. reflexivity. Qed.

(** ** Refuted twins: the game phase (putPiece / removePiece clamp it).
    Witness: rnbqkbnr/pPpppppp/8/8/8/8/1PPPPPPP/RNBQKBNR w KQkq - 0 1, b7xa8=Q, UndoMove. *)
Definition bxa8Q : mv := mkmv 49 56 PROMOTION QUEEN.

Lemma bxa8Q_legal : In bxa8Q (legal promo_pos).
Proof. vm_compute. tauto. Qed.

(* C03 literally ("game phase ... identical to what it was before") fails *)
Theorem excursion_restores_refuted :
  let p := setup_of_spec real_tabs promo_pos in
  exists p', run_exc real_tabs (Move (code bxa8Q) []) p = Some p' /\
             WF real_tabs p /\ exc_ok real_tabs False (Move (code bxa8Q) []) p /\
             GamePhase p = 24%Z /\ GamePhase p' = 22%Z /\ observe real_tabs p' <> observe real_tabs p.
Proof.
  intro p.
  assert (W : WF real_tabs p) by (apply wfb_sound; vm_compute; reflexivity).
  assert (Eabs : abs p = promo_pos) by (vm_compute; reflexivity).
  destruct (run_exc real_tabs (Move (code bxa8Q) []) p) as [p'|] eqn:E; [|vm_compute in E; discriminate].
  exists p'. split; [reflexivity|]. split; [exact W|]. split; [|split; [vm_compute; reflexivity|]].
  - cbn [exc_ok]. split; [|split].
    + exists bxa8Q. split; [reflexivity|]. apply (pseudo_move_ok real_tabs p W). rewrite Eabs.
      apply legal_pseudo. exact bxa8Q_legal.
    + unfold room. vm_compute. lia.
    + intros p1 _. split; [tauto|exact I].
  - assert (Ep : GamePhase p' = 22%Z).
    { assert (H : option_map GamePhase (run_exc real_tabs (Move (code bxa8Q) []) p) = Some 22%Z) by (vm_compute; reflexivity).
      rewrite E in H. cbn in H. congruence. }
    split; [exact Ep|].
    intro Eo. assert (H : nth 97 (observe real_tabs p') 0%Z = nth 97 (observe real_tabs p) 0%Z) by (rewrite Eo; reflexivity).
    assert (H1 : option_map (fun x => nth 97 (observe real_tabs x) 0%Z) (run_exc real_tabs (Move (code bxa8Q) []) p) = Some 22%Z)
      by (vm_compute; reflexivity).
    rewrite E in H1. cbn [option_map] in H1.
    assert (H2 : nth 97 (observe real_tabs p) 0%Z = 24%Z) by (vm_compute; reflexivity).
    congruence.
Qed.

(* C04 literally ("game phase equals what a fresh position built from the current FEN reports")
   fails in a reachable position: after the excursion above the engine says 22, a fresh position 24 *)
Theorem fresh_equal_phase_refuted :
  exists p', Reach real_tabs p' /\ GamePhase p' = 22%Z /\
             GamePhase (setup_of_spec real_tabs (abs p')) = 24%Z /\
             psum real_tabs (i_board p') = 24%Z.
Proof.
  set (p := setup_of_spec real_tabs promo_pos).
  assert (I : Inv real_tabs p) by (apply invb_sound; vm_compute; reflexivity).
  assert (R : Reach real_tabs p) by (apply R_base; [exact I|reflexivity]).
  assert (Eabs : abs p = promo_pos) by (vm_compute; reflexivity).
  assert (Hm : In bxa8Q (pseudo (abs p))) by (rewrite Eabs; apply legal_pseudo; exact bxa8Q_legal).
  destruct (do_inv real_tabs p bxa8Q R Hm ltac:(unfold room; vm_compute; lia)) as (p1 & Hdo & R1 & _).
  assert (Hl : LastMove p1 <> 0).
  { assert (H : option_map LastMove (do_move real_tabs p (code bxa8Q)) = Some (code bxa8Q)) by (vm_compute; reflexivity).
    rewrite Hdo in H. cbn in H. injection H as ->. vm_compute. discriminate. }
  destruct (undo_inv real_tabs p1 R1 Hl) as (p2 & Hu & R2).
  exists p2. split; [exact R2|].
  assert (H : bind (do_move real_tabs p (code bxa8Q)) (undo_move real_tabs) = Some p2) by (rewrite Hdo; exact Hu).
  assert (H22 : option_map GamePhase (bind (do_move real_tabs p (code bxa8Q)) (undo_move real_tabs)) = Some 22%Z) by (vm_compute; reflexivity).
  assert (H24 : option_map (fun x => GamePhase (setup_of_spec real_tabs (abs x))) (bind (do_move real_tabs p (code bxa8Q)) (undo_move real_tabs)) = Some 24%Z) by (vm_compute; reflexivity).
  assert (Hps : option_map (fun x => psum real_tabs (i_board x)) (bind (do_move real_tabs p (code bxa8Q)) (undo_move real_tabs)) = Some 24%Z) by (vm_compute; reflexivity).
  rewrite H in H22, H24, Hps. cbn [option_map] in *. repeat split; congruence.
Qed.

(* the same position in the model without the clamps: nothing to refute *)
Example noclamp_excursion :
  let p := setup_of_spec real_tabs_noclamp promo_pos in
  run_exc real_tabs_noclamp (Move (code bxa8Q) []) p = Some p /\ GamePhase p = 24%Z /\
  option_map GamePhase (do_move real_tabs_noclamp p (code bxa8Q)) = Some 26%Z /\
  option_map GamePhase (do_move real_tabs (setup_of_spec real_tabs promo_pos) (code bxa8Q)) = Some 24%Z.
Proof. vm_compute. repeat split; reflexivity. Qed.

(** ** CheckRepetitions: honest corner cases *)
(* (a) the early exit lets the scan look one entry beyond an irreversible move: after 1.e4 (pawn
   move, clock 0) Nf6, the scan from the position after Nf6 compares with the START position,
   which lies before the pawn move (harmless: it cannot have the same placement) *)
Example scan_overrun_example :
  match after_ops start_pos [ODo (28 + 64 * 12); ODo (45 + 64 * 62)] with
  | Some p => (Z.of_nat (List.length (scanned p)) =? 1)%Z && (i_hmc p =? 1)%Z
  | None => false end = true.
Proof. vm_compute. reflexivity. Qed.
(* (b) with null moves on the stack the strict-decrease test can miss a true repetition: two
   consecutive null moves give back the same position and key, but the stored clocks are equal *)
Example scan_miss_with_null_moves :
  match after_ops start_pos [ODoNull; ODoNull] with
  | Some p => negb (check_repetitions p 1) &&
              (match i_hist p with _ :: h :: _ => i_key p =? h_key h | _ => false end)
  | None => false end = true.
Proof. vm_compute. reflexivity. Qed.
(* (c) a genuine repetition: Nf3 Nf6 Ng1 Ng8 repeats the start position once *)
Example repetition_example :
  match after_ops start_pos [ODo (21 + 64 * 6); ODo (45 + 64 * 62); ODo (6 + 64 * 21); ODo (62 + 64 * 45)] with
  | Some p => check_repetitions p 1 && negb (check_repetitions p 2)
  | None => false end = true.
Proof. vm_compute. reflexivity. Qed.

(** ** material: the clauses of C10 on the engine's function (real tables) *)
Lemma real_tabs_pvals : real_pvals real_tabs.
Proof. repeat split. Qed.

(* never "insufficient" while a pawn, a rook or a queen is on the board *)
Theorem material_never_with_pawn_rook_queen p : Coh real_tabs p ->
  let b := i_board p in
  (1 <= cnt b 2 + cnt b 10 + cnt b 5 + cnt b 13 + cnt b 6 + cnt b 14)%Z ->
  insufficient_material real_tabs p = false.
Proof.
  intros C b H. destruct (insufficient_material real_tabs p) eqn:E; [|reflexivity]. exfalso.
  apply (material_exact real_tabs real_tabs_pvals p C) in E. fold b in E.
  pose proof (cnt_nonneg b 2). pose proof (cnt_nonneg b 10). pose proof (cnt_nonneg b 5). pose proof (cnt_nonneg b 13).
  pose proof (cnt_nonneg b 6). pose proof (cnt_nonneg b 14). pose proof (cnt_nonneg b 3). pose proof (cnt_nonneg b 4).
  pose proof (cnt_nonneg b 11). pose proof (cnt_nonneg b 12).
  destruct (Z.le_gt_cases 1 (cnt b 2 + cnt b 10)) as [Hp|Hp].
  - revert E. apply ic_pawn; lia.
  - revert E. apply ic_rook_or_queen; lia.
Qed.

(* dead positions named by C10: bare kings, king + one minor piece against king, single bishops *)
Theorem material_dead_positions p : Coh real_tabs p ->
  let b := i_board p in
  cnt b 2 = 0%Z -> cnt b 10 = 0%Z -> cnt b 5 = 0%Z -> cnt b 13 = 0%Z -> cnt b 6 = 0%Z -> cnt b 14 = 0%Z ->
  ((cnt b 3 + cnt b 4 <= 1 /\ cnt b 11 + cnt b 12 = 0) \/ (cnt b 3 + cnt b 4 = 0 /\ cnt b 11 + cnt b 12 <= 1) \/
   (cnt b 3 = 0 /\ cnt b 4 = 1 /\ cnt b 11 = 0 /\ cnt b 12 = 1))%Z ->
  insufficient_material real_tabs p = true.
Proof.
  intros C b H2 H10 H5 H13 H6 H14 H.
  apply (material_exact real_tabs real_tabs_pvals p C). fold b. rewrite H2, H10, H5, H13, H6, H14.
  pose proof (cnt_nonneg b 3). pose proof (cnt_nonneg b 4). pose proof (cnt_nonneg b 11). pose proof (cnt_nonneg b 12).
  unfold insuff_counts. lia.
Qed.

(* mating material against the bare king: bishop + knight, two bishops (any square colours) *)
Theorem material_mating_material p : Coh real_tabs p ->
  let b := i_board p in
  cnt b 2 = 0%Z -> cnt b 10 = 0%Z -> cnt b 5 = 0%Z -> cnt b 13 = 0%Z -> cnt b 6 = 0%Z -> cnt b 14 = 0%Z ->
  ((cnt b 3 = 1 /\ cnt b 4 = 1 /\ cnt b 11 = 0 /\ cnt b 12 = 0) \/ (cnt b 3 = 0 /\ cnt b 4 = 0 /\ cnt b 11 = 1 /\ cnt b 12 = 1) \/
   (cnt b 3 = 0 /\ cnt b 4 = 2 /\ cnt b 11 = 0 /\ cnt b 12 = 0) \/ (cnt b 3 = 0 /\ cnt b 4 = 0 /\ cnt b 11 = 0 /\ cnt b 12 = 2))%Z ->
  insufficient_material real_tabs p = false.
Proof.
  intros C b H2 H10 H5 H13 H6 H14 H.
  destruct (insufficient_material real_tabs p) eqn:E; [|reflexivity]. exfalso.
  apply (material_exact real_tabs real_tabs_pvals p C) in E. fold b in E. rewrite H2, H10, H5, H13, H6, H14 in E.
  unfold insuff_counts in E. lia.
Qed.

Theorem key_separates_single :
  (forall b c e h f h' f', key_of real_tabs (mkpos b 0 c e h f) <> key_of real_tabs (mkpos b 1 c e h' f')) /\
  (forall b s c c' e h f h' f', c < 16 -> c' < 16 -> c <> c' ->
     key_of real_tabs (mkpos b s c e h f) <> key_of real_tabs (mkpos b s c' e h' f')) /\
  (forall b s c e e' h f h' f', e <= 64 -> e' <= 64 ->
     (e = 64 /\ e' < 64) \/ (e < 64 /\ e' = 64) \/ (e < 64 /\ e' < 64 /\ file_of e <> file_of e') ->
     key_of real_tabs (mkpos b s c e h f) <> key_of real_tabs (mkpos b s c e' h' f')) /\
  (forall b sq a' s c e h f h' f', List.length b = 64%nat -> sq < 64 -> okpc (at_ b sq) = true -> okpc a' = true ->
     a' <> at_ b sq -> key_of real_tabs (mkpos b s c e h f) <> key_of real_tabs (mkpos (put b sq a') s c e h' f')).
Proof.
  split; [exact key_separates_side|]. split; [exact key_separates_rights|]. split; [exact key_separates_ep|exact key_separates_square].
Qed.

(** ** Assumptions *)
Print Assumptions setup_inv.
Print Assumptions do_move_refines.
Print Assumptions do_moves_refines.
Print Assumptions do_move_refines_pseudo.
Print Assumptions do_move_refines_legal.
Print Assumptions undo_do_pseudo.
Print Assumptions pseudo_move_ok.
Print Assumptions do_wf.
Print Assumptions do_keyok.
Print Assumptions do_phase.
Print Assumptions do_inv.
Print Assumptions undo_inv.
Print Assumptions null_inv.
Print Assumptions undo_null_inv.
Print Assumptions reach_inv.
Print Assumptions undo_do.
Print Assumptions undo_null_do_null.
Print Assumptions excursion_restores.
Print Assumptions excursion_restores_observables.
Print Assumptions excursion_restores_all.
Print Assumptions excursion_restores_refuted.
Print Assumptions fresh_equal.
Print Assumptions fresh_equal_phase_refuted.
Print Assumptions key_function.
Print Assumptions key_separates_single.
Print Assumptions material_never_with_pawn_rook_queen.
Print Assumptions material_dead_positions.
Print Assumptions material_mating_material.
Print Assumptions key_separates_side.
Print Assumptions key_separates_rights.
Print Assumptions key_separates_ep.
Print Assumptions key_separates_square.
Print Assumptions clock_exact.
Print Assumptions repetition_scan.
Print Assumptions window_lower.
Print Assumptions window_upper.
Print Assumptions material_exact.
Print Assumptions ic_rook_or_queen.
Print Assumptions do_move_total.
Print Assumptions undo_move_total.
