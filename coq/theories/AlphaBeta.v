(** * AlphaBeta: FrankyGo's alpha-beta / PVS search restricted to its sound techniques (C06)

    Transcribed from /repo/internal/search/alphabeta.go (rootSearch, search, qsearch)
    with UseRazoring, UseRFP, UseNullMove, UseExt, UseFP, UseLmp, UseLmr, UseQFP and
    UseTTValue off and stopConditions() = false.  What remains:
      - mate distance pruning            (cfg switch [use_mdp],      Settings.Search.UseMDP)
      - PVS null window + re-search       (cfg switch [use_pvs],      Settings.Search.UsePVS)
      - quiescence stand-pat cut / raise  (cfg switch [use_standpat], Settings.Search.UseQSStandpat)
      - fail-soft bestNodeValue, beta cut, alpha raise, mate / stalemate scoring,
        draws scored 0 by the parent.
    Move ordering (hash/PV move, killers, history, counter moves, IID, root move
    sorting) only permutes the kids of a node; the relational semantics lets every
    node visit (also the null-window visit and the re-search of one node) pick its
    own permutation. *)

From Coq Require Import ZArith List Bool Lia Permutation.
From FG Require Import GameTree.
Import ListNotations.
Open Scope Z_scope.

Record cfg := { use_pvs : bool; use_mdp : bool; use_standpat : bool }.

(** three-way fail-soft contract of a search with window (a,b) and true value m *)
Definition contract (m a b r : Z) : Prop :=
  (r <= a -> m <= r) /\ (a < r < b -> r = m) /\ (b <= r -> r <= m).

Definition in_range (r : Z) : Prop := - MATE <= r <= MATE.

(** ** Mate distance pruning (search l.192-199, qsearch l.764-771)
<<
	if Settings.Search.UseMDP {
		alpha = Max(alpha, -ValueCheckMate+Value(ply))
		beta = Min(beta, ValueCheckMate-Value(ply))
		if alpha >= beta { return alpha }
	}
>> *)
Definition mdp_a (c : cfg) (ply a : Z) : Z := if use_mdp c then Z.max a (- MATE + ply) else a.
Definition mdp_b (c : cfg) (ply b : Z) : Z := if use_mdp c then Z.min b (MATE - ply) else b.

(** ** Stand-pat (qsearch l.782-798)
<<
	if !hasCheck {
		staticEval = s.evaluate(p, ply)
		if Settings.Search.UseQSStandpat && staticEval > alpha {
			if staticEval >= beta { return staticEval }
			alpha = staticEval
		}
		bestNodeValue = staticEval
	}
>>
    [inl e] = return e at once;  [inr (alpha, bestNodeValue)] = enter the move loop.
    A node without stand-pat value starts with bestNodeValue = ValueNA. *)
Definition standpat (spat : bool) (st : option Z) (a b : Z) : Z + (Z * Z) :=
  match st with
  | None => inr (a, NA)
  | Some e =>
      if spat && (e >? a) then
        if e >=? b then inl e else inr (e, e)
      else inr (a, e)
  end.

(** ** After the move loop with movesSearched == 0
    search l.716-726: [if p.HasCheck() { bestNodeValue = -ValueCheckMate + Value(ply) } else { bestNodeValue = ValueDraw }]
    qsearch l.971-985: [if p.HasCheck() { bestNodeValue = -ValueCheckMate + Value(ply) }], otherwise
    bestNodeValue keeps the stand-pat value.  A normal node has [st = None], a
    quiescence node not in check has [st = Some _]. *)
Definition nomoves (chk : bool) (st : option Z) (ply best : Z) : Z :=
  if chk then - MATE + ply else match st with Some _ => best | None => 0 end.

(** ** Relational semantics *)

Section Rel.
  (** [S k ply a b r]: searching kid [k] at [ply] with window (a,b) may return [r] *)
  Variable S : tree -> Z -> Z -> Z -> Z -> Prop.

  (** value of one move (search l.593-629, rootSearch l.86-105, qsearch l.920-924)
<<
	if s.checkDrawRepAnd50(p, 2) {
		value = ValueDraw
	} else {
		if !Settings.Search.UsePVS || movesSearched == 0 {
			value = -s.search(p, newDepth, ply+1, -beta, -alpha, true, true)
		} else {
			value = -s.search(p, lmrDepth, ply+1, -alpha-1, -alpha, false, true)
			if value > alpha && ... value < beta {      (lmrDepth == newDepth)
				value = -s.search(p, newDepth, ply+1, -beta, -alpha, true, true)
			}
		}
	}
>>
      [pv] = this node uses the null-window variant; [first] = movesSearched == 0. *)
  Inductive kid_val (pv first : bool) (ply a b : Z) : tree -> Z -> Prop :=
  | KV_Draw : kid_val pv first ply a b Draw 0
  | KV_Full k r :
      k <> Draw -> pv = false \/ first = true ->
      S k (ply + 1) (- b) (- a) r ->
      kid_val pv first ply a b k (- r)
  | KV_NullKeep k r :
      k <> Draw -> pv = true -> first = false ->
      S k (ply + 1) (- a - 1) (- a) r ->
      ~ (- r > a /\ - r < b) ->
      kid_val pv first ply a b k (- r)
  | KV_NullRe k r r2 :
      k <> Draw -> pv = true -> first = false ->
      S k (ply + 1) (- a - 1) (- a) r ->
      - r > a -> - r < b ->
      S k (ply + 1) (- b) (- a) r2 ->
      kid_val pv first ply a b k (- r2).

  (** the move loop (search l.644-701, rootSearch l.124-139, qsearch l.938-963)
<<
	if value > bestNodeValue {
		bestNodeValue = value; bestNodeMove = move
		if value > alpha {
			if value >= beta { ...; break }
			alpha = value
		}
	}
>>
      state: remaining moves (with their index), first, alpha, bestNodeValue, best move;
      result: final bestNodeValue and best move. *)
  Inductive loop_rel (pv : bool) (ply b : Z) :
    list (nat * tree) -> bool -> Z -> Z -> option nat -> Z -> option nat -> Prop :=
  | L_nil first a best bi :
      loop_rel pv ply b [] first a best bi best bi
  | L_skip i k l first a best bi v r ri :
      kid_val pv first ply a b k v -> v <= best ->
      loop_rel pv ply b l false a best bi r ri ->
      loop_rel pv ply b ((i, k) :: l) first a best bi r ri
  | L_best i k l first a best bi v r ri :
      kid_val pv first ply a b k v -> v > best -> v <= a ->
      loop_rel pv ply b l false a v (Some i) r ri ->
      loop_rel pv ply b ((i, k) :: l) first a best bi r ri
  | L_cut i k l first a best bi v :
      kid_val pv first ply a b k v -> v > best -> v > a -> v >= b ->
      loop_rel pv ply b ((i, k) :: l) first a best bi v (Some i)
  | L_raise i k l first a best bi v r ri :
      kid_val pv first ply a b k v -> v > best -> v > a -> v < b ->
      loop_rel pv ply b l false v v (Some i) r ri ->
      loop_rel pv ply b ((i, k) :: l) first a best bi r ri.

  (** the body of search / qsearch after mate distance pruning, window (a,b).
      [pvs_ok] = Settings.Search.UsePVS: a node may use the null-window variant
      (search) only if PVS is on; it may always use the plain variant (qsearch, or
      search with PVS off).  Allowing both at every node covers the real code, where
      the choice depends on whether the node is reached with depth > 0. *)
  Inductive body_rel (pvs_ok spat chk : bool) (st : option Z) (kids : list tree)
            (ply a b : Z) : Z -> Prop :=
  | B_StandCut e :
      standpat spat st a b = inl e ->
      body_rel pvs_ok spat chk st kids ply a b e
  | B_NoMoves a2 best :
      standpat spat st a b = inr (a2, best) -> kids = [] ->
      body_rel pvs_ok spat chk st kids ply a b (nomoves chk st ply best)
  | B_Loop a2 best pv ikids r ri :
      standpat spat st a b = inr (a2, best) -> kids <> [] ->
      (pv = true -> pvs_ok = true) ->
      Permutation (index kids) ikids ->
      loop_rel pv ply b ikids true a2 best None r ri ->
      body_rel pvs_ok spat chk st kids ply a b r.
End Rel.

(** [search_rel c t ply a b r]: search / qsearch of [t] at [ply] with window (a,b) may return [r].
    Leaf: [return s.evaluate(p, ply)] (qsearch l.757-759, before MDP).  A Draw is never
    searched by the engine (the parent scores it); giving it the value 0 is harmless. *)
Inductive search_rel (c : cfg) : tree -> Z -> Z -> Z -> Z -> Prop :=
| SR_Draw ply a b : search_rel c Draw ply a b 0
| SR_Leaf v ply a b : search_rel c (Leaf v) ply a b v
| SR_MdpCut chk st kids ply a b :
    use_mdp c = true -> mdp_a c ply a >= mdp_b c ply b ->
    search_rel c (Node chk st kids) ply a b (mdp_a c ply a)
| SR_Body chk st kids ply a b r :
    (use_mdp c = true -> mdp_a c ply a < mdp_b c ply b) ->
    body_rel (search_rel c) (use_pvs c) (use_standpat c) chk st kids ply
             (mdp_a c ply a) (mdp_b c ply b) r ->
    search_rel c (Node chk st kids) ply a b r.

(** rootSearch with the window of iterativeDeepening (alpha = ValueMin, beta = ValueMax):
    no MDP, no stand-pat, PVS iff Settings.Search.UsePVS, root moves in any order
    (sorted by the values of the previous iteration).  Result: bestNodeValue and the
    index (in [kids]) of the move saved to pv[0][0]. *)
Inductive root_rel (c : cfg) : tree -> Z -> option nat -> Prop :=
| Root chk st kids ikids r ri :
    Permutation (index kids) ikids ->
    loop_rel (search_rel c) (use_pvs c) 0 MATE ikids true (- MATE) NA None r ri ->
    root_rel c (Node chk st kids) r ri.

(** ** Executable search (kids in list order) *)

Section Fn.
  Variable F : tree -> Z -> Z -> Z -> Z.   (* F k ply a b *)

  Definition kid_fn (pv first : bool) (ply a b : Z) (k : tree) : Z :=
    match k with
    | Draw => 0
    | _ =>
        if negb pv || first then - F k (ply + 1) (- b) (- a)
        else
          let v := - F k (ply + 1) (- a - 1) (- a) in
          if (v >? a) && (v <? b) then - F k (ply + 1) (- b) (- a) else v
    end.

  Fixpoint loop_fn (pv : bool) (ply b : Z) (l : list tree) (i : nat) (first : bool)
           (a best : Z) (bi : option nat) : Z * option nat :=
    match l with
    | [] => (best, bi)
    | k :: l' =>
        let v := kid_fn pv first ply a b k in
        if v >? best then
          if v >? a then
            if v >=? b then (v, Some i)
            else loop_fn pv ply b l' (S i) false v v (Some i)
          else loop_fn pv ply b l' (S i) false a v (Some i)
        else loop_fn pv ply b l' (S i) false a best bi
    end.
End Fn.

(** [search_fn] uses the null-window (search) variant exactly at nodes with
    [stand = None] when [use_pvs c] is on, and the plain (qsearch) variant at nodes
    with a stand-pat value. *)
Fixpoint search_fn (c : cfg) (t : tree) (ply a b : Z) {struct t} : Z :=
  match t with
  | Draw => 0
  | Leaf v => v
  | Node chk st kids =>
      let a1 := mdp_a c ply a in
      let b1 := mdp_b c ply b in
      if use_mdp c && (a1 >=? b1) then a1
      else
        match standpat (use_standpat c) st a1 b1 with
        | inl e => e
        | inr (a2, best) =>
            match kids with
            | [] => nomoves chk st ply best
            | _ =>
                let pv := use_pvs c && match st with None => true | Some _ => false end in
                fst (loop_fn (search_fn c) pv ply b1 kids 0%nat true a2 best None)
            end
        end
  end.

Definition root_fn (c : cfg) (t : tree) : Z * option nat :=
  match t with
  | Node _ _ kids => loop_fn (search_fn c) (use_pvs c) 0 MATE kids 0%nat true (- MATE) NA None
  | _ => (NA, None)
  end.

(** ** The executable search is one run of the relational semantics *)

Lemma index_from_cons i k l : index_from i (k :: l) = (i, k) :: index_from (S i) l.
Proof. reflexivity. Qed.

Section FnRel.
  Variable S : tree -> Z -> Z -> Z -> Z -> Prop.
  Variable F : tree -> Z -> Z -> Z -> Z.

  Lemma kid_fn_rel pv first ply a b k :
    (forall ply a b, S k ply a b (F k ply a b)) ->
    kid_val S pv first ply a b k (kid_fn F pv first ply a b k).
  Proof.
    intros HF.
    assert (Hgen : k <> Draw ->
      kid_val S pv first ply a b k
        (if negb pv || first then - F k (ply + 1) (- b) (- a)
         else let v := - F k (ply + 1) (- a - 1) (- a) in
              if (v >? a) && (v <? b) then - F k (ply + 1) (- b) (- a) else v)).
    { intros Hk. destruct (negb pv || first) eqn:Hpf.
      - apply KV_Full; [exact Hk | | apply HF].
        destruct pv; [right | left]; [now destruct first | reflexivity].
      - apply orb_false_iff in Hpf as [Hpv Hfirst]. apply negb_false_iff in Hpv.
        cbv zeta.
        destruct ((- F k (ply + 1) (- a - 1) (- a) >? a)
                  && (- F k (ply + 1) (- a - 1) (- a) <? b)) eqn:Hc.
        + apply andb_true_iff in Hc as [Hc1 Hc2].
          eapply KV_NullRe; [exact Hk | exact Hpv | exact Hfirst | apply HF | lia | lia | apply HF].
        + apply KV_NullKeep; [exact Hk | exact Hpv | exact Hfirst | apply HF | ].
          apply andb_false_iff in Hc. lia. }
    destruct k as [ | v | chk st kids].
    - apply KV_Draw.
    - apply Hgen. discriminate.
    - apply Hgen. discriminate.
  Qed.

  Lemma loop_fn_rel pv ply b l : forall i first a best bi,
    (forall k, In k l -> forall ply a b, S k ply a b (F k ply a b)) ->
    loop_rel S pv ply b (index_from i l) first a best bi
             (fst (loop_fn F pv ply b l i first a best bi))
             (snd (loop_fn F pv ply b l i first a best bi)).
  Proof.
    induction l as [ | k l IH]; intros i first a best bi HF.
    - cbn. apply L_nil.
    - rewrite index_from_cons. cbn [loop_fn].
      assert (Hk : kid_val S pv first ply a b k (kid_fn F pv first ply a b k)).
      { apply kid_fn_rel. apply HF. now left. }
      assert (HF' : forall k', In k' l -> forall ply a b, S k' ply a b (F k' ply a b)).
      { intros k' Hin. apply HF. now right. }
      set (v := kid_fn F pv first ply a b k) in *.
      destruct (v >? best) eqn:Hvb.
      + destruct (v >? a) eqn:Hva.
        * destruct (v >=? b) eqn:Hvbeta.
          -- cbn [fst snd]. eapply L_cut; [exact Hk | lia | lia | lia].
          -- eapply L_raise; [exact Hk | lia | lia | lia | apply IH, HF'].
        * eapply L_best; [exact Hk | lia | lia | apply IH, HF'].
      + eapply L_skip; [exact Hk | lia | apply IH, HF'].
  Qed.
End FnRel.

Lemma search_fn_rel c t : forall ply a b, search_rel c t ply a b (search_fn c t ply a b).
Proof.
  induction t as [ | v | chk st kids IH] using tree_ind'; intros ply a b.
  - apply SR_Draw.
  - apply SR_Leaf.
  - cbn [search_fn].
    destruct (use_mdp c && (mdp_a c ply a >=? mdp_b c ply b)) eqn:Hm.
    + apply andb_true_iff in Hm as [Hm1 Hm2]. apply SR_MdpCut; [exact Hm1 | lia].
    + apply SR_Body.
      { intros Hm1. rewrite Hm1 in Hm. cbn in Hm. lia. }
      destruct (standpat (use_standpat c) st (mdp_a c ply a) (mdp_b c ply b))
        as [e | [a2 best]] eqn:Hsp.
      * now apply B_StandCut.
      * destruct kids as [ | k kids'] eqn:Hkids.
        -- eapply B_NoMoves; [exact Hsp | reflexivity].
        -- rewrite <- Hkids in *.
           eapply B_Loop with (ikids := index kids)
             (pv := use_pvs c && match st with None => true | Some _ => false end);
             [exact Hsp | subst kids; discriminate | | apply Permutation_refl | ].
           ++ intros Hpv. now apply andb_true_iff in Hpv as [Hpv _].
           ++ apply loop_fn_rel. exact IH.
Qed.

Lemma root_fn_rel c chk st kids :
  root_rel c (Node chk st kids)
           (fst (root_fn c (Node chk st kids))) (snd (root_fn c (Node chk st kids))).
Proof.
  cbn [root_fn]. eapply Root; [apply Permutation_refl | ].
  apply loop_fn_rel. intros k _. apply search_fn_rel.
Qed.

(** ** Soundness of one move and of the move loop *)

Section Sound.
  Variable S : tree -> Z -> Z -> Z -> Z -> Prop.

  (** induction hypothesis for a kid searched at [ply+1] *)
  Definition kid_ok (ply : Z) (k : tree) : Prop :=
    forall a b r, - MATE <= a -> a < b -> b <= MATE ->
      S k (ply + 1) a b r ->
      contract (minimax (ply + 1) k) a b r /\ in_range r.

  Lemma kid_val_sound pv first ply a b k v :
    kid_ok ply k -> - MATE <= a -> a < b -> b <= MATE ->
    kid_val S pv first ply a b k v ->
    contract (sc ply k) a b v /\ in_range v.
  Proof.
    intros Hok Ha Hab Hb Hkv. unfold sc.
    destruct Hkv as [ | k r Hk Hpf HS | k r Hk Hpv Hfirst HS Hno
                      | k r r2 Hk Hpv Hfirst HS Hr1 Hr2 HS2].
    - cbn [minimax]. unfold contract, in_range, MATE. lia.
    - destruct (Hok (- b) (- a) r) as [Hc Hr]; [lia | lia | lia | exact HS | ].
      unfold contract, in_range in *. lia.
    - destruct (Hok (- a - 1) (- a) r) as [Hc Hr]; [lia | lia | lia | exact HS | ].
      unfold contract, in_range in *. lia.
    - destruct (Hok (- b) (- a) r2) as [Hc Hr]; [lia | lia | lia | exact HS2 | ].
      unfold contract, in_range in *. lia.
  Qed.

  (** Invariants of the move loop, started in state (a, best, bi) on moves [l]
      and finishing with (r, ri):
        1. best <= r
        2. r < b  ->  every move of l is worth at most r
        3. a < r  ->  r = best, or some move of l is worth at least r
        4. if l is not empty and best is the sentinel, r is a proper value
        5. r = best or r is a proper value
        6. r = best  ->  the best move did not change
        7. a < r < b and r <> best  ->  ri is a move of l worth exactly r *)
  Lemma loop_sound pv ply b l first a best bi r ri :
    loop_rel S pv ply b l first a best bi r ri ->
    - MATE <= a -> a < b -> b <= MATE ->
    (forall ik, In ik l -> kid_ok ply (snd ik)) ->
    best <= r
    /\ (r < b -> forall ik, In ik l -> sc ply (snd ik) <= r)
    /\ (a < r -> r = best \/ exists ik, In ik l /\ r <= sc ply (snd ik))
    /\ (l <> [] -> best < - MATE -> - MATE <= r)
    /\ (r = best \/ in_range r)
    /\ (r = best -> ri = bi)
    /\ (a < r < b -> r = best \/
          exists ik, In ik l /\ ri = Some (fst ik) /\ sc ply (snd ik) = r).
  Proof.
    intros Hloop.
    induction Hloop as
      [ first a best bi
      | i k l first a best bi v r ri Hkv Hv _ IH
      | i k l first a best bi v r ri Hkv Hv1 Hv2 _ IH
      | i k l first a best bi v Hkv Hv1 Hv2 Hv3
      | i k l first a best bi v r ri Hkv Hv1 Hv2 Hv3 _ IH ];
      intros Ha Hab Hb Hkids.
    - (* no move left *)
      split; [lia | ]. split; [ | split; [ | split; [ | split; [ | split]]]].
      + intros _ ik [].
      + intros _. now left.
      + intros Hne. now contradiction Hne.
      + now left.
      + reflexivity.
      + intros _. now left.
    - (* value <= bestNodeValue *)
      destruct (kid_val_sound _ _ _ _ _ _ _ (Hkids (i, k) (or_introl eq_refl)) Ha Hab Hb Hkv)
        as [Hc Hr].
      destruct IH as (I1 & I2 & I3 & I4 & I5 & I6 & I7);
        [lia | lia | lia | intros ik Hin; apply Hkids; now right | ].
      unfold contract, in_range in *. cbn [snd fst] in *.
      split; [lia | ]. split; [ | split; [ | split; [ | split; [ | split]]]].
      + intros Hrb ik [<- | Hin]; [cbn [snd]; lia | now apply I2].
      + intros Har. destruct (I3 Har) as [-> | (ik & Hin & Hle)]; [now left | ].
        right. exists ik. split; [now right | exact Hle].
      + intros _ Hbest. lia.
      + exact I5.
      + exact I6.
      + intros Harb. destruct (I7 Harb) as [-> | (ik & Hin & Hri & Hsc)]; [now left | ].
        right. exists ik. split; [now right | now split].
    - (* bestNodeValue < value <= alpha *)
      destruct (kid_val_sound _ _ _ _ _ _ _ (Hkids (i, k) (or_introl eq_refl)) Ha Hab Hb Hkv)
        as [Hc Hr].
      destruct IH as (I1 & I2 & I3 & I4 & I5 & I6 & I7);
        [lia | lia | lia | intros ik Hin; apply Hkids; now right | ].
      unfold contract, in_range in *. cbn [snd fst] in *.
      split; [lia | ]. split; [ | split; [ | split; [ | split; [ | split]]]].
      + intros Hrb ik [<- | Hin]; [cbn [snd]; lia | now apply I2].
      + intros Har. destruct (I3 Har) as [-> | (ik & Hin & Hle)]; [lia | ].
        right. exists ik. split; [now right | exact Hle].
      + intros _ _. lia.
      + right. destruct I5 as [-> | I5]; lia.
      + intros Hrb. lia.
      + intros Harb. destruct (I7 Harb) as [-> | (ik & Hin & Hri & Hsc)]; [lia | ].
        right. exists ik. split; [now right | now split].
    - (* beta cut *)
      destruct (kid_val_sound _ _ _ _ _ _ _ (Hkids (i, k) (or_introl eq_refl)) Ha Hab Hb Hkv)
        as [Hc Hr].
      unfold contract, in_range in *. cbn [snd fst] in *.
      split; [lia | ]. split; [ | split; [ | split; [ | split; [ | split]]]].
      + intros Hrb. lia.
      + intros _. right. exists (i, k). split; [now left | cbn [snd]; lia].
      + intros _ _. lia.
      + right. lia.
      + intros Hrb. lia.
      + intros Harb. lia.
    - (* alpha raised *)
      destruct (kid_val_sound _ _ _ _ _ _ _ (Hkids (i, k) (or_introl eq_refl)) Ha Hab Hb Hkv)
        as [Hc Hr].
      destruct IH as (I1 & I2 & I3 & I4 & I5 & I6 & I7);
        [lia | lia | lia | intros ik Hin; apply Hkids; now right | ].
      unfold contract, in_range in *. cbn [snd fst] in *.
      split; [lia | ]. split; [ | split; [ | split; [ | split; [ | split]]]].
      + intros Hrb ik [<- | Hin]; [cbn [snd]; lia | now apply I2].
      + intros Har. right.
        destruct (Z.eq_dec r v) as [-> | Hne].
        * exists (i, k). split; [now left | cbn [snd]; lia].
        * destruct I3 as [-> | (ik & Hin & Hle)]; [lia | congruence | ].
          exists ik. split; [now right | exact Hle].
      + intros _ _. lia.
      + right. destruct I5 as [-> | I5]; lia.
      + intros Hrb. lia.
      + intros Harb. right.
        destruct (Z.eq_dec r v) as [-> | Hne].
        * exists (i, k). split; [now left | ]. cbn [fst snd]. split; [now apply I6 | lia].
        * destruct I7 as [-> | (ik & Hin & Hri & Hsc)]; [lia | congruence | ].
          exists ik. split; [now right | now split].
  Qed.
End Sound.

(** ** Soundness of the node body (window after mate distance pruning) *)

Lemma perm_index_nonempty kids ikids :
  kids <> [] -> Permutation (index kids) ikids -> ikids <> [].
Proof.
  intros Hne HP ->. apply Permutation_sym, Permutation_nil in HP.
  destruct kids as [ | k kids]; [now apply Hne | discriminate HP].
Qed.

Section Body.
  Variable S : tree -> Z -> Z -> Z -> Z -> Prop.

  Lemma body_sound pvs_ok spat chk st kids ply a b r :
    evals_okb (Node chk st kids) = true ->
    0 <= ply -> ply + height (Node chk st kids) <= MAXPLY ->
    - MATE <= a -> a < b -> b <= MATE ->
    (forall k, In k kids -> kid_ok S ply k) ->
    body_rel S pvs_ok spat chk st kids ply a b r ->
    contract (minimax ply (Node chk st kids)) a b r /\ in_range r.
  Proof.
    intros Hok Hply Hh Ha Hab Hb Hkids Hbody.
    pose proof (height_nonneg (Node chk st kids)) as Hh0.
    assert (Hst : forall e, st = Some e -> - MATE + 130 < e < MATE - 130 /\ chk = false).
    { intros e ->. now apply evals_ok_stand in Hok. }
    destruct Hbody as [ e Hsp | a2 best Hsp -> | a2 best pv ikids r ri Hsp Hne _ HP Hloop ].
    - (* stand-pat cut: [return staticEval] *)
      unfold standpat in Hsp. destruct st as [e' | ]; [ | discriminate Hsp].
      destruct (spat && (e' >? a)) eqn:Hc; [ | discriminate Hsp].
      destruct (e' >=? b) eqn:Hc2; [ | discriminate Hsp].
      injection Hsp as <-. apply andb_true_iff in Hc as [_ Hc].
      destruct (Hst e' eq_refl) as [He _].
      rewrite minimax_Node.
      destruct (lmax (sc ply) (Some e') kids) as [m | ] eqn:Hm;
        [ | now apply lmax_none in Hm as [Hm _]].
      assert (e' <= m).
      { apply (lmax_ge _ _ _ _ _ _ Hm). left. exists e'. split; [reflexivity | lia]. }
      unfold contract, in_range, MATE in *. lia.
    - (* no move searched *)
      rewrite minimax_nokids. unfold nomoves, standpat in *.
      destruct st as [e | ].
      + destruct (Hst e eq_refl) as [He ->].
        assert (best = e) as ->.
        { destruct (spat && (e >? a)); [destruct (e >=? b); [discriminate Hsp | ] | ];
            now injection Hsp. }
        unfold contract, in_range, MATE in *. lia.
      + destruct chk; unfold contract, in_range, MATE, MAXPLY in *; lia.
    - (* move loop *)
      assert (Hik : forall ik, In ik ikids -> In (snd ik) kids).
      { intros ik Hin. apply In_index_snd.
        apply (Permutation_in _ (Permutation_sym HP) Hin). }
      rewrite minimax_Node.
      destruct (lmax (sc ply) st kids) as [m | ] eqn:Hm;
        [ | apply lmax_none in Hm as [_ Hm]; now contradiction Hne].
      assert (HU : forall r', (forall e, st = Some e -> e <= r') ->
                    (forall ik, In ik ikids -> sc ply (snd ik) <= r') -> m <= r').
      { intros r' H1 H2. apply (lmax_le _ _ _ _ _ _ Hm H1).
        intros k Hin. apply In_kid_index in Hin as (ik & Hin & <-).
        apply H2. apply (Permutation_in _ HP Hin). }
      assert (HL1 : forall r', (exists ik, In ik ikids /\ r' <= sc ply (snd ik)) -> r' <= m).
      { intros r' (ik & Hin & Hle). apply (lmax_ge _ _ _ _ _ _ Hm).
        right. exists (snd ik). split; [now apply Hik | exact Hle]. }
      assert (HL2 : forall e, st = Some e -> e <= m).
      { intros e ->. apply (lmax_ge _ _ _ _ _ _ Hm). left. exists e. split; [reflexivity | lia]. }
      assert (Hne' : ikids <> []) by (eapply perm_index_nonempty; eassumption).
      assert (Hkids' : forall ik, In ik ikids -> kid_ok S ply (snd ik)).
      { intros ik Hin. now apply Hkids, Hik. }
      unfold standpat in Hsp. destruct st as [e | ].
      + destruct (Hst e eq_refl) as [He _].
        specialize (HL2 e eq_refl).
        assert (HU' : forall r', e <= r' ->
                  (forall ik, In ik ikids -> sc ply (snd ik) <= r') -> m <= r').
        { intros r' H1 H2. apply HU; [ | exact H2]. intros e' [= <-]. exact H1. }
        destruct (spat && (e >? a)) eqn:Hc.
        * (* alpha = staticEval *)
          destruct (e >=? b) eqn:Hc2; [discriminate Hsp | ].
          injection Hsp as <- <-. apply andb_true_iff in Hc as [_ Hc].
          destruct (loop_sound _ _ _ _ _ _ _ _ _ _ _ Hloop) as (I1 & I2 & I3 & _ & I5 & _);
            [unfold MATE in *; lia | lia | lia | exact Hkids' | ].
          split.
          -- unfold contract. split; [lia | ]. split.
             ++ intros Hr. assert (m <= r) by (apply HU'; [lia | apply I2; lia]).
                destruct (Z.eq_dec r e) as [-> | Hre]; [lia | ].
                destruct I3 as [-> | Hex]; [lia | lia | ].
                apply HL1 in Hex. lia.
             ++ intros Hr. destruct I3 as [-> | Hex]; [lia | lia | now apply HL1].
          -- unfold in_range, MATE in *. destruct I5 as [-> | I5]; lia.
        * (* alpha unchanged, bestNodeValue = staticEval *)
          injection Hsp as <- <-.
          destruct (loop_sound _ _ _ _ _ _ _ _ _ _ _ Hloop) as (I1 & I2 & I3 & _ & I5 & _);
            [lia | lia | lia | exact Hkids' | ].
          split.
          -- unfold contract. split; [ | split].
             ++ intros Hr. apply HU'; [lia | apply I2; lia].
             ++ intros Hr. assert (m <= r) by (apply HU'; [lia | apply I2; lia]).
                destruct I3 as [-> | Hex]; [lia | lia | ]. apply HL1 in Hex. lia.
             ++ intros Hr. destruct I3 as [-> | Hex]; [lia | lia | now apply HL1].
          -- unfold in_range, MATE in *. destruct I5 as [-> | I5]; lia.
      + (* bestNodeValue = ValueNA *)
        injection Hsp as <- <-.
        destruct (loop_sound _ _ _ _ _ _ _ _ _ _ _ Hloop) as (I1 & I2 & I3 & I4 & I5 & _);
          [lia | lia | lia | exact Hkids' | ].
        assert (Hr0 : - MATE <= r) by (apply I4; [exact Hne' | unfold NA, MATE; lia]).
        assert (HU' : forall r', (forall ik, In ik ikids -> sc ply (snd ik) <= r') -> m <= r').
        { intros r' H2. apply HU; [ | exact H2]. intros e' [=]. }
        assert (HNA : r <> NA) by (unfold NA, MATE in *; lia).
        split.
        * unfold contract. split; [ | split].
          -- intros Hr. apply HU', I2. lia.
          -- intros Hr. assert (m <= r) by (apply HU', I2; lia).
             destruct I3 as [-> | Hex]; [lia | congruence | ]. apply HL1 in Hex. lia.
          -- intros Hr. destruct I3 as [-> | Hex]; [lia | congruence | now apply HL1].
        * destruct I5 as [-> | I5]; [congruence | exact I5].
  Qed.
End Body.

(** ** The search contract *)

Lemma search_sound c t : forall ply a b r,
  evals_okb t = true -> 0 <= ply -> ply + height t <= MAXPLY ->
  - MATE <= a -> a < b -> b <= MATE ->
  search_rel c t ply a b r ->
  contract (minimax ply t) a b r /\ in_range r.
Proof.
  induction t as [ | v | chk st kids IH] using tree_ind';
    intros ply a b r Hok Hply Hh Ha Hab Hb Hs.
  - inversion Hs; subst. cbn [minimax]. unfold contract, in_range, MATE. lia.
  - inversion Hs; subst. cbn [minimax evals_okb] in *. apply eval_okb_range in Hok.
    unfold contract, in_range, MATE in *. lia.
  - pose proof (minimax_range _ ply Hok Hply Hh) as Hmm.
    pose proof (height_nonneg (Node chk st kids)) as Hh0.
    inversion Hs as [ | | chk' st' kids' ply' a' b' Hm Hge
                      | chk' st' kids' ply' a' b' r' Hm Hbody ]; subst.
    + (* mate distance pruning: [if alpha >= beta { return alpha }] *)
      unfold mdp_a, mdp_b in *. rewrite Hm in *.
      unfold contract, in_range, MATE, MAXPLY in *. lia.
    + assert (Hw : - MATE <= mdp_a c ply a /\ mdp_a c ply a < mdp_b c ply b
                   /\ mdp_b c ply b <= MATE).
      { unfold mdp_a, mdp_b in *. destruct (use_mdp c).
        - specialize (Hm eq_refl). lia.
        - lia. }
      destruct Hw as (Hw1 & Hw2 & Hw3).
      assert (Hkids : forall k, In k kids -> kid_ok (search_rel c) ply k).
      { intros k Hin a0 b0 r0 Ha0 Hab0 Hb0 Hs0.
        pose proof (height_kid chk st kids k Hin).
        apply (IH k Hin); try assumption; try lia.
        now apply (evals_ok_kid _ _ _ _ Hok Hin). }
      destruct (body_sound (search_rel c) _ _ _ _ _ _ _ _ _ Hok Hply Hh Hw1 Hw2 Hw3 Hkids Hbody)
        as [Hc Hr].
      split; [ | exact Hr].
      unfold mdp_a, mdp_b in *. destruct (use_mdp c).
      * unfold contract, MATE, MAXPLY in *. lia.
      * exact Hc.
Qed.

(** *** C06, inner nodes: every run of the search (any move ordering at every visit,
    any combination of the sound switches) obeys the fail-soft alpha-beta contract
    with respect to the exact minimax value. *)
Theorem search_contract : forall c t ply a b r,
  bounded t -> 0 <= ply -> ply + height t <= 128 ->
  - MATE <= a -> a < b -> b <= MATE ->
  search_rel c t ply a b r ->
  (r <= a -> minimax ply t <= r) /\ (a < r < b -> r = minimax ply t) /\ (b <= r -> r <= minimax ply t).
Proof.
  intros c t ply a b r Hb Hply Hh Ha Hab Hbm Hs.
  apply bounded_evals in Hb.
  now destruct (search_sound c t ply a b r Hb Hply Hh Ha Hab Hbm Hs) as [Hc _].
Qed.

(** every value returned inside the root window is a proper value *)
Theorem search_in_range : forall c t ply a b r,
  bounded t -> 0 <= ply -> ply + height t <= 128 ->
  - MATE <= a -> a < b -> b <= MATE ->
  search_rel c t ply a b r -> - MATE <= r <= MATE.
Proof.
  intros c t ply a b r Hb Hply Hh Ha Hab Hbm Hs.
  apply bounded_evals in Hb.
  now destruct (search_sound c t ply a b r Hb Hply Hh Ha Hab Hbm Hs) as [_ Hr].
Qed.

(** full-window corollary: the value is exact *)
Corollary search_exact : forall c t ply r,
  bounded t -> 0 <= ply -> ply + height t <= 128 ->
  search_rel c t ply (- MATE) MATE r -> r = minimax ply t.
Proof.
  intros c t ply r Hb Hply Hh Hs.
  pose proof (minimax_range t ply (bounded_evals _ Hb) Hply Hh) as Hmm.
  destruct (search_contract c t ply (- MATE) MATE r Hb Hply Hh) as (H1 & H2 & H3);
    [lia | unfold MATE; lia | lia | exact Hs | ].
  pose proof (search_in_range c t ply (- MATE) MATE r Hb Hply Hh) as Hr.
  unfold MATE, MAXPLY in *. lia.
Qed.

(** ** The root *)

(** value of root move [k] as scored by rootSearch: 0 for a draw, otherwise the
    negated minimax value of the position after the move (ply 1) *)
Definition root_score (k : tree) : Z :=
  match k with Draw => 0 | _ => - minimax 1 k end.

Lemma root_score_sc k : root_score k = sc 0 k.
Proof. now destruct k. Qed.

(** *** C06, root: the value is the exact minimax value and the best move attains it *)
Theorem root_exact : forall c chk kids v oi,
  bounded (Node chk None kids) -> kids <> [] ->
  root_rel c (Node chk None kids) v oi ->
  v = minimax 0 (Node chk None kids) /\
  exists i k, oi = Some i /\ nth_error kids i = Some k /\ v = root_score k.
Proof.
  intros c chk kids v oi Hb Hne Hroot.
  pose proof (bounded_evals _ Hb) as Hok. pose proof (bounded_height _ Hb) as Hh.
  inversion Hroot as [chk' st' kids' ikids r ri HP Hloop]; subst.
  assert (Hik : forall ik, In ik ikids -> In (snd ik) kids).
  { intros ik Hin. apply In_index_snd. apply (Permutation_in _ (Permutation_sym HP) Hin). }
  assert (Hsc : forall k, In k kids -> - MATE + 2 <= sc 0 k <= MATE - 1).
  { intros k Hin. unfold sc.
    pose proof (height_kid chk None kids k Hin) as Hk.
    pose proof (height_nonneg k) as Hk0.
    pose proof (minimax_range k (0 + 1) (evals_ok_kid _ _ _ _ Hok Hin)).
    unfold MATE, MAXPLY in *. lia. }
  assert (Hne' : ikids <> []) by (eapply perm_index_nonempty; eassumption).
  destruct (loop_sound _ _ _ _ _ _ _ _ _ _ _ Hloop) as (I1 & I2 & I3 & I4 & I5 & I6 & I7);
    [lia | unfold MATE; lia | lia | | ].
  { intros ik Hin a0 b0 r0 Ha0 Hab0 Hb0 Hs0.
    pose proof (Hik ik Hin) as Hin'.
    pose proof (height_kid chk None kids _ Hin').
    apply (search_sound c); try assumption; try lia.
    now apply (evals_ok_kid _ _ _ _ Hok Hin'). }
  assert (Hr0 : - MATE <= v) by (apply I4; [exact Hne' | unfold NA, MATE; lia]).
  assert (HNA : v <> NA) by (unfold NA, MATE in *; lia).
  (* the value is strictly inside the root window *)
  assert (Hlo : - MATE < v).
  { destruct (Z.eq_dec v (- MATE)) as [-> | ]; [ | lia]. exfalso.
    destruct ikids as [ | ik ikids]; [now apply Hne' | ].
    assert (sc 0 (snd ik) <= - MATE) by (apply I2; [unfold MATE; lia | now left]).
    specialize (Hsc (snd ik) (Hik ik (or_introl eq_refl))). lia. }
  assert (Hhi : v < MATE).
  { destruct I3 as [-> | (ik & Hin & Hle)]; [exact Hlo | congruence | ].
    specialize (Hsc _ (Hik ik Hin)). lia. }
  split.
  - rewrite minimax_Node.
    destruct (lmax (sc 0) None kids) as [m | ] eqn:Hm;
      [ | apply lmax_none in Hm as [_ Hm]; now contradiction Hne].
    assert (m <= v).
    { apply (lmax_le _ _ _ _ _ _ Hm); [intros e [=] | ].
      intros k Hin. apply In_kid_index in Hin as (ik & Hin & <-).
      apply (I2 Hhi). apply (Permutation_in _ HP Hin). }
    assert (v <= m).
    { destruct I3 as [-> | (ik & Hin & Hle)]; [exact Hlo | congruence | ].
      apply (lmax_ge _ _ _ _ _ _ Hm). right. exists (snd ik). split; [now apply Hik | exact Hle]. }
    lia.
  - destruct I7 as [-> | ([i k] & Hin & Hri & Hv)]; [lia | congruence | ].
    exists i, k. cbn [fst snd] in *. split; [exact Hri | ]. split.
    + apply In_index. apply (Permutation_in _ (Permutation_sym HP) Hin).
    + now rewrite root_score_sc.
Qed.

(** *** C06: the root value does not depend on the sound switches (nor on move ordering),
    with or without quiescence nodes in the tree *)
Theorem switches_irrelevant : forall c1 c2 chk kids v1 i1 v2 i2,
  bounded (Node chk None kids) -> kids <> [] ->
  root_rel c1 (Node chk None kids) v1 i1 ->
  root_rel c2 (Node chk None kids) v2 i2 ->
  v1 = v2.
Proof.
  intros c1 c2 chk kids v1 i1 v2 i2 Hb Hne H1 H2.
  destruct (root_exact _ _ _ _ _ Hb Hne H1) as [-> _].
  now destruct (root_exact _ _ _ _ _ Hb Hne H2) as [-> _].
Qed.

(** the executable root search computes minimax *)
Corollary root_fn_exact : forall c chk kids,
  bounded (Node chk None kids) -> kids <> [] ->
  fst (root_fn c (Node chk None kids)) = minimax 0 (Node chk None kids).
Proof.
  intros c chk kids Hb Hne.
  now destruct (root_exact c chk kids _ _ Hb Hne (root_fn_rel c chk None kids)) as [-> _].
Qed.

(** ** A concrete tree: the hypotheses are satisfiable and the model computes

    Root (ply 0) with four moves:
      0. a quiet line ending in quiescence nodes with stand-pat values, a leaf and a draw;
      1. a move into a repetition (Draw, scored 0 by the root);
      2. a check with a single evasion after which we mate (opponent mated at ply 3:
         root value MATE-3 = 9997);
      3. a move that allows stalemate or a bad leaf. *)
Definition ex_tree : tree :=
  Node false None
    [ Node false None
        [ Node false (Some 30) [Leaf (-50); Node false (Some 10) []];
          Leaf 20;
          Draw ];
      Draw;
      Node true None
        [ Node false None [ Leaf 5; Node true None [] ] ];
      Node false None [ Node false None []; Leaf (-100) ] ].

(** the same tree without the mating move, reordered: the stalemate/blunder move (-100),
    the quiet line (0), the draw (0): the first move reaching 0 stays the best move *)
Definition ex_tree2 : tree :=
  match ex_tree with
  | Node chk st (k0 :: k1 :: _ :: k3 :: nil) => Node chk st [k3; k0; k1]
  | t => t
  end.

Definition all_cfgs : list cfg :=
  flat_map (fun p => flat_map (fun m => map (fun s =>
     {| use_pvs := p; use_mdp := m; use_standpat := s |}) [false; true]) [false; true]) [false; true].

Example ex_bounded : bounded ex_tree /\ bounded ex_tree2.
Proof. split; vm_compute; reflexivity. Qed.

Example ex_minimax : minimax 0 ex_tree = 9997 /\ minimax 0 ex_tree2 = 0.
Proof. split; vm_compute; reflexivity. Qed.

Example ex_root_fn :
  forallb (fun c => match root_fn c ex_tree with
                    | (v, Some i) => (v =? 9997) && Nat.eqb i 2
                    | _ => false end) all_cfgs = true
  /\ forallb (fun c => match root_fn c ex_tree2 with
                    | (v, Some i) => (v =? 0) && Nat.eqb i 1
                    | _ => false end) all_cfgs = true.
Proof. split; vm_compute; reflexivity. Qed.

(** the theorems apply to it *)
Example ex_root_exact : forall c v oi,
  root_rel c ex_tree v oi -> v = 9997 /\ oi = Some 2%nat.
Proof.
  intros c v oi H.
  destruct (root_exact c false _ v oi (proj1 ex_bounded) ltac:(discriminate) H)
    as [Hv (i & k & -> & Hnth & Hk)].
  split; [exact Hv | ].
  rewrite Hv in Hk. f_equal.
  destruct i as [ | [ | [ | [ | i]]]]; cbn [nth_error] in Hnth;
    try reflexivity;
    try (injection Hnth as Hkk; rewrite <- Hkk in Hk; vm_compute in Hk; discriminate Hk).
  destruct i; discriminate Hnth.
Qed.

(** the narrow-window contract on the example: every window inside the root window,
    all switch combinations (exhaustive check of [search_fn] on a grid of windows) *)
Example ex_windows :
  forallb (fun c =>
    forallb (fun a =>
      forallb (fun w =>
        let b := a + w in
        let m := minimax 0 ex_tree2 in
        let r := search_fn c ex_tree2 0 a b in
        (negb (r <=? a) || (m <=? r)) && (negb ((a <? r) && (r <? b)) || (r =? m))
        && (negb (b <=? r) || (r <=? m)))
      [1; 2; 7; 60; 300])
    [-10000; -9999; -9998; -150; -101; -100; -99; -31; -30; -21; -20; -11; -10; -1; 0; 1; 5; 19; 20; 30; 50; 9000])
  all_cfgs = true.
Proof. vm_compute. reflexivity. Qed.

Print Assumptions search_contract.
Print Assumptions root_exact.
Print Assumptions switches_irrelevant.
Print Assumptions search_fn_rel.
Print Assumptions minimax_perm.
