(** Constants that the hand-written models copy from the Go source, compared with the values the
    running engine reports (gen/Tables_gen.v, written by `verifh dump-tables` on every run).
    A change of one of these constants in /repo breaks the lemma of every model that copied it. *)
From Coq Require Import ZArith NArith List Bool.
From FG.gen Require Import Tables_gen.
From FG Require GameTree Terminal PosImpl PvBuffers TTImpl TimeCtl UciModel.

(* NA: initial best value of every node (AlphaBeta.v); (-MATE, MATE): the root window of AlphaBeta.root_rel /
   root_fn = `alpha := ValueMin; beta := ValueMax` (site root_window_is_full); the draw / stalemate score of the
   game-tree model is the literal 0 *)
Lemma gametree_constants_dumped :
  GameTree.MATE = c_value_checkmate /\ GameTree.MAXPLY = c_max_depth /\
  GameTree.NA = c_value_na /\ (- GameTree.MATE)%Z = c_value_min /\ GameTree.MATE = c_value_max /\
  c_value_draw = 0%Z.
Proof. repeat split; reflexivity. Qed.

Lemma terminal_constants_dumped :
  Terminal.MATE = c_value_checkmate /\ Terminal.DRAW = c_value_draw.
Proof. split; reflexivity. Qed.

Lemma posimpl_constants_dumped :
  PosImpl.GamePhaseMax = c_game_phase_max /\ Z.of_nat PosImpl.MaxHistory = c_max_moves.
Proof. split; reflexivity. Qed.

Lemma pvbuffers_constants_dumped : Z.of_nat PvBuffers.max_depth = c_max_depth.
Proof. reflexivity. Qed.

(* PvProofs.first_cmp: rootSearch starts with bestNodeValue = ValueNA; the value of a root move is ValueDraw or
   -search(...), and search returns ValueNA itself (stopped) or something within [-ValueInf, ValueInf]:
   each of them compares greater than ValueNA *)
Lemma value_na_below_every_value :
  (c_value_na < - c_value_inf)%Z /\ (c_value_na < c_value_draw)%Z /\ (- c_value_na > c_value_na)%Z.
Proof. repeat split; reflexivity. Qed.

Lemma ttimpl_constants_dumped :
  TTImpl.ValueInf = c_value_inf /\ TTImpl.ValueMax = c_value_max /\
  TTImpl.ValueCheckMate = c_value_checkmate /\ TTImpl.MaxDepth = c_max_depth /\
  TTImpl.ValueCheckMateThreshold = c_value_checkmate_threshold /\
  TTImpl.valueShift = c_value_shift /\
  Z.of_N TTImpl.TtEntrySize = c_tt_entry_size /\ TTImpl.MaxSizeInMB = c_tt_max_size_mb /\
  TTImpl.ValueNA = c_value_na /\ TTImpl.ValueMin = c_value_min /\
  TTImpl.moveMask = c_move_mask /\ TTImpl.valueMask = c_value_mask /\ Z.of_N TTImpl.MB = c_mb.
Proof. repeat split; reflexivity. Qed.

(* GamePhaseMax: divisor of GamePhaseFactor in moves_left_float / moves_left_int; move_of: MoveOf() strips the
   sort value with the engine's MoveMask *)
Lemma timectl_constants_dumped :
  Z.of_nat TimeCtl.MaxDepth = c_max_depth /\ TimeCtl.GamePhaseMax = c_game_phase_max /\
  (forall m : N, TimeCtl.move_of m = N.land m c_move_mask).
Proof. split; [reflexivity | split; [reflexivity | intro m; reflexivity]]. Qed.

Lemma ucimodel_constants_dumped :
  Z.of_nat UciModel.MaxMoves = c_max_moves /\
  Z.of_nat UciModel.RebaseAt = (c_max_moves - c_max_depth - 2)%Z.
Proof. split; reflexivity. Qed.
