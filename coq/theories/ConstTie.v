(** Constants that the hand-written models copy from the Go source, compared with the values the
    running engine reports (gen/Tables_gen.v, written by `verifh dump-tables` on every run).
    A change of one of these constants in /repo breaks the lemma of every model that copied it. *)
From Coq Require Import ZArith NArith List Bool.
From FG.gen Require Import Tables_gen.
From FG Require GameTree Terminal PosImpl PvBuffers TTImpl TimeCtl UciModel.

Lemma gametree_constants_dumped :
  GameTree.MATE = c_value_checkmate /\ GameTree.MAXPLY = c_max_depth.
Proof. split; reflexivity. Qed.

Lemma terminal_constants_dumped :
  Terminal.MATE = c_value_checkmate /\ Terminal.DRAW = c_value_draw.
Proof. split; reflexivity. Qed.

Lemma posimpl_constants_dumped :
  PosImpl.GamePhaseMax = c_game_phase_max /\ Z.of_nat PosImpl.MaxHistory = c_max_moves.
Proof. split; reflexivity. Qed.

Lemma pvbuffers_constants_dumped : Z.of_nat PvBuffers.max_depth = c_max_depth.
Proof. reflexivity. Qed.

Lemma ttimpl_constants_dumped :
  TTImpl.ValueInf = c_value_inf /\ TTImpl.ValueMax = c_value_max /\
  TTImpl.ValueCheckMate = c_value_checkmate /\ TTImpl.MaxDepth = c_max_depth /\
  TTImpl.ValueCheckMateThreshold = c_value_checkmate_threshold /\
  TTImpl.valueShift = c_value_shift /\
  Z.of_N TTImpl.TtEntrySize = c_tt_entry_size /\ TTImpl.MaxSizeInMB = c_tt_max_size_mb.
Proof. repeat split; reflexivity. Qed.

Lemma timectl_constants_dumped : Z.of_nat TimeCtl.MaxDepth = c_max_depth.
Proof. reflexivity. Qed.

Lemma ucimodel_constants_dumped :
  Z.of_nat UciModel.MaxMoves = c_max_moves /\
  Z.of_nat UciModel.RebaseAt = (c_max_moves - c_max_depth - 2)%Z.
Proof. split; reflexivity. Qed.
