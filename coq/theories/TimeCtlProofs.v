(* ====================================================================== *)
(* TimeCtlProofs.v -- theorems for property C13 about the model TimeCtl.v  *)
(*                                                                        *)
(* Part 1  float facts (Flocq bridge): int64(0.8*float64 x), int64(0.9*..) *)
(*         and int64(1.0*..) for 0 <= x < 2^53, PROVED for all x (no grid,  *)
(*         no hypotheses), plus the distance (<= 1 ns) to the exact         *)
(*         rational model (x*8)/10, (x*9)/10.                               *)
(* Part 2  clock time control: budget_le_clock, budget_fits_moves,          *)
(*         moves_left_ge_15, movetime_budget.                               *)
(* Part 3  extra time after a book move (repaired: extra_time_le_clock;     *)
(*         the former finding is kept as a comment), timer polling.         *)
(* Part 4  depth loop, searchmoves filter.                                  *)
(* Part 5  node limit overshoot of the abstract recursion model.            *)
(* ====================================================================== *)
From Coq Require Import ZArith NArith List Bool Reals Floats Uint63 Lia Lra.
From Flocq Require Import Core.Core IEEE754.BinarySingleNaN.
From Flocq Require IEEE754.PrimFloat.
From FG Require Import TimeCtl.
Import ListNotations.
Module FP := Flocq.IEEE754.PrimFloat.
Local Open Scope Z_scope.

(* ---------------------------------------------------------------------- *)
(** * Part 1: floating point facts                                         *)
(* ---------------------------------------------------------------------- *)

Notation bfloat := (binary_float FloatOps.prec FloatOps.emax).
Notation fexp64 := (SpecFloat.fexp FloatOps.prec FloatOps.emax).
Notation rnd64 := (round radix2 fexp64 ZnearestE).

Lemma Hvexp : Valid_exp fexp64.
Proof. exact (fexp_correct FloatOps.prec FloatOps.emax FP.Hprec). Qed.

Lemma bpow_pos_IZR p : bpow radix2 (Zpos p) = IZR (2 ^ Zpos p).
Proof. rewrite <- IZR_Zpower by lia. reflexivity. Qed.

Lemma sf_trunc_B2SF (f : bfloat) :
  is_finite f = true -> sf_trunc (B2SF f) = Some (Ztrunc (B2R f)).
Proof.
  destruct f as [s|s| |s m e He]; cbn [is_finite B2SF sf_trunc B2R]; intros Hf; try discriminate.
  - now rewrite Ztrunc_IZR.
  - f_equal.
    assert (Hpos : forall (m : positive) e,
      Ztrunc (F2R (Float radix2 (Zpos m) e)) =
      match e with Z0 => Zpos m | Zpos p => Zpos m * 2 ^ Zpos p | Zneg p => Zpos m / 2 ^ Zpos p end).
    { intros m0 e0. unfold F2R. cbn [Fnum Fexp]. destruct e0 as [|p|p].
      - cbn [bpow]. rewrite Rmult_1_r. apply Ztrunc_IZR.
      - rewrite bpow_pos_IZR, <- mult_IZR. apply Ztrunc_IZR.
      - rewrite Ztrunc_floor.
        2:{ apply Rmult_le_pos. apply IZR_le; lia. apply bpow_ge_0. }
        change (Zneg p) with (- Zpos p). rewrite bpow_opp, bpow_pos_IZR.
        apply Zfloor_div. pose proof (Z.pow_pos_nonneg 2 (Zpos p)); lia. }
    destruct s; cbn [cond_Zopp].
    + change (Zneg m) with (- Zpos m). rewrite F2R_Zopp, Ztrunc_opp, Hpos. reflexivity.
    + change (Z.pos m) with (Zpos m). rewrite Hpos. reflexivity.
Qed.

Lemma generic_IZR_small x : Z.abs x < 2 ^ 53 -> generic_format radix2 fexp64 (IZR x).
Proof.
  intros Hx. apply (generic_format_FLT radix2 (3 - FloatOps.emax - FloatOps.prec) FloatOps.prec).
  apply (FLT_spec _ _ _ _ (Float radix2 x 0)).
  - unfold F2R. cbn. lra.
  - cbn [Fnum]. exact Hx.
  - cbn. lia.
Qed.

Lemma IZR_lt_bpow_emax x : Z.abs x < 2 ^ 53 -> (Rabs (IZR x) < bpow radix2 FloatOps.emax)%R.
Proof.
  intros Hx. rewrite <- abs_IZR.
  apply Rlt_le_trans with (IZR (2 ^ 53)). now apply IZR_lt.
  change (2 ^ 53) with (2 ^ Zpos 53). rewrite <- bpow_pos_IZR. apply bpow_le. vm_compute. discriminate.
Qed.

Lemma f64_of_nonneg_exact x :
  0 <= x < 2 ^ 53 ->
  B2R (FP.Prim2B (f64_of_nonneg x)) = IZR x /\ is_finite (FP.Prim2B (f64_of_nonneg x)) = true.
Proof.
  intros Hx. unfold f64_of_nonneg. rewrite FP.of_int63_equiv.
  rewrite Uint63.of_Z_spec. rewrite Z.mod_small.
  2:{ change wB with (2 ^ 63). lia. }
  pose proof (binary_normalize_correct FloatOps.prec FloatOps.emax FP.Hprec FP.Hmax mode_NE x 0 false) as H.
  cbv zeta in H.
  assert (HF : F2R (Float radix2 x 0) = IZR x) by (unfold F2R; cbn; lra).
  rewrite HF in H. cbn [round_mode] in H.
  rewrite round_generic in H; [| apply valid_rnd_N | apply generic_IZR_small; lia].
  rewrite Rlt_bool_true in H by (apply IZR_lt_bpow_emax; lia).
  destruct H as (H1 & H2 & _). split; assumption.
Qed.

Lemma trunc_mul_spec c x :
  is_finite (FP.Prim2B c) = true ->
  (0 <= B2R (FP.Prim2B c) <= 1)%R ->
  0 <= x < 2 ^ 53 ->
  trunc_mul c x = Some (Ztrunc (rnd64 (B2R (FP.Prim2B c) * IZR x))) /\
  (0 <= rnd64 (B2R (FP.Prim2B c) * IZR x) <= IZR x)%R.
Proof.
  intros Hfc Hc Hx.
  destruct (f64_of_nonneg_exact x Hx) as (Hex & Hfx).
  set (r := B2R (FP.Prim2B c)) in *.
  assert (Hx0 : (0 <= IZR x)%R) by (apply IZR_le; lia).
  assert (Hr : (0 <= rnd64 (r * IZR x) <= IZR x)%R).
  { split.
    - rewrite <- (round_0 radix2 fexp64 ZnearestE (valid_rnd:=valid_rnd_N _)).
      apply round_le; [exact Hvexp | apply valid_rnd_N |].
      apply Rmult_le_pos; lra.
    - rewrite <- (round_generic radix2 fexp64 ZnearestE (IZR x)) at 2;
        [| apply generic_IZR_small; lia].
      apply round_le; [exact Hvexp | apply valid_rnd_N |].
      rewrite <- (Rmult_1_l (IZR x)) at 2. apply Rmult_le_compat_r; lra. }
  split; [| exact Hr].
  unfold trunc_mul. rewrite Z.abs_eq by lia.
  replace (x <? 2 ^ 63) with true by (symmetry; apply Z.ltb_lt; lia).
  replace (x <? 0) with false by (symmetry; apply Z.ltb_ge; lia).
  rewrite <- FP.B2SF_Prim2B, FP.mul_equiv.
  pose proof (Bmult_correct FloatOps.prec FloatOps.emax FP.Hprec FP.Hmax mode_NE
                (FP.Prim2B c) (FP.Prim2B (f64_of_nonneg x))) as H.
  rewrite Hex in H. fold r in H. cbn [round_mode] in H.
  rewrite Rlt_bool_true in H.
  2:{ apply Rle_lt_trans with (Rabs (IZR x)).
      - rewrite !Rabs_pos_eq by lra. apply Hr.
      - apply IZR_lt_bpow_emax. lia. }
  destruct H as (H1 & H2 & _). rewrite Hfc, Hfx in H2. cbn in H2.
  rewrite sf_trunc_B2SF by exact H2. rewrite H1. reflexivity.
Qed.

Lemma const_val c (m : positive) (p : positive) :
  Prim2SF c = S754_finite false m (Zneg p) ->
  is_finite (FP.Prim2B c) = true /\ B2R (FP.Prim2B c) = (IZR (Zpos m) / IZR (2 ^ Zpos p))%R.
Proof.
  intros H. unfold FP.Prim2B. split.
  - rewrite is_finite_SF2B. rewrite H. reflexivity.
  - rewrite B2R_SF2B, H. cbn [SF2R cond_Zopp]. unfold F2R. cbn [Fnum Fexp].
    change (Zneg p) with (- Zpos p). rewrite bpow_opp, bpow_pos_IZR. reflexivity.
Qed.

Lemma const_le1 c (m p : positive) :
  Prim2SF c = S754_finite false m (Zneg p) -> Zpos m <= 2 ^ Zpos p ->
  is_finite (FP.Prim2B c) = true /\ (0 <= B2R (FP.Prim2B c) <= 1)%R.
Proof.
  intros H Hle. destruct (const_val c m p H) as (Hf & Hv). split; [exact Hf|]. rewrite Hv.
  assert (Hp : (0 < IZR (2 ^ Zpos p))%R) by (apply IZR_lt; apply Z.pow_pos_nonneg; lia).
  split.
  - apply Rmult_le_pos. apply IZR_le; lia. left. now apply Rinv_0_lt_compat.
  - apply Rmult_le_reg_r with (IZR (2 ^ Zpos p)); [exact Hp|].
    unfold Rdiv. rewrite Rmult_assoc, Rinv_l, Rmult_1_r, Rmult_1_l by lra. now apply IZR_le.
Qed.

Lemma c08_ok : is_finite (FP.Prim2B c08) = true /\ (0 <= B2R (FP.Prim2B c08) <= 1)%R.
Proof. apply (const_le1 c08 7205759403792794 53). vm_compute. reflexivity. vm_compute. discriminate. Qed.
Lemma c09_ok : is_finite (FP.Prim2B c09) = true /\ (0 <= B2R (FP.Prim2B c09) <= 1)%R.
Proof. apply (const_le1 c09 8106479329266893 53). vm_compute. reflexivity. vm_compute. discriminate. Qed.

Lemma trunc_mul_le c x :
  is_finite (FP.Prim2B c) = true /\ (0 <= B2R (FP.Prim2B c) <= 1)%R ->
  0 <= x < 2 ^ 53 -> exists a, trunc_mul c x = Some a /\ 0 <= a <= x.
Proof.
  intros (Hf & Hc) Hx. destruct (trunc_mul_spec c x Hf Hc Hx) as (H1 & H2).
  eexists. split; [exact H1|]. split.
  - rewrite <- (Ztrunc_IZR 0). apply Ztrunc_le. apply H2.
  - rewrite <- (Ztrunc_IZR x) at 2. apply Ztrunc_le. apply H2.
Qed.

Theorem float_trunc_08_holds x : 0 <= x < 2 ^ 53 -> exists a, trunc_mul c08 x = Some a /\ 0 <= a <= x.
Proof. intros Hx. apply trunc_mul_le; [exact c08_ok | exact Hx]. Qed.
Theorem float_trunc_09_holds x : 0 <= x < 2 ^ 53 -> exists a, trunc_mul c09 x = Some a /\ 0 <= a <= x.
Proof. intros Hx. apply trunc_mul_le; [exact c09_ok | exact Hx]. Qed.

Lemma c10_val : is_finite (FP.Prim2B c10) = true /\ B2R (FP.Prim2B c10) = 1%R.
Proof.
  assert (H : Prim2SF c10 = S754_finite false 4503599627370496 (-52)) by (vm_compute; reflexivity).
  destruct (const_val c10 _ _ H) as (Hf & Hv). split; [exact Hf|]. rewrite Hv.
  change (2 ^ Zpos 52) with 4503599627370496. field.
Qed.

Theorem float_trunc_10_holds x : 0 <= x < 2 ^ 53 -> trunc_mul c10 x = Some x.
Proof.
  intros Hx. destruct c10_val as (Hf & Hv).
  destruct (trunc_mul_spec c10 x Hf) as (H1 & _); [rewrite Hv; lra | exact Hx |].
  rewrite H1, Hv, Rmult_1_l. rewrite round_generic; [| apply valid_rnd_N | apply generic_IZR_small; lia].
  now rewrite Ztrunc_IZR.
Qed.

Lemma round_err_half y : (0 < y < IZR (2 ^ 53))%R -> (Rabs (rnd64 y - y) <= / 2)%R.
Proof.
  intros Hy.
  pose proof (@error_le_half_ulp radix2 fexp64 Hvexp (fun x => negb (Z.even x)) y) as H.
  eapply Rle_trans; [exact H|].
  rewrite <- (Rmult_1_r (/ 2)) at 2.
  apply Rmult_le_compat_l; [lra|].
  rewrite ulp_neq_0 by lra.
  change 1%R with (bpow radix2 0). apply bpow_le.
  unfold cexp, SpecFloat.fexp.
  assert (Hm : (mag radix2 y <= 53)%Z).
  { apply mag_le_bpow; [lra|]. rewrite Rabs_pos_eq by lra.
    change 53 with (Zpos 53). rewrite bpow_pos_IZR. apply Hy. }
  unfold SpecFloat.emin, FloatOps.prec, FloatOps.emax. lia.
Qed.

Lemma trunc_mul_near c (M : positive) k x :
  Prim2SF c = S754_finite false M (-53) ->
  Zpos M <= 2 ^ 53 -> 0 <= k -> 0 <= 10 * Zpos M - k * 2 ^ 53 <= 4 ->
  0 <= x < 2 ^ 53 ->
  exists a, trunc_mul c x = Some a /\ (k * x) / 10 - 1 <= a <= (k * x) / 10 + 1.
Proof.
  intros HSF HM Hk Hd Hx.
  destruct (const_val c M 53 HSF) as (Hf & Hv).
  destruct (const_le1 c M 53 HSF HM) as (_ & Hc01).
  destruct (trunc_mul_spec c x Hf Hc01 Hx) as (H1 & H2).
  eexists. split; [exact H1|].
  set (cR := B2R (FP.Prim2B c)) in *. set (X := IZR x) in *.
  set (r := rnd64 (cR * X)) in *.
  set (q := (k * x) / 10).
  assert (HX : (0 <= X < IZR (2 ^ 53))%R) by (unfold X; split; [apply IZR_le | apply IZR_lt]; lia).
  assert (Hq : (IZR q * 10 <= IZR k * X < IZR q * 10 + 10)%R).
  { unfold X. rewrite <- !mult_IZR, <- (plus_IZR _ 10).
    pose proof (Z.div_mod (k * x) 10 ltac:(lia)). pose proof (Z.mod_pos_bound (k * x) 10 ltac:(lia)).
    fold q in H. split; [apply IZR_le | apply IZR_lt]; lia. }
  (* c*X is within [k/10 X, k/10 X + 2/5) *)
  set (P := IZR (2 ^ 53)) in *.
  assert (HP : (0 < P)%R) by (unfold P; apply IZR_lt; reflexivity).
  set (e := IZR (10 * Zpos M - k * 2 ^ 53)).
  assert (He : (0 <= e <= 4)%R) by (unfold e; split; apply IZR_le; lia).
  assert (HcR : (cR * X * 10 = IZR k * X + e * (X / P))%R).
  { rewrite Hv. fold P. unfold e. rewrite minus_IZR, !mult_IZR. fold P. field. lra. }
  assert (HXP : (0 <= X / P < 1)%R).
  { split. apply Rmult_le_pos; [lra | left; now apply Rinv_0_lt_compat].
    apply Rmult_lt_reg_r with P; [exact HP|]. unfold Rdiv. rewrite Rmult_assoc, Rinv_l by lra. lra. }
  assert (HeX : (0 <= e * (X / P) <= 4)%R).
  { split. apply Rmult_le_pos; lra.
    apply Rle_trans with (e * 1)%R; [apply Rmult_le_compat_l; lra | lra]. }
  assert (Herr : (Rabs (r - cR * X) <= / 2)%R).
  { destruct (Req_dec (cR * X) 0) as [Hz|Hnz].
    - unfold r. rewrite Hz, round_0 by apply valid_rnd_N. rewrite Rminus_0_r, Rabs_R0. lra.
    - apply round_err_half. fold P. split.
      + assert (0 <= cR * X)%R by (apply Rmult_le_pos; lra). lra.
      + apply Rle_lt_trans with (1 * X)%R; [apply Rmult_le_compat_r; lra | lra]. }
  apply Rabs_le_inv in Herr.
  assert (Hr0 : (0 <= r)%R) by apply H2.
  rewrite Ztrunc_floor by exact Hr0.
  split.
  - apply Zfloor_lub. rewrite minus_IZR. lra.
  - assert (Hlt : (Zfloor r < q + 2)%Z).
    { apply lt_IZR. apply Rle_lt_trans with r; [apply Zfloor_lb|]. rewrite plus_IZR. lra. }
    lia.
Qed.

Theorem float_trunc_08_near x : 0 <= x < 2 ^ 53 ->
  exists a, trunc_mul c08 x = Some a /\ (8 * x) / 10 - 1 <= a <= (8 * x) / 10 + 1.
Proof. apply (trunc_mul_near c08 7205759403792794 8); [vm_compute; reflexivity | vm_compute; discriminate | lia | vm_compute; split; discriminate]. Qed.
Theorem float_trunc_09_near x : 0 <= x < 2 ^ 53 ->
  exists a, trunc_mul c09 x = Some a /\ (9 * x) / 10 - 1 <= a <= (9 * x) / 10 + 1.
Proof. apply (trunc_mul_near c09 8106479329266893 9); [vm_compute; reflexivity | vm_compute; discriminate | lia | vm_compute; split; discriminate]. Qed.

(* ================= movesLeft ================= *)
Definition phases : list Z := map Z.of_nat (seq 0 25).

Lemma phases_complete ph : 0 <= ph <= 24 -> In ph phases.
Proof.
  intros H. unfold phases. rewrite <- (Z2Nat.id ph) by lia. apply in_map. apply in_seq. lia.
Qed.

Lemma moves_left_check :
  forallb (fun p => match moves_left_float p with
                    | Some n => (n =? moves_left_int p) && (15 <=? n) && (n <=? 40)
                    | None => false end) phases = true.
Proof. vm_cast_no_check (eq_refl true). Qed.

Theorem moves_left_float_int ph :
  0 <= ph <= 24 -> moves_left_float ph = Some (moves_left_int ph) /\ 15 <= moves_left_int ph <= 40.
Proof.
  intros H. pose proof moves_left_check as C. rewrite forallb_forall in C.
  specialize (C ph (phases_complete ph H)). destruct (moves_left_float ph) as [n|]; [|discriminate].
  apply andb_prop in C. destruct C as (C & C3). apply andb_prop in C. destruct C as (C1 & C2).
  apply Z.eqb_eq in C1. subst n. split; [reflexivity | lia].
Qed.

Theorem moves_left_ge_15 ph :
  0 <= ph <= 24 -> exists n, moves_left 0 ph = Some n /\ n = 15 + (25 * ph) / 24 /\ 15 <= n <= 40.
Proof.
  intros H. destruct (moves_left_float_int ph H) as (E & B).
  exists (moves_left_int ph). unfold moves_left. cbn [Z.eqb]. rewrite E. repeat split; try lia; reflexivity.
Qed.

Example moves_left_ge_15_nonvacuous :
  moves_left 0 0 = Some 15 /\ moves_left 0 13 = Some 28 /\ moves_left 0 24 = Some 40.
Proof. vm_compute. repeat split. Qed.

(* ================= clock time control ================= *)
Definition clock_of (wt bt wi bi : Z) (stm : N) : Z := fst (clock_inc wt bt wi bi stm).
Definition inc_of (wt bt wi bi : Z) (stm : N) : Z := snd (clock_inc wt bt wi bi stm).
(** the number of moves the budget must last for *)
Definition n_moves (movestogo phase : Z) : Z :=
  if movestogo =? 0 then moves_left_int phase else movestogo.

Record clock_domain (wt bt wi bi mtg ph : Z) (stm : N) : Prop := {
  dom_stm   : (stm < 2)%N;
  dom_clock : 0 < clock_of wt bt wi bi stm < 2 ^ 53;
  dom_inc   : 0 <= inc_of wt bt wi bi stm < 2 ^ 53;
  dom_mtg   : 0 <= mtg < 2 ^ 53;
  dom_phase : 0 <= ph <= 24;
  (* no int64 overflow in movesLeft*inc (search.go:671/674): needs
     movestogo*inc >= 2^62 ns = 146 years to fail *)
  dom_noovf : mtg * inc_of wt bt wi bi stm < 2 ^ 62
}.

(** the overflow guard is implied by any realistic moves-to-go *)
Lemma noovf_small_mtg mtg inc : 0 <= mtg <= 512 -> 0 <= inc < 2 ^ 53 -> mtg * inc < 2 ^ 62.
Proof.
  intros Hm Hi. change (2 ^ 53) with 9007199254740992 in Hi. change (2 ^ 62) with 4611686018427387904.
  assert (mtg * inc <= 512 * inc) by (apply Z.mul_le_mono_nonneg_r; lia). lia.
Qed.

(** readSearchLimits (uci.go:592-604): an accepted clock-time "go" with
    non-negative times has a positive clock for the mover, i.e. the UCI layer
    establishes [0 < clock] of the domain (negative times are NOT rejected by
    the parser; they are outside the domain) *)
Theorem uci_accepted_clock_positive wt bt wi bi stm :
  (stm < 2)%N -> 0 <= wt -> 0 <= bt ->
  uci_rejects true 0 wt bt stm = false -> 0 < clock_of wt bt wi bi stm.
Proof.
  intros Hs Hw Hb H. unfold uci_rejects in H. cbn [andb Z.eqb] in H. unfold clock_of, clock_inc.
  destruct stm as [|[p|p|]]; cbn [fst]; try (exfalso; lia); apply Z.eqb_neq in H; lia.
Qed.

Lemma ms_to_ns_exact v : 0 <= v < 2 ^ 43 -> ms_to_ns v = v * 1000000 /\ 0 <= ms_to_ns v < 2 ^ 63.
Proof.
  intros H. unfold ms_to_ns. change (2 ^ 43) with 8796093022208 in H.
  assert (B : - 2 ^ 63 <= v * 1000000 < 2 ^ 63) by (change (2 ^ 63) with 9223372036854775808; lia).
  unfold wrap64. change (2 ^ 63) with 9223372036854775808 in *. change (2 ^ 64) with 18446744073709551616.
  rewrite Z.mod_small by lia. lia.
Qed.

Lemma wrap64_id z : - 2 ^ 63 <= z < 2 ^ 63 -> wrap64 z = z.
Proof.
  intros H. unfold wrap64.
  change (2 ^ 63) with 9223372036854775808 in *. change (2 ^ 64) with 18446744073709551616.
  rewrite Z.mod_small; lia.
Qed.

(* ---------------------------------------------------------------------- *)
(** * Parts 2 and 3 are proved inside a Section from the three float facts
      as NAMED HYPOTHESES (so that the [_partial] theorems do not depend on
      the axioms of the real numbers that Flocq needs); the hypotheses are
      discharged after the Section by [float_trunc_08_holds],
      [float_trunc_09_holds], [float_trunc_10_holds] of Part 1.             *)
(* ---------------------------------------------------------------------- *)
Section FloatFacts.
Hypothesis float_trunc_08 :
  forall x, 0 <= x < 2 ^ 53 -> exists a, trunc_mul c08 x = Some a /\ 0 <= a <= x.
Hypothesis float_trunc_09 :
  forall x, 0 <= x < 2 ^ 53 -> exists a, trunc_mul c09 x = Some a /\ 0 <= a <= x.
Hypothesis float_trunc_10 :
  forall x, 0 <= x < 2 ^ 53 -> trunc_mul c10 x = Some x.

Lemma margin_le L : 0 <= L < 2 ^ 53 -> exists a, margin L = Some a /\ 0 <= a <= L.
Proof.
  intros H. unfold margin. destruct (Z.quot L ms <? 100).
  - now apply float_trunc_08.
  - now apply float_trunc_09.
Qed.

Lemma raw_limit_spec clock inc n :
  0 < clock < 2 ^ 53 -> 0 <= inc -> 0 < n -> n * inc < 2 ^ 62 ->
  raw_limit clock inc n = Z.min clock ((clock + n * inc) / n).
Proof.
  intros Hc Hi Hn Ho. unfold raw_limit.
  assert (P53 : 2 ^ 53 = 9007199254740992) by reflexivity.
  assert (P62 : 2 ^ 62 = 4611686018427387904) by reflexivity.
  assert (P63 : 2 ^ 63 = 9223372036854775808) by reflexivity.
  assert (0 <= n * inc) by (apply Z.mul_nonneg_nonneg; lia).
  rewrite (wrap64_id (n * inc)) by lia.
  rewrite (wrap64_id (clock + n * inc)) by lia.
  rewrite Z.quot_div_nonneg by lia.
  assert (Hq : 0 <= (clock + n * inc) / n <= clock + n * inc).
  { split. apply Z.div_pos; lia. apply Z.div_le_upper_bound; [lia|].
    assert (1 * (clock + n * inc) <= n * (clock + n * inc)) by (apply Z.mul_le_mono_nonneg_r; lia). lia. }
  rewrite wrap64_id by lia.
  destruct (Z.gtb_spec ((clock + n * inc) / n) clock); lia.
Qed.

Lemma clock_limit_spec mt wt bt wi bi mtg ph stm :
  mt <= 0 -> clock_domain wt bt wi bi mtg ph stm ->
  let clock := clock_of wt bt wi bi stm in
  let inc := inc_of wt bt wi bi stm in
  let n := n_moves mtg ph in
  moves_left mtg ph = Some n /\ 1 <= n /\ (mtg = 0 -> 15 <= n <= 40) /\
  exists limit, setup_time_control_opt mt wt bt wi bi mtg ph stm = Some limit /\
                0 <= limit <= Z.min clock ((clock + n * inc) / n).
Proof.
  intros Hmt D clock inc n.
  destruct D as [Hs Hc Hi Hm Hp Ho]. fold clock in Hc. fold inc in Hi, Ho.
  assert (P53 : 2 ^ 53 = 9007199254740992) by reflexivity.
  assert (P62 : 2 ^ 62 = 4611686018427387904) by reflexivity.
  destruct (moves_left_float_int ph Hp) as (EF & BF).
  assert (Hml : moves_left mtg ph = Some n /\ 1 <= n /\ (mtg = 0 -> 15 <= n <= 40) /\ n * inc < 2 ^ 62).
  { unfold moves_left, n, n_moves. destruct (Z.eqb_spec mtg 0) as [E|E].
    - rewrite EF. repeat split; try lia.
      assert (moves_left_int ph * inc <= 40 * inc) by (apply Z.mul_le_mono_nonneg_r; lia). lia.
    - repeat split; lia. }
  destruct Hml as (Hml & Hn1 & Hn15 & Hov).
  repeat split; try assumption; try lia.
  unfold setup_time_control_opt.
  replace (0 <? mt) with false by (symmetry; apply Z.ltb_ge; lia).
  rewrite Hml.
  unfold clock, inc, clock_of, inc_of in *.
  destruct (clock_inc wt bt wi bi stm) as [ck ic]. cbn [fst snd] in *.
  rewrite raw_limit_spec by lia.
  set (L := Z.min ck ((ck + n * ic) / n)).
  assert (HL : 0 <= L < 2 ^ 53).
  { unfold L. assert (0 <= (ck + n * ic) / n).
    { apply Z.div_pos; [|lia]. assert (0 <= n * ic) by (apply Z.mul_nonneg_nonneg; lia). lia. }
    lia. }
  destruct (margin_le L HL) as (a & Ha & Hb). exists a. split; [exact Ha | lia].
Qed.

(** C13: the time allotted never exceeds the mover's remaining clock time *)
Theorem budget_le_clock_partial mt wt bt wi bi mtg ph stm :
  mt <= 0 -> clock_domain wt bt wi bi mtg ph stm ->
  exists limit, setup_time_control_opt mt wt bt wi bi mtg ph stm = Some limit /\
                setup_time_control mt wt bt wi bi mtg ph stm = limit /\
                0 <= limit <= clock_of wt bt wi bi stm.
Proof.
  intros Hmt D. destruct (clock_limit_spec mt wt bt wi bi mtg ph stm Hmt D) as (_ & _ & _ & limit & E & B).
  exists limit. unfold setup_time_control. rewrite E. repeat split; lia.
Qed.

(** C13: repeated for the announced moves-to-go (or movesLeft >= 15 moves)
    the budget fits into the remaining time plus the increments *)
Theorem budget_fits_moves_partial mt wt bt wi bi mtg ph stm :
  mt <= 0 -> clock_domain wt bt wi bi mtg ph stm ->
  let n := n_moves mtg ph in
  let limit := setup_time_control mt wt bt wi bi mtg ph stm in
  (0 < mtg -> n = mtg) /\ (mtg = 0 -> n = 15 + (25 * ph) / 24 /\ 15 <= n <= 40) /\
  n * limit <= clock_of wt bt wi bi stm + n * inc_of wt bt wi bi stm.
Proof.
  intros Hmt D n limit.
  destruct (clock_limit_spec mt wt bt wi bi mtg ph stm Hmt D) as (_ & Hn1 & Hn15 & l & E & B).
  fold n in Hn1, Hn15, B.
  assert (limit = l) by (unfold limit, setup_time_control; now rewrite E). subst l.
  split; [| split].
  - intros H. unfold n, n_moves. destruct (Z.eqb_spec mtg 0); lia.
  - intros H. split; [| now apply Hn15]. unfold n, n_moves. subst mtg. reflexivity.
  - set (T := clock_of wt bt wi bi stm + n * inc_of wt bt wi bi stm) in *.
    assert (n * limit <= n * (T / n)) by (apply Z.mul_le_mono_nonneg_l; lia).
    assert (0 <= T).
    { unfold T. destruct D as [_ Hc Hi _ _ _].
      assert (0 <= n * inc_of wt bt wi bi stm) by (apply Z.mul_nonneg_nonneg; lia). lia. }
    pose proof (Z.mul_div_le T n ltac:(lia)). lia.
Qed.

Example budget_nonvacuous :
  clock_domain 1000000000 5000000000 10000000000 0 0 24 0%N /\
  setup_time_control 0 1000000000 5000000000 10000000000 0 0 24 0%N = 900000000 /\
  clock_domain 60000000000 1000000 0 0 7 3 0%N /\
  setup_time_control 0 60000000000 1000000 0 0 7 3 0%N = 7714285713.
Proof. split; [constructor; vm_compute; try split; congruence | split; [vm_compute; reflexivity|split; [constructor; vm_compute; try split; congruence| vm_compute; reflexivity]]]. Qed.

(* ================= movetime ================= *)
Theorem movetime_budget mt wt bt wi bi mtg ph stm :
  0 < mt ->
  let limit := setup_time_control mt wt bt wi bi mtg ph stm in
  setup_time_control_opt mt wt bt wi bi mtg ph stm = Some limit /\
  0 <= limit <= mt /\
  (20 * ms <= mt -> limit = mt - 20 * ms) /\
  (mt < 20 * ms -> limit = mt).
Proof.
  intros H limit. unfold limit, setup_time_control, setup_time_control_opt, ms.
  replace (0 <? mt) with true by (symmetry; apply Z.ltb_lt; lia).
  destruct (Z.ltb_spec (mt - 20 * 1000000) 0); repeat split; try lia.
Qed.

Example movetime_nonvacuous :
  setup_time_control 1000000000 0 0 0 0 0 24 0%N = 980000000 /\
  setup_time_control 20000000 0 0 0 0 0 24 0%N = 0 /\
  setup_time_control 19000000 0 0 0 0 0 24 0%N = 19000000.
Proof. vm_compute. repeat split. Qed.


(* ================= extra time ================= *)
Lemma extra_clock_clock_of wt bt wi bi stm :
  (stm < 2)%N -> extra_clock wt bt stm = clock_of wt bt wi bi stm.
Proof. intros H. unfold extra_clock, clock_of, clock_inc. destruct stm as [|[p|p|]]; try reflexivity; lia. Qed.

(** repaired addExtraTime: the first searched move after a book move gets
    min(2*limit, clock) *)
Theorem extra_time_first_nonbook_partial limit clock :
  0 <= limit < 2 ^ 53 ->
  deadline true true 0 limit clock = Some (Z.min (2 * limit) clock) /\
  deadline false true 0 limit clock = Some limit /\
  (forall mt b, mt <> 0 -> deadline b true mt limit clock = Some limit).
Proof.
  intros H. unfold deadline, add_extra_time. cbn [andb Z.eqb].
  rewrite float_trunc_10 by exact H. repeat split.
  - f_equal. destruct (Z.gtb_spec (limit + 0 + limit) clock); lia.
  - intros mt b Hmt. replace (mt =? 0) with false by (symmetry; now apply Z.eqb_neq).
    now rewrite !andb_false_r.
Qed.

(** C13 (repaired code): also with the extra time of the first non-book move
    the deadline never exceeds the mover's remaining clock *)
Theorem extra_time_le_clock_partial mt wt bt wi bi mtg ph stm :
  mt <= 0 -> clock_domain wt bt wi bi mtg ph stm ->
  let clock := clock_of wt bt wi bi stm in
  let limit := setup_time_control mt wt bt wi bi mtg ph stm in
  forall b, exists d,
    deadline b true 0 limit (extra_clock wt bt stm) = Some d /\
    limit <= d <= clock /\
    (b = true -> d = Z.min (2 * limit) clock) /\
    (b = false -> d = limit).
Proof.
  intros Hmt D clock limit b.
  destruct (clock_limit_spec mt wt bt wi bi mtg ph stm Hmt D) as (_ & Hn1 & _ & l & E & B).
  assert (limit = l) by (unfold limit, setup_time_control; now rewrite E). subst l.
  fold clock in B. pose proof D as [Hs Hc _ _ _ _]. fold clock in Hc.
  rewrite (extra_clock_clock_of wt bt wi bi stm Hs). fold clock.
  assert (HL : 0 <= limit < 2 ^ 53) by lia.
  destruct (extra_time_first_nonbook_partial limit clock HL) as (E1 & E2 & _).
  destruct b.
  - exists (Z.min (2 * limit) clock). rewrite E1. repeat split; try lia; try discriminate.
  - exists limit. rewrite E2. repeat split; try lia; try discriminate.
Qed.

Theorem extra_time_bounded_partial mt wt bt wi bi mtg ph stm :
  mt <= 0 -> clock_domain wt bt wi bi mtg ph stm ->
  let clock := clock_of wt bt wi bi stm in
  let limit := setup_time_control mt wt bt wi bi mtg ph stm in
  forall b, exists d,
    deadline b true 0 limit (extra_clock wt bt stm) = Some d /\ 0 <= d <= clock /\
    (inc_of wt bt wi bi stm = 0 -> 2 <= n_moves mtg ph -> b = true -> d = 2 * limit).
Proof.
  intros Hmt D clock limit b.
  destruct (extra_time_le_clock_partial mt wt bt wi bi mtg ph stm Hmt D b) as (d & Ed & Bd & Bt & Bf).
  fold clock limit in Ed, Bd, Bt, Bf.
  destruct (clock_limit_spec mt wt bt wi bi mtg ph stm Hmt D) as (_ & Hn1 & _ & l & E & B).
  assert (limit = l) by (unfold limit, setup_time_control; now rewrite E). subst l.
  fold clock in B. destruct D as [_ Hc _ _ _ _]. fold clock in Hc.
  exists d. split; [exact Ed|]. split; [lia|].
  intros Hi Hn Hb. rewrite (Bt Hb). rewrite Hi, Z.mul_0_r, Z.add_0_r in B.
  set (n := n_moves mtg ph) in *.
  assert (n * (clock / n) <= clock) by (apply Z.mul_div_le; lia).
  assert (2 * (clock / n) <= n * (clock / n)) by (apply Z.mul_le_mono_nonneg_r; [apply Z.div_pos; lia | lia]).
  lia.
Qed.

(** Non-vacuity, and the witnesses of the former finding
    [extra_time_exceeds_clock_refuted] (before the repair the deadline was
    2*limit: (a) wtime 10 s, movestogo 1: budget 9 s, deadline 18 s > 10 s;
    (b) wtime 1 s, winc 10 s, no movestogo, phase 24: budget 0.9 s, deadline
    1.8 s > 1 s; confirmed on the engine then: 3.6 s search on a 2 s clock).
    With the repaired code both are capped at the clock; (c) an uncapped case. *)
Example extra_time_le_clock_nonvacuous :
  (clock_domain 10000000000 10000000000 0 0 1 24 0%N /\
   setup_time_control_opt 0 10000000000 10000000000 0 0 1 24 0%N = Some 9000000000 /\
   deadline true true 0 9000000000 (extra_clock 10000000000 10000000000 0%N) = Some 10000000000) /\
  (clock_domain 1000000000 1000000000 10000000000 0 0 24 0%N /\
   setup_time_control_opt 0 1000000000 1000000000 10000000000 0 0 24 0%N = Some 900000000 /\
   deadline true true 0 900000000 (extra_clock 1000000000 1000000000 0%N) = Some 1000000000) /\
  (setup_time_control_opt 0 5000000000 60000000000 0 0 0 24 1%N = Some 1350000000 /\
   deadline true true 0 1350000000 (extra_clock 5000000000 60000000000 1%N) = Some 2700000000).
Proof.
  split; [split; [constructor; vm_compute; try split; congruence | vm_compute; split; reflexivity]|].
  split; [split; [constructor; vm_compute; try split; congruence | vm_compute; split; reflexivity]|].
  vm_compute. split; reflexivity.
Qed.

(* ================= timer ================= *)
Theorem timer_fires_within dl period :
  0 < period -> dl <= timer_fire dl period /\ (0 < dl -> timer_fire dl period < dl + period)
                /\ (timer_fire dl period) mod period = 0.
Proof.
  intros Hp. unfold timer_fire. destruct (Z.leb_spec dl 0).
  - repeat split; try lia. all: try (now rewrite Z.mod_0_l by lia).
  - pose proof (Z.div_mod (dl + period - 1) period ltac:(lia)).
    pose proof (Z.mod_pos_bound (dl + period - 1) period Hp).
    repeat split; try lia. all: try (apply Z.mod_mul; lia).
Qed.

(** fixed move time: the stop flag is raised by the timer no later than the
    move time minus 15 ms when movetime >= 20 ms, and less than 5 ms after the
    move time for shorter move times (scheduler jitter outside the model). *)
Theorem movetime_stop_flag_partial mt wt bt wi bi mtg ph stm b clock :
  0 < mt < 2 ^ 53 ->
  let limit := setup_time_control mt wt bt wi bi mtg ph stm in
  exists d, deadline b true mt limit clock = Some d /\ d = limit /\
    (20 * ms <= mt -> timer_fire d poll_period < mt - 15 * ms) /\
    (mt < 20 * ms -> timer_fire d poll_period < mt + 5 * ms).
Proof.
  intros H limit.
  destruct (movetime_budget mt wt bt wi bi mtg ph stm ltac:(lia)) as (_ & B & B1 & B2). fold limit in B, B1, B2.
  assert (HL : 0 <= limit < 2 ^ 53) by lia.
  destruct (extra_time_first_nonbook_partial limit clock HL) as (_ & _ & E). exists limit.
  rewrite E by lia. repeat split.
  - intros H20. specialize (B1 H20).
    destruct (timer_fires_within limit poll_period ltac:(reflexivity)) as (T1 & T2 & _).
    unfold timer_fire in *. unfold poll_period, ms in *. destruct (Z.leb_spec limit 0); lia.
  - intros H20. specialize (B2 H20).
    destruct (timer_fires_within limit poll_period ltac:(reflexivity)) as (T1 & T2 & _).
    unfold poll_period, ms in *. lia.
Qed.

Example movetime_stop_flag_nonvacuous :
  timer_fire (setup_time_control 1000000000 0 0 0 0 0 24 0%N) poll_period = 980000000 /\
  timer_fire (setup_time_control 19000000 0 0 0 0 0 24 0%N) poll_period = 20000000 /\
  timer_fire (setup_time_control 1000000 0 0 0 0 0 24 0%N) poll_period = 5000000.
Proof. vm_compute. repeat split. Qed.

End FloatFacts.

(** ** The hypotheses discharged: the full theorems *)
Definition clock_limit_spec_full := clock_limit_spec float_trunc_08_holds float_trunc_09_holds.

(** C13: the time allotted never exceeds the mover's remaining clock time *)
Theorem budget_le_clock mt wt bt wi bi mtg ph stm :
  mt <= 0 -> clock_domain wt bt wi bi mtg ph stm ->
  exists limit, setup_time_control_opt mt wt bt wi bi mtg ph stm = Some limit /\
                setup_time_control mt wt bt wi bi mtg ph stm = limit /\
                0 <= limit <= clock_of wt bt wi bi stm.
Proof. exact (budget_le_clock_partial float_trunc_08_holds float_trunc_09_holds mt wt bt wi bi mtg ph stm). Qed.

(** C13: repeated for the announced moves-to-go (or movesLeft >= 15 moves)
    the budget fits into the remaining time plus the increments *)
Theorem budget_fits_moves mt wt bt wi bi mtg ph stm :
  mt <= 0 -> clock_domain wt bt wi bi mtg ph stm ->
  let n := n_moves mtg ph in
  let limit := setup_time_control mt wt bt wi bi mtg ph stm in
  (0 < mtg -> n = mtg) /\ (mtg = 0 -> n = 15 + (25 * ph) / 24 /\ 15 <= n <= 40) /\
  n * limit <= clock_of wt bt wi bi stm + n * inc_of wt bt wi bi stm.
Proof. exact (budget_fits_moves_partial float_trunc_08_holds float_trunc_09_holds mt wt bt wi bi mtg ph stm). Qed.

Theorem extra_time_first_nonbook limit clock :
  0 <= limit < 2 ^ 53 ->
  deadline true true 0 limit clock = Some (Z.min (2 * limit) clock) /\
  deadline false true 0 limit clock = Some limit /\
  (forall mt b, mt <> 0 -> deadline b true mt limit clock = Some limit).
Proof. exact (extra_time_first_nonbook_partial float_trunc_10_holds limit clock). Qed.

(** C13 (repaired code): also with the extra time of the first non-book move
    the deadline never exceeds the mover's remaining clock *)
Theorem extra_time_le_clock mt wt bt wi bi mtg ph stm :
  mt <= 0 -> clock_domain wt bt wi bi mtg ph stm ->
  let clock := clock_of wt bt wi bi stm in
  let limit := setup_time_control mt wt bt wi bi mtg ph stm in
  forall b, exists d,
    deadline b true 0 limit (extra_clock wt bt stm) = Some d /\
    limit <= d <= clock /\
    (b = true -> d = Z.min (2 * limit) clock) /\
    (b = false -> d = limit).
Proof. exact (extra_time_le_clock_partial float_trunc_08_holds float_trunc_09_holds float_trunc_10_holds mt wt bt wi bi mtg ph stm). Qed.

Theorem extra_time_bounded mt wt bt wi bi mtg ph stm :
  mt <= 0 -> clock_domain wt bt wi bi mtg ph stm ->
  let clock := clock_of wt bt wi bi stm in
  let limit := setup_time_control mt wt bt wi bi mtg ph stm in
  forall b, exists d,
    deadline b true 0 limit (extra_clock wt bt stm) = Some d /\ 0 <= d <= clock /\
    (inc_of wt bt wi bi stm = 0 -> 2 <= n_moves mtg ph -> b = true -> d = 2 * limit).
Proof. exact (extra_time_bounded_partial float_trunc_08_holds float_trunc_09_holds float_trunc_10_holds mt wt bt wi bi mtg ph stm). Qed.

Theorem movetime_stop_flag mt wt bt wi bi mtg ph stm b clock :
  0 < mt < 2 ^ 53 ->
  let limit := setup_time_control mt wt bt wi bi mtg ph stm in
  exists d, deadline b true mt limit clock = Some d /\ d = limit /\
    (20 * ms <= mt -> timer_fire d poll_period < mt - 15 * ms) /\
    (mt < 20 * ms -> timer_fire d poll_period < mt + 5 * ms).
Proof. exact (movetime_stop_flag_partial float_trunc_10_holds mt wt bt wi bi mtg ph stm b clock). Qed.

(* ================= depth loop ================= *)
Lemma id_loop_unstopped fuel done nroot f :
  (1 < nroot)%nat -> (forall k, f k = false) -> id_loop fuel done nroot f = (done + fuel)%nat.
Proof.
  intros Hn Hf. revert done. induction fuel as [|fuel IH]; intros done; cbn [id_loop].
  - lia.
  - rewrite Hf. cbn [negb andb]. replace (1 <? nroot)%nat with true by (symmetry; apply Nat.ltb_lt; lia).
    rewrite IH. lia.
Qed.

(** depth limited, never stopped, more than one root move: exactly [depth]
    iterations; single root move: exactly one; terminal root: none. *)
Theorem iterations_exact depth nroot f :
  (0 < depth)%nat -> (forall k, f k = false) ->
  ((1 < nroot)%nat -> iterations depth nroot f = depth) /\
  (nroot = 1%nat -> iterations depth nroot f = 1%nat) /\
  (nroot = 0%nat -> iterations depth nroot f = 0%nat).
Proof.
  intros Hd Hf. repeat split.
  - intros Hn. unfold iterations. destruct nroot as [|nr]; [lia|].
    rewrite id_loop_unstopped by (auto; lia). unfold max_depth. destruct depth; lia.
  - intros ->. unfold iterations, max_depth. destruct depth as [|d]; [lia|].
    cbn [id_loop]. rewrite Hf. reflexivity.
  - intros ->. reflexivity.
Qed.

(** without a depth limit the loop runs to MaxDepth = 128 *)
Theorem iterations_unlimited nroot f :
  (1 < nroot)%nat -> (forall k, f k = false) -> iterations 0 nroot f = MaxDepth.
Proof.
  intros Hn Hf. unfold iterations. destruct nroot as [|nr]; [lia|].
  rewrite id_loop_unstopped by (auto; lia). reflexivity.
Qed.

(** a stopped search ends at the first iteration after which stop holds *)
Theorem iterations_stopped depth nroot f k :
  (1 < nroot)%nat -> (0 < k <= max_depth depth)%nat ->
  (forall j, (j < k)%nat -> f j = false) -> f k = true ->
  iterations depth nroot f = k.
Proof.
  intros Hn Hk Hlt Hst. unfold iterations. destruct nroot as [|nr]; [lia|].
  set (nroot := S nr) in *.
  assert (G : forall fuel done, (done < k)%nat -> (k <= done + fuel)%nat ->
              id_loop fuel done nroot f = k).
  { induction fuel as [|fuel IH]; intros done H1 H2; [lia|]. cbn [id_loop].
    destruct (Nat.eq_dec (S done) k) as [E|E].
    - rewrite E, Hst. reflexivity.
    - rewrite Hlt by lia. cbn [negb andb].
      replace (1 <? nroot)%nat with true by (symmetry; apply Nat.ltb_lt; lia).
      apply IH; lia. }
  apply G; lia.
Qed.

Example iterations_nonvacuous :
  iterations 5 20 (fun _ => false) = 5%nat /\ iterations 5 1 (fun _ => false) = 1%nat /\
  iterations 5 0 (fun _ => false) = 0%nat /\ iterations 9 20 (fun k => Nat.eqb k 3) = 3%nat.
Proof. vm_compute. repeat split. Qed.

(* ================= searchmoves ================= *)
Theorem searchmoves_respected root lst :
  (* some listed move is a legal root move: exactly the listed root moves remain *)
  (existsb (listed lst) root = true ->
     filter_root root lst = filter (listed lst) root /\
     filter_root root lst <> [] /\
     forall m, In m (filter_root root lst) ->
       In m root /\ exists lm, In lm lst /\ move_of lm = move_of m) /\
  (* empty list, or none of the listed moves legal: the filter is skipped *)
  (lst = [] \/ existsb (listed lst) root = false -> filter_root root lst = root).
Proof.
  split.
  - intros H. assert (E : filter_root root lst = filter (listed lst) root).
    { unfold filter_root. destruct lst as [|l0 lst']; [|now rewrite H].
      apply existsb_exists in H. destruct H as (m & _ & Hm). discriminate. }
    split; [exact E|]. split.
    + rewrite E. apply existsb_exists in H. destruct H as (m & Hin & Hm).
      intros Hnil. assert (Hf : In m (filter (listed lst) root)) by (apply filter_In; auto).
      rewrite Hnil in Hf. destruct Hf.
    + intros m Hm. rewrite E in Hm. apply filter_In in Hm. destruct Hm as (Hin & Hl).
      split; [exact Hin|]. unfold listed in Hl. apply existsb_exists in Hl.
      destruct Hl as (lm & Hlm & Heq). exists lm. split; [exact Hlm|]. now apply N.eqb_eq.
  - intros [-> | H]; [reflexivity|]. unfold filter_root. destruct lst; [reflexivity|]. now rewrite H.
Qed.

(** the best move is a root move (C05); hence it is a listed move *)
Corollary searchmoves_best_listed root lst best :
  existsb (listed lst) root = true -> In best (filter_root root lst) ->
  exists lm, In lm lst /\ move_of lm = move_of best.
Proof.
  intros H Hb. destruct (searchmoves_respected root lst) as (S1 & _).
  destruct (S1 H) as (_ & _ & S). now destruct (S best Hb).
Qed.

Example searchmoves_nonvacuous :
  filter_root [1;2;3;4]%N [3; 65538 (* = move 2 with a sort value *)]%N = [2;3]%N /\
  filter_root [1;2;3;4]%N [9]%N = [1;2;3;4]%N /\ filter_root [1;2;3;4]%N [] = [1;2;3;4]%N.
Proof. vm_compute. repeat split. Qed.

(* ================= node limit ================= *)
Lemma qtree_ind' (P : qtree -> Prop) :
  (forall cs, Forall P cs -> P (QNode cs)) -> forall t, P t.
Proof.
  intros H. fix IH 1. intros [cs]. apply H.
  induction cs as [|c cs IHcs]; constructor; [apply IH | exact IHcs].
Qed.

Lemma stree_ind' (P : stree -> Prop) :
  (forall q, P (SLeaf q)) -> P SCut ->
  (forall cs, Forall (fun c => P (snd c)) cs -> P (SNode cs)) -> forall t, P t.
Proof.
  intros H1 H2 H3. fix IH 1. intros [q| |cs]; [apply H1 | apply H2 | apply H3].
  induction cs as [|c cs IHcs]; constructor; [apply IH | exact IHcs].
Qed.

Lemma stop_true L n : stop_cond L n = true <-> L <= n.
Proof. unfold stop_cond. apply Z.leb_le. Qed.
Lemma stop_false L n : stop_cond L n = false <-> n < L.
Proof. unfold stop_cond. apply Z.leb_gt. Qed.

Lemma fold_max_ge0 {A} (f : A -> Z) l : 0 <= fold_right (fun c a => Z.max (f c) a) 0 l.
Proof. induction l; cbn [fold_right]; lia. Qed.

Lemma qheight_ge0 t : 0 <= qheight t.
Proof. destruct t as [cs]. cbn [qheight]. apply fold_max_ge0. Qed.
Lemma sheight_ge0 t : 0 <= sheight t.
Proof. destruct t as [q| |cs]; cbn [sheight]; [apply qheight_ge0 | lia | apply fold_max_ge0]. Qed.
Lemma ssheight_ge0 ss : 0 <= ssheight ss.
Proof. apply fold_max_ge0. Qed.
Lemma rheight_ge0 m : 0 <= rheight m.
Proof. apply fold_max_ge0. Qed.
Lemma iheight_ge0 m : 0 <= iheight m.
Proof. apply fold_max_ge0. Qed.

(** qsearch: monotone; once the limit is reached at most one further
    increment per NEW nested frame *)
Lemma qrun_bound L t : forall n, n <= qrun L t n <= Z.max n L + qheight t.
Proof.
  induction t as [cs IH] using qtree_ind'. cbn [qrun qheight].
  induction IH as [|c cs Hc _ IHcs]; intros n; cbn [qloop fold_right].
  - lia.
  - specialize (Hc (n + 1)). pose proof (qheight_ge0 c).
    pose proof (fold_max_ge0 (fun c => 1 + qheight c) cs) as Hf; cbv beta in Hf.
    destruct (stop_cond L (qrun L c (n + 1))) eqn:E.
    + lia.
    + apply stop_false in E. specialize (IHcs (qrun L c (n + 1))). lia.
Qed.

(** entered below the limit, the increment that reaches the limit is not an
    overshoot: at most [qheight - 1] beyond *)
Lemma qrun_below L t : forall n, n < L -> qrun L t n <= L + Z.max 0 (qheight t - 1).
Proof.
  destruct t as [cs]. cbn [qrun qheight].
  induction cs as [|c cs IHcs]; intros n Hn; cbn [qloop fold_right].
  - lia.
  - pose proof (qrun_bound L c (n + 1)) as Hc. pose proof (qheight_ge0 c).
    pose proof (fold_max_ge0 (fun c => 1 + qheight c) cs) as Hf; cbv beta in Hf.
    destruct (stop_cond L (qrun L c (n + 1))) eqn:E.
    + lia.
    + apply stop_false in E. specialize (IHcs (qrun L c (n + 1)) E). lia.
Qed.

(** search: a stopped frame returns immediately; a frame never increments
    after the limit has been reached except through qsearch *)
Lemma srun_stopped L t n : L <= n -> srun L t n = n.
Proof. intros H. apply stop_true in H. destruct t; cbn [srun]; now rewrite H. Qed.

Lemma srun_bound L t : forall n, n <= srun L t n <= Z.max n L + Z.max 0 (sheight t - 1).
Proof.
  induction t as [q| |cs IH] using stree_ind'; intros n; cbn [srun sheight];
    destruct (stop_cond L n) eqn:En; try (pose proof (qheight_ge0 q)); try lia.
  - apply stop_false in En. pose proof (qrun_bound L q n). pose proof (qrun_below L q n En). lia.
  - apply stop_false in En. revert n En.
    induction IH as [|c cs Hc _ IHcs]; intros n En; cbn [sloop fold_right].
    + lia.
    + set (n0 := if fst c then n + 1 else n).
      assert (Hn0 : n <= n0 <= L) by (unfold n0; destruct (fst c); lia).
      clearbody n0.
      specialize (Hc n0). pose proof (sheight_ge0 (snd c)).
      pose proof (fold_max_ge0 (fun c : bool * stree => sheight (snd c)) cs) as Hf; cbv beta in Hf.
      destruct (stop_cond L (srun L (snd c) n0)) eqn:E.
      * clear IHcs E. revert Hf. generalize (fold_right (fun (c0 : bool * stree) (a : Z) => Z.max (sheight (snd c0)) a) 0 cs).
        revert Hc H. generalize (srun L (snd c) n0) (sheight (snd c)). intros. rewrite (Z.max_r n0 L) in Hc by lia. pose proof (Z.le_max_l z0 z1). lia.
      * apply stop_false in E. specialize (IHcs _ E). lia.
Qed.

Lemma fold_srun_stopped L ss n : L <= n -> fold_left (fun a s => srun L s a) ss n = n.
Proof. intros H. induction ss as [|s ss IH]; cbn [fold_left]; [reflexivity|]. now rewrite srun_stopped. Qed.

Lemma fold_srun_bound L ss : forall n,
  n <= fold_left (fun a s => srun L s a) ss n <= Z.max n (L + Z.max 0 (ssheight ss - 1)).
Proof.
  induction ss as [|s ss IH]; intros n; cbn [fold_left]; unfold ssheight in *; cbn [fold_right].
  - pose proof (ssheight_ge0 []). lia.
  - pose proof (srun_bound L s n). pose proof (sheight_ge0 s).
    pose proof (fold_max_ge0 sheight ss).
    destruct (Z.le_gt_cases L n) as [Hn|Hn].
    { rewrite srun_stopped, fold_srun_stopped by exact Hn. lia. }
    destruct (Z.le_gt_cases L (srun L s n)) as [Hs|Hs].
    + rewrite fold_srun_stopped by exact Hs. lia.
    + specialize (IH (srun L s n)). lia.
Qed.

Lemma ndraw_cons ss m : ndraw (ss :: m) = (if is_draw_move ss then 1 else 0) + ndraw m.
Proof. unfold ndraw. cbn [filter]. destruct (is_draw_move ss); cbn [length]; lia. Qed.
Lemma ndraw_ge0 m : 0 <= ndraw m.
Proof. unfold ndraw. lia. Qed.
Lemma ndraw_le_length m : ndraw m <= Z.of_nat (length m).
Proof.
  unfold ndraw. induction m as [|a m IH]; cbn [filter length]; [lia|].
  destruct (is_draw_move a); cbn [length]; lia.
Qed.

(** root loop, iteration depth > 1: leaves at the first stop *)
Lemma rrun_deep_bound L d moves : (1 < d)%nat -> forall n,
  n <= rrun L d moves n <= Z.max (n + 1) (L + Z.max 0 (rheight moves - 1)).
Proof.
  intros Hd. apply Nat.ltb_lt in Hd.
  induction moves as [|ss moves IH]; intros n; cbn [rrun]; unfold rheight in *; cbn [fold_right].
  - lia.
  - rewrite Hd, orb_true_l, andb_true_r.
    pose proof (fold_srun_bound L ss (n + 1)). pose proof (ssheight_ge0 ss).
    pose proof (fold_max_ge0 ssheight moves).
    destruct (stop_cond L _) eqn:E.
    + lia.
    + apply stop_false in E. specialize (IH (fold_left (fun a s => srun L s a) ss (n + 1))). lia.
Qed.

(** root loop, iteration depth 1, entered when already stopped: only draw
    moves keep the loop going, the first searched move ends it *)
Lemma rrun_first_stopped L moves : forall n, L <= n ->
  n <= rrun L 1 moves n <= n + ndraw moves + 1.
Proof.
  induction moves as [|ss moves IH]; intros n Hn; cbn [rrun].
  - pose proof (ndraw_ge0 []). lia.
  - rewrite ndraw_cons. cbn [Nat.ltb Nat.leb orb]. pose proof (ndraw_ge0 moves).
    rewrite fold_srun_stopped by lia.
    destruct ss as [|s ss']; cbn [is_draw_move negb].
    + rewrite andb_false_r. specialize (IH (n + 1) ltac:(lia)). lia.
    + rewrite andb_true_r. replace (stop_cond L (n + 1)) with true by (symmetry; apply stop_true; lia). lia.
Qed.

(** root loop, iteration depth 1 *)
Lemma rrun_first_bound L moves : forall n,
  n <= rrun L 1 moves n <= Z.max n L + Z.max (rheight moves - 1) (ndraw moves + 1).
Proof.
  intros n. destruct (Z.le_gt_cases L n) as [Hst|Hlt].
  { pose proof (rrun_first_stopped L moves n Hst). pose proof (rheight_ge0 moves). lia. }
  revert n Hlt.
  induction moves as [|ss moves IH]; intros n Hlt; cbn [rrun]; unfold rheight in *; cbn [fold_right].
  - pose proof (ndraw_ge0 []). lia.
  - rewrite ndraw_cons. cbn [Nat.ltb Nat.leb orb].
    pose proof (fold_srun_bound L ss (n + 1)) as HB. pose proof (ssheight_ge0 ss).
    pose proof (fold_max_ge0 ssheight moves). pose proof (ndraw_ge0 moves).
    set (n1 := fold_left (fun a s => srun L s a) ss (n + 1)) in *.
    destruct ss as [|s ss'].
    + (* draw move: n1 = n+1, loop continues *)
      cbn [is_draw_move negb andb]. rewrite andb_false_r.
      assert (Hn1 : n1 = n + 1) by reflexivity. clearbody n1. subst n1.
      destruct (Z.le_gt_cases L (n + 1)) as [Hs|Hs].
      * pose proof (rrun_first_stopped L moves (n + 1) Hs). lia.
      * specialize (IH (n + 1) Hs). lia.
    + cbn [is_draw_move negb]. rewrite andb_true_r. clearbody n1.
      destruct (stop_cond L n1) eqn:E.
      * lia.
      * apply stop_false in E. specialize (IH n1 E). lia.
Qed.

(** iterations of depth >= 2, entered below the limit *)
Lemma irun_deep_bound L its : forall d n, (1 < d)%nat -> n < L ->
  n <= irun L d its n <= L + Z.max 1 (iheight its - 1).
Proof.
  induction its as [|moves its IH]; intros d n Hd Hn; cbn [irun]; unfold iheight in *; cbn [fold_right].
  - pose proof (iheight_ge0 []). lia.
  - pose proof (rrun_deep_bound L d moves Hd (n + 1)) as HB. pose proof (rheight_ge0 moves).
    pose proof (fold_max_ge0 rheight its).
    destruct (negb (stop_cond L (rrun L d moves (n + 1))) && (1 <? length moves)%nat) eqn:E.
    + apply andb_prop in E. destruct E as (E & _). apply negb_true_iff, stop_false in E.
      specialize (IH (S d) _ ltac:(lia) E). lia.
    + lia.
Qed.

(** C13 node limit: with a node limit L >= 1 the final node count exceeds L
    by at most the larger of
    (a) [iheight its - 1], where [iheight] is the deepest nesting of qsearch
        frames below one search frame: qsearch has no stop test at its entry
        (alphabeta.go:763ff), so after the limit is reached every NEW nested
        qsearch frame may still count its first move (:935) before the test
        :956 unwinds the chain; in the engine the nesting is < MaxDepth = 128
        (:779) and is bounded by Result.ExtraDepth of the search;
    (b) the number of repetition/50-move-draw root moves of iteration 1 plus
        one: in iteration 1 rootSearch does not test the stop flag (:114
        [depth > 1]); draw moves (no search call) keep the loop going, the
        first searched move ends it through the value -ValueNA >= beta.
    search frames themselves never overshoot: they test at entry (:185) and
    after every child (:337, :393, :646).
    OBSERVATION (outside C13, relevant to the best-move properties): in case
    (b) savePV (:128) has made the ABORTED root move pv[0][0] with value
    15001 before the return at :133 - a search stopped during iteration 1
    reports the move it was searching when it was stopped. *)
Theorem node_overshoot L its :
  1 <= L ->
  nodes_final L its <= L + Z.max (iheight its - 1) (ndraw (hd [] its) + 1).
Proof.
  intros HL. unfold nodes_final. destruct its as [|moves its]; cbn [irun hd].
  - pose proof (iheight_ge0 []). pose proof (ndraw_ge0 []). lia.
  - unfold iheight; cbn [fold_right].
    pose proof (rrun_first_bound L moves (0 + 1)) as HB. pose proof (rheight_ge0 moves).
    pose proof (fold_max_ge0 rheight its) as Hf. pose proof (ndraw_ge0 moves).
    destruct (negb (stop_cond L (rrun L 1 moves (0 + 1))) && (1 <? length moves)%nat) eqn:E.
    + apply andb_prop in E. destruct E as (E & _). apply negb_true_iff, stop_false in E.
      pose proof (irun_deep_bound L its 2 _ ltac:(lia) E) as HI. unfold iheight in HI. lia.
    + lia.
Qed.

(** when the limit is not reached during the first iteration the overshoot is
    at most max(1, qsearch nesting) *)
Theorem node_overshoot_later L moves its :
  1 <= L -> rrun L 1 moves 1 < L ->
  nodes_final L (moves :: its) <= L + Z.max 1 (iheight its - 1).
Proof.
  intros HL H1. unfold nodes_final. cbn [irun]. change (0 + 1) with 1.
  apply stop_false in H1. rewrite H1. cbn [negb andb]. apply stop_false in H1.
  destruct (1 <? length moves)%nat.
  - apply irun_deep_bound; lia.
  - pose proof (iheight_ge0 its). lia.
Qed.

(** search frames alone never overshoot: with no qsearch frames and no draw
    root moves the overshoot is at most 1 (the root move counted at :80 after
    the per-iteration increment :490 reached the limit) *)
Corollary node_overshoot_no_qsearch L its :
  1 <= L -> iheight its = 0 -> ndraw (hd [] its) = 0 -> nodes_final L its <= L + 1.
Proof. intros HL H0 H1. pose proof (node_overshoot L its HL). lia. Qed.

(** the limit is honoured from below: a search that ends below the limit was
    not cut short by the node limit (monotone counter, stop only when n >= L) *)
Lemma rrun_mono L d moves n : n <= rrun L d moves n.
Proof.
  revert n. induction moves as [|ss moves IH]; intros n; cbn [rrun]; [lia|].
  pose proof (fold_srun_bound L ss (n + 1)).
  destruct (_ && _); [lia|]. specialize (IH (fold_left (fun a s => srun L s a) ss (n + 1))). lia.
Qed.

(** tightness witnesses (non-vacuity):
    (1) a chain of 4 nested qsearch frames under the first root move, limit 3:
        6 = 3 + (4 - 1) nodes;
    (2) limit 1: 2 = 1 + (0 + 1) nodes (the engine: "go nodes 1" visits 2);
    (3) limit 1, two draw root moves, then a searched one: 4 = 1 + (2 + 1);
    (4) a limit that is never reached: all nodes are visited. *)
Definition chain4 : qtree := QNode [QNode [QNode [QNode [QNode []]]]].
Example node_overshoot_tight :
  nodes_final 3 [[ [SLeaf chain4]; [SLeaf (QNode [])] ]] = 6 /\
  iheight [[ [SLeaf chain4]; [SLeaf (QNode [])] ]] = 4 /\
  nodes_final 1 [[ [SLeaf (QNode [])]; [SLeaf (QNode [])]; [SLeaf (QNode [])] ]] = 2 /\
  nodes_final 1 [[ []; []; [SCut]; [SCut] ]] = 4 /\
  nodes_final 100 [[ [SLeaf (QNode [])]; [SLeaf (QNode [])] ]; [ [SNode [(true, SCut)]]; [SCut] ]] = 7.
Proof. vm_compute. repeat split. Qed.

(** the checker of the correspondence run is implied by the theorem *)
Theorem node_case_ok_complete L its maxq :
  1 <= L -> iheight its - 1 <= maxq ->
  node_case_ok L (nodes_final L its) (ndraw (hd [] its)) maxq = true.
Proof.
  intros HL Hq. unfold node_case_ok. apply Z.leb_le.
  pose proof (node_overshoot L its HL). lia.
Qed.

(* ================= rational model and checker ================= *)
Lemma margin_near L : 0 <= L < 2 ^ 53 ->
  exists a, margin L = Some a /\ margin_q L - 1 <= a <= margin_q L + 1 /\ 0 <= margin_q L <= L.
Proof.
  intros H. unfold margin, margin_q.
  rewrite (Z.quot_div_nonneg (L * 8) 10), (Z.quot_div_nonneg (L * 9) 10) by lia.
  destruct (Z.quot L ms <? 100).
  - destruct (float_trunc_08_near L H) as (a & E & B). exists a. rewrite (Z.mul_comm L 8).
    split; [exact E|]. split; [lia|].
    pose proof (Z.div_mod (8 * L) 10 ltac:(lia)). pose proof (Z.mod_pos_bound (8 * L) 10 ltac:(lia)). lia.
  - destruct (float_trunc_09_near L H) as (a & E & B). exists a. rewrite (Z.mul_comm L 9).
    split; [exact E|]. split; [lia|].
    pose proof (Z.div_mod (9 * L) 10 ltac:(lia)). pose proof (Z.mod_pos_bound (9 * L) 10 ltac:(lia)). lia.
Qed.

(** the float model and the exact-rational model differ by at most 1 ns on
    the theorem domain (and the rational model satisfies the same bounds) *)
Theorem float_vs_rational mt wt bt wi bi mtg ph stm :
  mt <= 0 -> clock_domain wt bt wi bi mtg ph stm ->
  let lf := setup_time_control mt wt bt wi bi mtg ph stm in
  let lq := setup_time_control_q mt wt bt wi bi mtg ph stm in
  lq - 1 <= lf <= lq + 1 /\ 0 <= lq <= clock_of wt bt wi bi stm /\
  n_moves mtg ph * lq <= clock_of wt bt wi bi stm + n_moves mtg ph * inc_of wt bt wi bi stm.
Proof.
  intros Hmt D lf lq.
  destruct (clock_limit_spec_full mt wt bt wi bi mtg ph stm Hmt D) as (Hml & Hn1 & _ & _).
  pose proof D as [Hs Hc Hi Hm Hp Ho].
  assert (Hov : n_moves mtg ph * inc_of wt bt wi bi stm < 2 ^ 62).
  { unfold n_moves. destruct (Z.eqb_spec mtg 0); [|exact Ho].
    destruct (moves_left_float_int ph Hp) as (_ & B).
    assert (moves_left_int ph * inc_of wt bt wi bi stm <= 40 * inc_of wt bt wi bi stm)
      by (apply Z.mul_le_mono_nonneg_r; lia).
    change (2 ^ 62) with 4611686018427387904. change (2 ^ 53) with 9007199254740992 in *. lia. }
  unfold lf, lq, setup_time_control, setup_time_control_opt, setup_time_control_q.
  replace (0 <? mt) with false by (symmetry; apply Z.ltb_ge; lia).
  rewrite Hml. fold (n_moves mtg ph).
  unfold clock_of, inc_of in *.
  destruct (clock_inc wt bt wi bi stm) as [ck ic]. cbn [fst snd] in *.
  set (n := n_moves mtg ph) in *.
  rewrite raw_limit_spec by lia.
  set (L := Z.min ck ((ck + n * ic) / n)).
  assert (Hq : 0 <= (ck + n * ic) / n).
  { apply Z.div_pos; [|lia]. assert (0 <= n * ic) by (apply Z.mul_nonneg_nonneg; lia). lia. }
  assert (HL : 0 <= L < 2 ^ 53) by (unfold L; lia).
  destruct (margin_near L HL) as (a & Ea & Ba & Bq). rewrite Ea.
  split; [lia|]. split; [unfold L in *; lia|].
  assert (n * margin_q L <= n * ((ck + n * ic) / n)) by (apply Z.mul_le_mono_nonneg_l; unfold L in *; lia).
  assert (0 <= ck + n * ic) by (assert (0 <= n * ic) by (apply Z.mul_nonneg_nonneg; lia); lia).
  pose proof (Z.mul_div_le (ck + n * ic) n ltac:(lia)). lia.
Qed.

(** the bound 1 is attained (near 2^53 ns = 104 days) *)
Example float_vs_rational_differs :
  trunc_mul c08 (2 ^ 53 - 3) = Some 7205759403792792 /\ (8 * (2 ^ 53 - 3)) / 10 = 7205759403792791.
Proof. vm_compute. split; reflexivity. Qed.

(** the correspondence checker accepts exactly the model value, and on the
    theorem domain it accepts the model value (i.e. its additional C13 checks
    are implied by the theorems) *)
Theorem time_case_ok_sound mt wt bt wi bi mtg ph stm obs :
  time_case_ok mt wt bt wi bi mtg ph stm obs = true ->
  setup_time_control_opt mt wt bt wi bi mtg ph stm = Some obs.
Proof.
  unfold time_case_ok. destruct (setup_time_control_opt mt wt bt wi bi mtg ph stm) as [l|]; [|discriminate].
  intros H. apply andb_prop in H. destruct H as (H & _). apply Z.eqb_eq in H. now subst.
Qed.

Theorem time_case_ok_complete_clock mt wt bt wi bi mtg ph stm :
  mt <= 0 -> clock_domain wt bt wi bi mtg ph stm ->
  time_case_ok mt wt bt wi bi mtg ph stm (setup_time_control mt wt bt wi bi mtg ph stm) = true.
Proof.
  intros Hmt D.
  destruct (clock_limit_spec_full mt wt bt wi bi mtg ph stm Hmt D) as (Hml & Hn1 & Hn15 & l & E & B).
  pose proof (budget_fits_moves mt wt bt wi bi mtg ph stm Hmt D) as F. cbv zeta in F.
  destruct F as (_ & _ & F).
  unfold time_case_ok, setup_time_control in *. rewrite E in *.
  replace (0 <? mt) with false by (symmetry; apply Z.ltb_ge; lia).
  rewrite Hml. unfold clock_of, inc_of in *.
  destruct (clock_inc wt bt wi bi stm) as [ck ic]. cbn [fst snd] in *.
  destruct D as [Hs Hc Hi Hm Hp Ho]. cbn [fst snd] in *.
  rewrite Z.eqb_refl. cbn [andb].
  destruct ((0 <? ck) && (0 <=? ic) && (0 <=? mtg) && (stm <? 2)%N); [|reflexivity].
  repeat (apply andb_true_intro; split); try (apply Z.leb_le; lia).
  apply orb_true_iff. destruct (Z.eq_dec mtg 0) as [Z0|NZ].
  - right. apply Z.leb_le. specialize (Hn15 Z0). lia.
  - left. apply Z.ltb_lt. lia.
Qed.

Theorem time_case_ok_complete_movetime mt wt bt wi bi mtg ph stm :
  0 < mt ->
  time_case_ok mt wt bt wi bi mtg ph stm (setup_time_control mt wt bt wi bi mtg ph stm) = true.
Proof.
  intros Hmt.
  destruct (movetime_budget mt wt bt wi bi mtg ph stm Hmt) as (E & B & B1 & B2).
  unfold time_case_ok. rewrite E. rewrite Z.eqb_refl.
  replace (0 <? mt) with true by (symmetry; apply Z.ltb_lt; lia). cbn [andb].
  apply andb_true_intro. split; [apply Z.leb_le; lia|].
  destruct (Z.leb_spec (20 * ms) mt); apply Z.eqb_eq; [apply B1 | apply B2]; lia.
Qed.


(* ---------------------------------------------------------------------- *)
(** * Assumptions                                                          *)
(* ---------------------------------------------------------------------- *)
Print Assumptions float_trunc_08_holds.
Print Assumptions float_trunc_09_holds.
Print Assumptions float_trunc_10_holds.
Print Assumptions float_trunc_08_near.
Print Assumptions budget_le_clock_partial.
Print Assumptions budget_fits_moves_partial.
Print Assumptions extra_time_bounded_partial.
Print Assumptions movetime_stop_flag_partial.
Print Assumptions moves_left_ge_15.
Print Assumptions budget_le_clock.
Print Assumptions budget_fits_moves.
Print Assumptions movetime_budget.
Print Assumptions movetime_stop_flag.
Print Assumptions extra_time_bounded.
Print Assumptions extra_time_le_clock.
Print Assumptions extra_time_le_clock_partial.
Print Assumptions float_vs_rational.
Print Assumptions time_case_ok_sound.
Print Assumptions time_case_ok_complete_clock.
Print Assumptions time_case_ok_complete_movetime.
Print Assumptions iterations_exact.
Print Assumptions iterations_stopped.
Print Assumptions searchmoves_respected.
Print Assumptions node_overshoot.
Print Assumptions node_overshoot_later.
Print Assumptions node_case_ok_complete.
Print Assumptions uci_accepted_clock_positive.
