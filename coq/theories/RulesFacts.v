(** * RulesFacts: facts about the rules specification [Rules] itself.

    The mailbox rules-of-chess specification is the yardstick of C01/C02/C08/C09/C10/C17;
    this file proves that it behaves like chess:

      [legal_no_king_capture], [legal_ep_captures_pawn]   a legal move never captures a king
      [legal_keeps_safe]         the UCI handler's position invariant [safe_pos] is kept
                                 (was a Section hypothesis of UciProofs)
      [make_preserves_legal_pos] EVERY clause of [legal_pos] is kept by a legal move
                                 (64 cells, valid codes, one king each, ranges, mover not in check,
                                  no pawns on ranks 1/8, castling rights match the board, en-passant
                                  square consistent) - nothing had to be refuted
      [reachable_legal_pos]      ... hence by any sequence of legal moves ([legal_line])
      [safe_pos_mirror], [legal_mirror], [perft_mirror]   colour symmetry of the rules:
                                 the legal moves of the mirrored position are the mirrored legal
                                 moves (as a permutation), perft is the same
    Proof structure: [binv] (what [safe_pos] and [legal_pos] share) -> [pseudo_shape] (the six
    shapes of a pseudo-legal move with the board / en-passant square after it) -> one lemma per
    clause.
    No hypotheses beyond those stated; no axioms. *)
From Coq Require Import NArith ZArith List Bool Lia ZifyN ZifyBool Btauto Permutation.
From FG Require Import Word64 Geom Tables TablesCorrect ShiftCorrect Rules FenSpec Oracle FenImpl FenProofs BitView
  AttacksImpl AttacksLemmas AttacksProofs AttacksMoves NotationImpl NotationProofs.
Import ListNotations.
Open Scope N_scope.

Ltac Zify.zify_post_hook ::= Z.to_euclidean_division_equations.

(** ** the invariant of positions held by the UCI handler (moved here from UciProofs so that
       its preservation can be proved next to the rules facts).
       On the rules position; does not look at the clocks.  Weaker than [legal_pos]:
       pawns may stand on the back ranks, castling rights need not match the board, and
       the square behind the en-passant target is not looked at. *)
Definition ep_cons (q : pos) : bool :=
  let e := ep q in
  (e =? 64) ||
  ((e <? 64) && (e / 8 =? (if stm q =? 0 then 5 else 2)) && (at_ (brd q) e =? 0)
   && (at_ (brd q) (if stm q =? 0 then e - 8 else e + 8) =? 8 * (1 - stm q) + 2)).
Definition safe_pos (q : pos) : bool :=
  Nat.eqb (List.length (brd q)) 64 && forallb cell_ok (brd q)
  && Nat.eqb (count_piece (brd q) 1) 1 && Nat.eqb (count_piece (brd q) 9) 1
  && (stm q <? 2) && (cr q <? 16)
  && ep_cons q
  && negb (in_check_b (brd q) (flip (stm q))).

(** ** the part of both [safe_pos] and [legal_pos] that the move facts need *)
Record binv (p : pos) : Prop := mk_binv {
  bi_len : length (brd p) = 64%nat;
  bi_cells : forallb cell_ok (brd p) = true;
  bi_wk : count_piece (brd p) 1 = 1%nat;
  bi_bk : count_piece (brd p) 9 = 1%nat;
  bi_stm : stm p < 2;
  bi_chk : in_check_b (brd p) (flip (stm p)) = false;
  bi_ep : ep_cons p = true
}.

Lemma safe_pos_inv q : safe_pos q = true ->
  List.length (brd q) = 64%nat /\ forallb cell_ok (brd q) = true /\
  count_piece (brd q) 1 = 1%nat /\ count_piece (brd q) 9 = 1%nat /\ stm q < 2 /\ cr q < 16 /\
  ep_cons q = true /\ in_check_b (brd q) (flip (stm q)) = false.
Proof.
  unfold safe_pos. intros H. repeat (apply andb_true_iff in H as [H ?]).
  apply Nat.eqb_eq in H.
  repeat match goal with
         | H : Nat.eqb _ _ = true |- _ => apply Nat.eqb_eq in H
         | H : (_ <? _) = true |- _ => apply N.ltb_lt in H
         | H : negb _ = true |- _ => apply negb_true_iff in H
         end.
  repeat split; assumption.
Qed.

Lemma safe_pos_binv q : safe_pos q = true -> binv q.
Proof. intros H. apply safe_pos_inv in H. destruct H as (H1 & H2 & H3 & H4 & H5 & H6 & H7 & H8).
  apply mk_binv; [exact H1|exact H2|exact H3|exact H4|exact H5|exact H8|exact H7].
Qed.

Lemma cell_list_ok pc : existsb (N.eqb pc) [0;1;2;3;4;5;6;9;10;11;12;13;14] = cell_ok pc.
Proof.
  unfold cell_ok, valid_code. cbn [existsb].
  repeat match goal with |- context [N.eqb pc ?k] => destruct (N.eqb_spec pc k); [subst; reflexivity|] end.
  cbn [orb]. symmetry. lia.
Qed.

Lemma legal_pos_ep_cons p : stm p < 2 -> ep_ok p = true -> ep_cons p = true.
Proof.
  intros Hc H. unfold ep_cons. cbv zeta.
  destruct (N.eqb_spec (ep p) 64) as [E|E]; [reflexivity|]. cbn [orb].
  assert (He : ep p < 64).
  { unfold ep_ok in H. apply N.eqb_neq in E. rewrite E in H.
    repeat (apply andb_true_iff in H as [H ?]). apply N.eqb_eq in H.
    apply rank_of_bounds in H. destruct (stm p =? WHITE); lia. }
  pose proof H as H0. unfold ep_ok in H0. apply N.eqb_neq in E. rewrite E in H0.
  repeat (apply andb_true_iff in H0 as [H0 ?]).
  destruct (ep_ok_facts p H Hc He) as [(C & Hr & q & Hq & Hp)|(C & Hr & q & Hq & Hp)]; rewrite C in *; cbn [N.eqb].
  - replace (ep p - 8) with q by lia. unfold piece_at in *. rewrite Hp, Hr.
    match goal with H : (at_ (brd p) (ep p) =? 0) = true |- _ => rewrite H end.
    replace (ep p <? 64) with true by lia. reflexivity.
  - subst q. unfold piece_at in *. rewrite Hp, Hr.
    match goal with H : (at_ (brd p) (ep p) =? 0) = true |- _ => rewrite H end.
    replace (ep p <? 64) with true by lia. reflexivity.
Qed.

Lemma forallb_ext' {A} (f g : A -> bool) l : (forall x, f x = g x) -> forallb f l = forallb g l.
Proof. intros H. induction l as [|x l IH]; cbn [forallb]; [reflexivity|]. now rewrite H, IH. Qed.

Lemma legal_pos_binv p : legal_pos p = true -> binv p.
Proof.
  intros H. apply legal_pos_inv in H. destruct H as (H1 & H2 & H3 & H4 & H5 & H6 & H7 & H8 & H9 & H10).
  apply mk_binv.
  - exact H1.
  - rewrite <- H2. apply forallb_ext'. intros pc. symmetry. apply cell_list_ok.
  - exact H3.
  - exact H4.
  - exact H5.
  - exact H7.
  - now apply legal_pos_ep_cons.
Qed.

(** ** cells *)
Lemma cell_ok_cases pc : cell_ok pc = true -> pc = 0 \/ (1 <= pc <= 6) \/ (9 <= pc <= 14).
Proof. unfold cell_ok, valid_code. lia. Qed.

Lemma cell_colour pc : cell_ok pc = true -> colour_of pc < 2.
Proof. intros H. apply cell_ok_cases in H. unfold colour_of. lia. Qed.

Lemma binv_king p c : binv p -> c < 2 -> count_piece (brd p) (mk_piece c KING) = 1%nat.
Proof.
  intros H Hc. assert (c = 0 \/ c = 1) as [-> | ->] by lia; [exact (bi_wk p H)|exact (bi_bk p H)].
Qed.

Lemma king_unique b c s : count_piece b (mk_piece c KING) = 1%nat -> s < 64 ->
  at_ b s = mk_piece c KING -> king_sq b c = s.
Proof.
  unfold count_piece, king_sq, is_piece. intros H Hs Hat.
  assert (Hin : In s (filter (fun s0 => at_ b s0 =? mk_piece c KING) squares64)).
  { apply filter_In. split; [now apply NotationProofs.in_squares64|now apply N.eqb_eq]. }
  destruct (filter (fun s0 => at_ b s0 =? mk_piece c KING) squares64) as [|k [|k2 l]]; try discriminate.
  destruct Hin as [E|[]]. exact E.
Qed.

Lemma flip_flip c : c < 2 -> flip (flip c) = c.
Proof. unfold flip. lia. Qed.

(** ** 1. a pseudo-legal move never captures a king *)
Lemma castle_target_empty p kf kt rf bit empties :
  stm p < 2 -> In (kf, kt, rf, bit, empties) (castles (stm p)) ->
  forallb (fun s => at_ (brd p) s =? 0) empties = true -> at_ (brd p) kt = 0.
Proof.
  intros Hc Hin He. rewrite forallb_forall in He. apply N.eqb_eq. apply He.
  assert (stm p = 0 \/ stm p = 1) as [E|E] by lia; rewrite E in Hin; cbn in Hin;
    destruct Hin as [Hin|[Hin|[]]]; inversion Hin; subst; cbn; tauto.
Qed.

Theorem pseudo_no_king_capture p m : binv p -> In m (pseudo p) ->
  type_of (at_ (brd p) (mto m)) <> KING.
Proof.
  intros Hb Hm. pose proof (bi_stm p Hb) as Hc.
  destruct (pseudo_inv p m Hm) as [Hf Ht Hnz Hcol Htgt _| _ _ _ _ _ _ Hz _|kf kt rf bit empties Hin -> _ _ He].
  - destruct Htgt as [-> | (Hnz' & Hcol' & Hatt)]; [discriminate|].
    intros Hk.
    pose proof (cell_at (brd p) (mto m) (bi_cells p Hb)) as Hcell.
    pose proof (cell_colour _ Hcell) as Hcl.
    assert (Hpc : at_ (brd p) (mto m) = mk_piece (flip (stm p)) KING).
    { rewrite (piece_decomp (at_ (brd p) (mto m))), Hk. f_equal. unfold flip. lia. }
    assert (Hfl : flip (stm p) < 2) by (unfold flip; lia).
    pose proof (king_unique _ _ _ (binv_king p _ Hb Hfl) Ht Hpc) as Hks.
    pose proof (bi_chk p Hb) as Hchk. unfold in_check_b in Hchk.
    rewrite Hks, flip_flip in Hchk by exact Hc.
    assert (attacked (brd p) (mto m) (stm p) = true).
    { apply attacked_ex; try assumption. now exists (mfrom m). }
    congruence.
  - rewrite Hz. discriminate.
  - cbn [mto]. rewrite (castle_target_empty p kf kt rf bit empties Hc Hin He). discriminate.
Qed.

Theorem legal_no_king_capture p m : legal_pos p = true -> In m (legal p) ->
  type_of (piece_at p (mto m)) <> KING.
Proof.
  intros Hl Hm. apply pseudo_no_king_capture; [now apply legal_pos_binv|now apply legal_in_pseudo].
Qed.

(** ** the en-passant capture square *)
Lemma ep_capture_square c f t : c < 2 -> f < 64 -> In t (pawn_attack_targets c f) ->
  mk_sq (file_of t) (rank_of f) = (if c =? 0 then t - 8 else t + 8) /\ 8 <= (if c =? 0 then t else t + 16) .
Proof.
  intros Hc Hf Ht. apply pat_char in Ht; [|exact Hf].
  unfold mk_sq. rewrite file_of_mod, rank_of_div.
  destruct Ht as [(-> & [H|H])|(Hn & [H|H])].
  - cbn [N.eqb]. lia.
  - cbn [N.eqb]. lia.
  - replace (c =? 0) with false by lia. lia.
  - replace (c =? 0) with false by lia. lia.
Qed.

Lemma ep_cons_inv p : ep_cons p = true -> ep p <> 64 ->
  ep p < 64 /\ ep p / 8 = (if stm p =? 0 then 5 else 2) /\ at_ (brd p) (ep p) = 0 /\
  at_ (brd p) (if stm p =? 0 then ep p - 8 else ep p + 8) = 8 * (1 - stm p) + 2.
Proof.
  unfold ep_cons. cbv zeta. intros H Hn.
  replace (ep p =? 64) with false in H by lia. cbn [orb] in H.
  repeat (apply andb_true_iff in H as [H ?]).
  repeat match goal with H : (_ =? _) = true |- _ => apply N.eqb_eq in H end.
  apply N.ltb_lt in H. tauto.
Qed.

Theorem pseudo_ep_captures_pawn p m : binv p -> In m (pseudo p) -> mtype m = ENPASSANT ->
  mk_sq (file_of (mto m)) (rank_of (mfrom m)) < 64 /\
  mk_sq (file_of (mto m)) (rank_of (mfrom m)) <> mto m /\
  mk_sq (file_of (mto m)) (rank_of (mfrom m)) <> mfrom m /\
  at_ (brd p) (mk_sq (file_of (mto m)) (rank_of (mfrom m))) = mk_piece (flip (stm p)) PAWN.
Proof.
  intros Hb Hm Hty. pose proof (bi_stm p Hb) as Hc.
  destruct (pseudo_inv p m Hm) as [_ _ _ _ _ [[E _]|[E _]]|_ _ Hf Hep Ht Hpc Hz Hin|kf kt rf bit empties _ -> _ _ _];
    try (rewrite Hty in E; discriminate E); try discriminate Hty.
  destruct (ep_capture_square _ _ _ Hc Hf Hin) as [Hsq Hrng].
  assert (Hne : ep p <> 64) by lia.
  destruct (ep_cons_inv p (bi_ep p Hb) Hne) as (He & Hr & _ & Hpawn).
  rewrite Hsq. rewrite <- Hep in *.
  assert (stm p = 0 \/ stm p = 1) as [C|C] by lia; rewrite C in *; cbn [N.eqb] in *;
    (split; [lia|]); (split; [lia|]); (split; [|rewrite Hpawn; reflexivity]).
  - intros E. rewrite <- E, Hpawn in Hpc. discriminate Hpc.
  - intros E. rewrite <- E, Hpawn in Hpc. discriminate Hpc.
Qed.

Theorem legal_ep_captures_pawn p m : legal_pos p = true -> In m (legal p) -> mtype m = ENPASSANT ->
  piece_at p (mk_sq (file_of (mto m)) (rank_of (mfrom m))) = mk_piece (flip (stm p)) PAWN.
Proof.
  intros Hl Hm Hty. apply pseudo_ep_captures_pawn; [now apply legal_pos_binv|now apply legal_in_pseudo|exact Hty].
Qed.

(** ** counting pieces after [put] *)
Definition b2n (x : bool) : nat := if x then 1%nat else 0%nat.

Lemma filter_len_upd (f g : N -> bool) s : forall l, NoDup l -> In s l -> (forall u, u <> s -> f u = g u) ->
  (length (filter f l) + b2n (g s) = length (filter g l) + b2n (f s))%nat.
Proof.
  induction l as [|a l IH]; intros Hnd Hin Hfg; [destruct Hin|].
  inversion Hnd as [|a' l' Hna Hnd']; subst. cbn [filter].
  destruct (N.eq_dec a s) as [->|Hne].
  - assert (E : filter f l = filter g l).
    { apply filter_ext_in. intros u Hu. apply Hfg. intros ->. contradiction. }
    rewrite E. destruct (f s), (g s); cbn [length b2n]; lia.
  - destruct Hin as [E|Hin]; [contradiction|]. specialize (IH Hnd' Hin Hfg).
    rewrite (Hfg a Hne). destruct (g a); cbn [length]; lia.
Qed.

Lemma count_put b s v pc : length b = 64%nat -> s < 64 ->
  (count_piece (put b s v) pc + b2n (at_ b s =? pc)%N = count_piece b pc + b2n (v =? pc)%N)%nat.
Proof.
  intros Hl Hs. unfold count_piece.
  pose proof (filter_len_upd (fun u => at_ (put b s v) u =? pc) (fun u => at_ b u =? pc) s squares64
                squares64_NoDup (NotationProofs.in_squares64 s Hs)) as H.
  cbv beta in H. rewrite (at_put b s v s Hl Hs), N.eqb_refl in H. apply H.
  intros u Hu. rewrite at_put by assumption. replace (u =? s) with false by lia. reflexivity.
Qed.

(* a square that neither holds nor receives [pc] *)
Lemma count_put_other b s v pc : length b = 64%nat -> s < 64 -> at_ b s <> pc -> v <> pc ->
  count_piece (put b s v) pc = count_piece b pc.
Proof.
  intros Hl Hs H1 H2. pose proof (count_put b s v pc Hl Hs) as H.
  replace (at_ b s =? pc) with false in H by lia. replace (v =? pc) with false in H by lia.
  cbn [b2n] in H. lia.
Qed.

(* moving the piece on [f] to [t]; nothing equal to [pc] is captured *)
Lemma count_move b f t pc : length b = 64%nat -> f < 64 -> t < 64 -> pc <> 0 -> at_ b t <> pc ->
  count_piece (put (put b f 0) t (at_ b f)) pc = count_piece b pc.
Proof.
  intros Hl Hf Ht Hpc Hcap.
  pose proof (count_put b f 0 pc Hl Hf) as H1.
  pose proof (count_put (put b f 0) t (at_ b f) pc ltac:(now rewrite put_length) Ht) as H2.
  rewrite at_put in H2 by assumption.
  replace (0 =? pc) with false in H1 by lia.
  assert (E : ((if t =? f then 0 else at_ b t) =? pc) = false) by (destruct (t =? f); lia).
  rewrite E in H2. cbn [b2n] in *. lia.
Qed.

Lemma forallb_set_nth (P : N -> bool) v : P v = true -> forall l n, forallb P l = true -> forallb P (set_nth l n v) = true.
Proof.
  intros Hv. induction l as [|x l IH]; intros [|n] H; cbn [set_nth forallb] in *; try reflexivity.
  - apply andb_true_iff in H as [_ H]. now rewrite Hv.
  - apply andb_true_iff in H as [Hx H]. now rewrite Hx, IH.
Qed.
Lemma forallb_put (P : N -> bool) b s v : P v = true -> forallb P b = true -> forallb P (put b s v) = true.
Proof. intros Hv H. now apply forallb_set_nth. Qed.

(** ** the shape of a pseudo-legal move and of the position after it *)
Definition ep_after (p : pos) (m : mv) : N :=
  if (type_of (at_ (brd p) (mfrom m)) =? PAWN) && (zabs_diff (rank_of (mfrom m)) (rank_of (mto m)) =? 2)
  then mk_sq (file_of (mfrom m)) ((rank_of (mfrom m) + rank_of (mto m)) / 2) else 64.
Lemma make_ep p m : ep (make p m) = ep_after p m. Proof. reflexivity. Qed.
Lemma make_cr p m : cr (make p m) = N.ldiff (cr p) (N.lor (castling_by_square (mfrom m)) (castling_by_square (mto m))).
Proof. reflexivity. Qed.
Lemma make_stm p m : stm (make p m) = flip (stm p). Proof. reflexivity. Qed.

Lemma make_brd_normal p m : mtype m = NORMAL ->
  brd (make p m) = put (put (brd p) (mfrom m) 0) (mto m) (at_ (brd p) (mfrom m)).
Proof. intros E. unfold make. cbn [brd]. rewrite E. reflexivity. Qed.
Lemma make_brd_prom p m : mtype m = PROMOTION ->
  brd (make p m) = put (put (brd p) (mfrom m) 0) (mto m) (mk_piece (stm p) (mprom m)).
Proof. intros E. unfold make. cbn [brd]. rewrite E. reflexivity. Qed.
Lemma make_brd_ep p m : mtype m = ENPASSANT ->
  brd (make p m) = put (put (put (brd p) (mfrom m) 0) (mto m) (at_ (brd p) (mfrom m)))
                       (mk_sq (file_of (mto m)) (rank_of (mfrom m))) 0.
Proof. intros E. unfold make. cbn [brd]. rewrite E. reflexivity. Qed.
Lemma make_brd_castle p m : mtype m = CASTLING ->
  brd (make p m) = put (put (put (put (brd p) (mfrom m) 0) (mto m) (at_ (brd p) (mfrom m)))
                            (fst (rook_castle_squares (mto m))) 0)
                       (snd (rook_castle_squares (mto m))) (mk_piece (stm p) ROOK).
Proof. intros E. unfold make. cbn [brd]. rewrite E. cbn [N.eqb Pos.eqb CASTLING PROMOTION ENPASSANT].
  destruct (rook_castle_squares (mto m)). reflexivity. Qed.

Inductive shape (p : pos) (m : mv) : Prop :=
| sh_piece : mtype m = NORMAL -> type_of (at_ (brd p) (mfrom m)) <> PAWN -> ep_after p m = 64 -> shape p m
| sh_pawn1 : mtype m = NORMAL -> type_of (at_ (brd p) (mfrom m)) = PAWN ->
             rank_of (mto m) <> 0 -> rank_of (mto m) <> 7 -> ep_after p m = 64 -> shape p m
| sh_pawn2 u : mtype m = NORMAL -> at_ (brd p) (mfrom m) = mk_piece (stm p) PAWN ->
             step (fwd (stm p)) (mfrom m) = Some u -> step (fwd (stm p)) u = Some (mto m) ->
             at_ (brd p) u = 0 -> at_ (brd p) (mto m) = 0 -> rank_of (mfrom m) = start_rank (stm p) ->
             ep_after p m = u -> shape p m
| sh_prom : mtype m = PROMOTION -> type_of (at_ (brd p) (mfrom m)) = PAWN -> 3 <= mprom m <= 6 ->
             ep_after p m = 64 -> shape p m
| sh_ep : mtype m = ENPASSANT -> at_ (brd p) (mfrom m) = mk_piece (stm p) PAWN ->
             mto m = ep p -> at_ (brd p) (mto m) = 0 -> In (mto m) (pawn_attack_targets (stm p) (mfrom m)) ->
             ep_after p m = 64 -> shape p m
| sh_castle kf kt rf bit empties :
             In (kf, kt, rf, bit, empties) (castles (stm p)) -> m = mkmv kf kt CASTLING 3 ->
             at_ (brd p) kf = mk_piece (stm p) KING -> at_ (brd p) rf = mk_piece (stm p) ROOK ->
             forallb (fun s => at_ (brd p) s =? 0) empties = true -> ep_after p m = 64 -> shape p m.

Lemma type_of_mk c t : t < 8 -> type_of (mk_piece c t) = t.
Proof. intros H. now apply mk_piece_parts. Qed.

Lemma ep_after_nonpawn p m : type_of (at_ (brd p) (mfrom m)) <> PAWN -> ep_after p m = 64.
Proof. intros H. unfold ep_after. replace (type_of (at_ (brd p) (mfrom m)) =? PAWN) with false by lia. reflexivity. Qed.
Lemma ep_after_near p m : zabs_diff (rank_of (mfrom m)) (rank_of (mto m)) <> 2 -> ep_after p m = 64.
Proof. intros H. unfold ep_after. replace (zabs_diff (rank_of (mfrom m)) (rank_of (mto m)) =? 2) with false by lia.
  now rewrite andb_false_r. Qed.

Lemma push_ranks c s t : c < 2 -> s < 64 -> step (fwd c) s = Some t ->
  zabs_diff (rank_of s) (rank_of t) = 1 /\ rank_of t <> (if c =? 0 then 0 else 7) /\ t < 64.
Proof.
  intros Hc Hs H. pose proof (step_lt _ _ _ H) as Ht. apply fwd_char in H; [|exact Hs].
  unfold zabs_diff. rewrite !rank_of_div.
  destruct H as [(-> & -> & H)|(Hn & H1 & H2)].
  - cbn [N.eqb]. split; [|split; [|exact Ht]]; [|lia]. destruct (N.leb_spec (s / 8) ((s + 8) / 8)); lia.
  - replace (c =? 0) with false by lia. split; [|split; [|exact Ht]]; [|lia].
    destruct (N.leb_spec (s / 8) (t / 8)); lia.
Qed.

Lemma capture_ranks c s t : c < 2 -> s < 64 -> In t (pawn_attack_targets c s) ->
  zabs_diff (rank_of s) (rank_of t) = 1 /\ rank_of t <> (if c =? 0 then 0 else 7).
Proof.
  intros Hc Hs H. apply pat_char in H; [|exact Hs].
  unfold zabs_diff. rewrite !rank_of_div.
  destruct H as [(-> & [H|H])|(Hn & [H|H])].
  - cbn [N.eqb]. destruct H as (-> & H1 & H2). split; [|lia]. destruct (N.leb_spec (s / 8) ((s + 7) / 8)); lia.
  - cbn [N.eqb]. destruct H as (-> & H1 & H2). split; [|lia]. destruct (N.leb_spec (s / 8) ((s + 9) / 8)); lia.
  - replace (c =? 0) with false by lia. split; [|lia]. destruct (N.leb_spec (s / 8) (t / 8)); lia.
  - replace (c =? 0) with false by lia. split; [|lia]. destruct (N.leb_spec (s / 8) (t / 8)); lia.
Qed.

Lemma last_rank_cases c : c < 2 -> last_rank c = (if c =? 0 then 7 else 0).
Proof. intros H. unfold last_rank, WHITE. reflexivity. Qed.

Lemma double_push_ep c s u t : c < 2 -> s < 64 -> step (fwd c) s = Some u -> step (fwd c) u = Some t ->
  zabs_diff (rank_of s) (rank_of t) = 2 /\ mk_sq (file_of s) ((rank_of s + rank_of t) / 2) = u.
Proof.
  intros Hc Hs H1 H2. pose proof (step_lt _ _ _ H1) as Hu.
  apply fwd_char in H1; [|exact Hs]. apply fwd_char in H2; [|exact Hu].
  unfold zabs_diff, mk_sq. rewrite !rank_of_div, file_of_mod.
  destruct H1 as [(-> & -> & H1)|(Hn & H1 & H1')]; destruct H2 as [(E & -> & H2)|(Hn2 & H2 & H2')]; try lia.
  - split; [destruct (N.leb_spec (s / 8) ((s + 8 + 8) / 8)); lia|lia].
  - split; [destruct (N.leb_spec (s / 8) (t / 8)); lia|lia].
Qed.

Theorem pseudo_shape p m : binv p -> In m (pseudo p) ->
  mfrom m < 64 /\ mto m < 64 /\ at_ (brd p) (mfrom m) <> 0 /\ colour_of (at_ (brd p) (mfrom m)) = stm p /\ shape p m.
Proof.
  intros Hb Hm. pose proof (bi_stm p Hb) as Hc.
  destruct (pseudo_class p m Hm) as (Hf & Ht & (Hnz & Hcol) & Hcls). unfold piece_at in *.
  split; [exact Hf|]. split; [exact Ht|]. split; [exact Hnz|]. split; [exact Hcol|].
  destruct (pseudo_inv p m Hm) as [_ _ _ _ _ Hk|Hty Hpr _ Hep _ Hpc Hz Hin|kf kt rf bit empties Hin -> Hkf Hrf He].
  - (* normal move or promotion *)
    destruct Hcls as [(E & _)|[(Hty & Hpr & Hnp & _)|(Hp & Hpw)]].
    + destruct Hk as [[E' _]|[E' _]]; rewrite E in E'; discriminate E'.
    + apply sh_piece; [exact Hty|exact Hnp|now apply ep_after_nonpawn].
    + cbv zeta in Hpw. unfold piece_at in Hp.
      assert (Hpc : at_ (brd p) (mfrom m) = mk_piece (stm p) PAWN).
      { rewrite (piece_decomp (at_ (brd p) (mfrom m))), Hcol, Hp. reflexivity. }
      destruct Hpw as [(Hpk & Hz & Hst)|[(Hty & Hpr & Hz & Hr & u & Hs1 & Hs2 & Hu)|[(Hpk & Hin & Hen)|(Hty & _)]]].
      * destruct (push_ranks _ _ _ Hc Hf Hst) as (Hd & Hr0 & _).
        assert (Hep : ep_after p m = 64) by (apply ep_after_near; lia).
        destruct Hpk as [(Hty & Hpr & Hlr)|(Hty & Hpr & Hlr)].
        -- apply sh_pawn1; try assumption; rewrite last_rank_cases in Hlr by exact Hc; destruct (stm p =? 0); lia.
        -- now apply sh_prom.
      * destruct (double_push_ep _ _ _ _ Hc Hf Hs1 Hs2) as (Hd & Hsq).
        apply (sh_pawn2 p m u); try assumption.
        unfold ep_after. rewrite Hp, Hd. cbn. exact Hsq.
      * destruct (capture_ranks _ _ _ Hc Hf Hin) as (Hd & Hr0).
        assert (Hep : ep_after p m = 64) by (apply ep_after_near; lia).
        destruct Hpk as [(Hty & Hpr & Hlr)|(Hty & Hpr & Hlr)].
        -- apply sh_pawn1; try assumption; rewrite last_rank_cases in Hlr by exact Hc; destruct (stm p =? 0); lia.
        -- now apply sh_prom.
      * destruct Hk as [[E' _]|[E' _]]; rewrite Hty in E'; discriminate E'.
  - destruct (capture_ranks _ _ _ Hc Hf Hin) as (Hd & _).
    apply sh_ep; try assumption. apply ep_after_near; lia.
  - unfold is_piece in Hkf, Hrf. apply N.eqb_eq in Hkf, Hrf.
    apply (sh_castle p _ kf kt rf bit empties); try assumption; try reflexivity.
    apply ep_after_nonpawn. cbn [mfrom]. rewrite Hkf, type_of_mk by (unfold KING; lia). discriminate.
Qed.

(** ** 2. the board after a pseudo-legal move: length, cells, kings *)
Lemma castles_cases p kf kt rf bit empties : stm p < 2 -> In (kf, kt, rf, bit, empties) (castles (stm p)) ->
  (stm p = 0 /\ kf = 4 /\ kt = 6 /\ rf = 7 /\ bit = 1 /\ empties = [5; 6]) \/
  (stm p = 0 /\ kf = 4 /\ kt = 2 /\ rf = 0 /\ bit = 2 /\ empties = [1; 2; 3]) \/
  (stm p = 1 /\ kf = 60 /\ kt = 62 /\ rf = 63 /\ bit = 4 /\ empties = [61; 62]) \/
  (stm p = 1 /\ kf = 60 /\ kt = 58 /\ rf = 56 /\ bit = 8 /\ empties = [57; 58; 59]).
Proof.
  intros Hc Hin. assert (stm p = 0 \/ stm p = 1) as [E|E] by lia; rewrite E in Hin; cbn in Hin;
    destruct Hin as [Hin|[Hin|[]]]; inversion Hin; subst; tauto.
Qed.

Lemma make_len p m : binv p -> In m (pseudo p) -> length (brd (make p m)) = 64%nat.
Proof.
  intros Hb Hm. pose proof (bi_len p Hb) as Hl.
  destruct (pseudo_shape p m Hb Hm) as (_ & _ & _ & _ & [Hty _ _|Hty _ _ _ _|u Hty _ _ _ _ _ _ _|Hty _ _ _|Hty _ _ _ _ _|kf kt rf bit empties _ -> _ _ _ _]).
  - now rewrite make_brd_normal, !put_length.
  - now rewrite make_brd_normal, !put_length.
  - now rewrite make_brd_normal, !put_length.
  - now rewrite make_brd_prom, !put_length.
  - now rewrite make_brd_ep, !put_length.
  - now rewrite make_brd_castle, !put_length.
Qed.

Lemma cell_ok_mk c t : c < 2 -> 1 <= t <= 6 -> cell_ok (mk_piece c t) = true.
Proof. intros Hc Ht. unfold cell_ok, valid_code, mk_piece. lia. Qed.

Lemma make_cells p m : binv p -> In m (pseudo p) -> forallb cell_ok (brd (make p m)) = true.
Proof.
  intros Hb Hm. pose proof (bi_cells p Hb) as Hcl. pose proof (bi_stm p Hb) as Hc.
  pose proof (cell_at (brd p) (mfrom m) Hcl) as Hpc.
  destruct (pseudo_shape p m Hb Hm) as (_ & _ & _ & _ & [Hty _ _|Hty _ _ _ _|u Hty _ _ _ _ _ _ _|Hty _ Hpr _|Hty _ _ _ _ _|kf kt rf bit empties _ E _ _ _ _]).
  - rewrite make_brd_normal by exact Hty. now repeat apply forallb_put.
  - rewrite make_brd_normal by exact Hty. now repeat apply forallb_put.
  - rewrite make_brd_normal by exact Hty. now repeat apply forallb_put.
  - rewrite make_brd_prom by exact Hty. repeat apply forallb_put; try assumption; try reflexivity.
    apply cell_ok_mk; [exact Hc|lia].
  - rewrite make_brd_ep by exact Hty. now repeat apply forallb_put.
  - rewrite make_brd_castle by (rewrite E; reflexivity). repeat apply forallb_put; try assumption; try reflexivity.
    apply cell_ok_mk; [exact Hc|unfold ROOK; lia].
Qed.

Lemma king_code k : k < 2 -> mk_piece k KING <> 0 /\ type_of (mk_piece k KING) = KING.
Proof. intros H. unfold mk_piece, KING, type_of. lia. Qed.

Lemma not_king_type pc k : k < 2 -> type_of pc <> KING -> pc <> mk_piece k KING.
Proof. intros Hk H E. apply H. rewrite E. now apply king_code. Qed.

Lemma make_kings p m k : binv p -> In m (pseudo p) -> k < 2 ->
  count_piece (brd (make p m)) (mk_piece k KING) = count_piece (brd p) (mk_piece k KING).
Proof.
  intros Hb Hm Hk. pose proof (bi_len p Hb) as Hl. pose proof (bi_stm p Hb) as Hc.
  destruct (king_code k Hk) as [HK0 HKt]. set (K := mk_piece k KING) in *.
  pose proof (pseudo_no_king_capture p m Hb Hm) as Hcap.
  assert (HcapK : at_ (brd p) (mto m) <> K) by (now apply not_king_type).
  destruct (pseudo_shape p m Hb Hm) as (Hf & Ht & Hnz & Hcol & Hsh).
  assert (Hnorm : count_piece (put (put (brd p) (mfrom m) 0) (mto m) (at_ (brd p) (mfrom m))) K = count_piece (brd p) K)
    by (now apply count_move).
  destruct Hsh as [Hty _ _|Hty _ _ _ _|u Hty _ _ _ _ _ _ _|Hty Hpw Hpr _|Hty Hpc Hep Hz Hin _|kf kt rf bit empties Hin E Hkf Hrf He _].
  - now rewrite make_brd_normal.
  - now rewrite make_brd_normal.
  - now rewrite make_brd_normal.
  - rewrite make_brd_prom by exact Hty.
    rewrite count_put_other; [|now rewrite put_length|exact Ht| |].
    + apply count_put_other; try assumption; [|lia].
      apply not_king_type; [exact Hk|]. rewrite Hpw. discriminate.
    + rewrite at_put by assumption. destruct (mto m =? mfrom m); [lia|exact HcapK].
    + apply not_king_type; [exact Hk|]. rewrite type_of_mk by lia. unfold KING. lia.
  - rewrite make_brd_ep by exact Hty.
    destruct (pseudo_ep_captures_pawn p m Hb Hm Hty) as (Hsq & Hne1 & Hne2 & Hpawn).
    rewrite count_put_other; [exact Hnorm|now rewrite !put_length|exact Hsq| |lia].
    rewrite at_put by (try assumption; now rewrite put_length).
    replace (mk_sq (file_of (mto m)) (rank_of (mfrom m)) =? mto m) with false by lia.
    rewrite at_put by assumption.
    replace (mk_sq (file_of (mto m)) (rank_of (mfrom m)) =? mfrom m) with false by lia.
    rewrite Hpawn. apply not_king_type; [exact Hk|]. rewrite type_of_mk by (unfold PAWN; lia). discriminate.
  - rewrite make_brd_castle by (rewrite E; reflexivity). subst m. cbn [mfrom mto] in *.
    assert (HR : mk_piece (stm p) ROOK <> K).
    { apply not_king_type; [exact Hk|]. rewrite type_of_mk by (unfold ROOK; lia). discriminate. }
    rewrite forallb_forall in He.
    assert (Hemp : forall s, In s empties -> at_ (brd p) s = 0) by (intros s Hs; apply N.eqb_eq; now apply He).
    destruct (castles_cases p kf kt rf bit empties Hc Hin) as [C|[C|[C|C]]];
      destruct C as (Hs & -> & -> & -> & -> & ->); cbn [rook_castle_squares N.eqb Pos.eqb fst snd].
    all: rewrite count_put_other; [| now rewrite !put_length | lia | | exact HR ].
    all: try (rewrite count_put_other; [exact Hnorm | now rewrite !put_length | lia | | lia ]).
    all: repeat (rewrite at_put by (try lia; now rewrite ?put_length)); cbn [N.eqb Pos.eqb].
    all: try (rewrite Hrf; exact HR).
    all: rewrite Hemp by (cbn; tauto); lia.
Qed.

(** ** the en-passant square of the successor *)
(* the facts about a double step, in numbers *)
Lemma double_push_facts c s u t : c < 2 -> s < 64 -> rank_of s = start_rank c ->
  step (fwd c) s = Some u -> step (fwd c) u = Some t ->
  u < 64 /\ t < 64 /\ u <> s /\ u <> t /\ t <> s /\
  (c = 0 /\ u = s + 8 /\ t = s + 16 /\ u / 8 = 2 \/ c = 1 /\ u + 8 = s /\ t + 16 = s /\ u / 8 = 5).
Proof.
  intros Hc Hs Hr H1 H2. pose proof (step_lt _ _ _ H1) as Hu. pose proof (step_lt _ _ _ H2) as Ht.
  apply fwd_char in H1; [|exact Hs]. apply fwd_char in H2; [|exact Hu].
  rewrite rank_of_div in Hr. unfold start_rank, WHITE in Hr.
  destruct H1 as [(-> & -> & H1)|(Hn & H1 & H1')]; destruct H2 as [(E & -> & H2)|(Hn2 & H2 & H2')];
    try (cbn [N.eqb] in Hr; lia); replace (c =? 0) with false in Hr by lia; lia.
Qed.

Lemma make_ep_cons p m : binv p -> In m (pseudo p) -> ep_cons (make p m) = true.
Proof.
  intros Hb Hm. pose proof (bi_len p Hb) as Hl. pose proof (bi_stm p Hb) as Hc.
  destruct (pseudo_shape p m Hb Hm) as (Hf & Ht & Hnz & Hcol & Hsh).
  unfold ep_cons. cbv zeta. rewrite make_ep, make_stm.
  destruct Hsh as [_ _ E|_ _ _ _ E|u Hty Hpc Hs1 Hs2 Hu Hz Hr E|_ _ _ E|_ _ _ _ _ E|kf kt rf bit empties _ _ _ _ _ E];
    rewrite E; try reflexivity.
  destruct (double_push_facts _ _ _ _ Hc Hf Hr Hs1 Hs2) as (Hu64 & Ht64 & N1 & N2 & N3 & Hnum).
  rewrite make_brd_normal by exact Hty.
  replace (u =? 64) with false by lia. cbn [orb].
  replace (u <? 64) with true by lia. cbn [andb].
  destruct Hnum as [(C & -> & E2 & Hr2)|(C & E1 & E2 & Hr2)]; rewrite C in *; unfold flip;
    change (1 - 0) with 1; change (1 - 1) with 0; change (1 =? 0) with false; change (0 =? 0) with true; cbv iota.
  - rewrite Hr2. change (2 =? 2) with true. cbn [andb].
    rewrite !at_put by (try lia; now rewrite ?put_length).
    replace (mfrom m + 8 =? mto m) with false by lia. replace (mfrom m + 8 =? mfrom m) with false by lia.
    replace (mfrom m + 8 + 8 =? mto m) with true by lia.
    rewrite Hu, Hpc. reflexivity.
  - rewrite Hr2. change (5 =? 5) with true. cbn [andb].
    rewrite !at_put by (try lia; now rewrite ?put_length).
    replace (u =? mto m) with false by lia. replace (u =? mfrom m) with false by lia.
    replace (u - 8 =? mto m) with true by lia.
    rewrite Hu, Hpc. reflexivity.
Qed.

(** ** the mover is not in check after a legal move *)
Lemma legal_not_in_check p m : stm p < 2 -> In m (legal p) ->
  in_check_b (brd (make p m)) (flip (stm (make p m))) = false.
Proof.
  intros Hc Hm. unfold legal in Hm. apply filter_In in Hm as [_ Hm]. unfold is_legal in Hm.
  apply andb_true_iff in Hm as [_ Hm]. apply negb_true_iff in Hm.
  rewrite make_stm, flip_flip by exact Hc. exact Hm.
Qed.

Lemma ldiff_le a b : N.ldiff a b <= a.
Proof.
  apply N.ldiff_le. apply N.bits_inj. intros i. rewrite !N.ldiff_spec, N.bits_0.
  destruct (N.testbit a i), (N.testbit b i); reflexivity.
Qed.

(** ** [binv] is kept by legal moves *)
Theorem legal_keeps_binv p m : binv p -> In m (legal p) -> binv (make p m).
Proof.
  intros Hb Hm. pose proof (legal_in_pseudo p m Hm) as Hps. pose proof (bi_stm p Hb) as Hc.
  apply mk_binv.
  - now apply make_len.
  - now apply make_cells.
  - change 1 with (mk_piece 0 KING). rewrite make_kings by (try assumption; lia). exact (bi_wk p Hb).
  - change 9 with (mk_piece 1 KING). rewrite make_kings by (try assumption; lia). exact (bi_bk p Hb).
  - rewrite make_stm. unfold flip. lia.
  - now apply legal_not_in_check.
  - now apply make_ep_cons.
Qed.

(** ** 2. [legal_keeps_safe]: the statement that was a Section hypothesis of UciProofs *)
Lemma binv_safe_pos q : binv q -> cr q < 16 -> safe_pos q = true.
Proof.
  intros Hb Hcr. unfold safe_pos.
  rewrite (bi_len q Hb), (bi_cells q Hb), (bi_wk q Hb), (bi_bk q Hb), (bi_ep q Hb), (bi_chk q Hb).
  pose proof (bi_stm q Hb). replace (stm q <? 2) with true by lia. replace (cr q <? 16) with true by lia.
  reflexivity.
Qed.

Theorem legal_keeps_safe : forall q m, safe_pos q = true -> In m (legal q) -> safe_pos (make q m) = true.
Proof.
  intros q m Hs Hm. pose proof (safe_pos_binv q Hs) as Hb.
  apply safe_pos_inv in Hs. destruct Hs as (_ & _ & _ & _ & _ & Hcr & _).
  apply binv_safe_pos; [now apply legal_keeps_binv|].
  rewrite make_cr. pose proof (ldiff_le (cr q) (N.lor (castling_by_square (mfrom m)) (castling_by_square (mto m)))). lia.
Qed.

(** ** 3. the remaining clauses of [legal_pos] *)
(** *** no pawns on the first and the last rank *)
Definition okr (b : list N) : Prop :=
  forall s, s < 64 -> type_of (at_ b s) = PAWN -> rank_of s <> 0 /\ rank_of s <> 7.

Lemma okr_put b x v : length b = 64%nat -> x < 64 -> okr b ->
  (type_of v = PAWN -> rank_of x <> 0 /\ rank_of x <> 7) -> okr (put b x v).
Proof.
  intros Hl Hx Hb Hv s Hs. rewrite at_put by assumption.
  destruct (N.eqb_spec s x) as [->|_]; [exact Hv|now apply Hb].
Qed.

Lemma okr_of_legal p :
  forallb (fun s => negb (type_of (piece_at p s) =? PAWN) || negb ((rank_of s =? 0) || (rank_of s =? 7))) squares64 = true
  <-> okr (brd p).
Proof.
  rewrite forallb_forall. unfold okr, piece_at. split.
  - intros H s Hs Hp. specialize (H s (NotationProofs.in_squares64 s Hs)). rewrite Hp in H.
    rewrite N.eqb_refl in H. cbn [negb orb] in H. lia.
  - intros H s Hs. apply squares64_lt in Hs. specialize (H s Hs).
    destruct (N.eqb_spec (type_of (at_ (brd p) s)) PAWN) as [E|E]; [|reflexivity].
    specialize (H E). cbn [negb orb]. lia.
Qed.

Ltac zero_not_pawn := let E := fresh "E0" in intros E0; discriminate E0.

Lemma make_okr p m : binv p -> okr (brd p) -> In m (pseudo p) -> okr (brd (make p m)).
Proof.
  intros Hb Hok Hm. pose proof (bi_len p Hb) as Hl. pose proof (bi_stm p Hb) as Hc.
  destruct (pseudo_shape p m Hb Hm) as (Hf & Ht & Hnz & Hcol & Hsh).
  destruct Hsh as [Hty Hnp _|Hty Hpw H0 H7 _|u Hty Hpc Hs1 Hs2 Hu Hz Hr _|Hty Hpw Hpr _|Hty Hpc Hep Hz Hin _|kf kt rf bit empties Hin E Hkf Hrf He _].
  - rewrite make_brd_normal by exact Hty.
    apply okr_put; [now rewrite put_length|exact Ht| |intros E; contradiction].
    apply okr_put; try assumption. zero_not_pawn.
  - rewrite make_brd_normal by exact Hty.
    apply okr_put; [now rewrite put_length|exact Ht| |intros _; now split].
    apply okr_put; try assumption. zero_not_pawn.
  - rewrite make_brd_normal by exact Hty.
    destruct (double_push_facts _ _ _ _ Hc Hf Hr Hs1 Hs2) as (Hu64 & Ht64 & N1 & N2 & N3 & Hnum).
    apply okr_put; [now rewrite put_length|exact Ht| |intros _; rewrite !rank_of_div; lia].
    apply okr_put; try assumption. zero_not_pawn.
  - rewrite make_brd_prom by exact Hty.
    apply okr_put; [now rewrite put_length|exact Ht| |].
    + apply okr_put; try assumption. zero_not_pawn.
    + rewrite type_of_mk by lia. unfold PAWN. lia.
  - rewrite make_brd_ep by exact Hty.
    destruct (pseudo_ep_captures_pawn p m Hb Hm Hty) as (Hsq & _).
    assert (Hne : ep p <> 64) by lia.
    destruct (ep_cons_inv p (bi_ep p Hb) Hne) as (_ & Hrk & _).
    apply okr_put; [now rewrite !put_length|exact Hsq| |zero_not_pawn].
    apply okr_put; [now rewrite put_length|exact Ht| |].
    + apply okr_put; try assumption. zero_not_pawn.
    + intros _. rewrite !rank_of_div, Hep. destruct (stm p =? 0); lia.
  - rewrite make_brd_castle by (rewrite E; reflexivity). subst m. cbn [mfrom mto] in *.
    destruct (castles_cases p kf kt rf bit empties Hc Hin) as [C|[C|[C|C]]];
      destruct C as (Hs & -> & -> & -> & -> & ->); cbn [rook_castle_squares N.eqb Pos.eqb fst snd].
    all: apply okr_put; [now rewrite !put_length|lia| |rewrite type_of_mk by (unfold ROOK; lia); discriminate].
    all: apply okr_put; [now rewrite !put_length|lia| |zero_not_pawn].
    all: apply okr_put; [now rewrite !put_length|lia| |rewrite Hkf, type_of_mk by (unfold KING; lia); discriminate].
    all: apply okr_put; try assumption; zero_not_pawn.
Qed.

(** *** castling rights *)
Definition rights_prop (b : list N) (c : N) : Prop :=
  (N.land c 1 <> 0 -> at_ b 4 = 1 /\ at_ b 7 = 5) /\
  (N.land c 2 <> 0 -> at_ b 4 = 1 /\ at_ b 0 = 5) /\
  (N.land c 4 <> 0 -> at_ b 60 = 9 /\ at_ b 63 = 13) /\
  (N.land c 8 <> 0 -> at_ b 60 = 9 /\ at_ b 56 = 13).

Lemma rights_ok_prop p : rights_ok p = true <-> rights_prop (brd p) (cr p).
Proof.
  unfold rights_ok, rights_prop. cbn [castles WHITE BLACK N.eqb forallb]. unfold is_piece.
  change (mk_piece 0 KING) with 1. change (mk_piece 0 ROOK) with 5.
  change (mk_piece 1 KING) with 9. change (mk_piece 1 ROOK) with 13.
  rewrite !andb_true_r, !andb_true_iff, !orb_true_iff, !andb_true_iff, !N.eqb_eq.
  split.
  - intros ((H1 & H2) & (H3 & H4)). split; [|split; [|split]]; intros Hn.
    + destruct H1 as [H1|H1]; [contradiction|exact H1].
    + destruct H2 as [H2|H2]; [contradiction|exact H2].
    + destruct H3 as [H3|H3]; [contradiction|exact H3].
    + destruct H4 as [H4|H4]; [contradiction|exact H4].
  - intros (H1 & H2 & H3 & H4).
    split; split.
    + destruct (N.eq_dec (N.land (cr p) 1) 0); [now left|right; now apply H1].
    + destruct (N.eq_dec (N.land (cr p) 2) 0); [now left|right; now apply H2].
    + destruct (N.eq_dec (N.land (cr p) 4) 0); [now left|right; now apply H3].
    + destruct (N.eq_dec (N.land (cr p) 8) 0); [now left|right; now apply H4].
Qed.

(* a right survives only if neither square of the move is its king's or its rook's home *)
Lemma rights_check :
  forallb (fun c => forallb (fun f => forallb (fun t => forallb (fun '(bit, x, y) =>
     (N.land (N.ldiff c (N.lor (castling_by_square f) (castling_by_square t))) bit =? 0)
     || (negb (N.land c bit =? 0) && negb (f =? x) && negb (f =? y) && negb (t =? x) && negb (t =? y)))
     [(1, 4, 7); (2, 4, 0); (4, 60, 63); (8, 60, 56)]) squares64) squares64) (map N.of_nat (seq 0 16)) = true.
Proof. vm_compute. reflexivity. Qed.

Lemma right_survives c f t bit x y : c < 16 -> f < 64 -> t < 64 ->
  In (bit, x, y) [(1, 4, 7); (2, 4, 0); (4, 60, 63); (8, 60, 56)] ->
  N.land (N.ldiff c (N.lor (castling_by_square f) (castling_by_square t))) bit <> 0 ->
  N.land c bit <> 0 /\ f <> x /\ f <> y /\ t <> x /\ t <> y.
Proof.
  intros Hc Hf Ht Hin Hn. pose proof rights_check as H. rewrite forallb_forall in H.
  assert (Hcin : In c (map N.of_nat (seq 0 16))).
  { apply in_map_iff. exists (N.to_nat c). split; [apply N2Nat.id|apply in_seq; lia]. }
  specialize (H c Hcin). pose proof (forall_squares _ H f Hf) as H1. cbv beta in H1.
  pose proof (forall_squares _ H1 t Ht) as H2. cbv beta in H2. rewrite forallb_forall in H2.
  specialize (H2 _ Hin). cbv beta iota in H2.
  apply orb_true_iff in H2 as [H2|H2]; [apply N.eqb_eq in H2; contradiction|].
  repeat (apply andb_true_iff in H2 as [H2 ?]). lia.
Qed.

(* a king or rook that does not take part in the move stays where it is *)
Lemma make_keeps_square p m s : binv p -> In m (pseudo p) -> s < 64 ->
  s <> mfrom m -> s <> mto m -> at_ (brd p) s <> 0 -> type_of (at_ (brd p) s) <> PAWN ->
  (mtype m = CASTLING -> at_ (brd p) s <> mk_piece (stm p) ROOK) ->
  at_ (brd (make p m)) s = at_ (brd p) s.
Proof.
  intros Hb Hm Hs N1 N2 Hnz Hnp Hcs. pose proof (bi_len p Hb) as Hl. pose proof (bi_stm p Hb) as Hc.
  destruct (pseudo_shape p m Hb Hm) as (Hf & Ht & _ & _ & Hsh).
  assert (Hnorm : forall v, at_ (put (put (brd p) (mfrom m) 0) (mto m) v) s = at_ (brd p) s).
  { intros v. rewrite !at_put by (try assumption; now rewrite ?put_length).
    replace (s =? mto m) with false by lia. replace (s =? mfrom m) with false by lia. reflexivity. }
  destruct Hsh as [Hty _ _|Hty _ _ _ _|u Hty _ _ _ _ _ _ _|Hty _ _ _|Hty Hpc Hep Hz Hin _|kf kt rf bit empties Hin E Hkf Hrf He _].
  - rewrite make_brd_normal by exact Hty. apply Hnorm.
  - rewrite make_brd_normal by exact Hty. apply Hnorm.
  - rewrite make_brd_normal by exact Hty. apply Hnorm.
  - rewrite make_brd_prom by exact Hty. apply Hnorm.
  - rewrite make_brd_ep by exact Hty.
    destruct (pseudo_ep_captures_pawn p m Hb Hm Hty) as (Hsq & _ & _ & Hpawn).
    rewrite at_put by (try assumption; now rewrite !put_length).
    destruct (N.eqb_spec s (mk_sq (file_of (mto m)) (rank_of (mfrom m)))) as [Es|_]; [|apply Hnorm].
    exfalso. apply Hnp. rewrite Es, Hpawn. apply type_of_mk. unfold PAWN. lia.
  - rewrite make_brd_castle by (rewrite E; reflexivity).
    assert (Hcs' : at_ (brd p) s <> mk_piece (stm p) ROOK) by (apply Hcs; rewrite E; reflexivity).
    subst m. cbn [mfrom mto] in *.
    rewrite forallb_forall in He.
    assert (Hemp : forall x, In x empties -> at_ (brd p) x = 0) by (intros x Hx; apply N.eqb_eq; now apply He).
    destruct (castles_cases p kf kt rf bit empties Hc Hin) as [C|[C|[C|C]]];
      destruct C as (Hst & -> & -> & -> & -> & ->); cbn [rook_castle_squares N.eqb Pos.eqb fst snd].
    + assert (s <> 7) by (intros ->; contradiction).
      assert (s <> 5) by (intros ->; apply Hnz; apply Hemp; cbn; tauto).
      rewrite !at_put by (try lia; now rewrite ?put_length).
      replace (s =? 5) with false by lia. replace (s =? 7) with false by lia.
      replace (s =? 6) with false by lia. replace (s =? 4) with false by lia. reflexivity.
    + assert (s <> 0) by (intros ->; contradiction).
      assert (s <> 3) by (intros ->; apply Hnz; apply Hemp; cbn; tauto).
      rewrite !at_put by (try lia; now rewrite ?put_length).
      replace (s =? 3) with false by lia. replace (s =? 0) with false by lia.
      replace (s =? 2) with false by lia. replace (s =? 4) with false by lia. reflexivity.
    + assert (s <> 63) by (intros ->; contradiction).
      assert (s <> 61) by (intros ->; apply Hnz; apply Hemp; cbn; tauto).
      rewrite !at_put by (try lia; now rewrite ?put_length).
      replace (s =? 61) with false by lia. replace (s =? 63) with false by lia.
      replace (s =? 62) with false by lia. replace (s =? 60) with false by lia. reflexivity.
    + assert (s <> 56) by (intros ->; contradiction).
      assert (s <> 59) by (intros ->; apply Hnz; apply Hemp; cbn; tauto).
      rewrite !at_put by (try lia; now rewrite ?put_length).
      replace (s =? 59) with false by lia. replace (s =? 56) with false by lia.
      replace (s =? 58) with false by lia. replace (s =? 60) with false by lia. reflexivity.
Qed.

Lemma make_rights p m : binv p -> cr p < 16 -> rights_prop (brd p) (cr p) -> In m (pseudo p) ->
  rights_prop (brd (make p m)) (cr (make p m)).
Proof.
  intros Hb Hcr (R1 & R2 & R3 & R4) Hm. pose proof (bi_stm p Hb) as Hc.
  destruct (pseudo_shape p m Hb Hm) as (Hf & Ht & _ & _ & _).
  assert (Hfrom : mtype m = CASTLING -> (stm p = 0 /\ mfrom m = 4) \/ (stm p = 1 /\ mfrom m = 60)).
  { intros E. destruct (pseudo_castle_class p m Hm E) as (_ & _ & _ & [(A & B & _)|(A & B & _)]); [left|right]; lia. }
  rewrite make_cr.
  assert (Hkey : forall bit x y K R, In (bit, x, y) [(1, 4, 7); (2, 4, 0); (4, 60, 63); (8, 60, 56)] ->
            (N.land (cr p) bit <> 0 -> at_ (brd p) x = K /\ at_ (brd p) y = R) ->
            K <> 0 -> type_of K <> PAWN -> K <> mk_piece (stm p) ROOK ->
            R <> 0 -> type_of R <> PAWN -> (mfrom m <> x -> mtype m = CASTLING -> R <> mk_piece (stm p) ROOK) ->
            x < 64 -> y < 64 ->
            N.land (N.ldiff (cr p) (N.lor (castling_by_square (mfrom m)) (castling_by_square (mto m)))) bit <> 0 ->
            at_ (brd (make p m)) x = K /\ at_ (brd (make p m)) y = R).
  { intros bit x y K R Hin HR HK0 HKp HKr HR0 HRp HRr Hx Hy Hs.
    destruct (right_survives _ _ _ _ _ _ Hcr Hf Ht Hin Hs) as (Hn & F1 & F2 & T1 & T2).
    destruct (HR Hn) as [Ex Ey]. split.
    - rewrite (make_keeps_square p m x Hb Hm Hx);
        [exact Ex|now apply not_eq_sym|now apply not_eq_sym|rewrite Ex; exact HK0|rewrite Ex; exact HKp|rewrite Ex; intros _; exact HKr].
    - rewrite (make_keeps_square p m y Hb Hm Hy);
        [exact Ey|now apply not_eq_sym|now apply not_eq_sym|rewrite Ey; exact HR0|rewrite Ey; exact HRp|rewrite Ey; intros E; now apply HRr]. }
  unfold rights_prop. split; [|split; [|split]].
  - apply (Hkey 1 4 7 1 5); [now left|exact R1|discriminate|discriminate|unfold mk_piece, ROOK; lia|discriminate|discriminate| |lia|lia].
    intros N1 E. destruct (Hfrom E) as [(A & B)|(A & B)]; [contradiction|]. rewrite A. discriminate.
  - apply (Hkey 2 4 0 1 5); [right; now left|exact R2|discriminate|discriminate|unfold mk_piece, ROOK; lia|discriminate|discriminate| |lia|lia].
    intros N1 E. destruct (Hfrom E) as [(A & B)|(A & B)]; [contradiction|]. rewrite A. discriminate.
  - apply (Hkey 4 60 63 9 13); [do 2 right; now left|exact R3|discriminate|discriminate|unfold mk_piece, ROOK; lia|discriminate|discriminate| |lia|lia].
    intros N1 E. destruct (Hfrom E) as [(A & B)|(A & B)]; [|contradiction]. rewrite A. discriminate.
  - apply (Hkey 8 60 56 9 13); [do 3 right; now left|exact R4|discriminate|discriminate|unfold mk_piece, ROOK; lia|discriminate|discriminate| |lia|lia].
    intros N1 E. destruct (Hfrom E) as [(A & B)|(A & B)]; [|contradiction]. rewrite A. discriminate.
Qed.

(** *** the en-passant clause of [legal_pos] (with the empty square behind the target) *)
Lemma make_ep_ok p m : binv p -> In m (pseudo p) -> ep_ok (make p m) = true.
Proof.
  intros Hb Hm. pose proof (bi_len p Hb) as Hl. pose proof (bi_stm p Hb) as Hc.
  destruct (pseudo_shape p m Hb Hm) as (Hf & Ht & Hnz & Hcol & Hsh).
  unfold ep_ok. cbv zeta. unfold piece_at. rewrite make_ep, make_stm.
  destruct Hsh as [_ _ E|_ _ _ _ E|u Hty Hpc Hs1 Hs2 Hu Hz Hr E|_ _ _ E|_ _ _ _ _ E|kf kt rf bit empties _ _ _ _ _ E];
    rewrite E; try reflexivity.
  destruct (double_push_facts _ _ _ _ Hc Hf Hr Hs1 Hs2) as (Hu64 & Ht64 & N1 & N2 & N3 & Hnum).
  rewrite make_brd_normal by exact Hty.
  replace (u =? 64) with false by lia.
  rewrite flip_flip by exact Hc. rewrite Hs2.
  assert (Hback : step (fwd (flip (stm p))) u = Some (mfrom m)).
  { assert (Hopp : fwd (flip (stm p)) = opp (fwd (stm p))).
    { assert (stm p = 0 \/ stm p = 1) as [C|C] by lia; rewrite C; reflexivity. }
    rewrite Hopp. now apply (step_opp (fwd (stm p)) (mfrom m) u Hf Hu64). }
  rewrite Hback.
  rewrite !at_put by (try lia; now rewrite ?put_length).
  replace (u =? mto m) with false by lia. replace (u =? mfrom m) with false by lia.
  rewrite !N.eqb_refl. replace (mfrom m =? mto m) with false by lia.
  rewrite Hu, Hpc, N.eqb_refl. cbn [andb N.eqb].
  rewrite rank_of_div. rewrite andb_true_r.
  destruct Hnum as [(C & _ & _ & Hr2)|(C & _ & _ & Hr2)]; rewrite C, Hr2; reflexivity.
Qed.

(** ** 3. [legal_pos] is kept by every legal move *)
Theorem make_preserves_legal_pos p m : legal_pos p = true -> In m (legal p) -> legal_pos (make p m) = true.
Proof.
  intros Hl Hm. pose proof (legal_pos_binv p Hl) as Hb.
  pose proof (legal_in_pseudo p m Hm) as Hps.
  pose proof (legal_keeps_binv p m Hb Hm) as Hb'.
  apply legal_pos_inv in Hl. destruct Hl as (_ & _ & _ & _ & Hc & Hcr & _ & Hpr & Hri & _).
  unfold legal_pos.
  rewrite (bi_len _ Hb'). cbn [Nat.eqb andb].
  replace (forallb (fun pc => existsb (N.eqb pc) [0;1;2;3;4;5;6;9;10;11;12;13;14]) (brd (make p m))) with true.
  2:{ symmetry. rewrite <- (bi_cells _ Hb'). apply forallb_ext'. intros pc. apply cell_list_ok. }
  change (mk_piece WHITE KING) with 1. change (mk_piece BLACK KING) with 9.
  rewrite (bi_wk _ Hb'), (bi_bk _ Hb'). cbn [Nat.eqb andb].
  pose proof (bi_stm _ Hb') as Hc'. replace (stm (make p m) <? 2) with true by lia.
  assert (Hcr' : cr (make p m) < 16).
  { rewrite make_cr. pose proof (ldiff_le (cr p) (N.lor (castling_by_square (mfrom m)) (castling_by_square (mto m)))). lia. }
  replace (cr (make p m) <? 16) with true by lia.
  rewrite (bi_chk _ Hb'). cbn [negb andb].
  rewrite (proj2 (okr_of_legal (make p m))) by (apply make_okr; [exact Hb|now apply okr_of_legal|exact Hps]).
  rewrite (proj2 (rights_ok_prop (make p m))) by (apply make_rights; [exact Hb|exact Hcr|now apply rights_ok_prop|exact Hps]).
  rewrite make_ep_ok by assumption. reflexivity.
Qed.

(** ** 4. every position reached by legal play from a legal position is legal *)
Inductive legal_line : pos -> list mv -> Prop :=
| ll_nil p : legal_line p []
| ll_cons p m ms : In m (legal p) -> legal_line (make p m) ms -> legal_line p (m :: ms).

Corollary reachable_legal_pos p ms : legal_pos p = true -> legal_line p ms ->
  legal_pos (fold_left make ms p) = true.
Proof.
  intros Hl Hline. induction Hline as [p|p m ms Hm _ IH]; cbn [fold_left]; [exact Hl|].
  apply IH. now apply make_preserves_legal_pos.
Qed.

Corollary reachable_safe_pos p ms : safe_pos p = true -> legal_line p ms ->
  safe_pos (fold_left make ms p) = true.
Proof.
  intros Hl Hline. induction Hline as [p|p m ms Hm _ IH]; cbn [fold_left]; [exact Hl|].
  apply IH. now apply legal_keeps_safe.
Qed.

(** ** non-vacuity: the hypotheses hold and the conclusions are checked by computation on
       the start position, Kiwipete, an en-passant position and a promotion position *)
Definition keeps_legal_check (q : pos) : bool :=
  legal_pos q && negb (length (legal q) =? 0)%nat && forallb (fun m => legal_pos (make q m)) (legal q)
  && forallb (fun m => negb (type_of (piece_at q (mto m)) =? KING)) (legal q).

Example ex_start : keeps_legal_check start_pos = true /\ length (legal start_pos) = 20%nat.
Proof. vm_compute. split; reflexivity. Qed.
Example ex_kiwipete : keeps_legal_check kiwipete = true /\ length (legal kiwipete) = 48%nat.
Proof. vm_compute. split; reflexivity. Qed.
(* an en-passant capture is among the legal moves, and it removes a pawn *)
Example ex_ep : keeps_legal_check ep_pos = true /\
  existsb (fun m => (mtype m =? ENPASSANT) &&
                    (piece_at ep_pos (mk_sq (file_of (mto m)) (rank_of (mfrom m))) =? mk_piece (flip (stm ep_pos)) PAWN))
          (legal ep_pos) = true.
Proof. vm_compute. split; reflexivity. Qed.
(* promotions (with and without capture) are among the legal moves *)
Example ex_promo : keeps_legal_check promo_pos = true /\
  length (filter (fun m => mtype m =? PROMOTION) (legal promo_pos)) = 12%nat.
Proof. vm_compute. split; reflexivity. Qed.
(* a double step sets the en-passant square; the successor is a legal position *)
Example ex_double_step :
  let q := make start_pos (mkmv 12 28 NORMAL 3) in
  In (mkmv 12 28 NORMAL 3) (legal start_pos) /\ ep q = 20 /\ legal_pos q = true.
Proof. vm_compute. split; [tauto|split; reflexivity]. Qed.
(* castling, and the loss of rights by a rook capture on its home square *)
Example ex_castle :
  let q := castle_pos in
  keeps_legal_check q = true /\
  cr (make q (mkmv 4 6 CASTLING 3)) = 12 /\ cr (make q (mkmv 7 63 NORMAL 3)) = 10 /\
  existsb (fun m => mtype m =? CASTLING) (legal q) = true.
Proof. vm_compute. repeat split; reflexivity. Qed.
(* [safe_pos] is strictly weaker than [legal_pos]: pawns on the back ranks, rights without rooks *)
Example ex_safe_not_legal :
  let q := mkpos (put (put (put (put (repeat 0 64) 4 1) 60 9) 0 10) 56 2) WHITE 15 64 0 1 in
  safe_pos q = true /\ legal_pos q = false /\ negb (length (legal q) =? 0)%nat = true /\
  forallb (fun m => safe_pos (make q m)) (legal q) = true.
Proof. vm_compute. repeat split; reflexivity. Qed.
(* a line of legal moves: 1. e4 e5 2. Nf3 *)
Example ex_line : legal_line start_pos [mkmv 12 28 NORMAL 3; mkmv 52 36 NORMAL 3; mkmv 6 21 NORMAL 3].
Proof.
  apply ll_cons; [vm_compute; tauto|]. apply ll_cons; [vm_compute; tauto|].
  apply ll_cons; [vm_compute; tauto|]. apply ll_nil.
Qed.

(** ** 5. colour symmetry of the rules: [Rules.mirror] (vertical flip, colours swapped)
       maps legal moves to legal moves and keeps perft.
       The square-by-square facts about [mirror] of EvalProofsA/B are reused (qualified). *)
From FG Require EvalImpl EvalProofsA EvalProofsB.

Local Notation msq := mirror_sq.
Local Notation mpc := mirror_piece.

Lemma binv_pos_ok p : binv p -> EvalImpl.pos_ok p = true.
Proof.
  intros Hb. unfold EvalImpl.pos_ok. rewrite (bi_len p Hb). pose proof (bi_stm p Hb).
  replace (stm p <? 2) with true by lia. cbn [Nat.eqb andb]. rewrite andb_true_r.
  rewrite <- (bi_cells p Hb). apply forallb_ext'. intros pc. apply cell_list_ok.
Qed.

Lemma msq_inv_all s : msq (msq s) = s.
Proof.
  destruct (N.lt_ge_cases s 64) as [H|H]; [now apply EvalProofsA.msq_inv|].
  unfold mirror_sq. replace (s <? 64) with false by lia. replace (s <? 64) with false by lia. reflexivity.
Qed.
Lemma msq_lt_iff s : msq s < 64 <-> s < 64.
Proof.
  split; intros H.
  - destruct (N.lt_ge_cases s 64) as [H'|H']; [exact H'|]. unfold mirror_sq in H. replace (s <? 64) with false in H by lia. lia.
  - now apply EvalProofsA.msq_lt.
Qed.
Lemma msq_inj s t : msq s = msq t -> s = t.
Proof. intros E. rewrite <- (msq_inv_all s), E. apply msq_inv_all. Qed.
Lemma msq_eqb s t : (msq s =? t) = (s =? msq t).
Proof.
  destruct (N.eqb_spec (msq s) t) as [E|E]; destruct (N.eqb_spec s (msq t)) as [E'|E']; try reflexivity; exfalso.
  - apply E'. rewrite <- E. symmetry. apply msq_inv_all.
  - apply E. rewrite E'. apply msq_inv_all.
Qed.
Lemma msq_arith s : s < 64 -> msq s = 8 * (7 - s / 8) + s mod 8.
Proof.
  intros Hs. apply N.eqb_eq.
  apply (forall_squares (fun s => msq s =? 8 * (7 - s / 8) + s mod 8)); [vm_compute; reflexivity|exact Hs].
Qed.

Lemma at_mirror_any p s : s < 64 -> at_ (brd (mirror p)) s = mpc (at_ (brd p) (msq s)).
Proof. intros Hs. exact (EvalProofsA.piece_at_mirror p s Hs). Qed.

Lemma mirror_len p : length (brd (mirror p)) = 64%nat.
Proof. unfold mirror. cbn [brd]. now rewrite map_length. Qed.

Section MirrorFacts.
Variable p : pos.
Hypothesis Hp : EvalImpl.pos_ok p = true.
Local Notation b := (brd p).
Local Notation b' := (brd (mirror p)).

Lemma vcode s : s < 64 -> EvalImpl.valid_code (at_ b s) = true.
Proof. intros Hs. exact (EvalProofsA.pos_ok_valid p s Hp Hs). Qed.

Lemma at_msq s : s < 64 -> at_ b' (msq s) = mpc (at_ b s).
Proof. intros Hs. exact (EvalProofsB.at_mirror p s Hs). Qed.

Lemma is_piece_msq s c t : s < 64 -> c < 2 -> 1 <= t <= 6 -> is_piece b' (msq s) (flip c) t = is_piece b s c t.
Proof.
  intros Hs Hc Ht.
  rewrite (EvalProofsB.is_piece_mirror p Hp s (flip c) t Hs); [now rewrite flip_flip|unfold flip; lia|].
  unfold EvalProofsA.types6. cbn. lia.
Qed.

Lemma existsb_map {A B} (f : B -> bool) (g : A -> B) l : existsb f (map g l) = existsb (fun x => f (g x)) l.
Proof. induction l as [|x l IH]; cbn [map existsb]; [reflexivity|now rewrite IH]. Qed.

(* existsb over a list of squares and over its mirror image *)
Lemma existsb_mirror_list (P P' : N -> bool) l l' :
  (forall x, In x l -> x < 64) -> (forall x, In x l' -> x < 64) ->
  (forall t, t < 64 -> EvalImpl.mem (msq t) l' = EvalImpl.mem t l) ->
  (forall t, t < 64 -> P' (msq t) = P t) -> existsb P' l' = existsb P l.
Proof.
  intros Hl Hl' Hmem HP. apply bool_eq_iff. rewrite !existsb_exists. unfold EvalImpl.mem in Hmem. split.
  - intros (x & Hx & HPx). pose proof (Hl' x Hx) as Hx64. exists (msq x). split.
    + apply existsb_eqb_In. rewrite <- Hmem by (now apply msq_lt_iff). rewrite msq_inv_all. now apply existsb_eqb_In.
    + rewrite <- HP by (now apply msq_lt_iff). now rewrite msq_inv_all.
  - intros (x & Hx & HPx). pose proof (Hl x Hx) as Hx64. exists (msq x). split.
    + apply existsb_eqb_In. rewrite Hmem by exact Hx64. now apply existsb_eqb_In.
    + now rewrite HP.
Qed.

Lemma last_map {A B} (f : A -> B) l d : last (map f l) (f d) = f (last l d).
Proof. induction l as [|x [|y l] IH]; cbn [map last] in *; try reflexivity. exact IH. Qed.

Lemma last_map_msq l : last (map msq l) 64 = msq (last l 64).
Proof. exact (last_map msq l 64). Qed.

Lemma slider_dir_mirror s c d t1 t2 : s < 64 -> c < 2 -> 1 <= t1 <= 6 -> 1 <= t2 <= 6 ->
  (let e := last (walkb 7 b' (EvalProofsB.vflip d) (msq s)) 64 in (e <? 64) && (is_piece b' e (flip c) t1 || is_piece b' e (flip c) t2))
  = (let e := last (walkb 7 b d s) 64 in (e <? 64) && (is_piece b e c t1 || is_piece b e c t2)).
Proof.
  intros Hs Hc H1 H2. cbv zeta.
  rewrite (EvalProofsB.walkb_mirror p Hp d 7 s Hs).
  rewrite last_map_msq.
  set (e := last (walkb 7 (brd p) d s) 64).
  destruct (N.ltb_spec e 64) as [He|He].
  - replace (msq e <? 64) with true by (symmetry; apply N.ltb_lt; now apply msq_lt_iff).
    now rewrite !is_piece_msq.
  - replace (msq e <? 64) with false; [reflexivity|]. symmetry. apply N.ltb_ge.
    destruct (N.lt_ge_cases (msq e) 64) as [H|H]; [apply (proj1 (msq_lt_iff e)) in H; lia|exact H].
Qed.

Lemma slider_hits_mirror s c dirs t1 t2 : s < 64 -> c < 2 -> 1 <= t1 <= 6 -> 1 <= t2 <= 6 ->
  In dirs [rook_dirs; bishop_dirs] ->
  slider_hits b' (msq s) (flip c) dirs t1 t2 = slider_hits b s c dirs t1 t2.
Proof.
  intros Hs Hc H1 H2 Hd. unfold slider_hits.
  pose proof (fun d => slider_dir_mirror s c d t1 t2 Hs Hc H1 H2) as W. cbv zeta in W.
  destruct Hd as [<-|[<-|[]]]; cbn [rook_dirs bishop_dirs existsb].
  - rewrite <- (W DN), <- (W DE), <- (W DS), <- (W DW). cbn [EvalProofsB.vflip]. btauto.
  - rewrite <- (W DNE), <- (W DSE), <- (W DSW), <- (W DNW). cbn [EvalProofsB.vflip]. btauto.
Qed.

Theorem attacked_mirror s c : s < 64 -> c < 2 -> attacked b' (msq s) (flip c) = attacked b s c.
Proof.
  intros Hs Hc. unfold attacked.
  rewrite !slider_hits_mirror by (try assumption; try (unfold ROOK, BISHOP, QUEEN; lia); cbn; tauto).
  f_equal. f_equal. f_equal. f_equal.
  - rewrite flip_flip by exact Hc.
    rewrite (EvalProofsB.pawn_targets_mirror c s Hc Hs), existsb_map.
    apply existsb_ext_in. intros t Ht. apply is_piece_msq; try assumption; [|unfold PAWN; lia].
    now apply (pawn_targets_lt (flip c) s).
  - apply existsb_mirror_list.
    + intros x. apply NotationProofs.knight_targets_lt.
    + intros x. apply NotationProofs.knight_targets_lt.
    + intros t Ht. now apply EvalProofsB.knight_targets_mirror.
    + intros t Ht. apply is_piece_msq; try assumption. unfold KNIGHT; lia.
  - apply existsb_mirror_list.
    + intros x. apply NotationProofs.king_targets_lt.
    + intros x. apply NotationProofs.king_targets_lt.
    + intros t Ht. now apply EvalProofsB.king_targets_mirror.
    + intros t Ht. apply is_piece_msq; try assumption. unfold KING; lia.
Qed.

(* the king: its square, the count, the check test *)
Lemma mpc_king c : c < 2 -> mpc (mk_piece c KING) = mk_piece (flip c) KING.
Proof. intros Hc. assert (c = 0 \/ c = 1) as [-> | ->] by lia; reflexivity. Qed.

Lemma king_filter_mirror c : c < 2 -> count_piece b (mk_piece c KING) = 1%nat ->
  filter (fun s => is_piece b' s (flip c) KING) squares64 = [msq (king_sq b c)].
Proof.
  intros Hc Hcnt. destruct (king_sq_spec b c Hcnt) as [Hk Hat].
  apply filter_unique.
  - apply squares64_NoDup.
  - apply NotationProofs.in_squares64. now apply msq_lt_iff.
  - rewrite is_piece_msq by (try assumption; unfold KING; lia). unfold is_piece. rewrite Hat. apply N.eqb_refl.
  - intros s Hs Hpc. apply squares64_lt in Hs.
    rewrite <- (msq_inv_all s) in Hpc. rewrite is_piece_msq in Hpc by (try assumption; try (now apply msq_lt_iff); unfold KING; lia).
    unfold is_piece in Hpc. apply N.eqb_eq in Hpc.
    pose proof (king_unique b c (msq s) Hcnt ltac:(now apply msq_lt_iff) Hpc) as E.
    rewrite E. symmetry. apply msq_inv_all.
Qed.

Lemma king_sq_mirror c : c < 2 -> count_piece b (mk_piece c KING) = 1%nat ->
  king_sq b' (flip c) = msq (king_sq b c).
Proof. intros Hc Hcnt. unfold king_sq. now rewrite king_filter_mirror. Qed.

Lemma king_count_mirror c : c < 2 -> count_piece b (mk_piece c KING) = 1%nat ->
  count_piece b' (mk_piece (flip c) KING) = 1%nat.
Proof.
  intros Hc Hcnt. unfold count_piece.
  change (fun s => at_ b' s =? mk_piece (flip c) KING) with (fun s => is_piece b' s (flip c) KING).
  now rewrite king_filter_mirror.
Qed.

Lemma in_check_mirror c : c < 2 -> count_piece b (mk_piece c KING) = 1%nat ->
  in_check_b b' (flip c) = in_check_b b c.
Proof.
  intros Hc Hcnt. unfold in_check_b. rewrite king_sq_mirror by assumption.
  destruct (king_sq_spec b c Hcnt) as [Hk _].
  apply attacked_mirror; [exact Hk|unfold flip; lia].
Qed.
End MirrorFacts.

(** [safe_pos] is symmetric *)
Lemma mirror_cr_lt c : c < 16 -> mirror_cr c < 16.
Proof. unfold mirror_cr. lia. Qed.

Lemma ep_cons_mirror p : binv p -> ep_cons (mirror p) = true.
Proof.
  intros Hb. pose proof (binv_pos_ok p Hb) as Hp. pose proof (bi_stm p Hb) as Hc.
  unfold ep_cons. cbv zeta. change (ep (mirror p)) with (msq (ep p)). change (stm (mirror p)) with (flip (stm p)).
  destruct (N.eq_dec (ep p) 64) as [E|E]; [rewrite E; reflexivity|].
  destruct (ep_cons_inv p (bi_ep p Hb) E) as (He & Hr & Hz & Hpawn).
  assert (Hm : msq (ep p) < 64) by (now apply msq_lt_iff).
  replace (msq (ep p) =? 64) with false by lia. replace (msq (ep p) <? 64) with true by lia. cbn [orb andb].
  rewrite (at_msq p (ep p) He), Hz. cbn [mirror_piece N.eqb andb]. rewrite andb_true_r.
  pose proof (msq_arith (ep p) He) as Ha.
  assert (stm p = 0 \/ stm p = 1) as [C|C] by lia; rewrite C in *; unfold flip;
    change (1 - 0) with 1; change (1 - 1) with 0; change (1 =? 0) with false; change (0 =? 0) with true; cbv iota;
    cbn [N.eqb] in Hr, Hpawn.
  - replace (msq (ep p) / 8 =? 2) with true by lia. cbn [andb].
    replace (msq (ep p) + 8) with (msq (ep p - 8)) by (rewrite (msq_arith (ep p - 8)) by lia; lia).
    rewrite (at_msq p (ep p - 8)) by lia. rewrite Hpawn. reflexivity.
  - replace (msq (ep p) / 8 =? 5) with true by lia. cbn [andb].
    replace (msq (ep p) - 8) with (msq (ep p + 8)) by (rewrite (msq_arith (ep p + 8)) by lia; lia).
    rewrite (at_msq p (ep p + 8)) by lia. rewrite Hpawn. reflexivity.
Qed.

Lemma binv_mirror p : binv p -> binv (mirror p).
Proof.
  intros Hb. pose proof (binv_pos_ok p Hb) as Hp. pose proof (bi_stm p Hb) as Hc.
  pose proof (EvalProofsA.pos_ok_mirror p Hp) as Hp'.
  apply mk_binv.
  - apply mirror_len.
  - unfold EvalImpl.pos_ok in Hp'. apply andb_true_iff in Hp' as [Hp' _]. apply andb_true_iff in Hp' as [_ Hv].
    rewrite <- Hv. apply forallb_ext'. intros pc. symmetry. apply cell_list_ok.
  - change 1 with (mk_piece (flip 1) KING). apply (king_count_mirror p Hp 1); [lia|exact (bi_bk p Hb)].
  - change 9 with (mk_piece (flip 0) KING). apply (king_count_mirror p Hp 0); [lia|exact (bi_wk p Hb)].
  - change (stm (mirror p)) with (flip (stm p)). unfold flip. lia.
  - change (stm (mirror p)) with (flip (stm p)).
    rewrite <- (bi_chk p Hb). apply (in_check_mirror p Hp (flip (stm p))); [unfold flip; lia|].
    apply binv_king; [exact Hb|unfold flip; lia].
  - now apply ep_cons_mirror.
Qed.

Theorem safe_pos_mirror p : safe_pos p = true -> safe_pos (mirror p) = true.
Proof.
  intros Hs. pose proof (safe_pos_binv p Hs) as Hb. apply safe_pos_inv in Hs. destruct Hs as (_ & _ & _ & _ & _ & Hcr & _).
  apply binv_safe_pos; [now apply binv_mirror|]. change (cr (mirror p)) with (mirror_cr (cr p)). now apply mirror_cr_lt.
Qed.

(** *** pseudo-legal moves of the mirrored position *)
(* introduction rules for [pawn_moves] and [castle_moves] (converse of the class lemmas) *)
Lemma adv_intro c s m : mfrom m = s -> promo_kind c m ->
  In m (if rank_of (mto m) =? last_rank c then promos s (mto m) else [mkmv s (mto m) NORMAL 3]).
Proof.
  destruct m as [f t ty pr]. cbn [mfrom mto mtype mprom]. unfold promo_kind. cbn [mfrom mto mtype mprom].
  intros -> [(-> & -> & Hr)|(-> & Hpr & Hr)].
  - replace (rank_of t =? last_rank c) with false by lia. now left.
  - rewrite Hr, N.eqb_refl. unfold promos, QUEEN, ROOK, BISHOP, KNIGHT, PROMOTION.
    assert (pr = 6 \/ pr = 5 \/ pr = 4 \/ pr = 3) as [-> |[-> |[-> | ->]]] by lia; cbn [In]; tauto.
Qed.

Lemma pawn_moves_intro p s m : mfrom m = s ->
  (let b := brd p in let c := stm p in let t := mto m in
   (promo_kind c m /\ at_ b t = 0 /\ step (fwd c) s = Some t)
   \/ (mtype m = 0 /\ mprom m = 3 /\ at_ b t = 0 /\ rank_of s = start_rank c /\
       exists u, step (fwd c) s = Some u /\ step (fwd c) u = Some t /\ at_ b u = 0)
   \/ (promo_kind c m /\ In t (pawn_attack_targets c s) /\ enemy b c t = true)
   \/ (mtype m = 2 /\ mprom m = 3 /\ In t (pawn_attack_targets c s) /\ enemy b c t = false /\
       t = ep p /\ at_ b t = 0)) ->
  In m (pawn_moves p s).
Proof.
  intros Hf H. cbv zeta in H. unfold pawn_moves. cbv zeta. apply in_or_app.
  destruct H as [(Hk & Hz & Hst)|[(Hty & Hpr & Hz & Hr & u & Hs1 & Hs2 & Hu)|[(Hk & Hin & Hen)|(Hty & Hpr & Hin & Hen & Hep & Hz)]]].
  - left. rewrite Hst, Hz, N.eqb_refl. apply in_or_app. left. now apply adv_intro.
  - left. rewrite Hs1, Hu, N.eqb_refl. apply in_or_app. right.
    rewrite Hr, N.eqb_refl, Hs2, Hz, N.eqb_refl. left.
    destruct m as [f t ty pr]. cbn [mfrom mto mtype mprom] in *. now subst.
  - right. apply in_flat_map. exists (mto m). split; [exact Hin|]. rewrite Hen. now apply adv_intro.
  - right. apply in_flat_map. exists (mto m). split; [exact Hin|]. rewrite Hen.
    rewrite <- Hep, N.eqb_refl, Hz, N.eqb_refl. cbn [andb]. left.
    destruct m as [f t ty pr]. cbn [mfrom mto mtype mprom] in *. now subst.
Qed.

Lemma castle_moves_inv p m : In m (castle_moves p) ->
  exists kf kt rf bit empties, In (kf, kt, rf, bit, empties) (castles (stm p)) /\ m = mkmv kf kt CASTLING 3 /\
    N.land (cr p) bit <> 0 /\ is_piece (brd p) kf (stm p) KING = true /\ is_piece (brd p) rf (stm p) ROOK = true /\
    forallb (fun s => at_ (brd p) s =? 0) empties = true.
Proof.
  unfold castle_moves. intros H. apply in_flat_map in H as [[[[[kf kt] rf] bit] empties] [Hc H]].
  destruct (negb (N.land (cr p) bit =? 0) && is_piece (brd p) kf (stm p) KING && is_piece (brd p) rf (stm p) ROOK
            && forallb (fun s => at_ (brd p) s =? 0) empties) eqn:E; [|destruct H].
  destruct H as [<-|[]]. apply andb_true_iff in E as [E E4]. apply andb_true_iff in E as [E E3].
  apply andb_true_iff in E as [E1 E2]. apply negb_true_iff, N.eqb_neq in E1.
  exists kf, kt, rf, bit, empties. tauto.
Qed.

Lemma castle_moves_intro p kf kt rf bit empties :
  In (kf, kt, rf, bit, empties) (castles (stm p)) -> N.land (cr p) bit <> 0 ->
  is_piece (brd p) kf (stm p) KING = true -> is_piece (brd p) rf (stm p) ROOK = true ->
  forallb (fun s => at_ (brd p) s =? 0) empties = true ->
  In (mkmv kf kt CASTLING 3) (castle_moves p).
Proof.
  intros Hin Hbit Hk Hr He. unfold castle_moves. apply in_flat_map.
  exists (kf, kt, rf, bit, empties). split; [exact Hin|]. cbv beta iota.
  apply N.eqb_neq in Hbit. rewrite Hbit, Hk, Hr, He. now left.
Qed.

(* finite facts about the mirror *)
Lemma foe_mirror_check :
  forallb (fun c => forallb (fun pc =>
     Bool.eqb ((mpc pc =? 0) || negb (colour_of (mpc pc) =? flip c)) ((pc =? 0) || negb (colour_of pc =? c))
     && Bool.eqb (negb (mpc pc =? 0) && negb (colour_of (mpc pc) =? flip c)) (negb (pc =? 0) && negb (colour_of pc =? c)))
     EvalProofsA.valid_codes) EvalProofsA.two = true.
Proof. vm_compute. reflexivity. Qed.

Lemma rank_mirror_check :
  forallb (fun c => forallb (fun t =>
     Bool.eqb (rank_of (msq t) =? last_rank (flip c)) (rank_of t =? last_rank c)
     && Bool.eqb (rank_of (msq t) =? start_rank (flip c)) (rank_of t =? start_rank c)) squares64) EvalProofsA.two = true.
Proof. vm_compute. reflexivity. Qed.

Lemma rank_last_mirror c t : c < 2 -> t < 64 -> (rank_of (msq t) =? last_rank (flip c)) = (rank_of t =? last_rank c).
Proof.
  intros Hc Ht. pose proof (forall_squares _ (EvalProofsA.forall_two _ rank_mirror_check c Hc) t Ht) as H.
  cbv beta in H. apply andb_true_iff in H as [H _]. now apply Bool.eqb_prop in H.
Qed.
Lemma rank_start_mirror c t : c < 2 -> t < 64 -> (rank_of (msq t) =? start_rank (flip c)) = (rank_of t =? start_rank c).
Proof.
  intros Hc Ht. pose proof (forall_squares _ (EvalProofsA.forall_two _ rank_mirror_check c Hc) t Ht) as H.
  cbv beta in H. apply andb_true_iff in H as [_ H]. now apply Bool.eqb_prop in H.
Qed.

Lemma mirror_cr_bits c : c < 16 ->
  (N.land (mirror_cr c) 4 =? 0) = (N.land c 1 =? 0) /\ (N.land (mirror_cr c) 8 =? 0) = (N.land c 2 =? 0) /\
  (N.land (mirror_cr c) 1 =? 0) = (N.land c 4 =? 0) /\ (N.land (mirror_cr c) 2 =? 0) = (N.land c 8 =? 0).
Proof.
  intros Hc.
  assert (G : forallb (fun c => Bool.eqb (N.land (mirror_cr c) 4 =? 0) (N.land c 1 =? 0) && Bool.eqb (N.land (mirror_cr c) 8 =? 0) (N.land c 2 =? 0)
              && Bool.eqb (N.land (mirror_cr c) 1 =? 0) (N.land c 4 =? 0) && Bool.eqb (N.land (mirror_cr c) 2 =? 0) (N.land c 8 =? 0))
              (map N.of_nat (seq 0 16)) = true) by (vm_compute; reflexivity).
  rewrite forallb_forall in G.
  assert (Hin : In c (map N.of_nat (seq 0 16))).
  { apply in_map_iff. exists (N.to_nat c). split; [apply N2Nat.id|apply in_seq; lia]. }
  specialize (G c Hin). repeat (apply andb_true_iff in G as [G ?]).
  repeat split; now apply Bool.eqb_prop.
Qed.

Section MirrorMoves.
Variable p : pos.
Hypothesis Hp : EvalImpl.pos_ok p = true.
Hypothesis Hc : stm p < 2.
Hypothesis Hcr : cr p < 16.
Local Notation b := (brd p).
Local Notation b' := (brd (mirror p)).
Local Notation c := (stm p).

Lemma foe_mirror t : t < 64 -> free_or_enemy b' (flip c) (msq t) = free_or_enemy b c t.
Proof.
  intros Ht. unfold free_or_enemy. cbv zeta. rewrite (at_msq p t Ht).
  pose proof (EvalProofsA.forall_valid _ (EvalProofsA.forall_two _ foe_mirror_check c Hc) (at_ b t) (vcode p Hp t Ht)) as H.
  cbv beta in H. apply andb_true_iff in H as [H _]. now apply Bool.eqb_prop in H.
Qed.
Lemma enemy_mirror t : t < 64 -> enemy b' (flip c) (msq t) = enemy b c t.
Proof.
  intros Ht. unfold enemy. cbv zeta. rewrite (at_msq p t Ht).
  pose proof (EvalProofsA.forall_valid _ (EvalProofsA.forall_two _ foe_mirror_check c Hc) (at_ b t) (vcode p Hp t Ht)) as H.
  cbv beta in H. apply andb_true_iff in H as [_ H]. now apply Bool.eqb_prop in H.
Qed.

Lemma fwd_mirror : fwd (flip c) = EvalProofsB.vflip (fwd c).
Proof. rewrite (EvalProofsB.fwd_flip (flip c)) by (unfold flip; lia). now rewrite flip_flip. Qed.

Lemma step_fwd_mirror s t : s < 64 -> step (fwd c) s = Some t -> step (fwd (flip c)) (msq s) = Some (msq t).
Proof. intros Hs H. rewrite fwd_mirror, EvalProofsB.step_vflip by exact Hs. now rewrite H. Qed.

Lemma pat_mirror s t : s < 64 -> In t (pawn_attack_targets c s) -> In (msq t) (pawn_attack_targets (flip c) (msq s)).
Proof.
  intros Hs H. rewrite (EvalProofsB.pawn_targets_mirror (flip c) s) by (try assumption; unfold flip; lia).
  rewrite flip_flip by exact Hc. now apply in_map.
Qed.

Lemma promo_kind_mirror m : mto m < 64 -> promo_kind c m -> promo_kind (flip c) (mirror_mv m).
Proof.
  intros Ht. unfold promo_kind. cbn [mirror_mv mto mtype mprom].
  pose proof (rank_last_mirror c (mto m) Hc Ht) as E.
  intros [(H1 & H2 & H3)|(H1 & H2 & H3)]; [left|right]; repeat split; try assumption; lia.
Qed.

Lemma pawn_moves_mirror s m : s < 64 -> In m (pawn_moves p s) -> In (mirror_mv m) (pawn_moves (mirror p) (msq s)).
Proof.
  intros Hs H. apply pawn_moves_class in H. destruct H as (Hf & H). cbv zeta in H.
  apply pawn_moves_intro; [cbn [mirror_mv mfrom]; now rewrite Hf|]. cbv zeta.
  change (stm (mirror p)) with (flip c). change (ep (mirror p)) with (msq (ep p)). cbn [mirror_mv mto mtype mprom].
  destruct H as [(Hk & Hz & Hst)|[(Hty & Hpr & Hz & Hr & u & Hs1 & Hs2 & Hu)|[(Hk & Hin & Hen)|(Hty & Hpr & Hin & Hen & Hep & Hz)]]].
  - pose proof (NotationProofs.step_lt _ _ _ Hst) as Ht. left. split; [now apply promo_kind_mirror|]. split.
    + rewrite (at_msq p _ Ht), Hz. reflexivity.
    + now apply step_fwd_mirror.
  - pose proof (NotationProofs.step_lt _ _ _ Hs1) as Hu64. pose proof (NotationProofs.step_lt _ _ _ Hs2) as Ht.
    right. left. split; [exact Hty|]. split; [exact Hpr|]. split; [rewrite (at_msq p _ Ht), Hz; reflexivity|]. split.
    + pose proof (rank_start_mirror c s Hc Hs) as E. lia.
    + exists (msq u). split; [now apply step_fwd_mirror|]. split; [now apply step_fwd_mirror|].
      rewrite (at_msq p _ Hu64), Hu. reflexivity.
  - pose proof (pawn_targets_lt c s (mto m) Hin) as Ht.
    right. right. left. split; [now apply promo_kind_mirror|]. split; [now apply pat_mirror|]. now rewrite enemy_mirror.
  - pose proof (pawn_targets_lt c s (mto m) Hin) as Ht.
    right. right. right. split; [exact Hty|]. split; [exact Hpr|]. split; [now apply pat_mirror|]. split; [now rewrite enemy_mirror|].
    split; [now rewrite Hep|]. rewrite (at_msq p _ Ht), Hz. reflexivity.
Qed.

Lemma simple_mirror s ts ts' m : (forall t, In t ts -> t < 64) ->
  (forall t, t < 64 -> EvalImpl.mem (msq t) ts' = EvalImpl.mem t ts) ->
  In m (map (fun t => mkmv s t NORMAL 3) (filter (free_or_enemy b c) ts)) ->
  In (mirror_mv m) (map (fun t => mkmv (msq s) t NORMAL 3) (filter (free_or_enemy b' (flip c)) ts')).
Proof.
  intros Hlt Hmem H. apply in_map_iff in H as (t & <- & Ht). apply filter_In in Ht as [Hin Hfe].
  pose proof (Hlt t Hin) as Ht64. apply in_map_iff. exists (msq t). split; [reflexivity|].
  apply filter_In. split; [|now rewrite foe_mirror].
  apply existsb_eqb_In. change (EvalImpl.mem (msq t) ts' = true). rewrite Hmem by exact Ht64. now apply existsb_eqb_In.
Qed.

Lemma piece_moves_mirror s m : s < 64 -> In m (piece_moves p s) -> In (mirror_mv m) (piece_moves (mirror p) (msq s)).
Proof.
  intros Hs. unfold piece_moves. cbv zeta. change (stm (mirror p)) with (flip c).
  pose proof (foe_mirror s Hs) as Hg. unfold free_or_enemy in Hg. cbv zeta in Hg. rewrite Hg.
  destruct ((at_ b s =? 0) || negb (colour_of (at_ b s) =? c)); [intros []|].
  rewrite (EvalProofsB.type_at_mirror p Hp s Hs).
  destruct (type_of (at_ b s) =? PAWN); [now apply pawn_moves_mirror|].
  destruct (type_of (at_ b s) =? KNIGHT).
  { apply simple_mirror; [apply NotationProofs.knight_targets_lt|]. intros t Ht. now apply EvalProofsB.knight_targets_mirror. }
  destruct (type_of (at_ b s) =? KING).
  { apply simple_mirror; [apply NotationProofs.king_targets_lt|]. intros t Ht. now apply EvalProofsB.king_targets_mirror. }
  destruct (type_of (at_ b s) =? ROOK).
  { apply simple_mirror; [intros t; apply NotationProofs.rays_from_lt|]. intros t Ht. apply EvalProofsB.rays_mirror; try assumption. cbn; tauto. }
  destruct (type_of (at_ b s) =? BISHOP).
  { apply simple_mirror; [intros t; apply NotationProofs.rays_from_lt|]. intros t Ht. apply EvalProofsB.rays_mirror; try assumption. cbn; tauto. }
  destruct (type_of (at_ b s) =? QUEEN); [|intros []].
  { apply simple_mirror; [intros t; apply NotationProofs.rays_from_lt|]. intros t Ht. apply EvalProofsB.rays_mirror; try assumption. cbn; tauto. }
Qed.

Lemma empties_mirror l : (forall x, In x l -> x < 64) -> forallb (fun s => at_ b s =? 0) l = true ->
  forallb (fun s => at_ b' s =? 0) (map msq l) = true.
Proof.
  intros Hl H. rewrite forallb_forall in *. intros x Hx. apply in_map_iff in Hx as (y & <- & Hy).
  rewrite (at_msq p y (Hl y Hy)). specialize (H y Hy). apply N.eqb_eq in H. now rewrite H.
Qed.

Lemma castle_moves_mirror m : In m (castle_moves p) -> In (mirror_mv m) (castle_moves (mirror p)).
Proof.
  intros H. apply castle_moves_inv in H as (kf & kt & rf & bit & empties & Hin & -> & Hbit & Hk & Hr & He).
  destruct (mirror_cr_bits (cr p) Hcr) as (B4 & B8 & B1 & B2).
  assert (Hsm : stm (mirror p) = flip c) by reflexivity.
  destruct (castles_cases p kf kt rf bit empties Hc Hin) as [C|[C|[C|C]]];
    destruct C as (Hs & -> & -> & -> & -> & ->); cbn [mirror_mv mfrom mto mtype mprom];
    rewrite Hs in Hk, Hr.
  - apply (castle_moves_intro (mirror p) (msq 4) (msq 6) (msq 7) 4 (map msq [5; 6])).
    + rewrite Hsm, Hs. cbn. tauto.
    + change (cr (mirror p)) with (mirror_cr (cr p)). apply N.eqb_neq. rewrite B4. now apply N.eqb_neq.
    + rewrite Hsm, Hs. change (flip 0) with (flip 0). rewrite (is_piece_msq p Hp 4 0) by (try lia; unfold KING; lia). exact Hk.
    + rewrite Hsm, Hs. rewrite (is_piece_msq p Hp 7 0) by (try lia; unfold ROOK; lia). exact Hr.
    + apply empties_mirror; [|exact He]. cbn. intros x [<-|[<-|[]]]; lia.
  - apply (castle_moves_intro (mirror p) (msq 4) (msq 2) (msq 0) 8 (map msq [1; 2; 3])).
    + rewrite Hsm, Hs. cbn. tauto.
    + change (cr (mirror p)) with (mirror_cr (cr p)). apply N.eqb_neq. rewrite B8. now apply N.eqb_neq.
    + rewrite Hsm, Hs. rewrite (is_piece_msq p Hp 4 0) by (try lia; unfold KING; lia). exact Hk.
    + rewrite Hsm, Hs. rewrite (is_piece_msq p Hp 0 0) by (try lia; unfold ROOK; lia). exact Hr.
    + apply empties_mirror; [|exact He]. cbn. intros x [<-|[<-|[<-|[]]]]; lia.
  - apply (castle_moves_intro (mirror p) (msq 60) (msq 62) (msq 63) 1 (map msq [61; 62])).
    + rewrite Hsm, Hs. cbn. tauto.
    + change (cr (mirror p)) with (mirror_cr (cr p)). apply N.eqb_neq. rewrite B1. now apply N.eqb_neq.
    + rewrite Hsm, Hs. rewrite (is_piece_msq p Hp 60 1) by (try lia; unfold KING; lia). exact Hk.
    + rewrite Hsm, Hs. rewrite (is_piece_msq p Hp 63 1) by (try lia; unfold ROOK; lia). exact Hr.
    + apply empties_mirror; [|exact He]. cbn. intros x [<-|[<-|[]]]; lia.
  - apply (castle_moves_intro (mirror p) (msq 60) (msq 58) (msq 56) 2 (map msq [57; 58; 59])).
    + rewrite Hsm, Hs. cbn. tauto.
    + change (cr (mirror p)) with (mirror_cr (cr p)). apply N.eqb_neq. rewrite B2. now apply N.eqb_neq.
    + rewrite Hsm, Hs. rewrite (is_piece_msq p Hp 60 1) by (try lia; unfold KING; lia). exact Hk.
    + rewrite Hsm, Hs. rewrite (is_piece_msq p Hp 56 1) by (try lia; unfold ROOK; lia). exact Hr.
    + apply empties_mirror; [|exact He]. cbn. intros x [<-|[<-|[<-|[]]]]; lia.
Qed.

Theorem pseudo_mirror m : In m (pseudo p) -> In (mirror_mv m) (pseudo (mirror p)).
Proof.
  unfold pseudo. intros H. apply in_or_app. apply in_app_or in H as [H|H].
  - left. apply in_flat_map in H as (s & Hs & H). apply squares64_lt in Hs.
    apply in_flat_map. exists (msq s). split; [apply NotationProofs.in_squares64; now apply msq_lt_iff|].
    now apply piece_moves_mirror.
  - right. now apply castle_moves_mirror.
Qed.
End MirrorMoves.

(** *** the part of a position the rules look at (not the clocks) *)
Definition core (q : pos) : list N * N * N * N := (brd q, stm q, cr q, ep q).

Lemma legal_core p q : core p = core q -> legal p = legal q.
Proof.
  destruct p as [b1 s1 c1 e1 h1 f1], q as [b2 s2 c2 e2 h2 f2]. unfold core. cbn [brd stm cr ep].
  intros E. injection E as -> -> -> ->. reflexivity.
Qed.
Lemma make_core p q m : core p = core q -> core (make p m) = core (make q m).
Proof.
  destruct p as [b1 s1 c1 e1 h1 f1], q as [b2 s2 c2 e2 h2 f2]. unfold core at 1 2. cbn [brd stm cr ep].
  intros E. injection E as -> -> -> ->. reflexivity.
Qed.
Lemma perft_core d : forall p q, core p = core q -> perft d p = perft d q.
Proof.
  induction d as [|k IH]; intros p q E; cbn [perft]; [reflexivity|].
  rewrite (legal_core p q E). induction (legal q) as [|m l IHl]; cbn [fold_right]; [reflexivity|].
  rewrite IHl. f_equal. apply IH. now apply make_core.
Qed.
Lemma safe_pos_core p q : core p = core q -> safe_pos p = safe_pos q.
Proof.
  destruct p as [b1 s1 c1 e1 h1 f1], q as [b2 s2 c2 e2 h2 f2]. unfold core. cbn [brd stm cr ep].
  intros E. injection E as -> -> -> ->. reflexivity.
Qed.

Lemma board_ext (b1 b2 : list N) : length b1 = 64%nat -> length b2 = 64%nat ->
  (forall s, s < 64 -> at_ b1 s = at_ b2 s) -> b1 = b2.
Proof.
  intros H1 H2 H. apply list_ext_nth; [congruence|]. intros k Hk.
  specialize (H (N.of_nat k) ltac:(lia)). unfold at_ in H. now rewrite Nat2N.id in H.
Qed.

(** *** mirror is an involution (on the core) *)
Lemma mpc_inv pc : cell_ok pc = true -> mpc (mpc pc) = pc.
Proof.
  intros H. rewrite <- cell_list_ok in H. apply N.eqb_eq. revert pc H.
  apply EvalProofsA.forall_valid. vm_compute. reflexivity.
Qed.
Lemma mirror_cr_inv c : c < 16 -> mirror_cr (mirror_cr c) = c.
Proof. unfold mirror_cr. lia. Qed.

Lemma mirror_mirror p : length (brd p) = 64%nat -> forallb cell_ok (brd p) = true -> stm p < 2 -> cr p < 16 ->
  core (mirror (mirror p)) = core p.
Proof.
  intros Hl Hcl Hc Hcr. unfold core. f_equal; [f_equal; [f_equal|]|].
  - apply board_ext; [apply mirror_len|exact Hl|]. intros s Hs.
    rewrite at_mirror_any by exact Hs. rewrite at_mirror_any by (now apply msq_lt_iff).
    rewrite msq_inv_all. apply mpc_inv. now apply cell_at.
  - change (flip (flip (stm p)) = stm p). now apply flip_flip.
  - change (mirror_cr (mirror_cr (cr p)) = cr p). now apply mirror_cr_inv.
  - change (msq (msq (ep p)) = ep p). apply msq_inv_all.
Qed.

Lemma mirror_mv_inv m : mirror_mv (mirror_mv m) = m.
Proof. destruct m as [f t ty pr]. unfold mirror_mv. cbn [mfrom mto mtype mprom]. now rewrite !msq_inv_all. Qed.
Lemma mirror_mv_inj x y : mirror_mv x = mirror_mv y -> x = y.
Proof. intros E. rewrite <- (mirror_mv_inv x), E. apply mirror_mv_inv. Qed.

(** *** making the mirrored move in the mirrored position *)
Lemma move_mirror_check :
  forallb (fun f => forallb (fun t =>
     (mk_sq (file_of (msq t)) (rank_of (msq f)) =? msq (mk_sq (file_of t) (rank_of f)))
     && ((if zabs_diff (rank_of (msq f)) (rank_of (msq t)) =? 2
          then mk_sq (file_of (msq f)) ((rank_of (msq f) + rank_of (msq t)) / 2) else 64)
         =? msq (if zabs_diff (rank_of f) (rank_of t) =? 2 then mk_sq (file_of f) ((rank_of f + rank_of t) / 2) else 64))
     && forallb (fun c => mirror_cr (N.ldiff c (N.lor (castling_by_square f) (castling_by_square t)))
                          =? N.ldiff (mirror_cr c) (N.lor (castling_by_square (msq f)) (castling_by_square (msq t))))
                (map N.of_nat (seq 0 16))) squares64) squares64 = true.
Proof. vm_compute. reflexivity. Qed.

Lemma move_mirror_facts f t c : f < 64 -> t < 64 -> c < 16 ->
  mk_sq (file_of (msq t)) (rank_of (msq f)) = msq (mk_sq (file_of t) (rank_of f)) /\
  (if zabs_diff (rank_of (msq f)) (rank_of (msq t)) =? 2
   then mk_sq (file_of (msq f)) ((rank_of (msq f) + rank_of (msq t)) / 2) else 64)
  = msq (if zabs_diff (rank_of f) (rank_of t) =? 2 then mk_sq (file_of f) ((rank_of f + rank_of t) / 2) else 64) /\
  mirror_cr (N.ldiff c (N.lor (castling_by_square f) (castling_by_square t)))
  = N.ldiff (mirror_cr c) (N.lor (castling_by_square (msq f)) (castling_by_square (msq t))).
Proof.
  intros Hf Ht Hc. pose proof (forall_squares _ (forall_squares _ move_mirror_check f Hf) t Ht) as H. cbv beta in H.
  apply andb_true_iff in H as [H H3]. apply andb_true_iff in H as [H1 H2].
  apply N.eqb_eq in H1, H2. split; [exact H1|]. split; [exact H2|].
  rewrite forallb_forall in H3. apply N.eqb_eq. apply H3.
  apply in_map_iff. exists (N.to_nat c). split; [apply N2Nat.id|apply in_seq; lia].
Qed.

Lemma mpc_mk c t : c < 2 -> 1 <= t <= 6 -> mpc (mk_piece c t) = mk_piece (flip c) t.
Proof.
  intros Hc Ht. assert (c = 0 \/ c = 1) as [-> | ->] by lia;
    assert (t = 1 \/ t = 2 \/ t = 3 \/ t = 4 \/ t = 5 \/ t = 6) as [-> |[-> |[-> |[-> |[-> | ->]]]]] by lia; reflexivity.
Qed.

(* pointwise: a board after two / three / four [put]s *)
Lemma at_put2 b0 f t v s : length b0 = 64%nat -> f < 64 -> t < 64 ->
  at_ (put (put b0 f 0) t v) s = if s =? t then v else if s =? f then 0 else at_ b0 s.
Proof. intros Hl Hf Ht. rewrite !at_put by (try assumption; now rewrite ?put_length). reflexivity. Qed.

Section MirrorMake.
Variable p : pos.
Hypothesis Hb : binv p.
Hypothesis Hcr : cr p < 16.
Local Notation b := (brd p).
Local Notation b' := (brd (mirror p)).
Local Notation c := (stm p).

Let Hp : EvalImpl.pos_ok p = true := binv_pos_ok p Hb.
Let Hc : c < 2 := bi_stm p Hb.
Let Hl : length b = 64%nat := bi_len p Hb.

Lemma make_mirror_brd m : In m (pseudo p) -> brd (make (mirror p) (mirror_mv m)) = brd (mirror (make p m)).
Proof.
  intros Hm. destruct (pseudo_shape p m Hb Hm) as (Hf & Ht & Hnz & Hcol & Hsh).
  pose proof (make_len p m Hb Hm) as Hlen.
  pose proof (mirror_len p) as Hl'.
  assert (Hf' : msq (mfrom m) < 64) by (now apply msq_lt_iff).
  assert (Ht' : msq (mto m) < 64) by (now apply msq_lt_iff).
  apply board_ext; [|apply mirror_len|].
  { pose proof (binv_mirror p Hb) as Hb'. pose proof (bi_len _ Hb') as L.
    destruct m as [f t ty pr]. unfold make, mirror_mv. cbn [brd mfrom mto mtype mprom].
    destruct (ty =? ENPASSANT); [now rewrite !put_length|].
    destruct (ty =? CASTLING); [destruct (rook_castle_squares (msq t)); now rewrite !put_length|now rewrite !put_length]. }
  intros s Hs. rewrite (at_mirror_any (make p m) s Hs).
  assert (Hs' : msq s < 64) by (now apply msq_lt_iff).
  assert (Hnorm : forall v, at_ (put (put b' (msq (mfrom m)) 0) (msq (mto m)) (mpc v)) s
                            = mpc (at_ (put (put b (mfrom m) 0) (mto m) v) (msq s))).
  { intros v. rewrite !at_put2 by assumption. rewrite !msq_eqb.
    destruct (s =? msq (mto m)); [reflexivity|]. destruct (s =? msq (mfrom m)); [reflexivity|].
    now apply at_mirror_any. }
  assert (Hfrom : at_ b' (msq (mfrom m)) = mpc (at_ b (mfrom m))) by (now apply at_msq).
  destruct Hsh as [Hty _ _|Hty _ _ _ _|u Hty _ _ _ _ _ _ _|Hty Hpw Hpr _|Hty Hpc Hep Hz Hin _|kf kt rf bit empties Hin E Hkf Hrf He _].
  - rewrite (make_brd_normal p m Hty), (make_brd_normal (mirror p) (mirror_mv m) Hty). cbn [mirror_mv mfrom mto]. rewrite Hfrom. apply Hnorm.
  - rewrite (make_brd_normal p m Hty), (make_brd_normal (mirror p) (mirror_mv m) Hty). cbn [mirror_mv mfrom mto]. rewrite Hfrom. apply Hnorm.
  - rewrite (make_brd_normal p m Hty), (make_brd_normal (mirror p) (mirror_mv m) Hty). cbn [mirror_mv mfrom mto]. rewrite Hfrom. apply Hnorm.
  - rewrite (make_brd_prom p m Hty), (make_brd_prom (mirror p) (mirror_mv m) Hty). cbn [mirror_mv mfrom mto mprom].
    change (stm (mirror p)) with (flip c). rewrite <- mpc_mk by (try assumption; lia). apply Hnorm.
  - rewrite (make_brd_ep p m Hty), (make_brd_ep (mirror p) (mirror_mv m) Hty). cbn [mirror_mv mfrom mto]. rewrite Hfrom.
    destruct (move_mirror_facts (mfrom m) (mto m) 0 Hf Ht ltac:(lia)) as (Hsq & _ & _). rewrite Hsq.
    destruct (pseudo_ep_captures_pawn p m Hb Hm Hty) as (Hsq64 & _).
    rewrite (at_put _ (msq _) 0 s) by (try (now apply msq_lt_iff); now rewrite !put_length).
    rewrite (at_put _ (mk_sq _ _) 0 (msq s)) by (try assumption; now rewrite !put_length).
    rewrite msq_eqb. destruct (s =? msq (mk_sq (file_of (mto m)) (rank_of (mfrom m)))); [reflexivity|]. apply Hnorm.
  - rewrite (make_brd_castle p m) by (rewrite E; reflexivity).
    rewrite (make_brd_castle (mirror p) (mirror_mv m)) by (rewrite E; reflexivity).
    change (stm (mirror p)) with (flip c). rewrite <- (mpc_mk c ROOK) by (try assumption; unfold ROOK; lia).
    subst m. cbn [mirror_mv mfrom mto] in *. rewrite Hfrom.
    destruct (castles_cases p kf kt rf bit empties Hc Hin) as [C|[C|[C|C]]];
      destruct C as (Hst & -> & -> & -> & -> & ->); cbn [rook_castle_squares N.eqb Pos.eqb fst snd mirror_sq N.ltb N.compare Pos.compare Pos.compare_cont N.lxor Pos.lxor Pos.succ Pos.pred_double].
    + change (msq 6) with 62. change (msq 4) with 60. cbn [rook_castle_squares N.eqb Pos.eqb fst snd].
      change 63 with (msq 7). change 61 with (msq 5). change 62 with (msq 6). change 60 with (msq 4).
      rewrite (at_put _ (msq 5) _ s), (at_put _ (msq 7) _ s) by (try (vm_compute; reflexivity); now rewrite ?put_length).
      rewrite (at_put _ 5 _ (msq s)), (at_put _ 7 _ (msq s)) by (try lia; now rewrite ?put_length).
      rewrite !msq_eqb. destruct (s =? msq 5); [reflexivity|]. destruct (s =? msq 7); [reflexivity|]. apply Hnorm.
    + change (msq 2) with 58. change (msq 4) with 60. cbn [rook_castle_squares N.eqb Pos.eqb fst snd].
      change 56 with (msq 0). change 59 with (msq 3). change 58 with (msq 2). change 60 with (msq 4).
      rewrite (at_put _ (msq 3) _ s), (at_put _ (msq 0) _ s) by (try (vm_compute; reflexivity); now rewrite ?put_length).
      rewrite (at_put _ 3 _ (msq s)), (at_put _ 0 _ (msq s)) by (try lia; now rewrite ?put_length).
      rewrite !msq_eqb. destruct (s =? msq 3); [reflexivity|]. destruct (s =? msq 0); [reflexivity|]. apply Hnorm.
    + change (msq 62) with 6. change (msq 60) with 4. cbn [rook_castle_squares N.eqb Pos.eqb fst snd].
      change 7 with (msq 63). change 5 with (msq 61). change 6 with (msq 62). change 4 with (msq 60).
      rewrite (at_put _ (msq 61) _ s), (at_put _ (msq 63) _ s) by (try (vm_compute; reflexivity); now rewrite ?put_length).
      rewrite (at_put _ 61 _ (msq s)), (at_put _ 63 _ (msq s)) by (try lia; now rewrite ?put_length).
      rewrite !msq_eqb. destruct (s =? msq 61); [reflexivity|]. destruct (s =? msq 63); [reflexivity|]. apply Hnorm.
    + change (msq 58) with 2. change (msq 60) with 4. cbn [rook_castle_squares N.eqb Pos.eqb fst snd].
      change 0 with (msq 56) at 2. change 3 with (msq 59). change 2 with (msq 58). change 4 with (msq 60).
      rewrite (at_put _ (msq 59) _ s), (at_put _ (msq 56) _ s) by (try (vm_compute; reflexivity); now rewrite ?put_length).
      rewrite (at_put _ 59 _ (msq s)), (at_put _ 56 _ (msq s)) by (try lia; now rewrite ?put_length).
      rewrite !msq_eqb. destruct (s =? msq 59); [reflexivity|]. destruct (s =? msq 56); [reflexivity|]. apply Hnorm.
Qed.
End MirrorMake.

Lemma pos_ok_intro q : length (brd q) = 64%nat -> forallb cell_ok (brd q) = true -> stm q < 2 -> EvalImpl.pos_ok q = true.
Proof.
  intros Hl Hcl Hc. unfold EvalImpl.pos_ok. rewrite Hl. replace (stm q <? 2) with true by lia.
  cbn [Nat.eqb andb]. rewrite andb_true_r. rewrite <- Hcl. apply forallb_ext'. intros pc. apply cell_list_ok.
Qed.

Section MirrorLegal.
Variable p : pos.
Hypothesis Hb : binv p.
Hypothesis Hcr : cr p < 16.
Local Notation b := (brd p).
Local Notation b' := (brd (mirror p)).
Local Notation c := (stm p).
Let Hp : EvalImpl.pos_ok p = true := binv_pos_ok p Hb.
Let Hc : c < 2 := bi_stm p Hb.

Lemma make_mirror_core m : In m (pseudo p) -> core (make (mirror p) (mirror_mv m)) = core (mirror (make p m)).
Proof.
  intros Hm. destruct (pseudo_shape p m Hb Hm) as (Hf & Ht & _ & _ & _).
  destruct (move_mirror_facts (mfrom m) (mto m) (cr p) Hf Ht Hcr) as (_ & Hep & Hcrm).
  unfold core. f_equal; [f_equal; [f_equal|]|].
  - now apply make_mirror_brd.
  - rewrite make_cr. change (cr (mirror (make p m))) with (mirror_cr (cr (make p m))). rewrite make_cr.
    cbn [mirror_mv mfrom mto]. symmetry. exact Hcrm.
  - rewrite make_ep. change (ep (mirror (make p m))) with (msq (ep (make p m))). rewrite make_ep.
    unfold ep_after. cbn [mirror_mv mfrom mto].
    rewrite (EvalProofsB.type_at_mirror p Hp (mfrom m) Hf).
    destruct (type_of (at_ b (mfrom m)) =? PAWN); cbn [andb]; [exact Hep|reflexivity].
Qed.

Lemma castle_transit_mirror m : In m (pseudo p) -> mtype m = CASTLING ->
  castle_transit (msq (mto m)) = msq (castle_transit (mto m)).
Proof.
  intros Hm E. destruct (pseudo_castle_class p m Hm E) as (_ & _ & _ & [(_ & _ & [-> | ->])|(_ & _ & [-> | ->])]); reflexivity.
Qed.

Lemma is_legal_mirror m : In m (pseudo p) -> is_legal (mirror p) (mirror_mv m) = is_legal p m.
Proof.
  intros Hm. destruct (pseudo_shape p m Hb Hm) as (Hf & Ht & _ & _ & _).
  unfold is_legal. change (stm (mirror p)) with (flip c). cbn [mirror_mv mtype mfrom mto]. f_equal.
  - destruct (N.eqb_spec (mtype m) CASTLING) as [E|E]; [|reflexivity].
    rewrite (castle_transit_mirror m Hm E).
    assert (Hfc : flip c < 2) by (unfold flip; lia).
    assert (Htr : castle_transit (mto m) < 64).
    { unfold castle_transit. repeat match goal with |- context [if ?x then _ else _] => destruct x end; lia. }
    now rewrite !(attacked_mirror p Hp _ (flip c)).
  - f_equal. change (mkmv (msq (mfrom m)) (msq (mto m)) (mtype m) (mprom m)) with (mirror_mv m).
    rewrite (make_mirror_brd p Hb Hcr m Hm).
    apply in_check_mirror; [|exact Hc|].
    + apply pos_ok_intro; [now apply make_len|now apply make_cells|]. rewrite make_stm. unfold flip. lia.
    + rewrite make_kings by assumption. now apply binv_king.
Qed.

Lemma legal_mirror_in m : In m (legal p) -> In (mirror_mv m) (legal (mirror p)).
Proof.
  unfold legal. rewrite !filter_In. intros [Hm Hl]. split.
  - now apply pseudo_mirror.
  - now rewrite is_legal_mirror.
Qed.
End MirrorLegal.

(** *** [legal_mirror], [perft_mirror] *)
Theorem legal_mirror_safe p : safe_pos p = true -> Permutation (legal (mirror p)) (map mirror_mv (legal p)).
Proof.
  intros Hs. pose proof (safe_pos_binv p Hs) as Hb.
  pose proof (safe_pos_mirror p Hs) as Hs'. pose proof (safe_pos_binv _ Hs') as Hb'.
  apply safe_pos_inv in Hs. destruct Hs as (Hl & Hcl & _ & _ & Hc & Hcr & _).
  apply safe_pos_inv in Hs'. destruct Hs' as (_ & _ & _ & _ & _ & Hcr' & _).
  apply NoDup_Permutation.
  - apply legal_NoDup.
  - apply NoDup_map_inj; [apply mirror_mv_inj|apply legal_NoDup].
  - intros x. split.
    + intros Hx. apply in_map_iff. exists (mirror_mv x). split; [apply mirror_mv_inv|].
      pose proof (legal_mirror_in (mirror p) Hb' Hcr' x Hx) as H.
      now rewrite (legal_core _ _ (mirror_mirror p Hl Hcl Hc Hcr)) in H.
    + intros Hx. apply in_map_iff in Hx as (m & <- & Hm). now apply legal_mirror_in.
Qed.

Lemma sum_perm (g : mv -> N) l1 l2 : Permutation l1 l2 ->
  fold_right (fun m acc => g m + acc) 0 l1 = fold_right (fun m acc => g m + acc) 0 l2.
Proof. induction 1; cbn [fold_right]; lia. Qed.

Lemma sum_map (g : mv -> N) (f : mv -> mv) l :
  fold_right (fun m acc => g m + acc) 0 (map f l) = fold_right (fun m acc => g (f m) + acc) 0 l.
Proof. induction l as [|x l IH]; cbn [map fold_right]; [reflexivity|now rewrite IH]. Qed.

Lemma sum_ext_in (g h : mv -> N) l : (forall m, In m l -> g m = h m) ->
  fold_right (fun m acc => g m + acc) 0 l = fold_right (fun m acc => h m + acc) 0 l.
Proof.
  induction l as [|x l IH]; intros H; cbn [fold_right]; [reflexivity|].
  rewrite (H x (or_introl eq_refl)), IH; [reflexivity|]. intros m Hm. apply H. now right.
Qed.

Theorem perft_mirror_safe d : forall p, safe_pos p = true -> perft d (mirror p) = perft d p.
Proof.
  induction d as [|k IH]; intros p Hs; cbn [perft]; [reflexivity|].
  rewrite (sum_perm (fun m => perft k (make (mirror p) m)) _ _ (legal_mirror_safe p Hs)).
  rewrite sum_map. apply sum_ext_in. intros m Hm.
  pose proof (safe_pos_binv p Hs) as Hb.
  assert (Hcr : cr p < 16) by (apply safe_pos_inv in Hs; tauto).
  rewrite (perft_core k _ _ (make_mirror_core p Hb Hcr m (legal_in_pseudo p m Hm))).
  apply IH. now apply legal_keeps_safe.
Qed.

Lemma legal_pos_safe p : legal_pos p = true -> safe_pos p = true.
Proof.
  intros H. apply binv_safe_pos; [now apply legal_pos_binv|]. apply legal_pos_inv in H. tauto.
Qed.

Theorem legal_mirror p : legal_pos p = true -> Permutation (legal (mirror p)) (map mirror_mv (legal p)).
Proof. intros H. apply legal_mirror_safe. now apply legal_pos_safe. Qed.

Theorem perft_mirror d p : legal_pos p = true -> perft d (mirror p) = perft d p.
Proof. intros H. apply perft_mirror_safe. now apply legal_pos_safe. Qed.

(* non-vacuity: both sides computed *)
Example ex_mirror_kiwipete :
  legal_pos kiwipete = true /\ perft 2 (mirror kiwipete) = 2039 /\ perft 2 kiwipete = 2039 /\
  length (legal (mirror kiwipete)) = 48%nat /\
  (* a permutation, not the same list: the squares are visited in a different order *)
  hd 0 (map code (legal (mirror kiwipete))) <> hd 0 (map code (map mirror_mv (legal kiwipete))).
Proof. vm_compute. repeat split; try reflexivity. discriminate. Qed.
Example ex_mirror_ep : legal_pos ep_pos = true /\ perft 3 (mirror ep_pos) = perft 3 ep_pos /\ ep (mirror ep_pos) = 19.
Proof. vm_compute. repeat split; reflexivity. Qed.

(** ** assumptions of the main theorems (all closed) *)
Print Assumptions legal_no_king_capture.
Print Assumptions legal_ep_captures_pawn.
Print Assumptions legal_keeps_safe.
Print Assumptions make_preserves_legal_pos.
Print Assumptions reachable_legal_pos.
Print Assumptions reachable_safe_pos.
Print Assumptions safe_pos_mirror.
Print Assumptions legal_mirror.
Print Assumptions perft_mirror.
