(** * NotationImpl: executable models of the engine's move parsers (C17)
      movegen.GetMoveFromUci / movegen.GetMoveFromSan   (internal/movegen/movegen.go)
    and of the printers they call (Move.StringUci, Square.String, PieceType.Char).

    The legal move list is [Rules.legal p].  The engine iterates over its own generated
    list; the ORDER of the list matters in GetMoveFromUci only (it returns the first move
    whose string matches) - and there only if two legal moves had the same UCI string,
    which NotationProofs.string_uci_inj excludes.  GetMoveFromSan counts all matches,
    so its result does not depend on the order.

    The two regular expressions are matched with Go's regexp (RE2, leftmost-first,
    FindStringSubmatch).  Since the repair "move strings are matched as a whole" both are
    ANCHORED ('^...$'; Go's '$' without flag m matches at the end of the text only, a
    trailing newline does not match), so a match starts at position 0 and must consume the
    entire string.  They are modelled by hand-written matchers [uci_find] / [san_find] that
    explore the optional groups greedily with backtracking and the alternatives in the order
    of the regex (= the Perl-like preference order that RE2's leftmost-first semantics
    guarantees); every continuation ends in the end-of-text test.  Both were validated
    against Go's regexp package (exhaustively over a representative alphabet up to a length
    bound, and on random longer strings; see the final report).
    No proofs in this file. *)
From Coq Require Import NArith List Bool.
From FG Require Import Geom Rules FenSpec.
Import ListNotations.
Open Scope N_scope.

(** ** Character classes of the two regexes (written with || so that [lia] can read them) *)
Definition is_file_ch (c : N) : bool := (97 <=? c) && (c <=? 104).             (* [a-h] *)
Definition is_rank_ch (c : N) : bool := (49 <=? c) && (c <=? 56).              (* [1-8] *)
Definition is_prom_ch (c : N) : bool := (c =? 78) || (c =? 66) || (c =? 82) || (c =? 81).   (* [NBRQ] *)
Definition is_piece_ch (c : N) : bool := is_prom_ch c || (c =? 75).            (* [NBRQK] *)
Definition is_uciprom_ch (c : N) : bool :=                                      (* [NBRQnbrq] *)
  is_prom_ch c || (c =? 110) || (c =? 98) || (c =? 114) || (c =? 113).
Definition is_x_ch (c : N) : bool := c =? 120.                                 (* x *)

(** ** Printers used by the parsers *)
(* piecetype.go:66  pieceTypeToChar = '-KPNBRQ' *)
Definition pt_char (pt : N) : N :=
  if pt =? 1 then 75 else if pt =? 2 then 80 else if pt =? 3 then 78 else if pt =? 4 then 66
  else if pt =? 5 then 82 else if pt =? 6 then 81 else 45.
(* square.go:139  '-' for invalid squares, else file letter + rank digit   (= FenSpec.sq_str) *)
Definition square_string (s : N) : str := if s <? 64 then [97 + file_of s; 49 + rank_of s] else [45].
(* move.go:156-167  StringUci: from + to + (if Promotion) PromotionType().Char()  - UPPER case *)
Definition string_uci (m : mv) : str :=
  square_string (mfrom m) ++ square_string (mto m) ++
  (if mtype m =? PROMOTION then [pt_char (mprom m)] else []).
(* strings.ToUpper on one byte *)
Definition to_upper (c : N) : N := if (97 <=? c) && (c <=? 122) then c - 32 else c.

(** ** UCI:  regexUciMove = '^([a-h][1-8][a-h][1-8])([NBRQnbrq])?$'   (movegen.go:462) *)
(* a match of the whole string: group 1 (four characters), the optional group 2 (greedy: taken
   when the next character is in the class) and then the end of the text.  If group 2 was
   taken and the text does not end there, backtracking into 'group 2 absent' needs the text
   to end after group 1, which it does not: no match. *)
Definition uci_at (s : str) : option (str * option N) :=
  match s with
  | a :: b :: c :: d :: r =>
      if is_file_ch a && is_rank_ch b && is_file_ch c && is_rank_ch d then
        match r with
        | [] => Some ([a; b; c; d], None)                                   (* group 2 absent, $ *)
        | [e] => if is_uciprom_ch e then Some ([a; b; c; d], Some e) else None   (* group 2, $ *)
        | _ :: _ :: _ => None                                                (* $ fails *)
        end
      else None
  | _ => None
  end.
(* '^': the only start position is 0 *)
Definition uci_find (s : str) : option (str * option N) := uci_at s.

(* movegen.go:470-495 *)
Definition from_uci (p : pos) (s : str) : option mv :=
  match uci_find s with                                       (* :471 FindStringSubmatch *)
  | None => None                                              (* :472-474 *)
  | Some (move_part, prom) =>
      (* :477-483 len(matches) is always 3; an absent group is ''; ToUpper *)
      let want := move_part ++ match prom with Some e => [to_upper e] | None => [] end in
      (* :486-492 first legal move whose StringUci equals the wanted string *)
      find (fun m => str_eqb (string_uci m) want) (legal p)
  end.

(** ** SAN:  regexSanMove =
    '^([NBRQK])?([a-h])?([1-8])?x?([a-h][1-8]|O-O-O|O-O)(=?([NBRQ]))?([!?+#]* )?$'  (movegen.go:497; a blank inserted before the last ')' to keep this comment well-formed) *)
Inductive san_target := TSq (f r : N) (* the two characters *) | TOO | TOOO.
Record san_fields := mk_sf {
  sf_piece : option N;     (* group 1 *)
  sf_file  : option N;     (* group 2 *)
  sf_rank  : option N;     (* group 3 *)
  sf_target : san_target;  (* group 4 *)
  sf_prom  : option N      (* group 6 *)
}.                         (* group 7 (decorations) is ignored by the Go code (:517) *)

Fixpoint strip_prefix (pat s : str) : option str :=
  match pat with
  | [] => Some s
  | pc :: pr => match s with
                | c :: r => if c =? pc then strip_prefix pr r else None
                | [] => None
                end
  end.

(* first alternative that leads to an overall match *)
Definition or_else {A} (a b : option A) : option A := match a with Some x => Some x | None => b end.

(* [a-h][1-8] *)
Definition san_sq_alt (s : str) : option (san_target * str) :=
  match s with
  | a :: r1 => if is_file_ch a then
                 match r1 with
                 | b :: r => if is_rank_ch b then Some (TSq a b, r) else None
                 | [] => None
                 end
               else None
  | [] => None
  end.
(* group 4, alternatives in the order of the regex: [a-h][1-8] | O-O-O | O-O; an alternative
   is final only if the continuation [k] (the rest of the regex up to '$') succeeds after it *)
Definition san_g4 {A} (s : str) (k : san_target -> str -> option A) : option A :=
  or_else (match san_sq_alt s with Some (tg, r) => k tg r | None => None end)
 (or_else (match strip_prefix [79;45;79;45;79] s with Some r => k TOOO r | None => None end)
          (match strip_prefix [79;45;79] s with Some r => k TOO r | None => None end)).

(* ([!?+#]* )?$ : the greedy star takes every decoration character; then the text must end.
   Giving characters back cannot help ('$' fails earlier as well), so: a match iff the whole
   rest consists of decoration characters.  The group is not used by the Go code. *)
Definition is_decor_ch (c : N) : bool := (c =? 33) || (c =? 63) || (c =? 43) || (c =? 35).   (* [!?+#] *)
Definition deco_end (s : str) : bool := forallb is_decor_ch s.

(* (=?([NBRQ]))? followed by the decorations and '$'.  Preference order: the group present
   with '=' ; present with '=?' empty ; absent.  Result: group 6. *)
Definition san_tail (s : str) : option (option N) :=
  or_else (match s with
           | c :: e :: r => if (c =? 61) && is_prom_ch e && deco_end r then Some (Some e) else None
           | _ => None
           end)
 (or_else (match s with
           | e :: r => if is_prom_ch e && deco_end r then Some (Some e) else None
           | [] => None
           end)
          (if deco_end s then Some None else None)).

(* one optional single-character group: greedy, with backtracking into 'absent' when the
   continuation fails *)
Definition opt_eat {A} (cls : N -> bool) (s : str) (k : option N -> str -> option A) : option A :=
  match s with
  | c :: r => if cls c then match k (Some c) r with
                            | Some x => Some x
                            | None => k None s
                            end
              else k None s
  | [] => k None s
  end.

(* a match of the whole string starting at position 0 *)
Definition san_at (s : str) : option san_fields :=
  opt_eat is_piece_ch s (fun g1 s1 =>
  opt_eat is_file_ch s1 (fun g2 s2 =>
  opt_eat is_rank_ch s2 (fun g3 s3 =>
  opt_eat is_x_ch s3 (fun _ s4 =>
  san_g4 s4 (fun tg s5 =>
    match san_tail s5 with
    | Some g6 => Some (mk_sf g1 g2 g3 tg g6)
    | None => None
    end))))).

(* '^': the only start position is 0 *)
Definition san_find (s : str) : option san_fields := san_at s.

Definition target_eqb (a b : san_target) : bool :=
  match a, b with
  | TSq f r, TSq f' r' => (f =? f') && (r =? r')
  | TOO, TOO => true
  | TOOO, TOOO => true
  | _, _ => false
  end.

Definition opt_is (o : option N) (c : N) : bool := match o with Some x => x =? c | None => false end.
Definition is_none (o : option N) : bool := match o with Some _ => false | None => true end.

(* movegen.go:553-585 'normal moves' part of the loop body: does this legal move fit? *)
Definition san_normal_fits (p : pos) (f : san_fields) (m : mv) : bool :=
  (* :554-555 moveTarget == toSquare  (string comparison; 'O-O' never equals a square name) *)
  (match sf_target f with
   | TSq a b => str_eqb (square_string (mto m)) [a; b]
   | _ => false end)
  (* :558-563  skip if (len(pieceType)==0 || legalPtChar != pieceType) && (len(pieceType)!=0 || legalPt != Pawn) *)
  && (let pt := type_of (piece_at p (mfrom m)) in
      negb ((is_none (sf_piece f) || negb (opt_is (sf_piece f) (pt_char pt)))
            && (negb (is_none (sf_piece f)) || negb (pt =? PAWN))))
  (* :566 disambiguation file *)
  && (is_none (sf_file f) || opt_is (sf_file f) (97 + file_of (mfrom m)))
  (* :571 disambiguation rank *)
  && (is_none (sf_rank f) || opt_is (sf_rank f) (49 + rank_of (mfrom m)))
  (* :576-579  skip if (len(promotion)!=0 && (MoveType()!=Promotion || PromotionType().Char() != promotion))
                     || (len(promotion)==0 && MoveType()==Promotion) *)
  && negb ((negb (is_none (sf_prom f))
            && (negb (mtype m =? PROMOTION) || negb (opt_is (sf_prom f) (pt_char (mprom m)))))
           || (is_none (sf_prom f) && (mtype m =? PROMOTION))).

(* text of group 4; strings.HasPrefix *)
Definition target_str (tg : san_target) : str :=
  match tg with TSq f r => [f; r] | TOO => [79;45;79] | TOOO => [79;45;79;45;79] end.
Definition has_prefix (pat s : str) : bool := match strip_prefix pat s with Some _ => true | None => false end.

(* movegen.go:524-586 one iteration of the loop: true = movesFound++.
   [s] is the whole input string (sanMove). *)
Definition san_fits (p : pos) (s : str) (f : san_fields) (m : mv) : bool :=
  if mtype m =? CASTLING then                                   (* :527 *)
    (* :528-542 castlingString *)
    match (if (mto m =? 6) || (mto m =? 62) then Some TOO
           else if (mto m =? 2) || (mto m =? 58) then Some TOOO else None) with
    | None => false                                             (* :539-541 default: log, continue *)
    | Some cs =>
        (* :544-545  castlingString == toSquare && strings.HasPrefix(sanMove, castlingString) &&
           len(pieceType)==0 && len(disambFile)==0 && len(disambRank)==0 && len(matches[5])==0.
           Group 5 is '=?' followed by group 6, which is exactly one character: group 5 is
           empty iff group 6 is (checked on every probe string), so the model tests group 6. *)
        target_eqb cs (sf_target f) && has_prefix (target_str cs) s
        && is_none (sf_piece f) && is_none (sf_file f) && is_none (sf_rank f) && is_none (sf_prom f)
                                                                (* :550 always continue *)
    end
  else san_normal_fits p f m.

(* movegen.go:505-598.  [moveFromSAN.IsValid()] (:590) is true for every generated move
   provided its sort value is ValueNA or within ValueMin..ValueMax; the model has no sort
   values (assumption V-SORT, checked by the harness on every generated move). *)
Definition from_san (p : pos) (s : str) : option mv :=
  match san_find s with                                         (* :506 *)
  | None => None                                                (* :507-509 *)
  | Some f =>
      match filter (san_fits p s f) (legal p) with              (* :519-586 *)
      | [m] => Some m                                           (* :592-593 movesFound == 1 *)
      | _ => None                                               (* :588-596 *)
      end
  end.

(** ** Checker for the correspondence run.
    [fen]: six-field FEN of the position as bytes; [s]: the string handed to the engine;
    [is_san]: true = GetMoveFromSan, false = GetMoveFromUci; [observed]: [uint32(m.MoveOf())]
    of the engine's answer, 0 for MoveNone. *)
Definition move_code (o : option mv) : N := match o with Some m => code m | None => 0 end.
Definition notation_case_ok (fen : str) (s : str) (is_san : bool) (observed : N) : bool :=
  match parse fen with
  | None => false
  | Some p => move_code (if is_san then from_san p s else from_uci p s) =? observed
  end.
(* The checkers for the encoding functions (enc_create_ok, enc_get_ok, enc_set_ok) live in
   MoveEnc.v next to the encoding model, so that this file does not depend on Tables_gen. *)
(* what the model answers (for diagnostics) *)
Definition notation_model (fen : str) (s : str) (is_san : bool) : option N :=
  match parse fen with
  | None => None
  | Some p => Some (move_code (if is_san then from_san p s else from_uci p s))
  end.
