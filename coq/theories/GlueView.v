(** * GlueView: the bitboards maintained by the position model ARE the view the attack /
    move-generator theorems speak about.

    PosImpl models position.go's struct ([ipos]) with the incrementally maintained fields
    piecesBb / occupiedBb / kingSquare; PosProofs* prove [Coh] / [WF] / [Inv] for every reachable
    position.  BitView defines [bview] (the fields IsAttacked, HasCheck, GivesCheck, IsLegalMove,
    WasLegalMove, AttacksTo and the move generator read) and [view_of_spec : pos -> bview],
    which RECOMPUTES those words from the mailbox board; the C09 (Attacks*Proofs) and C01 / C08
    (Movegen*Proofs) theorems are stated about [view_of_spec p].

    Here: [view_of_ipos] reads ONLY the maintained fields of [ipos] (no recomputation), and

      [view_of_ipos_exact]   Coh t p + both kings on the board -> view_of_ipos p = view_of_spec (abs p)
                             (equality of records: [bview] has no function components).

    INVARIANT NEEDED: [Coh] (PosProofsA; the weakest of Coh / WF / Inv) suffices for the seven
    components pieces, occw, occb, vboard, vep, vcr, vstm ([view_core_exact]).  The eighth,
    kingSquare, is equal for a colour iff that colour HAS a king: [Coh] only says "kingSquare[c]
    points to the king of colour c whenever there is one" (putPiece is the only writer of
    kingSquare, position.go:851-853; removePiece leaves it), while [Rules.king_sq] answers 64 on a
    board without that king.  None of Coh / WF / Inv / Reach forces a king to exist (the model's
    [Reach] starts from ANY [Inv] state and lets pseudo-legal moves capture a king), so the
    literal statement "WF -> equal" is false in the model: [view_of_ipos_exact_refuted].  In the
    engine every position comes from setupBoard, which rejects a FEN without exactly one king per
    side (position.go:1086-1100), and the search never makes a move in a position where the side
    not to move is in check, so the guard is met there; it follows from
    [legal_pos (abs p) = true], the hypothesis every C09 / C01 theorem carries anyway.

    Transfer corollaries (under [Reach t p] + [legal_pos (abs p) = true]): the C09 and C01
    theorems restated on [view_of_ipos p]; [is_legal_ipos] / [legal_moves_ipos] additionally
    take the view AFTER the move from the model's own [do_move] (IsLegalMove, position.go:458,
    calls p.DoMove(move)) instead of from [Rules.make]. *)
From Coq Require Import NArith ZArith List Bool Lia ZifyN ZifyBool Permutation.
From FG Require Import Word64 Geom Rules FenSpec BitView.
From FG Require AttacksImpl AttacksLemmas AttacksMoves AttacksProofs AttacksCheckProofs AttacksLegalProofs.
From FG Require MovegenImpl MovegenLemmas MovegenProofsMain MovegenProofsLegal MovegenMakeLegal PosProofsJ Oracle.
From FG Require Import PosImpl PosTabs PosProofsA PosProofsB PosProofsC PosProofsG PosProofsH PosProofsI PosProofs.
Import ListNotations.
Open Scope N_scope.

(** ** the view of a model position: the maintained fields, nothing recomputed *)
Definition view_of_ipos (p : ipos) : bview :=
  mkview (i_pbb p)              (* piecesBb[2][7]   position.go:100 *)
         (fst (i_occ p))        (* occupiedBb[White]  :102 *)
         (snd (i_occ p))        (* occupiedBb[Black] *)
         (i_board p)            (* board[64]        :87 *)
         (i_ep p)               (* enPassantSquare  :89 *)
         (i_cr p)               (* castlingRights   :88 *)
         (i_stm p)              (* nextPlayer       :91 *)
         (i_ksq p).             (* kingSquare[2]    :96 *)

(* colour c has a king on the board *)
Definition has_king (b : list N) (c : N) : Prop := exists s, s < 64 /\ at_ b s = mk_piece c KING.
Definition has_kingb (b : list N) (c : N) : bool :=
  existsb (fun s => at_ b s =? mk_piece c KING) squares64.

Lemma has_kingb_spec b c : has_kingb b c = true <-> has_king b c.
Proof.
  unfold has_kingb, has_king. rewrite existsb_exists. split.
  - intros (s & Hs & E). exists s. split; [now apply in_squares64'|now apply N.eqb_eq].
  - intros (s & Hs & E). exists s. split; [now apply in_squares64'|now apply N.eqb_eq].
Qed.

Lemma abs_brd p : brd (abs p) = i_board p.
Proof. reflexivity. Qed.

(** ** piecesBb *)
Lemma at_high p t : length (i_board p) = 64%nat -> 64 <= t -> at_ (i_board p) t = 0.
Proof. intros Hl Ht. apply at_beyond. rewrite Hl. exact Ht. Qed.

Lemma pcmatch_type0 c pc : okpc pc = true -> pcmatch c 0 pc = false.
Proof.
  intros H. apply okpc_cases in H. unfold pcmatch.
  destruct (N.eqb_spec pc 0) as [E|E]; [reflexivity|]. cbn [negb andb]. apply N.eqb_neq. lia.
Qed.

Lemma piece_word_testbit b c ty t :
  N.testbit (piece_word b c ty) t = if ty =? 0 then false else (t <? 64) && (at_ b t =? mk_piece c ty).
Proof.
  unfold piece_word. destruct (ty =? 0); [apply N.bits_0|].
  exact (AttacksLemmas.bb_filter_testbit (fun s => at_ b s =? mk_piece c ty) t).
Qed.

Lemma pieces_of_board_get b c ty : c < 2 -> ty < 7 -> bb_get (pieces_of_board b) c ty = piece_word b c ty.
Proof.
  intros Hc Hty.
  assert (Hc' : c = 0 \/ c = 1) by lia.
  assert (Hp' : ty = 0 \/ ty = 1 \/ ty = 2 \/ ty = 3 \/ ty = 4 \/ ty = 5 \/ ty = 6) by lia.
  destruct Hc' as [-> | ->]; destruct Hp' as [->|[->|[->|[->|[->|[->| ->]]]]]]; reflexivity.
Qed.

Lemma pieces_of_board_length b : length (pieces_of_board b) = 14%nat.
Proof. reflexivity. Qed.

Lemma pbb_exact t p : Coh t p -> i_pbb p = pieces_of_board (i_board p).
Proof.
  intros C. apply list14_ext; [apply (c_pbblen _ _ C)|apply pieces_of_board_length|].
  intros c ty Hc Hty. rewrite pieces_of_board_get by assumption.
  apply N.bits_inj. intros i. rewrite (c_pbb _ _ C) by assumption. rewrite piece_word_testbit.
  destruct (N.eqb_spec ty 0) as [->|Hz]; [apply pcmatch_type0, (c_ok _ _ C)|].
  destruct (N.ltb_spec i 64) as [Hi|Hi]; cbn [andb].
  - unfold pcmatch, mk_piece.
    destruct (N.eqb_spec (at_ (i_board p) i) (8 * c + ty)) as [E|E]; [|apply andb_false_r].
    rewrite E. rewrite andb_true_r. apply negb_true_iff, N.eqb_neq. lia.
  - rewrite at_high by (try apply (c_len _ _ C); assumption). reflexivity.
Qed.

(** ** occupiedBb *)
Lemma occ_word_testbit b c t :
  N.testbit (occ_word b c) t = (t <? 64) && (negb (at_ b t =? 0) && (colour_of (at_ b t) =? c)).
Proof.
  unfold occ_word.
  exact (AttacksLemmas.bb_filter_testbit (fun s => negb (at_ b s =? 0) && (colour_of (at_ b s) =? c)) t).
Qed.

Lemma occ_exact t p c : Coh t p -> c < 2 -> sel c (i_occ p) = occ_word (i_board p) c.
Proof.
  intros C Hc. apply N.bits_inj. intros i. rewrite (c_occ _ _ C) by assumption. rewrite occ_word_testbit.
  destruct (N.ltb_spec i 64) as [Hi|Hi]; cbn [andb]; [reflexivity|].
  rewrite at_high by (try apply (c_len _ _ C); assumption). reflexivity.
Qed.

(** ** kingSquare *)
Lemma ksq_exact t p c : Coh t p -> c < 2 -> has_king (i_board p) c ->
  sel c (i_ksq p) = king_sq (i_board p) c.
Proof.
  intros C Hc (s & Hs & Hat). symmetry.
  assert (E : sel c (i_ksq p) = s) by (apply (c_ksq _ _ C); assumption).
  rewrite E. apply AttacksCheckProofs.king_sq_intro; [exact Hs|exact Hat|].
  intros s' Hs' Hat'. rewrite <- E. symmetry. apply (c_ksq _ _ C); assumption.
Qed.

(** ** the seven king-free components need [Coh] only *)
Definition set_vking (v : bview) (k : N * N) : bview :=
  mkview (pieces v) (occw v) (occb v) (vboard v) (vep v) (vcr v) (vstm v) k.

Theorem view_core_exact t p : Coh t p ->
  view_of_ipos p = set_vking (view_of_spec (abs p)) (i_ksq p).
Proof.
  intros C. unfold view_of_ipos, view_of_spec, set_vking, abs.
  cbn [brd stm cr ep pieces occw occb vboard vep vcr vstm].
  assert (E0 : fst (i_occ p) = occ_word (i_board p) WHITE) by exact (occ_exact t p 0 C ltac:(lia)).
  assert (E1 : snd (i_occ p) = occ_word (i_board p) BLACK) by exact (occ_exact t p 1 C ltac:(lia)).
  now rewrite <- (pbb_exact t p C), <- E0, <- E1.
Qed.

(* component-wise reading of the same fact *)
Corollary view_components_exact t p : Coh t p ->
  let v := view_of_ipos p in let w := view_of_spec (abs p) in
  pieces v = pieces w /\ occw v = occw w /\ occb v = occb w /\ vboard v = vboard w /\
  vep v = vep w /\ vcr v = vcr w /\ vstm v = vstm w /\
  (has_king (i_board p) WHITE -> fst (vking v) = fst (vking w)) /\
  (has_king (i_board p) BLACK -> snd (vking v) = snd (vking w)).
Proof.
  intros C v w. unfold v. rewrite (view_core_exact t p C). unfold w.
  repeat (split; [reflexivity|]). split; intros H.
  - exact (ksq_exact t p 0 C ltac:(lia) H).
  - exact (ksq_exact t p 1 C ltac:(lia) H).
Qed.

(** ** main theorem *)
Theorem view_of_ipos_exact t p : Coh t p ->
  has_king (i_board p) WHITE -> has_king (i_board p) BLACK ->
  view_of_ipos p = view_of_spec (abs p).
Proof.
  intros C Hw Hb. rewrite (view_core_exact t p C). unfold set_vking, view_of_spec.
  cbn [pieces occw occb vboard vep vcr vstm]. f_equal.
  pose proof (ksq_exact t p 0 C ltac:(lia) Hw) as E0. pose proof (ksq_exact t p 1 C ltac:(lia) Hb) as E1.
  unfold sel in E0, E1. cbn [N.eqb] in E0, E1. unfold abs. cbn [brd]. unfold WHITE, BLACK.
  destruct (i_ksq p) as [kw kb]. cbn [fst snd] in E0, E1. now rewrite E0, E1.
Qed.

Corollary view_of_ipos_exact_wf t p : WF t p ->
  has_king (i_board p) WHITE -> has_king (i_board p) BLACK -> view_of_ipos p = view_of_spec (abs p).
Proof. intros W. apply (view_of_ipos_exact t), (w_coh _ _ W). Qed.

Corollary view_of_ipos_WFview t p : Coh t p ->
  has_king (i_board p) WHITE -> has_king (i_board p) BLACK -> WFview (view_of_ipos p) (abs p).
Proof. intros. unfold WFview. now apply (view_of_ipos_exact t). Qed.

(** ** a legal position has both kings *)
Lemma count1_has_king b c : count_piece b (mk_piece c KING) = 1%nat -> has_king b c.
Proof.
  intros H. destruct (AttacksProofs.king_sq_spec b c H) as [H1 H2]. now exists (king_sq b c).
Qed.

Lemma legal_pos_kings q : legal_pos q = true -> has_king (brd q) WHITE /\ has_king (brd q) BLACK.
Proof.
  intros H. apply MovegenLemmas.legal_pos_inv in H as (_ & _ & Hw & Hb & _).
  split; now apply count1_has_king.
Qed.

Theorem view_of_ipos_exact_legal t p : Coh t p -> legal_pos (abs p) = true ->
  view_of_ipos p = view_of_spec (abs p).
Proof.
  intros C Hl. destruct (legal_pos_kings _ Hl) as [Hw Hb]. now apply (view_of_ipos_exact t).
Qed.

(** ** reachable positions *)
Corollary reachable_view t p : Reach t p ->
  has_king (i_board p) WHITE -> has_king (i_board p) BLACK -> view_of_ipos p = view_of_spec (abs p).
Proof. intros R. destruct (reach_inv t p R) as [W _]. now apply (view_of_ipos_exact_wf t). Qed.

Corollary reachable_view_legal t p : Reach t p -> legal_pos (abs p) = true ->
  view_of_ipos p = view_of_spec (abs p).
Proof.
  intros R. destruct (reach_inv t p R) as [W _]. apply (view_of_ipos_exact_legal t), (w_coh _ _ W).
Qed.

(* the seven king-free components in EVERY reachable position, no guard *)
Corollary reachable_view_core t p : Reach t p ->
  view_of_ipos p = set_vking (view_of_spec (abs p)) (i_ksq p).
Proof. intros R. destruct (reach_inv t p R) as [W _]. apply (view_core_exact t), (w_coh _ _ W). Qed.

(* the real tables *)
Corollary reachable_view_real p : Reach real_tabs p -> legal_pos (abs p) = true ->
  view_of_ipos p = view_of_spec (abs p).
Proof. apply reachable_view_legal. Qed.

(* a fresh position (setupBoard) *)
Corollary setup_view t q : spec_ok q -> legal_pos q = true ->
  view_of_ipos (setup_of_spec t q) = view_of_spec (abs (setup_of_spec t q)).
Proof.
  intros Hs Hl. destruct (setup_inv t q Hs) as (_ & Ha & _).
  assert (E : brd (abs (setup_of_spec t q)) = brd q) by (rewrite Ha; reflexivity).
  rewrite abs_brd in E.
  destruct (legal_pos_kings q Hl) as [Hw Hb].
  apply (reachable_view t); [now apply setup_reach| |]; now rewrite E.
Qed.

(** ** C09 on the maintained bitboards *)
Import AttacksImpl.   (* is_attacked_impl ...; PosImpl's [bind], [sq_to], [mv_*] stay reachable qualified *)

Theorem c09_ipos t p : Reach t p -> legal_pos (abs p) = true ->
  (forall s c, s < 64 -> c < 2 ->
     is_attacked_impl (view_of_ipos p) s c = Some (Oracle.is_attacked_spec (abs p) s c) /\
     attacks_to_impl (view_of_ipos p) s c = Some (Oracle.attacks_to_spec (abs p) s c)) /\
  has_check_impl (view_of_ipos p) = Some (in_check (abs p)) /\
  (forall m, In m (legal (abs p)) -> gives_check_impl (view_of_ipos p) (code m) = Some (gives_check (abs p) m)).
Proof.
  intros R Hl.
  assert (Hv : WFview (view_of_ipos p) (abs p)) by (unfold WFview; now apply (reachable_view_legal t)).
  destruct (AttacksLegalProofs.c09_on_views _ _ Hv Hl) as (H1 & H2 & H3 & _). auto.
Qed.

Corollary is_attacked_ipos t p s c : Reach t p -> legal_pos (abs p) = true -> s < 64 -> c < 2 ->
  is_attacked_impl (view_of_ipos p) s c = Some (Oracle.is_attacked_spec (abs p) s c).
Proof. intros R Hl Hs Hc. now apply (c09_ipos t p R Hl). Qed.

Corollary has_check_ipos t p : Reach t p -> legal_pos (abs p) = true ->
  has_check_impl (view_of_ipos p) = Some (in_check (abs p)).
Proof. intros R Hl. now apply (c09_ipos t p R Hl). Qed.

(** ** the view after the model's own DoMove *)
(* IsAttacked does not read kingSquare *)
Lemma is_attacked_vking v k s c : is_attacked_impl (set_vking v k) s c = is_attacked_impl v s c.
Proof. reflexivity. Qed.

Lemma castle_checks_vking v k m c : castle_checks (set_vking v k) m c = castle_checks v m c.
Proof. reflexivity. Qed.

Lemma king_square_sel v c : c < 2 -> king_square v c = Some (sel c (vking v)).
Proof. intros H. assert (c = 0 \/ c = 1) as [-> | ->] by lia; reflexivity. Qed.

Lemma sel_king_pair q c : c < 2 -> sel c (vking (view_of_spec q)) = king_sq (brd q) c.
Proof. intros H. assert (c = 0 \/ c = 1) as [-> | ->] by lia; reflexivity. Qed.

Lemma flipc_lt c : c < 2 -> flipc c < 2.
Proof. intros H. assert (c = 0 \/ c = 1) as [-> | ->] by lia; cbn; lia. Qed.

(* DoMove on a pseudo-legal move of a legal position: the maintained bitboards of the successor
   are the view of [Rules.make], up to the king square of the side that did NOT move (which
   IsLegalMove / WasLegalMove do not read); the mover's king square is exact *)
Lemma do_move_view t p m : Reach t p -> legal_pos (abs p) = true -> room p -> In m (pseudo (abs p)) ->
  exists p', do_move t p (code m) = Some p' /\ Reach t p' /\ abs p' = make (abs p) m /\
    view_of_ipos p' = set_vking (view_of_spec (make (abs p) m)) (i_ksq p') /\
    sel (stm (abs p)) (i_ksq p') = king_sq (brd (make (abs p) m)) (stm (abs p)).
Proof.
  intros R Hl Hr Hm. destruct (do_inv t p m R Hm Hr) as (p' & Hdo & R' & Ha).
  exists p'. split; [exact Hdo|]. split; [exact R'|]. split; [exact Ha|].
  pose proof (reachable_view_core t p' R') as Hv. rewrite Ha in Hv. split; [exact Hv|].
  destruct (reach_inv t p' R') as [W' _].
  pose proof (AttacksCheckProofs.legal_pos_facts _ Hl) as Hf.
  destruct (AttacksLegalProofs.own_king_after (abs p) m _ Hl Hf (AttacksMoves.pseudo_inv _ _ Hm))
    as (k' & Hk1 & Hk2 & Hk3).
  assert (Eb : i_board p' = brd (make (abs p) m)) by (rewrite <- Ha; reflexivity).
  rewrite <- Eb. apply (ksq_exact t); [apply (w_coh _ _ W')|apply (AttacksCheckProofs.lf_stm _ _ Hf)|].
  exists k'. rewrite Eb. split; assumption.
Qed.

Lemma legal_tail_vking v' k c0 :
  c0 < 2 -> flipc (vstm v') = c0 -> sel c0 k = sel c0 (vking v') ->
  forall v c, is_legal_impl v (set_vking v' k) c = is_legal_impl v v' c /\
              was_legal_impl (set_vking v' k) c = was_legal_impl v' c.
Proof.
  intros Hc Hfl Hk v c. unfold is_legal_impl, was_legal_impl.
  change (vstm (set_vking v' k)) with (vstm v'). rewrite Hfl.
  rewrite !king_square_sel by exact Hc. change (vking (set_vking v' k)) with k. rewrite Hk.
  split; reflexivity.
Qed.

(* IsLegalMove / WasLegalMove with the successor taken from the position model *)
Theorem is_legal_ipos t p m : Reach t p -> legal_pos (abs p) = true -> room p -> In m (pseudo (abs p)) ->
  exists p', do_move t p (code m) = Some p' /\ Reach t p' /\ abs p' = make (abs p) m /\
    is_legal_impl (view_of_ipos p) (view_of_ipos p') (code m) = Some (is_legal (abs p) m) /\
    was_legal_impl (view_of_ipos p') (code m) = Some (is_legal (abs p) m).
Proof.
  intros R Hl Hr Hm. destruct (do_move_view t p m R Hl Hr Hm) as (p' & Hdo & R' & Ha & Hv & Hk).
  exists p'. split; [exact Hdo|]. split; [exact R'|]. split; [exact Ha|].
  pose proof (AttacksCheckProofs.lf_stm _ _ (AttacksCheckProofs.legal_pos_facts _ Hl)) as Hs.
  rewrite Hv, (reachable_view_legal t p R Hl).
  destruct (legal_tail_vking (view_of_spec (make (abs p) m)) (i_ksq p') (stm (abs p)) Hs
              (AttacksLegalProofs.flipc_flipc_stm (abs p) m Hs)) with (v := view_of_spec (abs p)) (c := code m)
    as [E1 E2].
  - rewrite Hk. symmetry. apply sel_king_pair. exact Hs.
  - rewrite E1, E2. exact (AttacksLegalProofs.legal_pre_post_agree (abs p) m Hl Hm).
Qed.

(* a legal move leads to a reachable, legal position whose maintained bitboards are again exact:
   the induction step along a game *)
Theorem legal_step_view t p m : Reach t p -> legal_pos (abs p) = true -> room p -> In m (legal (abs p)) ->
  exists p', do_move t p (code m) = Some p' /\ Reach t p' /\ abs p' = make (abs p) m /\
    legal_pos (abs p') = true /\ view_of_ipos p' = view_of_spec (make (abs p) m).
Proof.
  intros R Hl Hr Hm. destruct (do_inv t p m R (PosProofsJ.legal_pseudo _ _ Hm) Hr) as (p' & Hdo & R' & Ha).
  exists p'. split; [exact Hdo|]. split; [exact R'|]. split; [exact Ha|].
  assert (Hl' : legal_pos (abs p') = true) by (rewrite Ha; now apply MovegenMakeLegal.make_preserves_legal_pos).
  split; [exact Hl'|]. rewrite <- Ha. now apply (reachable_view_legal t).
Qed.

(** ** C01 / C08 on the maintained bitboards *)
Import MovegenImpl.

Theorem pseudo_ipos prom_nq t p : Reach t p -> legal_pos (abs p) = true -> exists l,
  gen_pseudo prom_nq (view_of_ipos p) 3 false = Some l /\
  Permutation l (map code (pseudo (abs p))) /\ NoDup l.
Proof.
  intros R Hl. rewrite (reachable_view_legal t p R Hl). now apply MovegenProofsMain.pseudo_exact.
Qed.

(* position.IsLegalMove as the position model runs it: DoMove, then the attack test on the
   successor's own bitboards *)
Definition eng_legal_ipos (t : tabs) (p : ipos) (c : N) : bool :=
  match do_move t p c with
  | Some p' => match is_legal_impl (view_of_ipos p) (view_of_ipos p') c with Some x => x | None => false end
  | None => false
  end.

Lemma eng_legal_ipos_agrees t p m : Reach t p -> legal_pos (abs p) = true -> room p -> In m (pseudo (abs p)) ->
  eng_legal_ipos t p (code m) = is_legal (abs p) m.
Proof.
  intros R Hl Hr Hm. destruct (is_legal_ipos t p m R Hl Hr Hm) as (p' & Hdo & _ & _ & H & _).
  unfold eng_legal_ipos. now rewrite Hdo, H.
Qed.

(* GenerateLegalMoves, everything read from the position model *)
Theorem legal_moves_ipos prom_nq t p : Reach t p -> legal_pos (abs p) = true -> room p -> exists l,
  gen_legal prom_nq (eng_legal_ipos t p) (view_of_ipos p) 3 = Some l /\
  Permutation l (map code (legal (abs p))) /\ NoDup l.
Proof.
  intros R Hl Hr. rewrite (reachable_view_legal t p R Hl).
  apply MovegenProofsLegal.legal_moves_exact_oracle; [exact Hl|].
  intros m Hm. now apply eng_legal_ipos_agrees.
Qed.

(* the statement of MovegenProofsLegal.legal_moves_exact, the view replaced *)
Corollary legal_moves_exact_ipos prom_nq t p : Reach t p -> legal_pos (abs p) = true -> exists l,
  gen_legal prom_nq (MovegenProofsLegal.eng_legal (abs p)) (view_of_ipos p) 3 = Some l /\
  Permutation l (map code (legal (abs p))) /\ NoDup l.
Proof.
  intros R Hl. rewrite (reachable_view_legal t p R Hl). now apply MovegenProofsLegal.legal_moves_exact.
Qed.

(** ** Non-vacuity (real tables, by computation) *)
Example view_start : view_of_ipos (setup_of_spec real_tabs start_pos) = view_of_spec start_pos.
Proof. vm_compute. reflexivity. Qed.
Example view_kiwipete : view_of_ipos (setup_of_spec real_tabs kiwipete) = view_of_spec kiwipete.
Proof. vm_compute. reflexivity. Qed.

(* the hypotheses of the theorems hold there *)
Example hyps_start :
  let p := setup_of_spec real_tabs start_pos in
  invb real_tabs p = true /\ legal_pos (abs p) = true /\
  has_kingb (i_board p) WHITE = true /\ has_kingb (i_board p) BLACK = true /\ (length (i_hist p) <? 512)%nat = true.
Proof. vm_compute. repeat split; reflexivity. Qed.
Example hyps_kiwipete :
  let p := setup_of_spec real_tabs kiwipete in
  invb real_tabs p = true /\ legal_pos (abs p) = true /\
  has_kingb (i_board p) WHITE = true /\ has_kingb (i_board p) BLACK = true /\ (length (i_hist p) <? 512)%nat = true.
Proof. vm_compute. repeat split; reflexivity. Qed.

Lemma reach_of_invb p : invb real_tabs p = true -> i_hist p = [] -> Reach real_tabs p.
Proof. intros H Hh. apply R_base; [now apply invb_sound|exact Hh]. Qed.

Example reach_kiwipete : Reach real_tabs (setup_of_spec real_tabs kiwipete) /\
                         legal_pos (abs (setup_of_spec real_tabs kiwipete)) = true.
Proof. split; [apply reach_of_invb|]; vm_compute; reflexivity. Qed.

(* after moves made by the model's DoMove (Kiwipete: O-O, Bxe2, null move): the maintained
   bitboards are still the view of the abstract position, and the invariant holds *)
Example view_after_moves :
  match after_ops kiwipete [ODo 49414; ODo (12 + 64 * 40); ODoNull] with
  | Some p => bview_eqb (view_of_ipos p) (view_of_spec (abs p)) && invb real_tabs p
  | None => false end = true.
Proof. vm_compute. reflexivity. Qed.

(* the transferred functions compute on the model's bitboards (dumped attack tables):
   Kiwipete: e4 (28) is attacked by Black (the knight f6), a1 (0) is not; nobody is in check;
   48 pseudo-legal = 48 legal moves, the legality oracle running the model's own DoMove *)
Example transfer_kiwipete :
  let p := setup_of_spec real_tabs kiwipete in
  is_attacked_impl (view_of_ipos p) 28 BLACK = Some true /\
  is_attacked_impl (view_of_ipos p) 0 BLACK = Some false /\
  has_check_impl (view_of_ipos p) = Some false /\
  option_map (@length N) (gen_pseudo true (view_of_ipos p) 3 false) = Some 48%nat /\
  option_map (@length N) (gen_legal true (eng_legal_ipos real_tabs p) (view_of_ipos p) 3) = Some 48%nat.
Proof. vm_compute. repeat split; reflexivity. Qed.

(* a position where the oracle rejects moves: white king d2 checked by the queen a5: 23 pseudo-legal, 4 legal *)
Module GlueFen.
  Import String.
  Local Open Scope string_scope.
  Definition check_s : string := "rnb1kbnr/pp1ppppp/8/q1p5/8/3P4/PPPKPPPP/RNBQ1BNR w kq - 0 1".
  Definition rk_s : string := "4k3/8/8/8/8/8/8/4R1K1 b - - 0 1".
End GlueFen.
Definition check_pos : pos := pos_of GlueFen.check_s.
Definition rk_pos : pos := pos_of GlueFen.rk_s.

Example transfer_check :
  let p := setup_of_spec real_tabs check_pos in
  invb real_tabs p = true /\ legal_pos (abs p) = true /\
  has_check_impl (view_of_ipos p) = Some true /\
  option_map (@length N) (gen_pseudo true (view_of_ipos p) 3 false) = Some 23%nat /\
  option_map (@length N) (gen_legal true (eng_legal_ipos real_tabs p) (view_of_ipos p) 3) = Some 4%nat /\
  length (legal (abs p)) = 4%nat.
Proof. vm_compute. repeat split; reflexivity. Qed.

(** ** Refuted twin: "Reach p -> view_of_ipos p = view_of_spec (abs p)" without the king guard.
    4k3/8/8/8/8/8/8/4R1K1 b - - 0 1 (a legal position), DoNullMove, DoMove e1xe8 (code 316; pseudo-
    legal for White): the black king is gone, kingSquare[Black] still says e8 = 60 (only putPiece
    writes kingSquare), [Rules.king_sq] says 64.  Confirmed on the engine through the position API
    (NewPositionFen, DoNullMove, DoMove(CreateMove(SqE1, SqE8, Normal, PtNone)):
    KingSquare(Black) = 60, PiecesBb(Black, King) = 0).  Not a defect of the engine: the search
    never makes a null move when in check and never captures a king; setupBoard rejects FENs
    without both kings or with the side not to move in check. *)
Definition rxe8 : mv := mkmv 4 60 NORMAL 3.

Theorem reachable_view_refuted :
  exists p, Reach real_tabs p /\ legal_pos rk_pos = true /\
    vking (view_of_ipos p) = (6, 60) /\ vking (view_of_spec (abs p)) = (6, 64) /\
    nth 8 (pieces (view_of_ipos p)) 0 = 0 /\
    view_of_ipos p <> view_of_spec (abs p) /\
    view_of_ipos p = set_vking (view_of_spec (abs p)) (6, 60).
Proof.
  set (p0 := setup_of_spec real_tabs rk_pos).
  assert (R0 : Reach real_tabs p0) by (apply reach_of_invb; vm_compute; reflexivity).
  assert (r0 : room p0) by (unfold room; vm_compute; lia).
  set (p1 := do_null_raw real_tabs p0).
  assert (R1 : Reach real_tabs p1) by (apply R_null; assumption).
  assert (r1 : room p1) by (unfold room; vm_compute; lia).
  destruct (reach_inv real_tabs p1 R1) as [W1 _].
  assert (Hm : In rxe8 (pseudo (abs p1))) by (vm_compute; tauto).
  pose proof (pseudo_move_ok real_tabs p1 W1 rxe8 Hm) as Hok.
  exists (do_move_raw real_tabs p1 (code rxe8)).
  split; [apply R_do; assumption|].
  split; [vm_compute; reflexivity|]. split; [vm_compute; reflexivity|]. split; [vm_compute; reflexivity|].
  split; [vm_compute; reflexivity|].
  split; [|vm_compute; reflexivity].
  intros E. apply (f_equal vking) in E. vm_compute in E. discriminate E.
Qed.

(* and from a fresh kingless board: kingSquare is the zero value (a1, a1) *)
Definition kingless : pos := mkpos (repeat 0 64) WHITE 0 64 0 1.
Theorem view_of_ipos_exact_refuted :
  exists p, Inv real_tabs p /\ Reach real_tabs p /\
    vking (view_of_ipos p) = (0, 0) /\ vking (view_of_spec (abs p)) = (64, 64) /\
    view_of_ipos p <> view_of_spec (abs p).
Proof.
  exists (setup_of_spec real_tabs kingless).
  assert (I : invb real_tabs (setup_of_spec real_tabs kingless) = true) by (vm_compute; reflexivity).
  split; [now apply invb_sound|]. split; [apply reach_of_invb; [exact I|reflexivity]|].
  split; [vm_compute; reflexivity|]. split; [vm_compute; reflexivity|].
  intros E. apply (f_equal vking) in E. vm_compute in E. discriminate E.
Qed.

(** ** Assumptions *)
Print Assumptions view_core_exact.
Print Assumptions view_components_exact.
Print Assumptions view_of_ipos_exact.
Print Assumptions view_of_ipos_exact_wf.
Print Assumptions view_of_ipos_exact_legal.
Print Assumptions reachable_view.
Print Assumptions reachable_view_legal.
Print Assumptions reachable_view_core.
Print Assumptions reachable_view_real.
Print Assumptions setup_view.
Print Assumptions c09_ipos.
Print Assumptions is_attacked_ipos.
Print Assumptions has_check_ipos.
Print Assumptions do_move_view.
Print Assumptions is_legal_ipos.
Print Assumptions legal_step_view.
Print Assumptions pseudo_ipos.
Print Assumptions legal_moves_ipos.
Print Assumptions legal_moves_exact_ipos.
Print Assumptions reachable_view_refuted.
Print Assumptions view_of_ipos_exact_refuted.
