(** * Tables: the implementation side of the lookup tables.
    The table *contents* come from [FG.gen.Tables_gen], dumped from the running
    engine on every run; the *lookup functions* transcribe internal/types/bitboard.go
    and magic.go ([GetAttacksBb], [Magic.index], [ShiftBitboard]). *)
From Coq Require Import NArith ZArith List Bool Lia Uint63.
From FG Require Import Word64 Geom.
From FG.gen Require Import Tables_gen.
Import ListNotations.
Open Scope N_scope.

Definition tbl (l : list (int * int)) : list N := map n_of_pair l.
Definition tbli (l : list int) : list N := map n_of_int l.

Definition nthN {A} (l : list A) (i : N) : option A := nth_error l (N.to_nat i).

(* magic.go: func (m *Magic) index(occupied) = ((occupied & mask) * magic) >> shift *)
Definition magic_index (mask magic shift occ : N) : N :=
  N.shiftr (wmul (N.land occ mask) magic) shift.

Definition magic_lookup (masks magics : list (int * int)) (shifts : list int)
           (attacks : list (list (int * int))) (sq occ : N) : option N :=
  match nthN masks sq, nthN magics sq, nthN shifts sq, nthN attacks sq with
  | Some m, Some g, Some sh, Some a =>
      match nthN a (magic_index (n_of_pair m) (n_of_pair g) (n_of_int sh) occ) with
      | Some v => Some (n_of_pair v)
      | None => None
      end
  | _, _, _, _ => None
  end.

Definition rook_attacks_impl := magic_lookup rook_mask rook_magic rook_shift rook_attacks.
Definition bishop_attacks_impl := magic_lookup bishop_mask bishop_magic bishop_shift bishop_attacks.
Definition queen_attacks_impl (sq occ : N) : option N :=
  match bishop_attacks_impl sq occ, rook_attacks_impl sq occ with
  | Some b, Some r => Some (N.lor b r)
  | _, _ => None
  end.

Definition look (t : list (int * int)) (sq : N) : option N :=
  match nthN t sq with Some p => Some (n_of_pair p) | None => None end.
Definition looki (t : list int) (i : N) : option N :=
  match nthN t i with Some p => Some (n_of_int p) | None => None end.

(* bitboard.go: ShiftBitboard.  Masks come from the dump (Rank8Mask, MsbMask, FileAMask, FileHMask). *)
Definition shift_masks : list N := tbl t_shift_masks.
Definition rank8mask := nth 0 shift_masks 0.
Definition msbmask := nth 1 shift_masks 0.
Definition fileAmask := nth 2 shift_masks 0.
Definition fileHmask := nth 3 shift_masks 0.

Definition shift_impl (b : N) (d : dir) : N :=
  match d with
  | DN => wshl (N.land rank8mask b) 8
  | DE => N.land (wshl (N.land msbmask b) 1) fileAmask
  | DS => N.shiftr b 8
  | DW => N.land (N.shiftr b 1) fileHmask
  | DNE => N.land (wshl (N.land rank8mask b) 9) fileAmask
  | DSE => N.land (N.shiftr b 7) fileAmask
  | DSW => N.land (N.shiftr b 9) fileHmask
  | DNW => N.land (wshl b 7) fileHmask
  end.
