(** * FenProofs: theorems about the FEN reader/writer model [FenImpl] (C16, first half).

    Main results
      [fen_total]            setup never panics, for ALL byte strings
      [fen_wellformed]       what an accepted string guarantees ([fpos_wf])
      [fen_reparse_wf]       fen() of any well-formed position is accepted again and gives
                             the same position
      [fen_reparse]          ... in particular for every accepted string (no guard)
      [fen_roundtrip_legal]  every legal position's FEN round-trips exactly            *)
From Coq Require Import NArith ZArith List Bool Lia ZifyN ZifyBool.
From FG Require Import Geom Rules FenSpec Oracle FenImpl.
Import ListNotations.
Open Scope N_scope.

Ltac Zify.zify_post_hook ::= Z.to_euclidean_division_equations.

Lemma some_inj {A} (a b : A) : Some a = Some b -> a = b.
Proof. congruence. Qed.

Lemma inr_inj {A B} (a b : B) : @inr A B a = inr b -> a = b.
Proof. congruence. Qed.

(** ** lists *)
Lemma put_opt_spec b : forall n v, (n < length b)%nat ->
  exists b', put_opt b n v = Some b' /\ length b' = length b /\
             forall k, nth k b' 0 = if Nat.eqb k n then v else nth k b 0.
Proof.
  induction b as [|h t IH]; intros n v Hn; [cbn in Hn; lia|].
  destruct n as [|n]; cbn [put_opt].
  - eexists; split; [reflexivity|]. split; [reflexivity|]. intros [|k]; reflexivity.
  - destruct (IH n v) as (t' & E & Hl & Hk); [cbn in Hn; lia|]. rewrite E.
    eexists; split; [reflexivity|]. split; [cbn; lia|]. intros [|k]; cbn; [reflexivity|apply Hk].
Qed.

Lemma put_opt_cells b n v b' : put_opt b n v = Some b' -> forallb cell_ok b = true -> cell_ok v = true ->
  forallb cell_ok b' = true.
Proof.
  revert n b'. induction b as [|h t IH]; intros n b' E Hb Hv; [destruct n; discriminate|].
  cbn in Hb. apply andb_true_iff in Hb as [Hh Ht]. destruct n as [|n]; cbn [put_opt] in E.
  - injection E as <-. cbn. now rewrite Hv, Ht.
  - destruct (put_opt t n v) as [t'|] eqn:E'; [|discriminate]. injection E as <-.
    cbn. rewrite Hh. cbn. eapply IH; eauto.
Qed.

Lemma list_ext_nth (a b : list N) : length a = length b ->
  (forall k, (k < length a)%nat -> nth k a 0 = nth k b 0) -> a = b.
Proof.
  revert b. induction a as [|x a IH]; intros [|y b] Hl H; try discriminate; [reflexivity|].
  f_equal; [apply (H O); cbn; lia|]. apply IH; [cbn in Hl; lia|].
  intros k Hk. apply (H (S k)). cbn; lia.
Qed.

Lemma nth_error_at b s : (N.to_nat s < length b)%nat -> nth_error b (N.to_nat s) = Some (at_ b s).
Proof. intros H. unfold at_. now apply nth_error_nth'. Qed.

(** ** the board loop never indexes outside the board *)
Lemma square_of_lt f r : f <= 7 -> r <= 7 -> square_of f r = 8 * r + f.
Proof.
  intros Hf Hr. unfold square_of.
  replace (f <? 8) with true by (symmetry; apply N.ltb_lt; lia).
  replace (r <? 8) with true by (symmetry; apply N.ltb_lt; lia). reflexivity.
Qed.

Lemma piece_from_char_ok c pc : piece_from_char c = Some pc -> cell_ok pc = true.
Proof.
  unfold piece_from_char.
  repeat (match goal with |- context [if ?x =? ?y then _ else _] => destruct (x =? y) end;
          [intros E; injection E as <-; reflexivity|]).
  discriminate.
Qed.

Lemma board_loop_inv cs : forall file rank b,
  length b = 64%nat -> rank <= 7 -> forallb cell_ok b = true ->
  match board_loop cs file rank b with
  | LPanic => False
  | LErr _ => True
  | LDone _ _ b' => length b' = 64%nat /\ forallb cell_ok b' = true
  end.
Proof.
  induction cs as [|c r IH]; intros file rank b Hl Hr Hc; cbn [board_loop]; [now split|].
  destruct (128 <=? c); [exact I|].
  destruct (digit c).
  { destruct ((c - 48 =? 0) || (8 <? file + (c - 48))); [exact I|]. now apply IH. }
  destruct (c =? 47).
  { destruct (negb (file =? 8) || (rank =? 0)); [exact I|]. apply IH; auto; lia. }
  destruct (piece_from_char c) as [pc|] eqn:Epc; [|exact I].
  destruct (7 <? file) eqn:Ef; [exact I|]. apply N.ltb_ge in Ef.
  rewrite square_of_lt by assumption.
  destruct (put_opt_spec b (N.to_nat (8 * rank + file)) pc) as (b' & E & Hl' & _); [lia|].
  rewrite E. apply IH; [lia|assumption|].
  eapply put_opt_cells; eauto. eapply piece_from_char_ok; eauto.
Qed.

Lemma empty_board_len : length empty_board = 64%nat.
Proof. reflexivity. Qed.
Lemma empty_board_cells : forallb cell_ok empty_board = true.
Proof. reflexivity. Qed.

(** ** the en-passant field *)
Lemma ep_square_range s sq : ep_square s = inr sq ->
  sq = 64 \/ (sq < 64 /\ (N.shiftr sq 3 = 2 \/ N.shiftr sq 3 = 5)).
Proof.
  unfold ep_square. destruct s as [|f [|r [|x t]]]; try discriminate.
  - destruct (f =? 45); [intros E; injection E as <-; now left|discriminate].
  - destruct ((97 <=? f) && (f <=? 104) && (49 <=? r) && (r <=? 56)) eqn:Ecl; [|discriminate].
    assert (Hf : f - 97 <= 7) by lia. assert (Hr : r - 49 <= 7) by lia.
    rewrite square_of_lt by assumption.
    remember (8 * (r - 49) + (f - 97)) as sq0 eqn:Esq0.
    destruct ((N.shiftr sq0 3 =? 2) || (N.shiftr sq0 3 =? 5)) eqn:Erk; [|discriminate].
    intros E; injection E as <-. right. split; [clear Erk Ecl; lia|].
    apply orb_true_iff in Erk as [H|H]; apply N.eqb_eq in H; auto.
Qed.

Lemma shiftr3 s : N.shiftr s 3 = s / 8.
Proof. now rewrite N.shiftr_div_pow2. Qed.

Lemma ep_fit_inv sq side b : length b = 64%nat -> sq < 64 ->
  match ep_fit sq side b with
  | EPanic => False
  | EErr _ => True
  | EOk e => e = sq /\ N.shiftr sq 3 = (if side =? 0 then 5 else 2) /\ at_ b sq = 0 /\
             at_ b (if side =? 0 then sq - 8 else sq + 8) = 8 * (1 - side) + 2
  end.
Proof.
  intros Hl Hsq. unfold ep_fit.
  destruct (N.shiftr sq 3 =? (if side =? 0 then 5 else 2)) eqn:Erk; cbn [negb]; [|exact I].
  apply N.eqb_eq in Erk. rewrite nth_error_at by lia.
  destruct (at_ b sq =? 0) eqn:E0; cbn [negb]; [|exact I]. apply N.eqb_eq in E0.
  rewrite shiftr3 in Erk.
  assert (Hps : (if side =? 0 then to_south sq else to_north sq) = (if side =? 0 then sq - 8 else sq + 8)
                /\ (if side =? 0 then sq - 8 else sq + 8) < 64).
  { unfold to_south, to_north. destruct (side =? 0).
    - replace ((8 <=? sq) && (sq <? 64)) with true by (symmetry; apply andb_true_iff; split; lia). lia.
    - replace (sq <? 56) with true by (symmetry; apply N.ltb_lt; lia). lia. }
  destruct Hps as [-> Hlt]. rewrite nth_error_at by lia.
  destruct (at_ b (if side =? 0 then sq - 8 else sq + 8) =? 8 * (1 - side) + 2) eqn:Ep; cbn [negb]; [|exact I].
  apply N.eqb_eq in Ep. rewrite shiftr3. auto.
Qed.

(** ** [fen_total]: position setup from ANY byte string returns an error or a position *)
Theorem fen_total : forall s, setup s <> Panic.
Proof.
  intros s. unfold setup, setup_parts.
  destruct (split_sp (trim_space s) []) as [|p0 rest] eqn:Eparts; [discriminate|].
  destruct (negb (existsb fenpos_char p0)); [discriminate|].
  pose proof (board_loop_inv p0 0 7 empty_board empty_board_len ltac:(lia) empty_board_cells) as Hinv.
  destruct (board_loop p0 0 7 empty_board) as [file rank b|e|]; [|discriminate|contradiction].
  destruct Hinv as [Hl Hc].
  destruct (negb (rank =? 0) || negb (file =? 8)); [discriminate|].
  destruct (negb (Nat.eqb (count_code b 1) 1) || negb (Nat.eqb (count_code b 9) 1)); [discriminate|].
  unfold setup_rest.
  destruct (side_field _) as [side|]; [|discriminate].
  destruct (cr_field _) as [cr|]; [|discriminate].
  unfold ep_field.
  destruct (nth_error (p0 :: rest) 3) as [es|].
  - destruct (ep_square es) as [e|sq] eqn:Esq; [discriminate|].
    destruct (sq =? 64) eqn:E64.
    + destruct (hmc_field _); [discriminate|]. destruct (mn_field _ _ _); [discriminate|].
      destruct (is_attacked_spec _ _ _); discriminate.
    + apply N.eqb_neq in E64. apply ep_square_range in Esq as [?|[Hlt _]]; [contradiction|].
      pose proof (ep_fit_inv sq side b Hl Hlt) as Hfit.
      destruct (ep_fit sq side b); [|discriminate|contradiction].
      destruct (hmc_field _); [discriminate|]. destruct (mn_field _ _ _); [discriminate|].
      destruct (is_attacked_spec _ _ _); discriminate.
  - destruct (hmc_field _); [discriminate|]. destruct (mn_field _ _ _); [discriminate|].
    destruct (is_attacked_spec _ _ _); discriminate.
Qed.

(* non-vacuity: both outcomes occur; an over-long rank ("8p/...", which used to panic) is an error *)
Example fen_total_ok : exists p, setup [52;107;51;47;56;47;56;47;56;47;56;47;56;47;56;47;52;75;51] = Ok p.
Proof. eexists. vm_compute. reflexivity. Qed.
Example fen_total_err_8p : setup [56;112;47;56;47;56;47;56;47;56;47;56;47;56;47;107;54;75] = Err 5.
Proof. vm_compute. reflexivity. Qed.
Example fen_total_err_88 : setup [56;56;47;56;47;56;47;56;47;56;47;56;47;56;47;107;54;75] = Err 2.
Proof. vm_compute. reflexivity. Qed.

(** ** [fen_wellformed] *)
Lemma wrap64_range z : in_int64 (wrap64 z) = true.
Proof. unfold in_int64, wrap64, two63, two64. lia. Qed.

Lemma atoi_range s z : atoi s = Some z -> in_int64 z = true.
Proof.
  unfold atoi.
  destruct (match s with [] => (false, []) | c :: r => if c =? 43 then (false, r) else if c =? 45 then (true, r) else (false, s) end)
    as [neg ds].
  destruct ds; [discriminate|]. destruct (forallb digit (n :: ds)); [|discriminate].
  match goal with |- context [in_int64 ?x] => destruct (in_int64 x) eqn:E end; [|discriminate].
  intros H; injection H as <-. exact E.
Qed.

Definition cr_bits : list N := [0;1;2;4;8].
Lemma cr_bit_in c : In (cr_bit c) cr_bits.
Proof.
  unfold cr_bit, cr_bits.
  repeat (match goal with |- context [if ?x =? ?y then _ else _] => destruct (x =? y) end; [cbn; tauto|]).
  cbn; tauto.
Qed.
Lemma lor_bits_16 : forallb (fun a => forallb (fun b => N.lor a b <? 16) cr_bits) (map N.of_nat (seq 0 16)) = true.
Proof. vm_compute. reflexivity. Qed.
Lemma lor_bit_lt a c : a < 16 -> N.lor a (cr_bit c) < 16.
Proof.
  intros Ha. pose proof lor_bits_16 as H. rewrite forallb_forall in H.
  specialize (H a). rewrite forallb_forall in H. apply N.ltb_lt. apply H; [|apply cr_bit_in].
  apply in_map_iff. exists (N.to_nat a). split; [lia|]. apply in_seq. lia.
Qed.
Lemma cr_fold_lt s : forall a, a < 16 -> fold_left (fun acc c => N.lor acc (cr_bit c)) s a < 16.
Proof. induction s as [|c s IH]; intros a Ha; cbn; [assumption|]. apply IH. now apply lor_bit_lt. Qed.

Lemma side_field_lt o side : side_field o = Some side -> side < 2.
Proof.
  unfold side_field. destruct o as [[|c [|x t]]|]; try discriminate.
  - destruct (c =? 119); [intros H; injection H as <-; lia|].
    destruct (c =? 124); [intros H; injection H as <-; lia|].
    destruct (c =? 98); [intros H; injection H as <-; lia|discriminate].
  - intros H; injection H as <-; lia.
Qed.

Lemma cr_field_lt o cr : cr_field o = Some cr -> cr < 16.
Proof.
  unfold cr_field. destruct o as [s|]; [|intros H; injection H as <-; lia].
  destruct (cr_regex s); [|discriminate]. intros H; injection H as <-. apply cr_fold_lt. lia.
Qed.

Lemma mn_field_ok o side nhm : side < 2 -> mn_field o side (if side =? 1 then 2%Z else 1%Z) = inr nhm ->
  (1 <= nhm <= 2 * max_move_number)%Z /\ ((nhm + Z.of_N side) mod 2 = 1)%Z.
Proof.
  intros Hs. unfold mn_field, max_move_number. destruct o as [s|].
  - destruct (atoi s) as [m|]; [|discriminate].
    destruct ((m <? 0)%Z || (1000000 <? m)%Z) eqn:Er; [discriminate|].
    intros H. apply inr_inj in H. destruct (m =? 0)%Z eqn:E0; lia.
  - intros H. apply inr_inj in H. assert (side = 0 \/ side = 1) as [E|E] by lia; rewrite E in *; cbn [N.eqb Pos.eqb Z.of_N] in H; lia.
Qed.

Lemma hmc_field_ok o hmc : hmc_field o = inr hmc -> (0 <= hmc < two63)%Z.
Proof.
  unfold hmc_field. destruct o as [s|].
  - destruct (atoi s) as [v|] eqn:Ea; [|discriminate]. apply atoi_range in Ea. unfold in_int64 in Ea.
    destruct (v <? 0)%Z eqn:E0; [discriminate|]. intros H. apply inr_inj in H. unfold two63 in *. lia.
  - intros H. apply inr_inj in H. unfold two63. lia.
Qed.

Lemma ep_field_wf o side b e cr hmc nhm : length b = 64%nat -> ep_field o side b = EOk e ->
  ep_wf (mkfpos b side cr e hmc nhm) = true.
Proof.
  intros Hl. unfold ep_field, ep_wf. cbn [f_ep f_board f_side].
  destruct o as [s|]; [|intros H; injection H as <-; reflexivity].
  destruct (ep_square s) as [x|sq] eqn:Esq; [discriminate|].
  destruct (sq =? 64) eqn:E64; [intros H; injection H as <-; reflexivity|].
  apply N.eqb_neq in E64. apply ep_square_range in Esq as [?|[Hlt _]]; [contradiction|].
  pose proof (ep_fit_inv sq side b Hl Hlt) as Hfit. intros E. rewrite E in Hfit.
  destruct Hfit as (-> & Hrk & H0 & Hp). rewrite Hrk, H0, Hp, !N.eqb_refl.
  replace (sq <? 64) with true by (symmetry; now apply N.ltb_lt). apply orb_true_r.
Qed.

Theorem fen_wellformed : forall s p, setup s = Ok p -> fpos_wf p = true.
Proof.
  intros s p. unfold setup, setup_parts.
  destruct (split_sp (trim_space s) []) as [|p0 rest] eqn:Eparts; [discriminate|].
  destruct (negb (existsb fenpos_char p0)); [discriminate|].
  pose proof (board_loop_inv p0 0 7 empty_board empty_board_len ltac:(lia) empty_board_cells) as Hinv.
  destruct (board_loop p0 0 7 empty_board) as [file rank b|e|]; [|discriminate|contradiction].
  destruct Hinv as [Hl Hc].
  destruct (negb (rank =? 0) || negb (file =? 8)); [discriminate|].
  destruct (negb (Nat.eqb (count_code b 1) 1) || negb (Nat.eqb (count_code b 9) 1)) eqn:Ek; [discriminate|].
  apply orb_false_iff in Ek as [Ek1 Ek9]. apply negb_false_iff in Ek1, Ek9.
  unfold setup_rest.
  destruct (side_field _) as [side|] eqn:Eside; [|discriminate]. apply side_field_lt in Eside.
  destruct (cr_field _) as [cr|] eqn:Ecr; [|discriminate]. apply cr_field_lt in Ecr.
  destruct (ep_field _ _ _) as [ep|x|] eqn:Eep; [|discriminate|discriminate].
  destruct (hmc_field _) as [x|hmc] eqn:Ehmc; [discriminate|].
  destruct (mn_field _ _ _) as [x|nhm] eqn:Emn; [discriminate|].
  destruct (is_attacked_spec _ _ _) eqn:Eatt; [discriminate|].
  intros H; injection H as <-.
  apply (mn_field_ok _ _ _ Eside) in Emn as [Hnhm Hpar].
  apply hmc_field_ok in Ehmc.
  unfold fpos_wf, not_in_check. cbn [f_board f_side f_cr f_ep f_hmc f_nhm].
  rewrite Hl, Hc, Ek1, Ek9, (ep_field_wf _ _ _ _ cr hmc nhm Hl Eep), Eatt.
  replace (side <? 2) with true by (symmetry; now apply N.ltb_lt).
  replace (cr <? 16) with true by (symmetry; now apply N.ltb_lt).
  replace ((nhm + Z.of_N side) mod 2 =? 1)%Z with true by (symmetry; now apply Z.eqb_eq).
  replace (0 <=? hmc)%Z with true by lia. replace (hmc <? two63)%Z with true by lia.
  replace (1 <=? nhm)%Z with true by lia. replace (nhm <=? 2 * max_move_number)%Z with true by lia.
  reflexivity.
Qed.

(** readable form of [fpos_wf] *)
Lemma fpos_wf_inv p : fpos_wf p = true ->
  length (f_board p) = 64%nat /\ forallb cell_ok (f_board p) = true /\
  count_code (f_board p) 1 = 1%nat /\ count_code (f_board p) 9 = 1%nat /\
  f_side p < 2 /\ f_cr p < 16 /\ ep_wf p = true /\
  (0 <= f_hmc p < two63)%Z /\ (1 <= f_nhm p <= 2 * max_move_number)%Z /\
  ((f_nhm p + Z.of_N (f_side p)) mod 2 = 1)%Z /\ not_in_check p = true.
Proof.
  unfold fpos_wf. intros H.
  repeat (apply andb_true_iff in H as [H ?]).
  apply Nat.eqb_eq in H.
  repeat match goal with
         | H : Nat.eqb _ _ = true |- _ => apply Nat.eqb_eq in H
         | H : (_ <? _) = true |- _ => apply N.ltb_lt in H
         | H : (_ =? _)%Z = true |- _ => apply Z.eqb_eq in H
         | H : (_ <=? _)%Z = true |- _ => apply Z.leb_le in H
         | H : (_ <? _)%Z = true |- _ => apply Z.ltb_lt in H
         end.
  repeat split; assumption.
Qed.

Corollary fen_wellformed_spelled : forall s p, setup s = Ok p ->
  length (f_board p) = 64%nat /\
  (forall pc, In pc (f_board p) -> pc = 0 \/ 1 <= pc <= 6 \/ 9 <= pc <= 14) /\
  count_code (f_board p) 1 = 1%nat /\ count_code (f_board p) 9 = 1%nat /\
  f_side p < 2 /\ f_cr p < 16 /\
  (f_ep p = 64 \/
   (f_ep p < 64 /\ f_ep p / 8 = (if f_side p =? 0 then 5 else 2) /\ at_ (f_board p) (f_ep p) = 0 /\
    at_ (f_board p) (if f_side p =? 0 then f_ep p - 8 else f_ep p + 8) = 8 * (1 - f_side p) + 2)) /\
  (0 <= f_hmc p < two63)%Z /\ (1 <= f_nhm p <= 2000000)%Z /\
  ((f_nhm p + Z.of_N (f_side p)) mod 2 = 1)%Z /\
  is_attacked_spec (mkpos (f_board p) (f_side p) (f_cr p) (f_ep p) 0 0)
                   (king_sq (f_board p) (1 - f_side p)) (f_side p) = false.
Proof.
  intros s p H. apply fen_wellformed in H. apply fpos_wf_inv in H.
  destruct H as (Hl & Hc & Hk1 & Hk9 & Hs & Hcr & Hep & Hh & Hn & Hpar & Hchk).
  unfold max_move_number in Hn.
  repeat split; try assumption; try lia.
  - intros pc Hin. rewrite forallb_forall in Hc. specialize (Hc pc Hin). unfold cell_ok, valid_code in Hc. lia.
  - unfold ep_wf in Hep. apply orb_true_iff in Hep as [He|He]; [left; now apply N.eqb_eq|right].
    repeat (apply andb_true_iff in He as [He ?]).
    rewrite <- shiftr3. repeat split; try (now apply N.eqb_eq); now apply N.ltb_lt.
  - unfold not_in_check in Hchk. now apply negb_true_iff in Hchk.
Qed.

(* non-vacuity: a position with an en-passant square, Black to move *)
Example fen_wellformed_ex :
  exists p, setup [114;110;98;113;107;98;110;114;47;112;112;112;112;112;112;112;112;47;56;47;56;47;52;80;51;47;56;47;80;80;80;80;49;80;80;80;47;82;78;66;81;75;66;78;82;32;98;32;75;81;107;113;32;101;51;32;48;32;49] = Ok p
            /\ f_ep p = 20 /\ fpos_wf p = true.
Proof. eexists. split; [vm_compute; reflexivity|]. split; vm_compute; reflexivity. Qed.

(** ** decimal numbers: Atoi (Itoa z) = z *)
Lemma udec_app fuel : forall n acc, udec fuel n acc = udec fuel n [] ++ acc.
Proof.
  induction fuel as [|k IH]; intros n acc; [reflexivity|].
  cbn [udec]. destruct (n / 10 =? 0); [reflexivity|].
  rewrite (IH (n / 10) ((48 + n mod 10) :: acc)), (IH (n / 10) [48 + n mod 10]).
  now rewrite <- app_assoc.
Qed.

Lemma udec_snoc k n :
  udec (S k) n [] = (if n / 10 =? 0 then [] else udec k (n / 10) []) ++ [48 + n mod 10].
Proof. cbn [udec]. destruct (n / 10 =? 0); [reflexivity|]. apply udec_app. Qed.

Lemma digits_val_snoc l d : digits_val (l ++ [d]) = 10 * digits_val l + (d - 48).
Proof. unfold digits_val. now rewrite fold_left_app. Qed.

Lemma pow10_succ k : 10 ^ N.of_nat (S k) = 10 * 10 ^ N.of_nat k.
Proof. rewrite Nat2N.inj_succ. apply N.pow_succ_r'. Qed.

Lemma udec_ok k : forall n, n < 10 ^ N.of_nat (S k) ->
  digits_val (udec (S k) n []) = n /\ forallb digit (udec (S k) n []) = true.
Proof.
  induction k as [|k IH]; intros n Hn; rewrite udec_snoc, digits_val_snoc, forallb_app.
  - change (10 ^ N.of_nat 1) with 10 in Hn.
    replace (n / 10 =? 0) with true by lia. cbn [digits_val fold_left forallb udec].
    unfold digit. split; lia.
  - rewrite pow10_succ in Hn. set (P := 10 ^ N.of_nat (S k)) in *.
    destruct (n / 10 =? 0) eqn:E.
    + cbn [digits_val fold_left forallb]. unfold digit. split; lia.
    + destruct (IH (n / 10)) as [Hv Hd]; [lia|]. rewrite Hv, Hd. cbn [forallb]. unfold digit. split; lia.
Qed.

Lemma udec_nonempty k n : udec (S k) n [] <> [].
Proof. rewrite udec_snoc. now destruct (if n / 10 =? 0 then [] else udec k (n / 10) []). Qed.

Lemma pow10_20 : 10 ^ N.of_nat 20 = 100000000000000000000.
Proof. reflexivity. Qed.

Lemma atoi_itoa z : in_int64 z = true -> atoi (itoa z) = Some z.
Proof.
  intros Hz. unfold in_int64, two63 in Hz. unfold itoa.
  destruct (z <? 0)%Z eqn:Ez.
  - set (n := Z.to_N (- z)).
    destruct (udec_ok 19 n) as [Hv Hd]; [rewrite pow10_20; lia|].
    pose proof (udec_nonempty 19 n) as Hne.
    unfold atoi. change (45 =? 43) with false. change (45 =? 45) with true. cbv iota beta.
    destruct (udec 20 n []) as [|c ds] eqn:Eds; [contradiction|].
    rewrite Hd, Hv. replace (- Z.of_N n)%Z with z by lia.
    unfold in_int64, two63. rewrite Hz. reflexivity.
  - set (n := Z.to_N z).
    destruct (udec_ok 19 n) as [Hv Hd]; [rewrite pow10_20; lia|].
    pose proof (udec_nonempty 19 n) as Hne.
    unfold atoi. destruct (udec 20 n []) as [|c ds] eqn:Eds; [contradiction|].
    assert (Hc : digit c = true) by (cbn in Hd; now apply andb_true_iff in Hd as [? _]).
    unfold digit in Hc.
    replace (c =? 43) with false by lia. replace (c =? 45) with false by lia.
    rewrite Hd, Hv. replace (Z.of_N n) with z by lia.
    unfold in_int64, two63. rewrite Hz. reflexivity.
Qed.

Lemma itoa_last z : exists pre d, itoa z = pre ++ [d] /\ digit d = true.
Proof.
  unfold itoa. destruct (z <? 0)%Z.
  - rewrite udec_snoc. eexists (45 :: _), _. split; [reflexivity|]. unfold digit. lia.
  - rewrite udec_snoc. eexists _, _. split; [reflexivity|]. unfold digit. lia.
Qed.

Definition nosp (s : str) : bool := forallb (fun c => negb (c =? 32)) s.

Lemma digits_nosp s : forallb digit s = true -> nosp s = true.
Proof.
  unfold nosp. intros H. rewrite forallb_forall in *. intros c Hc. specialize (H c Hc). unfold digit in H. lia.
Qed.

Lemma itoa_nosp z : (- two63 <= z < two63)%Z -> nosp (itoa z) = true.
Proof.
  unfold two63. intros Hz. unfold itoa. destruct (z <? 0)%Z eqn:Ez.
  - change (nosp (45 :: ?l)) with (nosp l). apply digits_nosp. apply udec_ok. rewrite pow10_20. lia.
  - apply digits_nosp. apply udec_ok. rewrite pow10_20. lia.
Qed.

(** ** strings.Split on a string whose fields are known *)
Lemma split_sp_field a rest : nosp a = true -> forall cur,
  split_sp (a ++ 32 :: rest) cur = (rev cur ++ a) :: split_sp rest [].
Proof.
  induction a as [|c a IH]; intros Ha cur.
  - cbn. now rewrite app_nil_r.
  - cbn in Ha. apply andb_true_iff in Ha as [Hc Ha]. cbn [app split_sp].
    apply negb_true_iff in Hc. rewrite Hc, (IH Ha). cbn [rev]. now rewrite <- app_assoc.
Qed.
Lemma split_sp_last a : nosp a = true -> forall cur, split_sp a cur = [rev cur ++ a].
Proof.
  induction a as [|c a IH]; intros Ha cur.
  - cbn. now rewrite app_nil_r.
  - cbn in Ha. apply andb_true_iff in Ha as [Hc Ha]. cbn [split_sp].
    apply negb_true_iff in Hc. rewrite Hc, (IH Ha). cbn [rev]. now rewrite <- app_assoc.
Qed.

(** ** strings.TrimSpace leaves the output of fen() alone *)
Lemma strip_all_none f fuel s : f s = None -> strip_all f fuel s = s.
Proof. intros H. destruct fuel; cbn; [reflexivity|now rewrite H]. Qed.

Lemma strip1_ascii c r : c < 128 -> is_ascii_space c = false -> strip1 (c :: r) = None.
Proof.
  intros Hc Hs. unfold strip1. rewrite Hs.
  replace (c =? 194) with false by lia. replace (c =? 225) with false by lia.
  replace (c =? 226) with false by lia. replace (c =? 227) with false by lia.
  destruct r as [|b [|d r3]]; reflexivity.
Qed.

Lemma strip1r_digit d r : digit d = true -> strip1r (d :: r) = None.
Proof.
  intros Hd. unfold digit in Hd. unfold strip1r.
  replace (is_ascii_space d) with false by (unfold is_ascii_space; lia).
  destruct r as [|b [|x r3]]; [reflexivity| |].
  - replace ((b =? 194) && ((d =? 133) || (d =? 160))) with false by lia. reflexivity.
  - replace ((b =? 194) && ((d =? 133) || (d =? 160))) with false by lia.
    replace ((x =? 225) && (b =? 154) && (d =? 128)) with false by lia.
    replace ((x =? 226) && (b =? 128) && e280_space d) with false by (unfold e280_space; lia).
    replace ((x =? 226) && (b =? 129) && (d =? 159)) with false by lia.
    replace ((x =? 227) && (b =? 128) && (d =? 128)) with false by lia.
    reflexivity.
Qed.

Lemma trim_space_id c r pre d :
  c < 128 -> is_ascii_space c = false -> digit d = true -> c :: r = pre ++ [d] ->
  trim_space (c :: r) = c :: r.
Proof.
  intros Hc Hs Hd E. unfold trim_space.
  rewrite (strip_all_none strip1) by now apply strip1_ascii.
  rewrite E, rev_app_distr. cbn [rev app].
  rewrite (strip_all_none strip1r) by now apply strip1r_digit.
  change (d :: rev pre) with (rev [d] ++ rev pre). now rewrite <- rev_app_distr, rev_involutive.
Qed.

(** ** the board part: what fen() writes, the loop reads back *)
Definition bchar (c : N) : bool :=
  ((49 <=? c) && (c <=? 56)) || (c =? 47) ||
  match piece_from_char c with Some _ => true | None => false end.

Lemma bchar_props c : bchar c = true ->
  fenpos_char c = true /\ (c =? 32) = false /\ is_ascii_space c = false /\ c < 128.
Proof.
  unfold bchar, fenpos_char, piece_from_char, is_ascii_space.
  repeat match goal with |- context [if ?x =? ?y then _ else _] => destruct (N.eqb_spec x y); [subst; cbn; intros _; repeat split; lia|] end.
  intros H. repeat split; lia.
Qed.

Lemma valid_code_cases pc : valid_code pc = true ->
  In pc [1;2;3;4;5;6;9;10;11;12;13;14].
Proof. unfold valid_code. intros H. cbn. lia. Qed.

Lemma piece_char_facts pc : valid_code pc = true ->
  exists ch, piece_to_char pc = Some ch /\ piece_from_char ch = Some pc /\ digit ch = false /\
             (ch =? 47) = false /\ (128 <=? ch) = false /\ ch = piece_char pc.
Proof.
  intros H. apply valid_code_cases in H. cbn in H.
  repeat (destruct H as [<-|H]; [eexists; repeat split; reflexivity|]). contradiction.
Qed.

Definition fenidx (s : N) : N := 8 * (7 - s / 8) + s mod 8.
Definition Inv (T : list N) (k : N) (cur : list N) : Prop :=
  length cur = 64%nat /\ forall s, s < 64 -> at_ cur s = if fenidx s <? k then at_ T s else 0.

Lemma digit_step e f rank cur rest : e <= 8 -> f + e <= 8 ->
  board_loop ((if e =? 0 then [] else [48 + e]) ++ rest) f rank cur = board_loop rest (f + e) rank cur.
Proof.
  intros He Hfe. destruct (N.eqb_spec e 0) as [->|Hne].
  - cbn [app]. now rewrite N.add_0_r.
  - cbn [app board_loop]. unfold digit.
    replace (128 <=? 48 + e) with false by lia.
    replace ((48 <=? 48 + e) && (48 + e <=? 57)) with true by lia.
    replace (48 + e - 48) with e by lia.
    replace ((e =? 0) || (8 <? f + e)) with false by lia. reflexivity.
Qed.

Lemma piece_step pc ch f rank cur : valid_code pc = true -> piece_to_char pc = Some ch ->
  f <= 7 -> rank <= 7 -> length cur = 64%nat ->
  exists cur1, (forall rest, board_loop (ch :: rest) f rank cur = board_loop rest (f + 1) rank cur1) /\
               length cur1 = 64%nat /\
               forall s, at_ cur1 s = if s =? 8 * rank + f then pc else at_ cur s.
Proof.
  intros Hv Hch Hf Hr Hl.
  destruct (piece_char_facts pc Hv) as (ch' & Hch' & Hfrom & Hdig & H47 & H128 & _).
  rewrite Hch in Hch'. apply some_inj in Hch'. subst ch'.
  destruct (put_opt_spec cur (N.to_nat (8 * rank + f)) pc) as (cur1 & E & Hl1 & Hnth); [lia|].
  exists cur1. split; [|split].
  - intros rest. cbn [board_loop]. rewrite H128, Hdig, H47, Hfrom.
    replace (7 <? f) with false by lia. rewrite square_of_lt by assumption. now rewrite E.
  - lia.
  - intros s. unfold at_. rewrite Hnth.
    destruct (N.eqb_spec s (8 * rank + f)) as [->|Hne].
    + now rewrite Nat.eqb_refl.
    + replace (Nat.eqb (N.to_nat s) (N.to_nat (8 * rank + f))) with false; [reflexivity|].
      symmetry. apply Nat.eqb_neq. lia.
Qed.

Lemma rank_out_loop T rank : rank <= 7 -> forall pcs e f cur,
  f + e + N.of_nat (length pcs) = 8 ->
  (forall i, (i < length pcs)%nat -> nth i pcs 0 = at_ T (8 * rank + f + e + N.of_nat i)) ->
  forallb cell_ok pcs = true ->
  Inv T (8 * (7 - rank) + f + e) cur ->
  exists out cur', rank_out pcs e = Some out /\ forallb bchar out = true /\
     (forall rest, board_loop (out ++ rest) f rank cur = board_loop rest 8 rank cur') /\
     Inv T (8 * (7 - rank) + 8) cur'.
Proof.
  intros Hr. induction pcs as [|pc r IH]; intros e f cur Hlen Hnth Hcells Hinv.
  - cbn [length N.of_nat] in Hlen. exists (if e =? 0 then [] else [48 + e]), cur.
    split; [reflexivity|]. split; [|split].
    + destruct (N.eqb_spec e 0); [reflexivity|]. cbn [forallb app]. unfold bchar.
      replace ((49 <=? 48 + e) && (48 + e <=? 56)) with true by lia. reflexivity.
    + intros rest. rewrite digit_step by lia. f_equal. lia.
    + replace (8 * (7 - rank) + 8) with (8 * (7 - rank) + f + e) by lia. exact Hinv.
  - cbn [length] in Hlen. rewrite Nat2N.inj_succ in Hlen.
    cbn [forallb] in Hcells. apply andb_true_iff in Hcells as [Hpc Hcells].
    assert (Hpc0 : pc = at_ T (8 * rank + f + e)).
    { specialize (Hnth O ltac:(cbn; lia)). cbn [nth N.of_nat] in Hnth. now rewrite N.add_0_r in Hnth. }
    assert (Hnth' : forall i, (i < length r)%nat -> nth i r 0 = at_ T (8 * rank + f + e + 1 + N.of_nat i)).
    { intros i Hi. specialize (Hnth (S i) ltac:(cbn; lia)). cbn [nth] in Hnth. rewrite Hnth. f_equal. lia. }
    cbn [rank_out]. destruct (N.eqb_spec pc 0) as [Hz|Hnz].
    + (* empty square *)
      destruct (IH (e + 1) f cur) as (out & cur' & Ho & Hb & Hloop & Hinv'); try assumption; [lia| | |].
      * intros i Hi. rewrite (Hnth' i Hi). f_equal. lia.
      * destruct Hinv as [Hl Hat]. split; [assumption|]. intros s Hs. rewrite (Hat s Hs).
        unfold fenidx.
        destruct (8 * (7 - s / 8) + s mod 8 <? 8 * (7 - rank) + f + e) eqn:E1;
        destruct (8 * (7 - s / 8) + s mod 8 <? 8 * (7 - rank) + f + (e + 1)) eqn:E2; try reflexivity; try lia.
        assert (s = 8 * rank + f + e) by lia. subst s. now rewrite <- Hpc0, Hz.
      * exists out, cur'. auto.
    + (* a piece *)
      assert (Hv : valid_code pc = true).
      { unfold cell_ok in Hpc. apply orb_true_iff in Hpc as [Hpc|Hpc]; [apply N.eqb_eq in Hpc; contradiction|assumption]. }
      destruct (piece_char_facts pc Hv) as (ch & Hch & Hfrom & _).
      destruct Hinv as [Hl Hat].
      destruct (piece_step pc ch (f + e) rank cur Hv Hch ltac:(lia) Hr Hl) as (cur1 & Hstep & Hl1 & Hat1).
      destruct (IH 0 (f + e + 1) cur1) as (out & cur' & Ho & Hb & Hloop & Hinv'); try assumption; [lia| | |].
      * intros i Hi. rewrite (Hnth' i Hi). f_equal. lia.
      * split; [assumption|]. intros s Hs. rewrite Hat1, (Hat s Hs). unfold fenidx.
        destruct (N.eqb_spec s (8 * rank + (f + e))) as [->|Hne].
        -- replace (8 * (7 - (8 * rank + (f + e)) / 8) + (8 * rank + (f + e)) mod 8 <? 8 * (7 - rank) + (f + e + 1) + 0)
             with true by lia. rewrite Hpc0. f_equal. lia.
        -- destruct (8 * (7 - s / 8) + s mod 8 <? 8 * (7 - rank) + f + e) eqn:E1;
           destruct (8 * (7 - s / 8) + s mod 8 <? 8 * (7 - rank) + (f + e + 1) + 0) eqn:E2; try reflexivity; lia.
      * rewrite Hch, Ho. eexists _, cur'. split; [reflexivity|]. split; [|split; [|assumption]].
        -- rewrite forallb_app. cbn [forallb]. rewrite Hb.
           replace (bchar ch) with true by (unfold bchar; rewrite Hfrom; now rewrite orb_true_r).
           destruct (N.eqb_spec e 0); [reflexivity|]. cbn [forallb app]. unfold bchar.
           replace ((49 <=? 48 + e) && (48 + e <=? 56)) with true by lia. reflexivity.
        -- intros rest. rewrite <- app_assoc. rewrite digit_step by lia.
           cbn [app]. rewrite Hstep. apply Hloop.
Qed.

Lemma cell_at T s : forallb cell_ok T = true -> cell_ok (at_ T s) = true.
Proof.
  intros H. unfold at_. destruct (nth_in_or_default (N.to_nat s) T 0) as [Hin|E]; [|now rewrite E].
  rewrite forallb_forall in H. now apply H.
Qed.

Lemma rank_cells_eq T rank : length T = 64%nat -> rank <= 7 ->
  rank_cells T rank = Some (map (fun f => at_ T (8 * rank + f)) files8).
Proof.
  intros Hl Hr. unfold rank_cells, files8. cbn [map].
  rewrite !square_of_lt by lia. rewrite !nth_error_at by lia. reflexivity.
Qed.

Lemma rank_line_loop T : length T = 64%nat -> forallb cell_ok T = true ->
  forall rank cur, rank <= 7 -> Inv T (8 * (7 - rank)) cur ->
  exists line cur', rank_line T rank = Some line /\ forallb bchar line = true /\
    (forall rest, board_loop (line ++ rest) 0 rank cur =
                  if rank =? 0 then board_loop rest 8 0 cur' else board_loop rest 0 (rank - 1) cur') /\
    Inv T (8 * (7 - rank) + 8) cur'.
Proof.
  intros Hl Hc rank cur Hr Hinv. unfold rank_line. rewrite rank_cells_eq by assumption.
  destruct (rank_out_loop T rank Hr (map (fun f => at_ T (8 * rank + f)) files8) 0 0 cur)
    as (out & cur' & Ho & Hb & Hloop & Hinv').
  - reflexivity.
  - intros i Hi. cbn in Hi.
    do 8 (destruct i as [|i]; [cbn [nth map files8 N.of_nat]; f_equal; lia|]). lia.
  - unfold files8. cbn [map forallb]. rewrite !cell_at by assumption. reflexivity.
  - replace (8 * (7 - rank) + 0 + 0) with (8 * (7 - rank)) by lia. exact Hinv.
  - rewrite Ho. eexists _, cur'. split; [reflexivity|]. split; [|split; [|assumption]].
    + rewrite forallb_app, Hb. destruct (rank =? 0); reflexivity.
    + intros rest. rewrite <- app_assoc, Hloop. destruct (N.eqb_spec rank 0) as [->|Hne]; [reflexivity|].
      cbn [app board_loop]. change (128 <=? 47) with false. change (digit 47) with false.
      change (47 =? 47) with true. change (8 =? 8) with true.
      replace (rank =? 0) with false by lia. reflexivity.
Qed.

Fixpoint down (n : nat) : list N := match n with O => [0] | S k => N.of_nat (S k) :: down k end.

Lemma ranks_loop T : length T = 64%nat -> forallb cell_ok T = true ->
  forall n cur, (n <= 7)%nat -> Inv T (8 * (7 - N.of_nat n)) cur ->
  exists ls cur', all_some (map (rank_line T) (down n)) = Some ls /\ forallb bchar (concat ls) = true /\
     (forall rest, board_loop (concat ls ++ rest) 0 (N.of_nat n) cur = board_loop rest 8 0 cur') /\
     Inv T 64 cur'.
Proof.
  intros Hl Hc. induction n as [|k IH]; intros cur Hn Hinv.
  - destruct (rank_line_loop T Hl Hc 0 cur ltac:(lia) Hinv) as (line & cur' & Hline & Hb & Hloop & Hinv').
    exists [line], cur'. cbn [down map all_some]. rewrite Hline. split; [reflexivity|].
    cbn [concat]. rewrite app_nil_r. split; [assumption|]. split; [|exact Hinv'].
    intros rest. apply (Hloop rest).
  - destruct (rank_line_loop T Hl Hc (N.of_nat (S k)) cur ltac:(lia) Hinv) as (line & cur1 & Hline & Hb & Hloop & Hinv1).
    destruct (IH cur1 ltac:(lia)) as (ls & cur' & Hls & Hbs & Hloops & Hinv').
    { replace (8 * (7 - N.of_nat k)) with (8 * (7 - N.of_nat (S k)) + 8) by lia. exact Hinv1. }
    exists (line :: ls), cur'. cbn [down map all_some]. rewrite Hline, Hls. split; [reflexivity|].
    cbn [concat]. rewrite forallb_app, Hb, Hbs. split; [reflexivity|]. split; [|exact Hinv'].
    intros rest. rewrite <- app_assoc, Hloop.
    replace (N.of_nat (S k) =? 0) with false by lia.
    replace (N.of_nat (S k) - 1) with (N.of_nat k) by lia. apply Hloops.
Qed.

Lemma at_repeat0 n s : at_ (repeat 0 n) s = 0.
Proof. unfold at_. revert s. induction n as [|n IH]; intros s; cbn; destruct (N.to_nat s) eqn:E; try reflexivity.
  specialize (IH (N.of_nat n0)). now rewrite Nat2N.id in IH. Qed.

Lemma board_roundtrip T : length T = 64%nat -> forallb cell_ok T = true ->
  exists bs, board_out T = Some bs /\ forallb bchar bs = true /\ bs <> [] /\
             board_loop bs 0 7 empty_board = LDone 8 0 T.
Proof.
  intros Hl Hc.
  destruct (ranks_loop T Hl Hc 7 empty_board ltac:(lia)) as (ls & cur' & Hls & Hb & Hloop & [Hl' Hat]).
  { split; [reflexivity|]. intros s Hs. unfold empty_board. rewrite at_repeat0.
    replace (fenidx s <? 8 * (7 - N.of_nat 7)) with false by (unfold fenidx; lia). reflexivity. }
  assert (HT : cur' = T).
  { apply list_ext_nth; [lia|]. intros k Hk. specialize (Hat (N.of_nat k) ltac:(lia)).
    unfold at_ in Hat. rewrite Nat2N.id in Hat. rewrite Hat.
    replace (fenidx (N.of_nat k) <? 64) with true by (unfold fenidx; lia). reflexivity. }
  subst cur'. exists (concat ls). unfold board_out. change [7; 6; 5; 4; 3; 2; 1; 0] with (down 7).
  rewrite Hls. split; [reflexivity|]. split; [assumption|].
  specialize (Hloop []). rewrite app_nil_r in Hloop. change (N.of_nat 7) with 7 in Hloop.
  cbn [board_loop] in Hloop. split; [|exact Hloop].
  intros E. rewrite E in Hloop. cbn in Hloop. discriminate.
Qed.

(** ** the other fields *)
Lemma cr_roundtrip : forallb (fun c => match cr_field (Some (cr_out c)) with Some x => x =? c | None => false end
                                        && nosp (cr_out c)) (map N.of_nat (seq 0 16)) = true.
Proof. vm_compute. reflexivity. Qed.
Lemma cr_field_out c : c < 16 -> cr_field (Some (cr_out c)) = Some c /\ nosp (cr_out c) = true.
Proof.
  intros Hc. pose proof cr_roundtrip as H. rewrite forallb_forall in H.
  assert (Hin : In c (map N.of_nat (seq 0 16))).
  { apply in_map_iff. exists (N.to_nat c). split; [lia|]. apply in_seq. lia. }
  specialize (H c Hin). apply andb_true_iff in H as [H1 H2].
  destruct (cr_field (Some (cr_out c))) as [x|]; [|discriminate]. apply N.eqb_eq in H1. now subst.
Qed.

Lemma sq_roundtrip : forallb (fun e => match ep_square (sq_out e) with
                                       | inr x => (x =? e) || negb ((e =? 64) || (e / 8 =? 2) || (e / 8 =? 5))
                                       | inl _ => negb ((e =? 64) || (e / 8 =? 2) || (e / 8 =? 5)) end
                                       && nosp (sq_out e)) (map N.of_nat (seq 0 65)) = true.
Proof. vm_compute. reflexivity. Qed.
Lemma ep_square_out e : e = 64 \/ (e < 64 /\ (e / 8 = 2 \/ e / 8 = 5)) ->
  ep_square (sq_out e) = inr e /\ nosp (sq_out e) = true.
Proof.
  intros He. pose proof sq_roundtrip as H. rewrite forallb_forall in H.
  assert (Hin : In e (map N.of_nat (seq 0 65))).
  { apply in_map_iff. exists (N.to_nat e). split; [lia|]. apply in_seq. lia. }
  specialize (H e Hin). apply andb_true_iff in H as [H1 H2].
  split; [|assumption].
  destruct (ep_square (sq_out e)) as [x|x]; [lia|]. f_equal. lia.
Qed.

Lemma ep_field_out p : length (f_board p) = 64%nat -> ep_wf p = true ->
  ep_field (Some (sq_out (f_ep p))) (f_side p) (f_board p) = EOk (f_ep p) /\ nosp (sq_out (f_ep p)) = true.
Proof.
  intros Hl Hwf. unfold ep_wf in Hwf. set (e := f_ep p) in *. set (b := f_board p) in *. set (sd := f_side p) in *.
  rewrite shiftr3 in Hwf.
  destruct (ep_square_out e) as [Hsq Hns].
  { destruct (N.eqb_spec e 64); [now left|right]. destruct (sd =? 0); lia. }
  split; [|assumption]. unfold ep_field. rewrite Hsq.
  destruct (N.eqb_spec e 64) as [->|Hne]; [reflexivity|].
  assert (He : e < 64) by lia.
  unfold ep_fit. rewrite shiftr3.
  replace (e / 8 =? (if sd =? 0 then 5 else 2)) with true by lia. cbn [negb].
  rewrite nth_error_at by lia. replace (at_ b e =? 0) with true by lia. cbn [negb].
  assert (Hps : (if sd =? 0 then to_south e else to_north e) = (if sd =? 0 then e - 8 else e + 8)
                /\ (if sd =? 0 then e - 8 else e + 8) < 64).
  { unfold to_south, to_north. destruct (sd =? 0).
    - replace ((8 <=? e) && (e <? 64)) with true by lia. lia.
    - replace (e <? 56) with true by lia. lia. }
  destruct Hps as [-> Hlt]. rewrite nth_error_at by lia.
  replace (at_ b (if sd =? 0 then e - 8 else e + 8) =? 8 * (1 - sd) + 2) with true by lia. reflexivity.
Qed.

Lemma move_number_range n : in_int64 (move_number n) = true.
Proof. unfold in_int64, move_number, wrap64, two63, two64. lia. Qed.

(** ** fen() followed by setupBoard *)
Lemma fstruct_inv p : fstruct p = true ->
  length (f_board p) = 64%nat /\ forallb cell_ok (f_board p) = true /\
  count_code (f_board p) 1 = 1%nat /\ count_code (f_board p) 9 = 1%nat /\
  f_side p < 2 /\ f_cr p < 16 /\ ep_wf p = true /\ not_in_check p = true.
Proof.
  unfold fstruct. intros H. repeat (apply andb_true_iff in H as [H ?]).
  apply Nat.eqb_eq in H.
  repeat match goal with
         | H : Nat.eqb _ _ = true |- _ => apply Nat.eqb_eq in H
         | H : (_ <? _) = true |- _ => apply N.ltb_lt in H
         end.
  repeat split; assumption.
Qed.

Lemma fpos_wf_struct p : fpos_wf p = true -> fstruct p = true.
Proof.
  intros H. apply fpos_wf_inv in H.
  destruct H as (Hl & Hc & Hk1 & Hk9 & Hs & Hcr & Hep & _ & _ & _ & Hchk).
  unfold fstruct. rewrite Hl, Hc, Hk1, Hk9, Hep, Hchk.
  replace (f_side p <? 2) with true by lia. replace (f_cr p <? 16) with true by lia. reflexivity.
Qed.

(* general form: the board, side, rights and en-passant square always survive; only the clocks
   can make the second setup fail ([reparse]) *)
Lemma setup_fen_of_gen p : fstruct p = true -> in_int64 (f_hmc p) = true ->
  exists F, fen_of_opt p = Some F /\ setup F = reparse p.
Proof.
  intros Hst Hi. apply fstruct_inv in Hst.
  destruct Hst as (Hl & Hc & Hk1 & Hk9 & Hs & Hcr & Hep & Hchk).
  destruct (board_roundtrip (f_board p) Hl Hc) as (bs & Hbs & Hb & Hne & Hloop).
  destruct (cr_field_out (f_cr p) Hcr) as [Hcrf Hcrn].
  destruct (ep_field_out p Hl Hep) as [Hepf Hepn].
  assert (Hside : exists ss, side_out (f_side p) = Some ss /\ side_field (Some ss) = Some (f_side p) /\ nosp ss = true).
  { assert (f_side p = 0 \/ f_side p = 1) as [E|E] by lia; rewrite E; eexists; repeat split. }
  destruct Hside as (ss & Hss & Hsf & Hsn).
  unfold fen_of_opt. rewrite Hbs, Hss. eexists. split; [reflexivity|].
  set (hs := itoa (f_hmc p)). set (ms := itoa (move_number (f_nhm p))).
  assert (Hhn : nosp hs = true) by (apply itoa_nosp; unfold in_int64 in Hi; lia).
  assert (Hmn : nosp ms = true).
  { apply itoa_nosp. pose proof (move_number_range (f_nhm p)) as H. unfold in_int64 in H. lia. }
  assert (Hbn : nosp bs = true).
  { unfold nosp. rewrite forallb_forall in *. intros c Hcin. specialize (Hb c Hcin).
    apply bchar_props in Hb as (_ & -> & _). reflexivity. }
  (* trimming *)
  destruct bs as [|c0 bs']; [contradiction|].
  assert (Hc0 : bchar c0 = true) by (cbn in Hb; now apply andb_true_iff in Hb as [? _]).
  apply bchar_props in Hc0 as (Hfp & _ & Hsp0 & Hlt0).
  destruct (itoa_last (move_number (f_nhm p))) as (pre & d & Hms & Hd). fold ms in Hms.
  unfold setup. cbn [app].
  erewrite trim_space_id; [|exact Hlt0|exact Hsp0|exact Hd|].
  2:{ rewrite Hms. rewrite !app_comm_cons. rewrite !app_assoc. reflexivity. }
  (* splitting *)
  change (c0 :: bs' ++ 32 :: ss ++ 32 :: cr_out (f_cr p) ++ 32 :: sq_out (f_ep p) ++ 32 :: hs ++ 32 :: ms)
    with ((c0 :: bs') ++ 32 :: ss ++ 32 :: cr_out (f_cr p) ++ 32 :: sq_out (f_ep p) ++ 32 :: hs ++ 32 :: ms).
  rewrite (split_sp_field _ _ Hbn), (split_sp_field _ _ Hsn), (split_sp_field _ _ Hcrn),
          (split_sp_field _ _ Hepn), (split_sp_field _ _ Hhn), (split_sp_last _ Hmn).
  cbn [rev app].
  (* the board *)
  unfold setup_parts. cbn [existsb]. rewrite Hfp. cbn [orb negb].
  rewrite Hloop. change (0 =? 0) with true. change (8 =? 8) with true. cbn [negb orb].
  rewrite Hk1, Hk9. cbn [Nat.eqb negb orb].
  (* the fields *)
  unfold setup_rest. cbn [nth_error]. rewrite Hsf, Hcrf, Hepf.
  unfold hmc_field, mn_field, reparse. unfold hs, ms.
  rewrite (atoi_itoa _ Hi), (atoi_itoa _ (move_number_range _)).
  destruct (f_hmc p <? 0)%Z; [reflexivity|].
  destruct ((move_number (f_nhm p) <? 0)%Z || (max_move_number <? move_number (f_nhm p))%Z); [reflexivity|].
  unfold not_in_check in Hchk. apply negb_true_iff in Hchk. rewrite Hchk.
  reflexivity.
Qed.

Lemma reparse_wf p : fpos_wf p = true -> reparse p = Ok p.
Proof.
  intros Hwf. apply fpos_wf_inv in Hwf.
  destruct Hwf as (_ & _ & _ & _ & Hs & _ & _ & Hh & Hn & Hpar & _).
  unfold max_move_number, two63 in *. unfold reparse.
  replace (f_hmc p <? 0)%Z with false by lia.
  assert (Hm : move_number (f_nhm p) = ((f_nhm p + 1) / 2)%Z).
  { unfold move_number, wrap64, two63, two64. lia. }
  rewrite Hm. unfold max_move_number.
  replace (((f_nhm p + 1) / 2 <? 0)%Z || (1000000 <? (f_nhm p + 1) / 2)%Z) with false by lia.
  replace ((f_nhm p + 1) / 2 =? 0)%Z with false by lia.
  replace (2 * ((f_nhm p + 1) / 2) - (1 - Z.of_N (f_side p)))%Z with (f_nhm p) by lia.
  destruct p; reflexivity.
Qed.

(* used for the history rebase of the UCI position command: if the second setup succeeds at
   all, it gives back the very same position *)
Lemma reparse_same p p' : (1 <= f_nhm p < two63 - 1)%Z -> f_side p < 2 ->
  ((f_nhm p + Z.of_N (f_side p)) mod 2 = 1)%Z -> reparse p = Ok p' -> p' = p.
Proof.
  intros Hn Hs Hpar. unfold reparse, two63 in *.
  destruct (f_hmc p <? 0)%Z; [discriminate|].
  assert (Hm : move_number (f_nhm p) = ((f_nhm p + 1) / 2)%Z).
  { unfold move_number, wrap64, two63, two64. lia. }
  rewrite Hm.
  destruct (((f_nhm p + 1) / 2 <? 0)%Z || (max_move_number <? (f_nhm p + 1) / 2)%Z); [discriminate|].
  replace ((f_nhm p + 1) / 2 =? 0)%Z with false by lia.
  replace (2 * ((f_nhm p + 1) / 2) - (1 - Z.of_N (f_side p)))%Z with (f_nhm p) by lia.
  intros H. injection H as <-. destruct p; reflexivity.
Qed.

Lemma setup_fen_of p : fpos_wf p = true ->
  exists F, fen_of_opt p = Some F /\ setup F = Ok p.
Proof.
  intros Hwf. pose proof (fpos_wf_inv _ Hwf) as (_ & _ & _ & _ & _ & _ & _ & Hh & _).
  destruct (setup_fen_of_gen p (fpos_wf_struct p Hwf)) as (F & HF & HS).
  { unfold in_int64, two63 in *. lia. }
  exists F. split; [assumption|]. now rewrite HS, reparse_wf.
Qed.

Theorem fen_of_total : forall p, fpos_wf p = true -> fen_of_opt p = Some (fen_of p).
Proof.
  intros p H. destruct (setup_fen_of p H) as (F & HF & _). unfold fen_of. now rewrite HF.
Qed.

(** [fen_reparse_wf]: fen() of a well-formed position is accepted again and gives the same position *)
Theorem fen_reparse_wf : forall p, fpos_wf p = true -> setup (fen_of p) = Ok p.
Proof.
  intros p H. destruct (setup_fen_of p H) as (F & HF & HS). unfold fen_of. now rewrite HF.
Qed.

(** [fen_reparse]: for EVERY accepted string, the FEN output of the position parses back to the
    same position (board, side, rights, en-passant square, both clocks).
    History: before the engine commit "FEN setup rejects negative clocks and absurd move numbers"
    this was false (the model then had  fen_reparse_refuted : "4k3/8/8/8/8/8/8/4K3 b - - 0 -1"
    was accepted with nextHalfMoveNumber -2, printed move number 0, read back as ply 2; also
    move number -2^63 with White to move); the exact guard then was
    [if side = White then nhm <> -1 else 0 < nhm]. *)
Theorem fen_reparse : forall s p, setup s = Ok p -> setup (fen_of p) = Ok p.
Proof. intros s p H. apply fen_reparse_wf. eapply fen_wellformed; eauto. Qed.

(* the printed string is a fixed point of print-after-parse *)
Corollary fen_print_stable : forall s p, setup s = Ok p ->
  exists p', setup (fen_of p) = Ok p' /\ fen_of p' = fen_of p.
Proof. intros s p H. exists p. split; [eapply fen_reparse; eauto|reflexivity]. Qed.

(* non-vacuity of fen_reparse: huge half move clock, '|' as side, an empty castling field, signs *)
Example fen_reparse_ex1 :
  let s := [52;107;51;47;56;47;56;47;56;47;56;47;56;47;56;47;52;75;51;32;124;32;32;45;32;43;57;50;50;51;51;55;50;48;51;54;56;53;52;55;55;53;56;48;55;32;43;55] in
  exists p, setup s = Ok p /\ f_hmc p = 9223372036854775807%Z /\ f_nhm p = 13%Z /\ setup (fen_of p) = Ok p.
Proof. eexists. split; [vm_compute; reflexivity|]. repeat split. Qed.

(** ** every legal position's FEN round-trips exactly *)
Lemma dec_aux_udec fuel : forall n acc, dec_aux fuel n acc = udec fuel n acc.
Proof. induction fuel as [|k IH]; intros n acc; [reflexivity|]. cbn [dec_aux udec]. now rewrite IH. Qed.

Lemma udec_fuel f1 : forall f2 n acc, n < 10 ^ N.of_nat (S f1) -> n < 10 ^ N.of_nat (S f2) ->
  udec (S f1) n acc = udec (S f2) n acc.
Proof.
  induction f1 as [|f1 IH]; intros f2 n acc H1 H2; cbn [udec].
  - change (10 ^ N.of_nat 1) with 10 in H1. replace (n / 10 =? 0) with true by lia. reflexivity.
  - destruct (n / 10 =? 0) eqn:E; [reflexivity|].
    destruct f2 as [|f2]; [change (10 ^ N.of_nat 1) with 10 in H2; lia|].
    rewrite pow10_succ in H1, H2.
    set (P1 := 10 ^ N.of_nat (S f1)) in *. set (P2 := 10 ^ N.of_nat (S f2)) in *.
    apply IH; lia.
Qed.

Lemma pos_size_bound p : N.pos p < 2 ^ N.of_nat (Pos.size_nat p).
Proof.
  induction p as [p IH|p IH|]; cbn [Pos.size_nat].
  - rewrite Nat2N.inj_succ, N.pow_succ_r'. set (P := 2 ^ N.of_nat (Pos.size_nat p)) in *. lia.
  - rewrite Nat2N.inj_succ, N.pow_succ_r'. set (P := 2 ^ N.of_nat (Pos.size_nat p)) in *. lia.
  - cbn. lia.
Qed.
Lemma pow2_le_pow10 k : 2 ^ N.of_nat k <= 10 ^ N.of_nat k.
Proof.
  induction k as [|k IH]; [cbn; lia|]. rewrite !Nat2N.inj_succ, !N.pow_succ_r'.
  set (A := 2 ^ N.of_nat k) in *. set (B := 10 ^ N.of_nat k) in *. lia.
Qed.
Lemma size_nat_bound10 n : n < 10 ^ N.of_nat (S (N.size_nat n)).
Proof.
  rewrite pow10_succ. destruct n as [|p]; [cbn; lia|]. cbn [N.size_nat].
  pose proof (pos_size_bound p). pose proof (pow2_le_pow10 (Pos.size_nat p)).
  set (A := 2 ^ N.of_nat (Pos.size_nat p)) in *. set (B := 10 ^ N.of_nat (Pos.size_nat p)) in *. lia.
Qed.

Lemma itoa_dec n : n < 9223372036854775808 -> itoa (Z.of_N n) = dec n.
Proof.
  intros Hn. unfold itoa, dec. replace (Z.of_N n <? 0)%Z with false by lia.
  rewrite N2Z.id. change (dec_aux (S (N.size_nat n)) n []) with (udec (S (N.size_nat n)) n []).
  apply udec_fuel; [rewrite pow10_20; lia|apply size_nat_bound10].
Qed.

Lemma rank_out_str pcs : forall e, forallb cell_ok pcs = true -> rank_out pcs e = Some (rank_str pcs e).
Proof.
  induction pcs as [|pc r IH]; intros e Hc; [reflexivity|].
  cbn in Hc. apply andb_true_iff in Hc as [Hpc Hr]. cbn [rank_out rank_str].
  destruct (N.eqb_spec pc 0) as [Hz|Hnz]; [now apply IH|].
  assert (Hv : valid_code pc = true).
  { unfold cell_ok in Hpc. apply orb_true_iff in Hpc as [Hpc|Hpc]; [apply N.eqb_eq in Hpc; contradiction|assumption]. }
  destruct (piece_char_facts pc Hv) as (ch & Hch & _ & _ & _ & _ & Hpch).
  rewrite Hch, (IH 0 Hr), Hpch. reflexivity.
Qed.

Lemma rank_line_str b r : length b = 64%nat -> forallb cell_ok b = true -> r <= 7 ->
  rank_line b r = Some (rank_str (rank_pieces b r) 0 ++ (if r =? 0 then [] else [47])).
Proof.
  intros Hl Hc Hr. unfold rank_line. rewrite rank_cells_eq by assumption.
  change (map (fun f => at_ b (8 * r + f)) files8) with (rank_pieces b r).
  rewrite rank_out_str; [reflexivity|].
  unfold rank_pieces. cbn [map forallb]. rewrite !cell_at by assumption. reflexivity.
Qed.

Lemma board_out_str b : length b = 64%nat -> forallb cell_ok b = true -> board_out b = Some (board_str b).
Proof.
  intros Hl Hc. unfold board_out, board_str. cbn [map].
  rewrite !rank_line_str by (try assumption; lia). reflexivity.
Qed.

(* counting kings: the specification counts over the 64 squares, the model over the cells *)
Lemma nth_squares64 k : (k < 64)%nat -> nth k squares64 0 = N.of_nat k.
Proof.
  intros Hk. unfold squares64. change 0 with (N.of_nat 0) at 1. rewrite map_nth, seq_nth by lia. reflexivity.
Qed.
Lemma map_at_squares b : length b = 64%nat -> map (at_ b) squares64 = b.
Proof.
  intros Hl. apply list_ext_nth.
  - rewrite map_length. unfold squares64. rewrite map_length, seq_length. lia.
  - intros k Hk. rewrite map_length in Hk. unfold squares64 in Hk. rewrite map_length, seq_length in Hk.
    rewrite (nth_indep _ 0 (at_ b 0)) by (rewrite map_length; unfold squares64; rewrite map_length, seq_length; lia).
    rewrite map_nth, nth_squares64 by lia. unfold at_. now rewrite Nat2N.id.
Qed.
Lemma filter_map_length {A B} (f : A -> B) (p : B -> bool) l :
  length (filter (fun x => p (f x)) l) = length (filter p (map f l)).
Proof. induction l as [|x l IH]; [reflexivity|]. cbn. destruct (p (f x)); cbn; now rewrite IH. Qed.
Lemma count_piece_code b pc : length b = 64%nat -> count_piece b pc = count_code b pc.
Proof.
  intros Hl. unfold count_piece, count_code.
  transitivity (length (filter (N.eqb pc) (map (at_ b) squares64))); [|now rewrite map_at_squares].
  rewrite <- filter_map_length. f_equal. apply filter_ext. intros s. apply N.eqb_sym.
Qed.

Definition oN_eqb (a b : option N) : bool :=
  match a, b with Some x, Some y => x =? y | None, None => true | _, _ => false end.
Lemma step_ns_sweep : forallb (fun s => oN_eqb (step DS s) (if 8 <=? s then Some (s - 8) else None)
                                     && oN_eqb (step DN s) (if s <? 56 then Some (s + 8) else None)) squares64 = true.
Proof. vm_compute. reflexivity. Qed.
Lemma step_ns s : s < 64 -> step DS s = (if 8 <=? s then Some (s - 8) else None) /\
                           step DN s = (if s <? 56 then Some (s + 8) else None).
Proof.
  intros Hs. pose proof step_ns_sweep as H. rewrite forallb_forall in H.
  assert (Hin : In s squares64).
  { unfold squares64. apply in_map_iff. exists (N.to_nat s). split; [lia|]. apply in_seq. lia. }
  specialize (H s Hin). apply andb_true_iff in H as [H1 H2].
  unfold oN_eqb in *.
  split.
  - destruct (step DS s), (8 <=? s); try discriminate; try reflexivity. apply N.eqb_eq in H1. now subst.
  - destruct (step DN s), (s <? 56); try discriminate; try reflexivity. apply N.eqb_eq in H2. now subst.
Qed.

Lemma king_sq_at b c : count_piece b (mk_piece c KING) = 1%nat -> at_ b (king_sq b c) = mk_piece c KING.
Proof.
  unfold count_piece, king_sq, is_piece. intros H.
  destruct (filter (fun s => at_ b s =? mk_piece c KING) squares64) as [|s l] eqn:E; [discriminate|].
  assert (Hin : In s (filter (fun s => at_ b s =? mk_piece c KING) squares64)) by (rewrite E; now left).
  apply filter_In in Hin as [_ Hin]. now apply N.eqb_eq in Hin.
Qed.

Lemma legal_pos_parts q : legal_pos q = true ->
  length (brd q) = 64%nat /\
  forallb (fun pc => existsb (N.eqb pc) [0;1;2;3;4;5;6;9;10;11;12;13;14]) (brd q) = true /\
  count_piece (brd q) (mk_piece WHITE KING) = 1%nat /\
  count_piece (brd q) (mk_piece BLACK KING) = 1%nat /\
  stm q < 2 /\ cr q < 16 /\
  in_check_b (brd q) (flip (stm q)) = false /\ ep_ok q = true.
Proof.
  unfold legal_pos. intros H.
  apply andb_true_iff in H as [H H10]. apply andb_true_iff in H as [H H9].
  apply andb_true_iff in H as [H H8]. apply andb_true_iff in H as [H H7].
  apply andb_true_iff in H as [H H6]. apply andb_true_iff in H as [H H5].
  apply andb_true_iff in H as [H H4]. apply andb_true_iff in H as [H H3].
  apply andb_true_iff in H as [H1 H2].
  apply Nat.eqb_eq in H1, H3, H4. apply N.ltb_lt in H5, H6. apply negb_true_iff in H7.
  repeat split; assumption.
Qed.

Lemma rep_wf q : legal_pos q = true -> hmc q < 9223372036854775808 -> 1 <= fmn q <= 1000000 ->
  fpos_wf (rep q) = true.
Proof.
  intros Hlegal Hh Hf.
  destruct (legal_pos_parts q Hlegal) as (Hl & Hcodes & Hkw & Hkb & Hs & Hcr & Hchk & Hep).
  assert (Hs01 : stm q = 0 \/ stm q = 1) by lia.
  unfold fpos_wf, rep. cbn [f_board f_side f_cr f_ep f_hmc f_nhm].
  rewrite Hl. cbn [Nat.eqb andb].
  assert (Hcells : forallb cell_ok (brd q) = true).
  { rewrite forallb_forall in *. intros pc Hin. specialize (Hcodes pc Hin).
    apply existsb_exists in Hcodes as (x & Hx & Hxe). apply N.eqb_eq in Hxe. subst x.
    cbn in Hx. repeat (destruct Hx as [<-|Hx]; [reflexivity|]). contradiction. }
  rewrite Hcells. cbn [andb].
  rewrite <- !count_piece_code by assumption.
  change 1 with (mk_piece WHITE KING) at 1. rewrite Hkw.
  change 9 with (mk_piece BLACK KING). rewrite Hkb. cbn [Nat.eqb andb].
  replace (stm q <? 2) with true by lia. replace (cr q <? 16) with true by lia. cbn [andb].
  (* en passant *)
  assert (Hepwf : ep_wf (mkfpos (brd q) (stm q) (cr q) (ep q) (Z.of_N (hmc q)) (2 * Z.of_N (fmn q) - (1 - Z.of_N (stm q)))) = true).
  { unfold ep_wf. cbn [f_board f_side f_ep]. unfold ep_ok in Hep.
    destruct (N.eqb_spec (ep q) 64) as [E|E]; [reflexivity|]. cbn [orb].
    apply andb_true_iff in Hep as [Hep _]. apply andb_true_iff in Hep as [Hep Hpawn].
    apply andb_true_iff in Hep as [Hrank Hempty].
    unfold rank_of, piece_at in *. rewrite shiftr3 in *.
    destruct Hs01 as [Es|Es]; rewrite Es in *.
    - change (0 =? WHITE) with true in *. change (fwd (flip 0)) with DS in *. change (0 =? 0) with true.
      cbv iota in *. apply N.eqb_eq in Hrank.
      assert (Hlt : ep q < 64) by lia. destruct (step_ns (ep q) Hlt) as [HS _]. rewrite HS in Hpawn.
      replace (8 <=? ep q) with true in Hpawn by lia.
      change (mk_piece (flip 0) PAWN) with 10 in Hpawn. change (8 * (1 - 0) + 2) with 10.
      replace (ep q <? 64) with true by lia. rewrite Hrank, Hempty, Hpawn. reflexivity.
    - change (1 =? WHITE) with false in *. change (fwd (flip 1)) with DN in *. change (1 =? 0) with false.
      cbv iota in *. apply N.eqb_eq in Hrank.
      assert (Hlt : ep q < 64) by lia. destruct (step_ns (ep q) Hlt) as [_ HN]. rewrite HN in Hpawn.
      replace (ep q <? 56) with true in Hpawn by lia.
      change (mk_piece (flip 1) PAWN) with 2 in Hpawn. change (8 * (1 - 1) + 2) with 2.
      replace (ep q <? 64) with true by lia. rewrite Hrank, Hempty, Hpawn. reflexivity. }
  rewrite Hepwf. cbn [andb].
  unfold two63, max_move_number.
  replace (0 <=? Z.of_N (hmc q))%Z with true by lia.
  replace (Z.of_N (hmc q) <? 9223372036854775808)%Z with true by lia.
  replace (1 <=? 2 * Z.of_N (fmn q) - (1 - Z.of_N (stm q)))%Z with true by lia.
  replace (2 * Z.of_N (fmn q) - (1 - Z.of_N (stm q)) <=? 2 * 1000000)%Z with true by lia.
  replace ((2 * Z.of_N (fmn q) - (1 - Z.of_N (stm q)) + Z.of_N (stm q)) mod 2 =? 1)%Z with true by lia.
  cbn [andb].
  (* the side which has just moved is not in check *)
  unfold not_in_check. cbn [f_board f_side f_cr f_ep]. apply negb_true_iff.
  unfold is_attacked_spec. cbn [brd].
  unfold in_check_b in Hchk. unfold flip in Hchk. replace (1 - (1 - stm q)) with (stm q) in Hchk by lia.
  rewrite Hchk. cbn [orb].
  unfold ep_conv1. cbn [ep brd]. destruct (ep q =? 64); [reflexivity|].
  set (ps := if stm q =? WHITE then ep q - 8 else ep q + 8).
  destruct (N.eqb_spec (king_sq (brd q) (1 - stm q)) ps) as [E|E]; [|reflexivity].
  unfold piece_at. cbn [brd]. rewrite <- E.
  assert (Hk : at_ (brd q) (king_sq (brd q) (1 - stm q)) = mk_piece (1 - stm q) KING).
  { apply king_sq_at. destruct Hs01 as [Es|Es]; rewrite Es.
    - change (1 - 0) with BLACK. exact Hkb.
    - change (1 - 1) with WHITE. exact Hkw. }
  rewrite Hk. unfold mk_piece, flip, KING, PAWN.
  replace (8 * (1 - stm q) + 1 =? 8 * (1 - stm q) + 2) with false by lia. reflexivity.
Qed.

Lemma fen_of_rep q : legal_pos q = true -> hmc q < 9223372036854775808 -> 1 <= fmn q <= 1000000 ->
  fen_of (rep q) = print q.
Proof.
  intros Hlegal Hh Hf.
  destruct (legal_pos_parts q Hlegal) as (Hl & _ & _ & _ & Hs & _).
  pose proof (rep_wf q Hlegal Hh Hf) as Hwf.
  pose proof (fpos_wf_inv _ Hwf) as (_ & Hcells & _).
  unfold fen_of, fen_of_opt, print, rep in *. cbn [f_board f_side f_cr f_ep f_hmc f_nhm] in *.
  rewrite board_out_str by assumption.
  assert (Hso : side_out (stm q) = Some [if stm q =? 0 then 119 else 98]).
  { assert (stm q = 0 \/ stm q = 1) as [Es|Es] by lia; rewrite Es; reflexivity. }
  rewrite Hso.
  rewrite itoa_dec by assumption.
  assert (Hmn : move_number (2 * Z.of_N (fmn q) - (1 - Z.of_N (stm q))) = Z.of_N (fmn q)).
  { unfold move_number, wrap64, two63, two64. lia. }
  rewrite Hmn, itoa_dec by lia.
  reflexivity.
Qed.

Lemma abs_rep q : 1 <= fmn q <= 1000000 -> stm q < 2 -> abs (rep q) = q.
Proof.
  intros Hf Hs. destruct q as [b s c e h f]. unfold abs, rep. cbn [f_board f_side f_cr f_ep f_hmc f_nhm brd stm cr ep hmc fmn] in *.
  f_equal; [apply N2Z.id|]. unfold move_number, wrap64, two63, two64. lia.
Qed.

(** [fen_roundtrip_legal]: for every legal position (clocks in the range FEN can express for the
    engine) the specification FEN is accepted, the position built is the one described, and the
    engine prints the very same string. *)
Theorem fen_roundtrip_legal : forall q, legal_pos q = true ->
  hmc q < 2 ^ 63 -> 1 <= fmn q <= 1000000 ->
  exists p, setup (print q) = Ok p /\ abs p = q /\ fen_of p = print q.
Proof.
  intros q Hlegal Hh Hf. change (2 ^ 63) with 9223372036854775808 in Hh.
  exists (rep q).
  pose proof (rep_wf q Hlegal Hh Hf) as Hwf.
  pose proof (fen_of_rep q Hlegal Hh Hf) as Hfen.
  destruct (legal_pos_parts q Hlegal) as (_ & _ & _ & _ & Hs & _).
  split; [|split; [now apply abs_rep|exact Hfen]].
  rewrite <- Hfen. now apply fen_reparse_wf.
Qed.

(* non-vacuity: the start position and a position with an en-passant square *)
Example fen_roundtrip_legal_start : legal_pos start_pos = true /\ hmc start_pos < 2 ^ 63 /\ 1 <= fmn start_pos <= 1000000.
Proof. split; [vm_compute; reflexivity|]. cbn. lia. Qed.
Example fen_roundtrip_legal_ep :
  let q := make start_pos (mkmv 12 28 0 3) in
  legal_pos q = true /\ ep q = 20 /\ setup (print q) = Ok (rep q) /\ fen_of (rep q) = print q.
Proof. cbv zeta. repeat split; vm_compute; reflexivity. Qed.
(* the bounds on the move number are needed: FEN move number 0 is read as 1 (and move numbers
   above 1000000 are rejected) *)
Example fen_roundtrip_fmn0 :
  let q := mkpos start_board 0 15 64 0 0 in
  legal_pos q = true /\ exists p, setup (print q) = Ok p /\ fen_of p <> print q.
Proof. cbv zeta. split; [vm_compute; reflexivity|]. eexists. split; [vm_compute; reflexivity|]. vm_compute. discriminate. Qed.

(** ** observations of the real engine (NewPositionFen at the modelled revision): a sample of the
    4801 strings used to validate the model (valid FENs, byte mutations, over-long ranks, digits
    0 and 9, missing / empty fields, signs and huge values in the clocks, Unicode white space,
    invalid UTF-8): error site (0 = accepted; 12/13, 2/5, 9/10 merged as the Go texts coincide),
    StringFen(), nextHalfMoveNumber *)
Definition fen_observed : list (str * (N * str * Z)) := [
  ([50;114;113;51;114;47;110;66;54;47;49;112;112;98;50;107;49;47;112;49;80;112;112;110;112;112;47;49;80;49;80;98;80;112;49;47;54;80;80;47;78;66;50;78;51;47;82;51;75;50;82;32;119;32;45;32;104;54;32;48;32;50;57], (0, [50;114;113;51;114;47;110;66;54;47;49;112;112;98;50;107;49;47;112;49;80;112;112;110;112;112;47;49;80;49;80;98;80;112;49;47;54;80;80;47;78;66;50;78;51;47;82;51;75;50;82;32;119;32;45;32;104;54;32;48;32;50;57], (57)%Z));
  ([114;110;98;113;49;98;110;114;47;112;112;112;80;107;112;112;112;47;56;47;56;47;56;47;56;47;80;80;80;80;49;80;80;80;47;82;78;66;81;75;66;78;82;32;98;32;75;81;32;45;32;49;32;53], (0, [114;110;98;113;49;98;110;114;47;112;112;112;80;107;112;112;112;47;56;47;56;47;56;47;56;47;80;80;80;80;49;80;80;80;47;82;78;66;81;75;66;78;82;32;98;32;75;81;32;45;32;49;32;53], (10)%Z));
  ([50;98;113;107;98;110;114;47;114;49;112;49;112;50;112;47;49;112;110;112;52;47;112;51;80;51;47;51;80;49;80;112;49;47;50;78;53;47;80;80;80;49;66;50;80;47;82;49;66;49;75;49;78;82;32;119;32;107;32;45;32;49;32;49;32;32;55], (0, [50;98;113;107;98;110;114;47;114;49;112;49;112;50;112;47;49;112;110;112;52;47;112;51;80;51;47;51;80;49;80;112;49;47;50;78;53;47;80;80;80;49;66;50;80;47;82;49;66;49;75;49;78;82;32;119;32;107;32;45;32;49;32;49], (1)%Z));
  ([114;110;98;113;50;114;49;47;112;112;112;112;49;107;112;49;47;66;54;112;47;98;50;80;112;112;49;80;47;80;52;80;50;47;82;80;80;53;47;51;80;81;75;80;82;47;49;78;66;51;78;49;32;119;32;45;32;45;32;48;32;49;55], (0, [114;110;98;113;50;114;49;47;112;112;112;112;49;107;112;49;47;66;54;112;47;98;50;80;112;112;49;80;47;80;52;80;50;47;82;80;80;53;47;51;80;81;75;80;82;47;49;78;66;51;78;49;32;119;32;45;32;45;32;48;32;49;55], (33)%Z));
  ([114;110;98;113;49;98;110;114;47;112;112;112;112;107;49;112;112;47;56;47;52;112;51;47;53;112;49;80;47;51;80;51;82;47;80;80;80;49;80;80;80;49;47;82;78;66;49;75;66;78;49;32;98;32;81;32;45;32;51;32;53], (0, [114;110;98;113;49;98;110;114;47;112;112;112;112;107;49;112;112;47;56;47;52;112;51;47;53;112;49;80;47;51;80;51;82;47;80;80;80;49;80;80;80;49;47;82;78;66;49;75;66;78;49;32;98;32;81;32;45;32;51;32;53], (10)%Z));
  ([51;114;50;110;114;47;112;50;107;112;49;98;49;47;98;49;112;49;78;51;47;80;50;112;49;112;81;112;47;49;80;54;47;49;80;49;80;51;80;47;50;78;66;49;80;80;49;47;49;82;49;75;49;66;49;82;32;119;32;45;32;45;32;50;32;50;52], (0, [51;114;50;110;114;47;112;50;107;112;49;98;49;47;98;49;112;49;78;51;47;80;50;112;49;112;81;112;47;49;80;54;47;49;80;49;80;51;80;47;50;78;66;49;80;80;49;47;49;82;49;75;49;66;49;82;32;119;32;45;32;45;32;50;32;50;52], (47)%Z));
  ([52;107;51;47;56;47;56;47;56;47;56;47;56;47;56;47;52;75;51;32;119;32;45;32;45;32;49;32;49], (0, [52;107;51;47;56;47;56;47;56;47;56;47;56;47;56;47;52;75;51;32;119;32;45;32;45;32;49;32;49], (1)%Z));
  ([114;51;107;50;114;47;49;112;112;110;51;112;47;50;113;49;113;49;110;49;47;56;47;50;113;49;80;112;50;47;54;82;49;47;112;49;112;50;80;80;80;47;49;82;52;75;49;32;119;32;75;107;113;32;45;32;49;32;50], (0, [114;51;107;50;114;47;49;112;112;110;51;112;47;50;113;49;113;49;110;49;47;56;47;50;113;49;80;112;50;47;54;82;49;47;112;49;112;50;80;80;80;47;49;82;52;75;49;32;119;32;75;107;113;32;45;32;49;32;50], (3)%Z));
  ([52;107;51;47;56;47;56;47;56;47;56;47;56;47;56;47;52;75;51;32;119;32;45;32;45;32;49;48;48;48;48;48;48;32;49], (0, [52;107;51;47;56;47;56;47;56;47;56;47;56;47;56;47;52;75;51;32;119;32;45;32;45;32;49;48;48;48;48;48;48;32;49], (1)%Z));
  ([11;226;128;128;52;107;51;47;56;47;56;47;56;47;56;47;56;47;56;47;52;75;51;32;119;32;45;32;45;32;48;32;49;226;128;128;11], (0, [52;107;51;47;56;47;56;47;56;47;56;47;56;47;56;47;52;75;51;32;119;32;45;32;45;32;48;32;49], (1)%Z));
  ([114;110;98;113;107;50;114;47;50;112;112;112;49;98;112;47;112;55;47;80;112;49;78;50;66;49;47;51;80;110;51;47;54;80;80;47;49;80;80;49;80;80;50;47;82;49;81;49;75;66;49;82;32;98;32;75;81;32;45;32;51;32;49;50], (0, [114;110;98;113;107;50;114;47;50;112;112;112;49;98;112;47;112;55;47;80;112;49;78;50;66;49;47;51;80;110;51;47;54;80;80;47;49;80;80;49;80;80;50;47;82;49;81;49;75;66;49;82;32;98;32;75;81;32;45;32;51;32;49;50], (24)%Z));
  ([51;113;107;98;110;49;47;110;49;112;98;112;51;47;114;112;49;112;49;114;50;47;112;66;49;80;80;50;112;47;53;80;49;78;47;54;112;49;47;80;80;80;66;78;50;80;47;49;82;50;75;50;82], (0, [51;113;107;98;110;49;47;110;49;112;98;112;51;47;114;112;49;112;49;114;50;47;112;66;49;80;80;50;112;47;53;80;49;78;47;54;112;49;47;80;80;80;66;78;50;80;47;49;82;50;75;50;82;32;119;32;45;32;45;32;48;32;49], (1)%Z));
  ([52;107;51;47;56;47;56;47;56;47;56;47;56;47;56;47;52;75;51;32;119;32], (0, [52;107;51;47;56;47;56;47;56;47;56;47;56;47;56;47;52;75;51;32;119;32;45;32;45;32;48;32;49], (1)%Z));
  ([114;110;98;50;107;49;114;47;50;112;112;50;98;49;47;112;55;47;80;54;112;47;82;112;49;80;49;66;80;80;47;49;113;80;49;112;82;50;47;49;80;49;78;80;51;47;52;81;66;75;49;32;98;32;45;32;45;32;48;32;50;55], (0, [114;110;98;50;107;49;114;47;50;112;112;50;98;49;47;112;55;47;80;54;112;47;82;112;49;80;49;66;80;80;47;49;113;80;49;112;82;50;47;49;80;49;78;80;51;47;52;81;66;75;49;32;98;32;45;32;45;32;48;32;50;55], (54)%Z));
  ([114;51;107;50;114;47;49;112;112;110;51;112;47;50;113;49;113;49;110;49;47;56;47;50;113;49;80;112;50;47;54;82;49;47;112;49;112;50;80;80;80;47;49;82;52;75;49;32;119;32;75;81;107;113;32;45;32;49;32;50], (0, [114;51;107;50;114;47;49;112;112;110;51;112;47;50;113;49;113;49;110;49;47;56;47;50;113;49;80;112;50;47;54;82;49;47;112;49;112;50;80;80;80;47;49;82;52;75;49;32;119;32;75;81;107;113;32;45;32;49;32;50], (3)%Z));
  ([51;114;52;47;112;98;49;112;49;107;49;112;47;110;112;112;49;112;49;110;49;47;49;113;80;50;112;66;49;47;80;80;51;98;50;47;82;49;78;80;80;49;80;49;47;55;80;47;51;81;75;66;78;82], (0, [51;114;52;47;112;98;49;112;49;107;49;112;47;110;112;112;49;112;49;110;49;47;49;113;80;50;112;66;49;47;80;80;51;98;50;47;82;49;78;80;80;49;80;49;47;55;80;47;51;81;75;66;78;82;32;119;32;45;32;45;32;48;32;49], (1)%Z));
  ([114;110;98;113;50;110;114;47;52;112;107;49;112;47;112;112;112;112;50;112;49;47;54;98;49;47;80;55;47;50;78;49;80;49;80;80;47;49;80;80;80;49;80;50;47;82;49;66;49;75;66;78;82;32;98;32;45;32;97;51;32;48;32;49;48], (0, [114;110;98;113;50;110;114;47;52;112;107;49;112;47;112;112;112;112;50;112;49;47;54;98;49;47;80;55;47;50;78;49;80;49;80;80;47;49;80;80;80;49;80;50;47;82;49;66;49;75;66;78;82;32;98;32;45;32;97;51;32;48;32;49;48], (20)%Z));
  ([49;114;98;51;110;49;47;112;49;98;107;49;114;81;49;47;53;112;50;47;50;110;112;112;112;49;112;47;49;112;78;80;80;78;49;80;47;50;113;66;82;51;47;50;80;51;80;49;47;50;66;75;52;32;98;32;45;32;45;32;55;32;50;56], (0, [49;114;98;51;110;49;47;112;49;98;107;49;114;81;49;47;53;112;50;47;50;110;112;112;112;49;112;47;49;112;78;80;80;78;49;80;47;50;113;66;82;51;47;50;80;51;80;49;47;50;66;75;52;32;98;32;45;32;45;32;55;32;50;56], (56)%Z));
  ([49;114;98;49;107;98;49;114;47;112;112;49;112;110;112;112;112;47;110;113;112;49;112;51;47;56;47;53;80;50;47;49;80;80;49;80;49;80;49;47;80;50;80;51;80;47;82;78;66;81;75;66;78;82;32;98;32;75;81;107;32;45;32;52;32;55], (0, [49;114;98;49;107;98;49;114;47;112;112;49;112;110;112;112;112;47;110;113;112;49;112;51;47;56;47;53;80;50;47;49;80;80;49;80;49;80;49;47;80;50;80;51;80;47;82;78;66;81;75;66;78;82;32;98;32;75;81;107;32;45;32;52;32;55], (14)%Z));
  ([49;114;98;51;110;49;47;112;49;98;107;49;114;81;49;47;51;78;110;112;50;47;51;112;112;50;112;47;49;112;49;80;112;78;49;80;47;50;113;66;82;51;47;49;66;80;51;80;49;47;51;75;52;32;98;32;45;32;45;32;51;32;51;48], (0, [49;114;98;51;110;49;47;112;49;98;107;49;114;81;49;47;51;78;110;112;50;47;51;112;112;50;112;47;49;112;49;80;112;78;49;80;47;50;113;66;82;51;47;49;66;80;51;80;49;47;51;75;52;32;98;32;45;32;45;32;51;32;51;48], (60)%Z));
  ([52;107;51;47;56;47;56;47;56;47;56;47;56;47;56;47;52;75;51;32;119;32;75;81;107;113], (0, [52;107;51;47;56;47;56;47;56;47;56;47;56;47;56;47;52;75;51;32;119;32;75;81;107;113;32;45;32;48;32;49], (1)%Z));
  ([226;128;168;194;133;52;107;51;47;56;47;56;47;56;47;56;47;56;47;56;47;52;75;51;32;119;32;45;32;45;32;48;32;49;194;133;226;128;168], (0, [52;107;51;47;56;47;56;47;56;47;56;47;56;47;56;47;52;75;51;32;119;32;45;32;45;32;48;32;49], (1)%Z));
  ([114;110;98;50;107;49;114;47;50;112;112;50;98;112;47;112;78;49;113;52;47;80;112;50;112;51;47;82;50;80;50;80;80;47;52;66;50;82;47;49;80;80;49;80;75;50;47;50;81;50;66;50], (0, [114;110;98;50;107;49;114;47;50;112;112;50;98;112;47;112;78;49;113;52;47;80;112;50;112;51;47;82;50;80;50;80;80;47;52;66;50;82;47;49;80;80;49;80;75;50;47;50;81;50;66;50;32;119;32;45;32;45;32;48;32;49], (1)%Z));
  ([114;110;98;113;51;114;47;53;107;49;112;47;112;49;112;49;112;49;112;110;47;49;80;49;112;50;98;49;47;49;80;78;49;80;51;47;54;80;80;47;50;80;80;49;80;49;82;47;82;49;66;49;75;66;78;49;32;98;32;45;32;45;32;50;32;49;56], (0, [114;110;98;113;51;114;47;53;107;49;112;47;112;49;112;49;112;49;112;110;47;49;80;49;112;50;98;49;47;49;80;78;49;80;51;47;54;80;80;47;50;80;80;49;80;49;82;47;82;49;66;49;75;66;78;49;32;98;32;45;32;45;32;50;32;49;56], (36)%Z));
  ([114;110;98;113;107;98;110;114;47;49;112;112;112;112;112;49;112;47;54;112;49;47;112;55;47;56;47;51;80;50;80;49;47;80;80;80;49;80;80;49;80;47;82;78;66;81;75;66;78;82], (0, [114;110;98;113;107;98;110;114;47;49;112;112;112;112;112;49;112;47;54;112;49;47;112;55;47;56;47;51;80;50;80;49;47;80;80;80;49;80;80;49;80;47;82;78;66;81;75;66;78;82;32;119;32;45;32;45;32;48;32;49], (1)%Z));
  ([114;110;98;113;107;49;110;114;47;112;49;112;112;112;112;49;112;47;49;112;52;81;98;47;56;47;56;47;50;78;49;80;51;47;80;80;80;80;49;80;80;80;47;82;49;66;49;75;66;78;82;32;98;32;75;81;107;113;32;45;32;48;32;52], (0, [114;110;98;113;107;49;110;114;47;112;49;112;112;112;112;49;112;47;49;112;52;81;98;47;56;47;56;47;50;78;49;80;51;47;80;80;80;80;49;80;80;80;47;82;49;66;49;75;66;78;82;32;98;32;75;81;107;113;32;45;32;48;32;52], (8)%Z));
  ([52;107;51;47;56;47;56;47;56;47;56;47;56;47;56;47;52;75;51;32;124;32;45;32;45;32;55;32;32], (0, [52;107;51;47;56;47;56;47;56;47;56;47;56;47;56;47;52;75;51;32;119;32;45;32;45;32;55;32;49], (1)%Z));
  ([50;98;113;107;98;110;114;47;114;49;112;49;112;50;112;47;49;112;49;112;52;47;112;51;80;51;47;49;110;49;80;49;112;112;49;47;50;78;51;80;49;47;80;80;80;49;66;50;80;47;82;49;66;49;75;49;78;82;32;119;32;107;32;45;32;48;32;49;54], (0, [50;98;113;107;98;110;114;47;114;49;112;49;112;50;112;47;49;112;49;112;52;47;112;51;80;51;47;49;110;49;80;49;112;112;49;47;50;78;51;80;49;47;80;80;80;49;66;50;80;47;82;49;66;49;75;49;78;82;32;119;32;107;32;45;32;48;32;49;54], (31)%Z));
  ([114;49;113;50;98;50;47;50;112;81;107;50;114;47;110;55;47;112;112;52;112;112;47;80;80;112;78;80;112;98;80;47;56;47;81;51;80;80;49;82;47;82;49;66;49;75;49;78;66;32;98;32;81;113;32;45;32;48;32;50;49], (0, [114;49;113;50;98;50;47;50;112;81;107;50;114;47;110;55;47;112;112;52;112;112;47;80;80;112;78;80;112;98;80;47;56;47;81;51;80;80;49;82;47;82;49;66;49;75;49;78;66;32;98;32;81;113;32;45;32;48;32;50;49], (42)%Z));
  ([113;110;50;107;49;110;49;47;49;114;49;112;112;49;98;49;47;52;114;51;47;49;112;112;50;112;112;49;47;112;51;80;49;80;112;47;80;50;80;75;80;49;80;47;49;80;80;53;47;82;78;66;50;66;78;82;32;98;32;45;32;45;32;55;32;50;53], (0, [113;110;50;107;49;110;49;47;49;114;49;112;112;49;98;49;47;52;114;51;47;49;112;112;50;112;112;49;47;112;51;80;49;80;112;47;80;50;80;75;80;49;80;47;49;80;80;53;47;82;78;66;50;66;78;82;32;98;32;45;32;45;32;55;32;50;53], (50)%Z));
  ([114;49;98;49;107;98;50;47;112;50;112;110;50;112;47;110;112;112;49;112;51;47;51;113;49;112;66;49;47;80;49;80;50;80;50;47;82;80;50;80;49;80;49;47;51;80;51;80;47;49;78;49;81;75;66;78;82;32;124], (0, [114;49;98;49;107;98;50;47;112;50;112;110;50;112;47;110;112;112;49;112;51;47;51;113;49;112;66;49;47;80;49;80;50;80;50;47;82;80;50;80;49;80;49;47;51;80;51;80;47;49;78;49;81;75;66;78;82;32;119;32;45;32;45;32;48;32;49], (1)%Z));
  ([52;107;51;47;56;47;56;47;56;47;56;47;56;47;56;47;52;75;51;32;119;32;45;32;45;32;48;32;49;48;48], (0, [52;107;51;47;56;47;56;47;56;47;56;47;56;47;56;47;52;75;51;32;119;32;45;32;45;32;48;32;49;48;48], (199)%Z));
  ([114;110;98;113;51;114;47;112;112;112;112;49;107;112;112;47;56;47;51;110;112;112;50;47;80;98;66;49;80;50;80;47;82;80;80;53;47;51;80;49;80;80;49;47;49;78;66;81;75;49;78;82], (0, [114;110;98;113;51;114;47;112;112;112;112;49;107;112;112;47;56;47;51;110;112;112;50;47;80;98;66;49;80;50;80;47;82;80;80;53;47;51;80;49;80;80;49;47;49;78;66;81;75;49;78;82;32;119;32;45;32;45;32;48;32;49], (1)%Z));
  ([114;110;98;113;107;98;110;114;47;112;112;112;112;112;50;112;47;53;112;112;49;47;56;47;56;47;78;54;78;47;80;80;80;80;80;80;80;80;47;82;49;66;81;75;66;49;82;32;119;32;75;81;107;113;32;45;32;48;32;51], (0, [114;110;98;113;107;98;110;114;47;112;112;112;112;112;50;112;47;53;112;112;49;47;56;47;56;47;78;54;78;47;80;80;80;80;80;80;80;80;47;82;49;66;81;75;66;49;82;32;119;32;75;81;107;113;32;45;32;48;32;51], (5)%Z));
  ([107;55;47;56;47;56;47;56;47;56;47;56;47;56;47;75;55;32], (0, [107;55;47;56;47;56;47;56;47;56;47;56;47;56;47;75;55;32;119;32;45;32;45;32;48;32;49], (1)%Z));
  ([52;107;51;47;56;47;56;47;56;47;56;47;56;47;52;114;51;47;52;75;51;32;124;32;45;32;45;32;48;32;49], (0, [52;107;51;47;56;47;56;47;56;47;56;47;56;47;52;114;51;47;52;75;51;32;119;32;45;32;45;32;48;32;49], (1)%Z));
  ([52;107;51;47;56;47;56;47;56;47;56;47;56;47;56;47;52;75;51;32;98;32;75;81;113;32;45;32;48;32;49], (0, [52;107;51;47;56;47;56;47;56;47;56;47;56;47;56;47;52;75;51;32;98;32;75;81;113;32;45;32;48;32;49], (2)%Z));
  ([114;98;98;51;113;114;47;53;110;49;112;47;112;49;112;49;112;107;112;49;47;49;80;110;112;80;51;47;49;80;51;80;80;49;47;55;80;47;82;78;80;80;51;82;47;50;66;49;75;66;78;49;32;98;32;45;32;45;32;48;32;50;53], (0, [114;98;98;51;113;114;47;53;110;49;112;47;112;49;112;49;112;107;112;49;47;49;80;110;112;80;51;47;49;80;51;80;80;49;47;55;80;47;82;78;80;80;51;82;47;50;66;49;75;66;78;49;32;98;32;45;32;45;32;48;32;50;53], (50)%Z));
  ([114;110;98;50;107;49;114;47;51;112;50;98;49;47;112;55;47;80;49;112;52;112;47;82;112;49;80;49;66;80;80;47;49;113;80;49;112;82;50;47;49;80;49;78;80;51;47;52;81;66;75;49;32;119;32;45;32;99;54;32;48;32;50;56], (0, [114;110;98;50;107;49;114;47;51;112;50;98;49;47;112;55;47;80;49;112;52;112;47;82;112;49;80;49;66;80;80;47;49;113;80;49;112;82;50;47;49;80;49;78;80;51;47;52;81;66;75;49;32;119;32;45;32;99;54;32;48;32;50;56], (55)%Z));
  ([114;50;113;51;114;47;110;52;107;49;98;47;49;112;112;52;110;47;112;50;112;112;98;112;49;47;50;66;49;80;80;112;49;47;98;80;52;80;49;47;78;49;80;80;78;50;80;47;82;49;66;49;75;49;82;49;32;119;32;45;32;45;32;48;32;50;48], (0, [114;50;113;51;114;47;110;52;107;49;98;47;49;112;112;52;110;47;112;50;112;112;98;112;49;47;50;66;49;80;80;112;49;47;98;80;52;80;49;47;78;49;80;80;78;50;80;47;82;49;66;49;75;49;82;49;32;119;32;45;32;45;32;48;32;50;48], (39)%Z));
  ([52;107;51;47;56;47;52;80;51;47;52;112;51;47;52;80;51;47;52;112;51;47;56;47;52;75;51;32;119;32;45;32;101;54], (15, [], (0)%Z));
  ([52;107;51;47;56;47;56;47;56;47;56;47;56;47;56;47;52;75;51;32;119;32;45;32;97;54], (15, [], (0)%Z));
  ([52;107;51;47;56;47;52;80;51;47;52;112;51;47;52;80;51;47;52;112;51;47;56;47;52;75;51;32;98;32;45;32;97;51], (15, [], (0)%Z));
  ([51;113;107;98;110;49;47;110;49;112;98;112;51;47;114;112;49;112;49;114;50;47;112;66;49;80;80;50;112;47;53;80;49;78;47;52;66;49;112;49;47;80;80;80;49;78;50;80;47;49;82;50;75;50;82;32;119;32;75;81;107;113;32;101;54], (15, [], (0)%Z));
  ([52;107;51;47;56;47;56;47;56;47;56;47;56;47;56;47;52;75;51;32;98;32;75;81;32;104;54;32;48;32;49], (15, [], (0)%Z));
  ([114;110;98;51;114;49;47;112;112;49;112;49;107;112;49;47;66;113;53;112;47;98;50;80;112;112;49;80;47;80;80;112;50;80;81;49;47;82;49;80;51;75;49;47;51;80;50;80;82;47;49;78;66;51;78;49;32;98;32;45;32;101;54;32;32;43;48;32;43;53], (15, [], (0)%Z));
  ([52;107;51;47;56;47;52;80;51;47;52;112;51;47;52;80;51;47;52;112;51;47;56;47;52;75;51;32;119;32;45;32;104;54], (15, [], (0)%Z));
  ([114;110;98;113;107;98;110;114;47;112;112;112;112;49;112;112;112;47;56;47;52;112;51;47;52;80;51;47;56;47;80;80;80;80;49;80;80;80;47;82;78;66;81;75;66;78;82;32;124;32;75;81;107;113;32;97;54], (15, [], (0)%Z));
  ([52;107;51;47;56;47;56;47;56;47;56;47;56;47;56;47;52;75;51;32;119;32;45;32;101;51], (15, [], (0)%Z));
  ([114;110;98;113;107;98;110;114;47;112;112;112;112;49;112;112;112;47;56;47;52;112;51;47;52;80;51;47;56;47;80;80;80;80;49;80;80;80;47;82;78;66;81;75;66;78;82;32;119;32;75;81;107;113;32;97;51;32;48;32;50], (15, [], (0)%Z));
  ([52;107;51;47;56;47;56;47;56;47;56;47;56;47;56;47;52;75;51;32;119;32;45;32;104;54], (15, [], (0)%Z));
  ([52;107;51;47;56;47;56;47;56;47;56;47;56;47;56;47;52;75;51;32;119;32;45;32;101;54], (15, [], (0)%Z));
  ([52;107;51;47;56;47;52;80;51;47;52;112;51;47;52;80;51;47;52;112;51;47;56;47;52;75;51;32;119;32;45;32;97;54], (15, [], (0)%Z));
  ([52;107;51;47;56;47;52;80;51;47;52;112;51;47;52;80;51;47;52;112;51;47;56;47;52;75;51;32;98;32;45;32;97;54], (15, [], (0)%Z));
  ([226;128;137;226;128;136;32;9], (1, [], (0)%Z));
  ([227;128;129;32;52;107;51;47;56;47;56;47;56;47;56;47;56;47;56;47;52;75;51;32;119;32;45;32;45;32;48;32;49;32;227;128;129], (1, [], (0)%Z));
  ([224;130;133], (1, [], (0)%Z));
  ([226;128;138], (1, [], (0)%Z));
  ([225;154;129], (1, [], (0)%Z));
  ([120;32;119;32;45;32;45;32;48;32;49], (1, [], (0)%Z));
  ([192;160], (1, [], (0)%Z));
  ([13], (1, [], (0)%Z));
  ([128], (1, [], (0)%Z));
  ([32], (1, [], (0)%Z));
  ([57;32;119;10], (1, [], (0)%Z));
  ([194], (1, [], (0)%Z));
  ([57;32;119;124;98;32;107;75;32;69;51;32;32;45;57;50;50;51;51;55;50;48;51;54;56;53;52;55;55;53;56;48;56], (1, [], (0)%Z));
  ([45;32;119;119;32;75;81;113;32;101;48], (1, [], (0)%Z));
  ([56], (6, [], (0)%Z));
  ([114;110;49;113;49;98;50;47;50;112;49;107;49;112;114;47;49;112;51;110;50;47;112;78;53;112;47;80;49;112;49;80;112;98;80;47;49;80;54;47;51;81;80;80;49;82;47;82;49;66;75;66;78;49;32;98;32;81;32;45;32;48;32;49;54], (6, [], (0)%Z));
  ([114], (6, [], (0)%Z));
  ([107;55;47;56;47;56;47;56;47;56;47;56;47;56;47;75;54;32;32], (6, [], (0)%Z));
  ([51;113;107;98;110;49;47;110;49;112;49;112;51;47;114;112;49;112;51;114;47;112;51;80;98;49;112;47;50;66;80;49;80;112;32;32;78;47;50;78;53;47;80;80;80;66;51;80;47;49;82;50;75;50;82;32;119;32;45;32;45;32;50;32;50;50], (6, [], (0)%Z));
  ([114;49;98;50;107;110;114;47;112;49;112;110;112;49;98;49;47;53;112;112;112;47;49;112;54;47;49;80;113;49;112;51;47;80;51;80;50;80;47;82;50;80;49;80;80;49;47;78;66;81;75;66;49;82;32;119;32;75;32;45;32;49;32;49;51], (6, [], (0)%Z));
  ([114;110;98;50;107;49;114;47;50;112;112;50;98;112;47;112;78;49;113;52;47;80;51;112;51;47;82;112;49;80;49;66;80;80;47;55;82;47;49;80;80;49;80;75;50;47;81;50;66;32;98;32;45;32;45;32;49;32;50;49], (6, [], (0)%Z));
  ([50;98;113;107;98;110;114;47;114;49;112;112;112;50;112;47;66;112;54;47;112;51;80;112;112;49;47;49;110;49;80;52;47;50;78;51;80;49;47;80;80;80;50;80;49;80;47;82;49;66;81;75;49;82;32;119;107;32;45;32;9;32;49;51], (6, [], (0)%Z));
  ([114;49;98;113;107;50;114;47;112;112;50;98;112;112;112;47;50;110;49;112;110;50;47;50;112;112;52;47;51;80;49;66;50;47;50;80;49;80;78;50;47;80;80;49;78;49;80;80;80;47;82;50;81;75;66;82;32;119;32;75;81;107;113;32;99;54;32;48;32;55], (6, [], (0)%Z));
  ([114;51;107;50;114;47;49;112;112;110;51;112;47;50;113;49], (6, [], (0)%Z));
  ([114;110;98;113;107;98;110;114;47;112;49;112;112;112;112;49;112;47;49;32;32;52;112;47;56;47;54;81;49;47;50;78;49;80;51;47;80;80;80;80;49;80;80;80;47;82;49;66;49;75;66;78;82;52;32;98;32;75;81;107;113;32;45;32;49;32;51], (6, [], (0)%Z));
  ([114;51;107;50;114;47;49], (6, [], (0)%Z));
  ([114;51;107;50;114;47;49;112;112;110;51;112;47;50;113;49;113;49;110;49;47;56;47;50;113;49;80;112;50], (6, [], (0)%Z));
  ([114;110;98;50;107;49;114;47;50;112;112;50;98;112;47;112;54;113;47;80;112;49;78;32;32;51;47;82;50;80;50;80;80;47;52;66;50;82;47;49;80;80;49;80;110;50;47;50;81;49;75;66;50;32;98;32;45;32;45;32;52;32;49;56], (6, [], (0)%Z));
  ([114;110;98;113;107;98;110;114;47;112;112;112;112;49;112;112;112;47;56;47;52;112;51;47;52;80;51;47;56;47;80;80;80;80;49;80;80;80;47;82;78;66;81;75;66;78;82;32;124;32;75;81;107;113;32;45;45], (9, [], (0)%Z));
  ([107;55;47;52;52;47;56;47;56;47;56;47;56;47;56;47;75;55;32;119;32;32;96;51;32;45;52;54;49;49;54;56;54;48;49;56;52;50;55;51;56;55;57;48;52;32;45], (9, [], (0)%Z));
  ([114;110;98;113;107;98;110;114;47;112;49;112;112;112;49;112;112;47;53;112;50;47;49;112;54;47;80;55;47;52;80;51;47;49;80;80;80;49;80;80;80;47;82;78;66;81;75;66;78;82;32;119;32;81;75], (9, [], (0)%Z));
  ([114;49;98;107;49;98;110;114;47;112;51;112;49;112;112;47;50;112;112;52;47;50;78;50;112;50;47;80;112;113;78;52;47;49;80;80;80;51;80;47;52;80;80;80;49;47;49;82;66;81;75;66;49;82;32;119;32;45;32;45;48;32;49;52], (9, [], (0)%Z));
  ([49;114;113;49;107;49;110;49;47;51;112;112;49;98;49;47;110;52;112;49;114;47;49;112;112;51;112;49;47;112;51;80;66;80;112;47;51;80;49;80;49;80;47;80;80;80;49;75;51;47;82;78;51;66;78;82;32;119;32;107;75;32;101;54;32;217;163;32;49], (9, [], (0)%Z));
  ([114;110;98;50;107;49;114;47;51;112;50;98;49;47;112;55;47;80;49;112;52;112;47;82;112;49;80;50;80;80;47;49;113;80;49;112;82;50;47;49;80;49;78;80;50;66;47;52;81;66;75;49;32;98;32;45;32;45;75;32;49;32;50;56], (9, [], (0)%Z));
  ([114;110;98;113;107;98;110;114;47;112;112;112;112;49;112;112;112;47;56;47;52;112;51;47;52;80;51;47;56;47;80;80;80;80;49;80;80;80;47;82;78;66;81;75;66;78;82;32;98;32;75;81;107;113;32;101;195;32;48;32;50], (9, [], (0)%Z));
  ([49;114;98;113;49;98;49;114;47;112;112;112;107;112;49;112;112;47;110;52;110;49;80;47;56;47;49;81;49;80;49;112;50;47;56;47;80;80;49;80;80;80;80;49;47;82;78;66;49;75;66;80;82;32;98;32;81;80;32;45;32;48;32;57], (9, [], (0)%Z));
  ([52;107;51;47;56;47;56;47;56;47;56;47;56;47;56;47;52;75;51;32;98;32;81;75;32;45;32;48;32;49], (9, [], (0)%Z));
  ([52;107;51;47;56;47;56;47;56;47;56;47;56;47;56;47;52;75;51;32;98;32;75;45;32;45;32;48;32;49], (9, [], (0)%Z));
  ([52;107;51;47;56;47;56;47;56;47;56;47;56;47;56;47;52;75;51;32;98;32;75;81;32;96;51;32;48;32;49], (9, [], (0)%Z));
  ([114;51;107;50;114;47;49;112;112;110;51;112;47;50;113;49;113;49;110;49;47;56;47;50;113;49;80;112;50;47;54;82;49;47;112;49;112;50;80;80;80;47;49;82;52;75;49;32;119;32;81;75;32;45;32;49;32;50], (9, [], (0)%Z));
  ([114;110;49;113;49;98;50;47;50;112;98;107;49;112;49;47;49;112;51;110;49;114;47;112;50;112;51;112;47;80;49;80;49;112;112;80;80;47;49;80;49;80;52;47;51;81;80;80;49;82;47;82;78;66;49;75;66;78;49;32;124;32;81;32;45;45], (9, [], (0)%Z));
  ([52;107;51;47;56;47;56;47;56;47;56;47;56;47;56;47;52;75;51;32;98;32;107;75;32;45;32;48;32;49], (9, [], (0)%Z));
  ([114;110;98;113;107;98;55;114;47;112;49;112;112;112;49;112;112;47;53;112;50;47;49;112;54;47;80;55;47;52;80;51;47;49;80;80;80;49;80;80;80;227;47;82;78;66;81;75;66;78;82;32;119;32;75;81;107;113;32;45;32;48;32;51], (2, [], (0)%Z));
  ([114;50;113;51;114;47;112;112;112;52;112;49;110;50;107;50;80;47;54;112;49;47;49;98;66;49;80;49;112;50;47;51;80;49;80;50;47;49;98;66;75;49;80;51;47;49;78;49;78;49;66;82;49;32;119;32;45;32;45;32;50;32;51;48], (2, [], (0)%Z));
  ([114;49;98;113;107;98;110;114;47;112;112;112;112;81;112;112;112;47;110;55;47;56;47;56;49;80;52;80;49;47;80;49;80;80;80;80;49;80;47;78;66;81;75;66;78;82;32;98;32;75;81;107;113;32;45;32;48;32;50], (2, [], (0)%Z));
  ([114;110;98;113;107;98;110;114;47;112;112;112;112;112;112;112;112;47;56;47;56;47;56;47;49;80;54;47;80;49;80;80;80;80;98;80;80;47;82;78;66;81;75;66;78;82;32;98;105;75;81;107;113;32;45;75;48;32;49], (2, [], (0)%Z));
  ([114;98;98;51;113;114;47;53;110;107;112;47;112;49;112;49;112;49;112;49;47;49;80;110;112;80;51;47;49;80;51;80;80;49;47;55;80;47;82;78;80;80;78;50;82;47;50;107;66;49;75;66;50;32;98;32;45;32;45;32;50;32;50;54], (2, [], (0)%Z));
  ([114;49;98;51;113;114;47;49;110;98;51;107;98;112;47;50;112;49;112;49;112;49;47;49;112;49;78;50;80;49;47;49;80;51;80;50;47;51;66;51;80;47;82;78;80;80;51;82;47;50;66;49;75;51;48;32;119;32;45;32;124;32;48;32;51;49], (2, [], (0)%Z));
  ([114;110;50;98;113;51;114;47;112;112;112;112;49;107;112;112;47;56;47;98;66;49;80;112;112;49;80;47;80;52;80;50;47;82;80;80;53;47;51;80;49;75;80;82;47;49;78;66;81;50;78;49;32;119;32;45;32;45;32;51;32;49;53], (2, [], (0)%Z));
  ([114;49;98;107;49;98;110;114;47;112;50;112;112;51;47;110;52;112;112;49;47;82;49;112;52;112;47;49;112;50;80;54;80;49;80;47;50;113;53;47;49;80;80;80;81;49;80;49;47;49;78;66;49;75;66;78;82;32;119;32;45;32;45;32;50;32;49;80], (2, [], (0)%Z));
  ([57;110;98;113;107;50;114;47;112;49;112;112;112;112;98;112;47;49;112;51;110;50;47;104;52;78;49;112;49;47;80;50;80;52;47;50;78;53;47;49;80;80;49;80;80;80;80;47;82;49;66;81;75;66;49;82;32;98;32;75;81;107;113;32;45;32;51;32], (2, [], (0)%Z));
  ([114;49;98;51;113;114;47;49;110;98;50;110;107;112;47;112;49;112;49;112;49;112;49;47;49;80;49;112;80;51;47;49;80;51;80;80;49;47;50;78;52;80;47;82;78;80;80;56;82;47;50;66;49;75;66;50;32;119;32;45;32;45;32;32;50;56], (2, [], (0)%Z));
  ([114;110;98;113;107;98;110;114;47;112;49;112;81;112;112;112;112;112;47;56;47;49;112;54;47;56;47;52;80;51;47;80;80;80;80;49;80;80;80;47;82;78;52;66;81;75;66;78;82;32;119;32;75;81;107;113;32;98;54;32;48;32;50], (2, [], (0)%Z));
  ([57;47;56;47;56;47;56;47;56;47;56;47;56;47;107;54;75;32;119;98;32;75;81;107;113;75;32;96;51;32;45;57;50;50;51;51;55;50;48;51;54;56;53;52;55;55;53;56;48;55], (2, [], (0)%Z));
  ([114;110;98;113;50;110;114;47;52;112;107;49;112;47;112;112;112;112;50;112;49;47;54;98;49;47;80;51;55;47;50;78;49;80;49;80;80;47;49;80;80;80;49;80;50;47;82;49;66;49;75;66;78;82;32;98;32;45;32;97;51;32;48;32;49;48], (2, [], (0)%Z));
  ([51;113;107;98;110;49;47;110;49;112;98;112;114;50;47;114;112;53;49;112;52;47;112;66;49;80;80;50;112;47;53;80;49;78;47;52;66;49;112;49;47;80;80;80;49;78;50;80;47;49;82;50;75;50;82;32;119;32;45;32;45;32;52;32;50;56], (2, [], (0)%Z));
  ([114;81;98;113;107;98;49;114;47;112;49;112;49;112;50;112;47;110;112;53;110;47;51;112;50;112;49;47;52;80;49;112;49;47;78;51;80;81;49;47;80;80;80;80;75;80;49;80;47;82;49;66;50;66;78;82;32;119;32;107;113;32;45;32;48;32;57], (3, [], (0)%Z));
  ([114;49;98;113;49;98;49;114;47;112;112;112;49;107;49;112;112;47;55;80;47;52;78;51;47;110;50;80;49;112;80;49;47;49;80;54;47;50;75;80;80;80;82;47;49;78;66;50;66;50;32;98;32;45;32;45;32;48;32;50;48], (3, [], (0)%Z));
  ([114;52;98;50;47;113;49;112;49;107;51;47;110;54;114;47;49;112;110;51;112;47;80;81;49;78;80;112;98;53;80;47;53;80;50;47;52;80;49;66;82;47;82;49;66;50;75;97;78;49;32;98;32;45;32;45;32;50;32;50;54], (3, [], (0)%Z));
  ([114;110;98;113;49;107;49;114;47;50;112;112;112;49;98;112;47;112;55;47;80;112;80;50;66;49;47;51;66;110;49;80;49;47;55;80;47;49;80;80;49;80;80;50;47;82;49;81;49;75;66;49;82;32;98;32;75;81;32;45;32;48;32;49;51], (3, [], (0)%Z));
  ([49;114;98;113;107;98;110;114;47;112;112;49;112;49;112;112;112;47;110;49;112;49;112;51;47;56;47;53;80;50;47;49;80;80;49;80;49;80;49;47;80;50;51;80;47;82;78;66;81;75;66;78;82;32;98;32;75;81;107;32;102;51;32;48;32;53], (3, [], (0)%Z));
  ([114;49;98;113;49;98;49;114;47;112;112;107;50;112;112;47;52;112;50;80;47;51;110;52;47;51;80;49;112;80;49;47;49;80;51;78;50;47;80;50;80;80;80;82;49;47;110;78;66;75;49;66;50;32;98;32;45;32;45;32;49;32;49;53;133], (3, [], (0)%Z));
  ([50;98;113;107;98;110;114;47;114;112;112;112;112;112;49;112;47;110;55;47;112;53;112;49;47;51;80;80;51;47;54;80;49;47;80;80;75;49;80;49;80;47;82;78;66;81;49;66;78;82;32;119;32;107;32;45;32;49;32;54], (3, [], (0)%Z));
  ([114;110;98;107;49;110;114;47;112;50;112;112;50;112;47;49;114;112;112;51;112;49;47;54;98;49;47;56;47;50;78;49;80;49;80;49;47;80;80;80;80;75;80;49;80;47;82;49;66;50;66;78;82;32;98;32;107;113;32;45;32;49;32;55], (3, [], (0)%Z));
  ([114;110;98;113;107;112;114;47;52;112;50;112;47;112;112;112;51;112;110;47;49;78;49;112;50;98;49;47;80;80;54;47;52;80;49;80;80;47;50;80;80;49;80;50;47;82;49;66;49;75;66;78;82;32;98;32;45;32;45;32;48;226;128;131;32;49;51], (3, [], (0)%Z));
  ([114;110;98;50;107;47;49;114;47;50;112;112;50;98;112;47;112;78;50;113;51;47;80;112;50;112;51;47;82;50;80;50;80;80;47;52;66;50;82;47;49;80;80;49;80;110;50;195;164;50;81;49;75;50;32;98;32;45;32;45;32;54;32;49;57], (3, [], (0)%Z));
  ([114;110;98;113;51;114;47;112;112;112;112;49;107;112;112;47;56;47;51;110;112;112;50;47;80;98;66;49;80;50;80;47;82;80;80;47;51;80;49;80;80;49;47;49;99;66;81;75;49;78;82;32;119;32;75;32;45;51;51;32;56], (3, [], (0)%Z));
  ([51;114;51;47;112;54;112;47;98;112;112;112;112;107;49;98;47;49;113;80;49;110;112;50;47;80;80;159;54;47;82;50;80;80;49;80;66;47;78;51;75;50;12;47;50;81;51;78;82;32;119;32;45;32;45;32;48;32;51;49], (3, [], (0)%Z));
  ([114;110;98;113;107;50;114;47;112;49;112;112;112;112;98;112;47;49;112;51;110;50;47;52;78;49;112;49;47;80;50;80;52;47;50;78;53;47;49;80;80;49;80;80;80;47;82;49;66;81;75;66;49;82;32;98;32;75;81;107;113;32;45;32;51;32;53], (3, [], (0)%Z));
  ([114;50;110;114;47;112;50;107;112;49;98;49;47;50;112;49;78;51;47;80;98;49;112;49;112;81;112;47;49;80;54;47;49;80;49;80;50;80;80;47;51;66;49;80;50;47;49;82;49;75;78;66;49;82;32;119;32;45;32;45;32;51;32;50;54], (3, [], (0)%Z));
  ([107;55;47;56;47;56;47;56;47;56;47;56;47;56;47;56;32;195;164;32;75;81;113;32;69;51;32;45;52;54;49;49;54;56;54;48;49;56;52;50;55;51;56;55;57;48;52], (7, [], (0)%Z));
  ([107;55;47;56;47;56;47;56;47;56;47;56;47;56;47;56;32;119;98;32;113;32;101;195;32;45;49;32;49;32;43;53], (7, [], (0)%Z));
  ([107;55;47;56;47;56;47;56;47;56;47;56;47;56;47;75;75;54;32;119;32;45;32;45;32;48;32;49], (7, [], (0)%Z));
  ([52;82;51;47;56;47;56;47;56;47;56;47;56;47;56;47;52;75;51;32;98;32;45;32;45;32;57;57;32;49;9;48], (7, [], (0)%Z));
  ([107;107;54;47;56;47;56;47;56;47;56;47;56;47;56;47;75;55;32;87;32;32;69;51;32;57;57;57;57;57;57;57;57;57;57;57;57;57;57;57;57;57;57;57;57], (7, [], (0)%Z));
  ([114;110;98;113;107;98;107;114;47;112;112;112;112;112;112;50;47;54;112;49;47;55;112;47;56;47;51;80;50;80;80;47;80;80;80;49;80;80;50;47;82;78;66;81;75;66;78;82;32;98;226;128;131;75;81;107;113;32;45;32;48;160;32;51], (7, [], (0)%Z));
  ([107;107;54;47;56;47;56;47;56;47;56;47;56;47;56;47;75;55;32;45], (7, [], (0)%Z));
  ([56;47;56;47;56;47;56;47;56;47;56;47;56;47;56;32;87;32;75;45;32;32;43;32;43;53], (7, [], (0)%Z));
  ([114;110;98;113;107;98;110;114;47;112;112;112;112;112;112;112;112;47;56;47;56;47;55;80;47;56;47;80;80;80;80;80;80;80;49;47;82;78;98;66;81;66;78;82;32;98;32;75;107;113;32;104;51;32;48;32;49], (7, [], (0)%Z));
  ([107;55;47;56;47;56;47;56;47;56;47;56;47;56;47;56;32], (7, [], (0)%Z));
  ([56;47;56;47;56;47;56;47;56;47;56;47;56;47;56;32;119;32;45;32;45;32;48;32;49], (7, [], (0)%Z));
  ([114;49;98;113;49;98;49;114;47;112;112;112;107;112;49;112;112;47;110;52;110;49;80;47;51;112;52;47;49;81;51;112;50;47;50;80;53;47;80;80;49;80;80;80;80;82;47;52;82;78;66;49;32;75;66;78;49;32;98;32;81;32;45;32;51;32;55], (7, [], (0)%Z));
  ([107;107;54;47;56;47;56;47;56;47;56;47;56;47;56;47;75;55;32;119;10;32;75;81;107;113;45], (7, [], (0)%Z));
  ([107;55;47;56;47;56;47;56;47;56;47;56;47;56;47;75;75;54], (7, [], (0)%Z));
  ([226;128;167;226;128;167;52;107;51;47;56;47;56;47;56;47;56;47;56;47;56;47;52;75;51;226;128;167], (4, [], (0)%Z));
  ([31;194;134;52;107;51;47;56;47;56;47;56;47;56;47;56;47;56;47;52;75;51;32;119;32;45;32;45;32;48;32;49;194;134;31], (4, [], (0)%Z));
  ([226;128;139;227;128;128;52;107;51;47;56;47;56;47;56;47;56;47;56;47;56;47;52;75;51;32;119;32;45;32;45;32;48;32;49;227;128;128;226;128;139], (4, [], (0)%Z));
  ([114;49;98;113;49;98;49;114;47;112;112;112;50;112;112;99;47;52;112;50;80;47;51;110;52;47;51;80;49;112;80;78;47;49;110;54;47;80;50;80;80;80;82;49;47;49;78;66;75;49;66;50;32;98;32;45;32;45;32;49;32;49;54], (4, [], (0)%Z));
  ([114;110;227;98;113;51;114;47;53;107;49;47;112;49;112;49;112;49;112;110;47;49;112;49;112;50;98;49;47;80;80;78;49;80;51;47;54;80;80;47;50;80;80;49;80;50;47;82;49;66;49;75;66;78;82;32;98;32;45;32;45;32;50;32;49;54], (4, [], (0)%Z));
  ([114;11;98;113;107;98;110;114;47;112;112;112;49;112;49;112;112;47;56;47;51;112;49;112;49;80;133;56;47;50;80;47;80;80;49;80;80;80;80;49;47;82;78;66;81;75;66;78;82;32;98;32;75;81;107;113;32;45;32;48;32;51], (4, [], (0)%Z));
  ([114;50;110;51;194;133;47;112;51;107;110;50;47;53;98;112;49;47;49;112;53;112;47;12;80;50;112;112;98;49;47;80;51;80;66;49;80;47;82;66;49;80;49;75;49;82;47;49;78;54;32;98;32;45;32;45;13;49;32;51;48], (4, [], (0)%Z));
  ([240;128;128;133;194;134;52;107;51;47;56;47;56;47;56;47;56;47;56;47;56;47;52;75;51;32;119;32;45;32;45;32;48;32;49;194;134;240;128;128;133], (4, [], (0)%Z));
  ([114;110;98;113;107;98;110;49;133;47;50;112;112;112;50;114;47;112;112;51;112;112;49;47;55;112;47;56;47;78;50;80;66;80;80;80;195;164;47;80;80;80;81;80;51;47;82;51;75;66;78;82;32;98;32;75;81;113;45;32;51;32;55], (4, [], (0)%Z));
  ([114;50;110;107;50;114;47;112;227;98;49;110;98;49;47;49;81;52;112;49;47;49;112;53;112;47;49;80;50;112;112;80;49;47;80;51;80;66;49;80;47;82;50;80;75;50;82;47;49;78;66;53;32;98;32;45;32;45;32;49;32;50], (4, [], (0)%Z));
  ([114;110;98;50;107;50;47;112;50;112;113;51;47;112;53;114;112;47;80;50;80;80;112;112;80;47;80;49;112;50;80;50;47;82;239;191;189;49;80;50;81;49;75;47;54;80;82;47;49;78;66;51;78;49;32;98;32;45;32;45;32;52;32;51;48], (4, [], (0)%Z));
  ([114;110;98;107;49;98;110;114;47;112;50;112;112;49;112;112;47;53;112;50;47;50;112;53;47;49;112;53;152;47;52;80;51;47;113;80;80;80;75;80;80;49;47;82;78;66;81;49;66;78;82;32;119;32;45;32;120;32;52;32;56], (4, [], (0)%Z));
  ([120;107;55;47;56;47;56;47;56;47;56;47;56;47;56;47;75;55;32;119;10;32;81;75;32;104;56;32;49;50;51;52;53;54;55;56;57;48;49;50;51;52;53;54;55;56;57;48], (4, [], (0)%Z));
  ([52;107;51;47;56;47;56;47;56;47;56;47;56;47;56;47;52;75;51;225;154;128;119;32;45;32;45;32;48;32;49], (4, [], (0)%Z));
  ([52;107;51;47;51;80;52;47;56;47;56;47;56;47;56;47;56;47;52;75;51;32], (14, [], (0)%Z));
  ([52;107;51;47;51;80;52;47;56;47;56;47;56;47;56;47;56;47;52;75;51;32;119;32;45;32;45;32;48;32;49], (14, [], (0)%Z));
  ([52;107;51;47;51;80;52;47;56;47;56;47;56;47;56;47;56;47;52;75;51;32;124;32;45;32;45;32;48;32;49], (14, [], (0)%Z));
  ([56;47;56;47;56;47;56;47;56;47;56;47;56;47;53;107;75;49;32;98;32;45;32;45;32;48;32;49], (14, [], (0)%Z));
  ([50;114;50;98;50;47;113;51;107;51;47;110;49;112;114;52;47;49;80;110;50;78;112;112;47;50;81;49;80;112;98;80;47;53;80;50;47;52;80;49;66;82;47;82;49;66;50;75;78;49;32], (14, [], (0)%Z));
  ([52;107;51;47;56;47;56;47;56;47;66;55;47;56;47;56;47;52;75;51;32], (14, [], (0)%Z));
  ([56;47;56;47;56;47;56;47;56;47;56;47;56;47;53;107;75;49;32;119], (14, [], (0)%Z));
  ([113;51;107;51;47;56;47;56;47;56;47;56;47;56;47;56;47;75;55;32;98;32;45;32;45;32;48;32;49], (14, [], (0)%Z));
  ([52;107;51;47;51;80;52;47;56;47;56;47;56;47;56;47;56;47;52;75;51;32;124], (14, [], (0)%Z));
  ([52;107;51;47;56;47;56;47;56;47;56;47;56;47;56;47;52;82;75;50], (14, [], (0)%Z));
  ([52;107;51;47;56;47;53;78;50;47;56;47;56;47;56;47;56;47;52;75;51;32;124], (14, [], (0)%Z));
  ([52;107;51;47;56;47;56;47;56;47;66;55;47;56;47;56;47;52;75;51;32;124], (14, [], (0)%Z));
  ([52;107;51;47;56;47;56;47;56;47;66;55;47;56;47;50;110;53;47;52;75;51;32;124;32;45;32;45;32;48;32;49], (14, [], (0)%Z));
  ([52;107;51;47;56;47;53;78;50;47;56;47;56;47;56;47;56;47;52;75;51;32;124;32;45;32;45;32;48;32;49], (14, [], (0)%Z));
  ([52;107;51;47;56;47;56;47;56;47;66;55;47;56;47;56;47;52;75;51;32;32;45;32;45;32;48;32;49], (8, [], (0)%Z));
  ([114;49;98;113;107;98;49;114;47;112;112;112;49;112;49;112;112;47;110;54;110;47;51;112;52;47;52;80;49;112;49;47;56;47;80;80;80;80;49;80;80;80;47;82;78;66;49;75;66;78;82;32;119;98;32;113], (8, [], (0)%Z));
  ([51;113;107;98;110;49;47;110;49;112;98;52;47;114;112;49;112;112;51;47;112;66;49;80;80;50;112;47;51;66;49;114;49;78;47;54;112;49;47;80;80;80;49;78;50;80;47;49;82;50;75;49;82;49;32;119;124;98;32;107;75;32;101;51;51], (8, [], (0)%Z));
  ([114;110;98;113;107;98;110;114;47;50;112;112;112;51;47;112;112;51;112;112;49;47;55;112;47;56;47;51;80;66;80;80;80;47;80;80;80;81;80;51;47;82;78;50;75;66;78;82;32;119;119;32;75;81;113], (8, [], (0)%Z));
  ([114;110;98;49;107;49;114;49;47;112;112;49;112;52;47;66;113;53;112;47;98;50;80;112;112;112;80;47;80;80;112;50;80;81;49;47;82;49;80;52;75;47;51;80;50;80;82;47;49;78;66;51;78;49;32;32;45;32;45;32;50;32;50;50], (8, [], (0)%Z));
  ([52;107;51;47;56;47;56;47;56;47;56;47;56;47;56;47;52;75;51;32;87;32;45;32;45;32;51;32;45;55], (8, [], (0)%Z));
  ([113;51;107;51;47;56;47;56;47;56;47;56;47;56;47;56;47;75;55;32;32;45;32;45;32;120;32;49], (8, [], (0)%Z));
  ([52;107;51;47;56;47;56;47;56;47;56;47;56;47;56;47;52;75;51;32;195;164], (8, [], (0)%Z));
  ([114;110;98;113;49;98;49;114;47;49;112;112;49;107;49;112;49;47;53;110;50;47;112;50;112;51;112;47;52;112;112;80;80;47;49;80;49;80;52;47;80;49;80;81;80;80;66;82;47;82;78;66;49;75;49;78;49;32;87], (8, [], (0)%Z));
  ([52;107;51;47;56;47;56;47;56;47;56;47;56;47;56;47;52;75;51;32;119;119], (8, [], (0)%Z));
  ([51;114;110;51;47;112;98;51;107;49;112;47;49;112;112;112;112;49;110;49;47;49;113;80;50;112;66;49;47;80;80;51;98;50;47;82;50;80;80;49;80;49;47;78;53;66;80;47;51;81;75;49;78;82;32;195;164;32;75;107;113;32], (8, [], (0)%Z));
  ([114;110;98;113;51;114;47;50;112;112;112;107;98;112;47;112;112;54;47;80;53;66;49;47;51;80;110;51;47;50;78;51;80;80;47;49;80;80;49;80;80;50;47;82;50;81;75;66;49;82;32;119;98], (8, [], (0)%Z));
  ([114;110;98;51;114;49;47;112;112;49;112;49;107;112;49;47;66;113;53;112;47;98;50;80;112;112;49;80;47;80;80;112;50;80;81;49;47;82;49;80;51;75;49;47;51;80;50;80;82;47;49;78;66;51;78;49;32;119;82;32;45;32;45;32;50;32;50;48], (8, [], (0)%Z));
  ([114;49;98;107;49;98;110;114;47;112;50;112;112;49;112;112;47;110;52;112;50;47;50;112;53;47;49;112;50;80;50;80;47;56;47;113;80;80;80;75;80;80;49;47;82;78;66;81;49;66;78;82;32;82;119;110;32;45;32;45;32;49;32;57], (8, [], (0)%Z));
  ([52;107;51;47;56;47;56;47;56;47;56;47;56;47;56;47;52;75;51;32;124;32;45;32;45;32;55;32;49;48;48;48;48;48;49], (17, [], (0)%Z));
  ([52;107;51;47;56;47;56;47;56;47;56;47;56;47;56;47;52;75;51;32;119;32;45;32;45;32;48;32;57;50;50;51;51;55;50;48;51;54;56;53;52;55;55;53;56;48;55], (17, [], (0)%Z));
  ([52;107;51;47;56;47;56;47;56;47;56;47;56;47;56;47;52;75;51;32;119;32;45;32;45;32;48;32;45;52;54;49;49;54;56;54;48;49;56;52;50;55;51;56;55;57;48;52], (17, [], (0)%Z));
  ([52;107;51;47;56;47;56;47;56;47;56;47;56;47;56;47;52;75;51;32;124;32;45;32;45;32;55;32;50;48;48;48;48;48;48], (17, [], (0)%Z));
  ([52;107;51;47;56;47;56;47;56;47;56;47;56;47;56;47;52;75;51;32;119;32;45;32;45;32;48;32;45;52;54;49;49;54;56;54;48;49;56;52;50;55;51;56;55;57;48;53], (17, [], (0)%Z));
  ([52;107;51;47;56;47;56;47;56;47;56;47;56;47;56;47;52;75;51;32;119;32;45;32;45;32;48;32;45;52;54;49;49;54;56;54;48;49;56;52;50;55;51;56;55;57;48;51], (17, [], (0)%Z));
  ([52;107;51;47;56;47;56;47;56;47;56;47;56;47;56;47;52;75;51;32;119;32;45;32;45;32;48;32;45;49], (17, [], (0)%Z));
  ([52;107;51;47;56;47;56;47;56;47;56;47;56;47;56;47;52;75;51;32;124;32;45;32;45;32;55;32;45;57;50;50;51;51;55;50;48;51;54;56;53;52;55;55;53;56;48;56], (17, [], (0)%Z));
  ([52;107;51;47;56;47;56;47;56;47;56;47;56;47;56;47;52;75;51;32;119;32;45;32;45;32;48;32;45;57;50;50;51;51;55;50;48;51;54;56;53;52;55;55;53;56;48;56], (17, [], (0)%Z));
  ([52;107;51;47;56;47;56;47;56;47;56;47;56;47;56;47;52;75;51;32;119;32;45;32;45;32;48;32;50;48;48;48;48;48;48], (17, [], (0)%Z));
  ([52;107;51;47;56;47;56;47;56;47;56;47;56;47;56;47;52;75;51;32;119;32;45;32;45;32;48;32;49;48;48;48;48;48;49], (17, [], (0)%Z));
  ([52;107;51;47;56;47;56;47;56;47;56;47;56;47;56;47;52;75;51;32;98;32;45;32;45;32;48;32;57;50;50;51;51;55;50;48;51;54;56;53;52;55;55;53;56;48;54], (17, [], (0)%Z));
  ([52;107;51;47;56;47;56;47;56;47;56;47;56;47;56;47;52;75;51;32;119;32;45;32;45;32;48;32;52;54;49;49;54;56;54;48;49;56;52;50;55;51;56;55;57;48;51], (17, [], (0)%Z));
  ([52;107;51;47;56;47;56;47;56;47;56;47;56;47;56;47;52;75;51;32;98;32;45;32;45;32;51;32;45;55], (17, [], (0)%Z));
  ([52;107;51;47;56;47;56;47;56;47;56;47;56;47;56;47;52;75;51;32;98;32;75;81;32;101;53;32;48;32;49], (11, [], (0)%Z));
  ([52;107;51;47;56;47;56;47;56;47;56;47;56;47;56;47;52;75;51;32;98;32;75;81;32;97;49;32;48;32;49], (11, [], (0)%Z));
  ([114;110;98;113;107;98;110;114;47;112;112;112;112;49;112;112;112;47;56;47;52;112;51;47;52;80;51;47;56;47;80;80;80;80;49;80;80;80;47;82;78;66;81;75;66;78;82;32;124;32;75;81;107;113;32;104;56], (11, [], (0)%Z));
  ([114;110;98;113;107;98;110;114;47;112;112;112;112;49;112;112;112;47;56;47;52;112;51;47;52;80;51;47;56;47;80;80;80;80;49;80;80;80;47;82;78;66;81;75;66;78;82;32;98;32;75;81;107;113;32;97;49;32;48;32;50], (11, [], (0)%Z));
  ([52;107;51;47;56;47;52;80;51;47;52;112;51;47;52;80;51;47;52;112;51;47;56;47;52;75;51;32;98;32;45;32;101;52], (11, [], (0)%Z));
  ([52;107;51;47;56;47;56;47;56;47;56;47;56;47;56;47;52;75;51;32;98;32;75;81;32;101;52;32;48;32;49], (11, [], (0)%Z));
  ([52;107;51;47;56;47;52;80;51;47;52;112;51;47;52;80;51;47;52;112;51;47;56;47;52;75;51;32;119;32;45;32;101;55], (11, [], (0)%Z));
  ([52;107;51;47;56;47;56;47;56;47;56;47;56;47;56;47;52;75;51;32;119;32;45;32;104;56], (11, [], (0)%Z));
  ([114;110;98;113;107;98;110;49;47;50;112;112;112;50;114;47;112;112;51;112;112;49;47;55;112;47;56;47;78;50;80;66;80;80;80;47;80;80;80;81;80;51;47;82;51;75;66;78;82;32;124;32;81;32;104;56;32;43;48], (11, [], (0)%Z));
  ([52;107;51;47;56;47;56;47;56;47;56;47;56;47;56;47;52;75;51;32;98;32;75;81;32;101;55;32;48;32;49], (11, [], (0)%Z));
  ([52;107;51;47;56;47;52;80;51;47;52;112;51;47;52;80;51;47;52;112;51;47;56;47;52;75;51;32;98;32;45;32;101;53], (11, [], (0)%Z));
  ([52;107;51;47;56;47;56;47;56;47;56;47;56;47;56;47;52;75;51;32;119;32;45;32;97;49], (11, [], (0)%Z));
  ([114;110;98;113;107;98;110;114;47;112;112;112;112;49;112;112;112;47;56;47;52;112;51;47;52;80;51;47;56;47;80;80;80;80;49;80;80;80;47;82;78;66;81;75;66;78;82;32;124;32;75;81;107;113;32;101;53], (11, [], (0)%Z));
  ([52;107;51;47;56;47;56;47;56;47;56;47;56;47;56;47;52;75;51;32;119;32;45;32;101;50], (11, [], (0)%Z));
  ([52;107;51;47;56;47;56;47;56;47;56;47;56;47;56;47;52;75;51;32;98;32;45;32;45;32;45;49;32;45;49], (16, [], (0)%Z));
  ([52;107;51;47;56;47;56;47;56;47;56;47;56;47;56;47;52;75;51;32;98;32;45;32;45;32;45;52;54;49;49;54;56;54;48;49;56;52;50;55;51;56;55;57;48;52;32;45;52;54;49;49;54;56;54;48;49;56;52;50;55;51;56;55;57;48;52], (16, [], (0)%Z));
  ([52;107;51;47;56;47;56;47;56;47;56;47;56;47;56;47;52;75;51;32;119;32;45;32;45;32;45;52;54;49;49;54;56;54;48;49;56;52;50;55;51;56;55;57;48;51], (16, [], (0)%Z));
  ([52;107;51;47;56;47;56;47;56;47;56;47;56;47;56;47;52;75;51;32;119;32;45;32;45;32;45;50], (16, [], (0)%Z));
  ([52;107;51;47;56;47;56;47;56;47;56;47;56;47;56;47;52;75;51;32;98;32;45;32;45;32;45;52;54;49;49;54;56;54;48;49;56;52;50;55;51;56;55;57;48;51;32;45;52;54;49;49;54;56;54;48;49;56;52;50;55;51;56;55;57;48;51], (16, [], (0)%Z));
  ([52;107;51;47;56;47;56;47;56;47;56;47;56;47;56;47;52;75;51;32;119;32;45;32;45;32;45;57;50;50;51;51;55;50;48;51;54;56;53;52;55;55;53;56;48;55;32;49], (16, [], (0)%Z));
  ([52;107;51;47;56;47;56;47;56;47;56;47;56;47;56;47;52;75;51;32;119;32;45;32;45;32;45;57;50;50;51;51;55;50;48;51;54;56;53;52;55;55;53;56;48;55], (16, [], (0)%Z));
  ([52;107;51;47;56;47;56;47;56;47;56;47;56;47;56;47;52;75;51;32;98;32;45;32;45;32;45;57;50;50;51;51;55;50;48;51;54;56;53;52;55;55;53;56;48;56;32;45;57;50;50;51;51;55;50;48;51;54;56;53;52;55;55;53;56;48;56], (16, [], (0)%Z));
  ([52;107;51;47;56;47;56;47;56;47;56;47;56;47;56;47;52;75;51;32;119;32;45;32;45;32;45;52;54;49;49;54;56;54;48;49;56;52;50;55;51;56;55;57;48;53], (16, [], (0)%Z));
  ([52;107;51;47;56;47;56;47;56;47;56;47;56;47;56;47;52;75;51;32;98;32;45;32;45;32;45;52;54;49;49;54;56;54;48;49;56;52;50;55;51;56;55;57;48;53;32;45;52;54;49;49;54;56;54;48;49;56;52;50;55;51;56;55;57;48;53], (16, [], (0)%Z));
  ([52;107;51;47;56;47;56;47;56;47;56;47;56;47;56;47;52;75;51;32;119;32;45;32;45;32;45;57;50;50;51;51;55;50;48;51;54;56;53;52;55;55;53;56;48;56;32;49], (16, [], (0)%Z));
  ([52;107;51;47;56;47;56;47;56;47;56;47;56;47;56;47;52;75;51;32;119;32;45;32;45;32;45;52;54;49;49;54;56;54;48;49;56;52;50;55;51;56;55;57;48;51;32;49], (16, [], (0)%Z));
  ([52;107;51;47;56;47;56;47;56;47;56;47;56;47;56;47;52;75;51;32;119;32;45;32;45;32;45;52;54;49;49;54;56;54;48;49;56;52;50;55;51;56;55;57;48;53;32;49], (16, [], (0)%Z));
  ([52;107;51;47;56;47;56;47;56;47;56;47;56;47;56;47;52;75;51;32;119;32;45;32;45;32;45;52;54;49;49;54;56;54;48;49;56;52;50;55;51;56;55;57;48;52], (16, [], (0)%Z));
  ([52;107;51;47;56;47;56;47;56;47;56;47;56;47;56;47;52;75;51;32;98;32;45;32;45;32;49;46;48;32;49;46;48], (12, [], (0)%Z));
  ([52;107;51;47;56;47;56;47;56;47;56;47;56;47;56;47;52;75;51;32;119;32;32;45;32;45;32;48;32;49], (12, [], (0)%Z));
  ([52;107;51;47;56;47;56;47;56;47;56;47;56;47;56;47;52;75;51;32;119;32;45;32;45;32;48;10;49], (12, [], (0)%Z));
  ([52;107;51;47;56;47;56;47;56;47;56;47;56;47;56;47;52;75;51;32;119;32;45;32;45;32;53;97;32;49], (12, [], (0)%Z));
  ([114;53;110;114;47;112;50;107;112;49;98;112;47;98;49;112;112;78;51;47;80;52;112;112;49;47;49;80;54;47;49;80;49;80;49;81;49;80;47;50;78;50;80;80;49;47;49;82;66;49;75;66;49;82;32;119;32;45;32;45;32;32;50;226;128;139], (12, [], (0)%Z));
  ([52;107;51;47;56;47;56;47;56;47;56;47;56;47;56;47;52;75;51;32;119;32;45;32;45;32;48;32;49;46;48], (12, [], (0)%Z));
  ([52;107;51;47;56;47;53;78;50;47;56;47;56;47;56;47;56;47;52;75;51;32;98;32;45;32;45;32;120;32;49], (12, [], (0)%Z));
  ([52;107;51;47;56;47;56;47;56;47;56;47;56;47;56;47;52;75;51;32;119;32;45;32;45;32;48;32;49;226], (12, [], (0)%Z));
  ([52;107;51;47;56;47;56;47;56;47;56;47;56;47;56;47;52;82;75;50;32;98;32;45;32;45;32;120;32;49], (12, [], (0)%Z));
  ([52;107;51;47;56;47;56;47;56;47;56;47;56;47;56;47;52;75;51;32;98;32;45;32;45;32;48;32;43], (12, [], (0)%Z));
  ([52;107;51;47;56;47;56;47;56;47;56;47;56;47;56;47;52;75;51;32;119;32;45;32;45;32;53;97], (12, [], (0)%Z));
  ([114;110;98;113;107;98;110;114;47;112;112;112;49;112;49;112;112;47;56;47;51;112;49;112;49;80;47;56;47;50;80;53;47;80;80;49;80;80;80;80;49;47;82;78;66;81;75;66;78;82;32;98;32;75;81;107;113;32;45;32;48;32;51;133], (12, [], (0)%Z));
  ([52;107;51;47;56;47;56;47;56;47;56;47;56;47;56;47;52;75;51;32;119;32;45;32;45;32;49;95;48;48;48;32;49], (12, [], (0)%Z));
  ([114;110;98;113;49;107;110;114;47;112;49;112;49;112;49;98;49;47;52;112;112;112;112;47;49;112;54;47;49;80;54;47;50;80;53;47;80;50;80;80;80;80;80;47;82;78;66;81;75;66;49;82;32;119;32;75;81;32;45;32;49;32;56;158], (12, [], (0)%Z))].
Example fen_observed_agree :
  forallb (fun '(s, (c, f, n)) => let '(c', f', n') := fen_obs s in
             (c =? c') && str_eqb f f' && (n =? n')%Z && fen_case_ok s (if c =? 0 then 1 else 0) f) fen_observed = true.
Proof. vm_compute. reflexivity. Qed.

Print Assumptions fen_total.
Print Assumptions fen_wellformed.
Print Assumptions fen_reparse_wf.
Print Assumptions fen_reparse.
Print Assumptions fen_roundtrip_legal.
