(** * ShiftCorrect: board shifts in all eight directions never wrap around an edge (C18). *)
From Coq Require Import NArith ZArith List Bool Lia ZifyBool Uint63.
From FG Require Import Word64 Geom Tables TablesCorrect.
From FG.gen Require Import Tables_gen.
Import ListNotations.
Open Scope N_scope.

(** ** board shifts never wrap around an edge (all 64-bit bitboards — not a finite check) *)
Lemma testbit_shiftl a n m : N.testbit (N.shiftl a n) m = (n <=? m) && N.testbit a (m - n).
Proof.
  destruct (N.leb_spec n m) as [H|H].
  - now rewrite N.shiftl_spec_high' by exact H.
  - now rewrite N.shiftl_spec_low by exact H.
Qed.

Lemma testbit_high b i : b < W64 -> N.testbit b i = (i <? 64) && N.testbit b i.
Proof.
  intros Hb. destruct (N.ltb_spec i 64) as [H|H]; [reflexivity|].
  destruct (N.testbit b i) eqn:E; [|reflexivity].
  pose proof (testbit_lt_pow2 b 64 i Hb E). lia.
Qed.

Lemma step_opp_check :
  forallb (fun d => forallb (fun s => forallb (fun t =>
     Bool.eqb (match step d s with Some t' => t' =? t | None => false end)
              (match step (opp d) t with Some s' => s' =? s | None => false end)) squares64) squares64) all_dirs = true.
Proof. vm_cast_no_check (eq_refl true). Qed.

Lemma step_opp d s t : s < 64 -> t < 64 -> (step d s = Some t <-> step (opp d) t = Some s).
Proof.
  intros Hs Ht. pose proof step_opp_check as H. rewrite forallb_forall in H.
  assert (Hd : In d all_dirs) by (destruct d; cbn; tauto).
  specialize (H d Hd). pose proof (forall_squares _ H s Hs) as H1. cbv beta in H1.
  pose proof (forall_squares _ H1 t Ht) as H2. cbv beta in H2. apply Bool.eqb_prop in H2.
  destruct (step d s) as [t'|], (step (opp d) t) as [s'|]; split; intros E;
    try discriminate; try (injection E as ->).
  - rewrite N.eqb_refl in H2. symmetry in H2. apply N.eqb_eq in H2. now subst.
  - rewrite N.eqb_refl in H2. apply N.eqb_eq in H2. now subst.
  - rewrite N.eqb_refl in H2. discriminate.
  - rewrite N.eqb_refl in H2. discriminate.
Qed.

Lemma step_lt d s t : step d s = Some t -> t < 64.
Proof.
  unfold step, offset. destruct (delta d) as [df dr].
  destruct (on_board _ _) eqn:E; [|discriminate]. intros H.
  pose proof (f_equal (fun o => match o with Some x => x | None => 0 end) H) as H'.
  cbv beta iota in H'. subst t. clear H. unfold on_board in E. lia.
Qed.

Lemma shift_bits b d t : b < W64 -> t < 64 ->
  N.testbit (shift_impl b d) t =
  match step (opp d) t with Some s => N.testbit b s | None => false end.
Proof.
  intros Hb Ht.
  assert (Hin : In t squares64) by now apply in_squares64.
  pose proof (testbit_high b) as Hf.
  assert (Hg : exists g, forall i, N.testbit b i = (i <? 64) && g i).
  { exists (N.testbit b). intros i. now apply Hf. }
  destruct Hg as [g Hg].
  destruct d; unfold shift_impl, wshl;
    repeat (rewrite wrap_testbit || rewrite N.land_spec || rewrite testbit_shiftl || rewrite N.shiftr_spec');
    cbn [opp];
    cbv in Hin;
    repeat (destruct Hin as [<-|Hin];
            [match goal with |- context [step ?d ?t] =>
               let r := eval vm_compute in (step d t) in change (step d t) with r end;
             cbv iota; rewrite ?Hg; vm_compute; try reflexivity; destruct (g _); reflexivity|]);
    destruct Hin.
Qed.

Theorem shift_exact : forall b d t, b < W64 -> t < 64 ->
  (N.testbit (shift_impl b d) t = true <->
   exists s, s < 64 /\ N.testbit b s = true /\ step d s = Some t).
Proof.
  intros b d t Hb Ht. rewrite shift_bits by assumption. split.
  - destruct (step (opp d) t) as [s|] eqn:E; [|discriminate]. intros H.
    assert (Hs : s < 64) by (eapply step_lt; exact E).
    exists s. repeat split; try assumption. now apply step_opp.
  - intros [s [Hs [Hbs E]]]. apply step_opp in E; try assumption. now rewrite E.
Qed.

Lemma lt_pow2_of_bits a n : (forall i, n <= i -> N.testbit a i = false) -> a < 2 ^ n.
Proof.
  intros H. destruct (N.eq_dec a 0) as [->|Hz].
  - apply N.neq_0_lt_0, N.pow_nonzero. discriminate.
  - apply N.log2_lt_pow2; [lia|].
    destruct (N.lt_ge_cases (N.log2 a) n) as [Hl|Hl]; [exact Hl|].
    pose proof (N.bit_log2 a Hz) as Hb. rewrite (H _ Hl) in Hb. discriminate.
Qed.

Lemma bits_high_false a i : a < W64 -> 64 <= i -> N.testbit a i = false.
Proof.
  intros Ha Hi. destruct (N.testbit a i) eqn:E; [|reflexivity].
  pose proof (testbit_lt_pow2 a 64 i Ha E). lia.
Qed.

Theorem shift_bounded : forall b d, b < W64 -> shift_impl b d < W64.
Proof.
  intros b d Hb.
  assert (Hland : forall x m, x < W64 -> N.land x m < W64).
  { intros x m Hx. rewrite W64_pow. apply lt_pow2_of_bits. intros i Hi.
    rewrite N.land_spec, (bits_high_false x i Hx Hi). reflexivity. }
  assert (Hshr : forall x n, x < W64 -> N.shiftr x n < W64).
  { intros x n Hx. rewrite W64_pow. apply lt_pow2_of_bits. intros i Hi.
    rewrite N.shiftr_spec'. apply bits_high_false; [exact Hx|lia]. }
  destruct d; unfold shift_impl, wshl; auto using wrap_lt.
Qed.
