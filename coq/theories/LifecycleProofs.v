(** * LifecycleProofs: the inductive invariant of the lifecycle model [Lifecycle.v] (properties C14, C12-lifecycle)

    Part 1 (this file): [Inv] = [InvA] (control: semaphores, sendLock, program counters, at most one goroutine
    owning isRunning, senders) /\ [InvB] (ghost: identities of searches, tokens, timers, results), and
    [inv_reachable]: Inv holds in every reachable state, for ALL schedules and all call sequences.
    Part 2 (LifecycleProofs2.v): start_while_running_rejected, one_result_per_start, result_belongs_to_start,
    no_foreign_stop, infinite_not_before_stop, go_after_bestmove_accepted, results_can_swap (finding), race_free,
    no_deadlock (+ local statement, bounded release), output_never_muted. *)
From Coq Require Import List Bool Arith PeanoNat Lia.
Import ListNotations.
Set Warnings "-unused-intro-pattern".
From FG Require Import Lifecycle.

(** * Layer A: control invariant *)

Definition holds_run (p : cpc) : bool :=
  match p with CStAcqInit | CStPos | CStLim | CStTok | CStGo | CWRel | CIsRel => true | _ => false end.
Definition in_init (p : spc) : bool :=
  match p with
  | SHasRes0 | STL0 | SET0 | SInBook | SInBookW | SInTT | SInTTW | SSetTL | SSetET | SLimTimer | STimerPtr
  | STimerGo _ | SBook | STTAge | SHist | SRelInit => true
  | _ => false
  end.
Definition before_tt (p : spc) : bool :=
  match p with SHasRes0 | STL0 | SET0 | SInBook | SInBookW | SInTT | SInTTW => true | _ => false end.
Definition srch_init (s : state) : bool := existsb (fun th => in_init (spcv th)) (srch s).
Definition holds_init (p : cpc) (b : bool) : bool :=
  match p with CStPos | CStLim | CStTok | CStGo | CStRel => true | CStWait => b | _ => false end.
Definition nil_b {A} (l : list A) : bool := match l with [] => true | _ => false end.

Definition pc_call_ok (p : cpc) (c : option call) : bool :=
  match p, c with
  | CIdle, _ => true
  | (CStTry | CStAcqInit | CStPos | CStLim | CStTok | CStGo | CStWait | CStRel), Some (CStart _) => true
  | (CSpPtr | CSpStore _), Some (CStop | CNewGame) => true
  | (CWAcq | CWRel), Some (CStop | CNewGame | CWait) => true
  | (CNgTT | CNgHist), Some CNewGame => true
  | (CIsTry | CIsRel), Some (CIsSearching | CPonderHit | CClearHash | CResize) => true
  | (CPhLim | CPhPtr | CPhGo _), Some CPonderHit => true
  | (CInBook | CInBookW | CInTT | CInTTW), Some (CIsReady | CResize) => true
  | CChTT, Some CClearHash => true
  | (CRzNil | CRzTT), Some CResize => true
  | (CSend0 _ _ | CSend1 _ _ | CSend2 _ | CSend3 _ _ | CSend4 _), Some (CIsReady | CClearHash | CResize) => true
  | CRet _, Some _ => true
  | _, _ => false
  end.

Definition zone (p : cpc) (c : option call) : bool :=
  holds_run p ||
  match p, c with
  | (CNgTT | CNgHist | CChTT | CRzNil | CRzTT), _ => true
  | (CInBook | CInBookW | CInTT | CInTTW), Some CResize => true
  | _, _ => false
  end.

Definition cparam_ok (s : state) : Prop :=
  match cpcv s with CSpStore p | CPhGo p => p = stopPtr s | _ => True end.
Definition sparam_ok (s : state) (p : spc) : Prop :=
  match p with
  | STimerGo p | SPollTok p | SWaitTok p | SEndStore p => p = stopPtr s
  | _ => True
  end.
Definition in_ph (p : cpc) : bool := match p with CPhLim | CPhPtr | CPhGo _ => true | _ => false end.

Definition c_send (p : cpc) : bool :=
  match p with CSend1 _ _ | CSend2 _ | CSend3 _ _ | CSend4 _ => true | _ => false end.
Definition s_send (p : spc) : bool :=
  match p with SInfo1 | SInfo2 | SInfo3 _ | SInfo4 | SRes1 | SRes2 | SRes3 _ | SRes4 => true | _ => false end.
Definition srch_send (s : state) : bool := existsb (fun th => s_send (spcv th)) (srch s).
Definition snd_pc (p : spc) : bool :=
  match p with SRes0 | SRes1 | SRes2 | SRes3 _ | SRes4 => true | _ => false end.
Definition thr_eqb (a b : thr) : bool :=
  match a, b with
  | ThCtl, ThCtl | ThClock, ThClock => true
  | ThSearch n, ThSearch m | ThTimer n, ThTimer m => n =? m
  | _, _ => false
  end.
Definition holder_is (s : state) (t : thr) : bool :=
  match outHolder s with Some x => thr_eqb x t | None => false end.
Definition cbuf_ok (s : state) : Prop :=
  match cpcv s with
  | CSend1 _ _ | CSend4 _ => outBuf s = []
  | CSend2 _ => length (outBuf s) = 1
  | CSend3 k _ => k = 1 /\ length (outBuf s) = 1
  | _ => True
  end.
Definition sbuf_ok (s : state) (p : spc) : Prop :=
  match p with
  | SInfo1 | SInfo4 | SRes1 | SRes4 => outBuf s = []
  | SInfo2 | SRes2 => length (outBuf s) = 1
  | SInfo3 k | SRes3 k => k = 1 /\ length (outBuf s) = 1
  | _ => True
  end.

Record InvA (s : state) : Prop := {
  A_pan : panicked s = false;
  A_one : length (srch s) <= 1;
  A_run : runFree s = negb (holds_run (cpcv s)) && nil_b (srch s);
  A_excl : holds_run (cpcv s) = true -> srch s = [];
  A_init : initFree s = negb (holds_init (cpcv s) (srch_init s));
  A_phase : srch_init s = true -> cpcv s = CStWait;
  A_call : pc_call_ok (cpcv s) (cur_call s) = true;
  A_zone : zone (cpcv s) (cur_call s) = true -> srch s = [];
  A_tt : forall th, In th (srch s) -> before_tt (spcv th) = false -> cfgTT s = true -> tt s = true;
  A_ttw : cpcv s = CInTTW -> tt s = false /\ cfgTT s = true;
  A_toks : length (toks s) = S (stopPtr s);
  A_sid : forall th, In th (srch s) -> sid th = stopPtr s /\ limitsVar s = Some (slim th) /\ sparam_ok s (spcv th);
  A_cparam : cparam_ok s;
  A_ph : in_ph (cpcv s) = true -> limitsVar s <> None;
  A_hfree : outFree s = match outHolder s with None => true | Some _ => false end;
  A_hctl : c_send (cpcv s) = holder_is s ThCtl;
  A_hsrch : forall th, In th (srch s) -> s_send (spcv th) = holder_is s (ThSearch (sid th));
  A_hsnd : forall th, In th (senders s) -> s_send (spcv th) = holder_is s (ThSearch (sid th));
  A_buf0 : outFree s = true -> outBuf s = [];
  A_err : outErr s = false;
  A_cbuf : cbuf_ok s;
  A_sbuf : forall th, In th (srch s) -> sbuf_ok s (spcv th);
  A_nbuf : forall th, In th (senders s) -> sbuf_ok s (spcv th);
  A_srun : forall th, In th (srch s) -> snd_pc (spcv th) = false;
  A_snd : forall th, In th (senders s) ->
          snd_pc (spcv th) = true /\ sid th <= stopPtr s /\ (srch s <> [] \/ cpcv s = CStGo -> sid th < stopPtr s);
  A_sndnd : NoDup (map sid (senders s));
  A_hex : forall n, outHolder s = Some (ThSearch n) -> exists th, (In th (srch s) \/ In th (senders s)) /\ sid th = n;
  A_hkind : match outHolder s with Some (ThTimer _) | Some ThClock => False | _ => True end;
  A_lim : match cpcv s, cur_call s with
          | (CStTok | CStGo), Some (CStart l) => limitsVar s = Some l
          | _, _ => True
          end
}.

Lemma invA_init : forall a b c cs, InvA (init a b c cs).
Proof.
  intros; constructor; unfold cparam_ok, cbuf_ok, holder_is; simpl; auto; try (intros; contradiction); try discriminate.
  constructor.
Qed.

Lemma tok_set_length : forall l p r, length (tok_set p r l) = length l.
Proof. induction l; destruct p; simpl; auto. Qed.

Lemma srch_single : forall s n th, length (srch s) <= 1 -> find_s n (srch s) = Some th ->
  srch s = [th] /\ sid th = n.
Proof.
  intros s n th H F. unfold find_s in F. destruct (srch s) as [|x [|y l]]; simpl in *; try discriminate; try lia.
  destruct (sid x =? n) eqn:E; try discriminate. inversion F; subst. apply Nat.eqb_eq in E. auto.
Qed.

Ltac inv_some := match goal with H : Some _ = Some _ |- _ => inversion H; clear H; subst end.

Lemma invA_tick : forall s, InvA s -> InvA (set_clock (S (clock s)) s).
Proof. intros s [ ]; constructor; simpl; auto. Qed.

Lemma invA_timer : forall s k s', InvA s -> step s (TTimer k) = Some s' -> InvA s'.
Proof.
  intros s k s' I H. unfold step in H. rewrite (A_pan _ I) in H.
  destruct (find_t k (timers s)) as [th|]; try discriminate.
  unfold tstep in H. destruct I.
  destruct (tpcv th); try destruct (tok_get (ttok th) (toks s)); inv_some;
    constructor; simpl; auto; try (rewrite tok_set_length; auto).
Qed.

Lemma put_s_single : forall th th', sid th' = sid th -> put_s th' [th] = [th'].
Proof. intros. unfold put_s; simpl. rewrite H, Nat.eqb_refl. reflexivity. Qed.
Lemma del_s_single : forall th, del_s (sid th) [th] = [].
Proof. intros. unfold del_s; simpl. rewrite Nat.eqb_refl. reflexivity. Qed.

Lemma rel_init_ok : forall s, initFree s = false -> rel_init s = set_initFree true s.
Proof. intros. unfold rel_init. rewrite H. reflexivity. Qed.
Lemma rel_run_ok : forall s, runFree s = false -> rel_run s = set_runFree true s.
Proof. intros. unfold rel_run. rewrite H. reflexivity. Qed.

Ltac dest_in := repeat match goal with
  | H : In _ [_] |- _ => destruct H as [H|[]]; subst
  | H : _ \/ False |- _ => destruct H as [H|[]]; subst
  end.

Lemma rel_out_ok : forall s, outFree s = false -> rel_out s = set_outHolder None (set_outFree true s).
Proof. intros. unfold rel_out. rewrite H. reflexivity. Qed.

Definition IPAT := True.
Lemma invA_search : forall s n c s' th, InvA s -> find_s n (srch s) = Some th -> sstep s th c = Some s' -> InvA s'.
Proof.
  intros s n c s' th I F H.
  destruct (srch_single _ _ _ (A_one _ I) F) as [Es En]. clear F.
  destruct I as [Ipan Ione Irun Iexcl Iinit Iphase Icall Izone Itt Ittw Itoks Isid Icp Iph Ihfree Ihctl Ihsrch Ihsnd Ibuf0 Ierr Icbuf Isbuf Inbuf Isrun Isnd Isndnd Ihex Ihkind Ilim].
  unfold srch_init, srch_send, cur_call in *. rewrite Es in *. simpl in *.
  destruct (Isid th (or_introl eq_refl)) as [Esid [Elim Epar]].
  assert (Hrun : holds_run (cpcv s) = false).
  { destruct (holds_run (cpcv s)) eqn:E; auto. specialize (Iexcl eq_refl). discriminate. }
  rewrite Hrun in *. simpl in Irun.
  assert (Hz : zone (cpcv s) (hd_error (calls s)) = false).
  { destruct (zone (cpcv s) (hd_error (calls s))) eqn:E; auto. specialize (Izone eq_refl). discriminate. }
  assert (Hsnd : forall th', In th' (senders s) -> snd_pc (spcv th') = true /\ sid th' <= stopPtr s /\ sid th' < stopPtr s).
  { intros th' Hin. destruct (Isnd th' Hin) as [X1 [X2 X3]]. repeat split; auto. apply X3. left. discriminate. }
  clear Iexcl Izone Ione. specialize (Itt th (or_introl eq_refl)). specialize (Isbuf th (or_introl eq_refl)).
  specialize (Ihsrch th (or_introl eq_refl)). specialize (Isrun th (or_introl eq_refl)). clear Isid.
  unfold sstep, goto_s, upd_s, out_stage1, out_stage2, out_stage3 in H. rewrite Elim, Es, ?Ierr in H.
  destruct (spcv th) eqn:Epc; destruct c; try discriminate;
  repeat match goal with
  | H : (if ?b then _ else _) = Some _ |- _ => destruct b eqn:?; try discriminate
  | H : match tok_get ?p ?l with _ => _ end = Some _ |- _ => destruct (tok_get p l) eqn:?
  end;
  try inv_some.
  all: simpl in *.
  all: try (specialize (Iphase eq_refl); rewrite Iphase in Iinit; simpl in Iinit).
  all: try rewrite rel_init_ok by assumption.
  all: try rewrite rel_run_ok by assumption.
  all: try rewrite rel_out_ok by (rewrite Ihfree; unfold holder_is in *; destruct (outHolder s); auto; discriminate).
  all: unfold new_timer, emit, after_init_s, acq_out.
  all: simpl; rewrite ?Es; simpl; rewrite ?Nat.eqb_refl; simpl.
  all: repeat match goal with |- context [if ?b then _ else _] => destruct b eqn:? end.
  all: simpl; rewrite ?Es; simpl; rewrite ?Nat.eqb_refl; simpl.
  all: constructor; unfold srch_init, srch_send, cur_call, cparam_ok, cbuf_ok, holder_is in *; simpl; rewrite ?Epc, ?Hrun, ?Hz, ?tok_set_length, ?Nat.eqb_refl; auto; try congruence.
  all: try (intros; dest_in; simpl in *; try match goal with E : cpcv _ = CStWait |- _ => rewrite E in * end; simpl in *; rewrite ?Nat.eqb_refl; auto; try discriminate; try congruence).
  all: try contradiction.
  all: repeat match goal with H : ?x = ?x -> _ |- _ => specialize (H eq_refl) end.
  (* the holder exists *)
  all: try match goal with |- forall n0, _ = Some (ThSearch n0) -> exists _, _ =>
         intros n0 Hn0; first [ inversion Hn0; subst; eexists; split; [left; left; reflexivity | reflexivity]
                              | destruct (Ihex n0 Hn0) as [t [[Ht|Ht] E]];
                                [ destruct Ht as [Ht|[]]; subst; eexists; split; [first [left; left; reflexivity | right; left; reflexivity] | reflexivity]
                                | exists t; split; [first [right; right; exact Ht | right; exact Ht] | exact E] ] ] end.
  (* senders are untouched and have smaller ids *)
  all: try match goal with Hin : In ?t (senders _) |- snd_pc _ = true /\ _ =>
         destruct (Hsnd t Hin) as [? [? ?]]; repeat split; auto; fail end.
  all: try (match goal with H : context [outHolder ?x] |- _ => destruct (outHolder x) as [[]|] eqn:Eh end;
            simpl in *; try discriminate; auto; try congruence;
            try match goal with Hin : In ?t (senders _) |- _ =>
              destruct (Hsnd t Hin) as [? [? ?]]; specialize (Ihsnd t Hin); simpl in Ihsnd;
              repeat match goal with H : (_ =? _) = true |- _ => apply Nat.eqb_eq in H end;
              repeat match goal with |- context [?a =? ?b] => destruct (Nat.eqb_spec a b) end;
              try lia; try congruence end; fail).
  (* th holds sendLock *)
  all: try (assert (Hh : outHolder s = Some (ThSearch (sid th)))
              by (destruct (outHolder s) as [[]|]; simpl in *; try discriminate; symmetry in Ihsrch; apply Nat.eqb_eq in Ihsrch; congruence);
            assert (Hc : c_send (cpcv s) = false) by (rewrite Ihctl, Hh; reflexivity);
            assert (Hn : forall t, In t (senders s) -> s_send (spcv t) = false)
              by (intros t Hin; rewrite (Ihsnd t Hin), Hh; simpl; destruct (Hsnd t Hin) as [? [? ?]];
                  destruct (Nat.eqb_spec (sid th) (sid t)); auto; lia)).
  all: try (destruct (cpcv s); simpl in *; auto; discriminate).
  all: try match goal with Hin : In ?t (senders _) |- sbuf_ok _ (spcv ?t) =>
         specialize (Hn t Hin); destruct (Hsnd t Hin) as [? _]; destruct (spcv t); simpl in *; auto; discriminate end.
  all: try (rewrite ?Isbuf; simpl; auto; fail).
  all: try (destruct Isbuf as [? Hl]; subst; rewrite Hl in *; simpl in *; discriminate).
  all: try (apply Hn; auto; fail).
  (* SRelRun: the goroutine moves to the senders *)
  all: try match goal with Hin : In ?t (senders _) |- sbuf_ok _ (spcv ?t) => apply (Inbuf t Hin) end.
  all: try match goal with Hin : In ?t (senders _) |- snd_pc _ = true /\ _ =>
         destruct (Hsnd t Hin) as [? [? ?]]; repeat split; auto end.
  all: try (constructor; auto; intro Hin; apply in_map_iff in Hin; destruct Hin as [t [E Hin]];
            destruct (Hsnd t Hin) as [? [? ?]]; lia).
  all: try match goal with H : _ = ?t \/ In ?t (senders _) |- _ => destruct H as [H|H]; [subst; simpl | ] end.
  all: try exact Ihsrch.
  all: try (apply Ihsnd; assumption).
  all: try exact I.
  all: try (apply Inbuf; assumption).
  all: try (destruct (Hsnd _ H) as [? [? ?]]; repeat split; auto; fail).
  all: try (split; [reflexivity | split; [lia | intros [X|X]; [congruence | rewrite X in Hrun; discriminate]]]; fail).
  all: try match goal with
       | H : outHolder _ = Some (ThSearch ?n) |- exists _, _ =>
           destruct (Ihex n H) as [t [[[Ht|[]]|Ht] E]];
           [ subst; eexists; split; [first [left; left; reflexivity | right; left; reflexivity] | reflexivity]
           | exists t; split; [first [right; right; exact Ht | right; exact Ht] | exact E] ]
       | H : Some _ = Some (ThSearch ?n) |- exists _, _ =>
           inversion H; subst; eexists; split; [left; left; reflexivity | reflexivity]
       end.
  all: try discriminate.
Qed.

Lemma find_s_in : forall n l th, find_s n l = Some th -> In th l /\ sid th = n.
Proof. unfold find_s. intros n l th H. apply find_some in H. destruct H as [H1 H2]. apply Nat.eqb_eq in H2. auto. Qed.
Lemma in_put_s : forall th' l x, In x (put_s th' l) -> x = th' \/ (In x l /\ sid x <> sid th').
Proof.
  unfold put_s. intros th' l x H. apply in_map_iff in H. destruct H as [y [E Hy]].
  destruct (Nat.eqb_spec (sid y) (sid th')); subst; auto.
Qed.
Lemma in_del_s : forall n l x, In x (del_s n l) -> In x l /\ sid x <> n.
Proof.
  unfold del_s. intros n l x H. apply filter_In in H. destruct H as [H1 H2].
  split; auto. destruct (Nat.eqb_spec (sid x) n); auto. discriminate.
Qed.
Lemma map_sid_put_s : forall th' l, map sid (put_s th' l) = map sid l.
Proof.
  unfold put_s. intros. rewrite map_map. apply map_ext_in. intros a Ha.
  destruct (Nat.eqb_spec (sid a) (sid th')); auto.
Qed.
Lemma NoDup_del_s : forall n l, NoDup (map sid l) -> NoDup (map sid (del_s n l)).
Proof.
  unfold del_s. induction l; simpl; intros; auto. inversion H; subst.
  destruct (negb (sid a =? n)); simpl; auto. constructor; auto.
  intro X. apply H2. apply in_map_iff in X. destruct X as [y [E Hy]]. apply filter_In in Hy.
  apply in_map_iff. exists y. tauto.
Qed.

Lemma put_s_in : forall th' l t, In t l -> exists t', In t' (put_s th' l) /\ sid t' = sid t.
Proof.
  intros th' l t Ht. unfold put_s. destruct (Nat.eqb_spec (sid t) (sid th')) as [E|E].
  - exists th'. split; auto. apply in_map_iff. exists t. split; auto. rewrite E, Nat.eqb_refl. reflexivity.
  - exists t. split; auto. apply in_map_iff. exists t. split; auto. apply Nat.eqb_neq in E. rewrite E. reflexivity.
Qed.

Lemma invA_sender : forall s n s' th, InvA s -> find_s n (senders s) = Some th -> nstep s th = Some s' -> InvA s'.
Proof.
  intros s n s' th I F H. destruct (find_s_in _ _ _ F) as [Hin En]. clear F.
  destruct I as [Ipan Ione Irun Iexcl Iinit Iphase Icall Izone Itt Ittw Itoks Isid Icp Iph Ihfree Ihctl Ihsrch Ihsnd Ibuf0 Ierr Icbuf Isbuf Inbuf Isrun Isnd Isndnd Ihex Ihkind Ilim].
  pose proof (Ihsnd th Hin) as Hth. pose proof (Inbuf th Hin) as Hbuf. destruct (Isnd th Hin) as [Hpc [Hle Hlt]].
  assert (Hsr : forall t, In t (srch s) -> sid t <> sid th).
  { intros t Ht. destruct (Isid t Ht) as [E _]. assert (sid th < stopPtr s). { apply Hlt. left. intro X. rewrite X in Ht. contradiction. } lia. }
  assert (Hnd : forall t, In t (senders s) -> sid t = sid th -> t = th).
  { clear - Isndnd Hin. induction (senders s) as [|a l IH]; simpl in *; try contradiction. inversion Isndnd; subst.
    intros t [E|Ht] Es; destruct Hin as [E'|Hin]; subst; auto.
    - exfalso. apply H1. apply in_map_iff. exists th. auto.
    - exfalso. apply H1. apply in_map_iff. exists t. auto. }
  unfold nstep, upd_n, out_stage1, out_stage2, out_stage3 in H. rewrite ?Ierr in H.
  unfold holder_is, cbuf_ok, cparam_ok, srch_init, srch_send in *.
  destruct (spcv th) eqn:Epc; try discriminate; simpl in Hpc, Hth, Hbuf;
  repeat match goal with
  | H : (if ?b then _ else _) = Some _ |- _ => destruct b eqn:?; try discriminate
  end; try inv_some.
  all: try rewrite rel_out_ok by (rewrite Ihfree; destruct (outHolder s); auto; discriminate).
  all: unfold emit, acq_out.
  all: repeat match goal with |- context [if ?b then _ else _] => destruct b eqn:? end.
  all: constructor; unfold holder_is, cbuf_ok, cparam_ok, srch_init, srch_send, cur_call in *; simpl; rewrite ?map_sid_put_s; auto; try (apply NoDup_del_s; auto).
  all: try (assert (Hh : outHolder s = Some (ThSearch (sid th)))
              by (destruct (outHolder s) as [[]|]; simpl in *; try discriminate; symmetry in Hth; apply Nat.eqb_eq in Hth; congruence)).
  all: try (assert (Hnone : outHolder s = None) by (destruct (outHolder s); auto; rewrite Ihfree in *; discriminate)).
  all: assert (Hc : c_send (cpcv s) = false) by (rewrite Ihctl; first [rewrite Hh | rewrite Hnone]; reflexivity).
  all: assert (Hs0 : forall t, In t (srch s) -> s_send (spcv t) = false)
         by (intros t Ht; rewrite (Ihsrch t Ht); first [rewrite Hh | rewrite Hnone]; simpl; auto;
             specialize (Hsr t Ht); destruct (Nat.eqb_spec (sid th) (sid t)); auto; congruence).
  all: assert (Hn0 : forall t, In t (senders s) -> sid t <> sid th -> s_send (spcv t) = false /\ spcv t = SRes0)
         by (intros t Ht Hne; assert (X : s_send (spcv t) = false)
               by (rewrite (Ihsnd t Ht); first [rewrite Hh | rewrite Hnone]; simpl; auto;
                   destruct (Nat.eqb_spec (sid th) (sid t)); auto; congruence);
             split; auto; destruct (Isnd t Ht) as [Y _]; destruct (spcv t); simpl in *; auto; discriminate).
  all: try exact Hc.
  all: try (intros X; rewrite Ihfree, Hh in X; discriminate).
  all: try (destruct (cpcv s); simpl in *; auto; discriminate).
  all: try (intros t Ht; rewrite (Hs0 t Ht); specialize (Hsr t Ht); try destruct (Nat.eqb_spec (sid th) (sid t)); auto; congruence).
  all: try (intros t Ht; specialize (Hs0 t Ht); destruct (spcv t); simpl in *; auto; discriminate).
  all: try (intros t Ht; first [apply in_put_s in Ht; destruct Ht as [E|[Ht Hne]] | apply in_del_s in Ht; destruct Ht as [Ht Hne]];
            [ subst; simpl; rewrite ?Nat.eqb_refl, ?Hh; simpl; rewrite ?Nat.eqb_refl; rewrite ?Hbuf; simpl; auto;
              try (repeat split; auto; fail)
            | destruct (Hn0 t Ht Hne) as [X Y]; try rewrite X; try rewrite Y; simpl; auto;
              try (destruct (Nat.eqb_spec (sid th) (sid t)); auto; congruence);
              try (apply Isnd; auto; fail) ]; fail).
  all: try (intros t Ht; apply in_del_s in Ht; destruct Ht as [Ht Hne];
            destruct (Hn0 t Ht Hne) as [X Y]; try rewrite X; try rewrite Y; simpl; auto; try (apply Isnd; auto); fail).
  all: try (destruct Hbuf as [? Hl]; subst; rewrite Hl in *; simpl in *; discriminate).
  all: try (intros t Ht; first [apply in_put_s in Ht; destruct Ht as [E|[Ht Hne]] | apply in_del_s in Ht; destruct Ht as [Ht Hne]];
            [ subst; simpl; first [ rewrite Hh; simpl; rewrite Nat.eqb_refl; reflexivity | repeat split; auto; fail | idtac ]
            | destruct (Hn0 t Ht Hne) as [X Y];
              first [ rewrite X, Hh; simpl; destruct (Nat.eqb_spec (sid th) (sid t)); auto; congruence
                    | apply Isnd; auto; fail | rewrite Y; simpl; auto; fail | idtac ] ]).
  all: try (intros t Ht; apply in_del_s in Ht; destruct Ht as [Ht Hne]; apply Isnd; auto; fail).
  all: try (intros n0 Hn0; discriminate).
  all: intros n0 Hn0';
       first [ inversion Hn0'; subst; destruct (put_s_in (set_spc SRes1 th) (senders s) th Hin) as [t' [Ht' E']];
               exists t'; split; [right; exact Ht' | exact E']
             | destruct (Ihex n0 Hn0') as [t [[Ht|Ht] E]];
               [ exists t; split; [left; exact Ht | exact E]
               | match goal with |- context [put_s ?x _] => destruct (put_s_in x (senders s) t Ht) as [t' [Ht' E']] end;
                 exists t'; split; [right; exact Ht' | congruence] ] ].
Qed.

Lemma invA_ctl : forall s s', InvA s -> step s TCtl = Some s' -> InvA s'.
Proof.
  intros s s' I H. unfold step in H. rewrite (A_pan _ I) in H.
  destruct I as [Ipan Ione Irun Iexcl Iinit Iphase Icall Izone Itt Ittw Itoks Isid Icp Iph Ihfree Ihctl Ihsrch Ihsnd Ibuf0 Ierr Icbuf Isbuf Inbuf Isrun Isnd Isndnd Ihex Ihkind Ilim].
  unfold cstep, cur_call, srch_init, srch_send, cparam_ok, cbuf_ok, holder_is in *.
  unfold out_stage1, out_stage2, out_stage3 in H. rewrite ?Ierr in H.
  destruct (calls s) as [|c cs] eqn:Ec; simpl in *; try discriminate.
  destruct (srch s) as [|th [|th2 l]] eqn:Es; simpl in *; try lia.
  - (* no search goroutine owns isRunning *)
    destruct (cpcv s) eqn:Epc; simpl in *; destruct c; try discriminate;
    repeat match goal with
    | H : (if ?b then _ else _) = Some _ |- _ => destruct b eqn:?; try discriminate
    | H : match limitsVar ?s with _ => _ end = Some _ |- _ => destruct (limitsVar s) eqn:?
    end; try inv_some; try discriminate.
    all: simpl in *.
    all: try rewrite rel_init_ok by assumption.
    all: try rewrite rel_run_ok by assumption.
    all: try rewrite rel_out_ok by (rewrite Ihfree; destruct (outHolder s) as [[]|]; simpl in *; auto; discriminate).
    all: unfold new_timer, emit_opt, emit, after_init_c, acq_out.
    all: repeat match goal with |- context [if ?b then _ else _] => destruct b eqn:? end.
    all: repeat match goal with |- context [match ?b with Some _ => _ | None => _ end] => destruct b eqn:? end.
    all: repeat match goal with |- context [match ?b with LReady => _ | _ => _ end] => destruct b eqn:? end.
    all: simpl; rewrite ?Es; simpl.
    all: constructor; unfold srch_init, srch_send, cur_call, cparam_ok, cbuf_ok, holder_is; simpl; rewrite ?Es, ?Ec, ?Epc, ?app_length, ?tok_set_length; simpl; auto; try congruence; try lia.
    all: try (intros; dest_in; simpl in *; auto; try discriminate; try congruence; try contradiction).
    all: try (exfalso; apply Iph; auto; fail).
    all: try (rewrite ?Icbuf; simpl; auto; fail).
    all: try (destruct Icbuf as [? Hl]; subst; rewrite ?Hl in *; simpl in *; auto; discriminate).
    all: try match goal with Hin : In ?t (senders _) |- snd_pc _ = true /\ _ =>
           destruct (Isnd t Hin) as [X1 [X2 X3]]; repeat split; auto; try lia;
           intros [Y|Y]; try congruence; try discriminate; try (specialize (X3 (or_intror eq_refl)); lia); try lia end.
    (* facts about the lock holder *)
    all: try (assert (Hh : outHolder s = Some ThCtl)
                by (destruct (outHolder s) as [[]|]; simpl in *; try discriminate; reflexivity)).
    all: try (assert (Hnone : outHolder s = None) by (destruct (outHolder s); auto; rewrite Ihfree in *; discriminate)).
    all: try (assert (Hn0 : forall t, In t (senders s) -> s_send (spcv t) = false /\ spcv t = SRes0)
                by (intros t Ht; assert (X : s_send (spcv t) = false)
                      by (rewrite (Ihsnd t Ht); first [rewrite Hh | rewrite Hnone]; reflexivity);
                    split; auto; destruct (Isnd t Ht) as [Y _]; destruct (spcv t); simpl in *; auto; discriminate)).
    all: try match goal with Hin : In ?t (senders _) |- _ => destruct (Hn0 t Hin) as [X Y]; try rewrite X; try rewrite Y; simpl; auto; fail end.
    all: try (rewrite Ihfree, Hh in *; discriminate).
    all: try match goal with H : outHolder _ = Some (ThSearch ?n) |- exists _, _ =>
           destruct (Ihex n H) as [t [[[]|Ht] E]]; exists t; split; [right; exact Ht | exact E] end.
    all: try (destruct (outHolder s) as [[| n0 | |]|] eqn:Eh; simpl in *; auto;
              destruct (Ihex n0 eq_refl) as [t [[[]|Ht] E]]; destruct (Isnd t Ht) as [_ [_ X3]];
              specialize (X3 (or_intror eq_refl)); destruct (Nat.eqb_spec n0 (stopPtr s)); auto; lia).
  - (* one search goroutine owns isRunning *)
    clear Ione.
    destruct (Isid th (or_introl eq_refl)) as [Esid [Elim Epar]].
    specialize (Itt th (or_introl eq_refl)). specialize (Isbuf th (or_introl eq_refl)).
    specialize (Ihsrch th (or_introl eq_refl)). specialize (Isrun th (or_introl eq_refl)). clear Isid.
    assert (Hrun : holds_run (cpcv s) = false).
    { destruct (holds_run (cpcv s)) eqn:E; auto. specialize (Iexcl eq_refl). discriminate. }
    assert (Hz : zone (cpcv s) (Some c) = false).
    { destruct (zone (cpcv s) (Some c)) eqn:E; auto. specialize (Izone eq_refl). discriminate. }
    assert (Hsnd : forall th', In th' (senders s) -> snd_pc (spcv th') = true /\ sid th' <= stopPtr s /\ sid th' < stopPtr s).
    { intros th' Hin. destruct (Isnd th' Hin) as [X1 [X2 X3]]. repeat split; auto. apply X3. left. discriminate. }
    clear Iexcl Izone. rewrite Hrun in Irun. simpl in Irun. rewrite Irun, Elim in H.
    destruct (in_init (spcv th)) eqn:Ein; simpl in *; [specialize (Iphase eq_refl) | clear Iphase].
    all: destruct (s_send (spcv th)) eqn:Esd; simpl in *.
    all: destruct (cpcv s) eqn:Epc; simpl in *; try discriminate; destruct c; try discriminate;
    repeat match goal with
    | H : (if ?b then _ else _) = Some _ |- _ => destruct b eqn:?; try discriminate
    end; try inv_some; try discriminate.
    all: simpl in *.
    all: try rewrite rel_init_ok by assumption.
    all: try rewrite rel_out_ok by (rewrite Ihfree; destruct (outHolder s) as [[]|]; simpl in *; auto; discriminate).
    all: unfold new_timer, emit_opt, emit, after_init_c, acq_out.
    all: repeat match goal with |- context [if ?b then _ else _] => destruct b eqn:? end.
    all: repeat match goal with |- context [match ?b with Some _ => _ | None => _ end] => destruct b eqn:? end.
    all: repeat match goal with |- context [match ?b with LReady => _ | _ => _ end] => destruct b eqn:? end.
    all: simpl; rewrite ?Es; simpl.
    all: constructor; unfold srch_init, srch_send, cur_call, cparam_ok, cbuf_ok, holder_is; simpl; rewrite ?Es, ?Ec, ?Epc, ?app_length, ?tok_set_length; simpl; rewrite ?Ein, ?Esd; simpl; auto; try congruence; try lia.
    all: try (intros; dest_in; simpl in *; auto; try discriminate; try congruence; try contradiction).
    all: try match goal with I : ?a = false -> true = true -> false = true, H : ?a = false |- _ => specialize (I H eq_refl); discriminate end.
    all: try (rewrite ?Icbuf; simpl; auto; fail).
    all: try (destruct Icbuf as [? Hl]; subst; rewrite ?Hl in *; simpl in *; auto; discriminate).
    all: try (match goal with |- sbuf_ok _ (spcv ?t) => destruct (spcv t); simpl in *; auto; discriminate end).
    all: try match goal with Hin : In ?t (senders _) |- snd_pc _ = true /\ _ =>
           destruct (Hsnd t Hin) as [X1 [X2 X3]]; repeat split; auto end.
    all: try (assert (Hh : outHolder s = Some ThCtl)
                by (destruct (outHolder s) as [[]|]; simpl in *; try discriminate; reflexivity)).
    all: try (assert (Hnone : outHolder s = None) by (destruct (outHolder s); auto; rewrite Ihfree in *; discriminate)).
    all: try (assert (Hn0 : forall t, In t (senders s) -> s_send (spcv t) = false /\ spcv t = SRes0)
                by (intros t Ht; assert (X : s_send (spcv t) = false)
                      by (rewrite (Ihsnd t Ht); first [rewrite Hh | rewrite Hnone]; reflexivity);
                    split; auto; destruct (Isnd t Ht) as [Y _]; destruct (spcv t); simpl in *; auto; discriminate)).
    all: try match goal with Hin : In ?t (senders _) |- _ => destruct (Hn0 t Hin) as [X Y]; try rewrite X; try rewrite Y; simpl; auto; fail end.
    all: try (rewrite Ihfree, Hh in *; discriminate).
Qed.

Lemma invA_step : forall s t s', InvA s -> step s t = Some s' -> InvA s'.
Proof.
  intros s t s' I H. destruct t.
  - eapply invA_ctl; eauto.
  - unfold step in H. rewrite (A_pan _ I) in H.
    destruct (find_s n (srch s)) as [th|] eqn:F.
    + eapply invA_search; eauto.
    + destruct (find_s n (senders s)) as [th|] eqn:F2; try discriminate. destruct c; try discriminate.
      eapply invA_sender; eauto.
  - eapply invA_timer; eauto.
  - unfold step in H. rewrite (A_pan _ I) in H. inv_some. apply invA_tick; auto.
Qed.

Lemma invA_sched : forall sched s, InvA s -> InvA (run_sched s sched).
Proof.
  induction sched; simpl; intros; auto. apply IHsched.
  destruct (step s a) eqn:E; auto. eapply invA_step; eauto.
Qed.

Theorem invA_reachable : forall s, reachable s -> InvA s.
Proof.
  intros s [s0 [[a [b [c [cs E]]]] [sched R]]]. subst. apply invA_sched. apply invA_init.
Qed.


(** * Layer B: ghost / identity invariant *)

Definition starts_t := list (nat * nat * limits).

Definition nacc (s : state) : nat :=
  match cpcv s with CStAcqInit | CStPos | CStLim | CStTok => S (stopPtr s) | _ => stopPtr s end.
Definition start_ids (st : starts_t) : list nat := map (fun x => fst (fst x)) st.
Definition in_start (p : cpc) : bool :=
  match p with
  | CStAcqInit | CStPos | CStLim | CStTok | CStGo | CStWait | CStRel => true
  | CRet (Some (EStartReturned _)) => true
  | _ => false
  end.
Definition allcalls (s : state) : list call := rev (done s) ++ calls s.

Definition creator_ok (st : starts_t) (ci : nat) (ac : list call) (n : nat) (cr : creator) : Prop :=
  match cr with
  | ByRun m => m = n /\ exists c l, In (n, c, l) st /\ lTimeControl l && negb (lPonder l) && negb (lInfinite l) = true
  | ByPonderHit c => c <= ci /\ nth_error ac c = Some CPonderHit /\ (forall c' l, In (n, c', l) st -> c' < c)
                     /\ exists c' l, In (n, c', l) st /\ lPonder l = true
  end.
Definition reason_ok (st : starts_t) (ci : nat) (ac : list call) (n : nat) (r : reason) : Prop :=
  match r with
  | RSelf => False
  | RNodes => exists c l, In (n, c, l) st /\ lNodes l = true
  | RTimer k tk cr => tk = n /\ creator_ok st ci ac n cr
  | RStop c => c <= ci /\ (nth_error ac c = Some CStop \/ nth_error ac c = Some CNewGame)
               /\ (forall c' l, In (n, c', l) st -> c' < c)
  | REnd => exists c l, In (n, c, l) st
  end.
Definition res_ok (st : starts_t) (ci : nat) (ac : list call) (n : nat) (r : reason) : Prop :=
  match r with
  | RSelf => exists c l, In (n, c, l) st /\ lPonder l || lInfinite l = false
  | RNodes => exists c l, In (n, c, l) st /\ lNodes l = true /\ lPonder l || lInfinite l = false
  | REnd => False
  | _ => reason_ok st ci ac n r
  end.

Definition sent (p : spc) : bool :=
  match p with SRes2 | SRes3 _ | SRes4 => true | _ => false end.
(* accepted starts whose result has not been handed over yet *)
Definition unsent_ids (s : state) : list nat :=
  map sid (srch s) ++ map sid (filter (fun th => negb (sent (spcv th))) (senders s))
  ++ match cpcv s with CStGo => [stopPtr s] | _ => [] end.
Definition before_end (p : spc) : bool :=
  match p with SRes0 | SRes1 | SRes2 | SRes3 _ | SRes4 | SRelRun => false | _ => true end.
Definition after_wait (p : spc) : bool :=
  match p with SLastRes | SHasRes1 | SEndPtr | SEndStore _ | SRes0 | SRes1 | SRes2 | SRes3 _ | SRes4 | SRelRun => true
  | _ => false end.

Definition spc_lim_ok (p : spc) (l : limits) : Prop :=
  match p with
  | STimerPtr | STimerGo _ => lTimeControl l && negb (lPonder l) && negb (lInfinite l) = true
  | _ => True
  end.

Record InvB (s : state) : Prop := {
  B_done : length (done s) = cidx s;
  B_ids : start_ids (starts s) = rev (seq 1 (nacc s));
  B_cidx : forall n c l, In (n, c, l) (starts s) ->
           c < cidx s \/ (c = cidx s /\ in_start (cpcv s) = true /\ n = nacc s);
  B_cur : match cpcv s with
          | CStAcqInit | CStPos | CStLim | CStTok | CStGo | CStWait | CStRel =>
              exists l, cur_call s = Some (CStart l) /\ In (nacc s, cidx s, l) (starts s)
          | _ => True
          end;
  B_limvar : cpcv s <> CStTok -> forall l, limitsVar s = Some l -> exists c, In (stopPtr s, c, l) (starts s);
  B_srch : forall th, In th (srch s) \/ In th (senders s) -> exists c, In (sid th, c, slim th) (starts s);
  B_tok : forall n r, tok_get n (toks s) = Some r -> reason_ok (starts s) (cidx s) (allcalls s) n r /\ r <> RNodes;
  B_timers : forall tm, In tm (timers s) ->
             ttok tm <= stopPtr s /\ creator_ok (starts s) (cidx s) (allcalls s) (ttok tm) (tcreator tm);
  B_noend : forall th, In th (srch s) -> before_end (spcv th) = true -> tok_get (stopPtr s) (toks s) <> Some REnd;
  B_sreason : forall th r, In th (srch s) \/ In th (senders s) -> sreason th = Some r ->
              reason_ok (starts s) (cidx s) (allcalls s) (sid th) r /\ r <> REnd;
  B_waited : forall th, In th (srch s) \/ In th (senders s) -> after_wait (spcv th) = true ->
             lPonder (slim th) || lInfinite (slim th) = true -> sreason th <> None /\ sreason th <> Some RNodes;
  B_res : forall n r, In (n, r) (results s) -> res_ok (starts s) (cidx s) (allcalls s) n r /\ n <= stopPtr s;
  B_resnd : NoDup (map fst (results s));
  B_resin : forall n, In n (map fst (results s)) <-> (1 <= n <= stopPtr s /\ ~ In n (unsent_ids s));
  B_pcs : forall th, In th (srch s) -> spc_lim_ok (spcv th) (slim th);
  B_pos : srch s <> [] \/ cpcv s = CStGo -> 1 <= stopPtr s;
  B_fresh : cpcv s = CStGo -> tok_get (stopPtr s) (toks s) = None /\ forall tm, In tm (timers s) -> ttok tm < stopPtr s;
  B_ph : match cpcv s with
         | CPhPtr | CPhGo _ => exists l, limitsVar s = Some l /\ lPonder l = true
         | _ => True
         end
}.

Lemma invB_init : forall a b c cs, InvB (init a b c cs).
Proof.
  intros; constructor; simpl; auto; try (intros; contradiction); try discriminate.
  all: try (intros [|[|n]] r; simpl; discriminate).
  all: try (intros [H|H]; [contradiction | discriminate]).
  all: try (intros; tauto).
  - constructor.
  - intros n; split; [intros [] | intros [H _]; lia].
Qed.

(** monotonicity of the ghost predicates *)
Lemma creator_ok_weaken : forall st ci ac st' ci' n cr,
  ci <= ci' -> (forall x, In x st -> In x st') -> (forall c l, In (n, c, l) st' -> In (n, c, l) st) ->
  creator_ok st ci ac n cr -> creator_ok st' ci' ac n cr.
Proof.
  intros st ci ac st' ci' n cr Hci Hsub Hn H. destruct cr; simpl in *.
  - destruct H as [E [c [l [Hin Hl]]]]. split; auto. exists c, l. auto.
  - destruct H as [H1 [H2 [H3 [c' [l [Hin Hl]]]]]]. repeat split; auto; try lia.
    + intros. apply (H3 c'0 l0). auto.
    + exists c', l. auto.
Qed.
Lemma reason_ok_weaken : forall st ci ac st' ci' n r,
  ci <= ci' -> (forall x, In x st -> In x st') -> (forall c l, In (n, c, l) st' -> In (n, c, l) st) ->
  reason_ok st ci ac n r -> reason_ok st' ci' ac n r.
Proof.
  intros st ci ac st' ci' n r Hci Hsub Hn H. destruct r; simpl in *; auto.
  - destruct H as [c [l [Hin Hl]]]. exists c, l; auto.
  - destruct H as [E H]. split; auto. eapply creator_ok_weaken; eauto.
  - destruct H as [H1 [H2 H3]]. repeat split; auto; try lia. intros. apply (H3 c' l). auto.
  - destruct H as [c [l Hin]]. exists c, l; auto.
Qed.
Lemma res_ok_weaken : forall st ci ac st' ci' n r,
  ci <= ci' -> (forall x, In x st -> In x st') -> (forall c l, In (n, c, l) st' -> In (n, c, l) st) ->
  res_ok st ci ac n r -> res_ok st' ci' ac n r.
Proof.
  intros st ci ac st' ci' n r Hci Hsub Hn H. destruct r; auto.
  - simpl in *. destruct H as [c [l [Hin Hl]]]. exists c, l; auto.
  - simpl in *. destruct H as [c [l [Hin Hl]]]. exists c, l; auto.
  - apply (reason_ok_weaken st ci ac st' ci' n (RTimer k tok cr)); auto.
  - apply (reason_ok_weaken st ci ac st' ci' n (RStop c)); auto.
Qed.

Lemma tok_get_lt : forall l n r, tok_get n l = Some r -> n < length l.
Proof.
  unfold tok_get. intros l n r H. destruct (nth_error l n) eqn:E; try discriminate.
  apply nth_error_Some. congruence.
Qed.
Lemma tok_get_set_same : forall l p r, p < length l ->
  tok_get p (tok_set p r l) = Some (match tok_get p l with Some r0 => r0 | None => r end).
Proof.
  unfold tok_get. induction l; simpl; intros; try lia. destruct p; simpl.
  - destruct a; auto.
  - apply IHl. lia.
Qed.
Lemma tok_get_set_other : forall l p q r, p <> q -> tok_get q (tok_set p r l) = tok_get q l.
Proof.
  unfold tok_get. induction l; simpl; intros; auto.
  - destruct p, q; simpl; auto.
  - destruct p, q; simpl; auto; try lia.
Qed.
Lemma tok_get_set : forall l p q r x, tok_get q (tok_set p r l) = Some x ->
  tok_get q l = Some x \/ (q = p /\ x = r /\ tok_get q l = None).
Proof.
  intros. destruct (Nat.eq_dec p q).
  - subst. assert (q < length l). { apply tok_get_lt in H. rewrite tok_set_length in H. auto. }
    rewrite tok_get_set_same in H by auto. destruct (tok_get q l); inversion H; auto.
  - rewrite tok_get_set_other in H by auto. auto.
Qed.
Lemma tok_get_app_none : forall l n r, tok_get n (l ++ [None]) = Some r -> tok_get n l = Some r.
Proof.
  unfold tok_get. intros l n r H. destruct (lt_dec n (length l)).
  - rewrite nth_error_app1 in H by auto. auto.
  - rewrite nth_error_app2 in H by lia. destruct (n - length l) as [|[|k]]; simpl in H; discriminate.
Qed.
Lemma allcalls_ret : forall (d : list call) c cs, rev (c :: d) ++ cs = rev d ++ c :: cs.
Proof. intros. simpl. rewrite <- app_assoc. reflexivity. Qed.
Lemma seq_rev_S : forall k, rev (seq 1 (S k)) = S k :: rev (seq 1 k).
Proof. intros. rewrite seq_S. rewrite rev_app_distr. reflexivity. Qed.

Lemma in_put_t : forall th' l x, In x (put_t th' l) -> x = th' \/ In x l.
Proof.
  unfold put_t. intros th' l x H. apply in_map_iff in H. destruct H as [y [E Hy]].
  destruct (tmid y =? tmid th'); subst; auto.
Qed.
Lemma in_del_t : forall k l x, In x (del_t k l) -> In x l.
Proof. unfold del_t. intros. apply filter_In in H. tauto. Qed.
Lemma find_t_in : forall k l th, find_t k l = Some th -> In th l.
Proof. unfold find_t. intros. apply find_some in H. tauto. Qed.

Lemma invB_tick : forall s, InvB s -> InvB (set_clock (S (clock s)) s).
Proof. intros s [ ]; constructor; simpl; auto. Qed.

Lemma invB_timer : forall s k s', InvA s -> InvB s -> step s (TTimer k) = Some s' -> InvB s'.
Proof.
  intros s k s' IA I H. unfold step in H. rewrite (A_pan _ IA) in H.
  destruct (find_t k (timers s)) as [th|] eqn:F; try discriminate.
  apply find_t_in in F.
  unfold tstep in H. destruct I.
  destruct (B_timers0 th F) as [Hle Hcr].
  destruct (tpcv th); try destruct (tok_get (ttok th) (toks s)) eqn:Etok; inv_some;
    constructor; unfold upd_t, allcalls, unsent_ids, nacc in *; simpl; auto.
  all: try (intros tm Hin; apply in_put_t in Hin; destruct Hin as [Hin|Hin]; [subst; simpl; auto | auto]; fail).
  all: try (intros tm Hin; apply in_del_t in Hin; auto; fail).
  all: try (intros n0 r0 Hg; apply tok_get_set in Hg; destruct Hg as [Hg|[E1 [E2 Hg]]]; [auto | subst; split; [simpl; auto | discriminate]]; fail).
  all: try (intros th0 Hin Hb Hg; apply tok_get_set in Hg; destruct Hg as [Hg|[E1 [E2 Hg]]]; [eapply B_noend0; eauto | discriminate]).
  all: intro Eg; destruct (B_fresh0 Eg) as [Hn Hlt]; split;
       [ try (rewrite tok_get_set_other; [auto | specialize (Hlt th F); lia]); auto
       | intros tm Hin; first [apply in_put_t in Hin; destruct Hin as [Hin|Hin]; [subst; simpl; apply (Hlt th F) | auto]
                              | apply in_del_t in Hin; auto ] ].
Qed.

Lemma invB_search : forall s n c s' th, InvA s -> InvB s -> find_s n (srch s) = Some th -> sstep s th c = Some s' -> InvB s'.
Proof.
  intros s n c s' th IA I F H.
  destruct (srch_single _ _ _ (A_one _ IA) F) as [Es En]. clear F.
  assert (Hgo : cpcv s <> CStGo).
  { intro E. pose proof (A_excl _ IA) as X. rewrite E in X. specialize (X eq_refl). congruence. }
  assert (Herr := A_err _ IA).
  destruct (A_sid _ IA th) as [Esid [Elim Epar]]. { rewrite Es; simpl; auto. }
  destruct I as [Bdone Bids Bcidx Bcur Blimvar Bsrch Btok Btimers Bnoend Bsreason Bwaited Bres Bresnd Bresin Bpcs Bpos Bfresh Bph].
  unfold unsent_ids in *. rewrite Es in *.
  destruct (Bsrch th (or_introl (or_introl eq_refl))) as [cst Hst].
  specialize (Bnoend th (or_introl eq_refl)). pose proof (Bwaited th (or_introl (or_introl eq_refl))) as Bw.
  specialize (Bpcs th (or_introl eq_refl)).
  assert (Bsr := fun r => Bsreason th r (or_introl (or_introl eq_refl))).
  assert (Bsrn := fun t (Ht : In t (senders s)) => Bsrch t (or_intror Ht)).
  assert (Bsrsn := fun t r (Ht : In t (senders s)) => Bsreason t r (or_intror Ht)).
  assert (Bwn := fun t (Ht : In t (senders s)) => Bwaited t (or_intror Ht)).
  clear Bsrch Bsreason Bwaited.
  assert (Hpos : 1 <= stopPtr s). { apply Bpos. left. discriminate. }
  unfold sstep, goto_s, upd_s, out_stage1, out_stage2, out_stage3 in H. rewrite Elim, Es, ?Herr in H.
  destruct (spcv th) eqn:Epc; destruct c; try discriminate;
  repeat match goal with
  | H : (if ?b then _ else _) = Some _ |- _ => destruct b eqn:?; try discriminate
  | H : match tok_get ?p ?l with _ => _ end = Some _ |- _ => destruct (tok_get p l) eqn:?
  end;
  try inv_some.
  all: simpl in *; subst.
  all: unfold rel_init, rel_run, rel_out, new_timer, emit, after_init_s, acq_out.
  all: simpl; rewrite ?Es; simpl; rewrite ?Nat.eqb_refl; simpl.
  all: repeat match goal with |- context [if ?b then _ else _] => destruct b eqn:? end.
  all: simpl; rewrite ?Es; simpl; rewrite ?Nat.eqb_refl; simpl.
  all: constructor; unfold allcalls, unsent_ids, nacc in *; simpl; rewrite ?Es; simpl; auto.
  all: try (intros; dest_in; simpl in *; eauto; try discriminate; try congruence; fail).
  all: try (intros; contradiction).
  (* facts about the (updated) search goroutine and the untouched senders *)
  all: try (intros th0 Hx; repeat match goal with H : _ \/ _ |- _ => destruct H as [H|H] end; try contradiction;
            [ subst; simpl in *; eauto | apply Bsrn; assumption ]; fail).
  all: try (intros th0 r0 Hx Hr; repeat match goal with H : _ \/ _ |- _ => destruct H as [H|H] end; try contradiction;
            [ subst; simpl in *; first [ apply Bsr; assumption | discriminate
                | inversion Hr; subst; split; [rewrite Esid; apply Btok; auto | intro; subst; apply Bnoend; auto] ]
            | apply (Bsrsn th0 r0); assumption ]; fail).
  all: try (intros th0 Hx Ha Hf; repeat match goal with H : _ \/ _ |- _ => destruct H as [H|H] end; try contradiction;
            [ subst; simpl in *; first [ discriminate | apply Bw; auto; fail | congruence ]
            | apply (Bwn th0); assumption ]; fail).
  (* new timer *)
  all: try (intros tm [E|Hin]; [subst; simpl; split; [lia | split; [auto | exists cst, (slim th); rewrite <- Esid; auto]] | auto]; fail).
  (* token stores *)
  all: try (intros n0 r0 Hg; apply tok_get_set in Hg; destruct Hg as [Hg|[E1 [E2 Hg]]]; [auto | subst; simpl];
            exists cst, (slim th); rewrite <- Esid; auto; fail).
  all: try (intros th0 Hin Hb Hg; apply tok_get_set in Hg; destruct Hg as [Hg|[E1 [E2 Hg]]]; [apply Bnoend; auto | discriminate]; fail).
  (* node limit *)
  all: try (intros th0 r0 Hx Hr; repeat match goal with H : _ \/ _ |- _ => destruct H as [H|H] end; try contradiction;
            [ subst; simpl in *; inversion Hr; subst; split; [simpl; exists cst, (slim th); split; [exact Hst | assumption] | discriminate]
            | apply (Bsrsn th0 r0); assumption ]; fail).
  (* wait loop left with the setter of the token *)
  all: try (intros th0 Hx Ha Hf; repeat match goal with H : _ \/ _ |- _ => destruct H as [H|H] end; try contradiction;
            [ subst; simpl in *; split; [discriminate | intro X; inversion X; subst;
                match goal with H : tok_get _ _ = Some RNodes |- _ => destruct (Btok _ _ H) as [_ Y]; apply Y; reflexivity end]
            | apply (Bwn th0); assumption ]; fail).
  all: try (intros n0 r0 Hg; apply tok_get_set in Hg; destruct Hg as [Hg|[E1 [E2 Hg]]]; [auto | subst; split; [simpl; exists cst, (slim th); rewrite <- Esid; auto | discriminate]]; fail).
Qed.

Definition unsent_f (th : sthread) : bool := negb (sent (spcv th)).
Lemma in_unsent : forall l n, In n (map sid (filter unsent_f l)) <-> exists t, In t l /\ sid t = n /\ unsent_f t = true.
Proof.
  intros l n. rewrite in_map_iff. split.
  - intros [t [E Ht]]. apply filter_In in Ht. exists t. tauto.
  - intros [t [Ht [E F]]]. exists t. split; auto. apply filter_In. auto.
Qed.
Lemma sid_unique : forall l th t, NoDup (map sid l) -> In th l -> In t l -> sid t = sid th -> t = th.
Proof.
  induction l as [|a l IH]; simpl; intros th t ND Hth Ht E; try contradiction. inversion ND; subst.
  destruct Hth as [E1|Hth], Ht as [E2|Ht]; subst; auto.
  - exfalso. apply H1. apply in_map_iff. exists t. auto.
  - exfalso. apply H1. apply in_map_iff. exists th. auto.
Qed.
Lemma unsent_put_same : forall l th th' n, NoDup (map sid l) -> In th l -> sid th' = sid th -> unsent_f th' = unsent_f th ->
  (In n (map sid (filter unsent_f (put_s th' l))) <-> In n (map sid (filter unsent_f l))).
Proof.
  intros l th th' n ND Hth Es Ef. rewrite !in_unsent. split.
  - intros [t [Ht [E F]]]. apply in_put_s in Ht. destruct Ht as [Ht|[Ht Hne]].
    + subst. exists th. rewrite <- Ef. auto.
    + exists t. auto.
  - intros [t [Ht [E F]]]. destruct (Nat.eq_dec (sid t) (sid th)) as [Eq|Ne].
    + assert (t = th) by (eapply sid_unique; eauto). subst t. exists th'. split; [|split; congruence].
      unfold put_s. apply in_map_iff. exists th. split; auto. rewrite Es, Nat.eqb_refl. reflexivity.
    + exists t. split; auto. unfold put_s. apply in_map_iff. exists t. split; auto.
      destruct (Nat.eqb_spec (sid t) (sid th')); auto. congruence.
Qed.
Lemma unsent_put_sent : forall l th th' n, NoDup (map sid l) -> In th l -> sid th' = sid th -> unsent_f th' = false ->
  (In n (map sid (filter unsent_f (put_s th' l))) <-> (In n (map sid (filter unsent_f l)) /\ n <> sid th)).
Proof.
  intros l th th' n ND Hth Es Ef. rewrite !in_unsent. split.
  - intros [t [Ht [E F]]]. apply in_put_s in Ht. destruct Ht as [Ht|[Ht Hne]].
    + subst. congruence.
    + split; [exists t; auto | congruence].
  - intros [[t [Ht [E F]]] Hne]. exists t. split; auto.
    unfold put_s. apply in_map_iff. exists t. split; auto. destruct (Nat.eqb_spec (sid t) (sid th')); auto. congruence.
Qed.
Lemma unsent_del : forall l k n, (In n (map sid (filter unsent_f (del_s k l))) <-> (In n (map sid (filter unsent_f l)) /\ n <> k)).
Proof.
  intros l k n. rewrite !in_unsent. split.
  - intros [t [Ht [E F]]]. apply in_del_s in Ht. destruct Ht. split; [exists t; auto | congruence].
  - intros [[t [Ht [E F]]] Hne]. exists t. split; auto. unfold del_s. apply filter_In. split; auto.
    destruct (Nat.eqb_spec (sid t) k); auto. congruence.
Qed.

Lemma starts_unique : forall (st : starts_t) n c l c' l', NoDup (start_ids st) ->
  In (n, c, l) st -> In (n, c', l') st -> c = c' /\ l = l'.
Proof.
  unfold start_ids. induction st as [|x st IH]; simpl; intros n c l c' l' ND H1 H2; try contradiction.
  inversion ND; subst. destruct H1 as [H1|H1], H2 as [H2|H2]; subst.
  - inversion H2; auto.
  - exfalso. apply H3. apply in_map_iff. exists (n, c', l'). auto.
  - exfalso. apply H3. apply in_map_iff. exists (n, c, l). auto.
  - eapply IH; eauto.
Qed.

Lemma invB_sender : forall s n s' th, InvA s -> InvB s -> find_s n (senders s) = Some th -> nstep s th = Some s' -> InvB s'.
Proof.
  intros s n s' th IA I F H. destruct (find_s_in _ _ _ F) as [Hin En]. clear F.
  assert (Herr := A_err _ IA). assert (Hnd := A_sndnd _ IA).
  destruct (A_snd _ IA th Hin) as [Hpc [Hle Hlt]].
  assert (Hsr : forall t, In t (srch s) -> sid t <> sid th).
  { intros t Ht. destruct (A_sid _ IA t Ht) as [E _]. assert (sid th < stopPtr s). { apply Hlt. left. intro X. rewrite X in Ht. contradiction. } lia. }
  destruct I as [Bdone Bids Bcidx Bcur Blimvar Bsrch Btok Btimers Bnoend Bsreason Bwaited Bres Bresnd Bresin Bpcs Bpos Bfresh Bph].
  destruct (Bsrch th (or_intror Hin)) as [cst Hst].
  pose proof (Bwaited th (or_intror Hin)) as Bw. pose proof (fun r => Bsreason th r (or_intror Hin)) as Bsr.
  unfold nstep, upd_n, out_stage1, out_stage2, out_stage3 in H. rewrite ?Herr in H.
  destruct (spcv th) eqn:Epc; try discriminate; simpl in Hpc;
  repeat match goal with
  | H : (if ?b then _ else _) = Some _ |- _ => destruct b eqn:?; try discriminate
  end; try inv_some.
  all: unfold rel_out, emit, acq_out.
  all: repeat match goal with |- context [if ?b then _ else _] => destruct b eqn:? end.
  all: constructor; unfold allcalls, unsent_ids, nacc in *; simpl; auto.
  (* thread facts *)
  all: try (intros th0 [Hx|Hx]; [ apply Bsrch; left; exact Hx
            | first [apply in_put_s in Hx; destruct Hx as [Hx|[Hx _]]; [subst; simpl; eauto | apply Bsrch; right; exact Hx]
                    | apply in_del_s in Hx; destruct Hx as [Hx _]; apply Bsrch; right; exact Hx] ]; fail).
  all: try (intros th0 r0 [Hx|Hx] Hr; [ apply Bsreason; [left; exact Hx | exact Hr]
            | first [apply in_put_s in Hx; destruct Hx as [Hx|[Hx _]]; [subst; simpl in *; apply Bsr; exact Hr | apply Bsreason; [right; exact Hx | exact Hr]]
                    | apply in_del_s in Hx; destruct Hx as [Hx _]; apply Bsreason; [right; exact Hx | exact Hr]] ]; fail).
  all: try (intros th0 [Hx|Hx] Ha Hf; [ apply Bwaited; [left; exact Hx | exact Ha | exact Hf]
            | first [apply in_put_s in Hx; destruct Hx as [Hx|[Hx _]]; [subst; simpl in *; apply Bw; [rewrite Epc; reflexivity | exact Hf] | apply Bwaited; [right; exact Hx | exact Ha | exact Hf]]
                    | apply in_del_s in Hx; destruct Hx as [Hx _]; apply Bwaited; [right; exact Hx | exact Ha | exact Hf]] ]; fail).
  all: change (fun th : sthread => negb (sent (spcv th))) with unsent_f in *.
  all: assert (Hge : 1 <= sid th)
         by (assert (X : In (sid th) (start_ids (starts s))) by (unfold start_ids; apply in_map_iff; exists (sid th, cst, slim th); auto);
             rewrite Bids in X; apply in_rev in X; apply in_seq in X; lia).
  all: assert (Hgo : cpcv s = CStGo -> sid th < stopPtr s) by (intro X; apply Hlt; auto).
  all: assert (Hth_un : unsent_f th = true -> In (sid th) (map sid (filter unsent_f (senders s))))
         by (intro X; apply in_unsent; exists th; auto).
  all: assert (Hth_sent : unsent_f th = false -> ~ In (sid th) (map sid (filter unsent_f (senders s))))
         by (intros X Y; apply in_unsent in Y; destruct Y as [t [Ht [E F]]];
             assert (t = th) by (eapply sid_unique; eauto); subst; congruence).
  (* results and unsent ids *)
  all: try (intros n0; rewrite (Bresin n0); rewrite !in_app_iff;
            first [ rewrite (unsent_put_same (senders s) th _ n0 Hnd Hin eq_refl) by (unfold unsent_f; simpl; rewrite Epc; reflexivity); tauto
                  | rewrite unsent_del; split; intros [R U]; split; auto; intros [X|[X|X]]; apply U; auto;
                    [ destruct X; auto | right; left; split; auto; intro; subst; apply (Hth_sent ltac:(unfold unsent_f; rewrite Epc; reflexivity)); auto ] ]; fail).
  all: try (intros n0; rewrite (Bresin n0); rewrite !in_app_iff;
            rewrite (unsent_put_same (senders s) th _ n0 Hnd Hin eq_refl) by (unfold unsent_f; simpl; rewrite ?Epc; reflexivity); tauto).
  all: try (intros n0; rewrite (Bresin n0); rewrite !in_app_iff;
            match goal with |- context [put_s ?x _] =>
              rewrite (unsent_put_same (senders s) th x n0 Hnd Hin eq_refl) by (unfold unsent_f; simpl; rewrite ?Epc; reflexivity) end; tauto).
  (* B_waited *)
  all: try (intros th0 [Hx|Hx] Ha Hf; [ apply Bwaited; [left; exact Hx | exact Ha | exact Hf] |];
            apply in_put_s in Hx; destruct Hx as [Hx|[Hx _]];
            [ subst; simpl in *; apply Bw; [first [reflexivity | rewrite Epc; reflexivity] | exact Hf] | apply Bwaited; [right; exact Hx | exact Ha | exact Hf] ]).
  (* the result *)
  - intros n0 r0 [E|Hin']; [inversion E; subst; split; [|lia] | auto].
    unfold result_reason; destruct (sreason th) as [r|] eqn:Esr.
    + destruct (Bsr r eq_refl) as [Hok Hne]. destruct r; simpl in *; auto; try contradiction; try congruence.
      destruct Hok as [c0 [l0 [Hx Hy]]]. exists cst, (slim th). split; auto.
      assert (El : l0 = slim th).
      { assert (ND : NoDup (start_ids (starts s))) by (rewrite Bids; apply NoDup_rev; apply seq_NoDup).
        destruct (starts_unique _ _ _ _ _ _ ND Hx Hst); auto. }
      subst l0. split; auto.
      destruct (lPonder (slim th) || lInfinite (slim th)) eqn:Ew; auto. exfalso. destruct (Bw eq_refl eq_refl) as [_ Z]. apply Z; auto.
    + simpl. exists cst, (slim th). split; auto.
      destruct (lPonder (slim th) || lInfinite (slim th)) eqn:Ew; auto. exfalso. destruct (Bw eq_refl eq_refl) as [X _]. apply X; auto.
  - constructor; auto. intro X. apply Bresin in X. destruct X as [_ X]. apply X.
    rewrite !in_app_iff. right. left. apply Hth_un. unfold unsent_f. rewrite Epc. reflexivity.
  - intros n0. rewrite !in_app_iff.
    rewrite (unsent_put_sent (senders s) th (set_spc SRes2 th) n0 Hnd Hin eq_refl) by reflexivity.
    split.
    + intros [E|X].
      * subst. split; [lia|]. intros [Y|[[_ Y]|Y]]; try congruence.
        { apply in_map_iff in Y. destruct Y as [t [E Ht]]. apply (Hsr t Ht). auto. }
        { destruct (cpcv s); simpl in Y; try contradiction. destruct Y as [Y|[]]. specialize (Hgo eq_refl). lia. }
      * apply Bresin in X. destruct X as [R U]. split; auto. rewrite !in_app_iff in U. tauto.
    + intros [R U]. destruct (Nat.eq_dec n0 (sid th)); [left; auto | right]. apply Bresin. split; auto.
      rewrite !in_app_iff. tauto.
Qed.

Lemma tok_get_fresh : forall l, tok_get (length l) (l ++ [None]) = None.
Proof. unfold tok_get. intros. rewrite nth_error_app2 by lia. rewrite Nat.sub_diag. reflexivity. Qed.

Lemma nth_allcalls : forall s c cs, length (done s) = cidx s -> calls s = c :: cs ->
  nth_error (rev (done s) ++ calls s) (cidx s) = Some c.
Proof.
  intros. rewrite nth_error_app2 by (rewrite rev_length; lia). rewrite rev_length, H, Nat.sub_diag, H0. reflexivity.
Qed.

Lemma invB_ctl : forall s s', InvA s -> InvB s -> step s TCtl = Some s' -> InvB s'.
Proof.
  intros s s' IA I H. unfold step in H. rewrite (A_pan _ IA) in H.
  assert (Herr := A_err _ IA). assert (Hone := A_one _ IA). assert (Hcall := A_call _ IA).
  assert (Hcp := A_cparam _ IA). assert (Hexcl := A_excl _ IA). assert (Hlim := A_lim _ IA).
  assert (Htoks := A_toks _ IA). assert (Hsid := A_sid _ IA). assert (Hrun := A_run _ IA). assert (Hsnd := A_snd _ IA).
  assert (Hsidle : forall t, In t (srch s) \/ In t (senders s) -> sid t <= stopPtr s).
  { intros t [Ht|Ht]; [destruct (Hsid t Ht); lia | destruct (Hsnd t Ht) as [_ [X _]]; auto]. }
  destruct I as [Bdone Bids Bcidx Bcur Blimvar Bsrch Btok Btimers Bnoend Bsreason Bwaited Bres Bresnd Bresin Bpcs Bpos Bfresh Bph].
  unfold cstep, cur_call, cparam_ok, unsent_ids, nacc, allcalls in *.
  unfold out_stage1, out_stage2, out_stage3 in H. rewrite ?Herr in H.
  destruct (calls s) as [|c cs] eqn:Ec; simpl in *; try discriminate.
  assert (Hnth := nth_allcalls s c cs Bdone Ec). rewrite Ec in Hnth.
  destruct (cpcv s) eqn:Epc; simpl in *; destruct c; try discriminate;
    repeat match goal with
    | H : (if ?b then _ else _) = Some _ |- _ => destruct b eqn:?; try discriminate
    | H : match limitsVar ?s with _ => _ end = Some _ |- _ => destruct (limitsVar s) eqn:?
    end; try inv_some; try discriminate.
  all: simpl in *.
  all: unfold rel_init, rel_run, rel_out, new_timer, emit_opt, emit, after_init_c, acq_out.
  all: repeat match goal with |- context [if ?b then _ else _] => destruct b eqn:? end.
  all: repeat match goal with |- context [match ?b with Some _ => _ | None => _ end] => destruct b eqn:? end.
  all: repeat match goal with |- context [match ?b with LReady => _ | _ => _ end] => destruct b eqn:? end.
  all: simpl.
  all: constructor; unfold allcalls, unsent_ids, nacc in *; simpl; rewrite ?Ec, ?Epc; simpl; auto; try discriminate; try congruence.
  all: try (intros _; apply Blimvar; discriminate).
  all: try (intros [Hs|Hs]; [apply Bpos; auto | discriminate]).
  all: rewrite <- ?app_assoc; simpl.
  all: try (intros n0 c0 l0 Hin; destruct (Bcidx _ _ _ Hin) as [Hc|[Hc [Hc2 Hc3]]]; [left; lia | try discriminate; subst; auto]; fail).
  all: try (intros n0 r0 Hg; eapply reason_ok_weaken; [ | | | apply Btok; eauto]; auto; fail).
  all: try (intros tm Hin; destruct (Btimers tm Hin); split; auto; eapply creator_ok_weaken; [ | | | eauto]; auto; fail).
  all: try (intros th0 r0 Hin Hr; destruct (Bsreason th0 r0 Hin Hr); split; auto; eapply reason_ok_weaken; [ | | | eauto]; auto; fail).
  all: try (intros n0 r0 Hin; destruct (Bres n0 r0 Hin); split; auto; eapply res_ok_weaken; [ | | | eauto]; auto; fail).
  (* stop request *)
  all: try (intros th0 Hin Hb Hg; apply tok_get_set in Hg; destruct Hg as [Hg|[_ [E2 _]]]; [eapply Bnoend; eauto | discriminate]; fail).
  all: try (intros n0 r0 Hg; apply tok_get_set in Hg; destruct Hg as [Hg|[E1 [E2 Hg]]]; [auto | subst; simpl; split; [lia | split; [rewrite Hnth; auto | intros c' l' Hin; destruct (Bcidx _ _ _ Hin) as [|[? [X ?]]]; [auto | discriminate X]]]]; fail).
  (* accepted start *)
  all: try (change (rev (seq 2 (stopPtr s)) ++ [1]) with (rev (seq 1 (S (stopPtr s)))); rewrite seq_rev_S, Bids; reflexivity).
  all: try (intros n0 c0 l0 [E|Hin]; [inversion E; subst; right; auto | destruct (Bcidx _ _ _ Hin) as [|[? [X ?]]]; [left; auto | discriminate X]]; fail).
  all: try (unfold cur_call; simpl; rewrite Ec; simpl; eexists; split; [reflexivity | ];
            first [ left; reflexivity | rewrite ?Htoks; destruct Bcur as [l' [E1 E2]]; inversion E1; subst; exact E2 ]; fail).
  all: try (intros _ l0 Hl; destruct (Blimvar ltac:(discriminate) l0 Hl) as [c0 Hc]; exists c0; right; auto; fail).
  all: try (intros th0 Hin; destruct (Bsrch th0 Hin) as [c0 ?]; exists c0; right; auto; fail).
  all: try (intros n0 r0 Hg; eapply reason_ok_weaken; [ | | | apply Btok; eauto]; [lia | intros; right; auto | intros c0 l0 [E|Hin]; [inversion E; subst; apply tok_get_lt in Hg; lia | auto]]; fail).
  all: try (intros tm Hin; destruct (Btimers tm Hin); split; auto; eapply creator_ok_weaken; [ | | | eauto]; [lia | intros; right; auto | intros c0 l0 [E|Hin']; [inversion E; subst; lia | auto]]; fail).
  all: try (intros th0 r0 Hin Hr; destruct (Bsreason th0 r0 Hin Hr); split; auto; eapply reason_ok_weaken; [ | | | eauto]; [lia | intros; right; auto | intros c0 l0 [E|Hin']; [inversion E; subst; specialize (Hsidle th0 Hin); lia | auto]]; fail).
  all: try (intros n0 r0 Hin; destruct (Bres n0 r0 Hin); split; auto; eapply res_ok_weaken; [ | | | eauto]; [lia | intros; right; auto | intros c0 l0 [E|Hin']; [inversion E; subst; lia | auto]]; fail).
  (* token allocation and go statement: no search goroutine owns isRunning *)
  all: try (assert (Hnil : srch s = []) by (apply Hexcl; reflexivity); rewrite ?Hnil in * ).
  all: rewrite ?Htoks.
  all: try exact Bids.
  all: try (intros _ l0 Hl; rewrite Hlim in Hl; inversion Hl; subst; destruct Bcur as [l' [E1 E2]]; inversion E1; subst; eauto; fail).
  all: try (intros n0 r0 Hg; apply tok_get_app_none in Hg; auto; fail).
  all: try (intros tm Hin; destruct (Btimers tm Hin); split; [lia | auto]; fail).
  all: try (intros th0 Hin; contradiction).
  all: try (intros n0 r0 Hin; destruct (Bres n0 r0 Hin); split; [auto | lia]; fail).
  all: try (intros; lia).
  all: try (intros _; split; [rewrite <- Htoks; apply tok_get_fresh | intros tm Hin; destruct (Btimers tm Hin); lia]; fail).
  all: try (intros th0 [E|[]]; subst; simpl; auto; try discriminate;
            try (intros _; destruct (Bfresh eq_refl) as [X _]; rewrite X; discriminate); fail).
  all: try (intros th0 [[E|[]]|Hx]; [subst; simpl; destruct Bcur as [l' [E1 E2]]; inversion E1; subst; eauto | apply Bsrch; right; exact Hx]; fail).
  all: try (intros th0 r0 [[E|[]]|Hx] Hr; [subst; simpl in *; discriminate | apply Bsreason; [right; exact Hx | exact Hr]]; fail).
  all: try (intros th0 [[E|[]]|Hx] Ha Hf; [subst; simpl in *; discriminate | apply Bwaited; [right; exact Hx | exact Ha | exact Hf]]; fail).
  (* ponderhit *)
  all: try (intros _ l0 Hl; apply Blimvar; [discriminate | congruence]; fail).
  all: try (eexists; split; eauto; fail).
  (* strengthened token invariant *)
  all: try (intros n0 r0 Hg; destruct (Btok n0 r0 Hg) as [X Y]; split; [|exact Y];
            eapply reason_ok_weaken; [ | | | exact X]; auto; fail).
  all: try (intros n0 r0 Hg; destruct (Btok n0 r0 Hg) as [X Y]; split; [|exact Y];
            eapply reason_ok_weaken; [ | | | exact X]; [lia | intros; right; auto | intros c0 l0 [E|Hin]; [inversion E; subst; apply tok_get_lt in Hg; lia | auto]]; fail).
  all: try (intros n0 r0 Hg; apply tok_get_set in Hg; destruct Hg as [Hg|[E1 [E2 Hg]]]; [auto | subst; split; [|discriminate]; simpl; split; [lia | split; [rewrite Hnth; auto | intros c' l' Hin; destruct (Bcidx _ _ _ Hin) as [|[? [X ?]]]; [auto | discriminate X]]]]; fail).
  - (* CStTok -> CStGo: the new id is in range but not yet sent *)
    intros n0. rewrite (Bresin n0). simpl. rewrite !in_app_iff. simpl. split.
    + intros [R U]. split; [lia|]. intros [X|[X|[]]]; try lia. apply U. left. exact X.
    + intros [R U]. assert (n0 <> S (stopPtr s)) by (intro; apply U; right; left; auto).
      split; [lia|]. intros [X|X]; try contradiction. apply U. left. exact X.
  - (* CStGo -> CStWait *)
    intros n0. rewrite (Bresin n0). simpl. rewrite !in_app_iff. simpl. split.
    + intros [R U]. split; auto. tauto.
    + intros [R U]. split; auto. tauto.
  - intros tm [E|Hin]; [subst; simpl | auto].
    split; [lia|]. split; [lia|]. split; [exact Hnth|]. split.
    + intros c' l' Hin. destruct (Bcidx _ _ _ Hin) as [|[? [X ?]]]; [auto | discriminate X].
    + destruct Bph as [l0 [Hl Hp]]. destruct (Blimvar ltac:(discriminate) l0 Hl) as [c0 Hc]. eauto.
Qed.

Lemma invB_step : forall s t s', InvA s -> InvB s -> step s t = Some s' -> InvB s'.
Proof.
  intros s t s' IA I H. destruct t.
  - eapply invB_ctl; eauto.
  - unfold step in H. rewrite (A_pan _ IA) in H.
    destruct (find_s n (srch s)) as [th|] eqn:F.
    + eapply invB_search; eauto.
    + destruct (find_s n (senders s)) as [th|] eqn:F2; try discriminate. destruct c; try discriminate.
      eapply invB_sender; eauto.
  - eapply invB_timer; eauto.
  - unfold step in H. rewrite (A_pan _ IA) in H. inv_some. apply invB_tick; auto.
Qed.

Definition Inv (s : state) : Prop := InvA s /\ InvB s.

Lemma inv_step : forall s t s', Inv s -> step s t = Some s' -> Inv s'.
Proof. intros s t s' [IA IB] H. split; [eapply invA_step | eapply invB_step]; eauto. Qed.

Lemma inv_sched : forall sched s, Inv s -> Inv (run_sched s sched).
Proof.
  induction sched; simpl; intros; auto. apply IHsched.
  destruct (step s a) eqn:E; auto. eapply inv_step; eauto.
Qed.

Theorem inv_reachable : forall s, reachable s -> Inv s.
Proof.
  intros s [s0 [[a [b [c [cs E]]]] [sched R]]]. subst. apply inv_sched. split; [apply invA_init | apply invB_init].
Qed.



(** * Assumptions *)
Print Assumptions inv_reachable.
