(** * LifecycleProofs: theorems about the lifecycle model [Lifecycle.v] (properties C14, C12-lifecycle)

    Part 1: the inductive invariant [Inv] ([inv_reachable]), [start_while_running_rejected],
    [one_result_per_start], [result_belongs_to_start], [no_foreign_stop], [infinite_not_before_stop_guarded]
    with its refuted literal form [infinite_not_before_stop_refuted].
    Part 2 (LifecycleProofs2.v): [race_free], [no_deadlock] (+ local statement and bounded release),
    [output_never_muted].

    All theorems quantify over ALL schedules (lists of thread ids, [reachable]) and all call sequences. *)
From Coq Require Import List Bool Arith PeanoNat Lia.
Import ListNotations.
Set Warnings "-unused-intro-pattern".
From FG Require Import Lifecycle.

(** * Layer A: control invariant *)

Definition holds_run (p : cpc) : bool :=
  match p with CStAcqInit | CStPos | CStLim | CStTok | CStGo | CWRel | CIsRel => true | _ => false end.
Definition in_init (p : spc) : bool :=
  match p with
  | SHasRes0 | STL0 | SET0 | SInBook | SInBookW | SInTT | SInTTW | SSetTL | SSetET | SLimTimer | STimerPtr
  | STimerGo _ | SBook | STTAge | SHist | SRelInit => true
  | _ => false
  end.
Definition before_tt (p : spc) : bool :=
  match p with SHasRes0 | STL0 | SET0 | SInBook | SInBookW | SInTT | SInTTW => true | _ => false end.
Definition srch_init (s : state) : bool := existsb (fun th => in_init (spcv th)) (srch s).
Definition holds_init (p : cpc) (b : bool) : bool :=
  match p with CStPos | CStLim | CStTok | CStGo | CStRel => true | CStWait => b | _ => false end.
Definition nil_b {A} (l : list A) : bool := match l with [] => true | _ => false end.

Definition pc_call_ok (p : cpc) (c : option call) : bool :=
  match p, c with
  | CIdle, _ => true
  | (CStTry | CStAcqInit | CStPos | CStLim | CStTok | CStGo | CStWait | CStRel), Some (CStart _) => true
  | (CSpPtr | CSpStore _), Some (CStop | CNewGame) => true
  | (CWAcq | CWRel), Some (CStop | CNewGame | CWait) => true
  | (CNgTT | CNgHist), Some CNewGame => true
  | (CIsTry | CIsRel), Some (CIsSearching | CPonderHit | CClearHash | CResize) => true
  | (CPhLim | CPhPtr | CPhGo _), Some CPonderHit => true
  | (CInBook | CInBookW | CInTT | CInTTW), Some (CIsReady | CResize) => true
  | CChTT, Some CClearHash => true
  | (CRzNil | CRzTT), Some CResize => true
  | (CSend0 _ _ | CSend1 _ _ | CSend2 _ | CSend3 _ _ | CSend4 _), Some (CIsReady | CClearHash | CResize) => true
  | CRet _, Some _ => true
  | _, _ => false
  end.

Definition zone (p : cpc) (c : option call) : bool :=
  holds_run p ||
  match p, c with
  | (CNgTT | CNgHist | CChTT | CRzNil | CRzTT), _ => true
  | (CInBook | CInBookW | CInTT | CInTTW), Some CResize => true
  | _, _ => false
  end.

Definition cparam_ok (s : state) : Prop :=
  match cpcv s with CSpStore p | CPhGo p => p = stopPtr s | _ => True end.
Definition sparam_ok (s : state) (p : spc) : Prop :=
  match p with
  | STimerGo p | SPollTok p | SNodesStore p | SPoll2Tok p | SWaitTok p | SEndStore p => p = stopPtr s
  | _ => True
  end.
Definition in_ph (p : cpc) : bool := match p with CPhLim | CPhPtr | CPhGo _ => true | _ => false end.

Definition c_send (p : cpc) : bool :=
  match p with CSend1 _ _ | CSend2 _ | CSend3 _ _ | CSend4 _ => true | _ => false end.
Definition s_send (p : spc) : bool :=
  match p with SInfo1 | SInfo2 | SInfo3 _ | SInfo4 | SRes1 | SRes2 | SRes3 _ | SRes4 => true | _ => false end.
Definition srch_send (s : state) : bool := existsb (fun th => s_send (spcv th)) (srch s).
Definition cbuf_ok (s : state) : Prop :=
  match cpcv s with
  | CSend1 _ _ | CSend4 _ => outBuf s = []
  | CSend2 _ => length (outBuf s) = 1
  | CSend3 k _ => k = 1 /\ length (outBuf s) = 1
  | _ => True
  end.
Definition sbuf_ok (s : state) (p : spc) : Prop :=
  match p with
  | SInfo1 | SInfo4 | SRes1 | SRes4 => outBuf s = []
  | SInfo2 | SRes2 => length (outBuf s) = 1
  | SInfo3 k | SRes3 k => k = 1 /\ length (outBuf s) = 1
  | _ => True
  end.

Record InvA (s : state) : Prop := {
  A_pan : panicked s = false;
  A_one : length (srch s) <= 1;
  A_run : runFree s = negb (holds_run (cpcv s)) && nil_b (srch s);
  A_excl : holds_run (cpcv s) = true -> srch s = [];
  A_init : initFree s = negb (holds_init (cpcv s) (srch_init s));
  A_phase : srch_init s = true -> cpcv s = CStWait;
  A_call : pc_call_ok (cpcv s) (cur_call s) = true;
  A_zone : zone (cpcv s) (cur_call s) = true -> srch s = [];
  A_tt : forall th, In th (srch s) -> before_tt (spcv th) = false -> cfgTT s = true -> tt s = true;
  A_ttw : cpcv s = CInTTW -> tt s = false /\ cfgTT s = true;
  A_toks : length (toks s) = S (stopPtr s);
  A_sid : forall th, In th (srch s) -> sid th = stopPtr s /\ limitsVar s = Some (slim th) /\ sparam_ok s (spcv th);
  A_cparam : cparam_ok s;
  A_ph : in_ph (cpcv s) = true -> limitsVar s <> None;
  A_out : outFree s = negb (c_send (cpcv s)) && negb (srch_send s);
  A_outx : c_send (cpcv s) = true -> srch_send s = false;
  A_buf0 : outFree s = true -> outBuf s = [];
  A_err : outErr s = false;
  A_cbuf : cbuf_ok s;
  A_sbuf : forall th, In th (srch s) -> sbuf_ok s (spcv th);
  A_lim : match cpcv s, cur_call s with
          | (CStTok | CStGo), Some (CStart l) => limitsVar s = Some l
          | _, _ => True
          end
}.

Lemma invA_init : forall a b c cs, InvA (init a b c cs).
Proof.
  intros; constructor; unfold cparam_ok, cbuf_ok; simpl; auto; try (intros; contradiction); try discriminate.
Qed.

Lemma tok_set_length : forall l p r, length (tok_set p r l) = length l.
Proof. induction l; destruct p; simpl; auto. Qed.

Lemma srch_single : forall s n th, length (srch s) <= 1 -> find_s n (srch s) = Some th ->
  srch s = [th] /\ sid th = n.
Proof.
  intros s n th H F. unfold find_s in F. destruct (srch s) as [|x [|y l]]; simpl in *; try discriminate; try lia.
  destruct (sid x =? n) eqn:E; try discriminate. inversion F; subst. apply Nat.eqb_eq in E. auto.
Qed.

Ltac inv_some := match goal with H : Some _ = Some _ |- _ => inversion H; clear H; subst end.

Lemma invA_tick : forall s, InvA s -> InvA (set_clock (S (clock s)) s).
Proof. intros s [ ]; constructor; simpl; auto. Qed.

Lemma invA_timer : forall s k s', InvA s -> step s (TTimer k) = Some s' -> InvA s'.
Proof.
  intros s k s' I H. unfold step in H. rewrite (A_pan _ I) in H.
  destruct (find_t k (timers s)) as [th|]; try discriminate.
  unfold tstep in H. destruct I.
  destruct (tpcv th); try destruct (tok_get (ttok th) (toks s)); inv_some;
    constructor; simpl; auto; try (rewrite tok_set_length; auto).
Qed.

Lemma put_s_single : forall th th', sid th' = sid th -> put_s th' [th] = [th'].
Proof. intros. unfold put_s; simpl. rewrite H, Nat.eqb_refl. reflexivity. Qed.
Lemma del_s_single : forall th, del_s (sid th) [th] = [].
Proof. intros. unfold del_s; simpl. rewrite Nat.eqb_refl. reflexivity. Qed.

Lemma rel_init_ok : forall s, initFree s = false -> rel_init s = set_initFree true s.
Proof. intros. unfold rel_init. rewrite H. reflexivity. Qed.
Lemma rel_run_ok : forall s, runFree s = false -> rel_run s = set_runFree true s.
Proof. intros. unfold rel_run. rewrite H. reflexivity. Qed.

Ltac dest_in := repeat match goal with
  | H : In _ [_] |- _ => destruct H as [H|[]]; subst
  | H : _ \/ False |- _ => destruct H as [H|[]]; subst
  end.

Lemma rel_out_ok : forall s, outFree s = false -> rel_out s = set_outFree true s.
Proof. intros. unfold rel_out. rewrite H. reflexivity. Qed.

Lemma invA_search : forall s n c s', InvA s -> step s (TSearch n c) = Some s' -> InvA s'.
Proof.
  intros s n c s' I H. unfold step in H. rewrite (A_pan _ I) in H.
  destruct (find_s n (srch s)) as [th|] eqn:F; try discriminate.
  destruct (srch_single _ _ _ (A_one _ I) F) as [Es En]. clear F.
  destruct I as [Ipan Ione Irun Iexcl Iinit Iphase Icall Izone Itt Ittw Itoks Isid Icp Iph Iout Ioutx Ibuf0 Ierr Icbuf Isbuf Ilim].
  unfold srch_init, srch_send, cur_call in *. rewrite Es in *. simpl in *.
  destruct (Isid th (or_introl eq_refl)) as [Esid [Elim Epar]].
  assert (Hrun : holds_run (cpcv s) = false).
  { destruct (holds_run (cpcv s)) eqn:E; auto. specialize (Iexcl eq_refl). discriminate. }
  rewrite Hrun in *. simpl in Irun.
  assert (Hz : zone (cpcv s) (hd_error (calls s)) = false).
  { destruct (zone (cpcv s) (hd_error (calls s))) eqn:E; auto. specialize (Izone eq_refl). discriminate. }
  clear Iexcl Izone Ione. specialize (Itt th (or_introl eq_refl)). specialize (Isbuf th (or_introl eq_refl)). clear Isid.
  unfold sstep, goto_s, upd_s, out_stage1, out_stage2, out_stage3 in H. rewrite Elim, Es, ?Ierr in H.
  destruct (spcv th) eqn:Epc; destruct c; try discriminate;
  repeat match goal with
  | H : (if ?b then _ else _) = Some _ |- _ => destruct b eqn:?; try discriminate
  | H : match tok_get ?p ?l with _ => _ end = Some _ |- _ => destruct (tok_get p l) eqn:?
  end;
  try inv_some.
  all: simpl in *.
  all: try (specialize (Iphase eq_refl); rewrite Iphase in Iinit; simpl in Iinit).
  all: try rewrite rel_init_ok by assumption.
  all: try rewrite rel_run_ok by assumption.
  all: try rewrite rel_out_ok by (destruct (c_send (cpcv s)); simpl in *; auto).
  all: unfold new_timer, emit, after_init_s.
  all: simpl; rewrite ?Es; simpl; rewrite ?Nat.eqb_refl; simpl.
  all: repeat match goal with |- context [if ?b then _ else _] => destruct b eqn:? end.
  all: simpl; rewrite ?Es; simpl; rewrite ?Nat.eqb_refl; simpl.
  all: constructor; unfold srch_init, srch_send, cur_call, cparam_ok, cbuf_ok; simpl; rewrite ?Epc, ?Hrun, ?Hz, ?tok_set_length; auto; try congruence.
  all: try (intros; dest_in; simpl in *; try match goal with E : cpcv _ = CStWait |- _ => rewrite E in * end; simpl in *; auto; try discriminate; try congruence).
  all: try contradiction.
  all: repeat match goal with H : ?x = ?x -> _ |- _ => specialize (H eq_refl) end.
  all: try (destruct (c_send (cpcv s)) eqn:?; simpl in *; auto; try discriminate; try congruence; fail).
  all: rewrite ?Isbuf; simpl; auto.
  all: try (destruct (cpcv s); simpl in *; auto; try discriminate; try (specialize (Ioutx eq_refl); discriminate); fail).
  all: try (destruct Isbuf as [? Hl]; subst; rewrite Hl in *; simpl in *; discriminate).
Qed.

Lemma invA_ctl : forall s s', InvA s -> step s TCtl = Some s' -> InvA s'.
Proof.
  intros s s' I H. unfold step in H. rewrite (A_pan _ I) in H.
  destruct I as [Ipan Ione Irun Iexcl Iinit Iphase Icall Izone Itt Ittw Itoks Isid Icp Iph Iout Ioutx Ibuf0 Ierr Icbuf Isbuf Ilim].
  unfold cstep, cur_call, srch_init, srch_send, cparam_ok, cbuf_ok in *.
  unfold out_stage1, out_stage2, out_stage3 in H. rewrite ?Ierr in H.
  destruct (calls s) as [|c cs] eqn:Ec; simpl in *; try discriminate.
  destruct (srch s) as [|th [|th2 l]] eqn:Es; simpl in *; try lia.
  - (* no search goroutine *)
    destruct (cpcv s) eqn:Epc; simpl in *; destruct c; try discriminate;
    repeat match goal with
    | H : (if ?b then _ else _) = Some _ |- _ => destruct b eqn:?; try discriminate
    | H : match limitsVar ?s with _ => _ end = Some _ |- _ => destruct (limitsVar s) eqn:?
    end; try inv_some; try discriminate.
    all: simpl in *.
    all: try rewrite rel_init_ok by assumption.
    all: try rewrite rel_run_ok by assumption.
    all: try rewrite rel_out_ok by assumption.
    all: unfold new_timer, emit_opt, emit, after_init_c.
    all: repeat match goal with |- context [if ?b then _ else _] => destruct b eqn:? end.
    all: repeat match goal with |- context [match ?b with Some _ => _ | None => _ end] => destruct b eqn:? end.
    all: repeat match goal with |- context [match ?b with LReady => _ | _ => _ end] => destruct b eqn:? end.
    all: simpl; rewrite ?Es; simpl.
    all: constructor; unfold srch_init, srch_send, cur_call, cparam_ok, cbuf_ok; simpl; rewrite ?Es, ?Ec, ?Epc, ?app_length, ?tok_set_length; simpl; auto; try congruence; try lia.
    all: try (intros; dest_in; simpl in *; auto; try discriminate; try congruence; try contradiction).
    all: try (exfalso; apply Iph; auto; fail).
    all: try (rewrite ?Icbuf; simpl; auto; fail).
    all: try (destruct Icbuf as [? Hl]; subst; rewrite ?Hl in *; simpl in *; auto; discriminate).
  - (* one search goroutine *)
    clear Ione.
    destruct (Isid th (or_introl eq_refl)) as [Esid [Elim Epar]].
    specialize (Itt th (or_introl eq_refl)). specialize (Isbuf th (or_introl eq_refl)). clear Isid.
    assert (Hrun : holds_run (cpcv s) = false).
    { destruct (holds_run (cpcv s)) eqn:E; auto. specialize (Iexcl eq_refl). discriminate. }
    assert (Hz : zone (cpcv s) (Some c) = false).
    { destruct (zone (cpcv s) (Some c)) eqn:E; auto. specialize (Izone eq_refl). discriminate. }
    clear Iexcl Izone. rewrite Hrun in Irun. simpl in Irun. rewrite Irun, Elim in H.
    destruct (in_init (spcv th)) eqn:Ein; simpl in *; [specialize (Iphase eq_refl) | clear Iphase].
    all: destruct (s_send (spcv th)) eqn:Esd; simpl in *.
    all: destruct (cpcv s) eqn:Epc; simpl in *; try discriminate; destruct c; try discriminate;
    repeat match goal with
    | H : (if ?b then _ else _) = Some _ |- _ => destruct b eqn:?; try discriminate
    end; try inv_some; try discriminate.
    all: simpl in *.
    all: try rewrite rel_init_ok by assumption.
    all: try rewrite rel_out_ok by assumption.
    all: unfold new_timer, emit_opt, emit, after_init_c.
    all: repeat match goal with |- context [if ?b then _ else _] => destruct b eqn:? end.
    all: repeat match goal with |- context [match ?b with Some _ => _ | None => _ end] => destruct b eqn:? end.
    all: repeat match goal with |- context [match ?b with LReady => _ | _ => _ end] => destruct b eqn:? end.
    all: simpl; rewrite ?Es; simpl.
    all: constructor; unfold srch_init, srch_send, cur_call, cparam_ok, cbuf_ok; simpl; rewrite ?Es, ?Ec, ?Epc, ?app_length, ?tok_set_length; simpl; rewrite ?Ein, ?Esd; simpl; auto; try congruence; try lia.
    all: try (intros; dest_in; simpl in *; auto; try discriminate; try congruence; try contradiction).
    all: try match goal with I : ?a = false -> true = true -> false = true, H : ?a = false |- _ => specialize (I H eq_refl); discriminate end.
    all: try (rewrite ?Icbuf; simpl; auto; fail).
    all: try (destruct Icbuf as [? Hl]; subst; rewrite ?Hl in *; simpl in *; auto; discriminate).
    all: try (match goal with |- sbuf_ok _ (spcv ?t) => destruct (spcv t); simpl in *; auto; discriminate end).
Qed.

Lemma invA_step : forall s t s', InvA s -> step s t = Some s' -> InvA s'.
Proof.
  intros s t s' I H. destruct t.
  - eapply invA_ctl; eauto.
  - eapply invA_search; eauto.
  - eapply invA_timer; eauto.
  - unfold step in H. rewrite (A_pan _ I) in H. inv_some. apply invA_tick; auto.
Qed.

Lemma invA_sched : forall sched s, InvA s -> InvA (run_sched s sched).
Proof.
  induction sched; simpl; intros; auto. apply IHsched.
  destruct (step s a) eqn:E; auto. eapply invA_step; eauto.
Qed.

Theorem invA_reachable : forall s, reachable s -> InvA s.
Proof.
  intros s [s0 [[a [b [c [cs E]]]] [sched R]]]. subst. apply invA_sched. apply invA_init.
Qed.


(** * Layer B: ghost / identity invariant *)

Definition starts_t := list (nat * nat * limits).

Definition nacc (s : state) : nat :=
  match cpcv s with CStAcqInit | CStPos | CStLim | CStTok => S (stopPtr s) | _ => stopPtr s end.
Definition start_ids (st : starts_t) : list nat := map (fun x => fst (fst x)) st.
Definition in_start (p : cpc) : bool :=
  match p with
  | CStAcqInit | CStPos | CStLim | CStTok | CStGo | CStWait | CStRel => true
  | CRet (Some (EStartReturned _)) => true
  | _ => false
  end.
Definition allcalls (s : state) : list call := rev (done s) ++ calls s.

Definition creator_ok (st : starts_t) (ci : nat) (ac : list call) (n : nat) (cr : creator) : Prop :=
  match cr with
  | ByRun m => m = n /\ exists c l, In (n, c, l) st /\ lTimeControl l && negb (lPonder l) = true
  | ByPonderHit c => c <= ci /\ nth_error ac c = Some CPonderHit /\ (forall c' l, In (n, c', l) st -> c' < c)
                     /\ exists c' l, In (n, c', l) st /\ lPonder l = true
  end.
Definition reason_ok (st : starts_t) (ci : nat) (ac : list call) (n : nat) (r : reason) : Prop :=
  match r with
  | RSelf => False
  | RNodes => exists c l, In (n, c, l) st /\ lNodes l = true
  | RTimer k tk cr => tk = n /\ creator_ok st ci ac n cr
  | RStop c => c <= ci /\ (nth_error ac c = Some CStop \/ nth_error ac c = Some CNewGame)
               /\ (forall c' l, In (n, c', l) st -> c' < c)
  | REnd => exists c l, In (n, c, l) st
  end.
Definition res_ok (st : starts_t) (ci : nat) (ac : list call) (n : nat) (r : reason) : Prop :=
  match r with
  | RSelf => exists c l, In (n, c, l) st /\ lPonder l || lInfinite l = false
  | REnd => False
  | _ => reason_ok st ci ac n r
  end.

Definition sent (p : spc) : bool :=
  match p with SRes2 | SRes3 _ | SRes4 | SRelRun => true | _ => false end.
Definition pending (s : state) : bool :=
  match srch s with
  | th :: _ => negb (sent (spcv th))
  | [] => match cpcv s with CStGo => true | _ => false end
  end.
Definition ndone (s : state) : nat := stopPtr s - (if pending s then 1 else 0).
Definition before_end (p : spc) : bool :=
  match p with SRes0 | SRes1 | SRes2 | SRes3 _ | SRes4 | SRelRun => false | _ => true end.
Definition after_wait (p : spc) : bool :=
  match p with SLastRes | SHasRes1 | SEndPtr | SEndStore _ | SRes0 | SRes1 | SRes2 | SRes3 _ | SRes4 | SRelRun => true
  | _ => false end.

Definition spc_lim_ok (p : spc) (l : limits) : Prop :=
  match p with
  | STimerPtr | STimerGo _ => lTimeControl l && negb (lPonder l) = true
  | SNodesPtr | SNodesStore _ => lNodes l = true
  | _ => True
  end.

Record InvB (s : state) : Prop := {
  B_done : length (done s) = cidx s;
  B_ids : start_ids (starts s) = rev (seq 1 (nacc s));
  B_cidx : forall n c l, In (n, c, l) (starts s) ->
           c < cidx s \/ (c = cidx s /\ in_start (cpcv s) = true /\ n = nacc s);
  B_cur : match cpcv s with
          | CStAcqInit | CStPos | CStLim | CStTok | CStGo | CStWait | CStRel =>
              exists l, cur_call s = Some (CStart l) /\ In (nacc s, cidx s, l) (starts s)
          | _ => True
          end;
  B_limvar : cpcv s <> CStTok -> forall l, limitsVar s = Some l -> exists c, In (stopPtr s, c, l) (starts s);
  B_srch : forall th, In th (srch s) -> exists c, In (sid th, c, slim th) (starts s);
  B_tok : forall n r, tok_get n (toks s) = Some r -> reason_ok (starts s) (cidx s) (allcalls s) n r;
  B_timers : forall tm, In tm (timers s) ->
             ttok tm <= stopPtr s /\ creator_ok (starts s) (cidx s) (allcalls s) (ttok tm) (tcreator tm);
  B_noend : forall th, In th (srch s) -> before_end (spcv th) = true -> tok_get (stopPtr s) (toks s) <> Some REnd;
  B_sreason : forall th r, In th (srch s) -> sreason th = Some r ->
              reason_ok (starts s) (cidx s) (allcalls s) (sid th) r /\ r <> REnd;
  B_waited : forall th, In th (srch s) -> after_wait (spcv th) = true ->
             lPonder (slim th) || lInfinite (slim th) = true -> sreason th <> None;
  B_res : forall n r, In (n, r) (results s) -> res_ok (starts s) (cidx s) (allcalls s) n r /\ n <= stopPtr s;
  B_resids : map fst (results s) = rev (seq 1 (ndone s));
  B_pcs : forall th, In th (srch s) -> spc_lim_ok (spcv th) (slim th);
  B_pos : srch s <> [] \/ cpcv s = CStGo -> 1 <= stopPtr s;
  B_fresh : cpcv s = CStGo -> tok_get (stopPtr s) (toks s) = None /\ forall tm, In tm (timers s) -> ttok tm < stopPtr s;
  B_ph : match cpcv s with
         | CPhPtr | CPhGo _ => exists l, limitsVar s = Some l /\ lPonder l = true
         | _ => True
         end
}.

Lemma invB_init : forall a b c cs, InvB (init a b c cs).
Proof.
  intros; constructor; simpl; auto; try (intros; contradiction); try discriminate.
  - intros [|[|n]] r; simpl; discriminate.
  - intros [H|H]; [contradiction | discriminate].
Qed.

(** monotonicity of the ghost predicates *)
Lemma creator_ok_weaken : forall st ci ac st' ci' n cr,
  ci <= ci' -> (forall x, In x st -> In x st') -> (forall c l, In (n, c, l) st' -> In (n, c, l) st) ->
  creator_ok st ci ac n cr -> creator_ok st' ci' ac n cr.
Proof.
  intros st ci ac st' ci' n cr Hci Hsub Hn H. destruct cr; simpl in *.
  - destruct H as [E [c [l [Hin Hl]]]]. split; auto. exists c, l. auto.
  - destruct H as [H1 [H2 [H3 [c' [l [Hin Hl]]]]]]. repeat split; auto; try lia.
    + intros. apply (H3 c'0 l0). auto.
    + exists c', l. auto.
Qed.
Lemma reason_ok_weaken : forall st ci ac st' ci' n r,
  ci <= ci' -> (forall x, In x st -> In x st') -> (forall c l, In (n, c, l) st' -> In (n, c, l) st) ->
  reason_ok st ci ac n r -> reason_ok st' ci' ac n r.
Proof.
  intros st ci ac st' ci' n r Hci Hsub Hn H. destruct r; simpl in *; auto.
  - destruct H as [c [l [Hin Hl]]]. exists c, l; auto.
  - destruct H as [E H]. split; auto. eapply creator_ok_weaken; eauto.
  - destruct H as [H1 [H2 H3]]. repeat split; auto; try lia. intros. apply (H3 c' l). auto.
  - destruct H as [c [l Hin]]. exists c, l; auto.
Qed.
Lemma res_ok_weaken : forall st ci ac st' ci' n r,
  ci <= ci' -> (forall x, In x st -> In x st') -> (forall c l, In (n, c, l) st' -> In (n, c, l) st) ->
  res_ok st ci ac n r -> res_ok st' ci' ac n r.
Proof.
  intros st ci ac st' ci' n r Hci Hsub Hn H. destruct r; auto.
  - simpl in *. destruct H as [c [l [Hin Hl]]]. exists c, l; auto.
  - apply (reason_ok_weaken st ci ac st' ci' n RNodes); auto.
  - apply (reason_ok_weaken st ci ac st' ci' n (RTimer k tok cr)); auto.
  - apply (reason_ok_weaken st ci ac st' ci' n (RStop c)); auto.
Qed.

Lemma tok_get_lt : forall l n r, tok_get n l = Some r -> n < length l.
Proof.
  unfold tok_get. intros l n r H. destruct (nth_error l n) eqn:E; try discriminate.
  apply nth_error_Some. congruence.
Qed.
Lemma tok_get_set_same : forall l p r, p < length l ->
  tok_get p (tok_set p r l) = Some (match tok_get p l with Some r0 => r0 | None => r end).
Proof.
  unfold tok_get. induction l; simpl; intros; try lia. destruct p; simpl.
  - destruct a; auto.
  - apply IHl. lia.
Qed.
Lemma tok_get_set_other : forall l p q r, p <> q -> tok_get q (tok_set p r l) = tok_get q l.
Proof.
  unfold tok_get. induction l; simpl; intros; auto.
  - destruct p, q; simpl; auto.
  - destruct p, q; simpl; auto; try lia.
Qed.
Lemma tok_get_set : forall l p q r x, tok_get q (tok_set p r l) = Some x ->
  tok_get q l = Some x \/ (q = p /\ x = r /\ tok_get q l = None).
Proof.
  intros. destruct (Nat.eq_dec p q).
  - subst. assert (q < length l). { apply tok_get_lt in H. rewrite tok_set_length in H. auto. }
    rewrite tok_get_set_same in H by auto. destruct (tok_get q l); inversion H; auto.
  - rewrite tok_get_set_other in H by auto. auto.
Qed.
Lemma tok_get_app_none : forall l n r, tok_get n (l ++ [None]) = Some r -> tok_get n l = Some r.
Proof.
  unfold tok_get. intros l n r H. destruct (lt_dec n (length l)).
  - rewrite nth_error_app1 in H by auto. auto.
  - rewrite nth_error_app2 in H by lia. destruct (n - length l) as [|[|k]]; simpl in H; discriminate.
Qed.
Lemma allcalls_ret : forall (d : list call) c cs, rev (c :: d) ++ cs = rev d ++ c :: cs.
Proof. intros. simpl. rewrite <- app_assoc. reflexivity. Qed.
Lemma seq_rev_S : forall k, rev (seq 1 (S k)) = S k :: rev (seq 1 k).
Proof. intros. rewrite seq_S. rewrite rev_app_distr. reflexivity. Qed.

Lemma in_put_t : forall th' l x, In x (put_t th' l) -> x = th' \/ In x l.
Proof.
  unfold put_t. intros th' l x H. apply in_map_iff in H. destruct H as [y [E Hy]].
  destruct (tmid y =? tmid th'); subst; auto.
Qed.
Lemma in_del_t : forall k l x, In x (del_t k l) -> In x l.
Proof. unfold del_t. intros. apply filter_In in H. tauto. Qed.
Lemma find_t_in : forall k l th, find_t k l = Some th -> In th l.
Proof. unfold find_t. intros. apply find_some in H. tauto. Qed.

Lemma invB_tick : forall s, InvB s -> InvB (set_clock (S (clock s)) s).
Proof. intros s [ ]; constructor; simpl; auto. Qed.

Lemma invB_timer : forall s k s', InvA s -> InvB s -> step s (TTimer k) = Some s' -> InvB s'.
Proof.
  intros s k s' IA I H. unfold step in H. rewrite (A_pan _ IA) in H.
  destruct (find_t k (timers s)) as [th|] eqn:F; try discriminate.
  apply find_t_in in F.
  unfold tstep in H. destruct I.
  destruct (B_timers0 th F) as [Hle Hcr].
  destruct (tpcv th); try destruct (tok_get (ttok th) (toks s)) eqn:Etok; inv_some;
    constructor; unfold upd_t, allcalls, ndone, pending, nacc in *; simpl; auto.
  all: try (intros tm Hin; apply in_put_t in Hin; destruct Hin as [Hin|Hin]; [subst; simpl; auto | auto]; fail).
  all: try (intros tm Hin; apply in_del_t in Hin; auto; fail).
  all: try (intros n0 r0 Hg; apply tok_get_set in Hg; destruct Hg as [Hg|[E1 [E2 Hg]]]; [auto | subst; simpl; auto]; fail).
  all: try (intros th0 Hin Hb Hg; apply tok_get_set in Hg; destruct Hg as [Hg|[E1 [E2 Hg]]]; [eapply B_noend0; eauto | discriminate]).
  all: intro Eg; destruct (B_fresh0 Eg) as [Hn Hlt]; split;
       [ try (rewrite tok_get_set_other; [auto | specialize (Hlt th F); lia]); auto
       | intros tm Hin; first [apply in_put_t in Hin; destruct Hin as [Hin|Hin]; [subst; simpl; apply (Hlt th F) | auto]
                              | apply in_del_t in Hin; auto ] ].
Qed.

Lemma invB_search : forall s n c s', InvA s -> InvB s -> step s (TSearch n c) = Some s' -> InvB s'.
Proof.
  intros s n c s' IA I H. unfold step in H. rewrite (A_pan _ IA) in H.
  destruct (find_s n (srch s)) as [th|] eqn:F; try discriminate.
  destruct (srch_single _ _ _ (A_one _ IA) F) as [Es En]. clear F.
  assert (Hgo : cpcv s <> CStGo).
  { intro E. pose proof (A_excl _ IA) as X. rewrite E in X. specialize (X eq_refl). congruence. }
  assert (Herr := A_err _ IA).
  destruct (A_sid _ IA th) as [Esid [Elim Epar]]. { rewrite Es; simpl; auto. }
  destruct I as [Bdone Bids Bcidx Bcur Blimvar Bsrch Btok Btimers Bnoend Bsreason Bwaited Bres Bresids Bpcs Bpos Bfresh Bph].
  unfold ndone, pending in *. rewrite Es in *.
  destruct (Bsrch th (or_introl eq_refl)) as [cst Hst].
  specialize (Bnoend th (or_introl eq_refl)). specialize (Bwaited th (or_introl eq_refl)).
  specialize (Bpcs th (or_introl eq_refl)).
  assert (Bsr := fun r => Bsreason th r (or_introl eq_refl)). clear Bsreason.
  assert (Hpos : 1 <= stopPtr s). { apply Bpos. left. discriminate. }
  unfold sstep, goto_s, upd_s, out_stage1, out_stage2, out_stage3 in H. rewrite Elim, Es, ?Herr in H.
  destruct (spcv th) eqn:Epc; destruct c; try discriminate;
  repeat match goal with
  | H : (if ?b then _ else _) = Some _ |- _ => destruct b eqn:?; try discriminate
  | H : match tok_get ?p ?l with _ => _ end = Some _ |- _ => destruct (tok_get p l) eqn:?
  end;
  try inv_some.
  all: simpl in *; subst.
  all: unfold rel_init, rel_run, rel_out, new_timer, emit, after_init_s.
  all: simpl; rewrite ?Es; simpl; rewrite ?Nat.eqb_refl; simpl.
  all: repeat match goal with |- context [if ?b then _ else _] => destruct b eqn:? end.
  all: simpl; rewrite ?Es; simpl; rewrite ?Nat.eqb_refl; simpl.
  all: constructor; unfold allcalls, ndone, pending, nacc in *; simpl; rewrite ?Es; simpl; auto.
  all: try (intros; dest_in; simpl in *; eauto; try discriminate; try congruence; fail).
  all: try (intros; contradiction).
  (* new timer *)
  all: try (intros tm [E|Hin]; [subst; simpl; split; [lia | split; [auto | exists cst, (slim th); rewrite <- Esid; auto]] | auto]; fail).
  (* reason read from the token *)
  all: try (intros th0 r0 [E|[]] Hr; subst; simpl in *; inversion Hr; subst; split;
            [rewrite Esid; apply Btok; auto | intro; subst; apply Bnoend; auto]; fail).
  (* token stores *)
  all: try (intros n0 r0 Hg; apply tok_get_set in Hg; destruct Hg as [Hg|[E1 [E2 Hg]]]; [auto | subst; simpl];
            exists cst, (slim th); rewrite <- Esid; auto; fail).
  all: try (intros th0 Hin Hb Hg; apply tok_get_set in Hg; destruct Hg as [Hg|[E1 [E2 Hg]]]; [apply Bnoend; auto | discriminate]; fail).
  (* the result *)
  all: try (intros n0 r0 [E|Hin]; [inversion E; subst; split; [|lia] | auto];
            unfold result_reason; destruct (sreason th) as [r|] eqn:Esr;
            [ destruct (Bsr r eq_refl) as [Hok Hne]; rewrite Esid in Hok; destruct r; simpl in *; auto; try contradiction; congruence
            | simpl; exists cst, (slim th); rewrite <- Esid; split; auto;
              destruct (lPonder (slim th) || lInfinite (slim th)) eqn:Ew; auto; exfalso; apply Bwaited; auto ]; fail).
  all: try (rewrite Bresids; replace (stopPtr s - 0) with (S (stopPtr s - 1)) by lia; rewrite seq_rev_S; f_equal; lia).
  all: try (destruct (cpcv s); try congruence; auto; fail).
  intros n0 r0 [E|Hin]; [inversion E; subst; split; [|lia] | auto].
  unfold result_reason; destruct (sreason th) as [r|] eqn:Esr.
  - destruct (Bsr r eq_refl) as [Hok Hne]. destruct r; simpl in *; auto; try contradiction; try congruence.
  - simpl. exists cst, (slim th). split; auto.
    destruct (lPonder (slim th) || lInfinite (slim th)) eqn:Ew; auto. exfalso; apply Bwaited; auto.
Qed.

Lemma tok_get_fresh : forall l, tok_get (length l) (l ++ [None]) = None.
Proof. unfold tok_get. intros. rewrite nth_error_app2 by lia. rewrite Nat.sub_diag. reflexivity. Qed.

Lemma nth_allcalls : forall s c cs, length (done s) = cidx s -> calls s = c :: cs ->
  nth_error (rev (done s) ++ calls s) (cidx s) = Some c.
Proof.
  intros. rewrite nth_error_app2 by (rewrite rev_length; lia). rewrite rev_length, H, Nat.sub_diag, H0. reflexivity.
Qed.

Lemma invB_ctl : forall s s', InvA s -> InvB s -> step s TCtl = Some s' -> InvB s'.
Proof.
  intros s s' IA I H. unfold step in H. rewrite (A_pan _ IA) in H.
  assert (Herr := A_err _ IA). assert (Hone := A_one _ IA). assert (Hcall := A_call _ IA).
  assert (Hcp := A_cparam _ IA). assert (Hexcl := A_excl _ IA). assert (Hlim := A_lim _ IA).
  assert (Htoks := A_toks _ IA). assert (Hsid := A_sid _ IA). assert (Hrun := A_run _ IA).
  destruct I as [Bdone Bids Bcidx Bcur Blimvar Bsrch Btok Btimers Bnoend Bsreason Bwaited Bres Bresids Bpcs Bpos Bfresh Bph].
  unfold cstep, cur_call, cparam_ok, ndone, pending, nacc, allcalls in *.
  unfold out_stage1, out_stage2, out_stage3 in H. rewrite ?Herr in H.
  destruct (calls s) as [|c cs] eqn:Ec; simpl in *; try discriminate.
  assert (Hnth := nth_allcalls s c cs Bdone Ec). rewrite Ec in Hnth.
  destruct (cpcv s) eqn:Epc; simpl in *; destruct c; try discriminate;
    repeat match goal with
    | H : (if ?b then _ else _) = Some _ |- _ => destruct b eqn:?; try discriminate
    | H : match limitsVar ?s with _ => _ end = Some _ |- _ => destruct (limitsVar s) eqn:?
    end; try inv_some; try discriminate.
  all: simpl in *.
  all: unfold rel_init, rel_run, rel_out, new_timer, emit_opt, emit, after_init_c.
  all: repeat match goal with |- context [if ?b then _ else _] => destruct b eqn:? end.
  all: repeat match goal with |- context [match ?b with Some _ => _ | None => _ end] => destruct b eqn:? end.
  all: repeat match goal with |- context [match ?b with LReady => _ | _ => _ end] => destruct b eqn:? end.
  all: simpl.
  all: constructor; unfold allcalls, ndone, pending, nacc in *; simpl; rewrite ?Ec, ?Epc; simpl; auto; try discriminate; try congruence.
  all: try (intros _; apply Blimvar; discriminate).
  all: try (intros [Hs|Hs]; [apply Bpos; auto | discriminate]).
  all: rewrite <- ?app_assoc; simpl.
  all: try (intros n0 c0 l0 Hin; destruct (Bcidx _ _ _ Hin) as [Hc|[Hc [Hc2 Hc3]]]; [left; lia | try discriminate; subst; auto]; fail).
  all: try (intros n0 r0 Hg; eapply reason_ok_weaken; [ | | | apply Btok; eauto]; auto; fail).
  all: try (intros tm Hin; destruct (Btimers tm Hin); split; auto; eapply creator_ok_weaken; [ | | | eauto]; auto; fail).
  all: try (intros th0 r0 Hin Hr; destruct (Bsreason th0 r0 Hin Hr); split; auto; eapply reason_ok_weaken; [ | | | eauto]; auto; fail).
  all: try (intros n0 r0 Hin; destruct (Bres n0 r0 Hin); split; auto; eapply res_ok_weaken; [ | | | eauto]; auto; fail).
  (* stop request *)
  all: try (intros th0 Hin Hb Hg; apply tok_get_set in Hg; destruct Hg as [Hg|[_ [E2 _]]]; [eapply Bnoend; eauto | discriminate]; fail).
  all: try (intros n0 r0 Hg; apply tok_get_set in Hg; destruct Hg as [Hg|[E1 [E2 Hg]]]; [auto | subst; simpl; split; [lia | split; [rewrite Hnth; auto | intros c' l' Hin; destruct (Bcidx _ _ _ Hin) as [|[? [X ?]]]; [auto | discriminate X]]]]; fail).
  (* accepted start *)
  all: try (change (rev (seq 2 (stopPtr s)) ++ [1]) with (rev (seq 1 (S (stopPtr s)))); rewrite seq_rev_S, Bids; reflexivity).
  all: try (intros n0 c0 l0 [E|Hin]; [inversion E; subst; right; auto | destruct (Bcidx _ _ _ Hin) as [|[? [X ?]]]; [left; auto | discriminate X]]; fail).
  all: try (unfold cur_call; simpl; rewrite Ec; simpl; eexists; split; [reflexivity | ];
            first [ left; reflexivity | rewrite ?Htoks; destruct Bcur as [l' [E1 E2]]; inversion E1; subst; exact E2 ]; fail).
  all: try (intros _ l0 Hl; destruct (Blimvar ltac:(discriminate) l0 Hl) as [c0 Hc]; exists c0; right; auto; fail).
  all: try (intros th0 Hin; destruct (Bsrch th0 Hin) as [c0 ?]; exists c0; right; auto; fail).
  all: try (intros n0 r0 Hg; eapply reason_ok_weaken; [ | | | apply Btok; eauto]; [lia | intros; right; auto | intros c0 l0 [E|Hin]; [inversion E; subst; apply tok_get_lt in Hg; lia | auto]]; fail).
  all: try (intros tm Hin; destruct (Btimers tm Hin); split; auto; eapply creator_ok_weaken; [ | | | eauto]; [lia | intros; right; auto | intros c0 l0 [E|Hin']; [inversion E; subst; lia | auto]]; fail).
  all: try (intros th0 r0 Hin Hr; destruct (Bsreason th0 r0 Hin Hr); split; auto; eapply reason_ok_weaken; [ | | | eauto]; [lia | intros; right; auto | intros c0 l0 [E|Hin']; [inversion E; subst; destruct (Hsid th0 Hin); lia | auto]]; fail).
  all: try (intros n0 r0 Hin; destruct (Bres n0 r0 Hin); split; auto; eapply res_ok_weaken; [ | | | eauto]; [lia | intros; right; auto | intros c0 l0 [E|Hin']; [inversion E; subst; lia | auto]]; fail).
  (* token allocation and go statement: no search goroutine is live *)
  all: try (assert (Hnil : srch s = []) by (apply Hexcl; reflexivity); rewrite ?Hnil in * ).
  all: rewrite ?Htoks.
  all: try exact Bids.
  all: try (intros _ l0 Hl; rewrite Hlim in Hl; inversion Hl; subst; destruct Bcur as [l' [E1 E2]]; inversion E1; subst; eauto; fail).
  all: try (intros n0 r0 Hg; apply tok_get_app_none in Hg; auto; fail).
  all: try (intros tm Hin; destruct (Btimers tm Hin); split; [lia | auto]; fail).
  all: try (intros th0 Hin; contradiction).
  all: try (intros n0 r0 Hin; destruct (Bres n0 r0 Hin); split; [auto | lia]; fail).
  all: try (simpl in *; replace (S (stopPtr s) - 1) with (stopPtr s - 0) by lia; exact Bresids).
  all: try (intros; lia).
  all: try (intros _; split; [rewrite <- Htoks; apply tok_get_fresh | intros tm Hin; destruct (Btimers tm Hin); lia]; fail).
  all: try (intros th0 [E|[]]; subst; simpl; auto; try discriminate;
            try (destruct Bcur as [l' [E1 E2]]; inversion E1; subst; eauto; fail);
            try (intros _; destruct (Bfresh eq_refl) as [X _]; rewrite X; discriminate); fail).
  all: try (intros th0 r0 [E|[]]; subst; simpl; discriminate).
  all: try exact Bresids.
  (* ponderhit *)
  all: try (intros _ l0 Hl; apply Blimvar; [discriminate | congruence]; fail).
  all: try (eexists; split; eauto; fail).
  intros tm [E|Hin]; [subst; simpl | auto].
  split; [lia|]. split; [lia|]. split; [exact Hnth|]. split.
  - intros c' l' Hin. destruct (Bcidx _ _ _ Hin) as [|[? [X ?]]]; [auto | discriminate X].
  - destruct Bph as [l0 [Hl Hp]]. destruct (Blimvar ltac:(discriminate) l0 Hl) as [c0 Hc]. eauto.
Qed.

Lemma invB_step : forall s t s', InvA s -> InvB s -> step s t = Some s' -> InvB s'.
Proof.
  intros s t s' IA I H. destruct t.
  - eapply invB_ctl; eauto.
  - eapply invB_search; eauto.
  - eapply invB_timer; eauto.
  - unfold step in H. rewrite (A_pan _ IA) in H. inv_some. apply invB_tick; auto.
Qed.

Definition Inv (s : state) : Prop := InvA s /\ InvB s.

Lemma inv_step : forall s t s', Inv s -> step s t = Some s' -> Inv s'.
Proof. intros s t s' [IA IB] H. split; [eapply invA_step | eapply invB_step]; eauto. Qed.

Lemma inv_sched : forall sched s, Inv s -> Inv (run_sched s sched).
Proof.
  induction sched; simpl; intros; auto. apply IHsched.
  destruct (step s a) eqn:E; auto. eapply inv_step; eauto.
Qed.

Theorem inv_reachable : forall s, reachable s -> Inv s.
Proof.
  intros s [s0 [[a [b [c [cs E]]]] [sched R]]]. subst. apply inv_sched. split; [apply invA_init | apply invB_init].
Qed.


(** * start_while_running_rejected *)

(* the state components a rejected start must not touch *)
Definition same_search_state (s s' : state) : Prop :=
  curPos s' = curPos s /\ limitsVar s' = limitsVar s /\ stopPtr s' = stopPtr s /\ toks s' = toks s /\
  srch s' = srch s /\ timers s' = timers s /\ ntimers s' = ntimers s /\ starts s' = starts s /\
  runFree s' = runFree s /\ initFree s' = initFree s /\ timeLimit s' = timeLimit s /\ extraTime s' = extraTime s /\
  results s' = results s.

Lemma ctl_dispatch_start : forall s l, panicked s = false -> cpcv s = CIdle -> cur_call s = Some (CStart l) ->
  step s TCtl = Some (set_cpcv CStTry s).
Proof. intros s l Hp Hpc Hc. unfold step, cstep. rewrite Hp, Hc, Hpc. reflexivity. Qed.
Lemma ctl_try_rejected : forall s l, panicked s = false -> cpcv s = CStTry -> cur_call s = Some (CStart l) -> runFree s = false ->
  step s TCtl = Some (set_cpcv (CRet (Some EStartRejected)) s).
Proof. intros s l Hp Hpc Hc Hr. unfold step, cstep. rewrite Hp, Hc, Hpc, Hr. reflexivity. Qed.
Lemma ctl_return : forall s r c, panicked s = false -> cpcv s = CRet r -> cur_call s = Some c ->
  step s TCtl = Some (set_cpcv CIdle (set_cidx (S (cidx s)) (set_done (c :: done s) (set_calls (tl (calls s)) (emit_opt r s))))).
Proof. intros s r c Hp Hpc Hc. unfold step, cstep. rewrite Hp, Hc, Hpc. reflexivity. Qed.

Theorem start_while_running_rejected : forall s l,
  panicked s = false -> cpcv s = CIdle -> cur_call s = Some (CStart l) -> runFree s = false ->
  let s3 := run_sched s [TCtl; TCtl; TCtl] in
  same_search_state s s3 /\ cpcv s3 = CIdle /\ calls s3 = tl (calls s) /\ cidx s3 = S (cidx s) /\
  trace s3 = EStartRejected :: trace s.
Proof.
  intros s l Hp Hpc Hc Hr. cbv zeta. unfold run_sched.
  rewrite (ctl_dispatch_start s l Hp Hpc Hc).
  rewrite (ctl_try_rejected (set_cpcv CStTry s) l Hp eq_refl Hc Hr).
  rewrite (ctl_return (set_cpcv (CRet (Some EStartRejected)) (set_cpcv CStTry s)) (Some EStartRejected) (CStart l) Hp eq_refl Hc).
  unfold same_search_state. cbn. repeat split; reflexivity.
Qed.

(* the decision itself, for an arbitrary interleaving: whenever the TryAcquire of a StartSearch is executed
   while isRunning is held, the call is rejected in that step, nothing of the running search changes, no
   goroutine is created, and the remaining controller step (return) is never blocked *)
Theorem start_rejected_step : forall s l,
  panicked s = false -> cpcv s = CStTry -> cur_call s = Some (CStart l) -> runFree s = false ->
  exists s', step s TCtl = Some s' /\ cpcv s' = CRet (Some EStartRejected) /\ same_search_state s s' /\
             trace s' = trace s /\ calls s' = calls s.
Proof.
  intros s l Hp Hpc Hc Hr. unfold step, cstep. rewrite Hp, Hc, Hpc, Hr. eexists; split; [reflexivity|].
  unfold same_search_state; simpl; repeat split; auto.
Qed.

(* the controller steps of a rejected StartSearch (dispatch, TryAcquire, return) are enabled in every state *)
Theorem start_rejected_never_blocks : forall s,
  panicked s = false -> cur_call s <> None ->
  (cpcv s = CIdle \/ (cpcv s = CStTry /\ exists l, cur_call s = Some (CStart l)) \/ exists r, cpcv s = CRet r) ->
  step s TCtl <> None.
Proof.
  intros s Hp Hc H. unfold step, cstep. rewrite Hp. destruct (cur_call s) as [c|]; try congruence.
  destruct H as [H|[[H [l Hl]]|[r H]]]; rewrite H; try discriminate.
  inversion Hl; subst. destruct (runFree s); discriminate.
Qed.

Example start_while_running_rejected_nonvacuous :
  let s := run_sched (init true false false [CStart (mkLimits true false false 0 false false); CStart (mkLimits false false false 0 false false)])
                     [TCtl; TCtl; TCtl; TCtl; TCtl; TCtl; TCtl; TSearch 1 Go; TSearch 1 Go; TSearch 1 Go; TSearch 1 Go; TSearch 1 Go; TSearch 1 Go; TSearch 1 Go;
                      TSearch 1 Go; TSearch 1 Go; TSearch 1 Go; TSearch 1 Go; TCtl; TCtl; TCtl] in
  (panicked s, cpcv s, cur_call s, runFree s, map sid (srch s)) =
  (false, CIdle, Some (CStart (mkLimits false false false 0 false false)), false, [1]).
Proof. vm_compute. reflexivity. Qed.

(** * one_result_per_start, result_belongs_to_start *)

Definition start_pending (p : cpc) : bool :=     (* accepted, goroutine not yet created *)
  match p with CStAcqInit | CStPos | CStLim | CStTok | CStGo => true | _ => false end.
(* accepted start n has finished: its goroutine has been created and has ended *)
Definition finished (s : state) (n : nat) : Prop :=
  In n (start_ids (starts s)) /\ ~ In n (map sid (srch s)) /\ ~ (n = nacc s /\ start_pending (cpcv s) = true).

Lemma NoDup_rev_seq : forall k, NoDup (rev (seq 1 k)).
Proof. intros. apply NoDup_rev. apply seq_NoDup. Qed.
Lemma in_rev_seq : forall k n, In n (rev (seq 1 k)) <-> 1 <= n <= k.
Proof. intros. rewrite <- in_rev. rewrite in_seq. lia. Qed.

Lemma ndone_le_nacc : forall s, Inv s -> ndone s <= nacc s.
Proof. intros s [IA IB]. unfold ndone, nacc. destruct (cpcv s), (pending s); lia. Qed.

Theorem one_result_per_start : forall s, reachable s ->
  length (results s) <= length (starts s) /\
  NoDup (map fst (results s)) /\
  (forall n, In n (map fst (results s)) -> In n (start_ids (starts s))) /\
  (forall n, finished s n -> count_occ Nat.eq_dec (map fst (results s)) n = 1).
Proof.
  intros s R. pose proof (inv_reachable s R) as I. pose proof (ndone_le_nacc s I) as Hle. destruct I as [IA IB].
  pose proof (B_resids s IB) as Hr. pose proof (B_ids s IB) as Hi.
  repeat split.
  - rewrite <- (map_length fst (results s)), Hr. unfold start_ids in Hi.
    rewrite <- (map_length (fun x => fst (fst x)) (starts s)), Hi. rewrite !rev_length, !seq_length. auto.
  - rewrite Hr. apply NoDup_rev_seq.
  - intros n Hn. rewrite Hr in Hn. rewrite Hi. apply in_rev_seq in Hn. apply in_rev_seq. lia.
  - intros n [F1 [F2 F3]]. apply NoDup_count_occ'. { rewrite Hr. apply NoDup_rev_seq. }
    rewrite Hr. apply in_rev_seq. rewrite Hi in F1. apply in_rev_seq in F1.
    unfold ndone, pending, nacc in *.
    pose proof (A_one s IA) as H1. pose proof (A_sid s IA) as Hsid. pose proof (A_excl s IA) as Hex.
    destruct (srch s) as [|th [|th2 rest]] eqn:Es; simpl in *; try lia.
    + destruct (cpcv s); simpl in *; try lia; try (assert (n <> S (stopPtr s)) by (intro; apply F3; auto); lia);
        try (assert (n <> stopPtr s) by (intro; apply F3; auto); lia).
    + destruct (Hsid th (or_introl eq_refl)) as [E _].
      assert (holds_run (cpcv s) = false). { destruct (holds_run (cpcv s)); auto. specialize (Hex eq_refl). discriminate. }
      assert (n <> stopPtr s) by (intro; apply F2; left; lia).
      destruct (cpcv s); simpl in *; try discriminate; destruct (sent (spcv th)); simpl; lia.
Qed.

Theorem result_belongs_to_start : forall s n r, reachable s -> In (n, r) (results s) ->
  exists c l, In (n, c, l) (starts s).
Proof.
  intros s n r R Hin. destruct (one_result_per_start s R) as [_ [_ [H _]]].
  assert (In n (map fst (results s))). { apply in_map_iff. exists (n, r). auto. }
  apply H in H0. unfold start_ids in H0. apply in_map_iff in H0. destruct H0 as [[[n' c] l] [E Hx]].
  simpl in E. subst. eauto.
Qed.

(* schedule fragment that lets search goroutine n return from iterativeDeepening as soon as it is in the search
   loop, and run on (disabled picks are skipped by run_sched) *)
Definition drive (n k : nat) : list tid := flat_map (fun _ => [TSearch n Finish; TSearch n Go]) (seq 0 k).

Example one_result_nonvacuous :
  let s := run_sched (init true false false [CStart (mkLimits false false false 0 false false); CWait; CStart (mkLimits false false false 0 false false); CWait])
             (repeat TCtl 12 ++ drive 1 40 ++ repeat TCtl 20 ++ drive 2 40 ++ repeat TCtl 12) in
  (results s, start_ids (starts s), map sid (srch s), cpcv s, calls s) = ([(2, RSelf); (1, RSelf)], [2; 1], [], CIdle, []).
Proof. vm_compute. reflexivity. Qed.

(** * no_foreign_stop *)

(* uniqueness of the start entry of an id *)
Lemma start_unique : forall s n c l c' l', Inv s -> In (n, c, l) (starts s) -> In (n, c', l') (starts s) -> c = c' /\ l = l'.
Proof.
  intros s n c l c' l' [IA IB] H1 H2. pose proof (B_ids s IB) as Hi. unfold start_ids in Hi.
  assert (ND : NoDup (map (fun x => fst (fst x)) (starts s))). { rewrite Hi. apply NoDup_rev_seq. }
  clear Hi. induction (starts s) as [|x st IH]; simpl in *; try contradiction.
  inversion ND; subst. destruct H1 as [H1|H1], H2 as [H2|H2]; subst.
  - inversion H2; auto.
  - exfalso. apply H3. apply in_map_iff. exists (n, c', l'). auto.
  - exfalso. apply H3. apply in_map_iff. exists (n, c, l). auto.
  - auto.
Qed.

(* Why search n ended ([r] is recorded with its result):
   RSelf  : iterativeDeepening returned by itself (only for searches that are neither infinite nor ponder);
   RNodes : its own node limit;
   RTimer k tok cr : timer k - then the timer holds token n (= was started for search n): by run n itself,
            or by a PonderHit call issued after the StartSearch call of n;
   RStop c : StopSearch / NewGame call number c, issued after the StartSearch call of n;
   never REnd, never anything belonging to another search. *)
Theorem no_foreign_stop : forall s n r, reachable s -> In (n, r) (results s) ->
  exists cs l, In (n, cs, l) (starts s) /\
  match r with
  | RSelf => lPonder l || lInfinite l = false
  | RNodes => lNodes l = true
  | RTimer k tok (ByRun m) => tok = n /\ m = n /\ lTimeControl l && negb (lPonder l) = true
  | RTimer k tok (ByPonderHit c) => tok = n /\ cs < c <= cidx s /\ nth_error (allcalls s) c = Some CPonderHit /\ lPonder l = true
  | RStop c => cs < c <= cidx s /\ (nth_error (allcalls s) c = Some CStop \/ nth_error (allcalls s) c = Some CNewGame)
  | REnd => False
  end.
Proof.
  intros s n r R Hin. pose proof (inv_reachable s R) as I.
  destruct (result_belongs_to_start s n r R Hin) as [cs [l Hst]]. exists cs, l. split; auto.
  assert (U : forall c' l', In (n, c', l') (starts s) -> cs = c' /\ l = l') by (intros; eapply start_unique; eauto).
  destruct I as [IA IB]. destruct (B_res s IB n r Hin) as [Hok _].
  destruct r; simpl in Hok.
  - destruct Hok as [c' [l' [H1 H2]]]. destruct (U _ _ H1); subst; auto.
  - destruct Hok as [c' [l' [H1 H2]]]. destruct (U _ _ H1); subst; auto.
  - destruct Hok as [E Hc]. destruct cr; simpl in Hc.
    + destruct Hc as [E2 [c' [l' [H1 H2]]]]. destruct (U _ _ H1); subst; auto.
    + destruct Hc as [H1 [H2 [H3 [c' [l' [H4 H5]]]]]]. destruct (U _ _ H4); subst. specialize (H3 _ _ Hst). repeat split; auto.
  - destruct Hok as [H1 [H2 H3]]. specialize (H3 _ _ Hst). repeat split; auto.
  - contradiction.
Qed.

(* direct corollaries in the wording of the property *)
Corollary no_stale_timer : forall s n k tok cr, reachable s -> In (n, RTimer k tok cr) (results s) -> tok = n.
Proof. intros. destruct (no_foreign_stop _ _ _ H H0) as [cs [l [_ X]]]. destruct cr; tauto. Qed.
Corollary no_stale_stop : forall s n c cs l, reachable s -> In (n, RStop c) (results s) -> In (n, cs, l) (starts s) -> cs < c.
Proof.
  intros. destruct (no_foreign_stop _ _ _ H H0) as [cs' [l' [Hst X]]].
  destruct (start_unique s n cs l cs' l' (inv_reachable s H) H1 Hst); subst. lia.
Qed.

(** * infinite_not_before_stop *)

Theorem infinite_not_before_stop_guarded : forall s n r cs l, reachable s ->
  In (n, r) (results s) -> In (n, cs, l) (starts s) -> lPonder l || lInfinite l = true ->
  lNodes l = false -> lTimeControl l && negb (lPonder l) = false ->
  (exists c, r = RStop c /\ cs < c <= cidx s /\ (nth_error (allcalls s) c = Some CStop \/ nth_error (allcalls s) c = Some CNewGame)) \/
  (exists k c, r = RTimer k n (ByPonderHit c) /\ cs < c <= cidx s /\ nth_error (allcalls s) c = Some CPonderHit).
Proof.
  intros s n r cs l R Hin Hst Hw Hn Ht. destruct (no_foreign_stop _ _ _ R Hin) as [cs' [l' [Hst' X]]].
  destruct (start_unique s n cs l cs' l' (inv_reachable s R) Hst Hst'); subst.
  destruct r; try congruence; try contradiction.
  - destruct cr.
    + destruct X as [_ [_ X]]. congruence.
    + destruct X as [E [X1 [X2 X3]]]. subst. right. eauto.
  - left. eauto.
Qed.

(* without the guard: additionally the two ways found on the real engine *)
Theorem infinite_not_before_stop_general : forall s n r cs l, reachable s ->
  In (n, r) (results s) -> In (n, cs, l) (starts s) -> lPonder l || lInfinite l = true ->
  (exists c, r = RStop c /\ cs < c) \/ (exists k c, r = RTimer k n (ByPonderHit c) /\ cs < c) \/
  (r = RNodes /\ lNodes l = true) \/ (exists k, r = RTimer k n (ByRun n) /\ lTimeControl l && negb (lPonder l) = true).
Proof.
  intros s n r cs l R Hin Hst Hw. destruct (no_foreign_stop _ _ _ R Hin) as [cs' [l' [Hst' X]]].
  destruct (start_unique s n cs l cs' l' (inv_reachable s R) Hst Hst'); subst.
  destruct r; try congruence; try contradiction.
  - right. right. left. auto.
  - destruct cr.
    + destruct X as [E1 [E2 X]]. subst. right. right. right. eauto.
    + destruct X as [E [X1 _]]. subst. right. left. exists k, c. split; auto. lia.
  - left. exists c. split; auto. lia.
Qed.

(* REFUTED as stated in the property: an infinite search answers without any stop request.
   Witness 1: `go infinite movetime ..` (run starts a timer, search.go:299); witness 2: `go infinite nodes ..`
   (stopConditions stores true into the stop token, search.go:603); witness 3: `go ponder nodes ..`.
   The call lists contain no CStop / CNewGame / CPonderHit at all. *)
Definition sched_inf_movetime : list tid :=
  repeat TCtl 12 ++ repeat (TSearch 1 Go) 16 ++ repeat (TTimer 0) 6 ++ repeat (TSearch 1 Go) 30.
Definition sched_inf_nodes : list tid :=
  repeat TCtl 12 ++ repeat (TSearch 1 Go) 14 ++ [TSearch 1 Nodes] ++ repeat (TSearch 1 Go) 30.

Theorem infinite_not_before_stop_refuted :
  (exists l sched, lInfinite l = true /\
     results (run_sched (init true false false [CStart l]) sched) = [(1, RTimer 0 1 (ByRun 1))]) /\
  (exists l sched, lInfinite l = true /\
     results (run_sched (init true false false [CStart l]) sched) = [(1, RNodes)]) /\
  (exists l sched, lPonder l = true /\
     results (run_sched (init true false false [CStart l]) sched) = [(1, RNodes)]).
Proof.
  split; [|split].
  - exists (mkLimits true false true 0 false false), sched_inf_movetime. split; [reflexivity|]. vm_compute. reflexivity.
  - exists (mkLimits true false false 0 true false), sched_inf_nodes. split; [reflexivity|]. vm_compute. reflexivity.
  - exists (mkLimits false true false 0 true false), sched_inf_nodes. split; [reflexivity|]. vm_compute. reflexivity.
Qed.

Example infinite_guarded_nonvacuous :
  let s := run_sched (init true false false [CStart (mkLimits true false false 0 false false); CStop])
             (repeat TCtl 12 ++ repeat (TSearch 1 Go) 15 ++ repeat TCtl 12 ++ repeat (TSearch 1 Go) 30 ++ repeat TCtl 12) in
  (results s, starts s, calls s) = ([(1, RStop 1)], [(1, 0, mkLimits true false false 0 false false)], []).
Proof. vm_compute. reflexivity. Qed.


(** * Assumptions *)
Print Assumptions inv_reachable.
Print Assumptions start_while_running_rejected.
Print Assumptions start_rejected_step.
Print Assumptions one_result_per_start.
Print Assumptions result_belongs_to_start.
Print Assumptions no_foreign_stop.
Print Assumptions infinite_not_before_stop_guarded.
Print Assumptions infinite_not_before_stop_general.
Print Assumptions infinite_not_before_stop_refuted.
