(** * AttacksCheckProofs: GivesCheck agrees with "the opponent is in check after the move"
    (C09, part 2).

    Structure: [gives_check_eval] evaluates the model on a view of a specification
    position to   direct || revealed   (all table lookups succeed); [check_core] shows on
    the rules level that   direct || revealed   is the attack test on the board after the
    move, for every way the board changes in a non-castling move; castling is treated
    separately. *)
From Coq Require Import NArith ZArith List Bool Lia ZifyN ZifyBool Btauto.
From FG Require Import Word64 Geom Tables TablesCorrect ShiftCorrect Rules FenSpec Oracle BitView
  AttacksImpl AttacksLemmas AttacksProofs AttacksMoves.
From FG.gen Require Import Tables_gen.
Import ListNotations.
Open Scope N_scope.

(** ** bit operations of the model *)
Lemma sq_bb_exact s : s < 64 -> sq_bb s = Some (N.shiftl 1 s).
Proof. intros H. unfold sq_bb. now apply sqbb_exact. Qed.

Lemma has_exact a s : s < 64 -> has a s = Some (N.testbit a s).
Proof.
  intros H. unfold has. rewrite sq_bb_exact by exact H. cbn [bind]. f_equal.
  apply bool_eq_iff. change (negb (N.land a (N.shiftl 1 s) =? 0)) with (meets a (N.shiftl 1 s)).
  rewrite meets_iff. split.
  - intros [t [H1 H2]]. rewrite shiftl1_testbit in H2. apply N.eqb_eq in H2. now subst.
  - intros H1. exists s. split; [exact H1|]. rewrite shiftl1_testbit. apply N.eqb_refl.
Qed.

Lemma pop_exact b s : s < 64 -> pop_square b s = Some (N.ldiff b (N.shiftl 1 s)).
Proof. intros H. unfold pop_square. now rewrite sq_bb_exact. Qed.
Lemma push_exact b s : s < 64 -> push_square b s = Some (N.lor b (N.shiftl 1 s)).
Proof. intros H. unfold push_square. now rewrite sq_bb_exact. Qed.

Lemma occ_of_put b s v : length b = 64%nat -> s < 64 ->
  occ_of (put b s v) = if v =? 0 then N.ldiff (occ_of b) (N.shiftl 1 s) else N.lor (occ_of b) (N.shiftl 1 s).
Proof.
  intros Hl Hs. apply N.bits_inj. intros u.
  rewrite occ_of_testbit, at_put by assumption.
  destruct (N.eqb_spec v 0) as [->|Hv].
  - rewrite N.ldiff_spec, occ_of_testbit, shiftl1_testbit.
    destruct (u =? s); cbn [negb]; [now rewrite !andb_false_r|now rewrite andb_true_r].
  - rewrite N.lor_spec, occ_of_testbit, shiftl1_testbit.
    destruct (N.eqb_spec u s) as [->|Hus].
    + apply N.eqb_neq in Hv. rewrite Hv. replace (s <? 64) with true by (symmetry; now apply N.ltb_lt).
      now rewrite orb_true_r.
    + now rewrite orb_false_r.
Qed.

(** ** sliders *)
Definition slider (X : N) : Prop := X = BISHOP \/ X = ROOK \/ X = QUEEN.
Definition dirs_of (X : N) : list dir :=
  if X =? BISHOP then bishop_dirs else if X =? ROOK then rook_dirs else bishop_dirs ++ rook_dirs.

Lemma slider_clause b s c a X : slider X -> s < 64 -> a < 64 ->
  type_clause b s c a X = slide_in (occ_of b) (dirs_of X) s a.
Proof.
  intros [-> | [-> | ->]] Hs Ha.
  - now apply type_clause_bishop.
  - now apply type_clause_rook.
  - now apply type_clause_queen.
Qed.

Lemma slider_range X : slider X -> 1 <= X < 8.
Proof. unfold slider, BISHOP, ROOK, QUEEN. lia. Qed.

Lemma nonslider_clause b b' s c a ty : ty = PAWN \/ ty = KNIGHT \/ ty = KING ->
  type_clause b s c a ty = type_clause b' s c a ty.
Proof. intros [-> | [-> | ->]]; reflexivity. Qed.

Lemma type_cases ty : 1 <= ty <= 6 -> (ty = PAWN \/ ty = KNIGHT \/ ty = KING) \/ slider ty.
Proof. unfold slider, PAWN, KNIGHT, KING, BISHOP, ROOK, QUEEN. lia. Qed.

(* revealed checks: GivesCheck 701-708 on the old piece words *)
Definition revealed (b : list N) (us K occ' : N) : bool :=
  meets (slide bishop_dirs K occ') (piece_word b us BISHOP)
  || meets (slide rook_dirs K occ') (piece_word b us ROOK)
  || meets (slide (bishop_dirs ++ rook_dirs) K occ') (piece_word b us QUEEN).

Lemma meets_slide_word b us K occ' X : X <> 0 ->
  (meets (slide (dirs_of X) K occ') (piece_word b us X) = true <->
   exists a, a < 64 /\ at_ b a = mk_piece us X /\ slide_in occ' (dirs_of X) K a = true).
Proof.
  intros HX. rewrite meets_iff. split.
  - intros [a [H1 H2]]. rewrite slide_testbit in H1. rewrite piece_word_testbit in H2 by exact HX.
    apply andb_true_iff in H2 as [H2 H3]. apply N.ltb_lt in H2. apply N.eqb_eq in H3. now exists a.
  - intros [a [H1 [H2 H3]]]. exists a. rewrite slide_testbit, piece_word_testbit by exact HX.
    split; [exact H3|]. rewrite H2, N.eqb_refl. replace (a <? 64) with true by (symmetry; now apply N.ltb_lt).
    reflexivity.
Qed.

Lemma revealed_iff b us K occ' :
  revealed b us K occ' = true <->
  exists a X, slider X /\ a < 64 /\ at_ b a = mk_piece us X /\ slide_in occ' (dirs_of X) K a = true.
Proof.
  unfold revealed. rewrite !orb_true_iff.
  change bishop_dirs with (dirs_of BISHOP) at 1. change rook_dirs with (dirs_of ROOK) at 1.
  change (bishop_dirs ++ rook_dirs) with (dirs_of QUEEN).
  rewrite !meets_slide_word by discriminate. split.
  - intros [[[a H]|[a H]]|[a H]]; exists a; [exists BISHOP|exists ROOK|exists QUEEN];
      (split; [unfold slider; tauto|exact H]).
  - intros [a [X [[-> | [-> | ->]] H]]]; [left; left|left; right|right]; now exists a.
Qed.

(* direct checks: GivesCheck 684-695 *)
Definition direct_b (ty t occ' K us : N) : bool :=
  if ty =? PAWN then N.testbit (bb_of (pawn_attack_targets us t)) K
  else if ty =? KING then false
  else if ty =? KNIGHT then N.testbit (bb_of (knight_targets t)) K
  else N.testbit (slide (dirs_of ty) t occ') K.

(** ** the rules-level core: direct || revealed is the attack test after the move *)
Section Core.
  Variables (b b' : list N) (us K : N).
  Hypothesis Hus : us < 2.
  Hypothesis HK : K < 64.
  Hypothesis Hno : forall a, a < 64 -> att_from b K us a = false.

  Variables (t ty occ' : N) (Ch : list N).
  Hypothesis Hocc : occ' = occ_of b'.
  Hypothesis Hsame : forall a, a < 64 -> ~ In a Ch -> at_ b' a = at_ b a.
  Hypothesis Ht : t < 64.
  Hypothesis Hty : 1 <= ty <= 6.
  Hypothesis Hat : at_ b' t = mk_piece us ty.
  Hypothesis HchE : forall a, In a Ch -> a <> t -> at_ b' a = 0.
  Hypothesis Hold : forall a X, In a Ch -> slider X -> at_ b a = mk_piece us X ->
    slide_in occ' (dirs_of X) K a = true -> slide_in (occ_of b) (dirs_of X) K a = true.
  Hypothesis Hking : ty = KING -> existsb (N.eqb K) (king_targets t) = false.

  Lemma direct_att : direct_b ty t occ' K us = att_from b' K us t.
  Proof.
    rewrite (att_from_piece b' K us t ty Hat) by lia. unfold direct_b.
    destruct (type_cases ty Hty) as [[-> | [-> | ->]] | Hs].
    - change (PAWN =? PAWN) with true. cbv iota. now rewrite bb_of_testbit.
    - change (KNIGHT =? PAWN) with false. change (KNIGHT =? KING) with false.
      change (KNIGHT =? KNIGHT) with true. cbv iota. now rewrite bb_of_testbit.
    - change (KING =? PAWN) with false. change (KING =? KING) with true. cbv iota.
      symmetry. now apply Hking.
    - rewrite slider_clause by assumption. rewrite slide_testbit. subst occ'.
      replace (ty =? PAWN) with false by (destruct Hs as [-> | [-> | ->]]; reflexivity).
      replace (ty =? KING) with false by (destruct Hs as [-> | [-> | ->]]; reflexivity).
      replace (ty =? KNIGHT) with false by (destruct Hs as [-> | [-> | ->]]; reflexivity).
      apply slide_in_sym; try assumption.
      destruct Hs as [-> | [-> | ->]]; [apply bishop_dirs_closed|apply rook_dirs_closed|apply queen_dirs_closed].
  Qed.

  Theorem check_core : direct_b ty t occ' K us || revealed b us K occ' = attacked b' K us.
  Proof.
    apply bool_eq_iff. rewrite orb_true_iff, direct_att, revealed_iff, attacked_ex by assumption. split.
    - intros [H|[a [X [HX [Ha [Hpa Hsl]]]]]].
      + now exists t.
      + destruct (in_dec N.eq_dec a Ch) as [Hin|Hin].
        * exfalso. pose proof (Hold a X Hin HX Hpa Hsl) as Hb.
          pose proof (Hno a Ha) as Hn. rewrite (att_from_piece b K us a X Hpa) in Hn by now apply slider_range.
          rewrite slider_clause in Hn by assumption. congruence.
        * exists a. split; [exact Ha|].
          assert (Hpa' : at_ b' a = mk_piece us X) by (rewrite Hsame; assumption).
          rewrite (att_from_piece b' K us a X Hpa') by now apply slider_range.
          rewrite slider_clause by assumption. now rewrite <- Hocc.
    - intros [a [Ha Hatt]].
      destruct (N.eq_dec a t) as [->|Hat']; [now left|right].
      destruct (att_from_inv _ _ _ _ Hatt) as [ty' [Hty' [Hpa Hcl]]].
      destruct (in_dec N.eq_dec a Ch) as [Hin|Hin].
      + exfalso. rewrite (HchE a Hin Hat') in Hpa. unfold mk_piece in Hpa. lia.
      + rewrite (Hsame a Ha Hin) in Hpa.
        destruct (type_cases ty' Hty') as [Hns|Hs].
        * exfalso. pose proof (Hno a Ha) as Hn. rewrite (att_from_piece b K us a ty' Hpa) in Hn by lia.
          rewrite (nonslider_clause b b' K us a ty' Hns) in Hn. congruence.
        * exists a, ty'. repeat split; try assumption.
          rewrite slider_clause in Hcl by assumption. now rewrite Hocc.
  Qed.
End Core.

(** ** evaluating the model of GivesCheck on the view of a specification position *)
Definition bit (s : N) : N := N.shiftl 1 s.

Definition gc_pt (p : pos) (m : mv) : N :=
  if mtype m =? PROMOTION then mprom m
  else if mtype m =? CASTLING then ROOK else type_of (at_ (brd p) (mfrom m)).
Definition gc_to (m : mv) : N := if mtype m =? CASTLING then castle_rook_to (mto m) else mto m.
Definition ep_victim (us t : N) : N := if us =? WHITE then t - 8 else t + 8.
Definition gc_occ (p : pos) (m : mv) : N :=
  let o := N.lor (N.ldiff (occ_of (brd p)) (bit (mfrom m))) (bit (gc_to m)) in
  if mtype m =? ENPASSANT then N.ldiff o (bit (ep_victim (stm p) (mto m))) else o.

Lemma land7 x : N.land x 7 = type_of x.
Proof. unfold type_of. change 7 with (N.ones 3). now rewrite N.land_ones. Qed.

Lemma castle_rook_to_lt t : t < 64 -> castle_rook_to t < 64.
Proof.
  intros H. unfold castle_rook_to.
  destruct (t =? 6); [lia|]. destruct (t =? 2); [lia|]. destruct (t =? 62); [lia|]. destruct (t =? 58); lia.
Qed.

Lemma king_square_view p c : c < 2 -> king_square (view_of_spec p) c = Some (king_sq (brd p) c).
Proof.
  intros H. unfold king_square. cbn [vking view_of_spec fst snd].
  assert (c = 0 \/ c = 1) as [-> | ->] by lia; reflexivity.
Qed.

Lemma flip_lt c : c < 2 -> flip c < 2. Proof. unfold flip. lia. Qed.

Lemma revealed_eval p K occ' : stm p < 2 -> K < 64 ->
  (do ba <- get_attacks_bb BISHOP K occ'; do bw <- pbb (view_of_spec p) (stm p) BISHOP;
   if meets ba bw then Some true else
   do ra <- get_attacks_bb ROOK K occ'; do rw <- pbb (view_of_spec p) (stm p) ROOK;
   if meets ra rw then Some true else
   do qa <- get_attacks_bb QUEEN K occ'; do qw <- pbb (view_of_spec p) (stm p) QUEEN;
   if meets qa qw then Some true else Some false) = Some (revealed (brd p) (stm p) K occ').
Proof.
  intros Hs HK. rewrite get_bishop_exact, get_rook_exact, get_queen_exact by exact HK.
  rewrite !pbb_view by (try exact Hs; unfold BISHOP, ROOK, QUEEN; lia). cbn [bind].
  unfold revealed.
  destruct (meets (slide bishop_dirs K occ') _); [reflexivity|].
  destruct (meets (slide rook_dirs K occ') _); [reflexivity|].
  destruct (meets (slide (bishop_dirs ++ rook_dirs) K occ') _); reflexivity.
Qed.

Lemma direct_eval ty t occ' K us : us < 2 -> t < 64 -> K < 64 -> 1 <= ty <= 6 ->
  (if ty =? PAWN then do pa <- get_pawn_attacks us t; has pa K
   else if ty =? KING then Some false
   else do a <- get_attacks_bb ty t occ'; has a K) = Some (direct_b ty t occ' K us).
Proof.
  intros Hus Ht HK Hty. unfold direct_b.
  destruct (type_cases ty Hty) as [[-> | [-> | ->]] | [-> | [-> | ->]]].
  - change (PAWN =? PAWN) with true. cbv iota. rewrite get_pawn_attacks_exact by assumption. cbn [bind].
    now apply has_exact.
  - change (KNIGHT =? PAWN) with false. change (KNIGHT =? KING) with false. change (KNIGHT =? KNIGHT) with true.
    cbv iota. rewrite get_knight_exact by assumption. cbn [bind]. now apply has_exact.
  - reflexivity.
  - change (BISHOP =? PAWN) with false. change (BISHOP =? KING) with false. change (BISHOP =? KNIGHT) with false.
    cbv iota. rewrite get_bishop_exact by assumption. cbn [bind]. now apply has_exact.
  - change (ROOK =? PAWN) with false. change (ROOK =? KING) with false. change (ROOK =? KNIGHT) with false.
    cbv iota. rewrite get_rook_exact by assumption. cbn [bind]. now apply has_exact.
  - change (QUEEN =? PAWN) with false. change (QUEEN =? KING) with false. change (QUEEN =? KNIGHT) with false.
    cbv iota. rewrite get_queen_exact by assumption. cbn [bind]. now apply has_exact.
Qed.

Lemma gives_check_eval p m K :
  length (brd p) = 64%nat -> codes_ok (brd p) -> stm p < 2 ->
  king_sq (brd p) (flip (stm p)) = K -> K < 64 ->
  mfrom m < 64 -> mto m < 64 -> mtype m < 4 -> 3 <= mprom m <= 6 ->
  1 <= gc_pt p m <= 6 ->
  (mtype m = ENPASSANT -> 8 <= mto m < 56) ->
  gives_check_impl (view_of_spec p) (code m) =
  Some (direct_b (gc_pt p m) (gc_to m) (gc_occ p m) K (stm p) || revealed (brd p) (stm p) K (gc_occ p m)).
Proof.
  intros Hl Hco Hs HKe HK Hf Ht Hmt Hpr Hpt Hep.
  destruct (decode_code m Ht Hf Hmt Hpr) as (D1 & D2 & D3 & D4).
  unfold gives_check_impl. rewrite D1, D2, D3, D4. cbn [vstm view_of_spec].
  rewrite flipc_flip by exact Hs. rewrite king_square_view by now apply flip_lt.
  rewrite HKe. cbn [bind].
  rewrite board_at_view by assumption. cbn [bind]. rewrite land7.
  rewrite occ_all_view by exact Hco.
  fold (gc_pt p m). fold (gc_to m).
  assert (Hgt : gc_to m < 64).
  { unfold gc_to. destruct (mtype m =? CASTLING); [now apply castle_rook_to_lt|exact Ht]. }
  assert (Hepq : (if mtype m =? ENPASSANT
                  then do d <- move_direction (flip (stm p)); sq_to (gc_to m) d else Some 64)
                 = Some (if mtype m =? ENPASSANT then ep_victim (stm p) (mto m) else 64)).
  { destruct (N.eqb_spec (mtype m) ENPASSANT) as [E|E]; [|reflexivity].
    specialize (Hep E). unfold gc_to. rewrite E. change (ENPASSANT =? CASTLING) with false. cbv iota.
    unfold ep_victim. assert (stm p = 0 \/ stm p = 1) as [-> | ->] by lia.
    - change (move_direction (flip 0)) with (Some DS). cbn [bind]. rewrite sq_to_exact, step_south by exact Ht.
      replace (8 <=? mto m) with true by (symmetry; apply N.leb_le; lia). reflexivity.
    - change (move_direction (flip 1)) with (Some DN). cbn [bind]. rewrite sq_to_exact, step_north by exact Ht.
      replace (mto m <? 56) with true by (symmetry; apply N.ltb_lt; lia). reflexivity. }
  rewrite Hepq. cbn [bind].
  rewrite pop_exact by exact Hf. cbn [bind]. rewrite push_exact by exact Hgt. cbn [bind].
  assert (Hocc : (if mtype m =? ENPASSANT
                  then pop_square (N.lor (N.ldiff (occ_of (brd p)) (N.shiftl 1 (mfrom m))) (N.shiftl 1 (gc_to m)))
                         (if mtype m =? ENPASSANT then ep_victim (stm p) (mto m) else 64)
                  else Some (N.lor (N.ldiff (occ_of (brd p)) (N.shiftl 1 (mfrom m))) (N.shiftl 1 (gc_to m))))
                 = Some (gc_occ p m)).
  { unfold gc_occ, bit. destruct (N.eqb_spec (mtype m) ENPASSANT) as [E|E]; [|reflexivity].
    specialize (Hep E). rewrite pop_exact; [reflexivity|]. unfold ep_victim. destruct (stm p =? WHITE); lia. }
  rewrite Hocc. cbn [bind].
  rewrite direct_eval by assumption. cbn [bind].
  destruct (direct_b _ _ _ _ _); [reflexivity|]. cbn [orb].
  now apply revealed_eval.
Qed.

(** ** facts about legal positions *)
Definition valid_codes (b : list N) : Prop :=
  forall s, In (at_ b s) [0;1;2;3;4;5;6;9;10;11;12;13;14].

Lemma legal_pos_valid p : legal_pos p = true -> valid_codes (brd p).
Proof.
  intros H. apply legal_pos_inv in H as (_ & Hcodes & _). intros s.
  destruct (at_in_or_zero (brd p) s) as [-> | Hin]; [now left|].
  rewrite forallb_forall in Hcodes. specialize (Hcodes _ Hin).
  apply existsb_exists in Hcodes as [x [Hx E]]. apply N.eqb_eq in E. now subst x.
Qed.

Lemma valid_type b s : valid_codes b -> at_ b s <> 0 ->
  1 <= type_of (at_ b s) <= 6 /\ colour_of (at_ b s) < 2.
Proof.
  intros Hv Hnz. specialize (Hv s). unfold type_of, colour_of.
  cbn [In] in Hv. decompose [or] Hv; try contradiction;
    match goal with E : _ = at_ b s |- _ => rewrite <- E in *; clear E end;
    try (exfalso; apply Hnz; reflexivity); (split; [vm_compute; split; discriminate|reflexivity]).
Qed.

Lemma valid_codes_ok b : valid_codes b -> codes_ok b.
Proof. intros Hv s. specialize (Hv s). cbn [In] in Hv. lia. Qed.

Lemma king_unique b c : count_piece b (mk_piece c KING) = 1%nat ->
  forall s, s < 64 -> at_ b s = mk_piece c KING -> s = king_sq b c.
Proof.
  unfold count_piece, king_sq, is_piece. intros H s Hs Hat.
  assert (Hin : In s (filter (fun s => at_ b s =? mk_piece c KING) squares64)).
  { apply filter_In. split; [now apply in_squares64|now apply N.eqb_eq]. }
  destruct (filter (fun s => at_ b s =? mk_piece c KING) squares64) as [|k [|k' l]]; try discriminate.
  destruct Hin as [<-|[]]. reflexivity.
Qed.

Lemma king_sq_intro b c k : k < 64 -> at_ b k = mk_piece c KING ->
  (forall s, s < 64 -> at_ b s = mk_piece c KING -> s = k) -> king_sq b c = k.
Proof.
  intros Hk Hat Hu. unfold king_sq, is_piece.
  assert (Hin : In k (filter (fun s => at_ b s =? mk_piece c KING) squares64)).
  { apply filter_In. split; [now apply in_squares64|now apply N.eqb_eq]. }
  destruct (filter (fun s => at_ b s =? mk_piece c KING) squares64) as [|x l] eqn:E; [destruct Hin|].
  assert (Hx : In x (filter (fun s => at_ b s =? mk_piece c KING) squares64)) by (rewrite E; now left).
  apply filter_In in Hx as [Hx1 Hx2]. apply in_squares64 in Hx1. apply N.eqb_eq in Hx2. now apply Hu.
Qed.

Lemma flip_flip c : c < 2 -> flip (flip c) = c.
Proof. unfold flip. lia. Qed.

Lemma flip_neq c : c < 2 -> flip c <> c.
Proof. unfold flip. lia. Qed.

(* everything the check proofs use of a legal position *)
Record lfacts (p : pos) (K : N) : Prop := mk_lfacts {
  lf_len : length (brd p) = 64%nat;
  lf_valid : valid_codes (brd p);
  lf_stm : stm p < 2;
  lf_K : king_sq (brd p) (flip (stm p)) = K;
  lf_Klt : K < 64;
  lf_Kat : at_ (brd p) K = mk_piece (flip (stm p)) KING;
  lf_Kuniq : forall s, s < 64 -> at_ (brd p) s = mk_piece (flip (stm p)) KING -> s = K;
  lf_own_king : king_sq (brd p) (stm p) < 64 /\ at_ (brd p) (king_sq (brd p) (stm p)) = mk_piece (stm p) KING;
  lf_own_uniq : forall s, s < 64 -> at_ (brd p) s = mk_piece (stm p) KING -> s = king_sq (brd p) (stm p);
  lf_no : forall a, a < 64 -> att_from (brd p) K (stm p) a = false
}.

Lemma legal_pos_facts p : legal_pos p = true -> lfacts p (king_sq (brd p) (flip (stm p))).
Proof.
  intros H. pose proof (legal_pos_valid p H) as Hv.
  apply legal_pos_inv in H as (Hl & _ & Hkw & Hkb & Hstm & _ & Hnc & _).
  assert (Hk : forall c, c < 2 -> count_piece (brd p) (mk_piece c KING) = 1%nat).
  { intros c Hc. assert (c = 0 \/ c = 1) as [-> | ->] by lia; [exact Hkw|exact Hkb]. }
  pose proof (king_sq_spec _ _ (Hk _ (flip_lt _ Hstm))) as [K1 K2].
  pose proof (king_sq_spec _ _ (Hk _ Hstm)) as [K3 K4].
  constructor; try assumption; try reflexivity.
  - intros s Hs Ha. now apply king_unique; [apply Hk, flip_lt| |].
  - now split.
  - intros s Hs Ha. now apply king_unique; [apply Hk| |].
  - unfold in_check_b in Hnc. rewrite flip_flip in Hnc by exact Hstm.
    now apply not_attacked_all.
Qed.

(* the opponent's king stays where it is *)
Lemma king_after b b' us K Ch : us < 2 -> K < 64 ->
  at_ b K = mk_piece (flip us) KING ->
  (forall s, s < 64 -> at_ b s = mk_piece (flip us) KING -> s = K) ->
  (forall a, a < 64 -> ~ In a Ch -> at_ b' a = at_ b a) ->
  (forall a, In a Ch -> at_ b' a = 0 \/ colour_of (at_ b' a) = us) ->
  ~ In K Ch ->
  king_sq b' (flip us) = K.
Proof.
  intros Hus HK Hat Hu Hsame Hch HnK. apply king_sq_intro; [exact HK|now rewrite Hsame|].
  intros s Hs Hs'. destruct (in_dec N.eq_dec s Ch) as [Hin|Hin].
  - exfalso. destruct (Hch s Hin) as [E|E]; rewrite Hs' in E.
    + unfold mk_piece, KING in E. lia.
    + destruct (mk_piece_parts (flip us) KING) as [Hc _]; [unfold KING; lia|].
      rewrite Hc in E. now apply flip_neq in E.
  - rewrite Hsame in Hs' by assumption. now apply Hu.
Qed.

Lemma slide_in_mono occ occ' dirs s t :
  (forall u, u <> t -> N.testbit occ u = true -> N.testbit occ' u = true) ->
  slide_in occ' dirs s t = true -> slide_in occ dirs s t = true.
Proof.
  intros H. unfold slide_in. rewrite !existsb_exists. intros [d [Hd Hr]]. exists d. split; [exact Hd|].
  now apply (ray_in_mono occ occ').
Qed.

Lemma make_stm p m : stm (make p m) = flip (stm p).
Proof. reflexivity. Qed.

Lemma gives_check_unfold p m : stm p < 2 ->
  gives_check p m = attacked (brd (make p m)) (king_sq (brd (make p m)) (flip (stm p))) (stm p).
Proof.
  intros H. unfold gives_check, in_check, in_check_b. rewrite make_stm. now rewrite flip_flip.
Qed.

(* the mover's king is safe after a legal move *)
Lemma legal_king_safe p m : is_legal p m = true ->
  attacked (brd (make p m)) (king_sq (brd (make p m)) (stm p)) (flip (stm p)) = false.
Proof.
  unfold is_legal. intros H. apply andb_true_iff in H as [_ H]. now apply negb_true_iff in H.
Qed.

(** ** normal moves and promotions *)
Lemma make_brd_simple p m : mtype m = NORMAL \/ mtype m = PROMOTION ->
  brd (make p m) =
  put (put (brd p) (mfrom m) 0) (mto m)
      (if mtype m =? PROMOTION then mk_piece (stm p) (mprom m) else at_ (brd p) (mfrom m)).
Proof.
  intros H. unfold make. cbn [brd].
  replace (mtype m =? ENPASSANT) with false by (destruct H as [-> | ->]; reflexivity).
  replace (mtype m =? CASTLING) with false by (destruct H as [-> | ->]; reflexivity).
  reflexivity.
Qed.

Theorem gives_check_simple p m K : lfacts p K ->
  mfrom m < 64 -> mto m < 64 ->
  at_ (brd p) (mfrom m) <> 0 -> colour_of (at_ (brd p) (mfrom m)) = stm p ->
  (at_ (brd p) (mto m) = 0 \/
   (at_ (brd p) (mto m) <> 0 /\ colour_of (at_ (brd p) (mto m)) <> stm p /\
    att_from (brd p) (mto m) (stm p) (mfrom m) = true)) ->
  ((mtype m = NORMAL /\ mprom m = 3) \/
   (mtype m = PROMOTION /\ type_of (at_ (brd p) (mfrom m)) = PAWN /\ 3 <= mprom m <= 6)) ->
  (type_of (at_ (brd p) (mfrom m)) = KING -> is_legal p m = true) ->
  gives_check_impl (view_of_spec p) (code m) = Some (gives_check p m).
Proof.
  intros [Hl Hv Hs HKe HK HKat HKu [Hok1 Hok2] Hou Hno] Hf Ht Hnz Hcol Htgt Hkind Hleg0.
  set (b := brd p) in *. set (us := stm p) in *. set (f := mfrom m) in *. set (t := mto m) in *.
  pose proof (valid_type b f Hv Hnz) as [Hty _].
  assert (Hft : f <> t).
  { intros E. destruct Htgt as [H0|[_ [H1 _]]]; [rewrite <- E in H0; contradiction|].
    rewrite <- E in H1. contradiction. }
  assert (Hmt : mtype m = NORMAL \/ mtype m = PROMOTION) by (destruct Hkind as [[? _]|[? _]]; tauto).
  set (ty := gc_pt p m).
  assert (Hty' : 1 <= ty <= 6 /\
                 (if mtype m =? PROMOTION then mk_piece us (mprom m) else at_ b f) = mk_piece us ty).
  { unfold ty, gc_pt. destruct Hkind as [[E1 E2]|[E1 [E2 E3]]]; rewrite E1.
    - change (NORMAL =? PROMOTION) with false. change (NORMAL =? CASTLING) with false. cbv iota.
      split; [exact Hty|]. rewrite <- Hcol. apply piece_decomp.
    - change (PROMOTION =? PROMOTION) with true. cbv iota. split; [lia|reflexivity]. }
  destruct Hty' as [Hty1 Hpc'].
  set (pc' := if mtype m =? PROMOTION then mk_piece us (mprom m) else at_ b f) in *.
  assert (Hpc'nz : pc' <> 0) by (rewrite Hpc'; unfold mk_piece; lia).
  assert (Hb' : brd (make p m) = put (put b f 0) t pc') by now apply make_brd_simple.
  set (b' := brd (make p m)) in *.
  assert (Hl1 : length (put b f 0) = 64%nat) by now rewrite put_length.
  assert (Hat' : forall a, at_ b' a = if a =? t then pc' else if a =? f then 0 else at_ b a).
  { intros a. rewrite Hb'. rewrite at_put by assumption. destruct (a =? t); [reflexivity|]. now rewrite at_put. }
  assert (Hsame : forall a, a < 64 -> ~ In a [f; t] -> at_ b' a = at_ b a).
  { intros a _ Hn. rewrite Hat'. cbn [In] in Hn.
    destruct (N.eqb_spec a t); [exfalso; apply Hn; auto|]. destruct (N.eqb_spec a f); [exfalso; apply Hn; auto|reflexivity]. }
  assert (HKf : K <> f).
  { intros E. rewrite E in HKat. fold b in HKat. rewrite HKat in Hcol.
    destruct (mk_piece_parts (flip us) KING) as [Hc _]; [unfold KING; lia|].
    rewrite Hc in Hcol. now apply flip_neq in Hcol. }
  assert (HKt : K <> t).
  { intros E. destruct Htgt as [H0|[_ [_ H1]]].
    - rewrite <- E in H0. fold b in HKat. rewrite HKat in H0. unfold mk_piece, KING in H0. lia.
    - rewrite <- E in H1. fold b in Hno. rewrite (Hno f Hf) in H1. discriminate. }
  assert (HnK : ~ In K [f; t]) by (cbn [In]; intros [E|[E|[]]]; congruence).
  assert (Hocc : gc_occ p m = occ_of b').
  { unfold gc_occ, gc_to, bit. fold b f t.
    replace (mtype m =? ENPASSANT) with false by (destruct Hmt as [-> | ->]; reflexivity).
    replace (mtype m =? CASTLING) with false by (destruct Hmt as [-> | ->]; reflexivity).
    rewrite Hb'. rewrite occ_of_put by assumption. apply N.eqb_neq in Hpc'nz. rewrite Hpc'nz.
    rewrite occ_of_put by assumption. change (0 =? 0) with true. cbv iota. reflexivity. }
  assert (Hgt : gc_to m = t).
  { unfold gc_to. replace (mtype m =? CASTLING) with false by (destruct Hmt as [-> | ->]; reflexivity). reflexivity. }
  (* the opponent's king *)
  assert (HK' : king_sq b' (flip us) = K).
  { apply (king_after b b' us K [f; t]); try assumption.
    intros a [<-|[<-|[]]]; rewrite Hat'.
    - apply N.eqb_neq in Hft. rewrite Hft, N.eqb_refl. now left.
    - rewrite N.eqb_refl. right. rewrite Hpc'. apply mk_piece_parts. lia. }
  (* a king move does not go next to the other king *)
  assert (Hking : ty = KING -> existsb (N.eqb K) (king_targets t) = false).
  { intros Ety.
    assert (Hfk : type_of (at_ b f) = KING /\ at_ b f = mk_piece us KING).
    { unfold ty, gc_pt in Ety. destruct Hkind as [[E1 _]|[E1 [_ E4]]]; rewrite E1 in Ety.
      - change (NORMAL =? PROMOTION) with false in Ety. change (NORMAL =? CASTLING) with false in Ety.
        cbv iota in Ety. fold b f in Ety. split; [exact Ety|]. rewrite <- Hcol, <- Ety. apply piece_decomp.
      - change (PROMOTION =? PROMOTION) with true in Ety. cbv iota in Ety. unfold KING in Ety. lia. }
    destruct Hfk as [Hfk0 Hfk]. pose proof (Hleg0 Hfk0) as Hleg.
    pose proof (legal_king_safe p m Hleg) as Hsafe. fold b' us in Hsafe.
    assert (Hkt : king_sq b' us = t).
    { apply king_sq_intro; [exact Ht| |].
      - rewrite Hat', N.eqb_refl, Hpc', Ety. reflexivity.
      - intros s Hs' Hs''. rewrite Hat' in Hs''.
        destruct (N.eqb_spec s t) as [E|E]; [exact E|]. exfalso.
        destruct (N.eqb_spec s f) as [E2|E2]; [unfold mk_piece, KING in Hs''; lia|].
        pose proof (Hou s Hs' Hs'') as E3.
        pose proof (Hou f Hf Hfk). congruence. }
    rewrite Hkt in Hsafe.
    pose proof (not_attacked_all b' t (flip us) Ht (flip_lt _ Hs) Hsafe K HK) as Hn.
    assert (HKat' : at_ b' K = mk_piece (flip us) KING) by (rewrite Hsame; assumption).
    rewrite (att_from_piece b' t (flip us) K KING HKat') in Hn by (unfold KING; lia).
    change (type_clause b' t (flip us) K KING) with (existsb (N.eqb t) (king_targets K)) in Hn.
    now rewrite king_sym. }
  assert (Hc1 : mtype m < 4) by (destruct Hmt as [-> | ->]; unfold NORMAL, PROMOTION; lia).
  assert (Hc2 : 3 <= mprom m <= 6) by (destruct Hkind as [[_ ->]|[_ [_ ?]]]; lia).
  assert (Hc3 : mtype m = ENPASSANT -> 8 <= mto m < 56)
    by (intros E; destruct Hmt as [E'|E']; rewrite E' in E; discriminate).
  rewrite (gives_check_eval p m K Hl (valid_codes_ok _ Hv) Hs HKe HK Hf Ht Hc1 Hc2 Hty1 Hc3).
  f_equal. rewrite gives_check_unfold by exact Hs. fold b' us. rewrite HK'. rewrite Hgt. fold ty.
  apply (check_core b b' us K Hs HK Hno t ty (gc_occ p m) [f; t]); try assumption.
  - rewrite Hat', N.eqb_refl. exact Hpc'.
  - intros a [<-|[<-|[]]] Hne; [|contradiction]. rewrite Hat'.
    apply N.eqb_neq in Hne. rewrite Hne, N.eqb_refl. reflexivity.
  - intros a X [<-|[<-|[]]] HX Hpa Hsl.
    + (* the moved slider itself: it would have attacked the king before *)
      apply (slide_in_mono (occ_of b) (gc_occ p m)); [|exact Hsl].
      intros u Hu Hbit. rewrite Hocc, occ_of_testbit, Hat'. rewrite occ_of_testbit in Hbit.
      apply andb_true_iff in Hbit as [Hb1 Hb2]. rewrite Hb1. cbn [andb].
      destruct (u =? t); [now apply negb_true_iff, N.eqb_neq|].
      apply N.eqb_neq in Hu. now rewrite Hu.
    + (* the target square never holds an own piece *)
      exfalso. destruct Htgt as [H0|[_ [H1 _]]].
      * rewrite H0 in Hpa. unfold mk_piece in Hpa. pose proof (slider_range X HX). lia.
      * rewrite Hpa in H1. destruct (mk_piece_parts us X) as [Hc _]; [now apply slider_range|]. now rewrite Hc in H1.
Qed.

(** ** en passant *)
Lemma ep_square_check :
  forallb (fun c => forallb (fun f => forallb (fun t =>
     mk_sq (file_of t) (rank_of f) =? (if c =? WHITE then t - 8 else t + 8)) (pawn_attack_targets c f)) squares64)
     [0; 1] = true.
Proof. vm_compute. reflexivity. Qed.

Lemma ep_square us f t : us < 2 -> f < 64 -> In t (pawn_attack_targets us f) ->
  mk_sq (file_of t) (rank_of f) = ep_victim us t.
Proof.
  intros Hus Hf Ht. pose proof ep_square_check as H. rewrite forallb_forall in H.
  assert (Hin : In us [0; 1]) by (cbn; lia). specialize (H us Hin).
  pose proof (forall_squares _ H f Hf) as H'. cbv beta in H'. rewrite forallb_forall in H'.
  specialize (H' t Ht). now apply N.eqb_eq in H'.
Qed.

Lemma legal_ep_facts p : legal_pos p = true -> ep p <> 64 ->
  8 <= ep p < 56 /\ at_ (brd p) (ep p) = 0 /\
  at_ (brd p) (ep_victim (stm p) (ep p)) = mk_piece (flip (stm p)) PAWN.
Proof.
  intros H Hne. pose proof (legal_pos_wf p H) as [_ [_ Hr]]. destruct Hr as [Hr|Hr]; [contradiction|].
  apply legal_pos_inv in H as (_ & _ & _ & _ & Hstm & _ & _ & _ & _ & He).
  unfold ep_ok in He. apply N.eqb_neq in Hne. rewrite Hne in He.
  apply andb_true_iff in He as [He _]. apply andb_true_iff in He as [He H3]. apply andb_true_iff in He as [_ H2].
  unfold piece_at in *. apply N.eqb_eq in H2. repeat split; try lia; try exact H2.
  assert (Hep : ep p < 64) by lia. unfold ep_victim.
  assert (stm p = 0 \/ stm p = 1) as [E | E] by lia; rewrite E in *.
  - change (fwd (flip 0)) with DS in H3. pose proof (step_south (ep p) Hep) as Hs.
    replace (8 <=? ep p) with true in Hs by (symmetry; apply N.leb_le; lia).
    destruct (step DS (ep p)) as [v|]; [|discriminate]. cbn [opt64] in Hs. subst v.
    now apply N.eqb_eq in H3.
  - change (fwd (flip 1)) with DN in H3. pose proof (step_north (ep p) Hep) as Hs.
    replace (ep p <? 56) with true in Hs by (symmetry; apply N.ltb_lt; lia).
    destruct (step DN (ep p)) as [v|]; [|discriminate]. cbn [opt64] in Hs. subst v.
    now apply N.eqb_eq in H3.
Qed.

Lemma make_brd_ep p m : mtype m = ENPASSANT ->
  brd (make p m) =
  put (put (put (brd p) (mfrom m) 0) (mto m) (at_ (brd p) (mfrom m)))
      (mk_sq (file_of (mto m)) (rank_of (mfrom m))) 0.
Proof. intros H. unfold make. cbn [brd]. rewrite H. reflexivity. Qed.

Theorem gives_check_ep p m K : legal_pos p = true -> lfacts p K ->
  mtype m = ENPASSANT -> mprom m = 3 -> mfrom m < 64 -> mto m = ep p -> mto m < 64 ->
  at_ (brd p) (mfrom m) = mk_piece (stm p) PAWN -> at_ (brd p) (mto m) = 0 ->
  In (mto m) (pawn_attack_targets (stm p) (mfrom m)) ->
  gives_check_impl (view_of_spec p) (code m) = Some (gives_check p m).
Proof.
  intros Hlp [Hl Hv Hs HKe HK HKat HKu [Hok1 Hok2] Hou Hno] Hmt Hpr Hf Hte Ht Hpf Hpt Hin.
  assert (Hne : ep p <> 64) by (rewrite <- Hte; lia).
  destruct (legal_ep_facts p Hlp Hne) as (Hr & _ & Hvic). rewrite <- Hte in Hr, Hvic.
  set (b := brd p) in *. set (us := stm p) in *. set (f := mfrom m) in *. set (t := mto m) in *.
  set (v := ep_victim us t) in *.
  assert (Hvlt : v < 64) by (unfold v, ep_victim; destruct (us =? WHITE); lia).
  assert (Hvt : v <> t) by (unfold v, ep_victim; destruct (us =? WHITE); lia).
  assert (Hft : f <> t) by (intros E; rewrite E in Hpf; rewrite Hpf in Hpt; unfold mk_piece, PAWN in Hpt; lia).
  assert (Hvf : v <> f).
  { intros E. rewrite E in Hvic. rewrite Hpf in Hvic.
    assert (colour_of (mk_piece us PAWN) = colour_of (mk_piece (flip us) PAWN)) by now rewrite Hvic.
    destruct (mk_piece_parts us PAWN) as [Hc _]; [unfold PAWN; lia|].
    destruct (mk_piece_parts (flip us) PAWN) as [Hc' _]; [unfold PAWN; lia|].
    rewrite Hc, Hc' in H. symmetry in H. now apply flip_neq in H. }
  assert (Hb' : brd (make p m) = put (put (put b f 0) t (mk_piece us PAWN)) v 0).
  { rewrite make_brd_ep by exact Hmt. fold b f t. rewrite Hpf. unfold v. now rewrite (ep_square us f t Hs Hf Hin). }
  set (b' := brd (make p m)) in *.
  assert (Hl1 : length (put b f 0) = 64%nat) by now rewrite put_length.
  assert (Hl2 : length (put (put b f 0) t (mk_piece us PAWN)) = 64%nat) by now rewrite put_length.
  assert (Hat' : forall a, at_ b' a = if a =? v then 0 else if a =? t then mk_piece us PAWN
                                      else if a =? f then 0 else at_ b a).
  { intros a. rewrite Hb'. rewrite at_put by assumption. destruct (a =? v); [reflexivity|].
    rewrite at_put by assumption. destruct (a =? t); [reflexivity|]. now rewrite at_put. }
  assert (Hsame : forall a, a < 64 -> ~ In a [f; t; v] -> at_ b' a = at_ b a).
  { intros a _ Hn. rewrite Hat'. cbn [In] in Hn.
    destruct (N.eqb_spec a v); [exfalso; apply Hn; auto|].
    destruct (N.eqb_spec a t); [exfalso; apply Hn; auto|].
    destruct (N.eqb_spec a f); [exfalso; apply Hn; auto|reflexivity]. }
  assert (HKne : forall a pc, at_ b a = pc -> pc <> mk_piece (flip us) KING -> K <> a).
  { intros a pc Ha Hn E. rewrite <- E in Ha. fold b in HKat. congruence. }
  assert (HnK : ~ In K [f; t; v]).
  { cbn [In]. intros [E|[E|[E|[]]]]; symmetry in E; revert E.
    - apply (HKne f _ Hpf). unfold mk_piece, PAWN, KING. lia.
    - apply (HKne t _ Hpt). unfold mk_piece, KING. lia.
    - apply (HKne v _ Hvic). unfold mk_piece, PAWN, KING. lia. }
  assert (Hocc : gc_occ p m = occ_of b').
  { unfold gc_occ, gc_to, bit. fold b f t us. rewrite Hmt.
    change (ENPASSANT =? ENPASSANT) with true. change (ENPASSANT =? CASTLING) with false. cbv iota.
    fold v. rewrite Hb'. rewrite occ_of_put by assumption. change (0 =? 0) with true. cbv iota.
    rewrite occ_of_put by assumption.
    replace (mk_piece us PAWN =? 0) with false by (symmetry; apply N.eqb_neq; unfold mk_piece, PAWN; lia).
    rewrite occ_of_put by assumption. change (0 =? 0) with true. cbv iota. reflexivity. }
  assert (Hgt : gc_to m = t).
  { unfold gc_to. rewrite Hmt. reflexivity. }
  assert (Hpt' : gc_pt p m = PAWN).
  { unfold gc_pt. rewrite Hmt. change (ENPASSANT =? PROMOTION) with false. change (ENPASSANT =? CASTLING) with false.
    cbv iota. fold b f. rewrite Hpf. apply mk_piece_parts. unfold PAWN. lia. }
  assert (HK' : king_sq b' (flip us) = K).
  { apply (king_after b b' us K [f; t; v]); try assumption.
    intros a [<-|[<-|[<-|[]]]]; rewrite Hat'.
    - apply N.eqb_neq in Hft. rewrite Hft, N.eqb_refl.
      replace (f =? v) with false by (symmetry; apply N.eqb_neq; congruence). now left.
    - rewrite N.eqb_refl. replace (t =? v) with false by (symmetry; apply N.eqb_neq; congruence).
      right. apply mk_piece_parts. unfold PAWN. lia.
    - rewrite N.eqb_refl. now left. }
  assert (Hc1 : mtype m < 4) by (rewrite Hmt; unfold ENPASSANT; lia).
  assert (Hc2 : 3 <= mprom m <= 6) by lia.
  assert (Hc3 : mtype m = ENPASSANT -> 8 <= mto m < 56) by (intros _; exact Hr).
  assert (Hc4 : 1 <= gc_pt p m <= 6) by (rewrite Hpt'; unfold PAWN; lia).
  rewrite (gives_check_eval p m K Hl (valid_codes_ok _ Hv) Hs HKe HK Hf Ht Hc1 Hc2 Hc4 Hc3).
  f_equal. rewrite gives_check_unfold by exact Hs. fold b' us. rewrite HK', Hgt, Hpt'.
  apply (check_core b b' us K Hs HK Hno t PAWN (gc_occ p m) [f; t; v]); try assumption.
  - unfold PAWN. lia.
  - rewrite Hat', N.eqb_refl. replace (t =? v) with false by (symmetry; apply N.eqb_neq; congruence). reflexivity.
  - intros a [<-|[<-|[<-|[]]]] Hne'; rewrite Hat'.
    + apply N.eqb_neq in Hft. rewrite Hft, N.eqb_refl.
      replace (f =? v) with false by (symmetry; apply N.eqb_neq; congruence). reflexivity.
    + contradiction.
    + now rewrite N.eqb_refl.
  - intros a X [<-|[<-|[<-|[]]]] HX Hpa Hsl; exfalso; pose proof (slider_range X HX) as HXr.
    + rewrite Hpf in Hpa. unfold mk_piece, PAWN in Hpa. unfold slider, BISHOP, ROOK, QUEEN in HX. lia.
    + rewrite Hpt in Hpa. unfold mk_piece in Hpa. lia.
    + rewrite Hvic in Hpa.
      assert (colour_of (mk_piece (flip us) PAWN) = colour_of (mk_piece us X)) by now rewrite Hpa.
      destruct (mk_piece_parts us X) as [Hc _]; [lia|].
      destruct (mk_piece_parts (flip us) PAWN) as [Hc' _]; [unfold PAWN; lia|].
      rewrite Hc, Hc' in H. now apply flip_neq in H.
  - intros E. discriminate.
Qed.

(** ** castling *)
Definition mem (x : N) (l : list N) : bool := existsb (N.eqb x) l.

Lemma mem_In x l : mem x l = true <-> In x l.
Proof. apply existsb_eqb_In. Qed.

Lemma forallb_free_false occ l u : In u l -> N.testbit occ u = true -> forallb (free occ) l = false.
Proof.
  intros Hin Hb. destruct (forallb (free occ) l) eqn:E; [|reflexivity].
  rewrite forallb_forall in E. specialize (E u Hin). unfold free in E. rewrite Hb in E. discriminate.
Qed.

Lemma forallb_ext_in {A} (f g : A -> bool) l : (forall x, In x l -> f x = g x) -> forallb f l = forallb g l.
Proof.
  induction l as [|x l IH]; intros H; cbn [forallb]; [reflexivity|].
  rewrite (H x (or_introl eq_refl)), IH; [reflexivity|]. intros y Hy. apply H. now right.
Qed.

(* where the squares touched by castling can lie relative to the rays from / to the
   opponent's king K (K anywhere except on the squares known to hold something else):
   - the rook's corner rf is never strictly inside a ray;
   - if the king's destination kt is inside a ray from K then so is the rook's destination rt;
   - if the king's origin kf is inside the ray from K to rf then so is rt;
   - neither rf nor kt is inside a ray from rt to K. *)
Definition castle_geom_ok (kf kt rf rt : N) (empties : list N) : bool :=
  forallb (fun K =>
    mem K (kf :: rf :: empties) ||
    forallb (fun d =>
      (negb (ray_in 0 d rt K) || negb (mem rf (btw d rt K)) && negb (mem kt (btw d rt K))) &&
      (negb (ray_in 0 d K rf) || negb (mem kf (btw d K rf)) || mem rt (btw d K rf)) &&
      forallb (fun a => negb (ray_in 0 d K a) ||
                        negb (mem rf (btw d K a)) && (negb (mem kt (btw d K a)) || mem rt (btw d K a))) squares64)
    all_dirs) squares64.

Lemma castle_geom_all :
  forallb (fun c => forallb (fun '(kf, kt, rf, _, empties) =>
     castle_geom_ok kf kt rf (snd (rook_castle_squares kt)) empties) (castles c)) [0; 1] = true.
Proof. vm_compute. reflexivity. Qed.

Section Castle.
  Variables (b b' : list N) (us K kf kt rf rt : N) (empties : list N).
  Hypothesis Hus : us < 2.
  Hypothesis HK : K < 64.
  Hypothesis Hl : length b = 64%nat.
  Hypothesis Hno : forall a, a < 64 -> att_from b K us a = false.
  Hypothesis Hlt : kf < 64 /\ kt < 64 /\ rf < 64 /\ rt < 64.
  Hypothesis Hdist : kf <> kt /\ kf <> rf /\ kf <> rt /\ kt <> rf /\ kt <> rt /\ rf <> rt.
  Hypothesis Hkf : at_ b kf = mk_piece us KING.
  Hypothesis Hrf : at_ b rf = mk_piece us ROOK.
  Hypothesis Hkt : at_ b kt = 0.
  Hypothesis Hrt : at_ b rt = 0.
  Hypothesis Hgeom : castle_geom_ok kf kt rf rt empties = true.
  Hypothesis HKok : mem K (kf :: rf :: empties) = false.
  Hypothesis Hb' : forall a, at_ b' a = if a =? rt then mk_piece us ROOK else if a =? rf then 0
                                        else if a =? kt then mk_piece us KING else if a =? kf then 0 else at_ b a.
  Hypothesis Hadj : existsb (N.eqb K) (king_targets kt) = false.

  Variables (o o1 o' : N).
  Hypothesis Ho : o = occ_of b.
  Hypothesis Ho1 : o1 = N.lor (N.ldiff o (bit kf)) (bit rt).
  Hypothesis Ho' : o' = occ_of b'.

  Lemma geom_at d :
    (ray_in 0 d rt K = true -> mem rf (btw d rt K) = false /\ mem kt (btw d rt K) = false) /\
    (ray_in 0 d K rf = true -> mem kf (btw d K rf) = true -> mem rt (btw d K rf) = true) /\
    forall a, a < 64 -> ray_in 0 d K a = true ->
      mem rf (btw d K a) = false /\ (mem kt (btw d K a) = true -> mem rt (btw d K a) = true).
  Proof.
    pose proof (forall_squares _ Hgeom K HK) as H. cbv beta in H. rewrite HKok in H. cbn [orb] in H.
    rewrite forallb_forall in H. specialize (H d (in_all_dirs d)).
    apply andb_true_iff in H as [H H4]. apply andb_true_iff in H as [H1 H3].
    split; [|split].
    - intros E. rewrite E in H1. cbn [negb orb] in H1. apply andb_true_iff in H1 as [H1 H2].
      apply negb_true_iff in H1, H2. now split.
    - intros E1 E2. rewrite E1, E2 in H3. exact H3.
    - intros a Ha E. pose proof (forall_squares _ H4 a Ha) as Ha'. cbv beta in Ha'. rewrite E in Ha'.
      cbn [negb orb] in Ha'. apply andb_true_iff in Ha' as [Ha1 Ha2]. apply negb_true_iff in Ha1.
      split; [exact Ha1|]. intros E2. rewrite E2 in Ha2. exact Ha2.
  Qed.

  Lemma o1_bit u : N.testbit o1 u = (N.testbit o u && negb (u =? kf)) || (u =? rt).
  Proof. rewrite Ho1. unfold bit. now rewrite N.lor_spec, N.ldiff_spec, !shiftl1_testbit. Qed.

  Lemma o'_bit u : N.testbit o' u = (u <? 64) && negb (at_ b' u =? 0).
  Proof. rewrite Ho'. apply occ_of_testbit. Qed.

  Lemma o_bit u : N.testbit o u = (u <? 64) && negb (at_ b u =? 0).
  Proof. rewrite Ho. apply occ_of_testbit. Qed.

  Lemma nz_king : (mk_piece us KING =? 0) = false.
  Proof. apply N.eqb_neq. unfold mk_piece, KING. lia. Qed.
  Lemma nz_rook : (mk_piece us ROOK =? 0) = false.
  Proof. apply N.eqb_neq. unfold mk_piece, ROOK. lia. Qed.

  Lemma rt_occ1 : N.testbit o1 rt = true.
  Proof. rewrite o1_bit, N.eqb_refl. apply orb_true_r. Qed.
  Lemma rt_occ' : N.testbit o' rt = true.
  Proof.
    rewrite o'_bit, Hb', N.eqb_refl, nz_rook. destruct Hlt as (_ & _ & _ & H).
    replace (rt <? 64) with true by (symmetry; now apply N.ltb_lt). reflexivity.
  Qed.

  (* the impl's occupancy and the real one differ only on kt and rf *)
  Lemma free_agree u : u <> kt -> u <> rf -> free o1 u = free o' u.
  Proof.
    intros H1 H2. unfold free. f_equal. rewrite o1_bit, o'_bit, o_bit, Hb'.
    destruct Hlt as (L1 & L2 & L3 & L4).
    destruct (N.eqb_spec u rt) as [->|E1].
    - rewrite nz_rook. replace (rt <? 64) with true by (symmetry; now apply N.ltb_lt). now rewrite orb_true_r.
    - rewrite orb_false_r. apply N.eqb_neq in H2. rewrite H2. apply N.eqb_neq in H1. rewrite H1.
      destruct (N.eqb_spec u kf) as [->|E2].
      + change (0 =? 0) with true. cbn [negb]. now rewrite !andb_false_r.
      + cbn [negb]. now rewrite andb_true_r.
  Qed.

  Lemma ray_agree d s t :
    (ray_in 0 d s t = true ->
     mem rf (btw d s t) = false /\ (mem kt (btw d s t) = true -> mem rt (btw d s t) = true)) ->
    ray_in o1 d s t = ray_in o' d s t.
  Proof.
    intros H. rewrite (ray_in_char o1), (ray_in_char o').
    destruct (ray_in 0 d s t); [|reflexivity]. destruct (H eq_refl) as [H1 H2]. f_equal.
    destruct (mem kt (btw d s t)) eqn:E.
    - specialize (H2 eq_refl). apply mem_In in H2.
      rewrite (forallb_free_false o1 _ rt H2 rt_occ1). now rewrite (forallb_free_false o' _ rt H2 rt_occ').
    - apply forallb_ext_in. intros u Hu. apply free_agree.
      + intros ->. apply mem_In in Hu. congruence.
      + intros ->. apply mem_In in Hu. congruence.
  Qed.

  (* C3: looking from K towards any square *)
  Lemma slide_agree_K dirs a : a < 64 -> slide_in o1 dirs K a = slide_in o' dirs K a.
  Proof.
    intros Ha. unfold slide_in. apply existsb_ext_in. intros d _.
    destruct (geom_at d) as (_ & _ & H). apply ray_agree. intros E. now apply H.
  Qed.

  (* C1: looking from the rook's destination towards K *)
  Lemma slide_agree_rt dirs : slide_in o1 dirs rt K = slide_in o' dirs rt K.
  Proof.
    unfold slide_in. apply existsb_ext_in. intros d _.
    destruct (geom_at d) as (H & _). apply ray_agree. intros E. destruct (H E) as [H1 H2].
    split; [exact H1|]. intros E2. congruence.
  Qed.

  (* C2: a ray from K that reaches the rook's corner did so before the move *)
  Lemma corner_before d : ray_in o1 d K rf = true -> ray_in o d K rf = true.
  Proof.
    rewrite (ray_in_char o1), (ray_in_char o). intros H. apply andb_true_iff in H as [H1 H2].
    rewrite H1. cbn [andb]. destruct (geom_at d) as (_ & H3 & _). specialize (H3 H1).
    destruct (mem kf (btw d K rf)) eqn:E.
    - specialize (H3 eq_refl). apply mem_In in H3. rewrite (forallb_free_false o1 _ rt H3 rt_occ1) in H2. discriminate.
    - rewrite forallb_forall in H2. apply forallb_forall. intros u Hu. specialize (H2 u Hu).
      unfold free in *. rewrite o1_bit in H2. apply negb_true_iff in H2. apply orb_false_iff in H2 as [H2 _].
      assert (Hukf : (u =? kf) = false).
      { apply N.eqb_neq. intros ->. apply mem_In in Hu. congruence. }
      rewrite Hukf in H2. cbn [negb] in H2. rewrite andb_true_r in H2. now rewrite H2.
  Qed.

  Theorem castle_core : direct_b ROOK rt o1 K us || revealed b us K o1 = attacked b' K us.
  Proof.
    destruct Hlt as (L1 & L2 & L3 & L4). destruct Hdist as (D1 & D2 & D3 & D4 & D5 & D6).
    assert (Hrt' : at_ b' rt = mk_piece us ROOK) by (rewrite Hb', N.eqb_refl; reflexivity).
    assert (Hsame : forall a, a <> kf -> a <> kt -> a <> rf -> a <> rt -> at_ b' a = at_ b a).
    { intros a N1 N2 N3 N4. rewrite Hb'. apply N.eqb_neq in N1, N2, N3, N4. now rewrite N1, N2, N3, N4. }
    apply bool_eq_iff. rewrite orb_true_iff, revealed_iff, attacked_ex by assumption. split.
    - intros [H|[a [X [HX [Ha [Hpa Hsl]]]]]].
      + (* direct: the rook on its new square *)
        exists rt. split; [exact L4|]. rewrite (att_from_piece b' K us rt ROOK Hrt') by (unfold ROOK; lia).
        rewrite type_clause_rook by assumption. rewrite <- Ho'.
        unfold direct_b in H. change (ROOK =? PAWN) with false in H. change (ROOK =? KING) with false in H.
        change (ROOK =? KNIGHT) with false in H. cbv iota in H. rewrite slide_testbit in H.
        change (dirs_of ROOK) with rook_dirs in H. rewrite slide_agree_rt in H.
        rewrite (slide_in_sym _ rook_dirs K rt rook_dirs_closed HK L4). exact H.
      + pose proof (slider_range X HX) as HXr.
        destruct (N.eq_dec a kf) as [->|N1].
        { exfalso. rewrite Hkf in Hpa. unfold mk_piece, KING in Hpa. unfold slider, BISHOP, ROOK, QUEEN in HX. lia. }
        destruct (N.eq_dec a kt) as [->|N2].
        { exfalso. rewrite Hkt in Hpa. unfold mk_piece in Hpa. lia. }
        destruct (N.eq_dec a rt) as [->|N4].
        { exfalso. rewrite Hrt in Hpa. unfold mk_piece in Hpa. lia. }
        destruct (N.eq_dec a rf) as [->|N3].
        { (* the rook's old square: it would have attacked K before *)
          exfalso. assert (X = ROOK).
          { rewrite Hrf in Hpa. unfold mk_piece in Hpa. lia. }
          subst X. change (dirs_of ROOK) with rook_dirs in Hsl. unfold slide_in in Hsl.
          apply existsb_exists in Hsl as [d [Hd Hr]]. apply corner_before in Hr.
          pose proof (Hno rf L3) as Hn. rewrite (att_from_piece b K us rf ROOK Hrf) in Hn by (unfold ROOK; lia).
          rewrite type_clause_rook in Hn by assumption. rewrite <- Ho in Hn. unfold slide_in in Hn.
          assert (existsb (fun d => ray_in o d K rf) rook_dirs = true) by (apply existsb_exists; now exists d).
          congruence. }
        exists a. split; [exact Ha|].
        assert (Hpa' : at_ b' a = mk_piece us X) by (rewrite Hsame; assumption).
        rewrite (att_from_piece b' K us a X Hpa') by exact HXr.
        rewrite slider_clause by assumption. rewrite <- Ho'. now rewrite <- slide_agree_K.
    - intros [a [Ha Hatt]].
      destruct (att_from_inv _ _ _ _ Hatt) as [ty' [Hty' [Hpa Hcl]]].
      destruct (N.eq_dec a rt) as [->|N4].
      { (* the rook on its new square: direct check *)
        left. assert (ty' = ROOK).
        { rewrite Hrt' in Hpa. unfold mk_piece in Hpa. lia. }
        subst ty'. rewrite type_clause_rook in Hcl by assumption. rewrite <- Ho' in Hcl.
        unfold direct_b. change (ROOK =? PAWN) with false. change (ROOK =? KING) with false.
        change (ROOK =? KNIGHT) with false. cbv iota. rewrite slide_testbit.
        change (dirs_of ROOK) with rook_dirs. rewrite slide_agree_rt.
        now rewrite (slide_in_sym _ rook_dirs rt K rook_dirs_closed L4 HK). }
      destruct (N.eq_dec a rf) as [->|N3].
      { exfalso. rewrite Hb' in Hpa. apply N.eqb_neq in D6. rewrite D6, N.eqb_refl in Hpa.
        unfold mk_piece in Hpa. lia. }
      destruct (N.eq_dec a kt) as [->|N2].
      { (* the king on its new square: excluded by legality *)
        exfalso. assert (Hkt' : at_ b' kt = mk_piece us KING).
        { rewrite Hb'. apply N.eqb_neq in D5, D4. now rewrite D5, D4, N.eqb_refl. }
        assert (ty' = KING).
        { rewrite Hkt' in Hpa. unfold mk_piece in Hpa. lia. }
        subst ty'. change (type_clause b' K us kt KING) with (existsb (N.eqb K) (king_targets kt)) in Hcl.
        congruence. }
      destruct (N.eq_dec a kf) as [->|N1].
      { exfalso. rewrite Hb' in Hpa. apply N.eqb_neq in D1, D2, D3. rewrite D3, D2, D1, N.eqb_refl in Hpa.
        unfold mk_piece in Hpa. lia. }
      right. rewrite (Hsame a N1 N2 N3 N4) in Hpa.
      destruct (type_cases ty' Hty') as [Hns|Hs].
      + exfalso. pose proof (Hno a Ha) as Hn. rewrite (att_from_piece b K us a ty' Hpa) in Hn by lia.
        rewrite (nonslider_clause b b' K us a ty' Hns) in Hn. congruence.
      + exists a, ty'. repeat split; try assumption.
        rewrite slider_clause in Hcl by assumption. rewrite <- Ho' in Hcl. now rewrite slide_agree_K.
  Qed.
End Castle.

Lemma make_brd_castle p m : mtype m = CASTLING ->
  brd (make p m) =
  put (put (put (put (brd p) (mfrom m) 0) (mto m) (at_ (brd p) (mfrom m)))
           (fst (rook_castle_squares (mto m))) 0)
      (snd (rook_castle_squares (mto m))) (mk_piece (stm p) ROOK).
Proof.
  intros H. unfold make. cbn [brd]. rewrite H.
  change (CASTLING =? PROMOTION) with false. change (CASTLING =? ENPASSANT) with false.
  change (CASTLING =? CASTLING) with true. cbv iota.
  now destruct (rook_castle_squares (mto m)).
Qed.

Lemma gives_check_castle_gen p K kf kt rf rt empties :
  lfacts p K ->
  kf < 64 /\ kt < 64 /\ rf < 64 /\ rt < 64 ->
  kf <> kt /\ kf <> rf /\ kf <> rt /\ kt <> rf /\ kt <> rt /\ rf <> rt ->
  at_ (brd p) kf = mk_piece (stm p) KING -> at_ (brd p) rf = mk_piece (stm p) ROOK ->
  (forall e, In e empties -> at_ (brd p) e = 0) -> In kt empties -> In rt empties ->
  castle_geom_ok kf kt rf rt empties = true ->
  rook_castle_squares kt = (rf, rt) -> castle_rook_to kt = rt ->
  is_legal p (mkmv kf kt CASTLING 3) = true ->
  gives_check_impl (view_of_spec p) (code (mkmv kf kt CASTLING 3)) = Some (gives_check p (mkmv kf kt CASTLING 3)).
Proof.
  intros [Hl Hv Hs HKe HK HKat HKu [Hok1 Hok2] Hou Hno] Hlt Hdist Hkf Hrf Hemp Hktin Hrtin Hgeom Hrcs Hcrt Hleg.
  set (m := mkmv kf kt CASTLING 3) in *.
  set (b := brd p) in *. set (us := stm p) in *.
  pose proof Hlt as (L1 & L2 & L3 & L4). pose proof Hdist as (D1 & D2 & D3 & D4 & D5 & D6).
  assert (Hkt : at_ b kt = 0) by now apply Hemp.
  assert (Hrt : at_ b rt = 0) by now apply Hemp.
  assert (Hb'e : brd (make p m) = put (put (put (put b kf 0) kt (mk_piece us KING)) rf 0) rt (mk_piece us ROOK)).
  { rewrite make_brd_castle by reflexivity. cbn [mfrom mto m]. fold b us. rewrite Hrcs, Hkf. reflexivity. }
  set (b' := brd (make p m)) in *.
  assert (Hl1 : length (put b kf 0) = 64%nat) by now rewrite put_length.
  assert (Hl2 : length (put (put b kf 0) kt (mk_piece us KING)) = 64%nat) by now rewrite put_length.
  assert (Hl3 : length (put (put (put b kf 0) kt (mk_piece us KING)) rf 0) = 64%nat) by now rewrite put_length.
  assert (Hb' : forall a, at_ b' a = if a =? rt then mk_piece us ROOK else if a =? rf then 0
                 else if a =? kt then mk_piece us KING else if a =? kf then 0 else at_ b a).
  { intros a. rewrite Hb'e. rewrite at_put by assumption. destruct (a =? rt); [reflexivity|].
    rewrite at_put by assumption. destruct (a =? rf); [reflexivity|].
    rewrite at_put by assumption. destruct (a =? kt); [reflexivity|]. now rewrite at_put. }
  assert (HKne : forall a pc, at_ b a = pc -> pc <> mk_piece (flip us) KING -> K <> a).
  { intros a pc Ha Hn E. rewrite <- E in Ha. fold b in HKat. congruence. }
  assert (Hcolne : forall ty, ty < 8 -> mk_piece us ty <> mk_piece (flip us) KING).
  { intros ty Hty E. assert (colour_of (mk_piece us ty) = colour_of (mk_piece (flip us) KING)) by now rewrite E.
    destruct (mk_piece_parts us ty Hty) as [Hc _].
    destruct (mk_piece_parts (flip us) KING) as [Hc' _]; [unfold KING; lia|].
    rewrite Hc, Hc' in H. symmetry in H. now apply flip_neq in H. }
  assert (Hzne : 0 <> mk_piece (flip us) KING) by (unfold mk_piece, KING; lia).
  assert (HKok : mem K (kf :: rf :: empties) = false).
  { destruct (mem K (kf :: rf :: empties)) eqn:E; [|reflexivity]. exfalso.
    apply mem_In in E. destruct E as [E|[E|E]].
    - symmetry in E. revert E. apply (HKne kf _ Hkf). apply Hcolne. unfold KING. lia.
    - symmetry in E. revert E. apply (HKne rf _ Hrf). apply Hcolne. unfold ROOK. lia.
    - specialize (Hemp K E). fold b in HKat. rewrite HKat in Hemp. now apply Hzne. }
  assert (HnK : ~ In K [kf; kt; rf; rt]).
  { cbn [In]. intros [E|[E|[E|[E|[]]]]]; symmetry in E; revert E.
    - apply (HKne kf _ Hkf). apply Hcolne. unfold KING. lia.
    - apply (HKne kt _ Hkt). exact Hzne.
    - apply (HKne rf _ Hrf). apply Hcolne. unfold ROOK. lia.
    - apply (HKne rt _ Hrt). exact Hzne. }
  assert (Hsame : forall a, a < 64 -> ~ In a [kf; kt; rf; rt] -> at_ b' a = at_ b a).
  { intros a _ Hn. rewrite Hb'. cbn [In] in Hn.
    destruct (N.eqb_spec a rt); [exfalso; apply Hn; auto|].
    destruct (N.eqb_spec a rf); [exfalso; apply Hn; auto|].
    destruct (N.eqb_spec a kt); [exfalso; apply Hn; auto|].
    destruct (N.eqb_spec a kf); [exfalso; apply Hn; auto|reflexivity]. }
  assert (Hat_kt : at_ b' kt = mk_piece us KING).
  { rewrite Hb'. apply N.eqb_neq in D5, D4. now rewrite D5, D4, N.eqb_refl. }
  assert (Hat_rt : at_ b' rt = mk_piece us ROOK) by (rewrite Hb', N.eqb_refl; reflexivity).
  assert (Hat_rf : at_ b' rf = 0).
  { rewrite Hb'. apply N.eqb_neq in D6. now rewrite D6, N.eqb_refl. }
  assert (Hat_kf : at_ b' kf = 0).
  { rewrite Hb'. apply N.eqb_neq in D1, D2, D3. now rewrite D3, D2, D1, N.eqb_refl. }
  assert (HK' : king_sq b' (flip us) = K).
  { apply (king_after b b' us K [kf; kt; rf; rt]); try assumption.
    intros a [<-|[<-|[<-|[<-|[]]]]].
    - now left.
    - right. rewrite Hat_kt. apply mk_piece_parts. unfold KING. lia.
    - now left.
    - right. rewrite Hat_rt. apply mk_piece_parts. unfold ROOK. lia. }
  assert (Hadj : existsb (N.eqb K) (king_targets kt) = false).
  { pose proof (legal_king_safe p m Hleg) as Hsafe. fold b' us in Hsafe.
    assert (Hkq : king_sq b' us = kt).
    { apply king_sq_intro; [exact L2|exact Hat_kt|].
      intros s Hs' Hs''. destruct (in_dec N.eq_dec s [kf; kt; rf; rt]) as [Hin|Hin].
      - destruct Hin as [<-|[<-|[<-|[<-|[]]]]]; try reflexivity; exfalso.
        + rewrite Hat_kf in Hs''. unfold mk_piece, KING in Hs''. lia.
        + rewrite Hat_rf in Hs''. unfold mk_piece, KING in Hs''. lia.
        + rewrite Hat_rt in Hs''. unfold mk_piece, KING, ROOK in Hs''. lia.
      - exfalso. rewrite (Hsame s Hs' Hin) in Hs''. pose proof (Hou s Hs' Hs'') as E1.
        pose proof (Hou kf L1 Hkf) as E2. apply Hin. left. congruence. }
    rewrite Hkq in Hsafe.
    pose proof (not_attacked_all b' kt (flip us) L2 (flip_lt _ Hs) Hsafe K HK) as Hn.
    assert (HKat' : at_ b' K = mk_piece (flip us) KING) by (rewrite Hsame; assumption).
    rewrite (att_from_piece b' kt (flip us) K KING HKat') in Hn by (unfold KING; lia).
    change (type_clause b' kt (flip us) K KING) with (existsb (N.eqb kt) (king_targets K)) in Hn.
    now rewrite king_sym. }
  assert (Hc1 : mtype m < 4) by (unfold m; cbn [mtype]; unfold CASTLING; lia).
  assert (Hc2 : 3 <= mprom m <= 6) by (unfold m; cbn [mprom]; lia).
  assert (Hc3 : mtype m = ENPASSANT -> 8 <= mto m < 56) by (intros E; discriminate).
  assert (Hc4 : 1 <= gc_pt p m <= 6) by (change (gc_pt p m) with ROOK; unfold ROOK; lia).
  rewrite (gives_check_eval p m K Hl (valid_codes_ok _ Hv) Hs HKe HK L1 L2 Hc1 Hc2 Hc4 Hc3).
  f_equal. rewrite gives_check_unfold by exact Hs. fold b' us. rewrite HK'.
  change (gc_pt p m) with ROOK. change (gc_to m) with (castle_rook_to kt). rewrite Hcrt.
  assert (Ho1 : gc_occ p m = N.lor (N.ldiff (occ_of b) (bit kf)) (bit rt)).
  { unfold gc_occ. change (mtype m =? ENPASSANT) with false. cbv iota.
    change (gc_to m) with (castle_rook_to kt). now rewrite Hcrt. }
  apply (castle_core b b' us K kf kt rf rt empties Hs HK Hl Hno Hlt Hdist Hkf Hrf Hkt Hrt Hgeom HKok Hb' Hadj
           (occ_of b) (gc_occ p m) (occ_of b') eq_refl Ho1 eq_refl).
Qed.

(** ** GivesCheck, all four move types *)

(* every pseudo-legal move; a king move (castling included) has to be legal, because the
   engine never lets a king "give check" (position.go:689) *)
Definition king_move (p : pos) (m : mv) : Prop :=
  mtype m = CASTLING \/ type_of (at_ (brd p) (mfrom m)) = KING.

Theorem gives_check_exact_pseudo p m : legal_pos p = true -> In m (pseudo p) ->
  (king_move p m -> is_legal p m = true) ->
  gives_check_impl (view_of_spec p) (code m) = Some (gives_check p m).
Proof.
  intros Hlp Hin Hleg. pose proof (legal_pos_facts p Hlp) as Hf.
  destruct (pseudo_inv p m Hin) as [H1 H2 H3 H4 H5 H6 | H1 H2 H3 H4 H5 H6 H7 H8 | kf kt rf bt empties Hc Hm Hk Hr He].
  - apply (gives_check_simple p m _ Hf); try assumption. intros E. apply Hleg. now right.
  - now apply (gives_check_ep p m _ Hlp Hf).
  - assert (Hleg' : is_legal p m = true) by (apply Hleg; left; now subst m). clear Hleg.
    subst m. unfold is_piece in Hk, Hr. apply N.eqb_eq in Hk, Hr.
    assert (Hemp : forall e, In e empties -> at_ (brd p) e = 0).
    { intros e Hein. rewrite forallb_forall in He. specialize (He e Hein). now apply N.eqb_eq in He. }
    pose proof (lf_stm _ _ Hf) as Hs.
    assert (Hg : castle_geom_ok kf kt rf (snd (rook_castle_squares kt)) empties = true).
    { pose proof castle_geom_all as H. rewrite forallb_forall in H.
      assert (Hi : In (stm p) [0; 1]) by (cbn; lia). specialize (H _ Hi). rewrite forallb_forall in H.
      exact (H _ Hc). }
    assert (stm p = 0 \/ stm p = 1) as [E|E] by lia; rewrite E in Hc; cbn [castles N.eqb WHITE] in Hc;
      destruct Hc as [Hc|[Hc|[]]]; injection Hc as <- <- <- <- <-.
    + apply (gives_check_castle_gen p _ 4 6 7 5 [5; 6] Hf); try assumption; try reflexivity;
        try (repeat split; lia); cbn; tauto.
    + apply (gives_check_castle_gen p _ 4 2 0 3 [1; 2; 3] Hf); try assumption; try reflexivity;
        try (repeat split; lia); cbn; tauto.
    + apply (gives_check_castle_gen p _ 60 62 63 61 [61; 62] Hf); try assumption; try reflexivity;
        try (repeat split; lia); cbn; tauto.
    + apply (gives_check_castle_gen p _ 60 58 56 59 [57; 58; 59] Hf); try assumption; try reflexivity;
        try (repeat split; lia); cbn; tauto.
Qed.

Theorem gives_check_exact p m : legal_pos p = true -> In m (legal p) ->
  gives_check_impl (view_of_spec p) (code m) = Some (gives_check p m).
Proof.
  intros Hlp Hin. unfold legal in Hin. apply filter_In in Hin as [H1 H2].
  apply gives_check_exact_pseudo; auto.
Qed.
