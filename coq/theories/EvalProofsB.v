(** * EvalProofsB: C15 - part B: board geometry under the vertical flip (finite checks),
    the mirrored position square by square, the advanced-piece predicates and the attack
    sets (sliders by induction on the ray walk) under [Rules.mirror]. *)
From Coq Require Import NArith ZArith List Bool Lia Btauto.
From FG Require Import Geom Rules FenSpec EvalImpl EvalProofsA.
Import ListNotations.
Open Scope Z_scope.

(** ** geometry under the vertical flip (finite checks) *)
Definition vflip (d : dir) : dir :=
  match d with
  | DN => DS | DS => DN | DE => DE | DW => DW
  | DNE => DSE | DSE => DNE | DNW => DSW | DSW => DNW
  end.

Definition opt_eqb (a b : option N) : bool :=
  match a, b with Some x, Some y => (x =? y)%N | None, None => true | _, _ => false end.
Lemma opt_eqb_eq a b : opt_eqb a b = true -> a = b.
Proof. destruct a, b; cbn; intros H; try discriminate; try reflexivity. apply N.eqb_eq in H. subst. reflexivity. Qed.

Lemma step_vflip d s : (s < 64)%N -> step (vflip d) (mirror_sq s) = option_map mirror_sq (step d s).
Proof.
  intros Hs. apply opt_eqb_eq.
  assert (G : forallb (fun d => forallb (fun s =>
            opt_eqb (step (vflip d) (mirror_sq s)) (option_map mirror_sq (step d s))) squares64) all_dirs = true)
    by (vm_compute; reflexivity).
  rewrite forallb_forall in G.
  apply (forall_sq _ (G d ltac:(destruct d; cbn; tauto)) s Hs).
Qed.

Lemma step_lt d s t : (s < 64)%N -> step d s = Some t -> (t < 64)%N.
Proof.
  intros Hs E.
  assert (G : forallb (fun d => forallb (fun s =>
            match step d s with Some t => (t <? 64)%N | None => true end) squares64) all_dirs = true)
    by (vm_compute; reflexivity).
  rewrite forallb_forall in G.
  pose proof (forall_sq _ (G d ltac:(destruct d; cbn; tauto)) s Hs) as G2. cbv beta in G2.
  rewrite E in G2. apply N.ltb_lt, G2.
Qed.

Lemma fwd_flip c : (c < 2)%N -> fwd c = vflip (fwd (flip c)).
Proof. intros Hc. assert (c = 0 \/ c = 1)%N as [-> | ->] by lia; reflexivity. Qed.

Lemma mem_msq_map t l : (t < 64)%N -> (forall x, In x l -> (x < 64)%N) ->
  mem (mirror_sq t) (map mirror_sq l) = mem t l.
Proof.
  intros Ht Hl. unfold mem. induction l as [|a l IH]; cbn [map existsb]; [reflexivity|].
  rewrite IH by (intros x Hx; apply Hl; right; exact Hx). f_equal.
  assert (Ha : (a < 64)%N) by (apply Hl; left; reflexivity).
  apply eq_true_iff_eq. rewrite !N.eqb_eq. split; [|intros ->; reflexivity].
  intros E. rewrite <- (msq_inv t Ht), <- (msq_inv a Ha), E. reflexivity.
Qed.

Lemma king_targets_mirror s t : (s < 64)%N -> (t < 64)%N ->
  mem (mirror_sq t) (king_targets (mirror_sq s)) = mem t (king_targets s).
Proof.
  intros Hs Ht. apply eqb_true_iff.
  apply (forall_sq2 (fun s t => Bool.eqb (mem (mirror_sq t) (king_targets (mirror_sq s))) (mem t (king_targets s))));
    [vm_compute; reflexivity | assumption | assumption].
Qed.
Lemma knight_targets_mirror s t : (s < 64)%N -> (t < 64)%N ->
  mem (mirror_sq t) (knight_targets (mirror_sq s)) = mem t (knight_targets s).
Proof.
  intros Hs Ht. apply eqb_true_iff.
  apply (forall_sq2 (fun s t => Bool.eqb (mem (mirror_sq t) (knight_targets (mirror_sq s))) (mem t (knight_targets s))));
    [vm_compute; reflexivity | assumption | assumption].
Qed.

Lemma pawn_targets_mirror c s : (c < 2)%N -> (s < 64)%N ->
  pawn_attack_targets c (mirror_sq s) = map mirror_sq (pawn_attack_targets (flip c) s).
Proof.
  intros Hc Hs.
  assert (G : forallb (fun c => forallb (fun s =>
     if list_eq_dec N.eq_dec (pawn_attack_targets c (mirror_sq s)) (map mirror_sq (pawn_attack_targets (flip c) s))
     then true else false) squares64) two = true) by (vm_compute; reflexivity).
  pose proof (forall_sq _ (forall_two _ G c Hc) s Hs) as G2. cbv beta in G2.
  destruct (list_eq_dec N.eq_dec _ _) as [E|]; [exact E | discriminate].
Qed.
Lemma pawn_targets_lt c s t : (s < 64)%N -> In t (pawn_attack_targets c s) -> (t < 64)%N.
Proof.
  intros Hs. unfold pawn_attack_targets.
  destruct (c =? 0)%N; cbn [somes flat_map map];
  repeat match goal with |- context [step ?d s] => let E := fresh "E" in destruct (step d s) eqn:E end;
  cbn; intros H; repeat (destruct H as [<- | H]; [eapply step_lt; eassumption |]); try contradiction.
Qed.

Lemma file_msq s : (s < 64)%N -> file_of (mirror_sq s) = file_of s.
Proof.
  intros Hs. apply N.eqb_eq.
  apply (forall_sq (fun s => (file_of (mirror_sq s) =? file_of s)%N)); [vm_compute; reflexivity | exact Hs].
Qed.
Lemma rank_eq_msq s t : (s < 64)%N -> (t < 64)%N ->
  (rank_of (mirror_sq s) =? rank_of (mirror_sq t))%N = (rank_of s =? rank_of t)%N.
Proof.
  intros Hs Ht. apply eqb_true_iff.
  apply (forall_sq2 (fun s t => Bool.eqb (rank_of (mirror_sq s) =? rank_of (mirror_sq t))%N (rank_of s =? rank_of t)%N));
    [vm_compute; reflexivity | assumption | assumption].
Qed.
Lemma parity_eq_msq s t : (s < 64)%N -> (t < 64)%N ->
  (sq_parity (mirror_sq t) =? sq_parity (mirror_sq s))%N = (sq_parity t =? sq_parity s)%N.
Proof.
  intros Hs Ht. apply eqb_true_iff.
  apply (forall_sq2 (fun s t => Bool.eqb (sq_parity (mirror_sq t) =? sq_parity (mirror_sq s))%N (sq_parity t =? sq_parity s)%N));
    [vm_compute; reflexivity | assumption | assumption].
Qed.
Lemma center_aim_msq s : (s < 64)%N -> center_aim (mirror_sq s) = center_aim s.
Proof.
  intros Hs. apply Z.eqb_eq.
  apply (forall_sq (fun s => center_aim (mirror_sq s) =? center_aim s)); [vm_compute; reflexivity | exact Hs].
Qed.
Lemma back_rank_msq c s : (c < 2)%N -> (s < 64)%N ->
  (((c =? WHITE) && (rank_of (mirror_sq s) =? 0)) || ((c =? BLACK) && (rank_of (mirror_sq s) =? 7)))%N =
  (((flip c =? WHITE) && (rank_of s =? 0)) || ((flip c =? BLACK) && (rank_of s =? 7)))%N.
Proof.
  intros Hc Hs. apply eqb_true_iff.
  apply (forall_sq (fun s => Bool.eqb
     (((c =? WHITE) && (rank_of (mirror_sq s) =? 0)) || ((c =? BLACK) && (rank_of (mirror_sq s) =? 7)))%N
     (((flip c =? WHITE) && (rank_of s =? 0)) || ((flip c =? BLACK) && (rank_of s =? 7)))%N)); [|exact Hs].
  assert (c = 0 \/ c = 1)%N as [-> | ->] by lia; vm_compute; reflexivity.
Qed.

(** ** the mirrored position, square by square *)
Section Mirror.
Variable p : pos.
Hypothesis Hp : pos_ok p = true.
Let p' := mirror p.

Lemma at_mirror s : (s < 64)%N -> at_ (brd p') (mirror_sq s) = mirror_piece (at_ (brd p) s).
Proof.
  intros Hs. change (piece_at (mirror p) (mirror_sq s) = mirror_piece (piece_at p s)).
  rewrite piece_at_mirror, msq_inv by (try apply msq_lt; exact Hs). reflexivity.
Qed.
Lemma at_valid s : (s < 64)%N -> valid_code (at_ (brd p) s) = true.
Proof. intros Hs. apply (pos_ok_valid p s Hp Hs). Qed.

Lemma is_piece_mirror s c t : (s < 64)%N -> (c < 2)%N -> In t types6 ->
  is_piece (brd p') (mirror_sq s) c t = is_piece (brd p) s (flip c) t.
Proof.
  intros Hs Hc Ht. unfold is_piece. rewrite at_mirror by exact Hs.
  apply eq_piece_mirror; [apply at_valid, Hs | exact Hc | exact Ht].
Qed.
Lemma own_pawn_mirror s c : (s < 64)%N -> (c < 2)%N -> own_pawn p' c (mirror_sq s) = own_pawn p (flip c) s.
Proof. intros. apply is_piece_mirror; [assumption | assumption | cbn; tauto]. Qed.

Lemma is_col_at_mirror s c : (s < 64)%N -> (c < 2)%N ->
  is_col (at_ (brd p') (mirror_sq s)) c = is_col (at_ (brd p) s) (flip c).
Proof. intros Hs Hc. rewrite at_mirror by exact Hs. apply is_col_mirror; [apply at_valid, Hs | exact Hc]. Qed.
Lemma type_at_mirror s : (s < 64)%N -> type_of (at_ (brd p') (mirror_sq s)) = type_of (at_ (brd p) s).
Proof. intros Hs. rewrite at_mirror by exact Hs. apply type_of_mirror, at_valid, Hs. Qed.
Lemma empty_at_mirror s : (s < 64)%N -> (at_ (brd p') (mirror_sq s) =? 0)%N = (at_ (brd p) s =? 0)%N.
Proof. intros Hs. rewrite at_mirror by exact Hs. apply is_zero_mirror, at_valid, Hs. Qed.

Lemma pawn_in_front_mirror s c : (s < 64)%N -> (c < 2)%N ->
  pawn_in_front p' c (mirror_sq s) = pawn_in_front p (flip c) s.
Proof.
  intros Hs Hc. unfold pawn_in_front. rewrite (fwd_flip c Hc), step_vflip by exact Hs.
  destruct (step (fwd (flip c)) s) as [t|] eqn:E; cbn [option_map]; [|reflexivity].
  apply own_pawn_mirror; [eapply step_lt; eassumption | exact Hc].
Qed.

Lemma pawns_same_colour_mirror s c : (s < 64)%N -> (c < 2)%N ->
  pawns_same_colour p' c (mirror_sq s) = pawns_same_colour p (flip c) s.
Proof.
  intros Hs Hc. unfold pawns_same_colour. apply popcnt_mirror_ext. intros t Ht.
  rewrite own_pawn_mirror, parity_eq_msq by assumption. reflexivity.
Qed.

Lemma bishop_blocked_mirror s c : (s < 64)%N -> (c < 2)%N ->
  bishop_blocked p' c (mirror_sq s) = bishop_blocked p (flip c) s.
Proof.
  intros Hs Hc. unfold bishop_blocked. rewrite back_rank_msq, pawn_targets_mirror by assumption. f_equal.
  assert (G : forall l, (forall t, In t l -> (t < 64)%N) ->
            forallb (own_pawn p' c) (map mirror_sq l) = forallb (own_pawn p (flip c)) l).
  { induction l as [|a l IH]; intros Hl; cbn [map forallb]; [reflexivity|].
    rewrite own_pawn_mirror, IH; [reflexivity | intros t Ht; apply Hl; right; exact Ht
                                 | apply Hl; left; reflexivity | exact Hc]. }
  apply G. intros t Ht. eapply pawn_targets_lt; eassumption.
Qed.

Lemma queen_on_file_mirror s c : (s < 64)%N -> (c < 2)%N ->
  queen_on_file p' c (mirror_sq s) = queen_on_file p (flip c) s.
Proof.
  intros Hs Hc. unfold queen_on_file. apply existsb_sq_mirror_ext. intros t Ht.
  rewrite !file_msq, is_piece_mirror by (try assumption; cbn; tauto). reflexivity.
Qed.
Lemma no_own_pawn_on_file_mirror s c : (s < 64)%N -> (c < 2)%N ->
  no_own_pawn_on_file p' c (mirror_sq s) = no_own_pawn_on_file p (flip c) s.
Proof.
  intros Hs Hc. unfold no_own_pawn_on_file. f_equal. apply existsb_sq_mirror_ext. intros t Ht.
  rewrite !file_msq, own_pawn_mirror by assumption. reflexivity.
Qed.

(** sliders *)
Lemma walkb_mirror d : forall k s, (s < 64)%N ->
  walkb k (brd p') (vflip d) (mirror_sq s) = map mirror_sq (walkb k (brd p) d s).
Proof.
  induction k as [|k IH]; intros s Hs; cbn [walkb map]; [reflexivity|].
  rewrite step_vflip by exact Hs.
  destruct (step d s) as [t|] eqn:E; cbn [option_map map]; [|reflexivity].
  assert (Ht : (t < 64)%N) by (eapply step_lt; eassumption).
  rewrite empty_at_mirror by exact Ht.
  destruct (at_ (brd p) t =? 0)%N; cbn [map]; [rewrite IH by exact Ht|]; reflexivity.
Qed.
Lemma walkb_lt d : forall k s t, (s < 64)%N -> In t (walkb k (brd p) d s) -> (t < 64)%N.
Proof.
  induction k as [|k IH]; intros s t Hs; cbn [walkb]; [contradiction|].
  destruct (step d s) as [u|] eqn:E; [|contradiction].
  assert (Hu : (u < 64)%N) by (eapply step_lt; eassumption).
  intros [<- | H]; [exact Hu|]. destruct (at_ (brd p) u =? 0)%N; [eapply IH; eassumption | contradiction].
Qed.

Lemma mem_app t l1 l2 : mem t (l1 ++ l2) = mem t l1 || mem t l2.
Proof. unfold mem. apply existsb_app. Qed.

Lemma walk_mem_mirror d s t : (s < 64)%N -> (t < 64)%N ->
  mem (mirror_sq t) (walkb 7 (brd p') (vflip d) (mirror_sq s)) = mem t (walkb 7 (brd p) d s).
Proof.
  intros Hs Ht. rewrite walkb_mirror by exact Hs. apply mem_msq_map; [exact Ht|].
  intros x Hx. exact (walkb_lt d 7%nat s x Hs Hx).
Qed.

Lemma rays_mirror dirs s t : (s < 64)%N -> (t < 64)%N -> In dirs [rook_dirs; bishop_dirs; all_dirs] ->
  mem (mirror_sq t) (rays_from (brd p') dirs (mirror_sq s)) = mem t (rays_from (brd p) dirs s).
Proof.
  intros Hs Ht Hd. unfold rays_from.
  pose proof (fun d => walk_mem_mirror d s t Hs Ht) as W.
  destruct Hd as [<- | [<- | [<- | []]]]; cbn [rook_dirs bishop_dirs all_dirs map concat];
    rewrite ?app_nil_r, ?mem_app.
  - rewrite <- (W DN), <- (W DE), <- (W DS), <- (W DW). cbn [vflip].
    repeat match goal with |- context [mem ?a (walkb ?k ?b ?d ?s)] => generalize (mem a (walkb k b d s)); intro end.
    btauto.
  - rewrite <- (W DNE), <- (W DSE), <- (W DSW), <- (W DNW). cbn [vflip].
    repeat match goal with |- context [mem ?a (walkb ?k ?b ?d ?s)] => generalize (mem a (walkb k b d s)); intro end.
    btauto.
  - rewrite <- (W DN), <- (W DE), <- (W DS), <- (W DW), <- (W DNE), <- (W DSE), <- (W DSW), <- (W DNW). cbn [vflip].
    repeat match goal with |- context [mem ?a (walkb ?k ?b ?d ?s)] => generalize (mem a (walkb k b d s)); intro end.
    btauto.
Qed.

Lemma targets_mirror s t : (s < 64)%N -> (t < 64)%N ->
  mem (mirror_sq t) (piece_targets (brd p') (mirror_sq s)) = mem t (piece_targets (brd p) s).
Proof.
  intros Hs Ht. unfold piece_targets. rewrite type_at_mirror by exact Hs.
  destruct (type_of (at_ (brd p) s) =? KING)%N; [apply king_targets_mirror; assumption|].
  destruct (type_of (at_ (brd p) s) =? KNIGHT)%N; [apply knight_targets_mirror; assumption|].
  destruct (type_of (at_ (brd p) s) =? BISHOP)%N; [apply rays_mirror; try assumption; cbn; tauto|].
  destruct (type_of (at_ (brd p) s) =? ROOK)%N; [apply rays_mirror; try assumption; cbn; tauto|].
  destruct (type_of (at_ (brd p) s) =? QUEEN)%N; [apply rays_mirror; try assumption; cbn; tauto|].
  reflexivity.
Qed.

Lemma own_nonpawn_mirror s c : (s < 64)%N -> (c < 2)%N ->
  own_nonpawn (brd p') c (mirror_sq s) = own_nonpawn (brd p) (flip c) s.
Proof. intros Hs Hc. unfold own_nonpawn. rewrite is_col_at_mirror, type_at_mirror by assumption. reflexivity. Qed.

Lemma av_from_mirror c s t : (c < 2)%N -> (s < 64)%N -> (t < 64)%N ->
  av_from (av_of p') c (mirror_sq s) (mirror_sq t) = av_from (av_of p) (flip c) s t.
Proof.
  intros Hc Hs Ht. unfold av_of, av_compute. cbn [av_from av_empty].
  rewrite own_nonpawn_mirror by assumption.
  destruct (own_nonpawn (brd p) (flip c) s); [apply targets_mirror; assumption | reflexivity].
Qed.

Lemma all_att_mirror c t : (c < 2)%N -> (t < 64)%N ->
  all_att (brd p') c (mirror_sq t) = all_att (brd p) (flip c) t.
Proof.
  intros Hc Ht. unfold all_att. apply existsb_sq_mirror_ext. intros s Hs.
  rewrite own_nonpawn_mirror, targets_mirror by assumption. reflexivity.
Qed.
Lemma av_all_mirror c t : (c < 2)%N -> (t < 64)%N ->
  av_all (av_of p') c (mirror_sq t) = av_all (av_of p) (flip c) t.
Proof. intros. unfold av_of, av_compute. cbn [av_all av_empty orb]. apply all_att_mirror; assumption. Qed.

Lemma mobility_mirror c : (c < 2)%N -> mobility p' c = mobility p (flip c).
Proof.
  intros Hc. unfold mobility. apply bsum_mirror; [exact Hp|]. intros pc s Hv Hs.
  rewrite own_nonpawn_mirror by assumption.
  destruct (own_nonpawn (brd p) (flip c) s); [|reflexivity].
  apply popcnt_mirror_ext. intros t Ht. rewrite targets_mirror by assumption.
  change (piece_at p' (mirror_sq t)) with (at_ (brd p') (mirror_sq t)).
  rewrite is_col_at_mirror by assumption. reflexivity.
Qed.
Lemma av_mob_mirror c : (c < 2)%N -> av_mob (av_of p') c = av_mob (av_of p) (flip c).
Proof. intros. unfold av_of, av_compute. cbn [av_mob av_empty]. rewrite !Z.add_0_l. apply mobility_mirror; assumption. Qed.
End Mirror.
