(** * SessionMemProofs — ucinewgame puts the memory a search can read into the state of a fresh engine
      (property C12, clause "after ucinewgame a fixed-depth search gives the same result as on a freshly
      started engine")

    Main results
    - [cleared_table_is_fresh]         Clear() of a table that was created by NewTtTable(mb) and then used by
                                       any operations except Resize IS the table NewTtTable(mb) (slots,
                                       mask, capacity, entry count) - hence
    - [cleared_observationally_fresh]  every Probe / GetEntry / Len / Hashfull, and every observation after
                                       any common sequence of operations, is the same on both
    - [newgame_equals_fresh]           the frame theorem: for every state reachable by a protocol-valid
                                       session, ucinewgame followed by non-searching commands and an untimed
                                       depth-limited go gives the result of the same go on a fresh engine
                                       with the same option vector, as a function of [search_fn]
    - [newgame_equals_fresh_depth]     the plain form: ucinewgame ; position p ; go depth d
    - [fresh_setup_equals_boot]        "a fresh engine with option vector c" may be a new process brought
                                       there by setoption / isready / position commands
    - [newgame_equals_fresh_refuted_hash_busy]  the guard "no setoption name Hash during a search" cannot be
                                       dropped (concrete witness; reproduced on the real engine)

    The single hypothesis [H_eval_pure] (the result does not depend on the evaluator object's state) is
    what C15_eval_step_indep proves about the evaluator; everything else that is NOT reset by ucinewgame
    (hadBookMove, book, lastSearchResult, the per-search fields) is shown not to reach an untimed search. *)

From Coq Require Import ZArith NArith List Bool Lia String.
From stdpp Require Import base option fin_maps nmap.
From FG Require Import SessionMem.
From FG Require TTImpl UciModel FenSpec.
Import ListNotations.

(* ------------------------------------------------------------------------- *)
(** ** the hash table: a cleared table is a fresh table *)

Lemma shape_new mb : shape mb (T.new_tt mb).
Proof. split; reflexivity. Qed.

Lemma clear_is_fresh mb t : shape mb t -> T.clear t = T.new_tt mb.
Proof.
  intros [Hc Hm]. unfold T.clear, T.new_tt, T.resize. rewrite Hc, Hm. reflexivity.
Qed.

Lemma clear_new mb : T.clear (T.new_tt mb) = T.new_tt mb.
Proof. apply clear_is_fresh, shape_new. Qed.

Lemma age_new mb : T.age_entries (T.new_tt mb) = T.new_tt mb.
Proof. reflexivity. Qed.

Lemma hashfull_new mb : T.hashfull (T.new_tt mb) = 0%N.
Proof.
  unfold T.hashfull, T.len. cbn [T.new_tt T.resize T.cap T.count].
  destruct (N.eqb_spec (T.capacity mb) 0) as [|Hne]; [reflexivity|].
  rewrite N.mul_0_r. apply N.div_0_l. exact Hne.
Qed.

Lemma shape_age mb t : shape mb t -> shape mb (T.age_entries t).
Proof. unfold T.age_entries. destruct (T.count t =? 0)%N; intros H; exact H. Qed.

Lemma shape_clear mb t : shape mb t -> shape mb (T.clear t).
Proof. intros H; exact H. Qed.

Lemma shape_contents mb t sl n : shape mb t -> shape mb (T.TT sl (T.mask t) (T.cap t) n).
Proof. intros H; exact H. Qed.

Lemma shape_put mb t k m d v vt mt : shape mb t -> shape mb (T.put t k m d v vt mt).
Proof.
  intros H. unfold T.put. destruct (T.cap t =? 0)%N; [exact H|].
  destruct (T.eKey _ =? 0)%N; [exact H|]. destruct (negb _); [|exact H].
  destruct (T.replace_ok _ _); exact H.
Qed.

Lemma shape_probe mb t k : shape mb t -> shape mb (fst (T.probe t k)).
Proof.
  intros H. unfold T.probe. destruct (T.cap t =? 0)%N; [exact H|].
  destruct (T.eKey _ =? k)%N; exact H.
Qed.

(** every table operation except Resize keeps capacity and mask *)
Lemma shape_step mb t o : keeps_size o = true -> shape mb t -> shape mb (fst (T.step t o)).
Proof.
  intros Hk H. destruct o as [mb'|k m d v vt mt|k|k| | | |]; cbn [T.step fst]; try exact H.
  - discriminate.
  - apply shape_put, H.
  - pose proof (shape_probe mb t k H) as Hp. destruct (T.probe t k); exact Hp.
  - apply shape_age, H.
Qed.

Lemma shape_exec mb ops : forall t,
  forallb keeps_size ops = true -> shape mb t -> shape mb (T.exec_from t ops).
Proof.
  induction ops as [|o ops IH]; intros t Hk H; [exact H|].
  cbn [forallb] in Hk. apply andb_true_iff in Hk as [Ho Hr].
  unfold T.exec_from. cbn [fold_left]. apply IH; [exact Hr|]. apply shape_step; assumption.
Qed.

(** Clear() after any use gives back exactly the table NewTtTable created *)
Theorem cleared_table_is_fresh mb ops :
  forallb keeps_size ops = true ->
  T.clear (T.exec_from (T.new_tt mb) ops) = T.new_tt mb.
Proof. intros Hk. apply clear_is_fresh, shape_exec; [exact Hk|apply shape_new]. Qed.

(** ... so no sequence of operations can tell them apart *)
Theorem cleared_observationally_fresh mb t :
  shape mb t ->
  (forall k, T.probe (T.clear t) k = T.probe (T.new_tt mb) k) /\
  (forall k, T.get_entry (T.clear t) k = T.get_entry (T.new_tt mb) k) /\
  T.len (T.clear t) = 0%N /\ T.hashfull (T.clear t) = 0%N /\
  (forall ops, T.run_from (T.clear t) ops = T.run_from (T.new_tt mb) ops) /\
  (forall ops, T.exec_from (T.clear t) ops = T.exec_from (T.new_tt mb) ops).
Proof.
  intros H. rewrite (clear_is_fresh mb t H).
  repeat split; try reflexivity. apply hashfull_new.
Qed.

(** a used table is in general NOT observationally fresh: Clear does real work *)
Example used_table_differs :
  T.run_from (T.exec_from (T.new_tt 2) [T.OPut 5 1 3 17 1 false]) [T.OGet 5; T.OLen]
  <> T.run_from (T.new_tt 2) [T.OGet 5; T.OLen].
Proof. vm_compute. discriminate. Qed.

(* ------------------------------------------------------------------------- *)
(** ** the option vector *)

Lemma vec_of_ext c c' : vec_of c = vec_of c' -> forall f, c f = c' f.
Proof.
  unfold vec_of, all_fields. cbn [map]. intros H f.
  injection H. intros. destruct f; assumption.
Qed.

Lemma use_tt_vec c c' : vec_of c = vec_of c' -> use_tt c = use_tt c'.
Proof. intros H. unfold use_tt, flag. rewrite (vec_of_ext _ _ H). reflexivity. Qed.

Lemma tt_mb_vec c c' : vec_of c = vec_of c' -> tt_mb c = tt_mb c'.
Proof. intros H. unfold tt_mb. rewrite (vec_of_ext _ _ H). reflexivity. Qed.

Lemma lookup_in name : forall (t : list (FenSpec.str * U.handler)) h,
  U.lookup name t = Some h -> In h (map snd t).
Proof.
  induction t as [|[n h0] r IH]; intros h Hl; [discriminate|].
  cbn [U.lookup] in Hl. cbn [map snd]. destruct (FenSpec.str_eqb n name).
  - injection Hl as ->. left. reflexivity.
  - right. apply IH, Hl.
Qed.

(** no bool handler of the option table writes TTSize: the table size changes only through cacheSize *)
Lemma option_table_bool_not_ttsize name f :
  U.lookup name U.option_table = Some (U.HBool f) -> f <> U.TTSize.
Proof.
  intros Hl. apply lookup_in in Hl. unfold U.option_table in Hl. cbn [map snd] in Hl.
  repeat (destruct Hl as [Hl|Hl]; [try discriminate Hl; injection Hl as <-; discriminate|]).
  destruct Hl.
Qed.

Lemma tt_mb_set_other c f v : f <> U.TTSize -> tt_mb (U.cfg_set c f v) = tt_mb c.
Proof.
  intros Hf. unfold tt_mb, U.cfg_set.
  assert (U.field_eqb U.TTSize f = false) as -> by (destruct f; try reflexivity; contradiction).
  reflexivity.
Qed.

(* ------------------------------------------------------------------------- *)
Section Proofs.

Variables position result bookT evalst scratch : Type.
Variable startpos : position.
Variable new_eval : evalst.
Variable scratch_new : scratch.
Variable scratch_run : scratch.
Variable book_load : option bookT.
Variable search_fn :
  cfgvec -> position -> U.limits -> bool -> option T.tt -> N -> history -> evalst -> scratch ->
  outcome result evalst scratch.

(** the value of the search does not depend on the state of the evaluator object it is handed
    (C15: EvalProofs.eval_step_indep - fst (eval_step cfg p gp zkey s1) = fst (eval_step cfg p gp zkey s2)) *)
Hypothesis H_eval_pure : forall v p l x tv hf h e e' sc,
  o_res (search_fn v p l x tv hf h e sc) = o_res (search_fn v p l x tv hf h e' sc).

Local Notation St := (sstate position result bookT evalst scratch).
Local Notation stepT := (step position result evalst scratch).
Local Notation boot' := (boot (result:=result) (bookT:=bookT) startpos new_eval scratch_new).
Local Notation runs := (run_steps startpos scratch_run book_load).
Local Notation dostep := (do_step startpos scratch_run book_load).
Local Notation rsearch := (run_search scratch_run book_load search_fn).
Local Notation fresh := (fresh_result startpos new_eval scratch_new scratch_run book_load search_fn).

(** the table, if there is one, has the size the Hash option asks for *)
Definition tt_fits (s : St) : Prop := forall t, s_tt s = Some t -> shape (tt_mb (s_cfg s)) t.

(** the memory a search can read is that of a fresh engine: no table yet or the table NewTtTable would
    create, zero history *)
Definition pristine (s : St) : Prop :=
  (s_tt s = None \/ s_tt s = Some (T.new_tt (tt_mb (s_cfg s)))) /\ s_hist s = new_history.

(** *** [tt_fits] is an invariant of protocol-valid sessions *)

Lemma fits_boot c : tt_fits (boot' c).
Proof. intros t Ht. discriminate. Qed.

Lemma fits_initialize (s : St) : tt_fits s -> tt_fits (initialize book_load s).
Proof.
  intros H t. unfold initialize. cbn [s_tt s_cfg set_tt set_book].
  destruct (use_tt (s_cfg s)); [|apply H].
  destruct (s_tt s) as [t0|] eqn:E.
  - intros Ht. apply H. rewrite E. exact Ht.
  - intros Ht. injection Ht as <-. apply shape_new.
Qed.

Lemma fits_setoption n v (s : St) : tt_fits s -> tt_fits (setoption_step book_load n v s).
Proof.
  intros H. unfold setoption_step.
  destruct (U.lookup n U.option_table) as [h|] eqn:El; [|exact H].
  destruct h as [f| |k].
  - (* bool option *)
    intros t Ht. cbn [s_tt s_cfg set_cfg U.apply_handler] in *.
    rewrite tt_mb_set_other by (eapply option_table_bool_not_ttsize; exact El).
    apply H, Ht.
  - (* Hash: the table is dropped and created again *)
    unfold resize_cache. apply fits_initialize. intros t Ht. discriminate.
  - (* buttons *)
    assert (Hs1 : tt_fits (set_cfg s (U.apply_handler (U.HButton k) v (s_cfg s)))) by exact H.
    destruct k as [|[p|p|]]; try exact Hs1.
    intros t. unfold clear_hash. cbn [s_tt s_cfg set_tt set_cfg U.apply_handler].
    destruct (s_tt s) as [t0|] eqn:E; [|discriminate].
    cbn [option_map]. intros Ht. injection Ht as <-. apply shape_clear, H, E.
Qed.

Lemma fits_run_init (s : St) : tt_fits s -> tt_fits (run_init scratch_run book_load s).
Proof.
  intros H. unfold run_init.
  pose proof (fits_initialize (set_scratch s scratch_run) H) as H1.
  set (s1 := initialize book_load (set_scratch s scratch_run)) in *.
  intros t. cbn [s_tt s_cfg set_tt]. destruct (s_tt s1) as [t0|] eqn:E; [|discriminate].
  cbn [option_map]. intros Ht. injection Ht as <-. apply shape_age, H1, E.
Qed.

Lemma fits_go l bk out (s : St) : tt_fits s -> tt_fits (go_step scratch_run book_load l bk out s).
Proof.
  intros H. unfold go_step. pose proof (fits_run_init s H) as H1.
  set (s1 := run_init scratch_run book_load s) in *.
  destruct (if book_consulted s1 l then bk else None) as [r|].
  - exact H1.
  - intros t. unfold store_outcome. cbn [s_tt s_cfg]. destruct (s_tt s1) as [t0|] eqn:E; [|discriminate].
    cbn [option_map]. intros Ht. injection Ht as <-. apply shape_contents, H1, E.
Qed.

Lemma fits_newgame (s : St) : tt_fits s -> tt_fits (newgame_step startpos s).
Proof.
  intros H t. unfold newgame_step. cbn [s_tt s_cfg set_hist set_tt set_pos].
  destruct (s_tt s) as [t0|] eqn:E; [|discriminate].
  cbn [option_map]. intros Ht. injection Ht as <-. apply shape_clear, H, E.
Qed.

Lemma fits_step (s : St) (st : stepT) : valid_step st = true -> tt_fits s -> tt_fits (dostep s st).
Proof.
  intros Hv H. destruct st as [p|n v|v| |l bk out|]; cbn [do_step].
  - exact H.
  - apply fits_setoption, H.
  - discriminate.
  - apply fits_initialize, H.
  - apply fits_go, H.
  - apply fits_newgame, H.
Qed.

Lemma fits_steps (sts : list stepT) : forall s : St,
  forallb valid_step sts = true -> tt_fits s -> tt_fits (runs s sts).
Proof.
  induction sts as [|st sts IH]; intros s Hv H; [exact H|].
  cbn [forallb] in Hv. apply andb_true_iff in Hv as [Hv1 Hv2].
  unfold run_steps. cbn [fold_left]. apply IH; [exact Hv2|]. apply fits_step; assumption.
Qed.

(** *** ucinewgame makes the state pristine, non-searching commands keep it so *)

Lemma pristine_boot c : pristine (boot' c).
Proof. split; [left|]; reflexivity. Qed.

Lemma pristine_newgame (s : St) : tt_fits s -> pristine (newgame_step startpos s).
Proof.
  intros H. split; [|reflexivity].
  unfold newgame_step. cbn [s_tt s_cfg set_hist set_tt set_pos].
  destruct (s_tt s) as [t0|] eqn:E; [right|left; reflexivity].
  cbn [option_map]. f_equal. apply clear_is_fresh, H, E.
Qed.

Lemma pristine_initialize (s : St) : pristine s -> pristine (initialize book_load s).
Proof.
  intros [Ht Hh]. split; [|exact Hh].
  unfold initialize. cbn [s_tt s_cfg set_tt set_book].
  destruct (use_tt (s_cfg s)); [|exact Ht].
  destruct Ht as [-> | ->]; right; reflexivity.
Qed.

Lemma pristine_setoption n v (s : St) : pristine s -> pristine (setoption_step book_load n v s).
Proof.
  intros H. unfold setoption_step.
  destruct (U.lookup n U.option_table) as [h|] eqn:El; [|exact H].
  destruct h as [f| |k].
  - destruct H as [Ht Hh]. split; [|exact Hh].
    cbn [s_tt s_cfg set_cfg U.apply_handler].
    rewrite tt_mb_set_other by (eapply option_table_bool_not_ttsize; exact El). exact Ht.
  - unfold resize_cache. apply pristine_initialize.
    destruct H as [_ Hh]. split; [left; reflexivity|exact Hh].
  - assert (Hs1 : pristine (set_cfg s (U.apply_handler (U.HButton k) v (s_cfg s)))) by exact H.
    destruct k as [|[p|p|]]; try exact Hs1.
    destruct H as [Ht Hh]. split; [|exact Hh].
    unfold clear_hash. cbn [s_tt s_cfg set_tt set_cfg U.apply_handler].
    destruct Ht as [-> | ->]; [left; reflexivity|right]. cbn [option_map]. rewrite clear_new. reflexivity.
Qed.

Lemma pristine_step (s : St) (st : stepT) : quiet_step st = true -> pristine s -> pristine (dostep s st).
Proof.
  intros Hq H. destruct st as [p|n v|v| |l bk out|]; cbn [do_step]; try discriminate.
  - exact H.
  - apply pristine_setoption, H.
  - apply pristine_initialize, H.
Qed.

Lemma pristine_steps (sts : list stepT) : forall s : St,
  forallb quiet_step sts = true -> pristine s -> pristine (runs s sts).
Proof.
  induction sts as [|st sts IH]; intros s Hq H; [exact H|].
  cbn [forallb] in Hq. apply andb_true_iff in Hq as [Hq1 Hq2].
  unfold run_steps. cbn [fold_left]. apply IH; [exact Hq2|]. apply pristine_step; assumption.
Qed.

(** *** the frame: what reaches [search_fn] from a pristine state *)

(** the table handed to the search and the fill level shown, in a pristine state with option vector
    equal to that of [c] *)
Lemma pristine_views (s : St) c :
  pristine s -> vec_of c = vec_of (s_cfg s) ->
  tt_view (run_init scratch_run book_load s) = (if use_tt c then Some (T.new_tt (tt_mb c)) else None) /\
  hashfull_view (run_init scratch_run book_load s) = 0%N.
Proof.
  intros [Ht _] Hv.
  rewrite (use_tt_vec _ _ Hv), (tt_mb_vec _ _ Hv).
  unfold tt_view, hashfull_view, run_init, initialize.
  cbn [s_tt s_cfg set_tt set_book set_scratch].
  destruct (use_tt (s_cfg s)).
  - destruct Ht as [-> | ->]; cbn [option_map]; rewrite age_new, hashfull_new; split; reflexivity.
  - destruct Ht as [-> | ->]; cbn [option_map]; [split; reflexivity|].
    rewrite age_new, hashfull_new. split; reflexivity.
Qed.

Lemma untimed_no_book (s1 : St) l : U.l_timecontrol l = false -> book_consulted s1 l = false.
Proof. intros H. unfold book_consulted. rewrite H. apply andb_false_r. Qed.

Lemma untimed_no_extra (s1 : St) l : U.l_timecontrol l = false -> extra_granted s1 l = false.
Proof. intros H. unfold extra_granted. rewrite H, andb_false_r. reflexivity. Qed.

(** an untimed search from a pristine state = the same search on a fresh engine *)
Lemma pristine_search (s : St) c l bk bk' :
  pristine s -> vec_of c = vec_of (s_cfg s) -> U.l_timecontrol l = false ->
  rsearch s l bk = fresh c (s_pos s) l bk'.
Proof.
  intros Hp Hv Hl. unfold fresh_result, run_search.
  rewrite !untimed_no_book by exact Hl.
  unfold call_search. rewrite !untimed_no_extra by exact Hl.
  destruct (pristine_views s c Hp Hv) as [-> ->].
  assert (Hpb : pristine (set_pos (boot' c) (s_pos s))) by (split; [left|]; reflexivity).
  destruct (pristine_views (set_pos (boot' c) (s_pos s)) c Hpb eq_refl) as [-> ->].
  destruct Hp as [_ Hh].
  change (s_cfg (run_init scratch_run book_load s)) with (s_cfg s).
  change (s_pos (run_init scratch_run book_load s)) with (s_pos s).
  change (s_hist (run_init scratch_run book_load s)) with (s_hist s).
  change (s_scratch (run_init scratch_run book_load s)) with scratch_run.
  change (s_eval (run_init scratch_run book_load s)) with (s_eval s).
  change (s_cfg (run_init scratch_run book_load (set_pos (boot' c) (s_pos s)))) with c.
  change (s_pos (run_init scratch_run book_load (set_pos (boot' c) (s_pos s)))) with (s_pos s).
  change (s_hist (run_init scratch_run book_load (set_pos (boot' c) (s_pos s)))) with new_history.
  change (s_scratch (run_init scratch_run book_load (set_pos (boot' c) (s_pos s)))) with scratch_run.
  change (s_eval (run_init scratch_run book_load (set_pos (boot' c) (s_pos s)))) with new_eval.
  rewrite Hh, <- Hv. apply H_eval_pure.
Qed.

Lemma runs_app (s : St) a b : runs s (a ++ b) = runs (runs s a) b.
Proof. unfold run_steps. apply fold_left_app. Qed.

(** ** the main theorem

    [steps]: any protocol-valid session (position, setoption while waiting, isready, go with ANY
    outcome - timed, stopped, pondering, from the book -, ucinewgame) on an engine started with
    Settings [c0]; then ucinewgame; then commands that do not search ([quiet]: position, setoption,
    isready); then position p and an untimed depth-limited go.  The result is that of the same go on a
    fresh engine whose option vector is the one the session has reached - whatever the book look-up would
    yield ([bk], [bk']), whatever hadBookMove, lastSearchResult, the evaluator state and the per-search
    fields contain. *)
Theorem newgame_equals_fresh :
  forall (c0 : U.cfg) (steps quiet : list stepT) (p : position) (l : U.limits)
         (bk bk' : option result) (c : U.cfg),
    forallb valid_step steps = true ->
    forallb quiet_step quiet = true ->
    untimed_depth l ->
    let s := runs (boot' c0) steps in
    let s' := runs (newgame_step startpos s) (quiet ++ [StPosition p]) in
    vec_of c = vec_of (s_cfg s') ->
    rsearch s' l bk = fresh c p l bk'.
Proof.
  intros c0 steps quiet p l bk bk' c Hv Hq [Hl _] s s' Hc.
  assert (Hfit : tt_fits s) by (apply fits_steps; [exact Hv|apply fits_boot]).
  assert (Hpr : pristine s').
  { apply pristine_steps; [|apply pristine_newgame, Hfit].
    rewrite forallb_app, Hq. reflexivity. }
  assert (Hpos : s_pos s' = p).
  { unfold s'. rewrite runs_app. reflexivity. }
  rewrite <- Hpos. apply pristine_search; assumption.
Qed.

(** the plain form: ucinewgame ; position p ; go depth d *)
Corollary newgame_equals_fresh_depth :
  forall (c0 : U.cfg) (steps : list stepT) (p : position) (d : Z) (bk bk' : option result),
    forallb valid_step steps = true ->
    (0 < d)%Z ->
    let s := runs (boot' c0) steps in
    rsearch (set_pos (newgame_step startpos s) p) (depth_limits d) bk
    = fresh (s_cfg s) p (depth_limits d) bk'.
Proof.
  intros c0 steps p d bk bk' Hv Hd s.
  apply (newgame_equals_fresh c0 steps [] p (depth_limits d) bk bk' (s_cfg s) Hv eq_refl).
  - repeat split; try reflexivity. exact Hd.
  - reflexivity.
Qed.

(** a fresh process brought to its option vector by commands that do not search is as good as [boot] *)
Theorem fresh_setup_equals_boot :
  forall (c0 : U.cfg) (quiet : list stepT) (p : position) (l : U.limits) (bk bk' : option result),
    forallb quiet_step quiet = true ->
    untimed_depth l ->
    rsearch (runs (boot' c0) (quiet ++ [StPosition p])) l bk
    = fresh (s_cfg (runs (boot' c0) quiet)) p l bk'.
Proof.
  intros c0 quiet p l bk bk' Hq [Hl _].
  set (s' := runs (boot' c0) (quiet ++ [StPosition p])).
  assert (Hpr : pristine s').
  { apply pristine_steps; [|apply pristine_boot]. rewrite forallb_app, Hq. reflexivity. }
  assert (Hpos : s_pos s' = p) by (unfold s'; rewrite runs_app; reflexivity).
  rewrite <- Hpos. apply pristine_search; [exact Hpr| |exact Hl].
  unfold s'. rewrite runs_app. reflexivity.
Qed.

(** two fresh engines with the same option vector give the same result *)
Corollary fresh_result_ext :
  forall (c c' : U.cfg) (p : position) (l : U.limits) (bk bk' : option result),
    vec_of c = vec_of c' -> untimed_depth l -> fresh c p l bk = fresh c' p l bk'.
Proof.
  intros c c' p l bk bk' Hv [Hl _].
  change (fresh c p l bk) with (rsearch (set_pos (boot' c) p) l bk).
  apply (pristine_search (set_pos (boot' c) p) c' l bk bk'); [|symmetry; exact Hv|exact Hl].
  split; [left|]; reflexivity.
Qed.

(** the deterministic search step is one of the [StGo] steps the sessions range over *)
Lemma go_fn_is_step (s : St) l bk :
  go_fn_step scratch_run book_load search_fn l bk s
  = dostep s (StGo l bk (call_search search_fn (run_init scratch_run book_load s) l)).
Proof. reflexivity. Qed.

End Proofs.

(* ------------------------------------------------------------------------- *)
(** ** non-vacuity: the toy engine of SessionMem.v *)

Lemma toy_eval_pure : forall v p l x tv hf h e e' sc,
  o_res (toy_search v p l x tv hf h e sc) = o_res (toy_search v p l x tv hf h e' sc).
Proof.
  intros v p l x tv hf h e e' sc. unfold toy_search. destruct tv as [t|]; [|reflexivity].
  destruct (T.probe (toy_puts t p (U.l_depth l)) p) as [t2 r1].
  destruct (T.probe t2 (p + 65536)%N) as [t3 r2]. reflexivity.
Qed.

Definition toy_boot (c : U.cfg) : sstate N toy_result N N unit := boot 1%N 0%N tt c.
Definition toy_runs := run_steps (position:=N) (result:=toy_result) (bookT:=N) (evalst:=N) 1%N tt (Some 7%N).
Definition toy_go l s := go_fn_step (bookT:=N) tt (Some 7%N) toy_search l None s.
Definition toy_search_in s l := run_search (bookT:=N) tt (Some 7%N) toy_search s l None.
Definition toy_fresh c p l := fresh_result (bookT:=N) 1%N 0%N tt tt (Some 7%N) toy_search c p l None.

(** a session with two searches that fill the table and the history tables (and change the evaluator
    state), then ucinewgame: the third search equals the one of a fresh engine - and without ucinewgame
    it does not *)
Example session_example :
  let s1 := toy_runs (toy_boot toy_cfg) [StSetOption (U.b "Hash"%string) (U.b "2"%string); StPosition 5%N] in
  let s2 := toy_go (depth_limits 3) s1 in
  let s3 := toy_go (depth_limits 4) (set_pos s2 9%N) in
  let s4 := toy_go (depth_limits 2) (set_pos s3 5%N) in
  (* the memory is used: 2 + 2 entries (in the 131,072 slots of 2 MB the third key of a search collides
     with its first and is shallower), history counters, evaluator state, last result *)
  option_map T.len (s_tt s4) = Some 4%N /\
  h_count (s_hist s4) !! 5%N = Some 2%Z /\ h_count (s_hist s4) !! 9%N = Some 1%Z /\
  s_eval s4 = 3%N /\ s_last s4 <> None /\
  s_cfg s4 U.TTSize = 2%Z /\
  (* after ucinewgame: as on a fresh engine *)
  toy_search_in (set_pos (newgame_step 1%N s4) 5%N) (depth_limits 3) = toy_fresh (s_cfg s4) 5%N (depth_limits 3) /\
  (* without ucinewgame: not *)
  toy_search_in (set_pos s4 5%N) (depth_limits 3) <> toy_fresh (s_cfg s4) 5%N (depth_limits 3).
Proof. vm_compute. repeat split; try reflexivity; discriminate. Qed.

(** the main theorem applies to the toy engine (its hypothesis is satisfiable) *)
Example newgame_equals_fresh_toy :=
  newgame_equals_fresh N toy_result N N unit 1%N 0%N tt tt (Some 7%N) toy_search toy_eval_pure.

(** NOT reset by ucinewgame and visible to a TIMED search: hadBookMove (a book move, then ucinewgame: the
    first timed search of the new game is granted the extra time of "the move after the book", a fresh
    engine is not).  Confirmed on the real engine: VerifHadBookMove() stays true over ucinewgame.  Outside
    the clause (it speaks of fixed-depth searches): the guard [untimed_depth] is needed. *)
Example hadBookMove_survives_newgame :
  let timed := U.mklimits false false 0 0 0 0 60000000000 60000000000 0 0 0 true [] in
  let s := toy_runs (toy_boot toy_cfg)
             [StGo timed (Some ([], 0%N, 0%Z)) (Outcome ([], 0%N, 0%Z) ∅ 0%N new_history 0%N tt); StNewGame] in
  s_hadBook s = true /\
  extra_granted (run_init tt (Some 7%N) s) timed = true /\
  extra_granted (run_init tt (Some 7%N) (toy_boot (s_cfg s))) timed = false /\
  extra_granted (run_init tt (Some 7%N) s) (depth_limits 5) = false.
Proof. vm_compute. repeat split; reflexivity. Qed.

(* ------------------------------------------------------------------------- *)
(** ** the guard [valid_step] cannot be dropped

    setoption name Hash value 1 ; position ; go infinite ; [during the search] setoption name Hash value 64 ;
    stop ; ucinewgame ; position ; go depth 3.
    Settings.Search.TTSize is 64 but the table still has the 65,536 slots of 1 MB: keys that differ by
    65,536 collide there and do not in the 4,194,304 slots of a fresh engine with Hash = 64.
    Real engine (Go probe, r3k2r/p1ppqpb1/bn2pnp1/3PN3/1p2P3/2N2Q1p/PPPBBPPP/R3K2R w KQkq - 0 1):
      depth 6: nodes 95511 after ucinewgame, 94126 on the fresh engine;
      depth 7: seldepth 29 nodes 723545 against seldepth 23 nodes 680364 (same score, pv and bestmove). *)
Theorem newgame_equals_fresh_refuted_hash_busy :
  exists (steps : list (step N toy_result N unit)) (p : N) (d : Z),
    (0 < d)%Z /\
    List.filter (fun st => negb (valid_step st)) steps = [StSetHashBusy (U.b "64"%string)] /\
    let s := toy_runs (toy_boot toy_cfg) steps in
    s_cfg s U.TTSize = 64%Z /\
    option_map T.cap (s_tt (newgame_step 1%N s)) = Some 65536%N /\
    toy_search_in (set_pos (newgame_step 1%N s) p) (depth_limits d)
    <> toy_fresh (s_cfg s) p (depth_limits d).
Proof.
  set (s1 := toy_runs (toy_boot toy_cfg) [StSetOption (U.b "Hash"%string) (U.b "1"%string); StPosition 5%N]).
  set (linf := U.mklimits true false 0 0 0 0 0 0 0 0 0 false []).
  exists [StSetOption (U.b "Hash"%string) (U.b "1"%string); StPosition 5%N;
          StGo linf None (call_search toy_search (run_init tt (Some 7%N) s1) linf);
          StSetHashBusy (U.b "64"%string)], 5%N, 3%Z.
  vm_compute. repeat split; try reflexivity; discriminate.
Qed.

Print Assumptions cleared_table_is_fresh.
Print Assumptions cleared_observationally_fresh.
Print Assumptions newgame_equals_fresh.
Print Assumptions newgame_equals_fresh_depth.
Print Assumptions fresh_setup_equals_boot.
Print Assumptions fresh_result_ext.
Print Assumptions session_example.
Print Assumptions newgame_equals_fresh_refuted_hash_busy.
