(** * AttacksProofs: the engine's attack queries agree with the mailbox rules (C09, part 1).

    - [is_attacked_exact] : IsAttacked = Rules.attacked + en-passant convention 1, never fails
    - [has_check_exact]   : HasCheck = Rules.in_check
    - [attacks_to_exact]  : AttacksTo = Rules.attackers + en-passant convention 2, never fails
    GivesCheck and the legality tests are in [AttacksCheckProofs] / [AttacksLegalProofs]. *)
From Coq Require Import NArith ZArith List Bool Lia ZifyN ZifyBool Btauto.
From FG Require Import Word64 Geom Tables TablesCorrect ShiftCorrect Rules FenSpec Oracle BitView AttacksImpl AttacksLemmas.
From FG.gen Require Import Tables_gen.
Import ListNotations.
Open Scope N_scope.

(** ** what the queries need of a position (weaker than [legal_pos]: holds after any
       pseudo-legal move as well) *)
Definition wf_att (p : pos) : Prop :=
  length (brd p) = 64%nat /\ codes_ok (brd p) /\ (ep p = 64 \/ 8 <= ep p < 56).

Lemma at_in_or_zero (b : list N) s : at_ b s = 0 \/ In (at_ b s) b.
Proof.
  unfold at_. destruct (nth_in_or_default (N.to_nat s) b 0) as [H|H]; [now right|now left].
Qed.

Lemma rank_of_bounds e r : rank_of e = r -> 8 * r <= e < 8 * r + 8.
Proof.
  unfold rank_of. rewrite N.shiftr_div_pow2. change (2 ^ 3) with 8. intros <-.
  pose proof (N.div_mod e 8). pose proof (N.mod_lt e 8). lia.
Qed.

Lemma legal_pos_inv p : legal_pos p = true ->
  length (brd p) = 64%nat /\
  forallb (fun pc => existsb (N.eqb pc) [0;1;2;3;4;5;6;9;10;11;12;13;14]) (brd p) = true /\
  count_piece (brd p) (mk_piece WHITE KING) = 1%nat /\
  count_piece (brd p) (mk_piece BLACK KING) = 1%nat /\
  stm p < 2 /\ cr p < 16 /\
  in_check_b (brd p) (flip (stm p)) = false /\
  forallb (fun s => negb (type_of (piece_at p s) =? PAWN) || negb ((rank_of s =? 0) || (rank_of s =? 7))) squares64 = true /\
  rights_ok p = true /\ ep_ok p = true.
Proof.
  unfold legal_pos. intros H.
  apply andb_true_iff in H as [H H10]. apply andb_true_iff in H as [H H9].
  apply andb_true_iff in H as [H H8]. apply andb_true_iff in H as [H H7].
  apply andb_true_iff in H as [H H6]. apply andb_true_iff in H as [H H5].
  apply andb_true_iff in H as [H H4]. apply andb_true_iff in H as [H H3].
  apply andb_true_iff in H as [H1 H2].
  apply Nat.eqb_eq in H1, H3, H4. apply N.ltb_lt in H5, H6. apply negb_true_iff in H7.
  repeat split; assumption.
Qed.

Lemma legal_pos_wf p : legal_pos p = true -> wf_att p.
Proof.
  intros H. apply legal_pos_inv in H as (Hl & Hcodes & _ & _ & _ & _ & _ & _ & _ & He).
  repeat split.
  - exact Hl.
  - intros s. destruct (at_in_or_zero (brd p) s) as [-> | Hin]; [lia|].
    rewrite forallb_forall in Hcodes. specialize (Hcodes _ Hin).
    apply existsb_exists in Hcodes as [x [Hx E]]. apply N.eqb_eq in E. subst x.
    cbn in Hx. lia.
  - unfold ep_ok in He.
    destruct (N.eqb_spec (ep p) 64) as [E|E]; [now left|right].
    repeat (apply andb_true_iff in He as [He ?]). apply N.eqb_eq in He.
    destruct (stm p =? WHITE); apply rank_of_bounds in He; lia.
Qed.

(** ** table lookups on the view *)
Lemma get_pawn_attacks_exact c s : c < 2 -> s < 64 ->
  get_pawn_attacks c s = Some (bb_of (pawn_attack_targets c s)).
Proof.
  intros Hc Hs. unfold get_pawn_attacks. assert (c = 0 \/ c = 1) as [-> | ->] by lia; cbn [N.eqb].
  - now apply pawn_attacks_white_exact.
  - now apply pawn_attacks_black_exact.
Qed.

Lemma get_knight_exact s occ : s < 64 -> get_attacks_bb KNIGHT s occ = Some (bb_of (knight_targets s)).
Proof. intros Hs. change (get_attacks_bb KNIGHT s occ) with (look t_pseudo_knight s). now apply knight_attacks_exact. Qed.
Lemma get_king_exact s occ : s < 64 -> get_attacks_bb KING s occ = Some (bb_of (king_targets s)).
Proof. intros Hs. change (get_attacks_bb KING s occ) with (look t_pseudo_king s). now apply king_attacks_exact. Qed.
Lemma get_bishop_exact s occ : s < 64 -> get_attacks_bb BISHOP s occ = Some (slide bishop_dirs s occ).
Proof. intros Hs. change (get_attacks_bb BISHOP s occ) with (bishop_attacks_impl s occ). now apply bishop_attacks_exact. Qed.
Lemma get_rook_exact s occ : s < 64 -> get_attacks_bb ROOK s occ = Some (slide rook_dirs s occ).
Proof. intros Hs. change (get_attacks_bb ROOK s occ) with (rook_attacks_impl s occ). now apply rook_attacks_exact. Qed.
Lemma get_queen_exact s occ : s < 64 -> get_attacks_bb QUEEN s occ = Some (slide (bishop_dirs ++ rook_dirs) s occ).
Proof. intros Hs. change (get_attacks_bb QUEEN s occ) with (queen_attacks_impl s occ). now apply queen_attacks_exact. Qed.

(** ** sliders: intersection of a slide word with a piece word = the spec's ray test *)
Definition ray_hit (b : list N) (s c : N) (dirs : list dir) (ty : N) : bool :=
  existsb (fun d => let e := last (walkb 7 b d s) 64 in (e <? 64) && is_piece b e c ty) dirs.

Lemma mk_piece_nz c ty : ty <> 0 -> mk_piece c ty <> 0.
Proof. unfold mk_piece. lia. Qed.

Lemma meets_slide b s c dirs ty : ty <> 0 ->
  meets (slide dirs s (occ_of b)) (piece_word b c ty) = ray_hit b s c dirs ty.
Proof.
  intros Hty. unfold slide. rewrite meets_piece_word; [|exact Hty|].
  - rewrite existsb_concat_map. unfold ray_hit. apply existsb_ext_in. intros d _.
    rewrite walk_walkb. unfold is_piece. apply walkb_last_hit. now apply mk_piece_nz.
  - intros t Ht. apply in_concat in Ht as [l [Hl Ht]].
    apply in_map_iff in Hl as [d [<- _]]. now apply walk_lt in Ht.
Qed.

Lemma slider_hits_split b s c dirs t1 t2 :
  slider_hits b s c dirs t1 t2 = ray_hit b s c dirs t1 || ray_hit b s c dirs t2.
Proof.
  unfold slider_hits, ray_hit. rewrite <- existsb_orb. apply existsb_ext_in. intros d _.
  cbv zeta. btauto.
Qed.

Lemma ray_hit_app b s c d1 d2 ty : ray_hit b s c (d1 ++ d2) ty = ray_hit b s c d1 ty || ray_hit b s c d2 ty.
Proof. unfold ray_hit. apply existsb_app. Qed.

(** ** the en-passant clause *)
Lemma file_of_mod s : file_of s = s mod 8.
Proof. unfold file_of. change 7 with (N.ones 3). now rewrite N.land_ones. Qed.

Lemma file_succ_lt s : s < 64 -> file_of s < 7 -> s + 1 < 64.
Proof.
  rewrite file_of_mod. intros Hs Hf. pose proof (N.div_mod s 8 ltac:(discriminate)).
  assert (s / 8 < 8) by (apply N.div_lt_upper_bound; lia). lia.
Qed.

Lemma ep_neighbours_exact p s pawn : length (brd p) = 64%nat -> s < 64 ->
  ep_neighbours (view_of_spec p) s pawn =
  Some (((0 <? file_of s) && (piece_at p (s - 1) =? pawn)) || ((file_of s <? 7) && (piece_at p (s + 1) =? pawn))).
Proof.
  intros Hl Hs. unfold ep_neighbours. rewrite !sq_to_exact by exact Hs.
  rewrite step_west, step_east by exact Hs. cbn [bind].
  assert (Hf : file_of s < 8) by (rewrite file_of_mod; apply N.mod_lt; discriminate).
  assert (Hfe : file_of s <= s) by (rewrite file_of_mod; apply N.mod_le; discriminate).
  destruct (N.ltb_spec 0 (file_of s)) as [H0|H0]; cbn [andb orb].
  - replace (s - 1 =? 64) with false by (symmetry; apply N.eqb_neq; lia).
    rewrite board_at_view by (try exact Hl; lia). cbn [bind]. unfold piece_at.
    destruct (at_ (brd p) (s - 1) =? pawn); cbn [orb]; [reflexivity|].
    destruct (N.ltb_spec (file_of s) 7) as [H7|H7]; cbn [andb].
    + assert (Hs1 : s + 1 < 64) by now apply file_succ_lt.
      replace (s + 1 =? 64) with false by (symmetry; apply N.eqb_neq; lia).
      rewrite board_at_view by assumption. reflexivity.
    + reflexivity.
  - change (64 =? 64) with true. cbv iota. cbn [bind].
    destruct (N.ltb_spec (file_of s) 7) as [H7|H7]; cbn [andb].
    + assert (Hs1 : s + 1 < 64) by now apply file_succ_lt.
      replace (s + 1 =? 64) with false by (symmetry; apply N.eqb_neq; lia).
      rewrite board_at_view by assumption. reflexivity.
    + reflexivity.
Qed.

Lemma is_attacked_ep_exact p s c : wf_att p -> s < 64 -> c < 2 ->
  is_attacked_ep (view_of_spec p) s c = Some (ep_conv1 p s c).
Proof.
  intros [Hl [Hc He]] Hs Hc2. unfold is_attacked_ep, ep_conv1. cbn [vep view_of_spec].
  destruct (N.eqb_spec (ep p) 64) as [E|E]; [reflexivity|].
  destruct He as [He|He]; [contradiction|].
  assert (Hep : ep p < 64) by lia.
  assert (c = 0 \/ c = 1) as [-> | ->] by lia.
  - change (0 =? WHITE) with true. cbv iota.
    rewrite sq_to_exact, step_south by exact Hep.
    replace (8 <=? ep p) with true by (symmetry; apply N.leb_le; lia). cbn [bind].
    rewrite board_at_view by (try exact Hl; lia). cbn [bind].
    change (mk_piece (flip 0) PAWN) with (mk_piece BLACK PAWN). unfold piece_at.
    rewrite (N.eqb_sym s (ep p - 8)).
    destruct (ep p - 8 =? s) eqn:E1; [|rewrite andb_false_r; reflexivity].
    rewrite andb_true_r. cbn [andb].
    destruct (at_ (brd p) (ep p - 8) =? mk_piece BLACK PAWN); [|reflexivity].
    cbn [andb]. now apply ep_neighbours_exact.
  - change (1 =? WHITE) with false. change (1 =? BLACK) with true. cbv iota.
    rewrite sq_to_exact, step_north by exact Hep.
    replace (ep p <? 56) with true by (symmetry; apply N.ltb_lt; lia). cbn [bind].
    rewrite board_at_view by (try exact Hl; lia). cbn [bind].
    change (mk_piece (flip 1) PAWN) with (mk_piece WHITE PAWN). unfold piece_at.
    rewrite (N.eqb_sym s (ep p + 8)).
    destruct (ep p + 8 =? s) eqn:E1; [|rewrite andb_false_r; reflexivity].
    rewrite andb_true_r. cbn [andb].
    destruct (at_ (brd p) (ep p + 8) =? mk_piece WHITE PAWN); [|reflexivity].
    cbn [andb]. now apply ep_neighbours_exact.
Qed.

(** ** IsAttacked *)
Lemma if_some (a e : bool) : (if a then Some true else Some e) = Some (a || e).
Proof. now destruct a. Qed.

Theorem is_attacked_exact_wf p s c : wf_att p -> s < 64 -> c < 2 ->
  is_attacked_impl (view_of_spec p) s c = Some (is_attacked_spec p s c).
Proof.
  intros Hwf Hs Hc. pose proof Hwf as [Hl [Hco He]].
  assert (Hfc : flip c < 2) by (unfold flip; lia).
  unfold is_attacked_impl. rewrite occ_all_view by exact Hco. rewrite flipc_flip by exact Hc.
  rewrite get_pawn_attacks_exact, get_knight_exact, get_king_exact, get_bishop_exact, get_rook_exact,
    get_queen_exact by assumption.
  rewrite !pbb_view by (try exact Hc; unfold PAWN, KNIGHT, KING, BISHOP, ROOK, QUEEN; lia).
  cbn [bind].
  rewrite !meets_piece_word by (try discriminate; intros t Ht;
    first [now apply pawn_targets_lt in Ht | now apply knight_targets_lt in Ht | now apply king_targets_lt in Ht]).
  rewrite !meets_slide by discriminate.
  rewrite is_attacked_ep_exact by assumption.
  rewrite !if_some. f_equal.
  unfold is_attacked_spec, attacked. rewrite !slider_hits_split, ray_hit_app. btauto.
Qed.

Theorem is_attacked_exact p s c : legal_pos p = true -> s < 64 -> c < 2 ->
  is_attacked_impl (view_of_spec p) s c = Some (is_attacked_spec p s c).
Proof. intros H. apply is_attacked_exact_wf. now apply legal_pos_wf. Qed.

(** ** HasCheck *)
Lemma king_sq_spec b c : count_piece b (mk_piece c KING) = 1%nat ->
  king_sq b c < 64 /\ at_ b (king_sq b c) = mk_piece c KING.
Proof.
  unfold count_piece, king_sq, is_piece. intros H.
  destruct (filter (fun s => at_ b s =? mk_piece c KING) squares64) as [|k l] eqn:E; [discriminate|].
  assert (Hin : In k (filter (fun s => at_ b s =? mk_piece c KING) squares64)) by (rewrite E; now left).
  apply filter_In in Hin as [H1 H2]. apply in_squares64 in H1. apply N.eqb_eq in H2. now split.
Qed.

Lemma ep_conv1_false p s byc : piece_at p s <> mk_piece (flip byc) PAWN -> ep_conv1 p s byc = false.
Proof.
  intros H. unfold ep_conv1. destruct (ep p =? 64); [reflexivity|]. cbv zeta.
  destruct (N.eqb_spec s (if byc =? WHITE then ep p - 8 else ep p + 8)) as [E|E]; [|reflexivity].
  rewrite <- E. apply N.eqb_neq in H. rewrite H. reflexivity.
Qed.

Lemma king_not_pawn c c' : mk_piece c KING <> mk_piece c' PAWN.
Proof. unfold mk_piece, KING, PAWN. lia. Qed.

Theorem has_check_exact p : legal_pos p = true ->
  has_check_impl (view_of_spec p) = Some (in_check p).
Proof.
  intros H. pose proof (legal_pos_wf p H) as Hwf.
  apply legal_pos_inv in H as (_ & _ & Hkw & Hkb & Hstm & _).
  unfold has_check_impl. cbn [vstm view_of_spec].
  assert (Hk : king_square (view_of_spec p) (stm p) = Some (king_sq (brd p) (stm p))).
  { unfold king_square. cbn [vking view_of_spec fst snd].
    assert (stm p = 0 \/ stm p = 1) as [-> | ->] by lia; reflexivity. }
  rewrite Hk. cbn [bind].
  assert (Hks : king_sq (brd p) (stm p) < 64 /\ at_ (brd p) (king_sq (brd p) (stm p)) = mk_piece (stm p) KING).
  { assert (stm p = 0 \/ stm p = 1) as [E | E] by lia; rewrite E.
    - exact (king_sq_spec (brd p) WHITE Hkw).
    - exact (king_sq_spec (brd p) BLACK Hkb). }
  destruct Hks as [Hk1 Hk2].
  rewrite flipc_flip by exact Hstm.
  rewrite is_attacked_exact_wf; [|exact Hwf|exact Hk1|unfold flip; lia].
  f_equal. unfold is_attacked_spec, in_check, in_check_b.
  rewrite ep_conv1_false; [apply orb_false_r|].
  unfold piece_at. rewrite Hk2. apply king_not_pawn.
Qed.

(** ** AttacksTo *)
(* the filter predicate of [Rules.attackers] *)
Definition att_from (b : list N) (s byc : N) (t : N) : bool :=
  let pc := at_ b t in
  (negb (pc =? 0)) && (colour_of pc =? byc) &&
  (let ty := type_of pc in
   if ty =? PAWN then existsb (N.eqb s) (pawn_attack_targets byc t)
   else if ty =? KNIGHT then existsb (N.eqb s) (knight_targets t)
   else if ty =? KING then existsb (N.eqb s) (king_targets t)
   else if ty =? ROOK then existsb (N.eqb s) (rays_from b rook_dirs t)
   else if ty =? BISHOP then existsb (N.eqb s) (rays_from b bishop_dirs t)
   else if ty =? QUEEN then existsb (N.eqb s) (rays_from b all_dirs t)
   else false).

Lemma attackers_word b s c : bb_of (attackers b s c) = bb_filter (att_from b s c).
Proof. unfold attackers, bb_filter. f_equal. Qed.

Lemma rays_from_slide b dirs t s :
  existsb (N.eqb s) (rays_from b dirs t) = slide_in (occ_of b) dirs t s.
Proof.
  unfold rays_from, slide_in, ray_in. rewrite existsb_concat_map. apply existsb_ext_in.
  intros d _. now rewrite walk_walkb.
Qed.

Lemma slide_in_app occ d1 d2 s t : slide_in occ (d1 ++ d2) s t = slide_in occ d1 s t || slide_in occ d2 s t.
Proof. unfold slide_in. apply existsb_app. Qed.

Lemma piece_case pc c (P Nn K R B : bool) : c < 2 ->
  (P && (pc =? mk_piece c PAWN)) || (Nn && (pc =? mk_piece c KNIGHT)) || (K && (pc =? mk_piece c KING))
  || (R && ((pc =? mk_piece c ROOK) || (pc =? mk_piece c QUEEN)))
  || (B && ((pc =? mk_piece c BISHOP) || (pc =? mk_piece c QUEEN)))
  = negb (pc =? 0) && (colour_of pc =? c) &&
    (let ty := type_of pc in
     if ty =? PAWN then P else if ty =? KNIGHT then Nn else if ty =? KING then K
     else if ty =? ROOK then R else if ty =? BISHOP then B else if ty =? QUEEN then R || B else false).
Proof.
  intros Hc. unfold colour_of, type_of, mk_piece, PAWN, KNIGHT, KING, ROOK, BISHOP, QUEEN. cbv zeta.
  pose proof (N.div_mod pc 8 ltac:(discriminate)) as Hpc.
  pose proof (N.mod_lt pc 8 ltac:(discriminate)) as Hm.
  destruct (N.eqb_spec (pc / 8) c) as [Eq|Nq].
  - assert (Hm' : pc mod 8 = 0 \/ pc mod 8 = 1 \/ pc mod 8 = 2 \/ pc mod 8 = 3 \/ pc mod 8 = 4 \/
                  pc mod 8 = 5 \/ pc mod 8 = 6 \/ pc mod 8 = 7) by lia.
    assert (Hc' : c = 0 \/ c = 1) by lia.
    destruct Hc' as [-> | ->]; decompose [or] Hm'; clear Hm';
      match goal with E : pc mod 8 = _ |- _ => rewrite E in Hpc |- *; rewrite Eq in Hpc; rewrite Hpc end;
      destruct P, Nn, K, R, B; reflexivity.
  - assert (Hk : forall k, k < 8 -> (pc =? 8 * c + k) = false).
    { intros k Hk. apply N.eqb_neq. intros E. apply Nq. rewrite E.
      rewrite N.mul_comm, N.div_add_l by discriminate. rewrite N.div_small by exact Hk. lia. }
    rewrite !Hk by lia. rewrite !andb_false_r. reflexivity.
Qed.

Lemma attackers_main b s c : s < 64 -> c < 2 ->
  N.lor (N.lor (N.lor (N.lor
     (N.land (bb_of (pawn_attack_targets (flip c) s)) (piece_word b c PAWN))
     (N.land (bb_of (knight_targets s)) (piece_word b c KNIGHT)))
     (N.land (bb_of (king_targets s)) (piece_word b c KING)))
     (N.land (slide rook_dirs s (occ_of b)) (N.lor (piece_word b c ROOK) (piece_word b c QUEEN))))
     (N.land (slide bishop_dirs s (occ_of b)) (N.lor (piece_word b c BISHOP) (piece_word b c QUEEN)))
  = bb_of (attackers b s c).
Proof.
  intros Hs Hc. rewrite attackers_word. apply N.bits_inj. intros t.
  rewrite !N.lor_spec, !N.land_spec, !N.lor_spec, !slide_testbit, !bb_of_testbit, bb_filter_testbit.
  rewrite !piece_word_testbit by discriminate.
  destruct (N.ltb_spec t 64) as [Ht|Ht]; cbn [andb]; [|rewrite !andb_false_r; reflexivity].
  rewrite pawn_sym, knight_sym, king_sym by assumption.
  rewrite (slide_in_sym _ rook_dirs s t rook_dirs_closed Hs Ht).
  rewrite (slide_in_sym _ bishop_dirs s t bishop_dirs_closed Hs Ht).
  unfold att_from. rewrite !rays_from_slide.
  change all_dirs with (rook_dirs ++ bishop_dirs). rewrite slide_in_app.
  now apply piece_case.
Qed.

(* neighbour files & rank of a square = its west and east neighbours (finite check) *)
Definition ep_neigh_list (ps : N) : list N :=
  (if 0 <? file_of ps then [ps - 1] else []) ++ (if file_of ps <? 7 then [ps + 1] else []).

Lemma ep_mask_check :
  forallb (fun ps => (N.land (neighbour_files ps) (wshl 255 (8 * N.shiftr ps 3)) =? bb_of (ep_neigh_list ps))
                     && (N.shiftr ps 3 <? 8) && forallb (fun t => t <? 64) (ep_neigh_list ps)) squares64 = true.
Proof. vm_compute. reflexivity. Qed.

Lemma attacks_to_ep_exact p s c : wf_att p -> s < 64 -> c < 2 ->
  attacks_to_ep (view_of_spec p) s c = Some (bb_of (ep_conv2 p s c)).
Proof.
  intros [Hl [Hco He]] Hs Hc. unfold attacks_to_ep, ep_conv2. cbn [vep view_of_spec].
  destruct (N.eqb_spec (ep p) 64) as [E|E]; cbn [negb andb orb]; [reflexivity|].
  rewrite (N.eqb_sym s (ep p)). destruct (N.eqb_spec (ep p) s) as [E2|E2]; cbn [negb]; [|reflexivity].
  destruct He as [He|He]; [contradiction|].
  assert (Hep : ep p < 64) by lia.
  set (ps := if c =? WHITE then ep p - 8 else ep p + 8).
  assert (Hps : ps < 64) by (unfold ps; destruct (c =? WHITE); lia).
  assert (Hd : (do d <- move_direction (flipc c); sq_to (ep p) d) = Some ps).
  { unfold ps. assert (c = 0 \/ c = 1) as [-> | ->] by lia.
    - change (move_direction (flipc 0)) with (Some DS). cbn [bind]. rewrite sq_to_exact, step_south by exact Hep.
      replace (8 <=? ep p) with true by (symmetry; apply N.leb_le; lia). reflexivity.
    - change (move_direction (flipc 1)) with (Some DN). cbn [bind]. rewrite sq_to_exact, step_north by exact Hep.
      replace (ep p <? 56) with true by (symmetry; apply N.ltb_lt; lia). reflexivity. }
  destruct (move_direction (flipc c)) as [d|]; [|discriminate]. cbn [bind] in Hd |- *. rewrite Hd. cbn [bind].
  pose proof (forall_squares _ ep_mask_check ps Hps) as Hm. cbv beta in Hm.
  apply andb_true_iff in Hm as [Hm Hm3]. apply andb_true_iff in Hm as [Hm1 Hm2]. apply N.eqb_eq in Hm1.
  unfold neighbour_files_mask. rewrite neighbour_files_exact by exact Hps. cbn [bind].
  unfold rank_bb. rewrite Hm2. cbn [bind].
  rewrite pbb_view by (try exact Hc; unfold PAWN; lia). cbn [bind].
  rewrite Hm1. rewrite meets_piece_word; [|discriminate|].
  2:{ intros t Ht. rewrite forallb_forall in Hm3. apply N.ltb_lt. now apply Hm3. }
  replace (ps <? 64) with true by (symmetry; now apply N.ltb_lt). cbn [andb].
  assert (Hex : existsb (fun t => is_piece (brd p) t c PAWN) (ep_neigh_list ps) =
                ((0 <? file_of ps) && (piece_at p (ps - 1) =? mk_piece c PAWN))
                || ((file_of ps <? 7) && (piece_at p (ps + 1) =? mk_piece c PAWN))).
  { unfold ep_neigh_list, is_piece, piece_at.
    destruct (0 <? file_of ps), (file_of ps <? 7); cbn [app existsb andb orb]; btauto. }
  rewrite Hex. destruct (_ || _).
  - unfold sq_bb. rewrite sqbb_exact by exact Hps. cbn [bind bb_of fold_right].
    now rewrite N.lor_0_l, N.lor_0_r.
  - reflexivity.
Qed.

Theorem attacks_to_exact_wf p s c : wf_att p -> s < 64 -> c < 2 ->
  attacks_to_impl (view_of_spec p) s c = Some (attacks_to_spec p s c).
Proof.
  intros Hwf Hs Hc. pose proof Hwf as [Hl [Hco He]].
  unfold attacks_to_impl. rewrite attacks_to_ep_exact by assumption. cbn [bind].
  rewrite occ_all_view by exact Hco. rewrite flipc_flip by exact Hc.
  assert (Hfc : flip c < 2) by (unfold flip; lia).
  rewrite get_pawn_attacks_exact, get_knight_exact, get_king_exact, get_bishop_exact, get_rook_exact by assumption.
  rewrite !pbb_view by (try exact Hc; unfold PAWN, KNIGHT, KING, BISHOP, ROOK, QUEEN; lia).
  cbn [bind]. f_equal. unfold attacks_to_spec. f_equal. now apply attackers_main.
Qed.

Theorem attacks_to_exact p s c : legal_pos p = true -> s < 64 -> c < 2 ->
  attacks_to_impl (view_of_spec p) s c = Some (attacks_to_spec p s c).
Proof. intros H. apply attacks_to_exact_wf. now apply legal_pos_wf. Qed.

(** "the is-attacked query is true exactly when there is such a piece":
    the rules-level attack test is the non-emptiness of the rules-level attacker list *)
Lemma lor_nz x y : negb (N.lor x y =? 0) = negb (x =? 0) || negb (y =? 0).
Proof.
  destruct (N.eqb_spec x 0) as [->|Hx]; cbn [negb orb].
  - now rewrite N.lor_0_l.
  - destruct (N.eqb_spec (N.lor x y) 0) as [E|E]; [|reflexivity].
    apply N.lor_eq_0_iff in E as [E _]. contradiction.
Qed.

Theorem attacked_iff_attackers b s c : s < 64 -> c < 2 ->
  attacked b s c = negb (bb_of (attackers b s c) =? 0).
Proof.
  intros Hs Hc. rewrite <- attackers_main by assumption.
  rewrite !N.land_lor_distr_r, !lor_nz.
  repeat match goal with |- context [negb (N.land ?x ?y =? 0)] => change (negb (N.land x y =? 0)) with (meets x y) end.
  rewrite !meets_slide by discriminate.
  rewrite !meets_piece_word by (try discriminate; intros t Ht;
    first [now apply pawn_targets_lt in Ht | now apply knight_targets_lt in Ht | now apply king_targets_lt in Ht]).
  unfold attacked. rewrite !slider_hits_split. btauto.
Qed.
