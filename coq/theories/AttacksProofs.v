(** * AttacksProofs: the engine's attack queries agree with the mailbox rules (C09, part 1).

    - [is_attacked_exact] : IsAttacked = Rules.attacked + en-passant convention 1, never fails
    - [has_check_exact]   : HasCheck = Rules.in_check
    - [attacks_to_exact]  : AttacksTo = Rules.attackers + en-passant convention 2, never fails
    GivesCheck and the legality tests are in [AttacksCheckProofs] / [AttacksLegalProofs]. *)
From Coq Require Import NArith ZArith List Bool Lia ZifyN ZifyBool Btauto.
From FG Require Import Word64 Geom Tables TablesCorrect ShiftCorrect Rules FenSpec Oracle BitView AttacksImpl AttacksLemmas.
Import ListNotations.
Open Scope N_scope.

(** ** what the queries need of a position (weaker than [legal_pos]: holds after any
       pseudo-legal move as well) *)
Definition wf_att (p : pos) : Prop :=
  length (brd p) = 64%nat /\ codes_ok (brd p) /\ (ep p = 64 \/ 8 <= ep p < 56).

Lemma at_in_or_zero (b : list N) s : at_ b s = 0 \/ In (at_ b s) b.
Proof.
  unfold at_. destruct (nth_in_or_default (N.to_nat s) b 0) as [H|H]; [now right|now left].
Qed.

Lemma rank_of_bounds e r : rank_of e = r -> 8 * r <= e < 8 * r + 8.
Proof.
  unfold rank_of. rewrite N.shiftr_div_pow2. change (2 ^ 3) with 8. intros <-.
  pose proof (N.div_mod e 8). pose proof (N.mod_lt e 8). lia.
Qed.

Lemma legal_pos_inv p : legal_pos p = true ->
  length (brd p) = 64%nat /\
  forallb (fun pc => existsb (N.eqb pc) [0;1;2;3;4;5;6;9;10;11;12;13;14]) (brd p) = true /\
  count_piece (brd p) (mk_piece WHITE KING) = 1%nat /\
  count_piece (brd p) (mk_piece BLACK KING) = 1%nat /\
  stm p < 2 /\ cr p < 16 /\
  in_check_b (brd p) (flip (stm p)) = false /\
  forallb (fun s => negb (type_of (piece_at p s) =? PAWN) || negb ((rank_of s =? 0) || (rank_of s =? 7))) squares64 = true /\
  rights_ok p = true /\ ep_ok p = true.
Proof.
  unfold legal_pos. rewrite !andb_true_iff, !Nat.eqb_eq, !N.ltb_lt, negb_true_iff. tauto.
Qed.

Lemma legal_pos_wf p : legal_pos p = true -> wf_att p.
Proof.
  intros H. apply legal_pos_inv in H as (Hl & Hcodes & _ & _ & _ & _ & _ & _ & _ & He).
  repeat split.
  - exact Hl.
  - intros s. destruct (at_in_or_zero (brd p) s) as [-> | Hin]; [lia|].
    rewrite forallb_forall in Hcodes. specialize (Hcodes _ Hin).
    apply existsb_exists in Hcodes as [x [Hx E]]. apply N.eqb_eq in E. subst x.
    cbn in Hx. lia.
  - unfold ep_ok in He.
    destruct (N.eqb_spec (ep p) 64) as [E|E]; [now left|right].
    repeat (apply andb_true_iff in He as [He ?]). apply N.eqb_eq in He.
    destruct (stm p =? WHITE); apply rank_of_bounds in He; lia.
Qed.

(** ** table lookups on the view *)
Lemma get_pawn_attacks_exact c s : c < 2 -> s < 64 ->
  get_pawn_attacks c s = Some (bb_of (pawn_attack_targets c s)).
Proof.
  intros Hc Hs. unfold get_pawn_attacks. assert (c = 0 \/ c = 1) as [-> | ->] by lia; cbn [N.eqb].
  - now apply pawn_attacks_white_exact.
  - now apply pawn_attacks_black_exact.
Qed.

Lemma get_knight_exact s occ : s < 64 -> get_attacks_bb KNIGHT s occ = Some (bb_of (knight_targets s)).
Proof. intros Hs. change (get_attacks_bb KNIGHT s occ) with (look t_pseudo_knight s). now apply knight_attacks_exact. Qed.
Lemma get_king_exact s occ : s < 64 -> get_attacks_bb KING s occ = Some (bb_of (king_targets s)).
Proof. intros Hs. change (get_attacks_bb KING s occ) with (look t_pseudo_king s). now apply king_attacks_exact. Qed.
Lemma get_bishop_exact s occ : s < 64 -> get_attacks_bb BISHOP s occ = Some (slide bishop_dirs s occ).
Proof. intros Hs. change (get_attacks_bb BISHOP s occ) with (bishop_attacks_impl s occ). now apply bishop_attacks_exact. Qed.
Lemma get_rook_exact s occ : s < 64 -> get_attacks_bb ROOK s occ = Some (slide rook_dirs s occ).
Proof. intros Hs. change (get_attacks_bb ROOK s occ) with (rook_attacks_impl s occ). now apply rook_attacks_exact. Qed.
Lemma get_queen_exact s occ : s < 64 -> get_attacks_bb QUEEN s occ = Some (slide (bishop_dirs ++ rook_dirs) s occ).
Proof. intros Hs. change (get_attacks_bb QUEEN s occ) with (queen_attacks_impl s occ). now apply queen_attacks_exact. Qed.

(** ** sliders: intersection of a slide word with a piece word = the spec's ray test *)
Definition ray_hit (b : list N) (s c : N) (dirs : list dir) (ty : N) : bool :=
  existsb (fun d => let e := last (walkb 7 b d s) 64 in (e <? 64) && is_piece b e c ty) dirs.

Lemma mk_piece_nz c ty : ty <> 0 -> mk_piece c ty <> 0.
Proof. unfold mk_piece. lia. Qed.

Lemma meets_slide b s c dirs ty : ty <> 0 ->
  meets (slide dirs s (occ_of b)) (piece_word b c ty) = ray_hit b s c dirs ty.
Proof.
  intros Hty. unfold slide. rewrite meets_piece_word; [|exact Hty|].
  - rewrite existsb_concat_map. unfold ray_hit. apply existsb_ext_in. intros d _.
    rewrite walk_walkb. unfold is_piece. apply walkb_last_hit. now apply mk_piece_nz.
  - intros t Ht. apply in_concat in Ht as [l [Hl Ht]].
    apply in_map_iff in Hl as [d [<- _]]. now apply walk_lt in Ht.
Qed.

Lemma slider_hits_split b s c dirs t1 t2 :
  slider_hits b s c dirs t1 t2 = ray_hit b s c dirs t1 || ray_hit b s c dirs t2.
Proof.
  unfold slider_hits, ray_hit. rewrite <- existsb_orb. apply existsb_ext_in. intros d _.
  cbv zeta. btauto.
Qed.

Lemma ray_hit_app b s c d1 d2 ty : ray_hit b s c (d1 ++ d2) ty = ray_hit b s c d1 ty || ray_hit b s c d2 ty.
Proof. unfold ray_hit. apply existsb_app. Qed.

(** ** the en-passant clause *)
Lemma ep_neighbours_exact p s pawn : length (brd p) = 64%nat -> s < 64 ->
  ep_neighbours (view_of_spec p) s pawn =
  Some (((0 <? file_of s) && (piece_at p (s - 1) =? pawn)) || ((file_of s <? 7) && (piece_at p (s + 1) =? pawn))).
Proof.
  intros Hl Hs. unfold ep_neighbours. rewrite !sq_to_exact by exact Hs.
  rewrite step_west, step_east by exact Hs. cbn [bind].
  assert (Hf : file_of s < 8).
  { unfold file_of. change 7 with (N.ones 3). rewrite N.land_ones. apply N.mod_lt. discriminate. }
  assert (Hfe : file_of s <= s).
  { unfold file_of. change 7 with (N.ones 3). rewrite N.land_ones. apply N.mod_le. discriminate. }
  destruct (N.ltb_spec 0 (file_of s)) as [H0|H0]; cbn [andb orb].
  - replace (s - 1 =? 64) with false by (symmetry; apply N.eqb_neq; lia).
    rewrite board_at_view by (try exact Hl; lia). cbn [bind]. unfold piece_at.
    destruct (at_ (brd p) (s - 1) =? pawn); cbn [orb]; [reflexivity|].
    destruct (N.ltb_spec (file_of s) 7) as [H7|H7]; cbn [andb].
    + assert (Hs1 : s + 1 < 64).
      { pose proof (N.div_mod s 8). unfold file_of in *. change 7 with (N.ones 3) in *.
        rewrite N.land_ones in *. change (2 ^ 3) with 8 in *. assert (s / 8 < 8) by (apply N.div_lt_upper_bound; lia). lia. }
      replace (s + 1 =? 64) with false by (symmetry; apply N.eqb_neq; lia).
      rewrite board_at_view by assumption. reflexivity.
    + reflexivity.
  - cbn [N.eqb]. cbn [bind].
    destruct (N.ltb_spec (file_of s) 7) as [H7|H7]; cbn [andb].
    + assert (Hs1 : s + 1 < 64).
      { pose proof (N.div_mod s 8). unfold file_of in *. change 7 with (N.ones 3) in *.
        rewrite N.land_ones in *. change (2 ^ 3) with 8 in *. assert (s / 8 < 8) by (apply N.div_lt_upper_bound; lia). lia. }
      replace (s + 1 =? 64) with false by (symmetry; apply N.eqb_neq; lia).
      rewrite board_at_view by assumption. reflexivity.
    + reflexivity.
Qed.

Lemma is_attacked_ep_exact p s c : wf_att p -> s < 64 -> c < 2 ->
  is_attacked_ep (view_of_spec p) s c = Some (ep_conv1 p s c).
Proof.
  intros [Hl [Hc He]] Hs Hc2. unfold is_attacked_ep, ep_conv1. cbn [vep view_of_spec].
  destruct (N.eqb_spec (ep p) 64) as [E|E]; [reflexivity|].
  destruct He as [He|He]; [contradiction|].
  assert (Hep : ep p < 64) by lia.
  assert (c = 0 \/ c = 1) as [-> | ->] by lia.
  - change (0 =? WHITE) with true. cbv iota.
    rewrite sq_to_exact, step_south by exact Hep.
    replace (8 <=? ep p) with true by (symmetry; apply N.leb_le; lia). cbn [bind].
    rewrite board_at_view by (try exact Hl; lia). cbn [bind].
    change (mk_piece (flip 0) PAWN) with (mk_piece BLACK PAWN). unfold piece_at.
    rewrite (N.eqb_sym s (ep p - 8)).
    destruct (ep p - 8 =? s) eqn:E1; [|rewrite andb_false_r; reflexivity].
    rewrite andb_true_r. cbn [andb].
    destruct (at_ (brd p) (ep p - 8) =? mk_piece BLACK PAWN); [|reflexivity].
    cbn [andb]. now apply ep_neighbours_exact.
  - change (1 =? WHITE) with false. change (1 =? BLACK) with true. cbv iota.
    rewrite sq_to_exact, step_north by exact Hep.
    replace (ep p <? 56) with true by (symmetry; apply N.ltb_lt; lia). cbn [bind].
    rewrite board_at_view by (try exact Hl; lia). cbn [bind].
    change (mk_piece (flip 1) PAWN) with (mk_piece WHITE PAWN). unfold piece_at.
    rewrite (N.eqb_sym s (ep p + 8)).
    destruct (ep p + 8 =? s) eqn:E1; [|rewrite andb_false_r; reflexivity].
    rewrite andb_true_r. cbn [andb].
    destruct (at_ (brd p) (ep p + 8) =? mk_piece WHITE PAWN); [|reflexivity].
    cbn [andb]. now apply ep_neighbours_exact.
Qed.

(** ** IsAttacked *)
Lemma if_some (a e : bool) : (if a then Some true else Some e) = Some (a || e).
Proof. now destruct a. Qed.

Theorem is_attacked_exact_wf p s c : wf_att p -> s < 64 -> c < 2 ->
  is_attacked_impl (view_of_spec p) s c = Some (is_attacked_spec p s c).
Proof.
  intros Hwf Hs Hc. pose proof Hwf as [Hl [Hco He]].
  assert (Hfc : flip c < 2) by (unfold flip; lia).
  unfold is_attacked_impl. rewrite occ_all_view by exact Hco. rewrite flipc_flip by exact Hc.
  rewrite get_pawn_attacks_exact, get_knight_exact, get_king_exact, get_bishop_exact, get_rook_exact,
    get_queen_exact by assumption.
  rewrite !pbb_view by (try exact Hc; unfold PAWN, KNIGHT, KING, BISHOP, ROOK, QUEEN; lia).
  cbn [bind].
  rewrite !meets_piece_word by (try discriminate; intros t Ht;
    first [now apply pawn_targets_lt in Ht | now apply knight_targets_lt in Ht | now apply king_targets_lt in Ht]).
  rewrite !meets_slide by discriminate.
  rewrite is_attacked_ep_exact by assumption.
  rewrite !if_some. f_equal.
  unfold is_attacked_spec, attacked. rewrite !slider_hits_split, ray_hit_app. btauto.
Qed.

Theorem is_attacked_exact p s c : legal_pos p = true -> s < 64 -> c < 2 ->
  is_attacked_impl (view_of_spec p) s c = Some (is_attacked_spec p s c).
Proof. intros H. apply is_attacked_exact_wf. now apply legal_pos_wf. Qed.
