(** * AttacksMoves: facts about pseudo-legal moves and the board after a move, shared by
    the GivesCheck and legality proofs (C09, parts 2 and 3).

    - [pseudo_inv]: what membership in [Rules.pseudo] says about a move;
    - the 16-bit packing [Rules.code] is decoded correctly by the engine's accessors;
    - [at_] / [occ_of] of [put];
    - the attack test as an existential over attacker squares. *)
From Coq Require Import NArith ZArith List Bool Lia ZifyN ZifyBool Btauto.
From FG Require Import Word64 Geom Tables TablesCorrect ShiftCorrect Rules FenSpec Oracle BitView AttacksImpl AttacksLemmas AttacksProofs.
From FG.gen Require Import Tables_gen.
Import ListNotations.
Open Scope N_scope.

(** ** boards after [put] *)
Lemma set_nth_length l : forall n v, length (set_nth l n v) = length l.
Proof. induction l as [|x l IH]; intros [|n] v; cbn [set_nth length]; auto. Qed.

Lemma set_nth_nth l : forall n v k, (n < length l)%nat ->
  nth k (set_nth l n v) 0 = if Nat.eqb k n then v else nth k l 0.
Proof.
  induction l as [|x l IH]; intros [|n] v [|k] H; cbn [set_nth nth Nat.eqb length] in *; try lia; try reflexivity.
  apply IH. lia.
Qed.

Lemma put_length b s v : length (put b s v) = length b.
Proof. apply set_nth_length. Qed.

Lemma at_put b s v u : length b = 64%nat -> s < 64 ->
  at_ (put b s v) u = if u =? s then v else at_ b u.
Proof.
  intros Hl Hs. unfold at_, put. rewrite set_nth_nth by lia.
  destruct (N.eqb_spec u s) as [->|Hn].
  - now rewrite Nat.eqb_refl.
  - replace (Nat.eqb (N.to_nat u) (N.to_nat s)) with false; [reflexivity|].
    symmetry. apply Nat.eqb_neq. lia.
Qed.

Lemma at_out b s : length b = 64%nat -> 64 <= s -> at_ b s = 0.
Proof. intros Hl Hs. unfold at_. apply nth_overflow. lia. Qed.

Lemma codes_ok_put b s v : length b = 64%nat -> s < 64 -> codes_ok b -> v < 16 -> codes_ok (put b s v).
Proof.
  intros Hl Hs Hc Hv u. rewrite at_put by assumption. destruct (u =? s); [exact Hv|apply Hc].
Qed.

(** ** the move code is decoded correctly *)
Lemma decode_check :
  forallb (fun t => forallb (fun f => forallb (fun pr => forallb (fun ty =>
     let c := code (mkmv f t ty pr) in
     (mv_to c =? t) && (mv_from c =? f) && (mv_type c =? ty) && (mv_prom c =? pr))
     [0;1;2;3]) [3;4;5;6]) squares64) squares64 = true.
Proof. vm_compute. reflexivity. Qed.

Lemma decode_code m : mto m < 64 -> mfrom m < 64 -> mtype m < 4 -> 3 <= mprom m <= 6 ->
  mv_to (code m) = mto m /\ mv_from (code m) = mfrom m /\ mv_type (code m) = mtype m /\ mv_prom (code m) = mprom m.
Proof.
  destruct m as [f t ty pr]. cbn [mto mfrom mtype mprom]. intros Ht Hf Hty Hpr.
  pose proof (forall_squares _ decode_check t Ht) as H. cbv beta in H.
  pose proof (forall_squares _ H f Hf) as H'. cbv beta in H'.
  rewrite forallb_forall in H'. assert (Hi : In pr [3;4;5;6]) by (cbn; lia).
  specialize (H' pr Hi). rewrite forallb_forall in H'.
  assert (Hj : In ty [0;1;2;3]) by (cbn; lia). specialize (H' ty Hj). cbv zeta in H'.
  apply andb_true_iff in H' as [H' H4]. apply andb_true_iff in H' as [H' H3].
  apply andb_true_iff in H' as [H1 H2].
  apply N.eqb_eq in H1, H2, H3, H4. tauto.
Qed.

(** ** the attack test as an existential *)
Lemma attacked_ex b s c : s < 64 -> c < 2 ->
  (attacked b s c = true <-> exists a, a < 64 /\ att_from b s c a = true).
Proof.
  intros Hs Hc. rewrite attacked_iff_attackers, attackers_word by assumption.
  rewrite negb_true_iff, N.eqb_neq. split.
  - intros H. exists (N.log2 (bb_filter (att_from b s c))).
    apply N.bit_log2 in H. rewrite bb_filter_testbit in H. apply andb_true_iff in H as [H1 H2].
    apply N.ltb_lt in H1. now split.
  - intros [a [Ha H]] E.
    assert (Hb : N.testbit (bb_filter (att_from b s c)) a = true).
    { rewrite bb_filter_testbit, H. replace (a <? 64) with true by (symmetry; now apply N.ltb_lt). reflexivity. }
    rewrite E, N.bits_0 in Hb. discriminate.
Qed.

Lemma not_attacked_all b s c : s < 64 -> c < 2 -> attacked b s c = false ->
  forall a, a < 64 -> att_from b s c a = false.
Proof.
  intros Hs Hc H a Ha. destruct (att_from b s c a) eqn:E; [|reflexivity].
  assert (attacked b s c = true) by (apply attacked_ex; try assumption; now exists a). congruence.
Qed.

(* the piece-type clause of [att_from] *)
Definition type_clause (b : list N) (s c a ty : N) : bool :=
  if ty =? PAWN then existsb (N.eqb s) (pawn_attack_targets c a)
  else if ty =? KNIGHT then existsb (N.eqb s) (knight_targets a)
  else if ty =? KING then existsb (N.eqb s) (king_targets a)
  else if ty =? ROOK then existsb (N.eqb s) (rays_from b rook_dirs a)
  else if ty =? BISHOP then existsb (N.eqb s) (rays_from b bishop_dirs a)
  else if ty =? QUEEN then existsb (N.eqb s) (rays_from b all_dirs a)
  else false.

Lemma att_from_clause b s c a :
  att_from b s c a = negb (at_ b a =? 0) && (colour_of (at_ b a) =? c) && type_clause b s c a (type_of (at_ b a)).
Proof. reflexivity. Qed.

Lemma mk_piece_parts c ty : ty < 8 -> colour_of (mk_piece c ty) = c /\ type_of (mk_piece c ty) = ty.
Proof.
  intros H. unfold colour_of, type_of, mk_piece. split.
  - rewrite N.mul_comm, N.div_add_l by discriminate. rewrite N.div_small by exact H. lia.
  - rewrite N.mul_comm, N.add_comm, N.mod_add by discriminate. now apply N.mod_small.
Qed.

Lemma piece_decomp pc : pc = mk_piece (colour_of pc) (type_of pc).
Proof. unfold mk_piece, colour_of, type_of. apply N.div_mod. discriminate. Qed.

Lemma att_from_piece b s c a ty : at_ b a = mk_piece c ty -> 1 <= ty < 8 ->
  att_from b s c a = type_clause b s c a ty.
Proof.
  intros E Hty. rewrite att_from_clause, E.
  destruct (mk_piece_parts c ty) as [-> ->]; [lia|].
  rewrite N.eqb_refl. replace (mk_piece c ty =? 0) with false; [reflexivity|].
  symmetry. apply N.eqb_neq. unfold mk_piece. lia.
Qed.

Lemma att_from_inv b s c a : att_from b s c a = true ->
  exists ty, 1 <= ty <= 6 /\ at_ b a = mk_piece c ty /\ type_clause b s c a ty = true.
Proof.
  rewrite att_from_clause. intros H. apply andb_true_iff in H as [H H3]. apply andb_true_iff in H as [H1 H2].
  apply N.eqb_eq in H2. exists (type_of (at_ b a)). split; [|split].
  - unfold type_clause, PAWN, KNIGHT, KING, ROOK, BISHOP, QUEEN in H3.
    destruct (N.eqb_spec (type_of (at_ b a)) 2); [lia|]. destruct (N.eqb_spec (type_of (at_ b a)) 3); [lia|].
    destruct (N.eqb_spec (type_of (at_ b a)) 1); [lia|]. destruct (N.eqb_spec (type_of (at_ b a)) 5); [lia|].
    destruct (N.eqb_spec (type_of (at_ b a)) 4); [lia|]. destruct (N.eqb_spec (type_of (at_ b a)) 6); [lia|].
    discriminate.
  - rewrite <- H2. apply piece_decomp.
  - exact H3.
Qed.

(* slider clauses in terms of the occupancy word, looking from the target square *)
Lemma type_clause_rook b s c a : s < 64 -> a < 64 ->
  type_clause b s c a ROOK = slide_in (occ_of b) rook_dirs s a.
Proof.
  intros Hs Ha. change (type_clause b s c a ROOK) with (existsb (N.eqb s) (rays_from b rook_dirs a)).
  rewrite rays_from_slide. now apply slide_in_sym; [apply rook_dirs_closed| |].
Qed.
Lemma type_clause_bishop b s c a : s < 64 -> a < 64 ->
  type_clause b s c a BISHOP = slide_in (occ_of b) bishop_dirs s a.
Proof.
  intros Hs Ha. change (type_clause b s c a BISHOP) with (existsb (N.eqb s) (rays_from b bishop_dirs a)).
  rewrite rays_from_slide. now apply slide_in_sym; [apply bishop_dirs_closed| |].
Qed.
Lemma type_clause_queen b s c a : s < 64 -> a < 64 ->
  type_clause b s c a QUEEN = slide_in (occ_of b) (bishop_dirs ++ rook_dirs) s a.
Proof.
  intros Hs Ha. change (type_clause b s c a QUEEN) with (existsb (N.eqb s) (rays_from b all_dirs a)).
  rewrite rays_from_slide. change all_dirs with (rook_dirs ++ bishop_dirs).
  rewrite (slide_in_sym _ (bishop_dirs ++ rook_dirs) s a queen_dirs_closed Hs Ha).
  rewrite !slide_in_app. apply orb_comm.
Qed.

(** ** what a pseudo-legal move is *)
Inductive pm_kind (p : pos) (m : mv) : Prop :=
| pm_simple :
    mfrom m < 64 -> mto m < 64 ->
    at_ (brd p) (mfrom m) <> 0 -> colour_of (at_ (brd p) (mfrom m)) = stm p ->
    (at_ (brd p) (mto m) = 0 \/
     (at_ (brd p) (mto m) <> 0 /\ colour_of (at_ (brd p) (mto m)) <> stm p /\
      att_from (brd p) (mto m) (stm p) (mfrom m) = true)) ->
    ((mtype m = NORMAL /\ mprom m = 3) \/
     (mtype m = PROMOTION /\ type_of (at_ (brd p) (mfrom m)) = PAWN /\ 3 <= mprom m <= 6)) ->
    pm_kind p m
| pm_ep :
    mtype m = ENPASSANT -> mprom m = 3 -> mfrom m < 64 -> mto m = ep p -> mto m < 64 ->
    at_ (brd p) (mfrom m) = mk_piece (stm p) PAWN -> at_ (brd p) (mto m) = 0 ->
    In (mto m) (pawn_attack_targets (stm p) (mfrom m)) ->
    pm_kind p m
| pm_castle kf kt rf bit empties :
    In (kf, kt, rf, bit, empties) (castles (stm p)) -> m = mkmv kf kt CASTLING 3 ->
    is_piece (brd p) kf (stm p) KING = true -> is_piece (brd p) rf (stm p) ROOK = true ->
    forallb (fun s => at_ (brd p) s =? 0) empties = true ->
    pm_kind p m.

Lemma walkb_lt k b d : forall s t, In t (walkb k b d s) -> t < 64.
Proof. intros s t. rewrite <- walk_walkb. apply walk_lt. Qed.

Lemma rays_from_lt b dirs s t : In t (rays_from b dirs s) -> t < 64.
Proof.
  unfold rays_from. intros H. apply in_concat in H as [l [Hl Ht]].
  apply in_map_iff in Hl as [d [<- _]]. now apply walkb_lt in Ht.
Qed.

(* moves produced by "adv": a plain move or the four promotions *)
Lemma adv_inv (cond : bool) s t m :
  In m (if cond then promos s t else [mkmv s t NORMAL 3]) ->
  mfrom m = s /\ mto m = t /\
  ((mtype m = NORMAL /\ mprom m = 3) \/ (mtype m = PROMOTION /\ 3 <= mprom m <= 6)).
Proof.
  destruct cond; cbn [promos In]; intros H.
  - unfold QUEEN, ROOK, BISHOP, KNIGHT in H.
    destruct H as [<-|[<-|[<-|[<-|[]]]]]; cbn [mfrom mto mtype mprom]; (repeat split; try reflexivity); right; split; try reflexivity; lia.
  - destruct H as [<-|[]]. cbn [mfrom mto mtype mprom]. repeat split; try reflexivity. now left.
Qed.

Lemma simple_inv p s (targets : list N) ty m :
  let b := brd p in let c := stm p in
  s < 64 -> at_ b s <> 0 -> colour_of (at_ b s) = c -> type_of (at_ b s) = ty ->
  (forall t, In t targets -> t < 64 /\ type_clause b t c s ty = true) ->
  In m (map (fun t => mkmv s t NORMAL 3) (filter (free_or_enemy b c) targets)) ->
  pm_kind p m.
Proof.
  intros b c Hs Hnz Hcol Hty Htg Hin. apply in_map_iff in Hin as [t [<- Ht]].
  apply filter_In in Ht as [Ht Hfe]. destruct (Htg t Ht) as [Htl Hcl].
  apply pm_simple; cbn [mfrom mto mtype mprom]; try assumption.
  - unfold free_or_enemy in Hfe. fold b. fold c.
    destruct (N.eqb_spec (at_ b t) 0) as [E|E]; [now left|right].
    cbn [orb] in Hfe. apply negb_true_iff, N.eqb_neq in Hfe. repeat split; try assumption.
    rewrite att_from_clause. rewrite Hty, Hcl, Hcol, N.eqb_refl.
    apply N.eqb_neq in Hnz. now rewrite Hnz.
  - now left.
Qed.

Theorem pseudo_inv p m : In m (pseudo p) -> pm_kind p m.
Proof.
  unfold pseudo. intros H. apply in_app_or in H as [H|H].
  - apply in_flat_map in H as [s [Hs H]]. apply in_squares64 in Hs.
    unfold piece_moves in H.
    set (b := brd p) in *. set (c := stm p) in *.
    destruct (N.eqb_spec (at_ b s) 0) as [E0|E0]; cbn [orb] in H; [destruct H|].
    destruct (N.eqb_spec (colour_of (at_ b s)) c) as [Ec|Ec]; cbn [negb] in H; [|destruct H].
    destruct (N.eqb_spec (type_of (at_ b s)) PAWN) as [Ep|Ep].
    { (* pawn *)
      assert (Hpc : at_ b s = mk_piece c PAWN) by (rewrite <- Ec, <- Ep; apply piece_decomp).
      unfold pawn_moves in H. fold b in H. fold c in H. apply in_app_or in H as [H|H].
      - (* pushes *)
        destruct (step (fwd c) s) as [t|] eqn:Est; [|destruct H].
        destruct (N.eqb_spec (at_ b t) 0) as [Et0|Et0]; [|destruct H].
        apply in_app_or in H as [H|H].
        + apply adv_inv in H as (Hf & Ht & Hk).
          apply pm_simple; rewrite ?Hf, ?Ht; try assumption.
          * now apply step_lt in Est.
          * now left.
          * destruct Hk as [Hk|[Hk1 Hk2]]; [now left|right]. split; [exact Hk1|split; [exact Ep|exact Hk2]].
        + destruct (rank_of s =? start_rank c); [|destruct H].
          destruct (step (fwd c) t) as [u|] eqn:Eu; [|destruct H].
          destruct (N.eqb_spec (at_ b u) 0) as [Eu0|Eu0]; [|destruct H].
          destruct H as [<-|[]]. apply pm_simple; cbn [mfrom mto mtype mprom]; try assumption.
          * now apply step_lt in Eu.
          * now left.
          * now left.
      - (* captures, en passant *)
        apply in_flat_map in H as [t [Ht H]].
        assert (Htl : t < 64) by now apply pawn_targets_lt in Ht.
        destruct (enemy b c t) eqn:Een.
        + apply adv_inv in H as (Hf & Hto & Hk).
          unfold enemy in Een. apply andb_true_iff in Een as [En1 En2].
          apply negb_true_iff, N.eqb_neq in En1. apply negb_true_iff, N.eqb_neq in En2.
          apply pm_simple; rewrite ?Hf, ?Hto; try assumption.
          * right. repeat split; try assumption. change (att_from b t c s = true).
            rewrite (att_from_piece b t c s PAWN Hpc) by (unfold PAWN; lia).
            change (type_clause b t c s PAWN) with (existsb (N.eqb t) (pawn_attack_targets c s)).
            now apply existsb_eqb_In.
          * destruct Hk as [Hk|[Hk1 Hk2]]; [now left|right]. split; [exact Hk1|split; [exact Ep|exact Hk2]].
        + destruct (N.eqb_spec t (ep p)) as [Eep|Eep]; cbn [andb] in H; [|destruct H].
          destruct (N.eqb_spec (at_ b t) 0) as [Et0|Et0]; [|destruct H].
          destruct H as [<-|[]]. apply pm_ep; cbn [mfrom mto mtype mprom]; try assumption; reflexivity. }
    assert (Hrays : forall dirs t, In t (rays_from b dirs s) -> t < 64) by (intros dirs t; apply rays_from_lt).
    destruct (N.eqb_spec (type_of (at_ b s)) KNIGHT) as [Ek|Ek].
    { eapply (simple_inv p s _ KNIGHT); try eassumption. intros t Ht. split; [now apply knight_targets_lt in Ht|].
      change (type_clause (brd p) t (stm p) s KNIGHT) with (existsb (N.eqb t) (knight_targets s)). now apply existsb_eqb_In. }
    destruct (N.eqb_spec (type_of (at_ b s)) KING) as [Eki|Eki].
    { eapply (simple_inv p s _ KING); try eassumption. intros t Ht. split; [now apply king_targets_lt in Ht|].
      change (type_clause (brd p) t (stm p) s KING) with (existsb (N.eqb t) (king_targets s)). now apply existsb_eqb_In. }
    destruct (N.eqb_spec (type_of (at_ b s)) ROOK) as [Er|Er].
    { eapply (simple_inv p s _ ROOK); try eassumption. intros t Ht. split; [now apply Hrays in Ht|].
      change (type_clause (brd p) t (stm p) s ROOK) with (existsb (N.eqb t) (rays_from b rook_dirs s)). now apply existsb_eqb_In. }
    destruct (N.eqb_spec (type_of (at_ b s)) BISHOP) as [Eb|Eb].
    { eapply (simple_inv p s _ BISHOP); try eassumption. intros t Ht. split; [now apply Hrays in Ht|].
      change (type_clause (brd p) t (stm p) s BISHOP) with (existsb (N.eqb t) (rays_from b bishop_dirs s)). now apply existsb_eqb_In. }
    destruct (N.eqb_spec (type_of (at_ b s)) QUEEN) as [Eq|Eq]; [|destruct H].
    { eapply (simple_inv p s _ QUEEN); try eassumption. intros t Ht. split; [now apply Hrays in Ht|].
      change (type_clause (brd p) t (stm p) s QUEEN) with (existsb (N.eqb t) (rays_from b all_dirs s)). now apply existsb_eqb_In. }
  - unfold castle_moves in H. apply in_flat_map in H as [[[[[kf kt] rf] bit] empties] [Hc H]].
    destruct (negb (N.land (cr p) bit =? 0) && is_piece (brd p) kf (stm p) KING && is_piece (brd p) rf (stm p) ROOK
              && forallb (fun s => at_ (brd p) s =? 0) empties) eqn:E; [|destruct H].
    destruct H as [<-|[]]. apply andb_true_iff in E as [E E4]. apply andb_true_iff in E as [E E3].
    apply andb_true_iff in E as [E1 E2].
    now apply (pm_castle p _ kf kt rf bit empties).
Qed.
