(** * PvBuffers: the per-ply principal-variation buffers of the FrankyGo search (property C05)

    Model of the code that EXISTS in
      /repo/internal/search/alphabeta.go  rootSearch (:53-167), search (:174-753), qsearch (:763-1019),
                                          savePV (:1082-1086), getPVLine (:1097-1111)
      /repo/internal/search/search.go     run (:273-391), iterativeDeepening (:408-554), stopConditions (:598-606)

    What is modelled exactly: every statement that reads or writes one of the buffers
    [s.pv[ply]] (Clear on entry, Clear before the move loop, Clear of pv[ply+1]/pv[1] on a
    draw shortcut, savePV, getPVLine, the reads of pv[0] in iterativeDeepening/run), the
    control flow around them (every early return, every [continue], [break], the recursive
    calls incl. the null-move call on a different position, IID re-entering [search] at the
    SAME ply, the PVS re-search), the sticky stop flag, and the depth/ply arithmetic that
    bounds the recursion (MaxDepth = 128).

    What is abstracted into an ORACLE (arbitrary answers per node visit; theorems quantify
    over all oracles, i.e. over all feature-switch combinations, hash/history/killer
    contents, evaluation functions, node/time limits and stop moments):
      - every comparison on values ([value > bestNodeValue], [value > alpha], [value >= beta],
        the PVS/LMR re-search condition), every early-return decision (MDP, hash cut, razoring,
        RFP, null-move cut, stand-pat, hash cut in qsearch, quiescence off),
      - which pseudo-legal moves are skipped by futility / LMP / QFP / goodCapture,
      - the move order (an arbitrary list of indices into the pseudo-legal list),
      - extensions and LMR reductions, the null-move reduction, the IID reduction,
      - whether a child is a draw by repetition / 50 moves (scored without a call),
      - the line written by getPVLine on a hash cut (an ARBITRARY list of moves; see
        [hash_ok] in PvProofs.v for the one hypothesis needed about it),
      - at every call of stopConditions() whether the stop is observed there for the first
        time (stop flag set by StopSearch/timer, or node limit reached).
    The oracle is a function of the dynamic call path (the list of call sites from the
    root) and of the node; every dynamic call of a real run has a distinct path, so any
    real run is an instance. *)

From Coq Require Import List NArith Bool Arith Lia.
Import ListNotations.

(** ** Game tree: per node the PSEUDO-legal moves, each tagged illegal ([None]) or legal
    with the subtree reached ([Some child]); [chk] = side to move is in check. *)

Definition move := N.

Inductive gt := GNode (chk : bool) (pm : list (move * option gt)).

Definition in_check (t : gt) : bool := let 'GNode c _ := t in c.
Definition pmoves (t : gt) : list (move * option gt) := let 'GNode _ l := t in l.

Fixpoint legal_of (l : list (move * option gt)) : list (move * gt) :=
  match l with
  | [] => []
  | (m, Some c) :: l' => (m, c) :: legal_of l'
  | (_, None) :: l' => legal_of l'
  end.

(** the legal moves with their successor nodes (movegen.GenerateLegalMoves, C01) *)
Definition legal_children (t : gt) : list (move * gt) := legal_of (pmoves t).

(** a line is playable from [t]: a sequence of legal moves starting at [t] *)
Inductive playable : gt -> list move -> Prop :=
| play_nil t : playable t []
| play_cons t m c l : In (m, Some c) (pmoves t) -> playable c l -> playable t (m :: l).

(** executable version (recursion on the line) *)
Fixpoint playable_b (l : list move) (t : gt) : bool :=
  match l with
  | [] => true
  | m :: l' =>
      existsb (fun x => match x with
                        | (m', Some c) => N.eqb m m' && playable_b l' c
                        | (_, None) => false
                        end) (pmoves t)
  end.

(** ** Search state: the buffers s.pv[0..MaxDepth], the sticky stop flag, and two
    sticky fault flags: [err] = a Go index-out-of-range / At() panic would have happened,
    [oof] = the model ran out of fuel (result meaningless; excluded by [fuel_enough]). *)

Record st := mkSt { bufs : list (list move); stopped : bool; err : bool; oof : bool }.

(** types.go:54 *)
Definition max_depth : nat := 128.

(** run :326-335: MaxDepth+1 empty move slices *)
Definition init_st : st := mkSt (repeat [] (S max_depth)) false false false.

Definition getb (i : nat) (s : st) : list move := nth i (bufs s) [].

Fixpoint set_nth {A} (i : nat) (x : A) (l : list A) : list A :=
  match l, i with
  | [], _ => []
  | _ :: l', O => x :: l'
  | y :: l', S i' => y :: set_nth i' x l'
  end.

Definition mark_err (s : st) : st := mkSt (bufs s) (stopped s) true (oof s).
Definition mark_oof (s : st) : st := mkSt (bufs s) (stopped s) (err s) true.

(** write buffer [i]; out of range = Go panic = [err] *)
Definition set_buf (i : nat) (l : list move) (s : st) : st :=
  if i <? length (bufs s)
  then mkSt (set_nth i l (bufs s)) (stopped s) (err s) (oof s)
  else mark_err s.

(** s.pv[i].Clear() *)
Definition clear (i : nat) (s : st) : st := set_buf i [] s.

(** savePV(move, s.pv[ply+1], s.pv[ply])  alphabeta.go:1082-1086 *)
Definition save_pv (m : move) (ply : nat) (s : st) : st :=
  let src := getb (S ply) s in
  let s1 := if S ply <? length (bufs s) then s else mark_err s in
  set_buf ply (m :: src) s1.

(** one call of stopConditions() (search.go:598-606): true if the flag is already set or if
    the stop is observed here for the first time ([strike]); the flag is sticky. *)
Definition observe (strike : bool) (s : st) : st :=
  mkSt (bufs s) (stopped s || strike) (err s) (oof s).

(** the moves visited by a loop: an arbitrary list of indices into the (pseudo-)legal
    list - any order, any subset (qsearch generates only non-quiet moves) *)
Fixpoint select {A} (idx : list nat) (l : list A) : list A :=
  match idx with
  | [] => []
  | i :: r => match nth_error l i with
              | Some x => x :: select r l
              | None => select r l
              end
  end.

(** ** Call sites (the dynamic call path identifies a node visit) *)

Inductive step :=
| SIter (d : nat)        (* rootSearch of iteration d *)
| SChild (i k : nat)     (* i-th iteration of a move loop, k = 0 first call, 1 = re-search *)
| SNull                  (* null-move search :333 *)
| SIid                   (* internal iterative deepening :389 *)
| SQs.                   (* delegation to qsearch :191 / :278 *)

Definition path := list step.

(** ** Oracle answers *)

(** one iteration of the move loop of [search] *)
Record mdec := mkMdec {
  md_skip : bool;     (* futility :536-546 or LMP :551-556 [continue] (before DoMove) *)
  md_ext : bool;      (* extension added to newDepth :479-505 *)
  md_lmr : nat;       (* LMR reduction :569-580 *)
  md_draw : bool;     (* checkDrawRepAnd50 after DoMove :600 *)
  md_pvs : bool;      (* else-branch of :614 (UsePVS && movesSearched > 0) *)
  md_second : bool;   (* value > alpha && (lmrDepth < newDepth || value < beta)  :625-633 *)
  md_stop2 : bool;    (* stop first observed by the stopConditions() of :625 *)
  md_stop3 : bool;    (* stop first observed by :646 *)
  md_best : bool;     (* value > bestNodeValue :652 *)
  md_alpha : bool;    (* value > alpha :664 *)
  md_beta : bool      (* value >= beta :673 *)
}.

Record nullplan := mkNull {
  np_tree : gt;       (* the position after DoNullMove :331 (not a child by a legal move) *)
  np_red : nat;       (* r :320-323 *)
  np_stop : bool;     (* :337 *)
  np_cut : bool       (* nValue >= beta :357 *)
}.

Record iidplan := mkIid {
  ip_red : nat;       (* Settings.Search.IIDReduction :383 *)
  ip_stop : bool      (* :393 *)
}.

Inductive early :=
| ENone
| EMdp                          (* :197-204 *)
| EHash (line : list move)      (* :250-253, the line written by getPVLine *)
| ERazor                        (* :273-279 -> qsearch *)
| ERfp.                         (* :285-296 *)

Record visit := mkVisit {
  v_stop0 : bool;               (* :185 *)
  v_early : early;
  v_null : option nullplan;     (* :308-366 *)
  v_iid : option iidplan;       (* :376-403 *)
  v_order : list nat;           (* order in which GetNextMove delivers the pseudo-legal moves *)
  v_dec : nat -> mdec;
  v_stop_end : bool             (* :727 *)
}.

(** one iteration of the move loop of [qsearch] *)
Record qdec := mkQdec {
  qd_skip : bool;     (* QFP :896-916 or !goodCapture :920-922 *)
  qd_draw : bool;     (* hasCheck && checkDrawRepAnd50 :942 *)
  qd_stop : bool;     (* :956 *)
  qd_best : bool;     (* :961 *)
  qd_alpha : bool;    (* :964 *)
  qd_beta : bool      (* :965 *)
}.

Record qvisit := mkQvisit {
  q_off : bool;       (* !UseQuiescence :779 *)
  q_mdp : bool;       (* :786-793 *)
  q_standpat : bool;  (* :812-816 *)
  q_hash : bool;      (* :841-844 *)
  q_order : list nat;
  q_dec : nat -> qdec;
  q_stop_end : bool   (* :994 *)
}.

(** one iteration of the root move loop *)
Record rdec := mkRdec {
  rd_draw : bool;     (* :86 *)
  rd_pvs : bool;      (* else-branch of :93 *)
  rd_second : bool;   (* value > alpha && value < beta :100 *)
  rd_stop2 : bool;    (* :100 *)
  rd_stop3 : bool;    (* :114 *)
  rd_best : bool;     (* :125 *)
  rd_alpha : bool;    (* :129 *)
  rd_beta : bool      (* :131 *)
}.

Record rvisit := mkRvisit {
  r_order : list nat;           (* root moves of this iteration: indices into the legal list
                                   (GenerateLegalMoves :423, searchmoves filter :445-461, Sort :510) *)
  r_dec : nat -> rdec;
  r_stop_after : bool           (* :508 *)
}.

Record oracle := mkOracle {
  o_s : path -> gt -> visit;
  o_q : path -> gt -> qvisit;
  o_r : nat -> rvisit;
  o_ponder_hash : option move   (* the move of the hash entry probed at :543, if any *)
}.

(** ** qsearch (alphabeta.go:763-1019) *)

(** move loop :886-987; [rec p c s] = qsearch on child [c] at ply+1 *)
Fixpoint qloop (rec : path -> gt -> st -> st) (dec : nat -> qdec) (p : path) (ply : nat)
         (l : list (move * option gt)) (i : nat) (s : st) : st :=
  match l with
  | [] => s
  | (m, oc) :: l' =>
      let d := dec i in
      if qd_skip d then qloop rec dec p ply l' (S i) s                 (* :914 / :921 continue *)
      else match oc with
           | None => qloop rec dec p ply l' (S i) s                    (* :929-932 illegal: undo, continue *)
           | Some c =>
               let s1 := if qd_draw d
                         then clear (S ply) s                          (* :942-944 *)
                         else rec (SChild i 0 :: p) c s in             (* :946 *)
               let s2 := observe (qd_stop d) s1 in                     (* :956 *)
               if stopped s2 then s2                                   (* :957 return ValueNA *)
               else if qd_best d && qd_alpha d then
                      if qd_beta d then s2                             (* :965-980 break *)
                      else qloop rec dec p ply l' (S i) (save_pv m ply s2)   (* :982 *)
                    else qloop rec dec p ply l' (S i) s2
           end
  end.

(** [ec] = the Clear on entry (:775 and :182) is present; the real code is [ec = true],
    [ec = false] only documents the repaired defect (PvProofs.stale_line_without_entry_clear) *)
Definition entry_clear (ec : bool) (ply : nat) (s : st) : st := if ec then clear ply s else s.

Fixpoint qsearch_gen (ec : bool) (fuel : nat) (o : oracle) (p : path) (t : gt) (ply : nat) (s : st) : st :=
  match fuel with
  | O => mark_oof (clear ply s)
  | S f =>
      let s0 := entry_clear ec ply s in                                (* :775 *)
      let v := o_q o p t in
      if q_off v || (max_depth <=? ply) then s0                        (* :779-781 evaluate *)
      else if q_mdp v then s0                                          (* :786-793 *)
      else if q_standpat v then s0                                     (* :812-816 *)
      else if q_hash v then s0                                         (* :841-844 *)
      else
        let s1 := clear ply s0 in                                      (* :855 *)
        let s2 := qloop (fun p' c s' => qsearch_gen ec f o p' c (S ply) s')
                        (q_dec v) p ply (select (q_order v) (pmoves t)) 0 s1 in
        observe (q_stop_end v) s2                                      (* :994 *)
  end.

(** ** search (alphabeta.go:174-753) *)

(** move loop :431-718; [rec p c d s] = search on child [c] with depth [d] at ply+1 *)
Fixpoint sloop (rec : path -> gt -> nat -> st -> st) (dec : nat -> mdec) (p : path) (depth ply : nat)
         (l : list (move * option gt)) (i : nat) (s : st) : st :=
  match l with
  | [] => s
  | (m, oc) :: l' =>
      let d := dec i in
      if md_skip d then sloop rec dec p depth ply l' (S i) s           (* :544 / :554 continue *)
      else match oc with
           | None => sloop rec dec p depth ply l' (S i) s              (* :589-592 illegal: undo, continue *)
           | Some c =>
               let newDepth := depth - 1 + (if md_ext d then 1 else 0) in   (* :472, :502-504 *)
               let lmrDepth := newDepth - md_lmr d in                  (* :573, clamp :577-579 *)
               let s1 :=
                 if md_draw d then clear (S ply) s                     (* :600-602 *)
                 else if md_pvs d then
                        let s' := rec (SChild i 0 :: p) c lmrDepth s in      (* :620 *)
                        if md_second d then
                          let s'' := observe (md_stop2 d) s' in        (* :625 *)
                          if stopped s'' then s''
                          else rec (SChild i 1 :: p) c newDepth s''    (* :629 / :632 *)
                        else s'
                      else rec (SChild i 0 :: p) c newDepth s in       (* :615 *)
               let s2 := observe (md_stop3 d) s1 in                    (* :646 *)
               if stopped s2 then s2                                   (* :647 return ValueNA *)
               else if md_best d && md_alpha d then
                      if md_beta d then s2                             (* :673-698 break *)
                      else sloop rec dec p depth ply l' (S i) (save_pv m ply s2)   (* :703 *)
                    else sloop rec dec p depth ply l' (S i) s2
           end
  end.

Fixpoint search_gen (ec : bool) (fuel : nat) (o : oracle) (p : path) (t : gt) (depth ply : nat) (s : st) : st :=
  match fuel with
  | O => mark_oof (clear ply s)
  | S f =>
      let s0 := entry_clear ec ply s in                                (* :182 *)
      let v := o_s o p t in
      let s1 := observe (v_stop0 v) s0 in                              (* :185 *)
      if stopped s1 then s1                                            (* :186 *)
      else if (depth =? 0) || (max_depth <=? ply)
      then qsearch_gen ec f o (SQs :: p) t ply s1                      (* :190-192 *)
      else
        match v_early v with
        | EMdp => s1                                                   (* :200-203 *)
        | EHash line => set_buf ply line s1                            (* :251 getPVLine: Clear, PushBack* *)
        | ERazor => qsearch_gen ec f o (SQs :: p) t ply s1             (* :278 *)
        | ERfp => s1                                                   (* :294 *)
        | ENone =>
            (* null move :308-366: search on the null-move position at ply+1 *)
            let s2 :=
              match v_null v with
              | None => s1
              | Some np =>
                  observe (np_stop np)                                                   (* :337 *)
                          (search_gen ec f o (SNull :: p) (np_tree np)
                                      (depth - np_red np - 1) (S ply) s1)                (* :324-333 *)
              end in
            if match v_null v with
               | None => false
               | Some np => stopped s2 || np_cut np                    (* :338 / :357-363 *)
               end
            then s2
            else
              (* IID :376-403: search on the SAME node at the SAME ply, reduced depth *)
              let s3 :=
                match v_iid v with
                | None => s2
                | Some ip =>
                    observe (ip_stop ip)                                                 (* :393 *)
                            (search_gen ec f o (SIid :: p) t (depth - ip_red ip) ply s2) (* :383-389 *)
                end in
              if match v_iid v with None => false | Some _ => stopped s3 end   (* :394 *)
              then s3
              else
                let s4 := clear ply s3 in                              (* :409 *)
                let s5 := sloop (fun p' c d s' => search_gen ec f o p' c d (S ply) s')
                                (v_dec v) p depth ply (select (v_order v) (pmoves t)) 0 s4 in
                observe (v_stop_end v) s5                              (* :727 *)
        end
  end.

Definition qsearch := qsearch_gen true.
Definition search := search_gen true.

(** ** rootSearch (alphabeta.go:53-167) *)

Fixpoint rloop (rec : path -> gt -> st -> st) (dec : nat -> rdec) (p : path) (depth : nat)
         (l : list (move * gt)) (i : nat) (s : st) : st :=
  match l with
  | [] => s
  | (m, c) :: l' =>
      let d := dec i in
      let s1 :=
        if rd_draw d then clear 1 s                                    (* :86-88 *)
        else if rd_pvs d then
               let s' := rec (SChild i 0 :: p) c s in                  (* :97 *)
               if rd_second d then
                 let s'' := observe (rd_stop2 d) s' in                 (* :100 *)
                 if stopped s'' then s''
                 else rec (SChild i 1 :: p) c s''                      (* :102 *)
               else s'
             else rec (SChild i 0 :: p) c s in                         (* :94 *)
      let s2 := observe (rd_stop3 d) s1 in                             (* :114 *)
      if stopped s2 && (1 <? depth) then s2                            (* :114-116 return 0 *)
      else if rd_best d then                                           (* :125 *)
             let s3 := save_pv m 0 s2 in                               (* :128 *)
             if rd_alpha d && rd_beta d then s3                        (* :129-134 return value *)
             else rloop rec dec p depth l' (S i) s3
           else rloop rec dec p depth l' (S i) s2
  end.

Definition root_moves (o : oracle) (t : gt) (depth : nat) : list (move * gt) :=
  select (r_order (o_r o depth)) (legal_children t).

Definition root_search (fuel : nat) (o : oracle) (t : gt) (depth : nat) (s : st) : st :=
  rloop (fun p' c s' => search fuel o p' c (depth - 1) 1 s')
        (r_dec (o_r o depth)) [SIter depth] depth (root_moves o t depth) 0 s.

(** ** iterativeDeepening (search.go:408-554) *)

(** s.pv[0].At(0) on an empty slice panics (moveslice.go At) *)
Definition at0_check (s : st) : st :=
  match getb 0 s with [] => mark_err s | _ :: _ => s end.

(** the loop :486-518; [n] = iterations left, [depth] = iterations done; returns the state
    and the PVs reported to the UCI layer at the end of completed iterations (:514, in
    reverse order) *)
Fixpoint iter_loop (n : nat) (fuel : nat) (o : oracle) (t : gt) (depth : nat)
         (rep : list (list move)) (s : st) : st * list (list move) :=
  match n with
  | O => (s, rep)
  | S n' =>
      let depth' := S depth in                                         (* :487 *)
      let s1 := root_search fuel o t depth' s in                       (* :500 *)
      let s2 := observe (r_stop_after (o_r o depth')) s1 in            (* :508 *)
      if negb (stopped s2) && (1 <? length (root_moves o t depth'))    (* :508 *)
      then let s3 := at0_check s2 in                                   (* :511-512 *)
           iter_loop n' fuel o t depth' (getb 0 s3 :: rep) s3          (* :514 *)
      else (s2, rep)                                                   (* :516 break *)
  end.

Record result := mkResult {
  res_best : option move;       (* None = MoveNone *)
  res_ponder : option move;
  res_pv : list move;
  res_reports : list (list move);
  res_final : st
}.

(** ValidateMove (movegen.go:597-608): membership in the legal move list *)
Definition validate (c : gt) (m : move) : bool :=
  existsb (fun x => N.eqb m (fst x)) (legal_children c).

(** the successor reached by move [b] (DoMove :542) *)
Definition child_of (t : gt) (b : move) : option gt :=
  match find (fun x => N.eqb b (fst x)) (legal_children t) with
  | Some (_, c) => Some c
  | None => None
  end.

(** iterativeDeepening; [maxdepth] = searchLimits.Depth or MaxDepth (:474-477);
    [usett] = Settings.Search.UseTT (:541) *)
Definition iterative_deepening (fuel : nat) (o : oracle) (usett : bool) (t : gt) (maxdepth : nat) (s : st) : result :=
  match legal_children t with
  | [] => mkResult None None (getb 0 s) [] s                           (* :426-441 (value: Terminal.v) *)
  | _ :: _ =>
      let '(s1, rep) := iter_loop maxdepth fuel o t 0 [] s in
      match getb 0 s1 with
      | [] => mkResult None None [] rep (mark_err s1)                  (* :526 At(0) panics *)
      | b :: rest =>
          let ponder :=
            match rest with
            | pm :: _ => Some pm                                       (* :536-537 *)
            | [] =>
                if usett then                                          (* :541 *)
                  match o_ponder_hash o, child_of t b with
                  | Some hm, Some c => if validate c hm then Some hm else None   (* :543-548 *)
                  | _, _ => None
                  end
                else None
            end in
          mkResult (Some b) ponder (getb 0 s1) rep s1                  (* run :366 Pv = *s.pv[0] *)
      end
  end.

(** run (search.go:273-391): fresh buffers (:326-335), book-move branch (:343-350), then
    Pv = *s.pv[0] (:366) and sendResult (:390).  [book] = the book move chosen at :304-312. *)
Definition run (fuel : nat) (o : oracle) (usett : bool) (book : option move) (t : gt) (maxdepth : nat) : result :=
  match book with
  | Some bm => mkResult (Some bm) None (getb 0 init_st) [] init_st     (* :348 *)
  | None => iterative_deepening fuel o usett t maxdepth init_st        (* :345 *)
  end.

(** ** Fuel that is always enough (PvProofs.fuel_enough): the recursion either increases
    ply (bounded by MaxDepth, where search delegates to qsearch and qsearch evaluates) or
    keeps ply and strictly decreases depth (IID with IIDReduction >= 1). *)
Definition qmeasure (ply : nat) : nat := S (max_depth - ply).
Definition smeasure (depth ply : nat) : nat := S (max_depth - ply) * S depth + 1.

(** ** Executable checker for the correspondence run

    [Replay.run_case t tbl rt D] replays a real depth-[D] search of the engine in its MINIMAL
    configuration (hash table, all prunings, extensions, quiescence, MDP, IID, killers, history and
    counter moves off; PVS on or off) and returns
      (final pv = Result.Pv, the PVs of SendIterationEndInfo in order, err, oof, best move).
    Argument conventions (what the Go side has to dump):
      [t]   the game tree to depth [D]: at every node the moves delivered by
            GetNextMove(GenAll, evasion = hasCheck) in delivery order, [None] = !WasLegalMove(),
            nodes at depth D are [GNode chk []]; moves as Move.MoveOf() numbers;
      [tbl] for every visit of [search] below the root its key and, per delivered move in order,
            (draw, pvs, second, best, alpha, beta) =
            (checkDrawRepAnd50, null-window search done (:616), re-search done (:625-633),
             value > bestNodeValue, value > alpha, value >= beta); all false for illegal moves;
            key of a visit = iteration depth :: for every ply 2*moveIndex + (1 if re-search);
      [rt]  per iteration depth: the root move order as indices into the legal moves of [t] (in tree
            order) and the same six booleans per root move.
    The comparisons are derived by a reference alpha-beta on the Go side (engine generator,
    evaluator and draw test); the PVs compared against are the ones the real search reported. *)
Module Replay.

Definition dec6 := (bool * bool * bool * bool * bool * bool)%type.
Definition dflt6 : dec6 := (false, false, false, false, false, false).
Definition mdec_of (x : dec6) : mdec :=
  let '(dr, pv, se, be, al, bt) := x in mkMdec false false 0 dr pv se false false be al bt.
Definition rdec_of (x : dec6) : rdec :=
  let '(dr, pv, se, be, al, bt) := x in mkRdec dr pv se false false be al bt.

Fixpoint key_of (p : path) : list nat :=
  match p with
  | [] => []
  | SIter d :: r => d :: key_of r
  | SChild i k :: r => key_of r ++ [2 * i + k]
  | _ :: r => key_of r
  end.

Fixpoint list_eqb (a b : list nat) : bool :=
  match a, b with
  | [], [] => true
  | x :: a', y :: b' => Nat.eqb x y && list_eqb a' b'
  | _, _ => false
  end.

Fixpoint lookup (k : list nat) (tbl : list (list nat * list dec6)) : list dec6 :=
  match tbl with
  | [] => []
  | (k', v) :: r => if list_eqb k k' then v else lookup k r
  end.

Fixpoint lookup_r (d : nat) (rt : list (nat * (list nat * list dec6))) : list nat * list dec6 :=
  match rt with
  | [] => ([], [])
  | (d', v) :: r => if Nat.eqb d d' then v else lookup_r d r
  end.

Definition mk_oracle (tbl : list (list nat * list dec6)) (rt : list (nat * (list nat * list dec6))) : oracle :=
  mkOracle
    (fun p t => mkVisit false ENone None None (seq 0 (length (pmoves t)))
                        (fun i => mdec_of (nth i (lookup (key_of p) tbl) dflt6)) false)
    (fun p t => mkQvisit true false false false [] (fun _ => mkQdec false false false false false false) false)
    (fun d => let '(ord, decs) := lookup_r d rt in mkRvisit ord (fun i => rdec_of (nth i decs dflt6)) false)
    None.

Definition run_case (t : gt) tbl rt (D : nat) :=
  let r := run (smeasure D 1) (mk_oracle tbl rt) false None t D in
  (res_pv r, rev (res_reports r), err (res_final r), oof (res_final r), res_best r).

End Replay.
