(** * BookModel — executable model of internal/openingbook/openingbook.go (property C19)

    Two layers.

    (A) THE BOOK UNDER CONCURRENT CONSTRUCTION.  Chess is abstracted: a line (game) after
        format-specific reading is a list of move tokens (byte strings); resolving a token in a
        position is a partial function [resolve : key -> token -> option (move * key)] supplied as a
        parameter ([None] = the token is unreadable or the move illegal: processSingleMove returns
        an error and the line stops there, openingbook.go:364-369 / 543-549).  Positions are
        identified with their 64-bit zobrist keys (N) exactly as the Go map does.  The unit of
        atomicity is what runs under [bookLock]: the root-counter increment of a line
        (openingbook.go:348-356 / 528-536) and addToBook (openingbook.go:582-612).  Everything a
        goroutine does between two such critical sections touches only goroutine-local state
        (its own position.Position and movegen.Movegen, openingbook.go:345,360 / 525,540), so a
        parallel build is an interleaving of the per-line step lists.

    (B) THE THREE READERS.  [tokens_simple], [tokens_san], [tokens_pgn] transcribe the regexp based
        cleaning of processSimpleLine / processSanLine / processPgnGame on byte strings
        ([str := list N]).  Go's regexp package implements leftmost-first (Perl-like) matching;
        every pattern used here is simple enough that the match anchored at a given position is
        determined by a deterministic scan, which the hand-written matchers [m_*] below perform
        (each returns the length of the match anchored at the head of its argument, [None] if
        there is none).  ReplaceAllString is the left-to-right scanner [ra].
        VALIDITY DOMAIN: ASCII input (bytes < 128) without '\n' inside a line (lines come from
        bufio.Scanner/ScanLines, openingbook.go:270-273).  strings.TrimSpace additionally trims
        the multi-byte runes U+0085, U+00A0, U+1680, U+2000.. which are outside this domain. *)

From Coq Require Import NArith List Bool Arith.
From stdpp Require Import base option fin_maps nmap.
Import ListNotations.

Local Open Scope N_scope.

(* ========================================================================= *)
(** * Part B — byte strings, regular expressions, the three tokenizers       *)
(* ========================================================================= *)

Definition str := list N.

Definition in_range (lo hi c : N) : bool := (lo <=? c) && (c <=? hi).
Definition is_digit (c : N) : bool := in_range 48 57 c.            (* \d  = [0-9] *)
Definition is_file (c : N) : bool := in_range 97 104 c.            (* [a-h] *)
Definition is_rank (c : N) : bool := in_range 49 56 c.             (* [1-8] *)
Definition is_word (c : N) : bool :=                               (* \w  = [0-9A-Za-z_] *)
  is_digit c || in_range 65 90 c || in_range 97 122 c || (c =? 95).
(* unicode.IsSpace restricted to ASCII: '\t' '\n' '\v' '\f' '\r' ' ' (strings.TrimSpace) *)
Definition is_space_trim (c : N) : bool := in_range 9 13 c || (c =? 32).
(* RE2 \s = [\t\n\f\r ]  — NOT '\v' (11) *)
Definition is_space_re (c : N) : bool := (c =? 9) || (c =? 10) || (c =? 12) || (c =? 13) || (c =? 32).

(* strings.TrimSpace *)
Fixpoint trim_left (s : str) : str :=
  match s with
  | c :: t => if is_space_trim c then trim_left t else s
  | [] => []
  end.
Definition trim_right (s : str) : str := rev (trim_left (rev s)).
Definition trim_space (s : str) : str := trim_right (trim_left s).

(** [span p s] = (number of leading characters satisfying p, the rest) *)
Fixpoint span (p : N -> bool) (s : str) : nat * str :=
  match s with
  | c :: t => if p c then let '(n, r) := span p t in (S n, r) else (O, s)
  | [] => (O, [])
  end.

(** regexp.ReplaceAllString(s, r) for a pattern that cannot match the empty string:
    scan left to right; at a position where the pattern matches (match length S n) emit [r]
    and continue behind the match, otherwise copy one character.  [skip] = number of characters
    still to be skipped (inside the last match); top-level call has skip = 0. *)
Section ReplaceAll.
  Variable m : str -> option nat.
  Variable r : str.
  Fixpoint ra (skip : nat) (s : str) : str :=
    match s with
    | [] => []
    | c :: t =>
      match skip with
      | S k => ra k t
      | O => match m s with
             | Some (S n) => r ++ ra n t
             | _ => c :: ra 0 t
             end
      end
    end.
  (** regexp.MatchString *)
  Fixpoint has_match (s : str) : bool :=
    match s with
    | [] => false
    | _ :: t => match m s with Some (S _) => true | _ => has_match t end
    end.
End ReplaceAll.

(* ---- openingbook.go:444  regexTagPairs = \[\w+ +Q.*?Q\]  (Q = the double quote, byte 34) ---------------------------------- *)
(** index just behind the first occurrence of the two characters  Q]  ('.' does not match '\n') *)
Fixpoint find_quote_bracket (s : str) : option nat :=
  match s with
  | a :: t =>
    if a =? 10 then None else
    match t with
    | b :: _ => if (a =? 34) && (b =? 93) then Some 2%nat
                else option_map S (find_quote_bracket t)
    | [] => None
    end
  | [] => None
  end.
Definition m_tag (s : str) : option nat :=
  match s with
  | c :: t =>
    if c =? 91 then                                   (* \[ *)
      let '(nw, t1) := span is_word t in              (* \w+  (greedy; no backtracking possible) *)
      if (nw =? 0)%nat then None else
      let '(ns, t2) := span (N.eqb 32) t1 in          (* ' '+ *)
      if (ns =? 0)%nat then None else
      match t2 with
      | q :: t3 =>
        if q =? 34 then                               (* Q *)
          match find_quote_bracket t3 with            (* .*?Q\]  non-greedy: first occurrence *)
          | Some k => Some (1 + nw + ns + 1 + k)%nat
          | None => None
          end
        else None
      | [] => None
      end
    else None
  | [] => None
  end.

(* ---- openingbook.go:394  regexResult = ((1-0)|(0-1)|(1/2-1/2)|(\STAR))$ with STAR the asterisk --------------------- *)
Fixpoint str_eqb (a b : str) : bool :=
  match a, b with
  | [], [] => true
  | x :: a', y :: b' => (x =? y) && str_eqb a' b'
  | _, _ => false
  end.
Definition ends_with (s suf : str) : bool :=
  (length suf <=? length s)%nat && str_eqb (skipn (length s - length suf) s) suf.
Definition s_10 : str := [49;45;48].                   (* 1-0 *)
Definition s_01 : str := [48;45;49].                   (* 0-1 *)
Definition s_draw : str := [49;47;50;45;49;47;50].     (* 1/2-1/2 *)
Definition s_star : str := [42].                       (* the asterisk *)
(** length of the (unique) match of regexResult in s, 0 if none.  The alternatives have fixed
    lengths 3,3,7,1 and must end at the end of the text, so the candidates start at len-7, len-3,
    len-1; the leftmost is tried first; no two candidates can match simultaneously. *)
Definition result_len (s : str) : nat :=
  if ends_with s s_draw then 7%nat
  else if ends_with s s_10 || ends_with s s_01 then 3%nat
  else if ends_with s s_star then 1%nat else 0%nat.
Definition has_result (s : str) : bool := negb (result_len s =? 0)%nat.   (* regexResult.MatchString *)
Definition strip_result (s : str) : str := firstn (length s - result_len s) s. (* ReplaceAllString(s, empty) *)

(* ---- openingbook.go:443  regexTrailingComments = ;.*$  ------------------------------------ *)
(** on a line without '\n': everything from the first ';' on is removed *)
Fixpoint strip_semi (s : str) : str :=
  match s with
  | c :: t => if c =? 59 then [] else c :: strip_semi t
  | [] => []
  end.

(* ---- openingbook.go:445  regexNagAnnotation = (\$\d{1,3})  -------------------------------- *)
Definition m_nag (s : str) : option nat :=
  match s with
  | c :: t => if c =? 36 then
                let n := Nat.min 3 (fst (span is_digit t)) in
                if (n =? 0)%nat then None else Some (S n)
              else None
  | [] => None
  end.

(* ---- openingbook.go:446-448  {[^{}]*}   <[^<>]*>   \([^()]*\)  ---------------------------- *)
(** behind the opening delimiter: length up to and including the first closing delimiter;
    None if an opening delimiter or the end of the text comes first *)
Fixpoint scan_delim (op cl : N) (s : str) : option nat :=
  match s with
  | [] => None
  | c :: t => if c =? cl then Some 1%nat
              else if c =? op then None
              else option_map S (scan_delim op cl t)
  end.
Definition m_delim (op cl : N) (s : str) : option nat :=
  match s with
  | c :: t => if c =? op then option_map S (scan_delim op cl t) else None
  | [] => None
  end.
Definition m_brace := m_delim 123 125.     (* { } *)
Definition m_angle := m_delim 60 62.       (* < > *)
Definition m_paren := m_delim 40 41.       (* ( ) *)

(* ---- openingbook.go:490  regexSanLineStart = ^\d+\. ?  (MatchString) ---------------------- *)
Definition san_line_start (s : str) : bool :=
  let '(nd, t) := span is_digit s in
  negb (nd =? 0)%nat && match t with c :: _ => c =? 46 | [] => false end.

(* ---- openingbook.go:491  regexSanLineCleanUpNumbers = (\d+\.{1,3} ?)  --------------------- *)
Definition m_num (s : str) : option nat :=
  let '(nd, t1) := span is_digit s in
  if (nd =? 0)%nat then None else
  let ndot := Nat.min 3 (fst (span (N.eqb 46) t1)) in
  if (ndot =? 0)%nat then None else
  let sp := match skipn ndot t1 with c :: _ => if c =? 32 then 1%nat else 0%nat | [] => 0%nat end in
  Some (nd + ndot + sp)%nat.

(* ---- openingbook.go:492  regexSanLineCleanUpResults = (1/2|1|0)-(1/2|1|0)  ---------------- *)
(** one group (1/2|1|0): leftmost-first prefers 1/2; backtracking from 1/2 to 1 can never
    help because the character behind that 1 is '/' and the pattern continues with '-' / ends *)
Definition m_res_grp (s : str) : option nat :=
  match s with
  | c1 :: t =>
    if c1 =? 49 then
      match t with
      | c2 :: c3 :: _ => if (c2 =? 47) && (c3 =? 50) then Some 3%nat else Some 1%nat
      | _ => Some 1%nat
      end
    else if c1 =? 48 then Some 1%nat else None
  | [] => None
  end.
Definition m_res (s : str) : option nat :=
  match m_res_grp s with
  | Some a =>
    match skipn a s with
    | c :: t => if c =? 45 then
                  match m_res_grp t with Some b => Some (a + 1 + b)%nat | None => None end
                else None
    | [] => None
    end
  | None => None
  end.

(* ---- openingbook.go:493  regexWhiteSpace = \s+ ; Split(line, -1)  ------------------------- *)
(** regexp.Split(s, -1): fields between maximal runs of \s; a separator at the very beginning
    (end) yields a leading (trailing) empty field; Split of the empty string = one empty field (regexp.go Split:
    if len(re.expr) > 0 && len(s) == 0 then return a slice holding one empty string). *)
Fixpoint split_ws (cur : str) (inws : bool) (s : str) : list str :=
  match s with
  | [] => [rev cur]
  | c :: t =>
    if is_space_re c then
      if inws then split_ws [] true t else rev cur :: split_ws [] true t
    else split_ws (c :: cur) false t
  end.

(* ------------------------------------------------------------------------- *)
(** ** processSimpleLine  (openingbook.go:320-371): the tokens of a Simple-format line *)

(* openingbook.go:317  regexSimpleUciMove = ([a-h][1-8][a-h][1-8]) *)
Definition is_move4 (a b c d : N) : bool := is_file a && is_rank b && is_file c && is_rank d.

(* openingbook.go:329-335: the character behind the match is appended when it is one of
   n r q N R Q, or when it is 'b'/'B' and the character behind it is not a rank digit (or the line
   ends there) *)
Definition simple_promo (rest : str) : str :=
  match rest with
  | c :: r =>
    if (c =? 110) || (c =? 114) || (c =? 113) || (c =? 78) || (c =? 82) || (c =? 81) then [c]
    else if ((c =? 98) || (c =? 66)) &&
            match r with d :: _ => negb (is_rank d) | [] => true end then [c]
    else []
  | [] => []
  end.

(* openingbook.go:327  FindAllStringIndex(line,-1): leftmost non-overlapping matches; the next
   search starts behind the previous match (so the promotion letter is examined again as the
   possible start of the next move — that is why 'b' needs the look-ahead) *)
Fixpoint simple_scan (skip : nat) (s : str) : list str :=
  match s with
  | [] => []
  | a :: t =>
    match skip with
    | S k => simple_scan k t
    | O =>
      match t with
      | b :: c :: d :: rest =>
        if is_move4 a b c d then (a :: b :: c :: d :: simple_promo rest) :: simple_scan 3 t
        else simple_scan 0 t
      | _ => simple_scan 0 t
      end
    end
  end.

(** None = the line is skipped without touching the book (openingbook.go:340-342);
    Some toks = root counter++ then the tokens are processed in order *)
Definition tokens_simple (line : str) : option (list str) :=
  match simple_scan 0 (trim_space line) with          (* openingbook.go:321 *)
  | [] => None
  | toks => Some toks
  end.

(* ------------------------------------------------------------------------- *)
(** ** processSanLine  (openingbook.go:496-551) *)
Definition tokens_san (line : str) : option (list str) :=
  let l := trim_space line in                         (* :497 *)
  if san_line_start l then                            (* :500-503 *)
    let l1 := ra m_num [] 0 l in                      (* :513 *)
    let l2 := ra m_res [] 0 l1 in                     (* :514 *)
    let l3 := trim_space l2 in                        (* :515 *)
    Some (split_ws [] false l3)                       (* :518; len(moveStrings)==0 (:520) never holds *)
  else None.

(* ------------------------------------------------------------------------- *)
(** ** processPgnGame  (openingbook.go:451-487) *)

(* :456-473  one input line of the game; None = contributes nothing *)
Definition clean_pgn_line (l0 : str) : option str :=
  let l := trim_space l0 in                           (* :457 *)
  if match l with c :: _ => c =? 37 | [] => false end (* :458 HasPrefix percent sign *)
  then None
  else
    let l := ra m_tag [] 0 l in                       (* :462 *)
    let l := strip_result l in                        (* :463 *)
    let l := strip_semi l in                          (* :464 *)
    let l := trim_space l in                          (* :465 *)
    match l with [] => None | _ => Some l end.        (* :467 *)

Definition pgn_move_line (gs : list str) : str :=     (* :471-472  one space + l *)
  concat (map (fun l => match clean_pgn_line l with Some x => 32 :: x | None => [] end) gs).

(* :481-483  for regexRavVariants.MatchString(line) { line = ReplaceAllString(line, one space) }
   every iteration with a match makes the line strictly shorter (a match has at least two
   characters and is replaced by one), so [length line] iterations suffice: proved as
   [rav_loop_fuel_enough] in BookProofs.v *)
Fixpoint rav_loop (fuel : nat) (line : str) : str :=
  match fuel with
  | O => line
  | S f => if has_match m_paren line then rav_loop f (ra m_paren [32] 0 line) else line
  end.

Definition pgn_clean (line : str) : str :=
  let l := ra m_nag [32] 0 line in                    (* :477 *)
  let l := ra m_brace [32] 0 l in                     (* :478 *)
  let l := ra m_angle [32] 0 l in                     (* :479 *)
  rav_loop (length l) l.                              (* :481-483 *)

Definition tokens_pgn (gs : list str) : option (list str) :=
  tokens_san (pgn_clean (pgn_move_line gs)).          (* :486 *)

(* processPgn (openingbook.go:400-415): a game = the lines up to and including the next line whose
   trimmed text ends with a result marker; lines behind the last such line are dropped *)
Fixpoint pgn_slices (acc : list str) (lines : list str) : list (list str) :=
  match lines with
  | [] => []
  | l :: t => if has_result (trim_space l) then rev (l :: acc) :: pgn_slices [] t
              else pgn_slices (l :: acc) t
  end.

Inductive format := Simple | San | Pgn.

(** the token lists of all lines/games of a file (one goroutine each) *)
Definition file_games (f : format) (lines : list str) : list (option (list str)) :=
  match f with
  | Simple => map tokens_simple lines
  | San => map tokens_san lines
  | Pgn => map tokens_pgn (pgn_slices [] lines)
  end.

(* processSingleMove (openingbook.go:553-578): a token containing [a-h][1-8][a-h][1-8] ANYWHERE
   (the pattern of openingbook.go:553 is not anchored) is handed to GetMoveFromUci, every other
   token to GetMoveFromSan (if the equally unanchored regexSanMove matches).  The movegen parsers
   themselves match the WHOLE string (movegen.go:462,497 are anchored): a token with anything
   glued to the move is unreadable and ends the line; a fully disambiguated SAN move such as
   Ng1f3 or Qh4e1 contains a coordinate pair, is routed to the UCI parser and is unreadable too.
   All of this is inside the parameter [resolve] of Part A; [uci_pattern_in] only documents the
   routing. *)
Fixpoint uci_pattern_in (s : str) : bool :=
  match s with
  | a :: t => match t with
              | b :: c :: d :: _ => is_move4 a b c d || uci_pattern_in t
              | _ => false
              end
  | [] => false
  end.

(* ========================================================================= *)
(** * Part A — the book and its construction                                  *)
(* ========================================================================= *)

(** BookEntry (openingbook.go:98-102).  The field ZobristKey always equals the map key under
    which the entry is stored (set at :188 and :603-606 only) and is omitted.  Counter is a Go
    int (64 bit; one increment per processed move, no wrap-around in practice): unbounded N. *)
Record entry := Entry { cnt : N; succs : list (N * N) (* Successor{Move, NextEntry} *) }.

Notation book := (Nmap entry) (only parsing).

(** the atomic actions (critical sections under bookLock) *)
Inductive step :=
| SRoot                                  (* openingbook.go:348-356 / 528-536 *)
| SAdd (cur next mv : N).                (* addToBook, openingbook.go:582-612 *)

Definition bump (e : entry) : entry := Entry (cnt e + 1) (succs e).

(* None = panic(root entry of book map not found) *)
Definition root_step (root : N) (b : book) : option book :=
  match b !! root with
  | Some e => Some (<[root := bump e]> b)
  | None => None
  end.

Definition add_step (cur next mv : N) (b : book) : book :=
  match b !! cur with
  | None => b                                               (* :590-594 log error, return *)
  | Some ce =>
    match b !! next with
    | Some ne => <[next := bump ne]> b                      (* :598-601 counter++ only, NO edge *)
    | None =>                                               (* :602-611 *)
      <[cur := Entry (cnt ce) (succs ce ++ [(mv, next)])]> (<[next := Entry 1 []]> b)
    end
  end.

Definition apply_step (root : N) (b : book) (s : step) : option book :=
  match s with
  | SRoot => root_step root b
  | SAdd c n m => Some (add_step c n m b)
  end.

Fixpoint run (root : N) (sched : list step) (b : book) : option book :=
  match sched with
  | [] => Some b
  | s :: t => match apply_step root b s with Some b' => run root t b' | None => None end
  end.

(* initialize, openingbook.go:185-188 *)
Definition init_book (root : N) : book := {[ root := Entry 0 [] ]}.

Section Games.
  Variable resolve : N -> str -> option (N * N).     (* key -> token -> (move, next key) *)
  Variable root : N.

  (** the moves of a line from position k on: stop at the first token that does not resolve *)
  Fixpoint walk (k : N) (toks : list str) : list step :=
    match toks with
    | [] => []
    | t :: ts => match resolve k t with
                 | Some (mv, nk) => SAdd k nk mv :: walk nk ts
                 | None => []
                 end
    end.

  (** the critical sections of one goroutine, in program order *)
  Definition game_steps (g : option (list str)) : list step :=
    match g with
    | None => []
    | Some toks => SRoot :: walk root toks
    end.

  (** the goroutine body as the Go code runs it when nothing interferes: the local position key
      and the shared book are threaded through (processSimpleLine / processSanLine) *)
  Fixpoint seq_moves (k : N) (toks : list str) (b : book) : book :=
    match toks with
    | [] => b
    | t :: ts => match resolve k t with
                 | Some (mv, nk) => seq_moves nk ts (add_step k nk mv b)
                 | None => b
                 end
    end.
  Definition seq_game (g : option (list str)) (b : book) : option book :=
    match g with
    | None => Some b
    | Some toks => match root_step root b with
                   | Some b' => Some (seq_moves root toks b')
                   | None => None
                   end
    end.

  (** sequential build (const parallel = false) *)
  Fixpoint seq_build (gs : list (option (list str))) (b : book) : option book :=
    match gs with
    | [] => Some b
    | g :: t => match seq_game g b with Some b' => seq_build t b' | None => None end
    end.
End Games.

(* ------------------------------------------------------------------------- *)
(** ** Specification of positions and visit counts *)

(** number of critical sections in [l] that reach key k: every SRoot reaches the root,
    SAdd _ n _ reaches n *)
Definition hits (root k : N) (s : step) : N :=
  match s with
  | SRoot => if k =? root then 1 else 0
  | SAdd _ n _ => if k =? n then 1 else 0
  end.
Fixpoint occ (root k : N) (l : list step) : N :=
  match l with
  | [] => 0
  | s :: t => hits root k s + occ root k t
  end.

(** the counter view of a book: key ↦ Some counter for book positions, None otherwise *)
Definition cview (b : book) (k : N) : option N := cnt <$> (b !! k).

(** [spec_counts root ls k]: the root is always a book position; any other key is one iff some
    step reaches it; the counter is the number of steps reaching it *)
Definition spec_counts (root : N) (ls : list (list step)) (k : N) : option N :=
  let n := occ root k (concat ls) in
  if (k =? root) || negb (n =? 0) then Some n else None.

(* ------------------------------------------------------------------------- *)
(** ** Executable checker for the correspondence run

    [book_case_ok root games observed]
    - [root]     : zobrist key of the start position (Book.rootEntry);
    - [games]    : one element per line/game that passed the line filter (i.e. incremented the
                   root counter): the list of its successful addToBook calls in order, each as
                   ((cur, next), move) = (key before DoMove, key after DoMove, uint32(move))
                   — exactly the arguments of addToBook (openingbook.go:575);
    - [observed] : the real book after Initialize: one ((key, Counter), Moves) per map entry,
                   Moves as (Move, NextEntry) pairs, in any order.
    Checks: every game is a chain starting at the root; observed keys are distinct; the
    observed key set and counters are exactly [spec_counts]; every observed edge (k, mv, nk) is a
    step of some game, nk is an observed key, and every key occurs at most once as a successor
    in the whole book while every non-root key occurs exactly once. *)

Definition ostep := (N * N * N)%type.
Definition to_step (s : ostep) : step := let '(c, n, m) := s in SAdd c n m.
Definition game_of (g : list ostep) : list step := SRoot :: map to_step g.

Fixpoint chained (k : N) (g : list ostep) : bool :=
  match g with
  | [] => true
  | (c, n, _) :: t => (c =? k) && chained n t
  end.

Definition oentry := (N * N * list (N * N))%type.
Definition okey (e : oentry) : N := fst (fst e).

Fixpoint nodup_keys (l : list N) : bool :=
  match l with
  | [] => true
  | k :: t => negb (existsb (N.eqb k) t) && nodup_keys t
  end.

Definition book_case_ok (root : N) (games : list (list ostep)) (observed : list oentry) : bool :=
  let ls := map game_of games in
  let keys := map okey observed in
  let all_steps := concat games in
  let all_succ := concat (map (fun e => map snd (snd e)) observed) in
  forallb (chained root) games &&
  nodup_keys keys &&
  (* counters = spec; every observed key is a spec position *)
  forallb (fun e => match spec_counts root ls (okey e) with
                    | Some n => n =? snd (fst e)
                    | None => false end) observed &&
  (* every spec position is observed *)
  existsb (N.eqb root) keys &&
  forallb (fun s => existsb (N.eqb (snd (fst s))) keys) all_steps &&
  (* edges *)
  forallb (fun e => forallb (fun mn =>
             existsb (fun s => (fst (fst s) =? okey e) && (snd (fst s) =? snd mn) && (snd s =? fst mn))
                     all_steps) (snd e)) observed &&
  forallb (fun nk => existsb (N.eqb nk) keys) all_succ &&
  nodup_keys all_succ &&
  forallb (fun k => (k =? root) || existsb (N.eqb k) all_succ) keys &&
  negb (existsb (N.eqb root) all_succ).

(* ========================================================================= *)
(** * Part C — renderers: the grammar of well-formed input for the format theorems *)
(* ========================================================================= *)

(** These definitions are specification-side only (they are not a model of engine code): they
    define WHICH texts the format-independence theorems of BookProofs.v speak about. *)

Definition is_promo_letter (p : N) : bool :=       (* n b r q N B R Q *)
  (p =? 110) || (p =? 98) || (p =? 114) || (p =? 113) || (p =? 78) || (p =? 66) || (p =? 82) || (p =? 81).

(** a coordinate move: [a-h][1-8][a-h][1-8] plus an optional promotion letter *)
Definition uci_ok (u : str) : bool :=
  match u with
  | [a; b; c; d] => is_move4 a b c d
  | [a; b; c; d; p] => is_move4 a b c d && is_promo_letter p
  | _ => false
  end.

(** Simple format: the first move, then every further move preceded by a blank or not *)
Definition render_simple (u : str) (rest : list (bool * str)) : str :=
  u ++ concat (map (fun su : bool * str => (if fst su then [32] else []) ++ snd su) rest).

(** SAN token alphabet: files, ranks, N B R Q K O x = + # ! ? - ; a '-' only directly behind 'O' *)
Definition san_char (c : N) : bool :=
  is_file c || is_rank c || (c =? 78) || (c =? 66) || (c =? 82) || (c =? 81) || (c =? 75) ||
  (c =? 79) || (c =? 120) || (c =? 61) || (c =? 43) || (c =? 35) || (c =? 33) || (c =? 63) || (c =? 45).
Fixpoint dash_ok (prev : N) (s : str) : bool :=
  match s with
  | [] => true
  | c :: t => (if c =? 45 then prev =? 79 else true) && dash_ok c t
  end.
Definition san_ok (s : str) : bool :=
  match s with [] => false | _ => forallb san_char s && dash_ok 0 s end.

(** words of a movetext *)
Inductive word :=
| WTok (s : str)                (* a move *)
| WNum (ds : str) (nd : nat)    (* move number: digits ds followed by nd dots *)
| WNag (ds : str)               (* $ds *)
| WCom (body : str)             (* {body} *)
| WAng (body : str)             (* <body> *)
| WOpen | WClose                (* ( ) *)
| WBlank (n : nat)              (* n blanks (only as the image of removed words) *)
| WResult (r : str).            (* 1-0 0-1 1/2-1/2 at the end of a SAN line *)

(** a word with its glue flag: true = no blank in front of it *)
Definition gword := (bool * word)%type.
Definition sep (g : bool) : str := if g then [] else [32].
Definition rw (w : word) : str :=
  match w with
  | WTok s => s
  | WNum ds nd => ds ++ repeat 46 nd
  | WNag ds => 36 :: ds
  | WCom body => 123 :: body ++ [125]
  | WAng body => 60 :: body ++ [62]
  | WOpen => [40]
  | WClose => [41]
  | WBlank n => repeat 32 n
  | WResult r => r
  end.
Definition rline (ws : list gword) : str :=
  concat (map (fun gw : gword => sep (fst gw) ++ rw (snd gw)) ws).
(** the same without the blank in front of the first word *)
Definition rline0 (ws : list gword) : str :=
  match ws with [] => [] | (_, w) :: t => rw w ++ rline t end.

Definition digits_ok (ds : str) (maxlen : nat) : bool :=
  match ds with [] => false | _ => forallb is_digit ds && (length ds <=? maxlen)%nat end.

(** characters allowed inside a brace comment: anything except { } ; double-quote $ ;
    inside <...>: additionally not < > *)
Definition com_char (c : N) : bool :=
  negb ((c =? 123) || (c =? 125) || (c =? 59) || (c =? 34) || (c =? 36)).
Definition ang_char (c : N) : bool := com_char c && negb ((c =? 60) || (c =? 62)).

Definition is_result (r : str) : bool := str_eqb r s_10 || str_eqb r s_01 || str_eqb r s_draw.

Definition word_ok (w : word) : bool :=
  match w with
  | WTok s => san_ok s
  | WNum ds nd => digits_ok ds 1000 && (1 <=? nd)%nat && (nd <=? 3)%nat
  | WNag ds => digits_ok ds 3
  | WCom body => forallb com_char body
  | WAng body => forallb ang_char body
  | WOpen | WClose => true
  | WBlank _ => false
  | WResult r => false
  end.

(** glue is allowed behind an opening parenthesis, in front of a closing one, and between a move
    number and its move (3.e4) *)
Definition glue_ok (prev : word) (gw : gword) : bool :=
  negb (fst gw) ||
  match prev, snd gw with
  | WOpen, _ => true
  | _, WClose => true
  | WNum _ _, WTok _ => true
  | _, _ => false
  end.
Fixpoint glues_ok (prev : word) (ws : list gword) : bool :=
  match ws with
  | [] => true
  | gw :: t => glue_ok prev gw && glues_ok (snd gw) t
  end.

(** parentheses balanced: depth never negative, 0 at the end *)
Fixpoint bal_words (d : nat) (ws : list gword) : bool :=
  match ws with
  | [] => (d =? 0)%nat
  | (_, WOpen) :: t => bal_words (S d) t
  | (_, WClose) :: t => match d with O => false | S d' => bal_words d' t end
  | _ :: t => bal_words d t
  end.

(** the moves of the game: the tokens outside all parentheses *)
Fixpoint top_toks (d : nat) (ws : list gword) : list str :=
  match ws with
  | [] => []
  | (_, WOpen) :: t => top_toks (S d) t
  | (_, WClose) :: t => top_toks (pred d) t
  | (_, WTok s) :: t => if (d =? 0)%nat then s :: top_toks d t else top_toks d t
  | _ :: t => top_toks d t
  end.

(** the first token-or-number outside all parentheses is a move number *)
Fixpoint starts_with_num (d : nat) (ws : list gword) : bool :=
  match ws with
  | [] => false
  | (_, WOpen) :: t => starts_with_num (S d) t
  | (_, WClose) :: t => starts_with_num (pred d) t
  | (_, WTok _) :: t => if (d =? 0)%nat then false else starts_with_num d t
  | (_, WNum _ _) :: t => if (d =? 0)%nat then true else starts_with_num d t
  | _ :: t => starts_with_num d t
  end.

(** one line of movetext: its first word carries no glue *)
Definition render_line (l : list gword) : str := rline0 l.
Definition line_ok (l : list gword) : bool :=
  match l with
  | [] => false
  | (g, _) :: _ => negb g
  end.

(** tag pair line: [Name QvalueQ] ; name of word characters, value without the double quote *)
Definition render_tag (name value : str) : str := 91 :: name ++ 32 :: 34 :: value ++ [34; 93].
Definition tag_ok (nv : str * str) : bool :=
  match fst nv with [] => false | _ => forallb is_word (fst nv) end &&
  forallb (fun c => negb (c =? 34) && negb (c =? 10)) (snd nv).

(** a PGN game: tag lines, movetext lines, the result appended to the last line (or alone on the
    last line when [lastl] is empty) *)
Definition render_pgn (tags : list (str * str)) (lines : list (list gword)) (lastl : list gword)
           (res : str) : list str :=
  map (fun nv : str * str => render_tag (fst nv) (snd nv)) tags ++ [[]] ++
  map render_line lines ++
  [match lastl with [] => res | _ => render_line lastl ++ 32 :: res end].

Definition pgn_result_ok (res : str) : bool := is_result res || str_eqb res s_star.

(** SAN format: number, move, move, number, ... ; [glue] = write 3.e4 instead of 3. e4 *)
Fixpoint dec_digits (fuel : nat) (n : N) (acc : str) : str :=
  match fuel with
  | O => acc
  | S f => let acc' := (48 + n mod 10) :: acc in
           if n / 10 =? 0 then acc' else dec_digits f (n / 10) acc'
  end.
Definition decimal (n : N) : str := dec_digits 40 n [].

Fixpoint san_words (glue : bool) (moveno : N) (white : bool) (g : list str) : list gword :=
  match g with
  | [] => []
  | s :: t =>
    if white then (false, WNum (decimal moveno) 1) :: (glue, WTok s) :: san_words glue moveno false t
    else (false, WTok s) :: san_words glue (moveno + 1) true t
  end.
Definition render_san (glue : bool) (g : list str) (res : option str) : str :=
  rline0 (san_words glue 1 true g ++ match res with Some r => [(false, WResult r)] | None => [] end).
