(** * EvalImpl: executable model of the static evaluation (property C15).

    Transcribes /repo/internal/evaluator/evaluator.go (Evaluate, InitEval, evaluate, value,
    finalEval, evalPiece, knightEval, bishopEval, rookEval, evalKing), types/score.go
    (ValueFromScore), the getters of position.go it reads (Material, PsqMidValue, PsqEndValue,
    GamePhase, GamePhaseFactor, HasInsufficientMaterial, PiecesBb, KingSquare) and the part of
    attacks/attacks.go (Clear, Compute, nonPawnAttacks) that the evaluator consumes, on the
    MAILBOX board of the specification ([Rules.pos]); no bitboards.

    Inputs.  The engine keeps material / piece-square sums / game phase incrementally; here
    they are RECOMPUTED from the board ([material], [psq_mid], [psq_end], [game_phase]).
    The incremental game phase can drift from [game_phase p] (clamp defect, handled by the
    position model), therefore the game phase is an explicit argument [gp] of [evaluate]:
    "the evaluation is a function of (settings, position, gp)".

    Floats.  ValueFromScore and GamePhaseFactor use float64; the model uses Coq's primitive
    floats (IEEE-754 binary64, round-to-nearest-even - the same arithmetic as Go on amd64;
    there is an explicit conversion between the multiplication and the addition, so no
    fused multiply-add can be selected by the compiler on any architecture).

    Integers.  Value is int16, Score fields are int: for a board with at most 16 pieces per
    side |material| <= 2000 + 15*900 and the other terms are a few hundred, far from 2^15,
    so unbounded Z is exact (C15 is not about wrap-around).

    Two parts:  (1) [evaluate] - the functional model;  (2) [eval_step] - the same code in
    state-passing style over a record of EVERY mutable location the evaluator owns or
    shares (Evaluator fields, the Attacks object, the package-level [tmpScore]), used to
    show that no state leaks from one call to the next.  No proofs in this file. *)
From Coq Require Import NArith ZArith List Bool Floats Uint63.
From FG Require Import Geom Rules FenSpec.
From FG.gen Require Import Tables_gen.
Import ListNotations.
Open Scope Z_scope.

(** ** Settings (config/evalconfig.go:29-58).  The switches and the integer constants. *)
Record eval_cfg := mkcfg {
  use_lazy : bool;              (* UseLazyEval            - UCI option Eval_Lazy *)
  lazy_threshold : Z;           (* LazyEvalThreshold (value at package init, see [threshold]) *)
  tempo : Z;                    (* Tempo *)
  use_attacks : bool;           (* UseAttacksInEval       - not exposed over UCI *)
  use_mobility : bool;          (* UseMobility            - UCI option Eval_Mobility (inert without UseAttacksInEval) *)
  mobility_bonus : Z;           (* MobilityBonus *)
  use_adv : bool;               (* UseAdvancedPieceEval   - UCI option Eval_AdvPiece *)
  bishop_pair_bonus : Z;
  minor_behind_pawn_bonus : Z;
  bishop_pawn_malus : Z;
  bishop_center_aim_bonus : Z;
  bishop_blocked_malus : Z;
  rook_on_queen_file_bonus : Z;
  rook_on_open_file_bonus : Z;
  rook_trapped_malus : Z;
  king_ring_attacks_bonus : Z;
  use_king : bool;              (* UseKingEval            - not exposed over UCI *)
  king_danger_malus : Z;
  king_defender_bonus : Z
}.

(* evalconfig.go:61-91 (defaults; all switches off) *)
Definition default_cfg : eval_cfg :=
  mkcfg false 700 34 false false 5 false 20 15 5 20 40 6 25 40 10 false 50 10.

Definition cfg_switches (c : eval_cfg) (lz adv att mob kng : bool) : eval_cfg :=
  mkcfg lz (lazy_threshold c) (tempo c) att mob (mobility_bonus c) adv
        (bishop_pair_bonus c) (minor_behind_pawn_bonus c) (bishop_pawn_malus c)
        (bishop_center_aim_bonus c) (bishop_blocked_malus c) (rook_on_queen_file_bonus c)
        (rook_on_open_file_bonus c) (rook_trapped_malus c) (king_ring_attacks_bonus c)
        kng (king_danger_malus c) (king_defender_bonus c).

(* the configurations reachable over UCI from the defaults *)
Definition uci_cfg (lz adv : bool) : eval_cfg := cfg_switches default_cfg lz adv false false false.

(** ** float64 (types/score.go:55-57, position.go:1165-1167, evaluator.go:77-82) *)

(* Go: float64(i) for an int i - exact for |i| < 2^53 (model exact for |i| < 2^62) *)
Definition ZtoF (m : Z) : float :=
  if m <? 0 then PrimFloat.opp (PrimFloat.of_uint63 (Uint63.of_Z (- m)))
  else PrimFloat.of_uint63 (Uint63.of_Z m).

(* Go: int(f) / Value(f) for a float64 f - truncation toward zero.  (NaN, infinities and
   values outside the target type are implementation-specific in Go; unreachable here,
   modelled as 0.)  Defined on the IEEE view [Prim2SF] of the primitive float. *)
Definition SFtrunc (x : spec_float) : Z :=
  match x with
  | S754_finite s m e =>
      let v := if 0 <=? e then Z.pos m * 2 ^ e else Z.pos m / 2 ^ (- e) in
      if s then - v else v
  | _ => 0
  end.
Definition Ftrunc (f : float) : Z := SFtrunc (Prim2SF f).

(* position.go:1165-1167  GamePhaseFactor: float64(p.gamePhase) / GamePhaseMax *)
Definition gpf (gp : Z) : float := PrimFloat.div (ZtoF gp) (ZtoF c_game_phase_max).

(* score.go:55-57  Value(float64(mid)*gpf) + Value(float64(end)*(1.0-gpf)) *)
Definition interp (mid end_ : Z) (g : float) : Z :=
  Ftrunc (PrimFloat.mul (ZtoF mid) g) + Ftrunc (PrimFloat.mul (ZtoF end_) (PrimFloat.sub 1%float g)).

(* evaluator.go:77-82  threshold[i] = T + int(float64(T) * (float64(i)/GamePhaseMax)).
   NB the table is filled in the package init() from the settings of THAT moment; a later
   change of LazyEvalThreshold (config file) does not reach it.  [lazy_threshold] is the
   init-time value (700). *)
Definition threshold (cfg : eval_cfg) (gp : Z) : Z :=
  lazy_threshold cfg + Ftrunc (PrimFloat.mul (ZtoF (lazy_threshold cfg)) (gpf gp)).

(** ** Table access.  Go indexes fixed-size arrays; the model reads the dumped tables with
    [nth_error].  [evaluate] first checks [pos_ok] (all piece codes valid, 64 squares, side
    to move 0/1) and answers None otherwise; under that guard every index is in range
    (EvalProofsA.lookups_in_range), so the [dflt] below is never taken. *)
Definition tblZ (t : list Z) (i : N) : option Z := nth_error t (N.to_nat i).
Definition tbl2 (t : list (list Z)) (i j : N) : option Z :=
  match nth_error t (N.to_nat i) with Some r => nth_error r (N.to_nat j) | None => None end.
Definition dflt (o : option Z) : Z := match o with Some v => v | None => 0 end.

Definition pt_value (t : N) : Z := dflt (tblZ c_piece_type_value t).      (* PieceType.ValueOf *)
Definition phase_value (t : N) : Z := dflt (tblZ c_game_phase_value t).   (* PieceType.GamePhaseValue *)
Definition psq_mid_v (pc s : N) : Z := dflt (tbl2 c_psq_mid pc s).        (* PosMidValue *)
Definition psq_end_v (pc s : N) : Z := dflt (tbl2 c_psq_end pc s).        (* PosEndValue *)

Definition valid_code (pc : N) : bool := existsb (N.eqb pc) [0;1;2;3;4;5;6;9;10;11;12;13;14]%N.
Definition pos_ok (p : pos) : bool :=
  (length (brd p) =? 64)%nat && forallb valid_code (brd p) && (stm p <? 2)%N.

(** ** Inputs recomputed from the board (position.go:846-899 putPiece/removePiece keep
    them incrementally; getters :1159-1213) *)
Definition bsum (f : N -> N -> Z) (p : pos) : Z :=
  fold_right (fun s acc => f (piece_at p s) s + acc) 0 squares64.

Definition is_col (pc c : N) : bool := negb (pc =? 0)%N && (colour_of pc =? c)%N.

(* :862 material[color] += pieceType.ValueOf()   (kings included: 2000 each) *)
Definition material (p : pos) (c : N) : Z :=
  bsum (fun pc _ => if is_col pc c then pt_value (type_of pc) else 0) p.
(* :863-865 if pieceType > Pawn (King = 1 < Pawn = 2: excludes king and pawns) *)
Definition material_np (p : pos) (c : N) : Z :=
  bsum (fun pc _ => if is_col pc c && (PAWN <? type_of pc)%N then pt_value (type_of pc) else 0) p.
(* :867-868 *)
Definition psq_mid (p : pos) (c : N) : Z := bsum (fun pc s => if is_col pc c then psq_mid_v pc s else 0) p.
Definition psq_end (p : pos) (c : N) : Z := bsum (fun pc s => if is_col pc c then psq_end_v pc s else 0) p.
(* :857-860 game phase, clamped at GamePhaseMax (value for a position set up from a FEN) *)
Definition game_phase (p : pos) : Z :=
  Z.min c_game_phase_max (bsum (fun pc _ => phase_value (type_of pc)) p).
(* PiecesBb(c, t).PopCount() *)
Definition count_pt (p : pos) (c t : N) : Z :=
  bsum (fun pc _ => if (pc =? mk_piece c t)%N then 1 else 0) p.

(** position.go:585-631 HasInsufficientMaterial, clause by clause *)
Definition insufficient_material (p : pos) : bool :=
  let npw := material_np p WHITE in let npb := material_np p BLACK in
  let nv := pt_value KNIGHT in let bv := pt_value BISHOP in
  (* :593 both sides bare (never true with kings on the board: king value 2000) *)
  if material p WHITE + material p BLACK =? 0 then true else
  (* :598 no more pawns *)
  if (count_pt p WHITE PAWN =? 0) && (count_pt p BLACK PAWN =? 0) then
    (* :601 *)
    if (npw <? 400) && (npb <? 400) then true
    (* :605-606 *)
    else if ((npw =? 2 * nv) && (npb <=? bv)) || ((npb =? 2 * nv) && (npw <=? bv)) then true
    (* :610-611 *)
    else if ((npw =? 2 * bv) && (npb =? bv)) || ((npb =? 2 * bv) && (npw =? bv)) then true
    (* :615 *)
    else if (npw =? 2 * bv) || (npb =? 2 * bv) then false
    else
      (* :621-626 *)
      let two_minors v := (2 * nv <=? v) && (v <? 2 * bv) in
      let one_minor v := (0 <? v) && (v <=? bv) in
      (two_minors npw && one_minor npb) || (one_minor npw && two_minors npb)
  else false.

(** ** Bitboards as sets of squares: a predicate on squares; PopCount and the unsigned
    64-bit number of the set *)
Definition popcnt (f : N -> bool) : Z := fold_right (fun t acc => (if f t then 1 else 0) + acc) 0 squares64.
Definition bbnum (f : N -> bool) : Z := fold_right (fun t acc => (if f t then 2 ^ Z.of_N t else 0) + acc) 0 squares64.
Definition mem (t : N) (l : list N) : bool := existsb (N.eqb t) l.

(** ** Advanced piece evaluation (evaluator.go:257-365) on the mailbox *)
Definition own_pawn (p : pos) (c s : N) : bool := is_piece (brd p) s c PAWN.

(* :322-323 / :360-361  ShiftBitboard(PiecesBb(us,Pawn), them.MoveDirection()) & sq.Bb() > 0:
   a pawn of the own colour on the square directly in front (own point of view) *)
Definition pawn_in_front (p : pos) (c s : N) : bool :=
  match step (fwd c) s with Some t => own_pawn p c t | None => false end.

(* bitboard.go:905-916 squaresBb: (file+rank) even = "Black" squares, odd = "White" squares *)
Definition sq_parity (s : N) : N := ((file_of s + rank_of s) mod 2)%N.

(* :329-337 own pawns on squares of the colour the bishop stands on *)
Definition pawns_same_colour (p : pos) (c s : N) : Z :=
  popcnt (fun t => own_pawn p c t && (sq_parity t =? sq_parity s)%N).

(* :340 (GetAttacksBb(Bishop, sq, BbZero) & CenterSquares).PopCount(); bitboard.go:529-531
   CenterSquares = d4 e4 d5 e5 = 27 28 35 36 *)
Definition is_center (t : N) : bool := mem t [27; 28; 35; 36]%N.
Definition center_aim (s : N) : Z :=
  popcnt (fun t => is_center t && mem t (concat (map (fun d => walk 7 d s 0) bishop_dirs))).

(* :348-355 bishop on the own back rank, both (the one) pawn-capture squares hold own pawns *)
Definition bishop_blocked (p : pos) (c s : N) : bool :=
  (((c =? WHITE) && (rank_of s =? 0)) || ((c =? BLACK) && (rank_of s =? 7)))%N
  && forallb (own_pawn p c) (pawn_attack_targets c s).

(* :299 sq.FileOf().Bb() & PiecesBb(us, Queen) > 0 *)
Definition queen_on_file (p : pos) (c s : N) : bool :=
  existsb (fun t => (file_of t =? file_of s)%N && is_piece (brd p) t c QUEEN) squares64.
(* :305 sq.FileOf().Bb() & PiecesBb(us, Pawn) == 0 *)
Definition no_own_pawn_on_file (p : pos) (c s : N) : bool :=
  negb (existsb (fun t => (file_of t =? file_of s)%N && own_pawn p c t) squares64).

(** ** The Attacks object as far as the evaluator reads it (attacks.go:46-73) *)
Record aview := mkav {
  av_from : N -> N -> N -> bool;   (* From[c][sq] as a set *)
  av_all : N -> N -> bool;         (* All[c] as a set *)
  av_mob : N -> Z                  (* Mobility[c] *)
}.
(* attacks.go:81-100 Clear *)
Definition av_empty : aview := mkav (fun _ _ _ => false) (fun _ _ => false) (fun _ => 0).

(* attacks.go:116-146 nonPawnAttacks: GetAttacksBb(pt, psq, allPieces) for K N B R Q *)
Definition piece_targets (b : list N) (s : N) : list N :=
  let ty := type_of (at_ b s) in
  if (ty =? KING)%N then king_targets s
  else if (ty =? KNIGHT)%N then knight_targets s
  else if (ty =? BISHOP)%N then rays_from b bishop_dirs s
  else if (ty =? ROOK)%N then rays_from b rook_dirs s
  else if (ty =? QUEEN)%N then rays_from b all_dirs s
  else [].
Definition own_nonpawn (b : list N) (c s : N) : bool :=
  is_col (at_ b s) c && negb (type_of (at_ b s) =? PAWN)%N.
(* :141 (attacks &^ myPieces).PopCount() summed over the non-pawn pieces of c *)
Definition mobility (p : pos) (c : N) : Z :=
  bsum (fun pc s => if own_nonpawn (brd p) c s
                    then popcnt (fun t => mem t (piece_targets (brd p) s) && negb (is_col (piece_at p t) c))
                    else 0) p.
(* t in the union of the attacks of the non-pawn pieces of c *)
Definition all_att (b : list N) (c t : N) : bool :=
  existsb (fun s => own_nonpawn b c s && mem t (piece_targets b s)) squares64.
(* attacks.go:102-113 Compute = nonPawnAttacks on top of the previous content ("|=", "+=");
   pawnAttacks :148-153 only fills Pawns/PawnsDouble which the evaluator never reads, so
   NB pawn attacks are not part of All *)
Definition av_compute (p : pos) (old : aview) : aview :=
  let b := brd p in
  mkav (fun c sq => if own_nonpawn b c sq then (fun t => mem t (piece_targets b sq)) else av_from old c sq)
       (fun c t => av_all old c t || all_att b c t)
       (fun c => av_mob old c + mobility p c).
(* the content after InitEval (Clear) and Compute *)
Definition av_of (p : pos) : aview := av_compute p av_empty.

(* :103-104 kingRing[c] = GetAttacksBb(King, kingSquare(c), BbZero) *)
Definition ring (b : list N) (c : N) : N -> bool := fun t => mem t (king_targets (king_sq b c)).

(* :310-317 rook trapped by the own king *)
Definition rook_trapped (cfg : eval_cfg) (av : aview) (p : pos) (c s : N) : bool :=
  let k := king_sq (brd p) c in
  use_attacks cfg && (popcnt (av_from av c s) <? 3)
  && (rank_of k =? rank_of s)%N
  && Bool.eqb (file_of k <? 4)%N (file_of s <? file_of k)%N.

Definition b2z (b : bool) (v : Z) : Z := if b then v else 0.

(* per piece contribution to tmpScore.MidGameValue / EndGameValue of evalPiece(c, type_of pc) *)
Definition adv_mid_term (cfg : eval_cfg) (av : aview) (p : pos) (c pc s : N) : Z :=
  if (pc =? mk_piece c KNIGHT)%N then
    b2z (pawn_in_front p c s) (minor_behind_pawn_bonus cfg)                        (* :361-364 *)
  else if (pc =? mk_piece c BISHOP)%N then
    b2z (pawn_in_front p c s) (minor_behind_pawn_bonus cfg)                        (* :323-326 *)
    + bishop_center_aim_bonus cfg * center_aim s                                   (* :340-341 *)
    - b2z (bishop_blocked p c s) (bishop_blocked_malus cfg)                        (* :348-353 *)
  else if (pc =? mk_piece c ROOK)%N then
    b2z (queen_on_file p c s) (rook_on_queen_file_bonus cfg)                       (* :299-300 *)
    + b2z (no_own_pawn_on_file p c s) (rook_on_open_file_bonus cfg)                (* :305-306 *)
    - b2z (rook_trapped cfg av p c s) (rook_trapped_malus cfg)                     (* :312-315 *)
  else 0.                                                                          (* :289-290 queen: none *)
Definition adv_end_term (cfg : eval_cfg) (p : pos) (c pc s : N) : Z :=
  if (pc =? mk_piece c BISHOP)%N then
    - bishop_pawn_malus cfg * pawns_same_colour p c s                              (* :329-337 *)
    - b2z (bishop_blocked p c s) (bishop_blocked_malus cfg)                        (* :353 *)
  else if (pc =? mk_piece c ROOK)%N then
    b2z (queen_on_file p c s) (rook_on_queen_file_bonus cfg)                       (* :301 *)
  else 0.

(* :269-275 bishop pair, once *)
Definition pair_bonus (cfg : eval_cfg) (p : pos) (c : N) : Z :=
  b2z (1 <? count_pt p c BISHOP) (bishop_pair_bonus cfg).

(* sum of evalPiece(c, Knight) + (c, Bishop) + (c, Rook) + (c, Queen) *)
Definition adv_mid (cfg : eval_cfg) (av : aview) (p : pos) (c : N) : Z :=
  bsum (adv_mid_term cfg av p c) p + pair_bonus cfg p c.
Definition adv_end (cfg : eval_cfg) (p : pos) (c : N) : Z :=
  bsum (adv_end_term cfg p c) p + pair_bonus cfg p c.

(** evalKing (evaluator.go:226-254): (mid, end).  [rg] = kingRing *)
Definition king_term (cfg : eval_cfg) (av : aview) (rg : N -> N -> bool) (c : N) : Z * Z :=
  if use_attacks cfg then
    let them := flip c in
    let en := fun t => rg c t && av_all av them t in           (* :236 kingRing[us] & All[them] *)
    let df := fun t => rg c t && av_all av c t in              (* :237 kingRing[us] & All[us]  *)
    let ne := popcnt en in let nd := popcnt df in
    (* :239 "enemyAttacks > ourDefence" compares the two BITBOARDS as unsigned numbers *)
    let m0 := if bbnum en >? bbnum df
              then 0 - (ne - nd) * king_danger_malus cfg                            (* :240 *)
              else 0 + (nd - ne) * king_defender_bonus cfg in                       (* :243 *)
    let e0 := if bbnum en >? bbnum df then 0 - m0 else 0 + m0 in                    (* :241 / :244 *)
    (* :248-251 *)
    let k := b2z (0 <? popcnt (fun t => av_all av c t && rg them t)) (king_ring_attacks_bonus cfg) in
    (m0 + k, e0 + k)
  else (0, 0).

(** ** evaluate (evaluator.go:124-216), for a given content [av] of the Attacks object *)
Definition eval_core_av (cfg : eval_cfg) (av : aview) (p : pos) (gp : Z) : Z :=
  (* :139-141 *)
  if insufficient_material p then 0 else
  let dir := if (stm p =? WHITE)%N then 1 else -1 in            (* Color.Direction() *)
  let g := gpf gp in                                             (* :98 *)
  (* :150-155 *)
  let mat := material p WHITE - material p BLACK in
  let mid0 := mat + (psq_mid p WHITE - psq_mid p BLACK) in
  let end0 := mat + (psq_end p WHITE - psq_end p BLACK) in
  (* :161-168 lazy evaluation; :220-224 finalEval *)
  let v0 := interp mid0 end0 g in
  if use_lazy cfg && (Z.abs v0 >? threshold cfg gp) then v0 * dir else
  (* :183-192 *)
  let mid1 := if use_adv cfg then mid0 + (adv_mid cfg av p WHITE - adv_mid cfg av p BLACK) else mid0 in
  let end1 := if use_adv cfg then end0 + (adv_end cfg p WHITE - adv_end cfg p BLACK) else end0 in
  (* :195-198  NB the END value receives the whole updated MID value *)
  let mob := use_attacks cfg && use_mobility cfg in
  let mid2 := if mob then mid1 + (av_mob av WHITE - av_mob av BLACK) * mobility_bonus cfg else mid1 in
  let end2 := if mob then end1 + mid2 else end1 in
  (* :201-204 *)
  let kw := king_term cfg av (ring (brd p)) WHITE in let kb := king_term cfg av (ring (brd p)) BLACK in
  let mid3 := if use_king cfg then mid2 + fst kw - fst kb else mid2 in
  let end3 := if use_king cfg then end2 + snd kw - snd kb else end2 in
  (* :210 *)
  let mid4 := mid3 + tempo cfg * dir in
  (* :214-215 *)
  interp mid4 end3 g * dir.

(* the Attacks object holds the attacks of the position itself: InitEval clears it, Compute
   fills it (the only exception, a position whose Zobrist key is 0, is in [eval_step]) *)
Definition eval_core (cfg : eval_cfg) (p : pos) (gp : Z) : Z := eval_core_av cfg (av_of p) p gp.

(* None: the Go code would index an array out of range *)
Definition evaluate (cfg : eval_cfg) (p : pos) (gp : Z) : option Z :=
  if negb (pos_ok p) then None
  else if negb ((0 <=? gp) && (gp <=? c_game_phase_max)) then None     (* threshold[gp] :163 *)
  else Some (eval_core cfg p gp).

(** ** State-passing transcription: every mutable location touched by Evaluate.

    Evaluator fields (evaluator.go:52-67), the Attacks object (attacks.go:46-73, the fields
    the evaluator reads, plus Zobrist) and the package-level tmpScore (:71).  Each Go read
    below is a read of the CURRENT state record; each write produces a new record. *)
Record estate := mkst {
  e_gpf : float;                 (* gamePhaseFactor *)
  e_us : N; e_them : N;          (* us, them (never read after InitEval) *)
  e_our_king : N; e_their_king : N;
  e_ring : N -> N -> bool;       (* kingRing[ColorLength] *)
  e_our_pieces : N -> bool;      (* ourPieces (never read) *)
  e_mid : Z; e_end : Z;          (* score *)
  a_zobrist : N;                 (* attacks.Zobrist *)
  a_view : aview;                (* attacks.From / All / Mobility *)
  t_mid : Z; t_end : Z           (* package-level tmpScore, shared by ALL evaluator instances *)
}.

Definition upd {A} (f : N -> A) (i : N) (v : A) : N -> A := fun j => if (j =? i)%N then v else f j.

Definition set_score (s : estate) (m e : Z) : estate :=
  mkst (e_gpf s) (e_us s) (e_them s) (e_our_king s) (e_their_king s) (e_ring s) (e_our_pieces s)
       m e (a_zobrist s) (a_view s) (t_mid s) (t_end s).
Definition set_tmp (s : estate) (m e : Z) : estate :=
  mkst (e_gpf s) (e_us s) (e_them s) (e_our_king s) (e_their_king s) (e_ring s) (e_our_pieces s)
       (e_mid s) (e_end s) (a_zobrist s) (a_view s) m e.
Definition set_att (s : estate) (z : N) (av : aview) : estate :=
  mkst (e_gpf s) (e_us s) (e_them s) (e_our_king s) (e_their_king s) (e_ring s) (e_our_pieces s)
       (e_mid s) (e_end s) z av (t_mid s) (t_end s).

Section Step.
Variable cfg : eval_cfg.
Variable p : pos.
Variable gp : Z.
Variable zkey : N.     (* p.ZobristKey() *)

(* InitEval :95-115 *)
Definition st_init (s : estate) : estate :=
  let us := stm p in let them := flip us in
  let ok := king_sq (brd p) us in let tk := king_sq (brd p) them in
  let ring1 := upd (e_ring s) us (fun t => mem t (king_targets ok)) in         (* :103 *)
  let ring2 := upd ring1 them (fun t => mem t (king_targets tk)) in            (* :104 *)
  let s1 := mkst (gpf gp) us them ok tk ring2
                 (fun t => is_col (piece_at p t) us)
                 0 0                                                           (* :108-109 *)
                 (a_zobrist s) (a_view s) (t_mid s) (t_end s) in
  if use_attacks cfg then set_att s1 0%N av_empty else s1.                     (* :112-114 Clear() *)

(* attacks.go:102-113 Compute, with the "already computed" shortcut *)
Definition st_compute (s : estate) : estate :=
  if (zkey =? a_zobrist s)%N then s else set_att s zkey (av_compute p (a_view s)).

(* knightEval / bishopEval / rookEval :297-365 for the piece on sq *)
Definition st_piece_sq (s : estate) (c pt sq : N) : estate :=
  let m := t_mid s in let e := t_end s in
  if (pt =? KNIGHT)%N then
    set_tmp s (m + b2z (pawn_in_front p c sq) (minor_behind_pawn_bonus cfg)) e
  else if (pt =? BISHOP)%N then
    set_tmp s (m + b2z (pawn_in_front p c sq) (minor_behind_pawn_bonus cfg)
                 + bishop_center_aim_bonus cfg * center_aim sq
                 - b2z (bishop_blocked p c sq) (bishop_blocked_malus cfg))
              (e - bishop_pawn_malus cfg * pawns_same_colour p c sq
                 - b2z (bishop_blocked p c sq) (bishop_blocked_malus cfg))
  else if (pt =? ROOK)%N then
    set_tmp s (m + b2z (queen_on_file p c sq) (rook_on_queen_file_bonus cfg)
                 + b2z (no_own_pawn_on_file p c sq) (rook_on_open_file_bonus cfg)
                 - b2z (rook_trapped cfg (a_view s) p c sq) (rook_trapped_malus cfg))
              (e + b2z (queen_on_file p c sq) (rook_on_queen_file_bonus cfg))
  else s.

(* evalPiece :257-295: resets tmpScore, pair bonus, loop over the pieces (PopLsb order) *)
Definition st_eval_piece (s : estate) (c pt : N) : estate :=
  let s0 := set_tmp s 0 0 in                                                   (* :258-259 *)
  let s1 := if (pt =? BISHOP)%N && (1 <? count_pt p c BISHOP)
            then set_tmp s0 (t_mid s0 + bishop_pair_bonus cfg) (t_end s0 + bishop_pair_bonus cfg)
            else s0 in
  fold_left (fun st sq => if (piece_at p sq =? mk_piece c pt)%N then st_piece_sq st c pt sq else st)
            squares64 s1.

(* e.score.Add / e.score.Sub of the dereferenced result of evalPiece: call, then read
   tmpScore, then update score *)
Definition st_add_piece (sgn : Z) (s : estate) (c pt : N) : estate :=
  let s1 := st_eval_piece s c pt in
  set_score s1 (e_mid s1 + sgn * t_mid s1) (e_end s1 + sgn * t_end s1).

(* evalKing :226-254 on the state *)
Definition st_eval_king (s : estate) (c : N) : estate :=
  let s0 := set_tmp s 0 0 in                                                   (* :227-228 *)
  if use_attacks cfg then
    let them := flip c in
    let en := fun t => e_ring s0 c t && av_all (a_view s0) them t in
    let df := fun t => e_ring s0 c t && av_all (a_view s0) c t in
    let ne := popcnt en in let nd := popcnt df in
    let s1 := if bbnum en >? bbnum df
              then let s' := set_tmp s0 (t_mid s0 - (ne - nd) * king_danger_malus cfg) (t_end s0) in
                   set_tmp s' (t_mid s') (t_end s' - t_mid s')
              else let s' := set_tmp s0 (t_mid s0 + (nd - ne) * king_defender_bonus cfg) (t_end s0) in
                   set_tmp s' (t_mid s') (t_end s' + t_mid s') in
    if 0 <? popcnt (fun t => av_all (a_view s1) c t && e_ring s1 them t)
    then set_tmp s1 (t_mid s1 + king_ring_attacks_bonus cfg) (t_end s1 + king_ring_attacks_bonus cfg)
    else s1
  else s0.
Definition st_add_king (sgn : Z) (s : estate) (c : N) : estate :=
  let s1 := st_eval_king s c in
  set_score s1 (e_mid s1 + sgn * t_mid s1) (e_end s1 + sgn * t_end s1).

(* evaluate :137-216 *)
Definition st_evaluate (s : estate) : Z * estate :=
  if insufficient_material p then (0, s) else
  let dir := if (stm p =? WHITE)%N then 1 else -1 in
  let mat := material p WHITE - material p BLACK in
  let s1 := set_score s mat mat in                                             (* :150-151 *)
  let s2 := set_score s1 (e_mid s1 + (psq_mid p WHITE - psq_mid p BLACK))
                         (e_end s1 + (psq_end p WHITE - psq_end p BLACK)) in   (* :154-155 *)
  let v0 := interp (e_mid s2) (e_end s2) (e_gpf s2) in                         (* :162 e.value() *)
  if use_lazy cfg && (Z.abs v0 >? threshold cfg gp) then (v0 * dir, s2) else   (* :163-167 *)
  let s3 := if use_attacks cfg then st_compute s2 else s2 in                   (* :175-177 *)
  let s4 := if use_adv cfg then                                                (* :183-192 *)
              let a := st_add_piece 1 s3 WHITE KNIGHT in let a := st_add_piece (-1) a BLACK KNIGHT in
              let a := st_add_piece 1 a WHITE BISHOP in let a := st_add_piece (-1) a BLACK BISHOP in
              let a := st_add_piece 1 a WHITE ROOK in let a := st_add_piece (-1) a BLACK ROOK in
              let a := st_add_piece 1 a WHITE QUEEN in st_add_piece (-1) a BLACK QUEEN
            else s3 in
  let s5 := if use_attacks cfg && use_mobility cfg then                        (* :195-198 *)
              let m := e_mid s4 + (av_mob (a_view s4) WHITE - av_mob (a_view s4) BLACK) * mobility_bonus cfg in
              set_score s4 m (e_end s4 + m)
            else s4 in
  let s6 := if use_king cfg then st_add_king (-1) (st_add_king 1 s5 WHITE) BLACK else s5 in   (* :201-204 *)
  let s7 := set_score s6 (e_mid s6 + tempo cfg * dir) (e_end s6) in            (* :210 *)
  (interp (e_mid s7) (e_end s7) (e_gpf s7) * dir, s7).                         (* :214-215 *)

(* Evaluate :124-127 *)
Definition eval_step (s : estate) : option Z * estate :=
  if negb (pos_ok p) then (None, s)
  else if negb ((0 <=? gp) && (gp <=? c_game_phase_max)) then (None, s)
  else let '(v, s') := st_evaluate (st_init s) in (Some v, s').
End Step.

(** ** Executable checkers for the correspondence run.
    [fen]      : the position as FEN, a list of byte codes ([FenSpec.str]);
    [gp]       : Position.GamePhase() as reported by the engine;
    [lazy adv] : Settings.Eval.UseLazyEval / UseAdvancedPieceEval (UCI Eval_Lazy / Eval_AdvPiece),
                 everything else at the defaults of evalconfig.go;
    [observed] : the value returned by Evaluator.Evaluate. *)
Definition eval_case_ok (fen : str) (gp : Z) (lz adv : bool) (observed : Z) : bool :=
  match parse fen with
  | Some p => match evaluate (uci_cfg lz adv) p gp with Some v => v =? observed | None => false end
  | None => false
  end.

(* all five switches (validation of the branches that are off by default) *)
Definition eval_case_full (fen : str) (gp : Z) (lz adv att mob kng : bool) (observed : Z) : bool :=
  match parse fen with
  | Some p => match evaluate (cfg_switches default_cfg lz adv att mob kng) p gp with
              | Some v => v =? observed | None => false end
  | None => false
  end.

(* the recomputed inputs agree with the engine's getters on a position set up from a FEN:
   obs = [Material W; Material B; PsqMid W; PsqMid B; PsqEnd W; PsqEnd B; GamePhase; insufficient(0/1)] *)
Definition eval_inputs_ok (fen : str) (obs : list Z) : bool :=
  match parse fen with
  | Some p =>
      match obs with
      | [mw; mb; pmw; pmb; pew; peb; g; ins] =>
          (material p WHITE =? mw) && (material p BLACK =? mb)
          && (psq_mid p WHITE =? pmw) && (psq_mid p BLACK =? pmb)
          && (psq_end p WHITE =? pew) && (psq_end p BLACK =? peb)
          && (game_phase p =? g) && ((if insufficient_material p then 1 else 0) =? ins)
      | _ => false
      end
  | None => false
  end.

(* same call through the state model, from an arbitrary ("dirty") previous state *)
Definition eval_step_case_ok (s : estate) (fen : str) (gp : Z) (zkey : N) (lz adv att mob kng : bool) (observed : Z) : bool :=
  match parse fen with
  | Some p => match fst (eval_step (cfg_switches default_cfg lz adv att mob kng) p gp zkey s) with
              | Some v => v =? observed | None => false end
  | None => false
  end.

(* an arbitrary "dirty" previous state for tests: every location holds junk *)
Definition dirty_state : estate :=
  mkst 0.75%float 1%N 1%N 13%N 13%N (fun _ _ => true) (fun _ => true) 12345 (-777) 42%N
       (mkav (fun _ _ t => (t <? 5)%N) (fun _ t => N.even t) (fun c => 99 + Z.of_N c)) 31 (-17).
