(** * PosProofsD: DoMove on a move satisfying [move_ok] -- coherence, key and game phase
    ("Good"), the abstraction [abs (do_move ..) = Rules.make ..] (C02) and [WF]. *)
From Coq Require Import NArith ZArith List Bool Lia ZifyN ZifyBool Btauto.
From FG Require Import Geom Rules FenSpec PosImpl PosProofsA PosProofsB PosProofsC.
Import ListNotations.
Open Scope N_scope.

Ltac solve_at := psimpl; atp; eqbs; first [assumption | congruence | lia | reflexivity].

Section S.
Variable t : tabs.
Variable HB : Prop.

Lemma good_eqk p k k' : Good t HB p k -> k = k' -> Good t HB p k'.
Proof. intros G <-. exact G. Qed.

(* uniform shape of the key residual after a move *)
Lemma epk_lt e : e < 64 -> epk t e = ze t (file_of e).
Proof. intro H. unfold epk. destruct (N.eqb_spec e 64); [lia|reflexivity]. Qed.
Lemma epk_64 : epk t 64 = 0.
Proof. reflexivity. Qed.

Definition kafter (k cr cr' ep ep' : N) : N :=
  N.lxor (N.lxor (N.lxor (N.lxor (N.lxor k (zc t cr)) (zc t cr')) (epk t ep)) (epk t ep')) (zn t).

Lemma do_normal_good p m k :
  WF t p -> Good t HB p k -> ok_common p m -> ok_normal p m ->
  let p' := do_move_raw t p (code m) in
  Good t HB p' (kafter k (i_cr p) (i_cr p') (i_ep p) (i_ep p')).
Proof.
  intros W G Hc Hn p'. pose proof (w_coh _ _ W) as C. pose proof (c_len _ _ C) as Hl.
  destruct Hc as [Hf Ht Hpr Hpc Hcol]. destruct Hn as [Hty Htgt Hcap Hsingle Hdouble].
  destruct (decode m) as (E1 & E2 & E3 & E4); try lia. { rewrite Hty. unfold NORMAL. lia. }
  assert (Hne : mfrom m <> mto m) by (apply (tgt_ok_ne p m); [constructor; assumption|assumption]).
  subst p'. unfold do_move_raw. rewrite E1, E2, E3, Hty. cbn [N.eqb NORMAL].
  set (pc := at_ (i_board p) (mfrom m)) in *. set (tp := at_ (i_board p) (mto m)) in *.
  set (p0 := push_hist p (code m) pc tp).
  assert (G0 : Good t HB p0 k) by (apply good_push_hist; exact G).
  unfold do_normal_raw.
  pose proof (good_clear_ep t HB _ _ (good_touch t HB _ _ (mfrom m) (mto m) G0)) as G2.
  set (p2 := clear_ep t (touch_castling t p0 (mfrom m) (mto m))) in *.
  assert (Eb2 : i_board p2 = i_board p) by (unfold p2; rewrite board_clear_ep, board_touch; reflexivity).
  destruct (N.eqb_spec tp 0) as [Etp|Etp]; cbn [negb].
  - (* no capture *)
    destruct (N.eqb_spec (pc mod 8) PAWN) as [Epw|Epw].
    + destruct (N.eqb_spec (sq_distance (mfrom m) (mto m)) 2) as [Ed|Ed].
      * destruct (Hdouble Epw Etp Ed) as (Hr & He & Hemk & Hback & Hne1 & Hne2 & Hrk).
        rewrite Hcol.
        eapply good_eqk.
        { apply good_turn. apply good_mp; try assumption.
          - apply good_set_ep. apply good_xor_key. apply good_set_hmc. exact G2.
          - psimpl. rewrite Eb2. exact Hpc.
          - psimpl. rewrite Eb2. exact Etp. }
        unfold kafter, p2, p0. fr. rewrite (epk_lt _ He). xor_solve.
      * eapply good_eqk.
        { apply good_turn. apply good_mp; try assumption.
          - apply good_set_hmc. exact G2.
          - psimpl. rewrite Eb2. exact Hpc.
          - psimpl. rewrite Eb2. exact Etp. }
        unfold kafter, p2, p0. fr. rewrite epk_64. xor_solve.
    + eapply good_eqk.
      { apply good_turn. apply good_mp; try assumption.
        - apply good_set_hmc. exact G2.
        - psimpl. rewrite Eb2. exact Hpc.
        - psimpl. rewrite Eb2. exact Etp. }
      unfold kafter, p2, p0. fr. rewrite epk_64. xor_solve.
  - (* capture *)
    eapply good_eqk.
    { apply good_turn. apply good_mp; try assumption.
      - apply good_set_hmc. apply good_rp; [exact G2|assumption|rewrite Eb2; exact Etp].
      - psimpl. rewrite Eb2. atp. eqbs. exact Hpc.
      - psimpl. rewrite Eb2. atp. eqbs. reflexivity. }
    unfold kafter, p2, p0. fr. rewrite epk_64. xor_solve.
Qed.

Lemma do_promotion_good p m k :
  WF t p -> Good t HB p k -> ok_common p m -> ok_promotion p m ->
  let p' := do_move_raw t p (code m) in
  (HB -> clamp t = true -> (psum t (i_board p') <= GamePhaseMax)%Z) ->
  Good t HB p' (kafter k (i_cr p) (i_cr p') (i_ep p) (i_ep p')).
Proof.
  intros W G Hc Hn p' Hbound. pose proof (w_coh _ _ W) as C. pose proof (c_len _ _ C) as Hl.
  pose proof (w_stm _ _ W) as Hstm.
  destruct Hc as [Hf Ht Hpr Hpc Hcol]. destruct Hn as [Hty Hpawn Htgt Hrank].
  destruct (decode m) as (E1 & E2 & E3 & E4); try lia. { rewrite Hty. unfold PROMOTION. lia. }
  assert (Hne : mfrom m <> mto m) by (apply (tgt_ok_ne p m); [constructor; assumption|assumption]).
  subst p'. unfold do_move_raw in *. rewrite E1, E2, E3, Hty in *. cbn [N.eqb PROMOTION Pos.eqb] in *.
  set (pc := at_ (i_board p) (mfrom m)) in *. set (tp := at_ (i_board p) (mto m)) in *.
  set (p0 := push_hist p (code m) pc tp) in *.
  assert (G0 : Good t HB p0 k) by (apply good_push_hist; exact G).
  unfold do_promotion_raw in *. rewrite E4, Hcol in *.
  set (p1 := if negb (tp =? 0) then rp t p0 (mto m) else p0) in *.
  assert (G1 : Good t HB p1 k).
  { unfold p1. destruct (N.eqb_spec tp 0); cbn [negb]; [exact G0|]. apply good_rp; assumption. }
  assert (Eb1 : forall s, at_ (i_board p1) s = if s =? mto m then 0 else at_ (i_board p) s).
  { intro s. unfold p1. destruct (N.eqb_spec tp 0) as [Etp|Etp]; cbn [negb].
    - psimpl. destruct (N.eqb_spec s (mto m)) as [->|]; [exact Etp|reflexivity].
    - psimpl. atp. reflexivity. }
  assert (Hl1 : length (i_board p1) = 64%nat).
  { unfold p1. destruct (negb (tp =? 0)); psimpl; rewrite ?put_length; exact Hl. }
  pose proof (good_touch t HB _ _ (mfrom m) (mto m) G1) as G2.
  set (p2 := touch_castling t p1 (mfrom m) (mto m)) in *.
  assert (Eb2 : i_board p2 = i_board p1) by (unfold p2; apply board_touch).
  assert (Hprom : okpc (8 * i_stm p + mprom m) = true) by (apply okpc_mk; lia).
  eapply good_eqk.
  { apply good_turn. apply good_set_hmc. apply good_clear_ep. apply good_put; try assumption.
    - apply good_rp; [exact G2|assumption|]. rewrite Eb2, Eb1. eqbs. exact Hpc.
    - psimpl. rewrite Eb2. atp. eqbs. rewrite Eb1. eqbs. reflexivity.
    - lia.
    - intro Hk. exfalso. rewrite mk_mod in Hk by lia. unfold KING in Hk. lia.
    - intros hb hc. specialize (Hbound hb hc). psimpl_in Hbound. rewrite board_clear_ep in Hbound.
      psimpl_in Hbound.
      rewrite (psum_put t (rp t p2 (mfrom m))) in Hbound; [exact Hbound|..].
      + psimpl. rewrite put_length, Eb2. exact Hl1.
      + assumption.
      + psimpl. rewrite Eb2. atp. eqbs. rewrite Eb1. eqbs. reflexivity.
      + lia. }
  unfold kafter, p2. fr.
  assert (Ecr1 : i_cr p1 = i_cr p) by (unfold p1; destruct (negb (tp =? 0)); reflexivity).
  assert (Eep1 : i_ep p1 = i_ep p) by (unfold p1; destruct (negb (tp =? 0)); reflexivity).
  rewrite Ecr1, Eep1, epk_64. xor_solve.
Qed.


Lemma do_enpassant_good p m k :
  WF t p -> Good t HB p k -> ok_common p m -> ok_enpassant p m ->
  let p' := do_move_raw t p (code m) in
  Good t HB p' (kafter k (i_cr p) (i_cr p') (i_ep p) (i_ep p')).
Proof.
  intros W G Hc Hn p'. pose proof (w_coh _ _ W) as C. pose proof (c_len _ _ C) as Hl.
  pose proof (w_stm _ _ W) as Hstm.
  destruct Hc as [Hf Ht Hpr Hpc Hcol]. destruct Hn as [Hty Hpawn Htgt Hep (Hcs & Hcsmk & Hcsf & Hcst) [Hcbf Hcbt] Hrank].
  destruct (decode m) as (E1 & E2 & E3 & E4); try lia. { rewrite Hty. unfold ENPASSANT. lia. }
  assert (Hne : mfrom m <> mto m) by (intro E; rewrite E in Hpc; congruence).
  assert (Hcap : at_ (i_board p) (sq_to (mto m) (pawn_dir (cflip (i_stm p)))) = 8 * cflip (i_stm p) + PAWN).
  { destruct (w_ep _ _ W) as [E64|(_ & _ & _ & H)]; [lia|]. rewrite Hep. exact H. }
  subst p'. unfold do_move_raw in *. rewrite E1, E2, E3, Hty in *. cbn [N.eqb ENPASSANT Pos.eqb] in *.
  set (pc := at_ (i_board p) (mfrom m)) in *. set (tp := at_ (i_board p) (mto m)) in *.
  set (p0 := push_hist p (code m) pc tp) in *.
  assert (G0 : Good t HB p0 k) by (apply good_push_hist; exact G).
  unfold do_enpassant_raw in *. rewrite Hcol in *.
  set (cs := sq_to (mto m) (pawn_dir (cflip (i_stm p)))) in *.
  eapply good_eqk.
  { apply good_turn. apply good_set_hmc. apply good_clear_ep. apply good_mp; try assumption.
    - apply good_rp; [exact G0|assumption|]. change (at_ (i_board p) cs <> 0). rewrite Hcap. unfold PAWN. lia.
    - psimpl. atp. eqbs. exact Hpc.
    - psimpl. atp. eqbs. exact Htgt. }
  unfold kafter, p0. fr. rewrite epk_64. xor_solve.
Qed.

Lemma castle_info_shape kf kt rf rt cc : castle_shape kf kt rf rt cc ->
  castle_info kt = Some (rf, rt, if cc =? 0 then 3 else 12) /\ lost_by kf kt = (if cc =? 0 then 3 else 12) /\ kf < 64 /\ kt < 64 /\ rf < 64 /\ rt < 64 /\ kf <> kt /\ kf <> rf /\ kf <> rt /\ kt <> rf /\ kt <> rt /\ rf <> rt /\ rook_castle_squares kt = (rf, rt).
Proof.
  intros [E|[E|[E|E]]]; injection E as -> -> -> -> ->; repeat split; (reflexivity || lia).
Qed.

Lemma do_castling_good p m k :
  WF t p -> Good t HB p k -> ok_common p m -> ok_castling p m ->
  let p' := do_move_raw t p (code m) in
  Good t HB p' (kafter k (i_cr p) (i_cr p') (i_ep p) (i_ep p')).
Proof.
  intros W G Hc Hn p'. pose proof (w_coh _ _ W) as C. pose proof (c_len _ _ C) as Hl.
  pose proof (w_stm _ _ W) as Hstm.
  destruct Hc as [Hf Ht Hpr Hpc Hcol]. destruct Hn as [Hty (rf & rt & Hsh & Hk & Hr & Hte & Hrte)].
  destruct (decode m) as (E1 & E2 & E3 & E4); try lia. { rewrite Hty. unfold CASTLING. lia. }
  destruct (castle_info_shape _ _ _ _ _ Hsh) as (Eci & Elost & _ & _ & Hrf & Hrt & N1 & N2 & N3 & N4 & N5 & N6 & _).
  subst p'. unfold do_move_raw in *. rewrite E1, E2, E3, Hty in *. cbn [N.eqb CASTLING Pos.eqb] in *.
  rewrite Eci.
  set (pc := at_ (i_board p) (mfrom m)) in *. set (tp := at_ (i_board p) (mto m)) in *.
  set (p0 := push_hist p (code m) pc tp) in *.
  assert (G0 : Good t HB p0 k) by (apply good_push_hist; exact G).
  unfold do_castling_raw in *.
  set (lost := if i_stm p =? 0 then 3 else 12) in *.
  eapply good_eqk.
  { apply good_turn. apply good_set_hmc. apply good_clear_ep. apply good_drop. apply good_mp; try assumption.
    - apply good_mp; try assumption. exact G0.
    - unfold p0. psimpl. atp. eqbs. rewrite Hr. unfold ROOK. lia.
    - unfold p0. psimpl. atp. eqbs. exact Hrte. }
  unfold kafter, p0. fr. rewrite epk_64. xor_solve.
Qed.

End S.

(** ** C02: the abstraction of DoMove is Rules.make *)
Section Refine.
Variable t : tabs.


Ltac board_eq Hl :=
  apply board_ext; [rewrite ?put_length; reflexivity|];
  let s := fresh "s" in let Hs := fresh "Hs" in
  intros s Hs; atp;
  repeat match goal with |- context [?x =? ?y] => destruct (N.eqb_spec x y) end;
  subst; try reflexivity; try congruence; try lia.

Lemma do_normal_refines p m :
  WF t p -> ok_common p m -> ok_normal p m ->
  abs (do_move_raw t p (code m)) = make (abs p) m.
Proof.
  intros W Hc Hn. pose proof (w_coh _ _ W) as C. pose proof (c_len _ _ C) as Hl.
  pose proof (w_hmc _ _ W) as Hh.
  destruct Hc as [Hf Ht Hpr Hpc Hcol]. destruct Hn as [Hty Htgt Hcap Hsingle Hdouble].
  destruct (decode m) as (E1 & E2 & E3 & E4); try lia. { rewrite Hty. unfold NORMAL. lia. }
  assert (Hne : mfrom m <> mto m) by (apply (tgt_ok_ne p m); [constructor; assumption|assumption]).
  unfold do_move_raw. rewrite E1, E2, E3, Hty. cbn [N.eqb NORMAL].
  rewrite (abs_turn t _ p W).
  2:{ unfold do_normal_raw. destruct (negb _); [|destruct (_ =? PAWN); [destruct (_ =? 2)|]]; fr; reflexivity. }
  2:{ unfold do_normal_raw. destruct (negb _); [|destruct (_ =? PAWN); [destruct (_ =? 2)|]]; fr; reflexivity. }
  unfold make. cbn [abs brd stm cr ep hmc fmn]. rewrite Hty. cbn [N.eqb NORMAL PROMOTION ENPASSANT CASTLING Pos.eqb].
  unfold type_of.
  set (pc := at_ (i_board p) (mfrom m)) in *. set (tp := at_ (i_board p) (mto m)) in *.
  unfold do_normal_raw. rewrite Hcol.
  destruct (N.eqb_spec tp 0) as [Etp|Etp]; cbn [negb].
  - destruct (N.eqb_spec (pc mod 8) PAWN) as [Epw|Epw]; cbn [andb orb].
    + destruct (N.eqb_spec (sq_distance (mfrom m) (mto m)) 2) as [Ed|Ed].
      * destruct (Hdouble Epw Etp Ed) as (Hr & He & Hemk & Hback & Hne1 & Hne2 & Hrk).
        fr. rewrite Hr. cbn [N.eqb Pos.eqb]. f_equal. exact Hemk.
      * pose proof (Hsingle Epw Etp Ed) as Hr.
        fr. destruct (N.eqb_spec (zabs_diff (rank_of (mfrom m)) (rank_of (mto m))) 2); [contradiction|].
        reflexivity.
    + fr. f_equal. lia.
  - fr. f_equal.
    + board_eq Hl.
    + destruct (N.eqb_spec (pc mod 8) PAWN) as [Epw|Epw]; cbn [andb]; [|reflexivity].
      pose proof (Hcap Epw Etp) as Hr.
      destruct (N.eqb_spec (zabs_diff (rank_of (mfrom m)) (rank_of (mto m))) 2); [contradiction|reflexivity].
    + rewrite orb_true_r. reflexivity.
Qed.

Lemma do_promotion_refines p m :
  WF t p -> ok_common p m -> ok_promotion p m ->
  abs (do_move_raw t p (code m)) = make (abs p) m.
Proof.
  intros W Hc Hn. pose proof (w_coh _ _ W) as C. pose proof (c_len _ _ C) as Hl.
  pose proof (w_hmc _ _ W) as Hh.
  destruct Hc as [Hf Ht Hpr Hpc Hcol]. destruct Hn as [Hty Hpawn Htgt Hrank].
  destruct (decode m) as (E1 & E2 & E3 & E4); try lia. { rewrite Hty. unfold PROMOTION. lia. }
  assert (Hne : mfrom m <> mto m) by (apply (tgt_ok_ne p m); [constructor; assumption|assumption]).
  unfold do_move_raw. rewrite E1, E2, E3, Hty. cbn [N.eqb PROMOTION Pos.eqb].
  rewrite (abs_turn t _ p W).
  2:{ unfold do_promotion_raw. destruct (negb _); fr; reflexivity. }
  2:{ unfold do_promotion_raw. destruct (negb _); fr; reflexivity. }
  unfold make. cbn [abs brd stm cr ep hmc fmn]. rewrite Hty. cbn [N.eqb NORMAL PROMOTION ENPASSANT CASTLING Pos.eqb].
  unfold type_of, mk_piece.
  assert (Epm : at_ (i_board p) (mfrom m) mod 8 = PAWN) by (rewrite Hpawn; apply mk_mod; unfold PAWN; lia).
  rewrite Epm. cbn [N.eqb PAWN Pos.eqb orb andb].
  unfold do_promotion_raw. rewrite Hcol, E4.
  destruct (N.eqb_spec (zabs_diff (rank_of (mfrom m)) (rank_of (mto m))) 2); [contradiction|].
  destruct (N.eqb_spec (at_ (i_board p) (mto m)) 0) as [Etp|Etp]; cbn [negb].
  - fr. reflexivity.
  - fr. f_equal. board_eq Hl.
Qed.

Lemma do_enpassant_refines p m :
  WF t p -> ok_common p m -> ok_enpassant p m ->
  abs (do_move_raw t p (code m)) = make (abs p) m.
Proof.
  intros W Hc Hn. pose proof (w_coh _ _ W) as C. pose proof (c_len _ _ C) as Hl.
  pose proof (w_hmc _ _ W) as Hh.
  destruct Hc as [Hf Ht Hpr Hpc Hcol]. destruct Hn as [Hty Hpawn Htgt Hep (Hcs & Hcsmk & Hcsf & Hcst) [Hcbf Hcbt] Hrank].
  destruct (decode m) as (E1 & E2 & E3 & E4); try lia. { rewrite Hty. unfold ENPASSANT. lia. }
  assert (Hne : mfrom m <> mto m) by (intro E; rewrite E in Hpc; congruence).
  unfold do_move_raw. rewrite E1, E2, E3, Hty. cbn [N.eqb ENPASSANT Pos.eqb].
  rewrite (abs_turn t _ p W).
  2:{ unfold do_enpassant_raw. fr. reflexivity. }
  2:{ unfold do_enpassant_raw. fr. reflexivity. }
  unfold make. cbn [abs brd stm cr ep hmc fmn]. rewrite Hty. cbn [N.eqb NORMAL PROMOTION ENPASSANT CASTLING Pos.eqb].
  unfold type_of, mk_piece.
  assert (Epm : at_ (i_board p) (mfrom m) mod 8 = PAWN) by (rewrite Hpawn; apply mk_mod; unfold PAWN; lia).
  rewrite Epm. cbn [N.eqb PAWN Pos.eqb orb andb].
  unfold do_enpassant_raw. rewrite Hcol.
  destruct (N.eqb_spec (zabs_diff (rank_of (mfrom m)) (rank_of (mto m))) 2); [contradiction|].
  fr. rewrite <- Hcsmk.
  rewrite Hcbf, Hcbt. cbn [N.lor]. rewrite N.ldiff_0_r. f_equal. board_eq Hl.
Qed.

Lemma do_castling_refines p m :
  WF t p -> ok_common p m -> ok_castling p m ->
  abs (do_move_raw t p (code m)) = make (abs p) m.
Proof.
  intros W Hc Hn. pose proof (w_coh _ _ W) as C. pose proof (c_len _ _ C) as Hl.
  pose proof (w_hmc _ _ W) as Hh.
  destruct Hc as [Hf Ht Hpr Hpc Hcol]. destruct Hn as [Hty (rf & rt & Hsh & Hk & Hr & Hte & Hrte)].
  destruct (decode m) as (E1 & E2 & E3 & E4); try lia. { rewrite Hty. unfold CASTLING. lia. }
  destruct (castle_info_shape _ _ _ _ _ Hsh) as (Eci & Elost & _ & _ & Hrf & Hrt & N1 & N2 & N3 & N4 & N5 & N6 & Ercs).
  unfold do_move_raw. rewrite E1, E2, E3, Hty. cbn [N.eqb CASTLING Pos.eqb]. rewrite Eci.
  rewrite (abs_turn t _ p W).
  2:{ unfold do_castling_raw. fr. reflexivity. }
  2:{ unfold do_castling_raw. fr. reflexivity. }
  unfold make. cbn [abs brd stm cr ep hmc fmn]. rewrite Hty. cbn [N.eqb NORMAL PROMOTION ENPASSANT CASTLING Pos.eqb].
  unfold type_of, mk_piece. rewrite Ercs.
  assert (Ekm : at_ (i_board p) (mfrom m) mod 8 = KING) by (rewrite Hk; apply mk_mod; unfold KING; lia).
  rewrite Ekm. cbn [N.eqb KING PAWN Pos.eqb orb andb]. rewrite Hte. cbn [N.eqb negb].
  unfold do_castling_raw. fr. fold (lost_by (mfrom m) (mto m)). rewrite Elost.
  f_equal.
  - rewrite <- Hr. board_eq Hl.
  - lia.
Qed.
End Refine.
