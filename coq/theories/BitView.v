(** * BitView: what the attack / check / legality functions read from a [position.Position].

    [IsAttacked], [HasCheck], [GivesCheck], [IsLegalMove], [WasLegalMove] (position.go) and
    [AttacksTo] (attacks.go) read only these fields of a Position:

      piecesBb[2][7]   (position.go:100)   -> [pieces]  14 words, index 7*colour + piece type
      occupiedBb[2]    (position.go:102)   -> [occw], [occb]
      board[64]        (position.go:87)    -> [vboard]  64 piece codes
      enPassantSquare  (position.go:89)    -> [vep]     64 = SqNone
      castlingRights   (position.go:88)    -> [vcr]
      nextPlayer       (position.go:91)    -> [vstm]
      kingSquare[2]    (position.go:96)    -> [vking]

    [view_of_spec] computes these words from the mailbox board of the rules specification;
    [WFview v p] says that a view is exactly that (the position model of the do/undo
    refinement plugs in here: it has to establish [WFview (view_of_impl P) (abs P)]).

    [sq_list_of_bb] is the order in which a Go loop
        for b != 0 { sq := b.PopLsb(); ... }
    visits the squares of a bitboard. *)
From Coq Require Import NArith ZArith List Bool Lia ZifyN ZifyBool Sorted.
From FG Require Import Word64 Geom Rules.
Import ListNotations.
Open Scope N_scope.

Record bview := mkview {
  pieces : list N;     (* piecesBb, [white pt0..6, black pt0..6] *)
  occw   : N;          (* occupiedBb[White] *)
  occb   : N;          (* occupiedBb[Black] *)
  vboard : list N;     (* board *)
  vep    : N;          (* enPassantSquare *)
  vcr    : N;          (* castlingRights *)
  vstm   : N;          (* nextPlayer *)
  vking  : N * N       (* kingSquare[White], kingSquare[Black] *)
}.

(** ** the view of a specification position *)
(* piecesBb[c][pt]: putPiece (position.go:846) pushes the square into piecesBb[colour][type];
   nothing is ever pushed for PtNone *)
Definition piece_word (b : list N) (c pt : N) : N :=
  if pt =? 0 then 0 else bb_filter (fun s => at_ b s =? mk_piece c pt).

(* occupiedBb[c]: putPiece pushes the square into occupiedBb[piece.ColorOf()] *)
Definition occ_word (b : list N) (c : N) : N :=
  bb_filter (fun s => negb (at_ b s =? 0) && (colour_of (at_ b s) =? c)).

Definition pts7 : list N := [0; 1; 2; 3; 4; 5; 6].

Definition pieces_of_board (b : list N) : list N :=
  map (piece_word b 0) pts7 ++ map (piece_word b 1) pts7.

Definition view_of_spec (p : pos) : bview :=
  let b := brd p in
  mkview (pieces_of_board b) (occ_word b WHITE) (occ_word b BLACK) b (ep p) (cr p) (stm p)
         (king_sq b WHITE, king_sq b BLACK).

(** ** well-formed view: exactly the view of the abstract position *)
Definition WFview (v : bview) (p : pos) : Prop := v = view_of_spec p.

Fixpoint listN_eqb (a b : list N) : bool :=
  match a, b with
  | [], [] => true
  | x :: a', y :: b' => (x =? y) && listN_eqb a' b'
  | _, _ => false
  end.

Definition bview_eqb (v w : bview) : bool :=
  listN_eqb (pieces v) (pieces w) && (occw v =? occw w) && (occb v =? occb w) &&
  listN_eqb (vboard v) (vboard w) && (vep v =? vep w) && (vcr v =? vcr w) && (vstm v =? vstm w) &&
  (fst (vking v) =? fst (vking w)) && (snd (vking v) =? snd (vking w)).

Definition WFviewb (v : bview) (p : pos) : bool := bview_eqb v (view_of_spec p).

Lemma listN_eqb_eq a : forall b, listN_eqb a b = true <-> a = b.
Proof.
  induction a as [|x a IH]; intros [|y b]; cbn [listN_eqb]; split; intros H;
    try reflexivity; try discriminate.
  - apply andb_true_iff in H as [H1 H2]. apply N.eqb_eq in H1. apply IH in H2. now subst.
  - injection H as -> ->. rewrite N.eqb_refl. now apply IH.
Qed.

Lemma WFviewb_spec v p : WFviewb v p = true <-> WFview v p.
Proof.
  unfold WFviewb, WFview, bview_eqb. split.
  - intros H. repeat (apply andb_true_iff in H as [H ?]).
    destruct v as [a1 a2 a3 a4 a5 a6 a7 [a8 a9]]. destruct (view_of_spec p) as [b1 b2 b3 b4 b5 b6 b7 [b8 b9]].
    cbn [pieces occw occb vboard vep vcr vstm vking fst snd] in *.
    repeat match goal with
           | H : listN_eqb _ _ = true |- _ => apply listN_eqb_eq in H
           | H : (_ =? _) = true |- _ => apply N.eqb_eq in H
           end. now subst.
  - intros ->. destruct (view_of_spec p) as [b1 b2 b3 b4 b5 b6 b7 [b8 b9]].
    cbn [pieces occw occb vboard vep vcr vstm vking fst snd].
    rewrite !N.eqb_refl.
    assert (R : forall l, listN_eqb l l = true) by (intros l; now apply listN_eqb_eq).
    now rewrite !R.
Qed.

(** ** PopLsb loops *)
(* bitboard.go:202  Lsb = bits.TrailingZeros64: 64 for the empty board *)
Fixpoint ctz (p : positive) : N :=
  match p with xO q => 1 + ctz q | _ => 0 end.
Definition lsb (b : N) : N := match b with 0 => 64 | Npos p => ctz p end.

(* bitboard.go:220  PopLsb: if b == 0 return SqNone; lsb := b.Lsb(); b = b & (b - 1)   (on the pointee) *)
Definition pop_lsb (b : N) : N * N :=
  if b =? 0 then (64, b) else (lsb b, N.land b (b - 1)).

(* for b != 0 { sq := b.PopLsb(); visit sq }    -- at most 64 iterations on a 64-bit word *)
Fixpoint sq_list_fuel (fuel : nat) (b : N) : list N :=
  match fuel with
  | O => []
  | S k => if b =? 0 then [] else let '(s, b') := pop_lsb b in s :: sq_list_fuel k b'
  end.
Definition sq_list_of_bb (b : N) : list N := sq_list_fuel 64 b.

(* bitboard.go:231  PopCount *)
Fixpoint popcount_pos (p : positive) : nat :=
  match p with xH => 1%nat | xO q => popcount_pos q | xI q => S (popcount_pos q) end.
Definition popcount (b : N) : nat := match b with 0 => O | Npos p => popcount_pos p end.

Lemma in_squares64' s : In s squares64 <-> s < 64.
Proof.
  unfold squares64. rewrite in_map_iff. split.
  - intros [n [<- Hn]]. apply in_seq in Hn. lia.
  - intros H. exists (N.to_nat s). split; [apply N2Nat.id|]. apply in_seq. lia.
Qed.


(** ** PopLsb loops: the visiting order is exactly the set bits, ascending *)

(** ** lsb *)
Lemma ctz_spec p :
  N.testbit (Npos p) (ctz p) = true /\ forall i, i < ctz p -> N.testbit (Npos p) i = false.
Proof.
  induction p as [q IH|q IH|]; cbn [ctz].
  - split; [reflexivity|]. intros i Hi. lia.
  - destruct IH as [IH1 IH2]. change (Npos q~0) with (2 * Npos q). split.
    + replace (1 + ctz q) with (N.succ (ctz q)) by lia.
      rewrite N.testbit_even_succ by apply N.le_0_l. exact IH1.
    + intros i Hi. destruct (N.eq_dec i 0) as [->|Hi0]; [apply N.testbit_even_0|].
      replace i with (N.succ (N.pred i)) by lia.
      rewrite N.testbit_even_succ by apply N.le_0_l. apply IH2. lia.
  - split; [reflexivity|]. intros i Hi. lia.
Qed.

Lemma lsb_spec : forall b, b <> 0 ->
  N.testbit b (lsb b) = true /\ forall i, i < lsb b -> N.testbit b i = false.
Proof.
  intros [|p] Hb; [contradiction|]. cbn [lsb]. apply ctz_spec.
Qed.

Lemma lsb_lt b i : b <> 0 -> N.testbit b i = true -> i <> lsb b -> lsb b < i.
Proof.
  intros Hb Hi Hne. destruct (lsb_spec b Hb) as [_ H2].
  destruct (N.lt_trichotomy i (lsb b)) as [Hlt|[Heq|Hgt]]; [|contradiction|exact Hgt].
  rewrite (H2 i Hlt) in Hi. discriminate.
Qed.

(** ** b & (b-1) clears exactly the lowest set bit *)
Lemma pop_pos_clears p : forall i,
  N.testbit (Npos p) i && N.testbit (Npos p - 1) i
  = N.testbit (Npos p) i && negb (i =? ctz p).
Proof.
  induction p as [q IH|q IH|]; intros i; cbn [ctz].
  - (* 2a+1 : b-1 = 2a *)
    replace (Npos q~1 - 1) with (2 * Npos q) by lia.
    change (Npos q~1) with (2 * Npos q + 1).
    destruct (N.eq_dec i 0) as [->|Hi0].
    + rewrite N.testbit_odd_0, N.testbit_even_0. reflexivity.
    + replace i with (N.succ (N.pred i)) by lia.
      rewrite N.testbit_odd_succ, N.testbit_even_succ by apply N.le_0_l.
      replace (N.succ (N.pred i) =? 0) with false by (symmetry; apply N.eqb_neq; lia).
      rewrite andb_diag, andb_true_r. reflexivity.
  - (* 2a : b-1 = 2(a-1)+1 *)
    replace (Npos q~0 - 1) with (2 * (Npos q - 1) + 1) by lia.
    change (Npos q~0) with (2 * Npos q).
    destruct (N.eq_dec i 0) as [->|Hi0].
    + rewrite N.testbit_even_0. reflexivity.
    + replace i with (N.succ (N.pred i)) by lia.
      rewrite N.testbit_odd_succ, N.testbit_even_succ by apply N.le_0_l.
      rewrite IH. f_equal. f_equal.
      destruct (N.eqb_spec (N.pred i) (ctz q)) as [E|E];
        destruct (N.eqb_spec (N.succ (N.pred i)) (1 + ctz q)) as [F|F]; try reflexivity; lia.
  - change (1 - 1) with 0. rewrite N.bits_0, andb_false_r.
    destruct (N.eq_dec i 0) as [->|Hi0]; [reflexivity|].
    replace i with (N.succ (N.pred i)) by lia.
    change 1 with (2 * 0 + 1) at 1.
    rewrite N.testbit_odd_succ by apply N.le_0_l. rewrite N.bits_0. reflexivity.
Qed.

Lemma pop_lsb_clears : forall b i, b <> 0 ->
  N.testbit (N.land b (b - 1)) i = N.testbit b i && negb (i =? lsb b).
Proof.
  intros [|p] i Hb; [contradiction|]. rewrite N.land_spec. cbn [lsb]. apply pop_pos_clears.
Qed.

(** ** unfolding the loop *)
Lemma sq_list_fuel_0 k : sq_list_fuel k 0 = [].
Proof. destruct k; reflexivity. Qed.

Lemma sq_list_fuel_S k b : b <> 0 ->
  sq_list_fuel (S k) b = lsb b :: sq_list_fuel k (N.land b (b - 1)).
Proof.
  intros Hb. cbn [sq_list_fuel]. unfold pop_lsb.
  destruct (N.eqb_spec b 0) as [E|E]; [contradiction|reflexivity].
Qed.

Lemma sq_fuel_In_sound k : forall b s, In s (sq_list_fuel k b) -> N.testbit b s = true.
Proof.
  induction k as [|k IH]; intros b s H; [contradiction|].
  destruct (N.eq_dec b 0) as [->|Hb]; [rewrite sq_list_fuel_0 in H; contradiction|].
  rewrite sq_list_fuel_S in H by exact Hb. destruct H as [<-|H].
  - apply lsb_spec, Hb.
  - apply IH in H. rewrite pop_lsb_clears in H by exact Hb.
    apply andb_true_iff in H. apply H.
Qed.

Lemma sq_fuel_sorted k : forall b, StronglySorted N.lt (sq_list_fuel k b).
Proof.
  induction k as [|k IH]; intros b; [constructor|].
  destruct (N.eq_dec b 0) as [->|Hb]; [rewrite sq_list_fuel_0; constructor|].
  rewrite sq_list_fuel_S by exact Hb. constructor; [apply IH|].
  apply Forall_forall. intros x Hx. apply sq_fuel_In_sound in Hx.
  rewrite pop_lsb_clears in Hx by exact Hb. apply andb_true_iff in Hx as [Hx1 Hx2].
  apply lsb_lt; [exact Hb|exact Hx1|]. intros ->. rewrite N.eqb_refl in Hx2. discriminate.
Qed.

Definition bits_in (k : nat) (b : N) : Prop :=
  forall i, N.testbit b i = true -> 64 <= i + N.of_nat k /\ i < 64.

Lemma bits_in_pop k b : b <> 0 -> bits_in (S k) b -> bits_in k (N.land b (b - 1)).
Proof.
  intros Hb Hr i Hi. rewrite pop_lsb_clears in Hi by exact Hb.
  apply andb_true_iff in Hi as [Hi1 Hi2].
  assert (Hlt : lsb b < i).
  { apply lsb_lt; [exact Hb|exact Hi1|]. intros ->. rewrite N.eqb_refl in Hi2. discriminate. }
  pose proof (Hr _ (proj1 (lsb_spec b Hb))) as [Hl1 Hl2].
  pose proof (Hr _ Hi1) as [Hi3 Hi4].
  rewrite Nat2N.inj_succ in Hl1. lia.
Qed.

Lemma sq_fuel_complete k : forall b, bits_in k b ->
  forall s, N.testbit b s = true -> In s (sq_list_fuel k b).
Proof.
  induction k as [|k IH]; intros b Hr s Hs.
  - apply Hr in Hs. cbn [N.of_nat] in Hs. lia.
  - destruct (N.eq_dec b 0) as [->|Hb]; [rewrite N.bits_0 in Hs; discriminate|].
    rewrite sq_list_fuel_S by exact Hb.
    destruct (N.eq_dec s (lsb b)) as [->|Hne]; [left; reflexivity|]. right.
    apply IH; [apply bits_in_pop; assumption|].
    rewrite pop_lsb_clears by exact Hb. rewrite Hs.
    apply N.eqb_neq in Hne. rewrite Hne. reflexivity.
Qed.

(** ** strictly sorted lists *)
Lemma sorted_ext (l1 : list N) : forall l2,
  StronglySorted N.lt l1 -> StronglySorted N.lt l2 ->
  (forall x, In x l1 <-> In x l2) -> l1 = l2.
Proof.
  induction l1 as [|a l1 IH]; intros [|c l2] S1 S2 HI.
  - reflexivity.
  - exfalso. apply (proj2 (HI c)). left; reflexivity.
  - exfalso. apply (proj1 (HI a)). left; reflexivity.
  - apply StronglySorted_inv in S1 as [S1 F1]. apply StronglySorted_inv in S2 as [S2 F2].
    rewrite Forall_forall in F1, F2.
    assert (Hac : a = c).
    { destruct (proj1 (HI a) (or_introl eq_refl)) as [E|Ha]; [now symmetry|].
      destruct (proj2 (HI c) (or_introl eq_refl)) as [E|Hc]; [exact E|].
      apply F2 in Ha. apply F1 in Hc. lia. }
    subst c. f_equal. apply IH; [exact S1|exact S2|].
    intros x. split; intros Hx.
    + destruct (proj1 (HI x) (or_intror Hx)) as [E|H]; [|exact H].
      apply F1 in Hx. lia.
    + destruct (proj2 (HI x) (or_intror Hx)) as [E|H]; [|exact H].
      apply F2 in Hx. lia.
Qed.

Lemma sorted_filter (f : N -> bool) l :
  StronglySorted N.lt l -> StronglySorted N.lt (filter f l).
Proof.
  induction l as [|a l IH]; intros S; [constructor|].
  apply StronglySorted_inv in S as [S F]. cbn [filter].
  destruct (f a); [|apply IH, S]. constructor; [apply IH, S|].
  rewrite Forall_forall in *. intros x Hx. apply filter_In in Hx as [Hx _]. apply F, Hx.
Qed.

Lemma sorted_NoDup (l : list N) : StronglySorted N.lt l -> NoDup l.
Proof.
  induction l as [|a l IH]; intros S; [constructor|].
  apply StronglySorted_inv in S as [S F]. constructor; [|apply IH, S].
  intros Ha. rewrite Forall_forall in F. apply F in Ha. lia.
Qed.

Lemma sorted_seq n : forall a, StronglySorted N.lt (map N.of_nat (seq a n)).
Proof.
  induction n as [|n IH]; intros a; cbn [seq map]; constructor; [apply IH|].
  apply Forall_forall. intros x Hx. apply in_map_iff in Hx as [m [<- Hm]].
  apply in_seq in Hm. lia.
Qed.

Lemma squares64_sorted : StronglySorted N.lt squares64.
Proof. apply sorted_seq. Qed.

(** ** main results *)
Lemma bits_in_64 b : b < W64 -> bits_in 64 b.
Proof.
  intros Hb i Hi. rewrite W64_pow in Hb. pose proof (testbit_lt_pow2 b 64 i Hb Hi) as Hlt.
  change (N.of_nat 64) with 64. lia.
Qed.

Theorem sq_list_of_bb_In : forall b s, b < W64 ->
  (In s (sq_list_of_bb b) <-> N.testbit b s = true /\ s < 64).
Proof.
  intros b s Hb. unfold sq_list_of_bb. split.
  - intros H. apply sq_fuel_In_sound in H. split; [exact H|].
    rewrite W64_pow in Hb. exact (testbit_lt_pow2 b 64 s Hb H).
  - intros [H _]. apply sq_fuel_complete; [apply bits_in_64, Hb|exact H].
Qed.

Theorem sq_list_of_bb_sorted : forall b, b < W64 -> StronglySorted N.lt (sq_list_of_bb b).
Proof. intros b _. apply sq_fuel_sorted. Qed.

Theorem sq_list_of_bb_filter : forall b, b < W64 ->
  sq_list_of_bb b = filter (N.testbit b) squares64.
Proof.
  intros b Hb. apply sorted_ext.
  - apply sq_list_of_bb_sorted, Hb.
  - apply sorted_filter, squares64_sorted.
  - intros x. rewrite sq_list_of_bb_In by exact Hb. rewrite filter_In, in_squares64'. tauto.
Qed.

Theorem sq_list_of_bb_NoDup : forall b, b < W64 -> NoDup (sq_list_of_bb b).
Proof. intros b Hb. apply sorted_NoDup, sq_list_of_bb_sorted, Hb. Qed.

(** ** popcount *)
Lemma popcount_double a : popcount (2 * a) = popcount a.
Proof. destruct a; reflexivity. Qed.

Lemma popcount_succ_double a : popcount (2 * a + 1) = S (popcount a).
Proof. destruct a; reflexivity. Qed.

Lemma land_even_odd a c : N.land (2 * a) (2 * c + 1) = 2 * N.land a c.
Proof.
  apply N.bits_inj. intros i. rewrite N.land_spec.
  destruct (N.eq_dec i 0) as [->|Hi0].
  - rewrite !N.testbit_even_0. reflexivity.
  - replace i with (N.succ (N.pred i)) by lia.
    rewrite N.testbit_odd_succ, !N.testbit_even_succ by apply N.le_0_l.
    rewrite N.land_spec. reflexivity.
Qed.

Lemma land_odd_even a : N.land (2 * a + 1) (2 * a) = 2 * a.
Proof.
  apply N.bits_inj. intros i. rewrite N.land_spec.
  destruct (N.eq_dec i 0) as [->|Hi0].
  - rewrite N.testbit_odd_0, !N.testbit_even_0. reflexivity.
  - replace i with (N.succ (N.pred i)) by lia.
    rewrite N.testbit_odd_succ, !N.testbit_even_succ by apply N.le_0_l.
    apply andb_diag.
Qed.

Lemma popcount_pop_pos p :
  popcount (Npos p) = S (popcount (N.land (Npos p) (Npos p - 1))).
Proof.
  induction p as [q IH|q IH|].
  - replace (Npos q~1 - 1) with (2 * Npos q) by lia.
    change (Npos q~1) with (2 * Npos q + 1).
    rewrite land_odd_even, popcount_succ_double, popcount_double. reflexivity.
  - replace (Npos q~0 - 1) with (2 * (Npos q - 1) + 1) by lia.
    change (Npos q~0) with (2 * Npos q).
    rewrite land_even_odd, !popcount_double. exact IH.
  - reflexivity.
Qed.

Lemma popcount_pop b : b <> 0 -> popcount b = S (popcount (N.land b (b - 1))).
Proof. intros Hb. destruct b as [|p]; [contradiction|apply popcount_pop_pos]. Qed.

Lemma sq_fuel_length k : forall b, bits_in k b -> length (sq_list_fuel k b) = popcount b.
Proof.
  induction k as [|k IH]; intros b Hr.
  - destruct (N.eq_dec b 0) as [->|Hb]; [reflexivity|]. exfalso.
    pose proof (Hr _ (proj1 (lsb_spec b Hb))) as [H1 H2]. cbn [N.of_nat] in H1. lia.
  - destruct (N.eq_dec b 0) as [->|Hb]; [reflexivity|].
    rewrite sq_list_fuel_S by exact Hb. cbn [length].
    rewrite IH by (apply bits_in_pop; assumption).
    symmetry. apply popcount_pop, Hb.
Qed.

Theorem sq_list_of_bb_length : forall b, b < W64 -> length (sq_list_of_bb b) = popcount b.
Proof. intros b Hb. apply sq_fuel_length, bits_in_64, Hb. Qed.

(** ** convenience corollaries *)
Lemma sq_list_of_bb_In_testbit : forall b s, b < W64 ->
  (In s (sq_list_of_bb b) <-> N.testbit b s = true).
Proof.
  intros b s Hb. rewrite sq_list_of_bb_In by exact Hb. split; [intros [H _]; exact H|].
  intros H. split; [exact H|]. rewrite W64_pow in Hb. exact (testbit_lt_pow2 b 64 s Hb H).
Qed.

Lemma sq_list_of_bb_sorted_any : forall b, StronglySorted N.lt (sq_list_of_bb b).
Proof. intros b. apply sq_fuel_sorted. Qed.

Lemma sq_list_of_bb_NoDup_any : forall b, NoDup (sq_list_of_bb b).
Proof. intros b. apply sorted_NoDup, sq_list_of_bb_sorted_any. Qed.

Lemma popcount_pos_nonzero p : popcount_pos p <> O.
Proof. induction p as [q IH|q IH|]; cbn [popcount_pos]; [discriminate|exact IH|discriminate]. Qed.

Lemma popcount_0_iff b : popcount b = O <-> b = 0.
Proof.
  split; [|intros ->; reflexivity]. destruct b as [|p]; [reflexivity|].
  cbn [popcount]. intros H. exfalso. exact (popcount_pos_nonzero p H).
Qed.

