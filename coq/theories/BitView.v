(** * BitView: what the attack / check / legality functions read from a [position.Position].

    [IsAttacked], [HasCheck], [GivesCheck], [IsLegalMove], [WasLegalMove] (position.go) and
    [AttacksTo] (attacks.go) read only these fields of a Position:

      piecesBb[2][7]   (position.go:100)   -> [pieces]  14 words, index 7*colour + piece type
      occupiedBb[2]    (position.go:102)   -> [occw], [occb]
      board[64]        (position.go:87)    -> [vboard]  64 piece codes
      enPassantSquare  (position.go:89)    -> [vep]     64 = SqNone
      castlingRights   (position.go:88)    -> [vcr]
      nextPlayer       (position.go:91)    -> [vstm]
      kingSquare[2]    (position.go:96)    -> [vking]

    [view_of_spec] computes these words from the mailbox board of the rules specification;
    [WFview v p] says that a view is exactly that (the position model of the do/undo
    refinement plugs in here: it has to establish [WFview (view_of_impl P) (abs P)]).

    [sq_list_of_bb] is the order in which a Go loop
        for b != 0 { sq := b.PopLsb(); ... }
    visits the squares of a bitboard. *)
From Coq Require Import NArith ZArith List Bool Lia ZifyN ZifyBool Sorted.
From FG Require Import Word64 Geom Rules.
Import ListNotations.
Open Scope N_scope.

Record bview := mkview {
  pieces : list N;     (* piecesBb, [white pt0..6, black pt0..6] *)
  occw   : N;          (* occupiedBb[White] *)
  occb   : N;          (* occupiedBb[Black] *)
  vboard : list N;     (* board *)
  vep    : N;          (* enPassantSquare *)
  vcr    : N;          (* castlingRights *)
  vstm   : N;          (* nextPlayer *)
  vking  : N * N       (* kingSquare[White], kingSquare[Black] *)
}.

(** ** the view of a specification position *)
(* piecesBb[c][pt]: putPiece (position.go:846) pushes the square into piecesBb[colour][type];
   nothing is ever pushed for PtNone *)
Definition piece_word (b : list N) (c pt : N) : N :=
  if pt =? 0 then 0 else bb_filter (fun s => at_ b s =? mk_piece c pt).

(* occupiedBb[c]: putPiece pushes the square into occupiedBb[piece.ColorOf()] *)
Definition occ_word (b : list N) (c : N) : N :=
  bb_filter (fun s => negb (at_ b s =? 0) && (colour_of (at_ b s) =? c)).

Definition pts7 : list N := [0; 1; 2; 3; 4; 5; 6].

Definition pieces_of_board (b : list N) : list N :=
  map (piece_word b 0) pts7 ++ map (piece_word b 1) pts7.

Definition view_of_spec (p : pos) : bview :=
  let b := brd p in
  mkview (pieces_of_board b) (occ_word b WHITE) (occ_word b BLACK) b (ep p) (cr p) (stm p)
         (king_sq b WHITE, king_sq b BLACK).

(** ** well-formed view: exactly the view of the abstract position *)
Definition WFview (v : bview) (p : pos) : Prop := v = view_of_spec p.

Fixpoint listN_eqb (a b : list N) : bool :=
  match a, b with
  | [], [] => true
  | x :: a', y :: b' => (x =? y) && listN_eqb a' b'
  | _, _ => false
  end.

Definition bview_eqb (v w : bview) : bool :=
  listN_eqb (pieces v) (pieces w) && (occw v =? occw w) && (occb v =? occb w) &&
  listN_eqb (vboard v) (vboard w) && (vep v =? vep w) && (vcr v =? vcr w) && (vstm v =? vstm w) &&
  (fst (vking v) =? fst (vking w)) && (snd (vking v) =? snd (vking w)).

Definition WFviewb (v : bview) (p : pos) : bool := bview_eqb v (view_of_spec p).

Lemma listN_eqb_eq a : forall b, listN_eqb a b = true <-> a = b.
Proof.
  induction a as [|x a IH]; intros [|y b]; cbn [listN_eqb]; split; intros H;
    try reflexivity; try discriminate.
  - apply andb_true_iff in H as [H1 H2]. apply N.eqb_eq in H1. apply IH in H2. now subst.
  - injection H as -> ->. rewrite N.eqb_refl. now apply IH.
Qed.

Lemma WFviewb_spec v p : WFviewb v p = true <-> WFview v p.
Proof.
  unfold WFviewb, WFview, bview_eqb. split.
  - intros H. repeat (apply andb_true_iff in H as [H ?]).
    destruct v as [a1 a2 a3 a4 a5 a6 a7 [a8 a9]]. destruct (view_of_spec p) as [b1 b2 b3 b4 b5 b6 b7 [b8 b9]].
    cbn [pieces occw occb vboard vep vcr vstm vking fst snd] in *.
    repeat match goal with
           | H : listN_eqb _ _ = true |- _ => apply listN_eqb_eq in H
           | H : (_ =? _) = true |- _ => apply N.eqb_eq in H
           end. now subst.
  - intros ->. destruct (view_of_spec p) as [b1 b2 b3 b4 b5 b6 b7 [b8 b9]].
    cbn [pieces occw occb vboard vep vcr vstm vking fst snd].
    rewrite !N.eqb_refl.
    assert (R : forall l, listN_eqb l l = true) by (intros l; now apply listN_eqb_eq).
    now rewrite !R.
Qed.

(** ** PopLsb loops *)
(* bitboard.go:202  Lsb = bits.TrailingZeros64: 64 for the empty board *)
Fixpoint ctz (p : positive) : N :=
  match p with xO q => 1 + ctz q | _ => 0 end.
Definition lsb (b : N) : N := match b with 0 => 64 | Npos p => ctz p end.

(* bitboard.go:220  PopLsb: if b == 0 return SqNone; lsb := b.Lsb(); b = b & (b - 1)   (on the pointee) *)
Definition pop_lsb (b : N) : N * N :=
  if b =? 0 then (64, b) else (lsb b, N.land b (b - 1)).

(* for b != 0 { sq := b.PopLsb(); visit sq }    -- at most 64 iterations on a 64-bit word *)
Fixpoint sq_list_fuel (fuel : nat) (b : N) : list N :=
  match fuel with
  | O => []
  | S k => if b =? 0 then [] else let '(s, b') := pop_lsb b in s :: sq_list_fuel k b'
  end.
Definition sq_list_of_bb (b : N) : list N := sq_list_fuel 64 b.

(* bitboard.go:231  PopCount *)
Fixpoint popcount_pos (p : positive) : nat :=
  match p with xH => 1%nat | xO q => popcount_pos q | xI q => S (popcount_pos q) end.
Definition popcount (b : N) : nat := match b with 0 => O | Npos p => popcount_pos p end.
