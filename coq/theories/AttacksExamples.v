(** * AttacksExamples: non-vacuity of the C09 theorems on concrete positions, the one
    class of pseudo-legal moves on which GivesCheck is *not* "in check after the move", and
    the assumptions of every main theorem.

    The values claimed here for the model were also observed on the real engine with a
    throw-away Go probe (IsAttacked / AttacksTo / GivesCheck / IsLegalMove / WasLegalMove on
    the same FENs and move codes). *)
From Coq Require Import NArith ZArith List Bool String Ascii.
From FG Require Import Word64 Geom Tables Rules FenSpec Oracle BitView AttacksImpl AttacksLemmas
  AttacksProofs AttacksMoves AttacksCheckProofs AttacksLegalProofs.
Import ListNotations.
Open Scope N_scope.

Definition s2l (s : string) : list N := map N_of_ascii (list_ascii_of_string s).
Definition pos_of (s : string) : pos :=
  match parse (s2l s) with Some p => p | None => start_pos end.

Definition sq (f r : N) : N := mk_sq f r.   (* file 0..7 = a..h, rank 0..7 = 1..8 *)

(* every legal move of the position: the model of GivesCheck / IsLegalMove / WasLegalMove
   answers what the rules say, without failing *)
Definition all_moves_ok (p : pos) : bool :=
  forallb (fun m =>
    opt_bool_eqb (is_legal_impl (view_of_spec p) (view_of_spec (make p m)) (code m)) (is_legal p m) &&
    opt_bool_eqb (was_legal_impl (view_of_spec (make p m)) (code m)) (is_legal p m) &&
    (negb (is_legal p m) || opt_bool_eqb (gives_check_impl (view_of_spec p) (code m)) (gives_check p m)))
    (pseudo p).

Definition all_squares_ok (p : pos) : bool :=
  forallb (fun c => forallb (fun s =>
    opt_bool_eqb (is_attacked_impl (view_of_spec p) s c) (is_attacked_spec p s c) &&
    opt_N_eqb (attacks_to_impl (view_of_spec p) s c) (attacks_to_spec p s c)) squares64) [WHITE; BLACK].

(** ** start position *)
Example start_legal : legal_pos start_pos = true.
Proof. vm_compute. reflexivity. Qed.
Example start_e3_attacked : is_attacked_impl (view_of_spec start_pos) (sq 4 2) WHITE = Some true.
Proof. vm_compute. reflexivity. Qed.
Example start_e4_not_attacked : is_attacked_impl (view_of_spec start_pos) (sq 4 3) WHITE = Some false.
Proof. vm_compute. reflexivity. Qed.
(* f3 is attacked by Ng1, e2, g2: bits 6, 12, 14 *)
Example start_attackers_f3 : attacks_to_impl (view_of_spec start_pos) (sq 5 2) WHITE = Some 20544.
Proof. vm_compute. reflexivity. Qed.
Example start_no_check : has_check_impl (view_of_spec start_pos) = Some false.
Proof. vm_compute. reflexivity. Qed.
Example start_all : all_squares_ok start_pos && all_moves_ok start_pos = true.
Proof. vm_compute. reflexivity. Qed.

(** ** Kiwipete: castling both sides, 48 legal moves *)
Definition kiwipete := pos_of "r3k2r/p1ppqpb1/bn2pnp1/3PN3/1p2P3/2N2Q1p/PPPBBPPP/R3K2R w KQkq - 0 1".
Example kiwi_legal : legal_pos kiwipete = true /\ List.length (legal kiwipete) = 48%nat.
Proof. vm_compute. split; reflexivity. Qed.
(* e1g1 = 49414, e1c1 = 49410 *)
Example kiwi_castle_codes :
  map code (filter (fun m => mtype m =? CASTLING) (legal kiwipete)) = [49414; 49410].
Proof. vm_compute. reflexivity. Qed.
Example kiwi_castle_legal :
  forallb (fun m => opt_bool_eqb (is_legal_impl (view_of_spec kiwipete) (view_of_spec (make kiwipete m)) (code m)) true
                    && opt_bool_eqb (was_legal_impl (view_of_spec (make kiwipete m)) (code m)) true)
          (filter (fun m => mtype m =? CASTLING) (pseudo kiwipete)) = true.
Proof. vm_compute. reflexivity. Qed.
Example kiwi_all : all_squares_ok kiwipete && all_moves_ok kiwipete = true.
Proof. vm_compute. reflexivity. Qed.

(** ** en passant on the a-file: IsAttacked(a4, Black) used to index board[64] *)
Definition afile := pos_of "rn1qkbnr/1pp2ppp/p2p4/4p3/P1P1P1b1/3P4/1P3P1P/RNBQKBNR b KQkq a3 0 5".
Example afile_legal : legal_pos afile = true /\ ep afile = sq 0 2.
Proof. vm_compute. split; reflexivity. Qed.
Example afile_a4_black : is_attacked_impl (view_of_spec afile) (sq 0 3) BLACK = Some false.
Proof. vm_compute. reflexivity. Qed.
Example afile_a4_white : is_attacked_impl (view_of_spec afile) (sq 0 3) WHITE = Some true.
Proof. vm_compute. reflexivity. Qed.
Example afile_all : all_squares_ok afile && all_moves_ok afile = true.
Proof. vm_compute. reflexivity. Qed.

(* the mirrored case on the h-file, with a capturing pawn next to it: convention 1 and 2 *)
Definition hfile := pos_of "rnbqkbnr/pppppp1p/8/8/6pP/8/PPPPPPP1/RNBQKBNR b KQkq h3 0 3".
Example hfile_legal : legal_pos hfile = true.
Proof. vm_compute. reflexivity. Qed.
(* the pawn h4 counts as attacked by Black (convention 1) although no black piece attacks h4 *)
Example hfile_h4 : is_attacked_impl (view_of_spec hfile) (sq 7 3) BLACK = Some true /\
                   attacked (brd hfile) (sq 7 3) BLACK = false.
Proof. vm_compute. split; reflexivity. Qed.
(* AttacksTo(h3, Black) = the pawn g4 (bit 30) and, by convention 2, the pawn square h4 (bit 31) *)
Example hfile_h3 : attacks_to_impl (view_of_spec hfile) (sq 7 2) BLACK = Some (N.shiftl 1 30 + N.shiftl 1 31).
Proof. vm_compute. reflexivity. Qed.
Example hfile_all : all_squares_ok hfile && all_moves_ok hfile = true.
Proof. vm_compute. reflexivity. Qed.

(** ** discovered checks by en passant; e5xd6 e.p. = 35115 *)
(* the bishop a2 stands behind the captured pawn d5 *)
Definition ep_behind := pos_of "6k1/8/8/3pP3/8/8/B7/K7 w - d6 0 2".
(* rook a5, both pawns, king h5 on one rank: both pawns leave the rank *)
Definition ep_double := pos_of "8/8/8/R2pP2k/8/8/8/K7 w - d6 0 2".
(* the rook e1 stands behind the capturing pawn *)
Definition ep_from := pos_of "4k3/8/8/3pP3/8/8/8/K3R3 w - d6 0 2".

Example ep_discovered :
  forallb (fun p => legal_pos p && existsb (fun m => code m =? 35115) (legal p) &&
                    opt_bool_eqb (gives_check_impl (view_of_spec p) 35115) true &&
                    (* the plain push e5-e6 = 2348 gives no check *)
                    opt_bool_eqb (gives_check_impl (view_of_spec p) 2348) false &&
                    all_moves_ok p && all_squares_ok p)
          [ep_behind; ep_double; ep_from] = true.
Proof. vm_compute. reflexivity. Qed.

(** ** promotion with check, castling with check by the rook *)
Definition promo := pos_of "3k4/P7/8/8/8/8/8/K7 w - - 0 1".
Example promo_checks :
  legal_pos promo = true /\
  map (fun m => (mprom m, gives_check_impl (view_of_spec promo) (code m)))
      (filter (fun m => mtype m =? PROMOTION) (legal promo))
  = [(QUEEN, Some true); (ROOK, Some true); (BISHOP, Some false); (KNIGHT, Some false)].
Proof. vm_compute. split; reflexivity. Qed.

Definition castle_check := pos_of "5k2/8/8/8/8/8/8/4K2R w K - 0 1".
Example castle_gives_check :
  legal_pos castle_check = true /\
  map (fun m => gives_check_impl (view_of_spec castle_check) (code m))
      (filter (fun m => mtype m =? CASTLING) (legal castle_check)) = [Some true] /\
  all_moves_ok castle_check = true.
Proof. vm_compute. repeat split; reflexivity. Qed.

(** ** where GivesCheck is not "in check after the move"
    position.go:689 "case King: ignore - can't give check": for a pseudo-legal but ILLEGAL
    king move next to the opponent's king the engine answers false, although after the move
    the opponent's king is attacked (by the king).  The move is rejected by both legality
    tests, so the answer is never used for a legal move; [gives_check_exact_pseudo] covers
    every other pseudo-legal move. *)
Definition kings := pos_of "8/8/8/8/8/2k5/8/K7 w - - 0 1".
Theorem gives_check_refuted_illegal_king_move :
  exists p m, legal_pos p = true /\ In m (pseudo p) /\ is_legal p m = false /\
              gives_check_impl (view_of_spec p) (code m) = Some false /\ gives_check p m = true.
Proof.
  exists kings, (mkmv 0 9 NORMAL 3). vm_compute. repeat split; try reflexivity.
  repeat (first [left; reflexivity | right]).
Qed.

(** ** assumptions *)
Print Assumptions is_attacked_exact.
Print Assumptions has_check_exact.
Print Assumptions attacks_to_exact.
Print Assumptions attacked_iff_attackers.
Print Assumptions gives_check_exact_pseudo.
Print Assumptions gives_check_exact.
Print Assumptions legal_pre_post_agree.
Print Assumptions sq_list_of_bb_filter.
Print Assumptions c09_on_views.
