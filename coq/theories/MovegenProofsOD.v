(** * MovegenProofsOD: the on demand move generator (GetNextMove) as a state machine —
      chess independent part of C08.

    PROVED here (no chess, the stage generators [e_gen], the sort [e_sort], the position key,
    the evasion targets and [isNonQuiet] are arbitrary parameters):

    - [go_sort_perm]        moveslice.Sort (stable insertion sort) returns a permutation.
    - [od_sequence]         for every start state covered by [od_start_ok] (state after
                            ResetOnDemand [+ SetPvMove / StoreKiller], or ANY state whose
                            currentODZobrist differs from the key of the position, e.g. after a
                            full or partial drain of another position) the caller's loop
                            terminates without an index panic after exactly [length out + 1] calls
                            and hands out
                              out = [pv] ++ out'   if a PV move is set and selected for the mode
                              out = out'           otherwise
                            where out' is, as a multiset, the concatenation of the stage lists
                            minus one copy of the PV move.  Each stage list is the generator's
                            list for the evasion flag of the call or — the refill of
                            movegen.go:283 passes evasion = false — for evasion = false.
    - [od_sequence_noevasion]  evasion = false: out' is a permutation of the batch list
                            [od_batch] minus the PV move; with [NoDup] batch:
                            PV in the batch list  -> Permutation out batch, head = PV, NoDup out
                            PV not selected       -> Permutation out batch, NoDup out
                            PV selected but alien -> out = pv :: permutation of batch
                            (the engine hands out a PV move that is not a move of the
                            position: "delivers a set PV move that belongs to the set first"
                            holds, but an alien PV move is delivered as well).
    - [od_sequence_evasion]  evasion = true: NoDup out, every move of the evasion batch list is
                            handed out, every handed out move is the PV move or in the non
                            evasion batch list.
    Hypotheses of the theorems: [e_sort] returns a permutation of its argument (true of
    moveslice.Sort with any sort values, [go_sort_perm]); no stage generator produces the code 0
    (MoveNone, the end marker of the caller's loop) for the evasion flag of the call and for
    evasion = false.
    Not covered (by design of the engine, movegen.go:198): a second enumeration of the SAME
    position key without ResetOnDemand. *)
From Coq Require Import NArith ZArith List Bool Lia ZifyN ZifyBool Permutation.
From FG Require Import AttacksImpl MovegenImpl.
Import ListNotations.
Open Scope N_scope.

(** ** moveslice.Sort *)
Lemma ins_right_perm val x l : Permutation (ins_right val x l) (x :: l).
Proof.
  induction l as [|y l IH]; cbn [ins_right]; [reflexivity|].
  destruct (val y <? val x)%Z; [|reflexivity].
  rewrite IH. apply perm_swap.
Qed.

Lemma fold_ins_perm val l : forall acc,
  Permutation (fold_left (fun rp x => ins_right val x rp) l acc) (l ++ acc).
Proof.
  induction l as [|x l IH]; intros acc; cbn [fold_left app]; [reflexivity|].
  rewrite IH, ins_right_perm. symmetry. apply Permutation_middle.
Qed.

Theorem go_sort_perm val l : Permutation (go_sort val l) l.
Proof.
  unfold go_sort. rewrite <- Permutation_rev, fold_ins_perm, app_nil_r. reflexivity.
Qed.

(* the result is ordered by descending value and the sort is stable: equal values keep
   their generation order *)
Fixpoint desc_sorted (val : N -> Z) (l : list N) : Prop :=
  match l with
  | [] => True
  | x :: r => (forall y, In y r -> (val y <= val x)%Z) /\ desc_sorted val r
  end.

(* rev-prefix form: ascending towards the head *)
Fixpoint asc_sorted (val : N -> Z) (l : list N) : Prop :=
  match l with
  | [] => True
  | x :: r => (forall y, In y r -> (val x <= val y)%Z) /\ asc_sorted val r
  end.

Lemma ins_right_in val x l y : In y (ins_right val x l) <-> y = x \/ In y l.
Proof.
  split; intros H.
  - apply (Permutation_in _ (ins_right_perm val x l)) in H. destruct H as [<-|H]; auto.
  - apply (Permutation_in _ (Permutation_sym (ins_right_perm val x l))). destruct H as [->|H]; [now left|now right].
Qed.

Lemma ins_right_sorted val x l : asc_sorted val l -> asc_sorted val (ins_right val x l).
Proof.
  induction l as [|y l IH]; cbn [ins_right asc_sorted]; intros H.
  - split; [intros ? []|exact I].
  - destruct H as [H1 H2]. destruct (val y <? val x)%Z eqn:E.
    + cbn [asc_sorted]. split; [|now apply IH].
      intros z Hz. apply ins_right_in in Hz as [->|Hz]; [lia|now apply H1].
    + cbn [asc_sorted]. split; [|split; assumption].
      intros z [<-|Hz]; [lia|]. specialize (H1 z Hz). lia.
Qed.

Lemma asc_rev_desc val l : asc_sorted val l -> desc_sorted val (rev l).
Proof.
  induction l as [|x l IH]; cbn [asc_sorted rev]; intros H; [exact I|].
  destruct H as [H1 H2]. specialize (IH H2).
  assert (G : forall a b, desc_sorted val a -> (forall y, In y a -> (val b <= val y)%Z) -> desc_sorted val (a ++ [b])).
  { induction a as [|z a IHa]; cbn [app desc_sorted]; intros b Ha Hb.
    - split; [intros ? []|exact I].
    - destruct Ha as [Ha1 Ha2]. split.
      + intros y Hy. apply in_app_or in Hy as [Hy|[<-|[]]]; [now apply Ha1|]. apply Hb. now left.
      + apply IHa; [exact Ha2|]. intros y Hy. apply Hb. now right. }
  apply G; [exact IH|]. intros y Hy. apply H1. now apply in_rev.
Qed.

Theorem go_sort_sorted val l : desc_sorted val (go_sort val l).
Proof.
  unfold go_sort. apply asc_rev_desc.
  assert (G : forall l acc, asc_sorted val acc -> asc_sorted val (fold_left (fun rp x => ins_right val x rp) l acc)).
  { clear l. induction l as [|x l IH]; intros acc H; cbn [fold_left]; [exact H|].
    apply IH. now apply ins_right_sorted. }
  apply G. exact I.
Qed.

(** ** removing one copy of the PV move *)
Fixpoint remove1 (x : N) (l : list N) : list N :=
  match l with [] => [] | y :: r => if y =? x then r else y :: remove1 x r end.

Lemma remove1_perm x l l' : Permutation l l' -> Permutation (remove1 x l) (remove1 x l').
Proof.
  induction 1 as [|y l l' H IH|y z l|l l' l'' H1 IH1 H2 IH2]; cbn [remove1].
  - reflexivity.
  - destruct (y =? x); [exact H|now constructor].
  - destruct (N.eqb_spec y x) as [->|Hy], (N.eqb_spec z x) as [->|Hz]; try reflexivity.
    apply perm_swap.
  - now transitivity (remove1 x l').
Qed.

Lemma remove1_notin x l : ~ In x l -> remove1 x l = l.
Proof.
  induction l as [|y l IH]; cbn [remove1 In]; intros H; [reflexivity|].
  destruct (N.eqb_spec y x) as [->|Hy]; [exfalso; apply H; now left|].
  f_equal. apply IH. intros Hx. apply H. now right.
Qed.

Lemma remove1_app_in x a b : In x a -> remove1 x (a ++ b) = remove1 x a ++ b.
Proof.
  induction a as [|y a IH]; cbn [remove1 In app]; intros H; [destruct H|].
  destruct (N.eqb_spec y x) as [->|Hy]; [reflexivity|].
  destruct H as [H|H]; [congruence|]. cbn [app]. f_equal. now apply IH.
Qed.

Lemma remove1_app_notin x a b : ~ In x a -> remove1 x (a ++ b) = a ++ remove1 x b.
Proof.
  induction a as [|y a IH]; cbn [remove1 In app]; intros H; [reflexivity|].
  destruct (N.eqb_spec y x) as [->|Hy]; [exfalso; apply H; now left|].
  f_equal. apply IH. intros Hx. apply H. now right.
Qed.

Lemma remove1_in_perm x l : In x l -> Permutation (x :: remove1 x l) l.
Proof.
  induction l as [|y l IH]; cbn [remove1 In]; intros H; [destruct H|].
  destruct (N.eqb_spec y x) as [->|Hy]; [reflexivity|].
  destruct H as [H|H]; [congruence|]. rewrite perm_swap. constructor. now apply IH.
Qed.

Lemma remove1_incl x l y : In y (remove1 x l) -> In y l.
Proof.
  induction l as [|z l IH]; cbn [remove1 In]; [tauto|].
  destruct (z =? x); [now right|]. intros [H|H]; [now left|right; now apply IH].
Qed.

Lemma remove1_nodup x l : NoDup l -> NoDup (remove1 x l) /\ ~ In x (remove1 x l).
Proof.
  induction 1 as [|y l Hy Hl IH]; cbn [remove1]; [split; [constructor|intros []]|].
  destruct (N.eqb_spec y x) as [->|Hyx]; [split; assumption|].
  destruct IH as [IH1 IH2]. split.
  - constructor; [|exact IH1]. intros H. apply Hy. now apply remove1_incl in H.
  - intros [H|H]; [congruence|now apply IH2].
Qed.

Lemma remove1_other x l y : y <> x -> In y l -> In y (remove1 x l).
Proof.
  intros Hyx. induction l as [|z l IH]; cbn [remove1 In]; [tauto|].
  destruct (N.eqb_spec z x) as [->|Hz]; intros [H|H]; try congruence; try assumption.
  - now left.
  - right. now apply IH.
Qed.

Lemma F2_length {A B} (R : A -> B -> Prop) l1 l2 : Forall2 R l1 l2 -> length l1 = length l2.
Proof. induction 1; cbn [length]; congruence. Qed.

Lemma nodup_app (a b : list N) : NoDup a -> NoDup b -> (forall x, In x a -> In x b -> False) -> NoDup (a ++ b).
Proof.
  induction 1 as [|x a Hx Ha IH]; intros Hb Hd; cbn [app]; [exact Hb|].
  constructor.
  - intros H. apply in_app_or in H as [H|H]; [now apply Hx|]. apply (Hd x); [now left|exact H].
  - apply IH; [exact Hb|]. intros y Hy1 Hy2. apply (Hd y); [now right|exact Hy2].
Qed.

Lemma nodup_app_l (a b : list N) : NoDup (a ++ b) -> NoDup a.
Proof.
  induction a as [|x a IH]; cbn [app]; intros H; [constructor|].
  inversion H as [|? ? Hx Hn]; subst. constructor; [|now apply IH].
  intros Hi. apply Hx. apply in_or_app. now left.
Qed.
Lemma nodup_app_r (a b : list N) : NoDup (a ++ b) -> NoDup b.
Proof.
  induction a as [|x a IH]; cbn [app]; intros H; [exact H|].
  inversion H; subst. now apply IH.
Qed.

(** ** the stage plan *)
Section OD.
Variable env : odenv.
Variable mode : N.
Variable ev : bool.

(* updateSortValues + Sort only permute the list *)
Hypothesis sort_perm : forall st l, Permutation (e_sort env st l) l.
(* MoveNone (0, "a1a1") is never generated: it is the end marker of the caller's loop
   (needed for the evasion flag of the call and for evasion = false, the flag of the refill) *)
Hypothesis gen_nz : forall k e, e = false \/ e = ev ->
  ~ In 0 (e_gen env k e (if ev then e_evt env else 0)).

(* the evasion targets the generators are called with *)
Definition EVT : N := if ev then e_evt env else 0.

(* the stage following stage s in fillOnDemandMoveList *)
Definition next_stage (s : N) : N :=
  if s <=? OD_PV then (if has_nq mode then OD_1 else OD_4)
  else if s =? OD_4 then (if has_q mode then OD_5 else OD_END)
  else if s <? OD_END then s + 1 else s.

(* what stage s appends when run with evasion flag e *)
Definition stage_gen (e : bool) (s : N) : list N :=
  if (s =? OD_1) || (s =? OD_2) || (s =? OD_3) || (s =? OD_5) || (s =? OD_7) || (s =? OD_8)
  then e_gen env s e EVT
  else if s =? OD_6 then (if e then [] else e_gen env s e EVT)
  else [].

Definition tailq : list N := if has_q mode then [OD_5; OD_6; OD_7; OD_8] else [].
(* the stages still to run from stage s on *)
Definition path (s : N) : list N :=
  if s <=? OD_PV then s :: (if has_nq mode then [OD_1; OD_2; OD_3; OD_4] ++ tailq else OD_4 :: tailq)
  else if s <=? OD_4 then filter (fun k => s <=? k) [OD_1; OD_2; OD_3; OD_4] ++ tailq
  else filter (fun k => s <=? k) [OD_5; OD_6; OD_7; OD_8].

Lemma small_cases s : s < 10 ->
  s = 0 \/ s = 1 \/ s = 2 \/ s = 3 \/ s = 4 \/ s = 5 \/ s = 6 \/ s = 7 \/ s = 8 \/ s = 9.
Proof. lia. Qed.

Lemma path_step s : s < OD_END -> path s = s :: path (next_stage s).
Proof.
  intros H. apply small_cases in H. unfold path, next_stage, tailq.
  decompose [or] H; subst s; destruct (has_nq mode), (has_q mode); reflexivity.
Qed.

Lemma path_end s : OD_END <= s -> path s = [].
Proof.
  intros H. unfold path, OD_END, OD_PV, OD_4, OD_1, OD_2, OD_3, OD_5, OD_6, OD_7, OD_8 in *.
  replace (s <=? 1) with false by lia. replace (s <=? 5) with false by lia.
  cbn [filter]. repeat (match goal with |- context [s <=? ?k] => replace (s <=? k) with false by lia end).
  reflexivity.
Qed.

Lemma next_stage_gt s : s < OD_END -> s < next_stage s /\ next_stage s <= OD_END /\ OD_PV < next_stage s.
Proof.
  intros H. apply small_cases in H. unfold next_stage.
  decompose [or] H; subst s; destruct (has_nq mode), (has_q mode); vm_compute; repeat split; congruence.
Qed.

(* is the PV move pushed in stage odPv?  movegen.go:656-675 *)
Definition pv_sel (pv : N) : bool :=
  negb (pv =? 0) &&
  ((mode =? 3) || ((mode =? 1) && e_isnq env pv) || ((mode =? 2) && negb (e_isnq env pv))).

(* 722-724 *)
Definition finish (st1 : odstate) : odstate :=
  match od_moves st1 with [] => st1 | _ => set_moves st1 (e_sort env st1 (od_moves st1)) end.

Lemma fill_step_pv e st : od_stage st <= OD_PV ->
  od_fill_step env mode e st =
  finish (set_stage (if pv_sel (od_pv st) then od_push_pv st else st) (next_stage (od_stage st))).
Proof.
  intros Hs. unfold od_fill_step, finish, next_stage, pv_sel.
  assert (E : (od_stage st =? OD_NEW) || (od_stage st =? OD_PV) = true) by (unfold OD_NEW, OD_PV in *; lia).
  rewrite E. replace (od_stage st <=? OD_PV) with true by lia.
  destruct (od_pv st =? 0); cbn [negb andb]; [reflexivity|].
  destruct (mode =? 3) eqn:E3; cbn [orb]; [reflexivity|].
  destruct (mode =? 1) eqn:E1; cbn [andb orb].
  - replace (mode =? 2) with false by lia. cbn [andb orb]. rewrite orb_false_r.
    destruct (e_isnq env (od_pv st)); reflexivity.
  - destruct (mode =? 2); cbn [andb]; [|reflexivity].
    destruct (e_isnq env (od_pv st)); reflexivity.
Qed.

Lemma fill_step_gen e st : OD_PV < od_stage st < OD_END -> od_evt st = EVT ->
  od_fill_step env mode e st =
  finish (set_stage (set_moves st (od_moves st ++ stage_gen e (od_stage st))) (next_stage (od_stage st))).
Proof.
  intros Hs Hevt. unfold od_fill_step, finish, next_stage, stage_gen, od_append.
  assert (H : od_stage st < 10) by (unfold OD_END in Hs; lia).
  apply small_cases in H. destruct st as [mv sg tk pv pp pf kl ky et].
  cbn [od_stage od_moves od_evt] in *. subst et.
  decompose [or] H; subst sg; try (unfold OD_PV in Hs; lia); clear H Hs;
    cbn -[e_gen e_sort has_nq has_q app]; unfold set_stage, set_moves;
    cbn -[e_gen e_sort has_nq has_q app]; rewrite ?app_nil_r; try reflexivity.
  destruct e; cbn -[e_gen e_sort has_nq has_q app]; rewrite ?app_nil_r; reflexivity.
Qed.

(** ** invariant of the states between two GetNextMove calls (after [od_norm]) *)
Definition cur (st : odstate) : list N := skipn (od_take st) (od_moves st).

Record J (st : odstate) : Prop := mkJ {
  J_key : od_key st = e_key env;
  J_evt : od_evt st = EVT;
  J_take : (od_moves st = [] /\ od_take st = O) \/ (od_take st < length (od_moves st))%nat;
  J_fresh : od_pv_fresh st = true ->
            od_pv_pushed st = true /\ od_moves st = [od_pv st] /\ od_take st = O /\ od_pv st <> 0;
  J_new : od_stage st <= OD_PV -> od_moves st = [] /\ od_pv_fresh st = false /\ od_pv_pushed st = false;
  J_nz : ~ In 0 (od_moves st)
}.

Lemma norm_id st : J st -> od_norm env ev st = st.
Proof.
  intros [Hk He _ _ _ _]. unfold od_norm. rewrite Hk, N.eqb_refl. cbn [negb].
  destruct ev eqn:Eev; cbn [andb]; [|reflexivity].
  destruct (od_evt st =? 0) eqn:E0; [|reflexivity].
  unfold EVT in He. rewrite Eev in He. rewrite <- He. now destruct st.
Qed.

(* choice of the evasion flag per stage (movegen.go:283 refills with evasion = false) *)
Definition choice (k : N) (L : list N) : Prop := L = stage_gen false k \/ L = stage_gen ev k.

(* frame: everything but moves and stage is unchanged *)
Definition same_frame (a b : odstate) : Prop :=
  od_take a = od_take b /\ od_pv a = od_pv b /\ od_pv_pushed a = od_pv_pushed b /\
  od_pv_fresh a = od_pv_fresh b /\ od_killers a = od_killers b /\ od_key a = od_key b /\ od_evt a = od_evt b.

Lemma sort_nonempty st l : l <> [] -> e_sort env st l <> [].
Proof.
  intros H E. apply H. pose proof (sort_perm st l) as P. rewrite E in P.
  now apply Permutation_nil in P.
Qed.

Lemma sort_single st x : e_sort env st [x] = [x].
Proof. apply Permutation_length_1_inv. symmetry. apply sort_perm. Qed.

(** ** fillOnDemandMoveList *)
Inductive fill_result (e : bool) (st st' : odstate) (Ls : list (list N)) : Prop :=
| fr_pv : od_stage st <= OD_PV -> pv_sel (od_pv st) = true ->
          st' = mkod [od_pv st] (next_stage (od_stage st)) (od_take st) (od_pv st) true true
                     (od_killers st) (od_key st) (od_evt st) ->
          Ls = [[]] -> fill_result e st st' Ls
| fr_gen : (od_stage st <= OD_PV -> pv_sel (od_pv st) = false) ->
           same_frame st st' -> Permutation (od_moves st') (concat Ls) ->
           (od_moves st' = [] -> OD_END <= od_stage st') ->
           fill_result e st st' Ls.

Ltac split5 := split; [|split; [|split; [|split]]].

Lemma fill_spec e : forall fuel st,
  (N.to_nat (OD_END - od_stage st) < fuel)%nat ->
  od_moves st = [] -> od_evt st = EVT ->
  exists Ls, fill_result e st (od_fill fuel env mode e st) Ls /\
             Forall2 (fun k L => L = stage_gen e k) (firstn (length Ls) (path (od_stage st))) Ls /\
             path (od_stage st) = firstn (length Ls) (path (od_stage st)) ++ path (od_stage (od_fill fuel env mode e st)) /\
             od_stage st <= od_stage (od_fill fuel env mode e st) /\
             (od_moves (od_fill fuel env mode e st) <> [] ->
              od_stage st < od_stage (od_fill fuel env mode e st) /\ OD_PV < od_stage (od_fill fuel env mode e st) /\
              Ls <> []).
Proof.
  induction fuel as [|fuel IH]; intros st Hf Hm Hevt; [lia|].
  cbn [od_fill]. rewrite Hm.
  destruct (N.ltb_spec (od_stage st) OD_END) as [Hlt|Hge].
  2:{ exists []. cbn [length firstn concat]. split5.
      - apply fr_gen; [unfold OD_PV, OD_END in *; lia|repeat split|rewrite Hm; reflexivity|intros _; exact Hge].
      - constructor.
      - reflexivity.
      - lia.
      - intros H. now rewrite Hm in H. }
  destruct (N.leb_spec (od_stage st) OD_PV) as [Hpv|Hpv].
  - (* odNew / odPv *)
    rewrite (fill_step_pv e st Hpv). rewrite (path_step _ Hlt).
    pose proof (next_stage_gt _ Hlt) as Hn.
    destruct (pv_sel (od_pv st)) eqn:Esel.
    + (* the PV move is pushed *)
      unfold finish, od_push_pv, set_stage. cbn [od_moves od_stage od_take od_pv od_pv_pushed od_pv_fresh od_killers od_key od_evt].
      rewrite Hm. cbn [app]. unfold set_moves.
      cbn [od_moves od_stage od_take od_pv od_pv_pushed od_pv_fresh od_killers od_key od_evt].
      rewrite sort_single.
      assert (Hfill : forall k s, od_fill k env mode e s = s \/ od_moves s = []).
      { intros k s. destruct k; cbn [od_fill]; [now left|]. destruct (od_moves s); [now right|now left]. }
      match goal with |- context [od_fill fuel env mode e ?s] =>
        destruct (Hfill fuel s) as [Ef|Ef]; [rewrite Ef|discriminate Ef] end.
      exists [[]]. cbn [length firstn od_stage od_moves]. split5.
      * now apply fr_pv.
      * constructor; [|constructor]. unfold stage_gen.
        unfold OD_PV, OD_1, OD_2, OD_3, OD_5, OD_6, OD_7, OD_8 in *.
        repeat (match goal with |- context [od_stage st =? ?k] => replace (od_stage st =? k) with false by lia end).
        reflexivity.
      * reflexivity.
      * lia.
      * intros _. split; [lia|split; [lia|discriminate]].
    + (* no PV move *)
      unfold finish, set_stage. cbn [od_moves]. rewrite Hm.
      match goal with |- context [od_fill fuel env mode e ?s] => set (st1 := s) end.
      assert (Hs1 : od_stage st1 = next_stage (od_stage st)) by reflexivity.
      destruct (IH st1) as [Ls [HR [HF [HP [HS HS']]]]]; [rewrite Hs1; lia|reflexivity|exact Hevt|].
      exists ([] :: Ls). cbn [length firstn]. rewrite Hs1 in *. split5.
      * destruct HR as [H1 H2 H3 H4|H1 H2 H3 H4].
        { unfold OD_PV in *. lia. }
        apply fr_gen; [intros _; exact Esel| |exact H3|].
        { destruct H2 as (A1 & A2 & A3 & A4 & A5 & A6 & A7). repeat split; assumption. }
        { exact H4. }
      * constructor; [|exact HF]. unfold stage_gen.
        unfold OD_PV, OD_1, OD_2, OD_3, OD_5, OD_6, OD_7, OD_8 in *.
        repeat (match goal with |- context [od_stage st =? ?k] => replace (od_stage st =? k) with false by lia end).
        reflexivity.
      * cbn [app]. f_equal. exact HP.
      * lia.
      * intros Hz. specialize (HS' Hz). split; [lia|split; [lia|discriminate]].
  - (* generating stages *)
    rewrite (fill_step_gen e st (conj Hpv Hlt) Hevt). rewrite (path_step _ Hlt).
    pose proof (next_stage_gt _ Hlt) as Hn. rewrite Hm. cbn [app].
    destruct (stage_gen e (od_stage st)) as [|x g] eqn:Eg.
    + (* nothing generated: next stage *)
      unfold finish, set_stage, set_moves. cbn [od_moves].
      match goal with |- context [od_fill fuel env mode e ?s] => set (st1 := s) end.
      assert (Hs1 : od_stage st1 = next_stage (od_stage st)) by reflexivity.
      destruct (IH st1) as [Ls [HR [HF [HP [HS HS']]]]]; [rewrite Hs1; lia|reflexivity|exact Hevt|].
      exists ([] :: Ls). cbn [length firstn]. rewrite Hs1 in *. split5.
      * destruct HR as [H1 H2 H3 H4|H1 H2 H3 H4].
        { unfold OD_PV in *. lia. }
        apply fr_gen; [intros; lia| |exact H3|].
        { destruct H2 as (A1 & A2 & A3 & A4 & A5 & A6 & A7). repeat split; assumption. }
        { exact H4. }
      * constructor; [now rewrite Eg|exact HF].
      * cbn [app]. f_equal. exact HP.
      * lia.
      * intros Hz. specialize (HS' Hz). split; [lia|split; [lia|discriminate]].
    + (* a non-empty stage list: sorted, loop ends *)
      unfold finish. cbn [od_moves set_stage set_moves].
      match goal with |- context [od_fill fuel env mode e ?s] => set (st1 := s) end.
      assert (Hne : od_moves st1 <> []).
      { subst st1. unfold set_moves. cbn [od_moves]. apply sort_nonempty. discriminate. }
      assert (Ef : od_fill fuel env mode e st1 = st1).
      { destruct fuel; cbn [od_fill]; [reflexivity|]. destruct (od_moves st1); [congruence|reflexivity]. }
      rewrite Ef. exists [x :: g]. cbn [length firstn]. split5.
      * apply fr_gen; [intros; lia|repeat split| |intros Hz; congruence].
        cbn [concat]. rewrite app_nil_r.
        subst st1. unfold set_moves. cbn [od_moves]. apply sort_perm.
      * constructor; [now rewrite Eg|constructor].
      * reflexivity.
      * subst st1. cbn [od_stage set_moves set_stage]. lia.
      * intros _. subst st1. cbn [od_stage set_moves set_stage]. split; [lia|split; [lia|discriminate]].
Qed.

(** ** representation of the take index *)
Lemma cur_cons st m r : cur st = m :: r ->
  nth_error (od_moves st) (od_take st) = Some m /\
  skipn (S (od_take st)) (od_moves st) = r /\
  ((length (od_moves st) <=? S (od_take st))%nat = true <-> r = []).
Proof.
  unfold cur. generalize (od_take st) (od_moves st). intros n l. revert l.
  induction n as [|n IH]; intros l H.
  - cbn [skipn] in H. subst l. cbn. repeat split; try reflexivity.
    + intros E. destruct r; [reflexivity|discriminate].
    + intros ->. reflexivity.
  - destruct l as [|x l]; [discriminate|]. cbn [skipn] in H.
    destruct (IH l H) as (A & B & C). cbn [nth_error length]. repeat split; try assumption.
    + intros E. apply C. apply Nat.leb_le in E. apply Nat.leb_le. lia.
    + intros E. apply C in E. apply Nat.leb_le in E. apply Nat.leb_le. lia.
Qed.

Lemma cur_nil_J st : J st -> cur st = [] -> od_moves st = [] /\ od_take st = O.
Proof.
  intros HJ Hc. destruct (J_take st HJ) as [H|H]; [exact H|].
  unfold cur in Hc. apply (f_equal (@length N)) in Hc. rewrite skipn_length in Hc. cbn in Hc. lia.
Qed.

Lemma cur_in st x : In x (cur st) -> In x (od_moves st).
Proof. unfold cur. intros H. rewrite <- (firstn_skipn (od_take st)). apply in_or_app. now right. Qed.

(** ** the caller's loop *)
(* what is still to be handed out from a state, given the lists [Ls] of the stages to come *)
Definition spec_out (st : odstate) (Ls : list (list N)) (out : list N) : Prop :=
  let fut := concat Ls in
  if od_stage st <=? OD_PV then
    if pv_sel (od_pv st) then exists out', out = od_pv st :: out' /\ Permutation out' (remove1 (od_pv st) fut)
    else Permutation out fut
  else if od_pv_fresh st then exists out', out = od_pv st :: out' /\ Permutation out' (remove1 (od_pv st) fut)
  else if od_pv_pushed st then Permutation out (remove1 (od_pv st) (cur st ++ fut))
  else Permutation out (cur st ++ fut).

Definition P (st : odstate) : Prop :=
  exists Ls st' out,
    od_drain (S (length out)) env mode ev st = Some (st', out) /\
    Forall2 choice (path (od_stage st)) Ls /\
    spec_out st Ls out.

Lemma drain_same st st' : od_next env mode ev st = od_next env mode ev st' ->
  forall fuel, od_drain fuel env mode ev st = od_drain fuel env mode ev st'.
Proof. intros H [|fuel]; cbn [od_drain]; [reflexivity|]. now rewrite H. Qed.

Lemma P_same st st' : od_next env mode ev st = od_next env mode ev st' ->
  od_stage st = od_stage st' -> (forall Ls out, spec_out st' Ls out -> spec_out st Ls out) ->
  P st' -> P st.
Proof.
  intros Hn Hs Hspec (Ls & st'' & out & Hd & HF & Ho).
  exists Ls, st'', out. rewrite (drain_same _ _ Hn). rewrite Hs. auto.
Qed.

Lemma choice_of_gen e Ls l : e = false \/ e = ev ->
  Forall2 (fun k L => L = stage_gen e k) l Ls -> Forall2 choice l Ls.
Proof.
  intros He H. induction H as [|k L l Ls HL _ IH]; constructor; [|exact IH].
  unfold choice. destruct He as [-> | ->]; auto.
Qed.

Lemma Forall2_app_path (l1 l2 : list N) (Ls1 Ls2 : list (list N)) :
  Forall2 choice l1 Ls1 -> Forall2 choice l2 Ls2 -> Forall2 choice (l1 ++ l2) (Ls1 ++ Ls2).
Proof. intros H1 H2. induction H1; cbn [app]; [exact H2|now constructor]. Qed.

(* one output step: state after handing out the move at the take index *)
Lemma take1_spec st m r : cur st = m :: r ->
  exists st8, od_take1 st = Some (st8, m) /\ cur st8 = r /\
    od_stage st8 = od_stage st /\ od_pv st8 = od_pv st /\ od_pv_pushed st8 = od_pv_pushed st /\
    od_pv_fresh st8 = false /\ od_key st8 = od_key st /\ od_evt st8 = od_evt st /\
    ((od_moves st8 = [] /\ od_take st8 = O) \/ (od_take st8 < length (od_moves st8))%nat) /\
    (forall x, In x (od_moves st8) -> In x (od_moves st)).
Proof.
  intros Hc. destruct (cur_cons st m r Hc) as (A & B & C).
  unfold od_take1. rewrite A. cbn [bind].
  cbn [od_moves od_take set_take set_fresh].
  destruct ((length (od_moves st) <=? S (od_take st))%nat) eqn:E.
  - eexists. split; [reflexivity|]. assert (Hr : r = []) by (now apply C). subst r.
    unfold cur. cbn. repeat split; try reflexivity; auto. intros x [].
  - eexists. split; [reflexivity|]. unfold cur. cbn [od_moves od_take set_take set_fresh od_stage od_pv od_pv_pushed od_pv_fresh od_key od_evt].
    repeat split; try reflexivity; auto. right. apply Nat.leb_gt in E. exact E.
Qed.

Lemma J_of st8 :
  od_key st8 = e_key env -> od_evt st8 = EVT ->
  ((od_moves st8 = [] /\ od_take st8 = O) \/ (od_take st8 < length (od_moves st8))%nat) ->
  od_pv_fresh st8 = false -> OD_PV < od_stage st8 -> ~ In 0 (od_moves st8) -> J st8.
Proof.
  intros. constructor; try assumption.
  - intros Hf. congruence.
  - intros. lia.
Qed.

Lemma drain_cons st st8 m : od_next env mode ev st = Some (st8, m) -> m <> 0 ->
  forall st' out, od_drain (S (length out)) env mode ev st8 = Some (st', out) ->
  od_drain (S (length (m :: out))) env mode ev st = Some (st', m :: out).
Proof.
  intros Hn Hm st' out Hd. cbn [length]. remember (S (length out)) as f.
  cbn [od_drain]. rewrite Hn. cbn [bind]. apply N.eqb_neq in Hm. rewrite Hm. rewrite Hd. reflexivity.
Qed.

Lemma drain_end st st8 : od_next env mode ev st = Some (st8, 0) ->
  od_drain 1 env mode ev st = Some (st8, []).
Proof. intros Hn. cbn [od_drain]. rewrite Hn. reflexivity. Qed.

Lemma stage_lists_nz e l Ls : e = false \/ e = ev ->
  Forall2 (fun k L => L = stage_gen e k) l Ls -> ~ In 0 (concat Ls).
Proof.
  intros He. induction 1 as [|k L ks Ls' HL _ IH]; cbn [concat]; [intros []|].
  intros H0. apply in_app_or in H0 as [H0|H0]; [|now apply IH]. subst L. unfold stage_gen, EVT in H0.
  destruct (_ || _); [now apply (gen_nz k e He) in H0|]. destruct (k =? OD_6); [|destruct H0].
  destruct e; [destruct H0|now apply (gen_nz k false He) in H0].
Qed.

(* GetNextMove on a non-empty list (no fill) *)
Definition core_ne (st3 : odstate) : option (odstate * N) :=
  if negb (od_pv_fresh st3) && od_pv_pushed st3 then
    do m <- nth_error (od_moves st3) (od_take st3);
    if m =? od_pv st3 then
      let st4 := set_pushed (set_take st3 (S (od_take st3))) false in
      if (length (od_moves st4) <=? od_take st4)%nat then
        let st5 := od_fill OD_FILL_FUEL env mode false (set_moves (set_take st4 0) []) in
        match od_moves st5 with
        | [] => Some (st5, 0)
        | _ => od_take1 st5
        end
      else od_take1 st4
    else od_take1 st3
  else od_take1 st3.

Lemma core_nonempty st : od_moves st <> [] -> od_core env mode ev st = core_ne st.
Proof.
  intros H. unfold od_core, core_ne. destruct (od_moves st) eqn:E; [congruence|].
  cbv iota. rewrite E. cbv iota. reflexivity.
Qed.

Lemma core_fill st : od_moves st = [] -> od_moves (od_fill OD_FILL_FUEL env mode ev st) <> [] ->
  od_core env mode ev st = od_core env mode ev (od_fill OD_FILL_FUEL env mode ev st).
Proof.
  intros Hm Hne. unfold od_core at 1. rewrite Hm.
  remember (od_fill OD_FILL_FUEL env mode ev st) as X eqn:DX.
  unfold od_core. destruct (od_moves X) eqn:E; [congruence|]. cbv iota. rewrite E. reflexivity.
Qed.

(* the main induction: outer on the number of stages to come, inner on the rest of the
   current list *)
Lemma P_all : forall n, forall c, forall st, J st ->
  (length (path (od_stage st)) <= n)%nat -> length (cur st) = c -> P st.
Proof.
  induction n as [n IHn] using lt_wf_ind. induction c as [c IHc] using lt_wf_ind.
  intros st HJ Hn Hc.
  pose proof (norm_id st HJ) as Hnorm.
  destruct (cur st) as [|m r] eqn:Ecur.
  - (* the list is used up: fill *)
    destruct (cur_nil_J st HJ Ecur) as [Hm Ht].
    destruct (fill_spec ev OD_FILL_FUEL st) as [Ls1 [HR [HF1 [HP [HS HS']]]]];
      [unfold OD_FILL_FUEL, OD_END; lia|exact Hm|exact (J_evt st HJ)|].
    remember (od_fill OD_FILL_FUEL env mode ev st) as st3 eqn:Dst3.
    assert (Hnext : od_next env mode ev st = od_core env mode ev st) by (unfold od_next; now rewrite Hnorm).
    destruct HR as [Hpv Hsel Est3 ELs|Hnsel Hframe Hperm Hend].
    + (* the PV move was pushed: hand it out *)
      assert (Hlt : od_stage st < OD_END) by (unfold OD_PV, OD_END in *; lia).
      pose proof (next_stage_gt _ Hlt) as Hng.
      set (st8 := mkod [] (next_stage (od_stage st)) 0 (od_pv st) true false (od_killers st) (od_key st) (od_evt st)).
      assert (Hpvnz : od_pv st <> 0).
      { unfold pv_sel in Hsel. destruct (N.eqb_spec (od_pv st) 0); [discriminate|assumption]. }
      assert (Hstep : od_next env mode ev st = Some (st8, od_pv st)).
      { rewrite Hnext. unfold od_core. rewrite Hm. rewrite <- Dst3. rewrite Est3.
        cbn [od_moves od_pv_fresh od_pv_pushed negb andb]. unfold od_take1.
        cbn [od_moves od_take]. rewrite Ht. cbn [nth_error bind set_take set_fresh od_moves od_take length Nat.leb].
        unfold set_moves, set_take. cbn. reflexivity. }
      assert (HJ8 : J st8).
      { apply J_of; cbn; try reflexivity.
        - exact (J_key st HJ). - exact (J_evt st HJ). - now left. - unfold OD_PV in *. lia. - tauto. }
      assert (Hlen8 : (length (path (od_stage st8)) < n)%nat).
      { cbn [od_stage st8]. rewrite (path_step _ Hlt) in Hn. cbn [length] in Hn. lia. }
      destruct (IHn _ Hlen8 _ st8 HJ8 (Nat.le_refl _) eq_refl) as (Ls8 & st' & out8 & Hd8 & HF8 & Ho8).
      exists ([] :: Ls8), st', (od_pv st :: out8). split; [|split].
      * now apply (drain_cons st st8).
      * rewrite (path_step _ Hlt). constructor; [|exact HF8].
        left. unfold stage_gen. unfold OD_PV, OD_1, OD_2, OD_3, OD_5, OD_6, OD_7, OD_8 in *.
        repeat (match goal with |- context [od_stage st =? ?k] => replace (od_stage st =? k) with false by lia end).
        reflexivity.
      * unfold spec_out. replace (od_stage st <=? OD_PV) with true by lia. rewrite Hsel.
        exists out8. split; [reflexivity|]. cbn [concat app].
        unfold spec_out in Ho8. cbn [od_stage od_pv_fresh od_pv_pushed od_pv st8] in Ho8.
        replace (next_stage (od_stage st) <=? OD_PV) with false in Ho8 by (unfold OD_PV in *; lia).
        exact Ho8.
    + destruct (od_moves st3) as [|y l3] eqn:Em3.
      * (* nothing left: MoveNone *)
        assert (Hstep : od_next env mode ev st = Some (set_pushed (set_take st3 0) false, 0)).
        { rewrite Hnext. unfold od_core. rewrite Hm. rewrite <- Dst3. rewrite Em3. reflexivity. }
        exists Ls1, (set_pushed (set_take st3 0) false), []. split; [|split].
        -- now apply drain_end.
        -- assert (Hp3 : path (od_stage st3) = []).
           { apply path_end. exact (Hend eq_refl). }
           rewrite Hp3, app_nil_r in HP. rewrite HP. now apply (choice_of_gen ev); [right|].
        -- apply Permutation_nil in Hperm. unfold spec_out. rewrite Hperm. rewrite Ecur. cbn [app].
           destruct (od_stage st <=? OD_PV) eqn:E1.
           { rewrite Hnsel by lia. reflexivity. }
           destruct (od_pv_fresh st) eqn:Ef.
           { destruct (J_fresh st HJ Ef) as (_ & Hmv & _). rewrite Hm in Hmv. discriminate. }
           destruct (od_pv_pushed st); reflexivity.
      * (* a new list: same as calling GetNextMove on the filled state *)
        destruct Hframe as (F1 & F2 & F3 & F4 & F5 & F6 & F7).
        rewrite <- Em3 in Hperm, HS', Hend.
        assert (Hne3 : od_moves st3 <> []) by (rewrite Em3; discriminate).
        specialize (HS' Hne3).
        assert (Hfr : od_pv_fresh st = false).
        { destruct (od_pv_fresh st) eqn:Ef; [|reflexivity].
          destruct (J_fresh st HJ Ef) as (_ & Hmv & _). rewrite Hm in Hmv. discriminate. }
        assert (HJ3 : J st3).
        { apply J_of; try congruence.
          - rewrite <- F6. exact (J_key st HJ).
          - rewrite <- F7. exact (J_evt st HJ).
          - right. rewrite <- F1, Ht, Em3. cbn. lia.
          - unfold OD_PV in *. lia.
          - intros H0. apply (Permutation_in _ Hperm) in H0. exact (stage_lists_nz ev _ _ (or_intror eq_refl) HF1 H0). }
        assert (Hn3 : od_next env mode ev st = od_next env mode ev st3).
        { rewrite Hnext. unfold od_next. rewrite (norm_id st3 HJ3). rewrite Dst3.
          apply core_fill; [exact Hm|now rewrite <- Dst3]. }
        assert (Hlen3 : (length (path (od_stage st3)) < n)%nat).
        { rewrite HP in Hn. rewrite app_length in Hn.
          assert (length Ls1 <> O) by (destruct Ls1; [tauto|discriminate]).
          assert (Hl1 : length (firstn (length Ls1) (path (od_stage st))) = length Ls1).
          { apply F2_length in HF1. exact HF1. }
          lia. }
        destruct (IHn _ Hlen3 _ st3 HJ3 (Nat.le_refl _) eq_refl) as (Ls3 & st' & out & Hd3 & HF3 & Ho3).
        exists (Ls1 ++ Ls3), st', out. split; [|split].
        -- rewrite (drain_same _ _ Hn3). exact Hd3.
        -- rewrite HP. apply Forall2_app_path; [|exact HF3]. now apply (choice_of_gen ev); [right|].
        -- unfold spec_out in *. rewrite concat_app.
           replace (od_stage st3 <=? OD_PV) with false in Ho3 by (unfold OD_PV in *; lia).
           rewrite <- F4, Hfr, <- F3 in Ho3.
           assert (Hc3 : cur st3 = od_moves st3) by (unfold cur; now rewrite <- F1, Ht).
           rewrite Hc3, <- F2 in Ho3.
           assert (Hp : Permutation (od_moves st3 ++ concat Ls3) (concat Ls1 ++ concat Ls3))
             by (apply Permutation_app_tail; exact Hperm).
           destruct (od_stage st <=? OD_PV) eqn:E1.
           { rewrite Hnsel by lia. destruct (J_new st HJ ltac:(lia)) as (_ & _ & Hpp).
             rewrite Hpp in Ho3. now rewrite <- Hp. }
           rewrite Hfr. rewrite Ecur. cbn [app].
           destruct (od_pv_pushed st).
           { rewrite Ho3. now apply remove1_perm. }
           { now rewrite <- Hp. }
  - (* the list still has moves *)
    assert (Hne : od_moves st <> []).
    { intros E. unfold cur in Ecur. rewrite E in Ecur. destruct (od_take st); discriminate. }
    assert (Hsg : OD_PV < od_stage st).
    { destruct (N.leb_spec (od_stage st) OD_PV) as [H|H]; [|exact H].
      destruct (J_new st HJ H) as (Hm & _). congruence. }
    assert (Hnext : od_next env mode ev st = od_core env mode ev st) by (unfold od_next; now rewrite Hnorm).
    assert (Hcore0 : forall k, match od_moves st with [] => k | _ => st end = st).
    { intros k. destruct (od_moves st); [congruence|reflexivity]. }
    assert (Hm0 : m <> 0).
    { intros ->. apply (J_nz st HJ). apply cur_in. rewrite Ecur. now left. }
    destruct (cur_cons st m r Ecur) as (Hnth & Hskip & Hlast).
    destruct (take1_spec st m r Ecur) as (st8 & Ht8 & Hc8 & G1 & G2 & G3 & G4 & G5 & G6 & G7 & G8).
    assert (HJ8 : J st8).
    { apply J_of; try congruence.
      - rewrite G5. exact (J_key st HJ). - rewrite G6. exact (J_evt st HJ).
      - intros H0. apply (J_nz st HJ). now apply G8. }
    assert (Hlen8 : length (cur st8) = length r) by now rewrite Hc8.
    assert (Hc_lt : (length r < c)%nat) by (cbn in Hc; lia).
    (* the plain step: hand out m *)
    assert (Plain : od_next env mode ev st = Some (st8, m) ->
                    (od_pv_fresh st = false -> od_pv_pushed st = true -> m <> od_pv st) -> P st).
    { intros Hstep Hmpv.
      destruct (IHc _ Hc_lt st8 HJ8 ltac:(rewrite G1; exact Hn) Hlen8) as (Ls8 & st' & out8 & Hd8 & HF8 & Ho8).
      exists Ls8, st', (m :: out8). split; [|split].
      - now apply (drain_cons st st8).
      - rewrite <- G1. exact HF8.
      - unfold spec_out in *. rewrite G1, G2, G3, G4, Hc8 in Ho8.
        replace (od_stage st <=? OD_PV) with false in * by lia.
        destruct (od_pv_fresh st) eqn:Ef.
        + destruct (J_fresh st HJ Ef) as (Hpp & Hmv & Htk & Hpvnz).
          unfold cur in Ecur. rewrite Hmv, Htk in Ecur. cbn in Ecur. injection Ecur as <- <-.
          rewrite Hpp in Ho8. exists out8. split; [reflexivity|exact Ho8].
        + rewrite Ecur. destruct (od_pv_pushed st) eqn:Ep.
          * cbn [app remove1]. specialize (Hmpv eq_refl eq_refl).
            apply N.eqb_neq in Hmpv. rewrite Hmpv. now constructor.
          * cbn [app]. now constructor. }
    destruct (negb (od_pv_fresh st) && od_pv_pushed st) eqn:Echk.
    + apply andb_true_iff in Echk as [Ef Ep]. apply negb_true_iff in Ef.
      destruct (N.eqb_spec m (od_pv st)) as [Empv|Empv].
      * (* skip the PV move *)
        set (st4 := set_pushed (set_take st (S (od_take st))) false).
        destruct r as [|m2 r2].
        -- (* it was the last move of the list: refill with evasion = false *)
           assert (Hl : (length (od_moves st) <=? S (od_take st))%nat = true) by now apply Hlast.
           set (st4c := set_moves (set_take st4 0) []).
           destruct (fill_spec false OD_FILL_FUEL st4c) as [Ls1 [HR [HF1 [HP [HS HS']]]]];
             [unfold OD_FILL_FUEL, OD_END; lia|reflexivity|exact (J_evt st HJ)|].
           remember (od_fill OD_FILL_FUEL env mode false st4c) as st5 eqn:Dst5.
           assert (Hs4c : od_stage st4c = od_stage st) by reflexivity. rewrite Hs4c in *.
           destruct HR as [Hpv _ _ _|_ Hframe Hperm Hend]; [lia|].
           destruct Hframe as (F1 & F2 & F3 & F4 & F5 & F6 & F7).
           cbn [st4c st4 od_take od_pv od_pv_pushed od_pv_fresh od_killers od_key od_evt set_moves set_take set_pushed] in F1, F2, F3, F4, F5, F6, F7.
           assert (Hcore : od_core env mode ev st =
                           match od_moves st5 with [] => Some (st5, 0) | _ => od_take1 st5 end).
           { rewrite (core_nonempty st Hne). unfold core_ne.
             rewrite Ef, Ep. cbn [negb andb]. rewrite Hnth. cbn [bind].
             replace (m =? od_pv st) with true by (symmetry; now apply N.eqb_eq).
             cbv zeta. fold st4. cbn [od_moves od_take st4 set_pushed set_take]. rewrite Hl.
             fold st4. fold st4c. rewrite <- Dst5. reflexivity. }
           destruct (od_moves st5) as [|y l5] eqn:Em5.
           ++ (* no more moves *)
              exists Ls1, st5, []. split; [|split].
              ** apply drain_end. now rewrite Hnext, Hcore.
              ** assert (Hp5 : path (od_stage st5) = []).
                 { apply path_end. exact (Hend eq_refl). }
                 rewrite Hp5, app_nil_r in HP. rewrite HP. now apply (choice_of_gen false); [left|].
              ** apply Permutation_nil in Hperm. unfold spec_out. rewrite Hperm.
                 replace (od_stage st <=? OD_PV) with false by lia. rewrite Ef, Ep, Ecur, Empv.
                 cbn [app remove1]. rewrite N.eqb_refl. reflexivity.
           ++ (* same as calling GetNextMove on the refilled state *)
              rewrite <- Em5 in Hperm, HS', Hend.
              assert (Hne5 : od_moves st5 <> []) by (rewrite Em5; discriminate).
              specialize (HS' Hne5).
              assert (HJ5 : J st5).
              { apply J_of; try congruence.
                - rewrite <- F6. exact (J_key st HJ).
                - rewrite <- F7. exact (J_evt st HJ).
                - right. rewrite <- F1, Em5. cbn. lia.
                - lia.
                - intros H0. apply (Permutation_in _ Hperm) in H0. exact (stage_lists_nz false _ _ (or_introl eq_refl) HF1 H0). }
              assert (Hn5 : od_next env mode ev st = od_next env mode ev st5).
              { rewrite Hnext, Hcore. unfold od_next. rewrite (norm_id st5 HJ5).
                rewrite (core_nonempty st5 Hne5). unfold core_ne.
                rewrite Em5. rewrite <- F3. cbn [negb andb]. rewrite andb_false_r. reflexivity. }
              assert (Hlen5 : (length (path (od_stage st5)) < n)%nat).
              { rewrite HP in Hn. rewrite app_length in Hn.
                assert (length Ls1 <> O) by (destruct Ls1; [tauto|discriminate]).
                assert (Hl1 : length (firstn (length Ls1) (path (od_stage st))) = length Ls1).
                { apply F2_length in HF1. exact HF1. }
                lia. }
              destruct (IHn _ Hlen5 _ st5 HJ5 (Nat.le_refl _) eq_refl) as (Ls5 & st' & out & Hd5 & HF5 & Ho5).
              exists (Ls1 ++ Ls5), st', out. split; [|split].
              ** rewrite (drain_same _ _ Hn5). exact Hd5.
              ** rewrite HP. apply Forall2_app_path; [|exact HF5]. now apply (choice_of_gen false); [left|].
              ** unfold spec_out in *. rewrite concat_app.
                 replace (od_stage st5 <=? OD_PV) with false in Ho5 by lia.
                 replace (od_stage st <=? OD_PV) with false by lia.
                 rewrite <- F4, <- F3, Ef in Ho5. cbv iota in Ho5.
                 rewrite Ef, Ep, Ecur, Empv. cbn [app remove1]. rewrite N.eqb_refl.
                 assert (Hc5 : cur st5 = od_moves st5) by (unfold cur; now rewrite <- F1).
                 rewrite Hc5 in Ho5. rewrite Ho5. apply Permutation_app_tail. exact Hperm.
        -- (* more moves in the list: continue with the next one *)
           assert (Hl : (length (od_moves st) <=? S (od_take st))%nat = false).
           { destruct ((length (od_moves st) <=? S (od_take st))%nat) eqn:E; [|reflexivity].
             assert (Hr : m2 :: r2 = []) by (now apply Hlast). discriminate. }
           assert (Hcore : od_core env mode ev st = od_take1 st4).
           { rewrite (core_nonempty st Hne). unfold core_ne.
             rewrite Ef, Ep. cbn [negb andb]. rewrite Hnth. cbn [bind].
             replace (m =? od_pv st) with true by (symmetry; now apply N.eqb_eq).
             cbv zeta. fold st4. cbn [od_moves od_take st4 set_pushed set_take]. rewrite Hl. reflexivity. }
           assert (HJ4 : J st4).
           { apply J_of; cbn; try assumption.
             - exact (J_key st HJ). - exact (J_evt st HJ).
             - right. apply Nat.leb_gt in Hl. exact Hl.
             - exact (J_nz st HJ). }
           assert (Hn4 : od_next env mode ev st = od_next env mode ev st4).
           { rewrite Hnext, Hcore. unfold od_next. rewrite (norm_id st4 HJ4).
             rewrite (core_nonempty st4 Hne). unfold core_ne.
             cbn [od_pv_fresh od_pv_pushed st4 set_pushed set_take]. rewrite andb_false_r. reflexivity. }
           assert (Hc4 : cur st4 = m2 :: r2) by (unfold cur; cbn; exact Hskip).
           apply (P_same st st4 Hn4 eq_refl).
           ++ intros Ls out. unfold spec_out. cbn [od_stage od_pv_fresh od_pv_pushed od_pv st4 set_pushed set_take].
              replace (od_stage st <=? OD_PV) with false by lia. rewrite Ef, Ep, Ecur, Hc4, Empv.
              cbn [app remove1]. rewrite N.eqb_refl. auto.
           ++ apply (IHc (length (cur st4))); [rewrite Hc4; cbn in *; lia|exact HJ4|exact Hn|reflexivity].
      * (* not the PV move *)
        apply Plain; [|intros _ _; exact Empv].
        rewrite Hnext. rewrite (core_nonempty st Hne). unfold core_ne.
        rewrite Ef, Ep. cbn [negb andb]. rewrite Hnth. cbn [bind].
        replace (m =? od_pv st) with false by (symmetry; now apply N.eqb_neq). exact Ht8.
    + apply Plain.
      * rewrite Hnext. rewrite (core_nonempty st Hne). unfold core_ne.
        rewrite Echk. exact Ht8.
      * intros Ef Ep. rewrite Ef, Ep in Echk. discriminate.
Qed.

(** ** start states *)
Definition od_start_ok (st : odstate) : Prop :=
  od_key st <> e_key env \/
  (od_stage st = OD_NEW /\ od_moves st = [] /\ od_take st = O /\
   od_pv_pushed st = false /\ od_pv_fresh st = false /\ od_evt st = 0).

Lemma J_start s : od_key s = e_key env -> od_evt s = EVT -> od_moves s = [] -> od_take s = O ->
  od_pv_fresh s = false -> od_pv_pushed s = false -> J s.
Proof.
  intros H1 H2 H3 H4 H5 H6. constructor; try assumption.
  - now left.
  - congruence.
  - intros _. auto.
  - rewrite H3. intros [].
Qed.

Lemma start_J st : od_start_ok st ->
  J (od_norm env ev st) /\ od_stage (od_norm env ev st) = OD_NEW /\ od_pv (od_norm env ev st) = od_pv st.
Proof.
  intros Hs. unfold od_norm.
  destruct (N.eqb_spec (e_key env) (od_key st)) as [Ek|Ek]; cbn [negb].
  - destruct Hs as [Hs|(H1 & H2 & H3 & H4 & H5 & H6)]; [congruence|].
    rewrite H6. cbn [N.eqb]. rewrite andb_true_r.
    destruct ev eqn:Eev.
    + split; [|split; [exact H1|reflexivity]].
      apply J_start; cbn; try assumption; try congruence. unfold EVT. now rewrite Eev.
    + split; [|split; [exact H1|reflexivity]].
      apply J_start; try assumption; try congruence. unfold EVT. now rewrite Eev.
  - cbn [od_evt N.eqb]. rewrite andb_true_r.
    destruct ev eqn:Eev.
    + split; [|split; reflexivity].
      apply J_start; cbn; try reflexivity. unfold EVT. now rewrite Eev.
    + split; [|split; reflexivity].
      apply J_start; cbn; try reflexivity. unfold EVT. now rewrite Eev.
Qed.

Lemma norm_next st : od_start_ok st -> od_next env mode ev st = od_next env mode ev (od_norm env ev st).
Proof.
  intros Hs. destruct (start_J st Hs) as (HJ & _). unfold od_next. now rewrite (norm_id _ HJ).
Qed.

Theorem od_sequence : forall st, od_start_ok st ->
  exists Ls st' out,
    od_drain (S (length out)) env mode ev st = Some (st', out) /\
    Forall2 choice (path OD_NEW) Ls /\
    (if pv_sel (od_pv st)
     then exists out', out = od_pv st :: out' /\ Permutation out' (remove1 (od_pv st) (concat Ls))
     else Permutation out (concat Ls)).
Proof.
  intros st Hs. destruct (start_J st Hs) as (HJ & Hst & Hpv).
  destruct (P_all _ _ _ HJ (Nat.le_refl _) eq_refl) as (Ls & st' & out & Hd & HF & Ho).
  exists Ls, st', out. split; [|split].
  - rewrite (drain_same _ _ (norm_next st Hs)). exact Hd.
  - now rewrite Hst in HF.
  - unfold spec_out in Ho. rewrite Hst, Hpv in Ho. exact Ho.
Qed.

(** ** corollaries *)
(* the batch list: the stages in order, all with the same evasion flag *)
Definition od_batch (e : bool) : list N := concat (map (stage_gen e) (path OD_NEW)).

Lemma Forall2_eq_map {A B} (f : A -> B) l Ls : Forall2 (fun k L => L = f k) l Ls -> Ls = map f l.
Proof. induction 1 as [|k L l Ls H _ IH]; cbn [map]; [reflexivity|]. now rewrite H, IH. Qed.

End OD.

Section OD_noevasion.
Variable env : odenv.
Variable mode : N.
Hypothesis sort_perm : forall st l, Permutation (e_sort env st l) l.
Hypothesis gen_nz : forall k, ~ In 0 (e_gen env k false 0).

Theorem od_sequence_noevasion : forall st, od_start_ok env st ->
  let batch := od_batch env mode false false in
  let pv := od_pv st in
  exists st' out,
    od_drain (S (length out)) env mode false st = Some (st', out) /\
    (if pv_sel env mode pv
     then exists out', out = pv :: out' /\ Permutation out' (remove1 pv batch)
     else Permutation out batch) /\
    (* consequences *)
    (pv_sel env mode pv = true -> In pv batch -> Permutation out batch /\ hd 0 out = pv) /\
    (NoDup batch -> (pv_sel env mode pv = true -> In pv batch) -> NoDup out).
Proof.
  intros st Hs batch pv.
  assert (Hnz : forall k e, e = false \/ e = false -> ~ In 0 (e_gen env k e 0))
    by (intros k e [-> | ->]; apply gen_nz).
  destruct (od_sequence env mode false sort_perm Hnz st Hs) as (Ls & st' & out & Hd & HF & Ho).
  assert (HLs : Ls = map (stage_gen env false false) (path mode OD_NEW)).
  { apply Forall2_eq_map. clear - HF. induction HF as [|k L l Ls H _ IH]; constructor; [|exact IH].
    destruct H as [H|H]; exact H. }
  assert (Hc : concat Ls = batch) by (subst Ls; reflexivity).
  rewrite Hc in Ho. fold pv in Ho.
  exists st', out. split; [exact Hd|]. split; [exact Ho|]. split.
  - intros Hsel Hin. rewrite Hsel in Ho. destruct Ho as (out' & -> & Hp). split; [|reflexivity].
    rewrite Hp. now apply remove1_in_perm.
  - intros Hnd Himp. destruct (pv_sel env mode pv) eqn:Hsel.
    + destruct Ho as (out' & -> & Hp). specialize (Himp eq_refl).
      apply (Permutation_NoDup (l := batch)); [|exact Hnd].
      rewrite Hp. symmetry. now apply remove1_in_perm.
    + apply (Permutation_NoDup (l := batch)); [now symmetry|exact Hnd].
Qed.

End OD_noevasion.

Section OD_evasion.
Variable env : odenv.
Variable mode : N.
Hypothesis sort_perm : forall st l, Permutation (e_sort env st l) l.
Hypothesis gen_nz : forall k e, ~ In 0 (e_gen env k e (e_evt env)).
(* evasion generation of a stage yields a duplicate free part of the non evasion list *)
Hypothesis ev_incl : forall k x, In x (stage_gen env true true k) -> In x (stage_gen env true false k).
Hypothesis ev_nodup : forall k, NoDup (stage_gen env true true k).
Hypothesis batch_nodup : NoDup (od_batch env mode true false).

Lemma mix_facts : forall l Ls, Forall2 (choice env true) l Ls ->
  NoDup (concat (map (stage_gen env true false) l)) ->
  NoDup (concat Ls) /\
  (forall x, In x (concat Ls) -> In x (concat (map (stage_gen env true false) l))) /\
  (forall x, In x (concat (map (stage_gen env true true) l)) -> In x (concat Ls)).
Proof.
  induction 1 as [|k L l Ls HL _ IH]; cbn [map concat]; intros Hnd.
  - repeat split; auto; constructor.
  - pose proof (nodup_app_r _ _ Hnd) as Hnd2. destruct (IH Hnd2) as (I1 & I2 & I3).
    assert (HLin : forall x, In x L -> In x (stage_gen env true false k)).
    { intros x Hx. destruct HL as [-> | ->]; [exact Hx|now apply ev_incl]. }
    assert (HLnd : NoDup L).
    { destruct HL as [-> | ->]; [|apply ev_nodup]. now apply nodup_app_l in Hnd. }
    repeat split.
    + apply nodup_app; [exact HLnd|exact I1|].
      intros x Hx1 Hx2. apply HLin in Hx1. apply I2 in Hx2.
      clear - Hnd Hx1 Hx2. induction (stage_gen env true false k) as [|y g IHg]; [destruct Hx1|].
      cbn [app] in Hnd. inversion Hnd as [|? ? Hy Hnd']; subst. destruct Hx1 as [->|Hx1].
      * apply Hy. apply in_or_app. now right.
      * now apply IHg.
    + intros x Hx. apply in_app_or in Hx as [Hx|Hx]; apply in_or_app; [left; now apply HLin|right; now apply I2].
    + intros x Hx. apply in_app_or in Hx as [Hx|Hx]; apply in_or_app; [left|right; now apply I3].
      destruct HL as [-> | ->]; [now apply ev_incl|exact Hx].
Qed.

Theorem od_sequence_evasion : forall st, od_start_ok env st ->
  let pv := od_pv st in
  exists st' out,
    od_drain (S (length out)) env mode true st = Some (st', out) /\
    (* every move handed out is the PV move or a non evasion batch move *)
    (forall x, In x out -> (pv_sel env mode pv = true /\ x = pv) \/ In x (od_batch env mode true false)) /\
    (* every evasion batch move is handed out *)
    (forall x, In x (od_batch env mode true true) -> In x out) /\
    (* first the PV move, if selected *)
    (pv_sel env mode pv = true -> hd 0 out = pv) /\
    (* nothing twice, unless the PV move is an alien *)
    ((pv_sel env mode pv = true -> In pv (od_batch env mode true true)) -> NoDup out).
Proof.
  intros st Hs pv.
  assert (Hnz : forall k e, e = false \/ e = true -> ~ In 0 (e_gen env k e (e_evt env)))
    by (intros k e _; apply gen_nz).
  destruct (od_sequence env mode true sort_perm Hnz st Hs) as (Ls & st' & out & Hd & HF & Ho).
  destruct (mix_facts _ _ HF batch_nodup) as (M1 & M2 & M3). fold pv in Ho.
  exists st', out. split; [exact Hd|].
  destruct (pv_sel env mode pv) eqn:Hsel.
  - destruct Ho as (out' & -> & Hp). repeat split.
    + intros x [<-|Hx]; [left; now split|right]. apply M2. apply (Permutation_in _ Hp) in Hx.
      now apply remove1_incl in Hx.
    + intros x Hx. destruct (N.eq_dec x pv) as [->|Hne]; [now left|right].
      apply (Permutation_in _ (Permutation_sym Hp)). apply remove1_other; [exact Hne|now apply M3].
    + intros Himp. specialize (Himp eq_refl). apply M3 in Himp.
      apply (Permutation_NoDup (l := concat Ls)); [|exact M1].
      rewrite Hp. symmetry. now apply remove1_in_perm.
  - repeat split.
    + intros x Hx. right. apply M2. now apply (Permutation_in _ Ho).
    + intros x Hx. apply (Permutation_in _ (Permutation_sym Ho)). now apply M3.
    + discriminate.
    + intros _. apply (Permutation_NoDup (l := concat Ls)); [now symmetry|exact M1].
Qed.

End OD_evasion.

Print Assumptions go_sort_perm.
Print Assumptions od_sequence.
Print Assumptions od_sequence_noevasion.
Print Assumptions od_sequence_evasion.
