(** * CacheModel — control-flow model of the opening-book cache (property C20), with its theorems

    Transcribes Initialize / initialize / loadFromCache / saveToCache of
    /repo/internal/openingbook/openingbook.go (the CURRENT code: bookLock is released before the
    error return of loadFromCache, openingbook.go:630-635).

    What is modelled
    - the package-level mutex [bookLock] as a boolean (true = held).  sync.Mutex is not
      re-entrant: Lock on a held mutex blocks forever, which is the outcome [Hang];
    - the Book fields bookMap (None = nil map) and initialized;
    - the cache file "<book file>.cache" by its state: [Missing], [Good m] (a complete gob stream
      of the map m) or [Bad j] (anything Decode fails on; j = what the failed Decode has left in
      b.bookMap — gob decodes into the existing map, so this is arbitrary);
    - the source file by [src_ok] (os.Stat / readFile succeed) and the book [build] that
      processing its lines produces in this run (BookModel/BookProofs: positions and counters of
      [build] do not depend on the goroutine schedule; the placement of edges to transposed
      positions does, so "the book built from the source file" is the outcome of the build that
      actually ran);
    - file-system faults of the save: os.Create fails / the write inside Encode fails.
    gob itself is NOT modelled; the link from bytes to cache states is Section [Codec] below with
    the two stated assumptions [codec_roundtrip] and [prefix_undecodable]. *)

From Coq Require Import NArith List Bool.
From stdpp Require Import base option fin_maps nmap.
From FG Require Import BookModel.
Import ListNotations.

Local Open Scope N_scope.

(* ------------------------------------------------------------------------- *)
(** ** State *)

Inductive cfile :=
| Missing
| Good (m : book)
| Bad (j : option book).

Record st := St {
  lock : bool;                (* bookLock held *)
  bmap : option book;         (* b.bookMap; None = nil *)
  initialized : bool;         (* b.initialized *)
  cache : cfile               (* the cache file *)
}.

Inductive outcome (A : Type) :=
| Done (a : A)
| Hang                        (* blocked forever in bookLock.Lock() *)
| Panic (lock_held : bool).   (* panic(err), with the state of bookLock at that moment *)
Arguments Done {A} a.
Arguments Hang {A}.
Arguments Panic {A} lock_held.

Definition bind {A B} (o : outcome A) (f : A -> outcome B) : outcome B :=
  match o with Done a => f a | Hang => Hang | Panic l => Panic l end.

(** gob decodes a map value INTO the destination: a nil map is allocated, an existing map keeps
    its other keys, decoded keys are overwritten (encoding/gob decodeMap: value.SetMapIndex) *)
Definition gob_into (cur : option book) (m : book) : book :=
  match cur with None => m | Some old => m ∪ old end.

Definition do_lock (s : st) : outcome st :=
  if lock s then Hang else Done (St true (bmap s) (initialized s) (cache s)).
Definition do_unlock (s : st) : st := St false (bmap s) (initialized s) (cache s).

(* ------------------------------------------------------------------------- *)
(** ** loadFromCache  (openingbook.go:614-643) — returns (state, hasCache, err != nil) *)

Definition loadFromCache (s : st) : outcome (st * bool * bool) :=
  match cache s with
  | Missing => Done (s, false, true)                       (* :620-623 os.Open fails *)
  | Good m =>
    bind (do_lock s) (fun s1 =>                            (* :630 *)
      let s2 := St (lock s1) (Some (gob_into (bmap s1) m)) (initialized s1) (cache s1) in (* :631 *)
      let s3 := do_unlock s2 in                            (* :632 *)
      Done (s3, true, false))                              (* :638-642 *)
  | Bad j =>
    bind (do_lock s) (fun s1 =>                            (* :630 *)
      let s2 := St (lock s1) j (initialized s1) (cache s1) in   (* :631 Decode fails, leaves j *)
      let s3 := do_unlock s2 in                            (* :632 unlock BEFORE the error return *)
      Done (s3, false, true))                              (* :633-635 *)
  end.

(** the code before the repair: [defer]-less unlock placed behind the error return *)
Definition loadFromCache_old (s : st) : outcome (st * bool * bool) :=
  match cache s with
  | Missing => Done (s, false, true)
  | Good m =>
    bind (do_lock s) (fun s1 =>
      Done (do_unlock (St (lock s1) (Some (gob_into (bmap s1) m)) (initialized s1) (cache s1)), true, false))
  | Bad j =>
    bind (do_lock s) (fun s1 =>
      Done (St (lock s1) j (initialized s1) (cache s1), false, true))   (* returns with the lock held *)
  end.

(* ------------------------------------------------------------------------- *)
(** ** saveToCache  (openingbook.go:645-673) — returns (state, err != nil) *)

Record faults := Faults { create_fails : bool; write_fails : bool }.
Definition no_faults := Faults false false.

Definition saveToCache (f : faults) (s : st) : outcome (st * bool) :=
  if create_fails f then Done (s, true)                    (* :650-653 *)
  else
    (* os.Create has truncated the file: until Encode has finished the file holds a strict
       prefix of the stream — every crash point leaves a [Bad] cache *)
    let s0 := St (lock s) (bmap s) (initialized s) (Bad None) in
    bind (do_lock s0) (fun s1 =>                           (* :658 *)
      if write_fails f then Panic true                     (* :659-661 panic(err), lock held *)
      else
        let m := match bmap s1 with Some m => m | None => ∅ end in
        let s2 := St (lock s1) (bmap s1) (initialized s1) (Good m) in
        Done (do_unlock s2, false)).                       (* :662-672 *)

(* ------------------------------------------------------------------------- *)
(** ** initialize / Initialize  (openingbook.go:128-229) *)

Section Init.
  Variable build : book.          (* result of b.process(lines, format) in this run *)
  Variable nlines : nat.          (* number of lines/games: each goroutine takes bookLock *)
  Variable load : st -> outcome (st * bool * bool).   (* loadFromCache or loadFromCache_old *)

  (* process (:198): every line takes and releases bookLock at least once (:348-356 / :528-536);
     with no lines the lock is not touched *)
  Definition process (s : st) : outcome st :=
    match nlines with
    | O => Done (St (lock s) (Some build) (initialized s) (cache s))
    | S _ => bind (do_lock s) (fun s1 =>
               Done (do_unlock (St (lock s1) (Some build) (initialized s1) (cache s1))))
    end.

  (** returns (state, err != nil) *)
  Definition initialize (f : faults) (src_ok useCache recreateCache : bool) (s : st)
    : outcome (st * bool) :=
    if negb src_ok then Done (s, true)                     (* :148-151 os.Stat, :175-179 readFile *)
    else
      let after_load : outcome (st * bool) :=              (* (state, return now) *)
        if useCache && negb recreateCache then             (* :156 *)
          bind (load s) (fun r =>
            let '(s1, hasCache, _) := r in                 (* :158-162 err is only logged *)
            Done (s1, hasCache))                           (* :163-167 *)
        else Done (s, false) in
      bind after_load (fun r =>
        let '(s1, ret) := r in
        if ret then Done (s1, false)                       (* :166 return nil — initialized NOT set *)
        else
          (* :186-188 fresh map with the root entry, then :198 process *)
          bind (process (St (lock s1) None (initialized s1) (cache s1))) (fun s2 =>
            let after_save : outcome st :=
              if useCache then                             (* :214 *)
                bind (saveToCache f s2) (fun r2 => Done (fst r2))   (* :217-220 err only logged *)
              else Done s2 in
            bind after_save (fun s3 =>
              Done (St (lock s3) (bmap s3) true (cache s3), false)))).   (* :227-228 *)

  Definition Initialize (f : faults) (src_ok useCache recreateCache : bool) (s : st)
    : outcome (st * bool) :=
    if initialized s then Done (s, false)                  (* :129-131 *)
    else initialize f src_ok useCache recreateCache s.
End Init.

(* Reset (openingbook.go:247-251) *)
Definition Reset (s : st) : st := St (lock s) (Some ∅) false (cache s).

(* ========================================================================= *)
(** * Theorems *)

Definition fresh (c : cfile) : st := St false None false c.     (* NewBook() in a process where the lock is free *)

Lemma gob_into_none m : gob_into None m = m.
Proof. reflexivity. Qed.
Lemma gob_into_empty (m : book) : gob_into (Some ∅) m = m.
Proof. unfold gob_into. apply (right_id_L ∅ (∪)). Qed.
Lemma gob_into_same (m : book) : gob_into (Some m) m = m.
Proof. unfold gob_into. apply (idemp_L (∪)). Qed.
Global Arguments gob_into : simpl never.

(** ** cache_roundtrip: what saveToCache writes, loadFromCache reads back — into a new Book, into
    a Reset() Book, and on top of the same book *)
Theorem cache_roundtrip (m : book) (s : st) :
  lock s = false -> bmap s = Some m ->
  exists s1, saveToCache no_faults s = Done (s1, false) /\ cache s1 = Good m /\ lock s1 = false /\
  (forall s2, lock s2 = false -> cache s2 = cache s1 ->
     (bmap s2 = None \/ bmap s2 = Some ∅ \/ bmap s2 = Some m) ->
     exists s3, loadFromCache s2 = Done (s3, true, false) /\ bmap s3 = Some m /\ lock s3 = false /\
                cache s3 = Good m).
Proof.
  intros Hl Hm. destruct s as [l bm ini c]. simpl in *. subst.
  eexists. split; [reflexivity|]. simpl. repeat split.
  intros [l2 bm2 ini2 c2] Hl2 Hc2 Hb2. cbn [lock cache bmap] in *. subst.
  exists (St false (Some (gob_into bm2 m)) ini2 (Good m)).
  split; [reflexivity|]. split; [|split; reflexivity]. cbn [bmap]. f_equal.
  destruct Hb2 as [->|[->| ->]]; [apply gob_into_none | apply gob_into_empty | apply gob_into_same].
Qed.

(** ** lock_released_on_every_path: whatever the arguments, cache state and faults, if the lock is
    free before Initialize then Initialize does not hang, and when it returns the lock is free *)
Theorem lock_released_on_every_path build nlines f src_ok useCache recreate (s : st) :
  lock s = false ->
  match Initialize build nlines loadFromCache f src_ok useCache recreate s with
  | Done (s', _) => lock s' = false
  | Hang => False
  | Panic held => write_fails f = true /\ held = true     (* only the write fault of the save *)
  end.
Proof.
  intros Hl. destruct s as [l bm ini c]. simpl in Hl. subst l.
  unfold Initialize, initialize. cbn [initialized].
  destruct ini; [reflexivity|].
  destruct src_ok; [|reflexivity]. cbn [negb].
  destruct f as [cf wf].
  destruct useCache, recreate, c as [|m|j], nlines as [|n], cf, wf; cbn; auto.
Qed.

(** ** cache_any_state.  Source present, no write faults, lock free, a new Book.
    Whatever the cache file is — missing, undecodable (every truncation, see Section Codec), or
    the complete cache of this book — Initialize returns nil, the lock is free, the book is
    [build]; with useCache the cache file afterwards is the complete cache of [build]. *)
Definition cache_state_ok (build : book) (c : cfile) : Prop :=
  c = Missing \/ (exists j, c = Bad j) \/ c = Good build.

Theorem cache_any_state build nlines useCache recreate (c : cfile) :
  cache_state_ok build c ->
  exists s', Initialize build nlines loadFromCache no_faults true useCache recreate (fresh c)
             = Done (s', false) /\
             lock s' = false /\ bmap s' = Some build /\
             (useCache = true -> cache s' = Good build) /\
             (useCache = false -> cache s' = c).
Proof.
  intros [->|[[j ->]| ->]]; destruct useCache, recreate, nlines as [|n]; cbn;
    eexists; (split; [reflexivity|]); cbn; repeat split; auto; discriminate.
Qed.

(** the same for a Book that was Reset() or already holds this book (second Initialize after a
    cache hit: [initialized] is still false, the cache is read again on top of the same map) *)
Theorem cache_any_state_again build nlines useCache recreate (c : cfile) (prior : option book) :
  cache_state_ok build c ->
  prior = None \/ prior = Some ∅ \/ prior = Some build ->
  exists s', Initialize build nlines loadFromCache no_faults true useCache recreate
               (St false prior false c) = Done (s', false) /\
             lock s' = false /\ bmap s' = Some build.
Proof.
  intros Hc Hp.
  assert (Hg : gob_into prior build = build).
  { destruct Hp as [->|[->| ->]]; [apply gob_into_none | apply gob_into_empty | apply gob_into_same]. }
  destruct Hc as [->|[[j ->]| ->]]; destruct useCache, recreate, nlines as [|n]; cbn;
    eexists; (split; [reflexivity|]); cbn; repeat split; auto; now rewrite ?Hg.
Qed.

(** two consecutive Initialize calls in one process, the first one meeting a damaged cache: the
    first rebuilds and repairs the cache and sets [initialized]; the second is a no-op *)
Theorem two_inits_after_failed_load build nlines (j : option book) :
  exists s1, Initialize build nlines loadFromCache no_faults true true false (fresh (Bad j)) = Done (s1, false) /\
             initialized s1 = true /\ cache s1 = Good build /\ lock s1 = false /\ bmap s1 = Some build /\
             Initialize build nlines loadFromCache no_faults true true false s1 = Done (s1, false).
Proof. destruct nlines; cbn; eexists; repeat split. Qed.

(** after a cache HIT [initialized] stays false (openingbook.go:166 returns before :227), so a
    second Initialize is not ignored: it reads the cache again *)
Theorem initialized_not_set_after_cache_hit build nlines :
  exists s1, Initialize build nlines loadFromCache no_faults true true false (fresh (Good build)) = Done (s1, false) /\
             initialized s1 = false /\ bmap s1 = Some build.
Proof. cbn. eexists. repeat split. Qed.

(** consequence: if the Book already holds a DIFFERENT book (no Reset in between), a cache hit
    MERGES: the result is the union, not the cached book *)
Example cache_hit_merges_into_existing_map :
  let a : book := {[ 1 := Entry 5 [] ]} in
  let b : book := {[ 2 := Entry 7 [] ]} in
  exists s1, Initialize b 1 loadFromCache no_faults true true false (St false (Some a) false (Good b)) = Done (s1, false) /\
             bmap s1 = Some ({[ 2 := Entry 7 [] ]} ∪ {[ 1 := Entry 5 [] ]}) /\ bmap s1 <> Some b.
Proof.
  cbn. eexists. split; [reflexivity|]. split; [reflexivity|]. intros H.
  apply (f_equal (fun o : option book => match o with Some m => m !! 1 | None => None end)) in H.
  vm_compute in H. discriminate.
Qed.

(** a decodable but stale or damaged-yet-decodable cache is trusted as it is: there is no check
    against the source (outside the property, which speaks of undecodable files) *)
Example stale_cache_is_trusted :
  let old : book := {[ 1 := Entry 5 [] ]} in
  let new : book := {[ 1 := Entry 6 [] ]} in
  exists s1, Initialize new 1 loadFromCache no_faults true true false (fresh (Good old)) = Done (s1, false) /\
             bmap s1 = Some old.
Proof. cbn. eexists. split; reflexivity. Qed.

(** ** cache_refuted_old: with the unlock behind the error return, an undecodable cache makes the
    very same Initialize hang (in process() when the source has a line, else in saveToCache) *)
Theorem cache_refuted_old : exists build nlines c,
  Initialize build nlines loadFromCache_old no_faults true true false (fresh c) = Hang.
Proof. exists ∅, 1%nat, (Bad None). reflexivity. Qed.

Theorem cache_refuted_old_all build nlines (j : option book) :
  Initialize build nlines loadFromCache_old no_faults true true false (fresh (Bad j)) = Hang.
Proof. destruct nlines; reflexivity. Qed.

(** remaining weakness of the CURRENT code: a write error inside Encode (disk full) is answered
    with panic(err) while bookLock is held *)
Theorem save_write_error_panics build nlines (c : cfile) :
  cache_state_ok build c -> c <> Good build ->
  Initialize build nlines loadFromCache (Faults false true) true true false (fresh c) = Panic true.
Proof.
  intros [->|[[j ->]| ->]] Hne; try congruence; destruct nlines; reflexivity.
Qed.

(** os.Create failing is only logged: the book is still the built one, the cache stays as it was *)
Theorem save_create_error_is_logged build nlines (c : cfile) :
  c = Missing \/ (exists j, c = Bad j) ->
  exists s', Initialize build nlines loadFromCache (Faults true false) true true false (fresh c) = Done (s', false) /\
             bmap s' = Some build /\ lock s' = false /\ cache s' = c.
Proof. intros [->|[j ->]]; destruct nlines; cbn; eexists; repeat split. Qed.

(** source missing/unreadable: error returned, nothing touched, not initialized *)
Theorem source_missing build nlines f useCache recreate (s : st) :
  initialized s = false ->
  Initialize build nlines loadFromCache f false useCache recreate s = Done (s, true).
Proof. intros H. unfold Initialize. now rewrite H. Qed.

(* ========================================================================= *)
(** ** From bytes to cache states: the codec assumptions *)

Section Codec.
  (** [decode bytes cur] = (b.bookMap after gob.Decode(&b.bookMap), success) *)
  Variable encode : book -> list N.
  Variable decode : list N -> option book -> option book * bool.

  (** ASSUMPTION 1 (gob is a faithful codec for map[uint64]BookEntry): decoding a complete
      stream succeeds and stores exactly the encoded entries into the destination map *)
  Hypothesis codec_roundtrip : forall m cur, decode (encode m) cur = (Some (gob_into cur m), true).
  (** ASSUMPTION 2 (a gob stream is a sequence of length-prefixed messages; Decode needs the type
      messages and the ONE complete value message, io.ReadFull fails otherwise): no strict prefix
      of a stream decodes *)
  Hypothesis prefix_undecodable : forall m n cur,
    (n < length (encode m))%nat -> snd (decode (firstn n (encode m)) cur) = false.

  (** the state of a cache file with the given content, seen from a Book whose map is [cur] *)
  Definition file_state (content : option (list N)) (cur : option book) : cfile :=
    match content with
    | None => Missing
    | Some bytes => let '(cur', ok) := decode bytes cur in
                    if ok then match cur' with Some m => Good m | None => Bad None end else Bad cur'
    end.

  (** every crash point of the save (every strict prefix, including the empty file) is [Bad] *)
  Lemma truncated_is_bad m n cur :
    (n < length (encode m))%nat -> exists j, file_state (Some (firstn n (encode m))) cur = Bad j.
  Proof.
    intros H. unfold file_state. pose proof (prefix_undecodable m n cur H) as Hd.
    destruct (decode (firstn n (encode m)) cur) as [c ok]. simpl in Hd. subst ok. eauto.
  Qed.

  Lemma complete_is_good m : file_state (Some (encode m)) None = Good m.
  Proof. unfold file_state. now rewrite codec_roundtrip. Qed.

  (** C20 in terms of file contents: the cache file missing, or truncated at ANY byte, or complete *)
  Theorem cache_any_content build nlines (content : option (list N)) :
    content = None \/
    (exists n, (n < length (encode build))%nat /\ content = Some (firstn n (encode build))) \/
    content = Some (encode build) ->
    exists s', Initialize build nlines loadFromCache no_faults true true false
                 (fresh (file_state content None)) = Done (s', false) /\
               lock s' = false /\ bmap s' = Some build /\ cache s' = Good build.
  Proof.
    intros H.
    assert (Hc : cache_state_ok build (file_state content None)).
    { destruct H as [->|[(n & Hn & ->)| ->]].
      - now left.
      - right; left. now apply truncated_is_bad.
      - right; right. apply complete_is_good. }
    destruct (cache_any_state build nlines true false _ Hc) as (s' & H1 & H2 & H3 & H4 & _).
    exists s'. auto.
  Qed.
End Codec.

(* ========================================================================= *)
(** ** Executable checker for the correspondence run

    [cache_case_ok kind nlines useCache recreate prior observed]
    - [kind]     : state of the cache file before the call: 0 missing, 1 undecodable (truncated,
                   empty or corrupted so that Decode fails), 2 the complete cache of the book;
    - [nlines]   : number of lines of the source file;
    - [prior]    : 0 new Book (nil map), 1 Book after Reset(), 2 Book already holding the book;
    - [observed] : (returned, no_error, lock_free_after, book_equals_build, cache_complete_after)
                   as measured on the real package under a watchdog (returned = false: timeout).
    The model is run on a one-entry book. *)
Global Instance entry_eq_dec : EqDecision entry.
Proof. solve_decision. Defined.
Definition tiny : book := {[ 1 := Entry 1 [] ]}.
Definition obs := (bool * bool * bool * bool * bool)%type.
Definition book_eqb (a : option book) : bool :=
  match a with Some m => bool_decide (m = tiny) | None => false end.
Definition cache_case_ok (kind : N) (nlines : nat) (useCache recreate : bool) (prior : N) (o : obs) : bool :=
  let c := match kind with 0 => Missing | 1 => Bad None | _ => Good tiny end in
  let p := match prior with 0 => None | 1 => Some ∅ | _ => Some tiny end in
  let '(returned, noerr, lockfree, eqbuild, cachegood) := o in
  match Initialize tiny nlines loadFromCache no_faults true useCache recreate (St false p false c) with
  | Done (s', err) =>
      returned && eqb noerr (negb err) && eqb lockfree (negb (lock s')) &&
      eqb eqbuild (book_eqb (bmap s')) &&
      eqb cachegood (match cache s' with Good m => bool_decide (m = tiny) | _ => false end)
  | _ => negb returned
  end.

Example cache_case_ok_ex :
  cache_case_ok 1 3 true false 0 (true, true, true, true, true) = true /\
  cache_case_ok 1 3 true false 0 (false, false, false, false, false) = false /\
  cache_case_ok 0 3 false false 0 (true, true, true, true, false) = true.
Proof. repeat split; vm_compute; reflexivity. Qed.

Print Assumptions cache_roundtrip.
Print Assumptions lock_released_on_every_path.
Print Assumptions cache_any_state.
Print Assumptions cache_any_state_again.
Print Assumptions two_inits_after_failed_load.
Print Assumptions cache_refuted_old.
Print Assumptions save_write_error_panics.
Print Assumptions cache_any_content.
