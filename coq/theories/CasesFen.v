(** * CasesFen: evaluation helper for the C16 correspondence run (FEN reader/writer). *)
From Coq Require Import NArith List Bool String.
From FG Require Import CasesLib FenImpl.
Import ListNotations.

Definition fen_case (c : list N * N * string) : bool :=
  let '(s, obs, out) := c in fen_case_ok s obs (str_of_string out).
Fixpoint mismf (i : nat) (l : list (list N * N * string)) : list nat :=
  match l with [] => [] | c :: r => (if fen_case c then [] else [i]) ++ mismf (S i) r end.
Definition fen_mismatches := mismf 0.
