(** * CasesMovegen: evaluation helper for the C01 / C08 correspondence run (move generator model). *)
From Coq Require Import NArith ZArith List Bool String.
From FG Require Import CasesLib MovegenImpl.
Import ListNotations.

(* batch generation: (fen, mode, evasion, UsePromNonQuiet, observed move codes sorted ascending) *)
Definition gen_case (c : string * N * bool * bool * list N) : bool :=
  let '(fen, mode, ev, pnq, obs) := c in gen_case_ok (str_of_string fen) mode ev pnq obs.
(* HasLegalMove: (fen, observed) *)
Definition hlm_case (c : string * bool) : bool :=
  let '(fen, obs) := c in has_legal_case_ok (str_of_string fen) obs.
(* on-demand drain: (fen, p.GamePhase(), mode, evasion, UsePromNonQuiet, pv, killer0, killer1, the moves in the order delivered) *)
Definition od_case (c : string * Z * N * bool * bool * (N * N * N) * list N) : bool :=
  let '(fen, gp, mode, ev, pnq, (pv, k0, k1), obs) := c in
  od_case_gp_ok (str_of_string fen) gp mode ev pnq pv k0 k1 obs.

Fixpoint mism {A} (f : A -> bool) (i : nat) (l : list A) : list nat :=
  match l with [] => [] | c :: r => (if f c then [] else [i]) ++ mism f (S i) r end.
Definition gen_mismatches := mism gen_case 0.
Definition hlm_mismatches := mism hlm_case 0.
Definition od_mismatches := mism od_case 0.
