(** * Rules: the rules of chess on a mailbox board — the specification side of
    C01, C02, C08, C09, C10, C17.  Written from the laws of chess, shares nothing with
    the engine's bitboard code; small enough to be read in minutes.  Executable
    (extracted to OCaml for the differential oracle, evaluated byc vm_compute in proofs). *)
From Coq Require Import NArith ZArith List Bool.
From FG Require Import Geom.
Import ListNotations.
Open Scope N_scope.

(** ** Pieces, colours.  Codes follow the engine's public numbering so that observations
    compare without translation: 0 none; 1 K 2 P 3 N 4 B 5 R 6 Q; +8 for Black. *)
Definition KING := 1. Definition PAWN := 2. Definition KNIGHT := 3.
Definition BISHOP := 4. Definition ROOK := 5. Definition QUEEN := 6.
Definition WHITE := 0. Definition BLACK := 1.

Definition mk_piece (c t : N) : N := 8 * c + t.
Definition colour_of (pc : N) : N := pc / 8.
Definition type_of (pc : N) : N := pc mod 8.
Definition flip (c : N) : N := 1 - c.

Record pos := mkpos {
  brd : list N;      (* 64 piece codes, a1 = 0 ... h8 = 63 *)
  stm : N;           (* side to move *)
  cr  : N;           (* castling rights: bit0 K, bit1 Q, bit2 k, bit3 q *)
  ep  : N;           (* en-passant target square, 64 = none *)
  hmc : N;           (* half-move clock *)
  fmn : N            (* full-move number *)
}.

Definition at_ (b : list N) (s : N) : N := nth (N.to_nat s) b 0.
Definition piece_at (p : pos) (s : N) : N := at_ (brd p) s.

Fixpoint set_nth (l : list N) (n : nat) (v : N) : list N :=
  match l, n with
  | [], _ => []
  | _ :: t, O => v :: t
  | h :: t, S k => h :: set_nth t k v
  end.
Definition put (b : list N) (s v : N) : list N := set_nth b (N.to_nat s) v.

(* walk along direction d from s over the board: the squares passed, up to and
   including the first occupied one *)
Fixpoint walkb (fuel : nat) (b : list N) (d : dir) (s : N) : list N :=
  match fuel with
  | O => []
  | S k => match step d s with
           | None => []
           | Some t => t :: (if at_ b t =? 0 then walkb k b d t else [])
           end
  end.
Definition rays_from (b : list N) (dirs : list dir) (s : N) : list N :=
  concat (map (fun d => walkb 7 b d s) dirs).

Definition is_piece (b : list N) (s c t : N) : bool := at_ b s =? mk_piece c t.

(** ** Attacks: is square [s] attacked byc a piece of colour [byc]? *)
Definition slider_hits (b : list N) (s byc : N) (dirs : list dir) (t1 t2 : N) : bool :=
  existsb (fun d => let e := last (walkb 7 b d s) 64 in
                    (e <? 64) && (is_piece b e byc t1 || is_piece b e byc t2)) dirs.

Definition attacked (b : list N) (s byc : N) : bool :=
  existsb (fun t => is_piece b t byc PAWN) (pawn_attack_targets (flip byc) s)
  || existsb (fun t => is_piece b t byc KNIGHT) (knight_targets s)
  || existsb (fun t => is_piece b t byc KING) (king_targets s)
  || slider_hits b s byc rook_dirs ROOK QUEEN
  || slider_hits b s byc bishop_dirs BISHOP QUEEN.

(* the list of squares holding a piece of colour [byc] that attacks [s] *)
Definition attackers (b : list N) (s byc : N) : list N :=
  filter (fun t =>
    let pc := at_ b t in
    (negb (pc =? 0)) && (colour_of pc =? byc) &&
    (let ty := type_of pc in
     if ty =? PAWN then existsb (N.eqb s) (pawn_attack_targets byc t)
     else if ty =? KNIGHT then existsb (N.eqb s) (knight_targets t)
     else if ty =? KING then existsb (N.eqb s) (king_targets t)
     else if ty =? ROOK then existsb (N.eqb s) (rays_from b rook_dirs t)
     else if ty =? BISHOP then existsb (N.eqb s) (rays_from b bishop_dirs t)
     else if ty =? QUEEN then existsb (N.eqb s) (rays_from b all_dirs t)
     else false)) squares64.

Definition king_sq (b : list N) (c : N) : N :=
  match filter (fun s => is_piece b s c KING) squares64 with
  | s :: _ => s
  | [] => 64
  end.

Definition in_check_b (b : list N) (c : N) : bool := attacked b (king_sq b c) (flip c).
Definition in_check (p : pos) : bool := in_check_b (brd p) (stm p).

(** ** Moves.  [mtype]: 0 normal, 1 promotion, 2 en passant, 3 castling; [prom] is the
    promotion piece type (3..6), 3 when not a promotion (the engine's convention). *)
Record mv := mkmv { mfrom : N; mto : N; mtype : N; mprom : N }.

(* the engine's 16-bit packing, used only to compare observations *)
Definition code (m : mv) : N := mto m + 64 * mfrom m + 4096 * (mprom m - 3) + 16384 * mtype m.

Definition NORMAL := 0. Definition PROMOTION := 1. Definition ENPASSANT := 2. Definition CASTLING := 3.

Definition fwd (c : N) : dir := if c =? WHITE then DN else DS.
Definition start_rank (c : N) : N := if c =? WHITE then 1 else 6.
Definition last_rank (c : N) : N := if c =? WHITE then 7 else 0.

Definition free_or_enemy (b : list N) (c t : N) : bool :=
  let pc := at_ b t in (pc =? 0) || negb (colour_of pc =? c).
Definition enemy (b : list N) (c t : N) : bool :=
  let pc := at_ b t in negb (pc =? 0) && negb (colour_of pc =? c).

Definition promos (f t : N) : list mv :=
  [mkmv f t PROMOTION QUEEN; mkmv f t PROMOTION ROOK; mkmv f t PROMOTION BISHOP; mkmv f t PROMOTION KNIGHT].

Definition pawn_moves (p : pos) (s : N) : list mv :=
  let b := brd p in let c := stm p in
  let adv t := if rank_of t =? last_rank c then promos s t else [mkmv s t NORMAL 3] in
  (* pushes *)
  (match step (fwd c) s with
   | Some t => if at_ b t =? 0 then
                 adv t ++
                 (if rank_of s =? start_rank c then
                    match step (fwd c) t with
                    | Some u => if at_ b u =? 0 then [mkmv s u NORMAL 3] else []
                    | None => [] end
                  else [])
               else []
   | None => [] end)
  (* captures, en passant *)
  ++ flat_map (fun t => if enemy b c t then adv t
                        else if (t =? ep p) && (at_ b t =? 0) then [mkmv s t ENPASSANT 3] else [])
              (pawn_attack_targets c s).

(* castling: (king from, king to, rook from, right bit, squares that must be empty) *)
Definition castles (c : N) : list (N * N * N * N * list N) :=
  if c =? WHITE then [(4, 6, 7, 1, [5; 6]); (4, 2, 0, 2, [1; 2; 3])]
  else [(60, 62, 63, 4, [61; 62]); (60, 58, 56, 8, [57; 58; 59])].

Definition castle_moves (p : pos) : list mv :=
  let b := brd p in let c := stm p in
  flat_map (fun '(kf, kt, rf, bit, empties) =>
    if negb (N.land (cr p) bit =? 0) && is_piece b kf c KING && is_piece b rf c ROOK
       && forallb (fun s => at_ b s =? 0) empties
    then [mkmv kf kt CASTLING 3] else []) (castles c).

Definition piece_moves (p : pos) (s : N) : list mv :=
  let b := brd p in let c := stm p in
  let pc := at_ b s in
  if (pc =? 0) || negb (colour_of pc =? c) then [] else
  let ty := type_of pc in
  let simple ts := map (fun t => mkmv s t NORMAL 3) (filter (free_or_enemy b c) ts) in
  if ty =? PAWN then pawn_moves p s
  else if ty =? KNIGHT then simple (knight_targets s)
  else if ty =? KING then simple (king_targets s)
  else if ty =? ROOK then simple (rays_from b rook_dirs s)
  else if ty =? BISHOP then simple (rays_from b bishop_dirs s)
  else if ty =? QUEEN then simple (rays_from b all_dirs s)
  else [].

(* all pseudo-legal moves: obey piece movement, may leave the own king in check *)
Definition pseudo (p : pos) : list mv := flat_map (piece_moves p) squares64 ++ castle_moves p.

(** ** Making a move *)
Definition rook_castle_squares (kt : N) : N * N :=
  if kt =? 6 then (7, 5) else if kt =? 2 then (0, 3) else if kt =? 62 then (63, 61) else (56, 59).

Definition make (p : pos) (m : mv) : pos :=
  let b := brd p in let c := stm p in
  let f := mfrom m in let t := mto m in
  let pc := at_ b f in
  let captured := at_ b t in
  let b1 := put (put b f 0) t (if mtype m =? PROMOTION then mk_piece c (mprom m) else pc) in
  let b2 := if mtype m =? ENPASSANT then put b1 (mk_sq (file_of t) (rank_of f)) 0
            else if mtype m =? CASTLING then
              let '(rf, rt) := rook_castle_squares t in put (put b1 rf 0) rt (mk_piece c ROOK)
            else b1 in
  let lost := N.lor (castling_by_square f) (castling_by_square t) in
  let is_pawn := type_of pc =? PAWN in
  let double := is_pawn && (zabs_diff (rank_of f) (rank_of t) =? 2) in
  mkpos b2 (flip c)
        (N.ldiff (cr p) lost)
        (if double then mk_sq (file_of f) ((rank_of f + rank_of t) / 2) else 64)
        (if is_pawn || negb (captured =? 0) then 0 else hmc p + 1)
        (if c =? BLACK then fmn p + 1 else fmn p).

(** ** Legality *)
Definition castle_transit (kt : N) : N :=
  if kt =? 6 then 5 else if kt =? 2 then 3 else if kt =? 62 then 61 else 59.

Definition is_legal (p : pos) (m : mv) : bool :=
  let c := stm p in
  (if mtype m =? CASTLING then
     negb (attacked (brd p) (mfrom m) (flip c)) && negb (attacked (brd p) (castle_transit (mto m)) (flip c))
   else true)
  && negb (in_check_b (brd (make p m)) c).

Definition legal (p : pos) : list mv := filter (is_legal p) (pseudo p).

Definition gives_check (p : pos) (m : mv) : bool := in_check (make p m).

Fixpoint perft (d : nat) (p : pos) : N :=
  match d with
  | O => 1
  | S k => fold_right (fun m acc => perft k (make p m) + acc) 0 (legal p)
  end.

(** ** Well-formed / legal positions (the quantifier "all legal positions") *)
Definition count_piece (b : list N) (pc : N) : nat := length (filter (fun s => at_ b s =? pc) squares64).

Definition ep_ok (p : pos) : bool :=
  let e := ep p in
  if e =? 64 then true else
  let c := stm p in  (* the pawn that just moved belongs to flip c *)
  (rank_of e =? (if c =? WHITE then 5 else 2))
  && (piece_at p e =? 0)
  && (match step (fwd (flip c)) e with   (* square in front (mover's view) holds the pawn *)
      | Some t => piece_at p t =? mk_piece (flip c) PAWN | None => false end)
  && (match step (fwd c) e with           (* square behind is empty *)
      | Some t => piece_at p t =? 0 | None => false end).

Definition rights_ok (p : pos) : bool :=
  let b := brd p in
  forallb (fun '(kf, _, rf, bit, _) => (N.land (cr p) bit =? 0) || (is_piece b kf WHITE KING && is_piece b rf WHITE ROOK)) (castles WHITE)
  && forallb (fun '(kf, _, rf, bit, _) => (N.land (cr p) bit =? 0) || (is_piece b kf BLACK KING && is_piece b rf BLACK ROOK)) (castles BLACK).

Definition legal_pos (p : pos) : bool :=
  (length (brd p) =? 64)%nat
  && forallb (fun pc => existsb (N.eqb pc) [0;1;2;3;4;5;6;9;10;11;12;13;14]) (brd p)
  && (count_piece (brd p) (mk_piece WHITE KING) =? 1)%nat
  && (count_piece (brd p) (mk_piece BLACK KING) =? 1)%nat
  && (stm p <? 2) && (cr p <? 16)
  && negb (in_check_b (brd p) (flip (stm p)))
  && forallb (fun s => negb (type_of (piece_at p s) =? PAWN) || negb ((rank_of s =? 0) || (rank_of s =? 7))) squares64
  && rights_ok p && ep_ok p.

(** ** Colour mirror (vertical flip, colours, rights and side swapped) *)
Definition mirror_sq (s : N) : N := if s <? 64 then N.lxor s 56 else s.
Definition mirror_piece (pc : N) : N := if pc =? 0 then 0 else if pc <? 8 then pc + 8 else pc - 8.
Definition mirror_cr (c : N) : N := (c / 4) + 4 * (c mod 4).
Definition mirror (p : pos) : pos :=
  mkpos (map (fun s => mirror_piece (piece_at p (mirror_sq s))) squares64)
        (flip (stm p)) (mirror_cr (cr p)) (mirror_sq (ep p)) (hmc p) (fmn p).
Definition mirror_mv (m : mv) : mv := mkmv (mirror_sq (mfrom m)) (mirror_sq (mto m)) (mtype m) (mprom m).

(** ** Insufficient material (dead positions named byc property C10) *)
Definition counts (b : list N) (c : N) : list nat :=
  map (fun t => count_piece b (mk_piece c t)) [PAWN; KNIGHT; BISHOP; ROOK; QUEEN].

Definition start_board : list N :=
  [5;3;4;6;1;4;3;5; 2;2;2;2;2;2;2;2;
   0;0;0;0;0;0;0;0; 0;0;0;0;0;0;0;0; 0;0;0;0;0;0;0;0; 0;0;0;0;0;0;0;0;
   10;10;10;10;10;10;10;10; 13;11;12;14;9;12;11;13].
Definition start_pos : pos := mkpos start_board WHITE 15 64 0 1.
