package main

import (
	"bufio"
	"os"
	"path/filepath"
	"strconv"
	"strings"
	"unicode"

	"github.com/frankkopp/FrankyGo/internal/movegen"
	"github.com/frankkopp/FrankyGo/internal/position"
	. "github.com/frankkopp/FrankyGo/internal/types"
)

// ---------------------------------------------------------------- corpus

func verifDir() string {
	if d := os.Getenv("VERIF_DIR"); d != "" {
		return d
	}
	exe, _ := os.Executable()
	return filepath.Dir(filepath.Dir(exe)) // build/verifh -> /verif
}

func loadCorpus() []string {
	f, err := os.Open(filepath.Join(verifDir(), "corpus", "fens.txt"))
	if err != nil {
		return []string{position.StartFen}
	}
	defer f.Close()
	var res []string
	sc := bufio.NewScanner(f)
	for sc.Scan() {
		l := strings.TrimSpace(sc.Text())
		if l == "" || strings.HasPrefix(l, "#") {
			continue
		}
		res = append(res, l)
	}
	return res
}

// mirrorFen flips the board vertically and swaps colours, side, rights and ep square.
func mirrorFen(fen string) string {
	parts := strings.Fields(fen)
	for len(parts) < 6 {
		parts = append(parts, []string{"", "w", "-", "-", "0", "1"}[len(parts)])
	}
	ranks := strings.Split(parts[0], "/")
	for i, j := 0, len(ranks)-1; i < j; i, j = i+1, j-1 {
		ranks[i], ranks[j] = ranks[j], ranks[i]
	}
	swap := func(s string) string {
		var b strings.Builder
		for _, c := range s {
			if unicode.IsUpper(c) {
				b.WriteRune(unicode.ToLower(c))
			} else if unicode.IsLower(c) {
				b.WriteRune(unicode.ToUpper(c))
			} else {
				b.WriteRune(c)
			}
		}
		return b.String()
	}
	board := swap(strings.Join(ranks, "/"))
	side := "w"
	if parts[1] == "w" {
		side = "b"
	}
	cr := "-"
	if parts[2] != "-" {
		sw := swap(parts[2])
		cr = ""
		for _, c := range "KQkq" {
			if strings.ContainsRune(sw, c) {
				cr += string(c)
			}
		}
	}
	ep := parts[3]
	if ep != "-" && len(ep) == 2 {
		ep = string(ep[0]) + string('1'+('8'-ep[1]))
	}
	return board + " " + side + " " + cr + " " + ep + " " + parts[4] + " " + parts[5]
}

// ---------------------------------------------------------------- random play

type Walker struct {
	rng *Rng
	mg  *movegen.Movegen
}

func NewWalker(rng *Rng) *Walker { return &Walker{rng: rng, mg: movegen.NewMoveGen()} }

// legalMoves returns a private copy of the engine's legal move list.
func (w *Walker) legalMoves(p *position.Position) []Move {
	ml := w.mg.GenerateLegalMoves(p, movegen.GenAll)
	res := make([]Move, len(*ml))
	copy(res, *ml)
	return res
}

// pick chooses a move with weights favouring the rule corners.
func (w *Walker) pick(p *position.Position, moves []Move) Move {
	best := moves[0]
	bestW := -1
	for _, m := range moves {
		wt := 10
		switch m.MoveType() {
		case Castling:
			wt += 60
		case EnPassant:
			wt += 90
		case Promotion:
			wt += 50
		}
		if p.GetPiece(m.To()) != PieceNone {
			wt += 15
		}
		if p.GetPiece(m.From()).TypeOf() == Pawn {
			wt += 6
		}
		if p.GetPiece(m.From()).TypeOf() == King || p.GetPiece(m.From()).TypeOf() == Rook {
			wt += 4
		}
		r := w.rng.Intn(wt * 10)
		if r > bestW {
			bestW = r
			best = m
		}
	}
	return best
}

// randomPlacement builds a random position with 2..maxPieces pieces that the engine accepts
// and in which the side not to move is not in check; rights/ep are made consistent.
func (w *Walker) randomPlacement(maxPieces int) string {
	for tries := 0; tries < 200; tries++ {
		var board [64]byte
		for i := range board {
			board[i] = ' '
		}
		wk, bk := w.rng.Intn(64), w.rng.Intn(64)
		if wk == bk || SquareDistance(Square(wk), Square(bk)) < 2 {
			continue
		}
		board[wk], board[bk] = 'K', 'k'
		n := w.rng.Intn(maxPieces - 1)
		pcs := "PPPPNBRQppppnbrq"
		if w.rng.Chance(30) {
			pcs = "PNBRQpnbrq"
		}
		for i := 0; i < n; i++ {
			s := w.rng.Intn(64)
			if board[s] != ' ' {
				continue
			}
			c := pcs[w.rng.Intn(len(pcs))]
			if (c == 'P' || c == 'p') && (s < 8 || s >= 56) {
				continue
			}
			board[s] = c
		}
		// rights
		cr := ""
		if board[4] == 'K' && board[7] == 'R' && w.rng.Chance(60) {
			cr += "K"
		}
		if board[4] == 'K' && board[0] == 'R' && w.rng.Chance(60) {
			cr += "Q"
		}
		if board[60] == 'k' && board[63] == 'r' && w.rng.Chance(60) {
			cr += "k"
		}
		if board[60] == 'k' && board[56] == 'r' && w.rng.Chance(60) {
			cr += "q"
		}
		if cr == "" {
			cr = "-"
		}
		side := "w"
		if w.rng.Bool() {
			side = "b"
		}
		// ep: find a pawn of the side that just moved on its 4th rank with empty squares behind
		ep := "-"
		if w.rng.Chance(50) {
			for f := 0; f < 8; f++ {
				if side == "w" { // black just moved: black pawn on rank 5 (index 4), ep square rank 6
					if board[32+f] == 'p' && board[40+f] == ' ' && board[48+f] == ' ' && w.rng.Chance(50) {
						ep = string(rune('a'+f)) + "6"
						break
					}
				} else {
					if board[24+f] == 'P' && board[16+f] == ' ' && board[8+f] == ' ' && w.rng.Chance(50) {
						ep = string(rune('a'+f)) + "3"
						break
					}
				}
			}
		}
		var sb strings.Builder
		for r := 7; r >= 0; r-- {
			e := 0
			for f := 0; f < 8; f++ {
				c := board[r*8+f]
				if c == ' ' {
					e++
				} else {
					if e > 0 {
						sb.WriteString(strconv.Itoa(e))
						e = 0
					}
					sb.WriteByte(c)
				}
			}
			if e > 0 {
				sb.WriteString(strconv.Itoa(e))
			}
			if r > 0 {
				sb.WriteByte('/')
			}
		}
		// half-move clock: mostly small; sometimes around the fifty-move limit and beyond it (the rule
		// must be claimed, the counter keeps running: 8-bit boundaries lie in that range)
		hmc := w.rng.Intn(60)
		switch r := w.rng.Intn(100); {
		case r < 8:
			hmc = 90 + w.rng.Intn(45)
		case r < 12:
			hmc = 120 + w.rng.Intn(200)
		}
		if ep != "-" {
			hmc = 0
		}
		fen := sb.String() + " " + side + " " + cr + " " + ep + " " + strconv.Itoa(hmc) + " " + strconv.Itoa(1+w.rng.Intn(80))
		p, err := position.NewPositionFen(fen)
		if err != nil || p == nil {
			continue
		}
		// side not to move must not be in check
		if p.IsAttacked(p.KingSquare(p.NextPlayer().Flip()), p.NextPlayer()) {
			continue
		}
		return fen
	}
	return position.StartFen
}

// forcedPlacement looks (by rejection sampling) for a position in which the side to move is in
// check and has at most two legal moves: single evasions by interposition, capture of the checker,
// en passant, promotion - the corners where a generator shortcut goes wrong. The engine's own
// generator is only the filter here, never the judge.
func (w *Walker) forcedPlacement() string {
	for tries := 0; tries < 3000; tries++ {
		fen := w.randomPlacement(8 + w.rng.Intn(16))
		p, err := position.NewPositionFen(fen)
		if err != nil || p == nil || !p.HasCheck() {
			continue
		}
		if n := len(w.legalMoves(p)); n >= 1 && n <= 2 {
			return fen
		}
	}
	return ""
}

// minorPieceMate builds a position with kings and one to three minor pieces only in which the side
// to move can give mate at once (the defender's king stands in a corner, hemmed in by its own
// piece): the material is "dead" for every material-only heuristic, yet a mate is on the board.
func (w *Walker) minorPieceMate() string {
	minors := []byte{'N', 'B'}
	for tries := 0; tries < 60000; tries++ {
		var board [64]byte
		corner := []int{0, 7, 56, 63}[w.rng.Intn(4)]
		cf, cr := corner%8, corner/8
		dk := corner
		if w.rng.Chance(30) { // next to the corner, on the edge
			if w.rng.Bool() {
				dk = cr*8 + cf + map[bool]int{true: 1, false: -1}[cf == 0]
			} else {
				dk = (cr+map[bool]int{true: 1, false: -1}[cr == 0])*8 + cf
			}
		}
		near := func() int { // a square within two steps of the defender's king
			for {
				f, r := dk%8+w.rng.Intn(5)-2, dk/8+w.rng.Intn(5)-2
				if f >= 0 && f < 8 && r >= 0 && r < 8 {
					return r*8 + f
				}
			}
		}
		board[dk] = 'k'
		ak := near()
		if board[ak] != 0 || SquareDistance(Square(ak), Square(dk)) < 2 {
			continue
		}
		board[ak] = 'K'
		ok := true
		for i, n := 0, 1+w.rng.Intn(2); i < n && ok; i++ { // attacker's minors
			sq := near()
			if w.rng.Bool() {
				sq = w.rng.Intn(64)
			}
			if board[sq] != 0 {
				ok = false
			}
			board[sq] = minors[w.rng.Intn(2)]
		}
		for i, n := 0, w.rng.Intn(2)+w.rng.Intn(2); i < n && ok; i++ { // defender's minors, usually beside its king
			sq := near()
			if board[sq] != 0 {
				ok = false
			}
			board[sq] = minors[w.rng.Intn(2)] + 32
		}
		if !ok {
			continue
		}
		var sb strings.Builder
		for r := 7; r >= 0; r-- {
			e := 0
			for f := 0; f < 8; f++ {
				if c := board[r*8+f]; c != 0 {
					if e > 0 {
						sb.WriteString(strconv.Itoa(e))
						e = 0
					}
					sb.WriteByte(c)
				} else {
					e++
				}
			}
			if e > 0 {
				sb.WriteString(strconv.Itoa(e))
			}
			if r > 0 {
				sb.WriteByte('/')
			}
		}
		fen := sb.String() + " w - - 0 1"
		if w.rng.Bool() {
			fen = mirrorFen(fen)
		}
		p, err := position.NewPositionFen(fen)
		if err != nil || p == nil || p.IsAttacked(p.KingSquare(p.NextPlayer().Flip()), p.NextPlayer()) {
			continue
		}
		for _, m := range w.legalMoves(p) {
			p.DoMove(m)
			mate := p.HasCheck() && len(w.legalMoves(p)) == 0
			p.UndoMove()
			if mate {
				return fen
			}
		}
	}
	return ""
}

// epCheckSkeleton: the side to move has a pawn on its second rank whose double step gives check and can be taken
// en passant (the capture removes the checking piece although it does not land on its square); a few other
// pieces around; colour-mirrored half of the time
func (w *Walker) epCheckSkeleton() string {
	for tries := 0; tries < 2000; tries++ {
		var board [64]byte
		for i := range board {
			board[i] = ' '
		}
		f := 1 + w.rng.Intn(6)
		dk := []int{-1, 1}[w.rng.Intn(2)]
		dp := []int{-1, 1}[w.rng.Intn(2)]
		sq := func(file, rank int) int { return (rank-1)*8 + file }
		board[sq(f, 2)] = 'P'
		board[sq(f+dk, 5)] = 'k'
		board[sq(f+dp, 4)] = 'p'
		wk := w.rng.Intn(64)
		if board[wk] != ' ' || wk == sq(f, 3) || wk == sq(f, 4) || SquareDistance(Square(wk), Square(sq(f+dk, 5))) < 2 {
			continue
		}
		board[wk] = 'K'
		kinds := "QRBNPqrbnp"
		for i, n := 0, w.rng.Intn(5); i < n; i++ {
			x := w.rng.Intn(64)
			c := kinds[w.rng.Intn(len(kinds))]
			if board[x] != ' ' || x == sq(f, 3) || x == sq(f, 4) || ((c == 'P' || c == 'p') && (x < 8 || x >= 56)) {
				continue
			}
			board[x] = c
		}
		fen := compressFenBoard(board) + " w - - 0 1"
		p, err := position.NewPositionFen(fen)
		if err != nil || p == nil || p.HasCheck() || p.IsAttacked(p.KingSquare(Black), White) {
			continue
		}
		// the double step must be legal, give check, and the en-passant capture must be a legal answer
		ok := false
		for _, m := range w.legalMoves(p) {
			if int(m.From()) == sq(f, 2) && int(m.To()) == sq(f, 4) {
				q := *p
				q.DoMove(m)
				if q.HasCheck() {
					for _, r := range w.legalMoves(&q) {
						if r.MoveType() == EnPassant {
							ok = true
						}
					}
				}
			}
		}
		if !ok {
			continue
		}
		if w.rng.Bool() {
			fen = mirrorFen(fen)
		}
		return fen
	}
	return ""
}

// castlingSkeleton: kings and rooks on their home squares with the matching rights and a handful of other
// pieces: castling paths are free, checks are frequent
func (w *Walker) castlingSkeleton() string {
	for tries := 0; tries < 500; tries++ {
		var board [64]byte
		for i := range board {
			board[i] = ' '
		}
		board[SqE1], board[SqE8] = 'K', 'k'
		rights := ""
		if w.rng.Chance(70) {
			board[SqH1] = 'R'
			rights += "K"
		}
		if w.rng.Chance(70) {
			board[SqA1] = 'R'
			rights += "Q"
		}
		if w.rng.Chance(70) {
			board[SqH8] = 'r'
			rights += "k"
		}
		if w.rng.Chance(70) {
			board[SqA8] = 'r'
			rights += "q"
		}
		if rights == "" {
			continue
		}
		kinds := "QBNPPqbnpp"
		for i, n := 0, 2+w.rng.Intn(5); i < n; i++ {
			sq := 8 + w.rng.Intn(48) // ranks 2-7: the back ranks stay free
			if board[sq] == ' ' {
				board[sq] = kinds[w.rng.Intn(len(kinds))]
			}
		}
		stm := "w"
		if w.rng.Bool() {
			stm = "b"
		}
		fen := compressFenBoard(board) + " " + stm + " " + rights + " - 0 1"
		p, err := position.NewPositionFen(fen)
		if err != nil || p == nil || p.IsAttacked(p.KingSquare(p.NextPlayer().Flip()), p.NextPlayer()) {
			continue
		}
		return fen
	}
	return ""
}

// checkVsCastlingRoots: positions in which the side to move can give check to a king that still has a
// castling right (nodes in check with castling rights are then inside the tree from depth 2 on)
func (w *Walker) checkVsCastlingRoots(k int) []GamePos {
	var res []GamePos
	for i := 0; i < k*20 && len(res) < (k+1)/2; i++ { // half of them: castling skeletons with a check available
		fen := w.castlingSkeleton()
		if fen == "" {
			continue
		}
		p, _ := position.NewPositionFen(fen)
		them := p.NextPlayer().Flip()
		cr := p.CastlingRights()
		if (them == White && cr&(CastlingWhiteOO|CastlingWhiteOOO) == 0) || (them == Black && cr&(CastlingBlackOO|CastlingBlackOOO) == 0) {
			continue
		}
		cp := *p
		checks := 0
		for _, m := range w.legalMoves(&cp) {
			if p.GivesCheck(m) {
				checks++
			}
		}
		if checks == 0 {
			continue
		}
		res = append(res, GamePos{Root: fen, P: p})
	}
	w.Stream(k*400, true, func(g GamePos) {
		if len(res) >= k {
			return
		}
		them := g.P.NextPlayer().Flip()
		cr := g.P.CastlingRights()
		if (them == White && cr&(CastlingWhiteOO|CastlingWhiteOOO) == 0) || (them == Black && cr&(CastlingBlackOO|CastlingBlackOOO) == 0) {
			return
		}
		// a castling that is possible but for the check: right held and nothing between king and rook
		empty := func(sqs ...Square) bool {
			for _, sq := range sqs {
				if g.P.GetPiece(sq) != PieceNone {
					return false
				}
			}
			return true
		}
		free := false
		if them == White {
			free = (cr&CastlingWhiteOO != 0 && empty(SqF1, SqG1)) || (cr&CastlingWhiteOOO != 0 && empty(SqB1, SqC1, SqD1))
		} else {
			free = (cr&CastlingBlackOO != 0 && empty(SqF8, SqG8)) || (cr&CastlingBlackOOO != 0 && empty(SqB8, SqC8, SqD8))
		}
		if !free {
			return
		}
		cp := *g.P
		lm := w.legalMoves(&cp)
		if len(lm) > 40 {
			return
		}
		checks := 0
		for _, m := range lm {
			if g.P.GivesCheck(m) {
				checks++
			}
		}
		if checks == 0 {
			return
		}
		cp2 := *g.P
		res = append(res, GamePos{Root: g.Root, Moves: g.Moves, P: &cp2})
	})
	return res
}

// shuffleGame builds a game history in which both sides move an officer (or the king) out and
// back: one or two full there-and-back cycles from a position S and then 0-3 plies of the next
// cycle, so that S (or a position of the cycle) has occurred once or twice already and the search
// tree contains the move that repeats it again. The clock of the root FEN is small so that the
// repetition falls on small half-move clock values as well as larger ones.
func (w *Walker) shuffleGame() (GamePos, bool) {
	corpus := loadCorpus()
	for tries := 0; tries < 50; tries++ {
		root := corpus[w.rng.Intn(len(corpus))]
		if w.rng.Chance(40) {
			root = w.randomPlacement(14)
		}
		f := strings.Fields(root)
		if len(f) < 6 {
			continue
		}
		f[4] = []string{"0", "0", "0", "0", "1", "2", "7", "20"}[w.rng.Intn(8)] // mostly right after an irreversible move
		root = strings.Join(f, " ")
		p, err := position.NewPositionFen(root)
		if err != nil || p == nil || p.IsAttacked(p.KingSquare(p.NextPlayer().Flip()), p.NextPlayer()) {
			continue
		}
		var hist []Move
		for k := w.rng.Intn(5) - 2; k > 0; k-- {
			lm := w.legalMoves(p)
			if len(lm) == 0 {
				break
			}
			m := lm[w.rng.Intn(len(lm))]
			p.DoMove(m)
			hist = append(hist, m)
		}
		reversible := func() (Move, bool) {
			lm := w.legalMoves(p)
			var cands []Move
			for _, m := range lm {
				if m.MoveType() == Normal && p.GetPiece(m.To()) == PieceNone && p.GetPiece(m.From()).TypeOf() != Pawn {
					cands = append(cands, m)
				}
			}
			if len(cands) == 0 {
				return MoveNone, false
			}
			return cands[w.rng.Intn(len(cands))], true
		}
		play := func(m Move) bool {
			for _, x := range w.legalMoves(p) {
				if x.MoveOf() == m.MoveOf() {
					p.DoMove(x)
					hist = append(hist, x)
					return true
				}
			}
			return false
		}
		m1, ok1 := reversible()
		if !ok1 || !play(m1) {
			continue
		}
		m2, ok2 := reversible()
		if !ok2 || !play(m2) {
			continue
		}
		r1 := CreateMove(m1.To(), m1.From(), Normal, PtNone)
		r2 := CreateMove(m2.To(), m2.From(), Normal, PtNone)
		if !play(r1) || !play(r2) {
			continue
		}
		cycle := []Move{m1, m2, r1, r2}
		ok := true
		if w.rng.Chance(25) { // a second full cycle: the start position has occurred three times
			for _, m := range cycle {
				ok = ok && play(m)
			}
		}
		if !ok {
			continue
		}
		j := w.rng.Intn(4)
		if w.rng.Bool() {
			j = 3 // the next move completes the cycle again
		}
		for i := 0; i < j; i++ { // the first plies of the next cycle
			if !play(cycle[i]) {
				break
			}
		}
		if len(w.legalMoves(p)) == 0 {
			continue
		}
		return GamePos{Root: root, Moves: append([]Move{}, hist...), P: p}, true
	}
	return GamePos{}, false
}

// PositionSource yields positions (with the game history that led to them).
type GamePos struct {
	Root  string // FEN the game started from
	Moves []Move // moves played from Root
	P     *position.Position
}

// Stream calls f for about n positions: corpus (+mirrors), random games, random placements.
func (w *Walker) Stream(n int, includeCorpus bool, f func(g GamePos)) {
	corpus := loadCorpus()
	count := 0
	emit := func(g GamePos) {
		f(g)
		count++
	}
	if includeCorpus {
		for _, fen := range corpus {
			for _, fe := range []string{fen, mirrorFen(fen)} {
				p, err := position.NewPositionFen(fe)
				if err == nil && p != nil {
					emit(GamePos{Root: fe, P: p})
				}
			}
		}
	}
	for count < n {
		var root string
		if w.rng.Chance(12) {
			if fen := w.forcedPlacement(); fen != "" {
				if p, err := position.NewPositionFen(fen); err == nil && p != nil {
					emit(GamePos{Root: fen, P: p})
				}
				continue
			}
		}
		switch r := w.rng.Intn(10); {
		case r < 6:
			root = corpus[w.rng.Intn(len(corpus))]
			if w.rng.Bool() {
				root = mirrorFen(root)
			}
		case r < 8:
			root = w.randomPlacement(32)
		default:
			root = w.randomPlacement(7)
		}
		p, err := position.NewPositionFen(root)
		if err != nil || p == nil {
			continue
		}
		if p.IsAttacked(p.KingSquare(p.NextPlayer().Flip()), p.NextPlayer()) {
			continue
		}
		var hist []Move
		plies := 10 + w.rng.Intn(120)
		for i := 0; i < plies && count < n; i++ {
			moves := w.legalMoves(p)
			if len(moves) == 0 {
				if i > 0 {
					emit(GamePos{Root: root, Moves: append([]Move{}, hist...), P: p})
				}
				break
			}
			if i > 0 && w.rng.Chance(35) {
				emit(GamePos{Root: root, Moves: append([]Move{}, hist...), P: p})
			}
			m := w.pick(p, moves)
			p.DoMove(m)
			hist = append(hist, m)
			if p.HalfMoveClock() > 110 {
				break
			}
		}
	}
}

func movesUci(ms []Move) string {
	var sb strings.Builder
	for i, m := range ms {
		if i > 0 {
			sb.WriteByte(' ')
		}
		sb.WriteString(m.StringUci())
	}
	return sb.String()
}
