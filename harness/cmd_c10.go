package main

import (
	"fmt"
	"strconv"
	"strings"

	"github.com/frankkopp/FrankyGo/internal/position"
	. "github.com/frankkopp/FrankyGo/internal/types"
)

func coreOfFen(fen string) string {
	f := strings.Fields(fen)
	if len(f) < 4 {
		return fen
	}
	return strings.Join(f[:4], " ")
}

// c10-monitor <n> <seed>: repetition query vs counting earlier positions with the same
// placement/side/rights/ep field; half-move clock vs plies since the last capture or pawn move;
// insufficient material on all material signatures with up to 3 officers per side.
func c10Monitor(args []string) int {
	n, _ := strconv.Atoi(args[0])
	seed, _ := strconv.ParseUint(args[1], 10, 64)
	rng := NewRng(seed)
	w := NewWalker(rng)
	rep := NewReport("c10-monitor")
	corpus := loadCorpus()
	games := 0
	for rep.Cases < n {
		root := corpus[rng.Intn(len(corpus))]
		if rng.Chance(30) {
			root = w.randomPlacement(8)
		}
		p, err := position.NewPositionFen(root)
		if err != nil || p == nil {
			continue
		}
		games++
		startClock := 0 // from the text of the FEN, not from the engine: "continuing from the FEN value"
		if ff := strings.Fields(root); len(ff) > 4 {
			if v, err := strconv.Atoi(ff[4]); err == nil {
				startClock = v
			}
		}
		sinceIrreversible := 0
		irreversibleSeen := false
		var cores []string // cores of all earlier positions of the game (incl. root)
		var hist []Move
		plies := 20 + rng.Intn(160)
		for i := 0; i < plies && rep.Cases < n; i++ {
			// observe
			core := coreOfFen(p.StringFen())
			count := 0
			for _, c := range cores {
				if c == core {
					count++
				}
			}
			rep.Cases++
			if count > 0 {
				rep.Stats["positions_repeated"]++
			}
			for k := 1; k <= 3; k++ {
				if got := p.CheckRepetitions(k); got != (count >= k) {
					rep.Violate("repetition-query-wrong", map[string]interface{}{"root": root, "moves": movesUci(hist), "fen": p.StringFen(), "n": k},
						fmt.Sprintf("CheckRepetitions(%d)=%v but %d earlier positions of the game are identical", k, got, count))
				}
			}
			wantClock := sinceIrreversible
			if !irreversibleSeen {
				wantClock = startClock + sinceIrreversible
			}
			if p.HalfMoveClock() != wantClock {
				rep.Violate("half-move-clock-wrong", map[string]interface{}{"root": root, "moves": movesUci(hist), "fen": p.StringFen()},
					fmt.Sprintf("clock %d, expected %d", p.HalfMoveClock(), wantClock))
			}
			cores = append(cores, core)
			moves := w.legalMoves(p)
			if len(moves) == 0 {
				break
			}
			// shuffle pieces back and forth a lot: prefer reversible officer/king moves, sometimes undo the previous own move
			var m Move
			picked := false
			if len(hist) >= 2 && rng.Chance(45) {
				prev := hist[len(hist)-2]
				for _, x := range moves {
					if x.From() == prev.To() && x.To() == prev.From() && x.MoveType() == Normal && p.GetPiece(x.To()) == PieceNone && p.GetPiece(x.From()).TypeOf() != Pawn {
						m, picked = x, true
					}
				}
			}
			if !picked {
				var quiet []Move
				for _, x := range moves {
					if x.MoveType() == Normal && p.GetPiece(x.To()) == PieceNone && p.GetPiece(x.From()).TypeOf() != Pawn {
						quiet = append(quiet, x)
					}
				}
				if len(quiet) > 0 && rng.Chance(80) {
					m = quiet[rng.Intn(len(quiet))]
				} else {
					m = w.pick(p, moves)
				}
			}
			irreversible := p.GetPiece(m.To()) != PieceNone || p.GetPiece(m.From()).TypeOf() == Pawn || m.MoveType() == EnPassant
			p.DoMove(m)
			hist = append(hist, m)
			if irreversible {
				sinceIrreversible = 0
				irreversibleSeen = true
				rep.Stats["irreversible_moves"]++
			} else {
				sinceIrreversible++
			}
			if m.MoveType() == Castling {
				rep.Stats["castlings"]++
			}
		}
	}
	rep.Stats["games"] = games
	rep.Distinct = rep.Cases
	// trade-down games: from positions with far more than the usual material (several queens) captures are played
	// whenever possible until almost nothing is left; at every position the answer must be the answer for the same
	// board set up from its FEN, and false while a pawn, rook or queen is on the board
	for tg, tries := 0, 0; tg < 6+n/2000 && tries < 4000; tries++ {
		var board [64]byte
		for i := range board {
			board[i] = ' '
		}
		wkSq, bkSq := rng.Intn(64), rng.Intn(64)
		if wkSq == bkSq || SquareDistance(Square(wkSq), Square(bkSq)) < 2 {
			continue
		}
		board[wkSq], board[bkSq] = 'K', 'k'
		kinds := "QQQRRBNqqqrrbn"
		for i, k := 0, 7+rng.Intn(6); i < k; i++ {
			if sq := rng.Intn(64); board[sq] == ' ' {
				board[sq] = kinds[rng.Intn(len(kinds))]
			}
		}
		root := compressFenBoard(board) + " " + []string{"w", "b"}[rng.Intn(2)] + " - - 0 1"
		p, err := position.NewPositionFen(root)
		if err != nil || p == nil || p.IsAttacked(p.KingSquare(p.NextPlayer().Flip()), p.NextPlayer()) || p.HasCheck() {
			continue
		}
		{
			cp := *p
			if len(w.legalMoves(&cp)) == 0 {
				continue
			}
		}
		tg++
		rep.Stats["trade_down_games"]++
		var hist []Move
		for ply := 0; ply < 160; ply++ {
			heavy := p.PiecesBb(White, Pawn)|p.PiecesBb(Black, Pawn)|p.PiecesBb(White, Rook)|p.PiecesBb(Black, Rook)|p.PiecesBb(White, Queen)|p.PiecesBb(Black, Queen) != 0
			got := p.HasInsufficientMaterial()
			fr, _ := position.NewPositionFen(p.StringFen())
			rep.Cases++
			rep.Stats["trade_down_positions"]++
			if (heavy && got) || (fr != nil && fr.HasInsufficientMaterial() != got) {
				rep.Violate("insufficient-material", map[string]interface{}{"root": root, "moves": movesUci(hist), "fen": p.StringFen()},
					fmt.Sprintf("HasInsufficientMaterial=%v on the position reached by play (pawn, rook or queen on the board: %v; the same board set up from its FEN: %v)", got, heavy, fr != nil && fr.HasInsufficientMaterial()))
				break
			}
			cp := *p // legality probing plays and takes back moves: not on the position under test
			lm := w.legalMoves(&cp)
			if len(lm) == 0 || p.OccupiedAll().PopCount() <= 2 {
				break
			}
			var caps []Move
			for _, m := range lm {
				if p.GetPiece(m.To()) != PieceNone {
					caps = append(caps, m)
				}
			}
			m := lm[rng.Intn(len(lm))]
			if len(caps) > 0 {
				m = caps[rng.Intn(len(caps))]
			}
			p.DoMove(m)
			hist = append(hist, m)
		}
	}
	// material signatures: pieces of each side from {N,B(light),B(dark),R,Q,P}, up to 3 per side
	kinds := []string{"N", "L", "D", "R", "Q", "P"}
	var sigs [][]string
	var gen func(start int, cur []string)
	gen = func(start int, cur []string) {
		sigs = append(sigs, append([]string{}, cur...))
		if len(cur) == 3 {
			return
		}
		for i := start; i < len(kinds); i++ {
			gen(i, append(cur, kinds[i]))
		}
	}
	gen(0, nil)
	// squares: white pieces on ranks 2-3, black on ranks 6-7; light squares: (file+rank) odd
	lightW := []string{"b3", "d3", "f3"}
	darkW := []string{"a3", "c3", "e3"}
	anyW := []string{"g2", "h3", "b2"}
	lightB := []string{"a6", "c6", "e6"}
	darkB := []string{"b6", "d6", "f6"}
	anyB := []string{"g7", "h6", "b7"}
	place := func(board map[string]byte, sig []string, white bool) bool {
		li, di, ai := 0, 0, 0
		for _, k := range sig {
			var sq string
			var pc byte
			switch k {
			case "L":
				if white {
					sq = lightW[li]
				} else {
					sq = lightB[li]
				}
				li++
				pc = 'B'
			case "D":
				if white {
					sq = darkW[di]
				} else {
					sq = darkB[di]
				}
				di++
				pc = 'B'
			default:
				if white {
					sq = anyW[ai]
				} else {
					sq = anyB[ai]
				}
				ai++
				pc = k[0]
			}
			if !white {
				pc = pc + 32
			}
			board[sq] = pc
		}
		return true
	}
	checkSig := func(fen string, ws, bs []string) {
		p, err := position.NewPositionFen(fen)
		if err != nil || p == nil {
			return // e.g. side not to move in check
		}
		got := p.HasInsufficientMaterial()
		all := append(append([]string{}, ws...), bs...)
		has := func(l []string, k string) int {
			c := 0
			for _, x := range l {
				if x == k {
					c++
				}
			}
			return c
		}
		heavy := has(all, "P")+has(all, "R")+has(all, "Q") > 0
		minors := func(l []string) int { return has(l, "N") + has(l, "L") + has(l, "D") }
		mustTrue := !heavy && ((len(ws) == 0 && len(bs) == 0) ||
			(minors(ws) == 1 && len(ws) == 1 && len(bs) == 0) || (minors(bs) == 1 && len(bs) == 1 && len(ws) == 0) ||
			(len(ws) == 1 && len(bs) == 1 && ((ws[0] == "L" && bs[0] == "L") || (ws[0] == "D" && bs[0] == "D"))))
		mating := func(a, b []string) bool { // a has mating material against bare king b
			return len(b) == 0 && ((has(a, "N") >= 1 && has(a, "L")+has(a, "D") >= 1) || (has(a, "L") >= 1 && has(a, "D") >= 1))
		}
		mustFalse := heavy || mating(ws, bs) || mating(bs, ws)
		rep.Cases++
		rep.Stats["material_signatures"]++
		if (mustTrue && !got) || (mustFalse && got) {
			rep.Violate("insufficient-material", map[string]interface{}{"fen": fen, "white": strings.Join(ws, ""), "black": strings.Join(bs, "")},
				fmt.Sprintf("HasInsufficientMaterial=%v (must be true: %v, must be false: %v)", got, mustTrue, mustFalse))
		}
	}
	for _, ws := range sigs {
		for _, bs := range sigs {
			board := map[string]byte{"e1": 'K', "e8": 'k'}
			place(board, ws, true)
			place(board, bs, false)
			var sb strings.Builder
			for r := 7; r >= 0; r-- {
				e := 0
				for f := 0; f < 8; f++ {
					sq := string(rune('a'+f)) + string(rune('1'+r))
					if c, ok := board[sq]; ok {
						if e > 0 {
							sb.WriteString(strconv.Itoa(e))
							e = 0
						}
						sb.WriteByte(c)
					} else {
						e++
					}
				}
				if e > 0 {
					sb.WriteString(strconv.Itoa(e))
				}
				if r > 0 {
					sb.WriteByte('/')
				}
			}
			checkSig(sb.String()+" w - - 0 1", ws, bs)
		}
	}
	// the same signatures on random squares (kings anywhere, bishops on any square of their colour,
	// pawns on ranks 2-7, either side to move): the answer depends on the material only
	reps := 1 + n/20000
	for _, ws := range sigs {
		for _, bs := range sigs {
			for r := 0; r < reps; r++ {
				var board [64]byte
				wkSq, bkSq := rng.Intn(64), rng.Intn(64)
				if wkSq == bkSq || SquareDistance(Square(wkSq), Square(bkSq)) < 2 {
					continue
				}
				board[wkSq], board[bkSq] = 'K', 'k'
				ok := true
				put := func(k string, white bool) {
					for tries := 0; tries < 100; tries++ {
						sq := rng.Intn(64)
						f, rk := sq%8, sq/8
						if board[sq] != 0 {
							continue
						}
						light := (f+rk)%2 == 1
						if (k == "L" && !light) || (k == "D" && light) || (k == "P" && (rk == 0 || rk == 7)) {
							continue
						}
						pc := k[0]
						if k == "L" || k == "D" {
							pc = 'B'
						}
						if !white {
							pc += 32
						}
						board[sq] = pc
						return
					}
					ok = false
				}
				for _, k := range ws {
					put(k, true)
				}
				for _, k := range bs {
					put(k, false)
				}
				if !ok {
					continue
				}
				var sb strings.Builder
				for rk := 7; rk >= 0; rk-- {
					e := 0
					for f := 0; f < 8; f++ {
						if c := board[rk*8+f]; c != 0 {
							if e > 0 {
								sb.WriteString(strconv.Itoa(e))
								e = 0
							}
							sb.WriteByte(c)
						} else {
							e++
						}
					}
					if e > 0 {
						sb.WriteString(strconv.Itoa(e))
					}
					if rk > 0 {
						sb.WriteByte('/')
					}
				}
				stm := " w - - 0 1"
				if rng.Bool() {
					stm = " b - - 0 1"
				}
				rep.Stats["material_signatures_random_squares"]++
				checkSig(sb.String()+stm, ws, bs)
			}
		}
	}
	rep.Sample(map[string]interface{}{"material_signature_example": "KNL v K (knight + light bishop): must not be insufficient"})
	return rep.Emit()
}

func init() { register("c10-monitor", c10Monitor) }
