package main

import (
	"fmt"
	"strconv"
	"strings"

	"github.com/frankkopp/FrankyGo/internal/evaluator"
	"github.com/frankkopp/FrankyGo/internal/movegen"
	"github.com/frankkopp/FrankyGo/internal/position"
	. "github.com/frankkopp/FrankyGo/internal/types"
)

// snapshot of every public observable of a position
type snapshot struct {
	fields map[string]string
	order  []string
}

func snap(p *position.Position, ev *evaluator.Evaluator, withHistory bool) snapshot {
	s := snapshot{fields: map[string]string{}}
	add := func(k string, v interface{}) {
		s.fields[k] = fmt.Sprint(v)
		s.order = append(s.order, k)
	}
	add("fen", p.StringFen())
	add("key", uint64(p.ZobristKey()))
	for c := White; c <= Black; c++ {
		for pt := King; pt <= Queen; pt++ {
			add(fmt.Sprintf("piecesBb[%s][%s]", c.String(), pt.String()), uint64(p.PiecesBb(c, pt)))
		}
		add("occupiedBb["+c.String()+"]", uint64(p.OccupiedBb(c)))
		add("kingSquare["+c.String()+"]", p.KingSquare(c).String())
		add("material["+c.String()+"]", int(p.Material(c)))
		add("materialNonPawn["+c.String()+"]", int(p.MaterialNonPawn(c)))
		add("psqMid["+c.String()+"]", int(p.PsqMidValue(c)))
		add("psqEnd["+c.String()+"]", int(p.PsqEndValue(c)))
	}
	board := ""
	for sq := SqA1; sq < SqNone; sq++ {
		board += p.GetPiece(sq).String()
	}
	add("board", board)
	add("gamePhase", p.GamePhase())
	add("castling", p.CastlingRights().String())
	add("ep", p.GetEnPassantSquare().String())
	add("halfMoveClock", p.HalfMoveClock())
	add("nextPlayer", p.NextPlayer().String())
	if withHistory {
		add("inCheck", p.HasCheck())
		add("lastMove", p.LastMove().StringUci())
		add("lastCaptured", p.LastCapturedPiece().String())
		add("historyCounter", p.VerifHistoryCounter())
		add("rep1", p.CheckRepetitions(1))
		add("rep2", p.CheckRepetitions(2))
		add("rep3", p.CheckRepetitions(3))
		add("nextHalfMoveNumber", p.VerifNextHalfMoveNumber())
	}
	add("insufficientMaterial", p.HasInsufficientMaterial())
	if ev != nil {
		add("evaluation", int(ev.Evaluate(p)))
	}
	return s
}

func (a snapshot) diff(b snapshot) []string {
	var res []string
	for _, k := range a.order {
		if a.fields[k] != b.fields[k] {
			res = append(res, fmt.Sprintf("%s: %s != %s", k, a.fields[k], b.fields[k]))
		}
	}
	return res
}

// diffKeys names the differing observables; the evaluation is derived from the game phase,
// so it is not listed separately when the game phase differs.
func diffKeys(d []string) string {
	var keys []string
	phase := false
	for _, x := range d {
		for j := 0; j < len(x); j++ {
			if x[j] == ':' {
				keys = append(keys, x[:j])
				if x[:j] == "gamePhase" {
					phase = true
				}
				break
			}
		}
	}
	s := ""
	for _, k := range keys {
		if phase && k == "evaluation" {
			continue
		}
		if s != "" {
			s += ","
		}
		s += k
	}
	return s
}

// recomputed sums over the board using the published per-piece values
func recomputed(p *position.Position) map[string]string {
	r := map[string]string{}
	var mat, np, mid, end [2]int
	phase := 0
	for sq := SqA1; sq < SqNone; sq++ {
		pc := p.GetPiece(sq)
		if pc == PieceNone {
			continue
		}
		c := pc.ColorOf()
		mat[c] += int(pc.TypeOf().ValueOf())
		if pc.TypeOf() > Pawn {
			np[c] += int(pc.TypeOf().ValueOf())
		}
		mid[c] += int(PosMidValue(pc, sq))
		end[c] += int(PosEndValue(pc, sq))
		phase += pc.TypeOf().GamePhaseValue()
	}
	if phase > GamePhaseMax {
		phase = GamePhaseMax
	}
	for c := White; c <= Black; c++ {
		r["material["+c.String()+"]"] = fmt.Sprint(mat[c])
		r["materialNonPawn["+c.String()+"]"] = fmt.Sprint(np[c])
		r["psqMid["+c.String()+"]"] = fmt.Sprint(mid[c])
		r["psqEnd["+c.String()+"]"] = fmt.Sprint(end[c])
	}
	r["gamePhase"] = fmt.Sprint(phase)
	return r
}

// pos-monitor <n> <seed> <excursionDepth>: C03 (undo restores everything), C04 (incremental =
// fresh = recomputed; key is a function of the position) and C15 (evaluation pure) monitors on
// the real engine, along random games.
func posMonitor(args []string) int {
	n, _ := strconv.Atoi(args[0])
	seed, _ := strconv.ParseUint(args[1], 10, 64)
	exDepth := 3
	if len(args) > 2 {
		exDepth, _ = strconv.Atoi(args[2])
	}
	rng := NewRng(seed)
	w := NewWalker(rng)
	rep := NewReport("pos-monitor")
	ev := evaluator.NewEvaluator()
	mg := movegen.NewMoveGen()
	seen := map[uint64]bool{}
	keyToCore := map[uint64]string{} // key -> placement/side/rights/ep  (collision / function check)
	coreToKey := map[string]uint64{}
	// light snapshot taken at EVERY nesting level around each do/undo pair (the full snapshot is
	// compared around the whole excursion): a slot of the undo history that still holds what a
	// sibling line wrote there shows only at the level where it is read back
	light := func(p *position.Position) string {
		return fmt.Sprintf("fen=%s key=%d checkflag=%d last=%d captured=%d hist=%d nhm=%d", p.StringFen(), uint64(p.ZobristKey()), p.VerifHasCheckFlag(),
			uint32(p.LastMove()), int(p.LastCapturedPiece()), p.VerifHistoryCounter(), p.VerifNextHalfMoveNumber())
	}
	var exRoot func() map[string]interface{}
	// C09 at every level: the cached in-check answer must be the board's answer whatever history led here
	checkCache := func(p *position.Position, path *[]string, what string) {
		us := p.NextPlayer()
		if p.PiecesBb(us, King) == 0 {
			return
		}
		if got, want := p.HasCheck(), p.IsAttacked(p.KingSquare(us), us.Flip()); got != want {
			v := exRoot()
			v["path"] = strings.Join(*path, " ")
			rep.Violate("check-cache-stale", v, fmt.Sprintf("%s: HasCheck()=%v but the king is attacked=%v in %s", what, got, want, p.StringFen()))
		}
	}
	var excursion func(p *position.Position, depth int, path *[]string)
	excursion = func(p *position.Position, depth int, path *[]string) {
		if depth == 0 {
			return
		}
		if p.VerifHistoryCounter() >= MaxMoves-2 {
			return
		}
		pl := mg.GeneratePseudoLegalMoves(p, movegen.GenAll, false)
		moves := make([]Move, len(*pl))
		copy(moves, *pl)
		// a few random moves + a null move (before or after them: a null move that comes first
		// reads back a history slot last written by a sibling line)
		nullFirst := rng.Bool()
		doNull := func() {
			if !p.HasCheck() && rng.Chance(40) {
				lb := light(p)
				p.DoNullMove()
				*path = append(*path, "null")
				excursion(p, depth-1, path)
				p.UndoNullMove()
				if la := light(p); la != lb {
					v := exRoot()
					v["path"] = strings.Join(*path, " ")
					v["fields"] = "inner-level"
					rep.Violate("undo-does-not-restore", v, "after undoing the null move at depth "+strconv.Itoa(len(*path))+": before "+lb+" ; after "+la)
				}
				checkCache(p, path, "after undoing a null move")
				*path = (*path)[:len(*path)-1]
				rep.Stats["excursion_nullmoves"]++
			}
		}
		if nullFirst {
			doNull()
		}
		nMoves := 1 + rng.Intn(3)
		for i := 0; i < nMoves && len(moves) > 0; i++ {
			m := moves[rng.Intn(len(moves))]
			if rng.Chance(50) { // prefer special moves when present
				for _, x := range moves {
					if x.MoveType() != Normal || p.GetPiece(x.To()) != PieceNone {
						if rng.Chance(30) {
							m = x
						}
					}
				}
			}
			if rng.Chance(40) { // prefer a checking move: the next level then starts in check
				for _, x := range moves {
					if p.GetPiece(x.To()).TypeOf() != King && p.GivesCheck(x) && rng.Chance(50) {
						m = x
						break
					}
				}
			}
			if p.GetPiece(m.To()).TypeOf() == King {
				continue
			}
			if rng.Chance(60) {
				p.HasCheck() // fills the check-flag cache
			}
			lb := light(p)
			p.DoMove(m)
			*path = append(*path, m.StringUci())
			if p.WasLegalMove() {
				excursion(p, depth-1, path)
			}
			p.UndoMove()
			if la := light(p); la != lb {
				v := exRoot()
				v["path"] = strings.Join(*path, " ")
				v["fields"] = "inner-level"
				rep.Violate("undo-does-not-restore", v, "after undoing "+m.StringUci()+" at depth "+strconv.Itoa(len(*path))+": before "+lb+" ; after "+la)
			}
			if rng.Chance(30) {
				checkCache(p, path, "after undoing "+m.StringUci())
			}
			*path = (*path)[:len(*path)-1]
			rep.Stats["excursion_moves"]++
		}
		if !nullFirst {
			doNull()
		}
	}
	w.Stream(n, true, func(g GamePos) {
		p := g.P
		rep.Cases++
		if !seen[uint64(p.ZobristKey())] {
			seen[uint64(p.ZobristKey())] = true
			rep.Distinct++
		}
		in := func() map[string]interface{} {
			// whether the asymmetric clamp of the game phase (known finding) can have acted on the way here or can act
			// within the excursion: a game-phase difference anywhere else is a different defect
			reach := phaseClampReachable(p)
			if q, err := position.NewPositionFen(g.Root); err == nil && q != nil {
				reach = reach || phaseClampReachable(q)
				for _, m := range g.Moves {
					q.DoMove(m)
					reach = reach || phaseClampReachable(q)
				}
			}
			return map[string]interface{}{"root": g.Root, "moves": movesUci(g.Moves), "fen": p.StringFen(), "phase_clamp_reachable": reach}
		}
		setCurrent(map[string]interface{}{"root": g.Root, "moves": movesUci(g.Moves), "fen": p.StringFen(), "what": "do/undo excursions, copies and successor checks on this position"})
		// --- C04: incremental vs fresh-from-FEN vs recomputed
		cur := snap(p, ev, false)
		fresh, err := position.NewPositionFen(p.StringFen())
		if err != nil || fresh == nil {
			rep.Violate("own-fen-rejected", in(), "the engine does not accept its own FEN")
			return
		}
		fs := snap(fresh, evaluator.NewEvaluator(), false)
		if d := cur.diff(fs); len(d) > 0 {
			v := in()
			v["fields"] = diffKeys(d)
			rep.Violate("incremental-differs-from-fresh", v, fmt.Sprint(d))
		}
		rc := recomputed(p)
		for k, v := range rc {
			if cur.fields[k] != v {
				vi := in()
				vi["fields"] = k
				rep.Violate("incremental-differs-from-recomputed", vi, fmt.Sprintf("%s: incremental %s, sum over board %s", k, cur.fields[k], v))
			}
		}
		// every successor (one ply, all legal moves) of corpus positions and of a share of the others:
		// the special moves a position offers are all tried, not only the one the game happened to play
		if len(g.Moves) == 0 || rng.Chance(10) {
			q := *p
			lm := w.legalMoves(&q)
			for _, m := range lm {
				q2 := *p
				q2.DoMove(m)
				fr, err := position.NewPositionFen(q2.StringFen())
				if err != nil || fr == nil {
					vi := in()
					vi["move"] = m.StringUci()
					rep.Violate("own-fen-rejected", vi, "after "+m.StringUci()+": "+q2.StringFen())
					continue
				}
				a, b := snap(&q2, nil, false), snap(fr, nil, false)
				if d := a.diff(b); len(d) > 0 {
					vi := in()
					vi["move"] = m.StringUci()
					vi["fields"] = diffKeys(d)
					rep.Violate("incremental-differs-from-fresh", vi, "after "+m.StringUci()+": "+fmt.Sprint(d))
				}
				rep.Stats["successors_checked"]++
			}
		}
		// the null move is a successor too (the search makes it on any position not in check, also right after
		// a double step): incremental state after it vs a position fresh from its FEN
		if !p.HasCheck() {
			q3 := *p
			q3.DoNullMove()
			if fr, err := position.NewPositionFen(q3.StringFen()); err == nil && fr != nil {
				a, b := snap(&q3, nil, false), snap(fr, nil, false)
				if d := a.diff(b); len(d) > 0 {
					vi := in()
					vi["move"] = "null move"
					vi["fields"] = diffKeys(d)
					rep.Violate("incremental-differs-from-fresh", vi, "after a null move: "+fmt.Sprint(d))
				}
				rep.Stats["null_successors_checked"]++
			}
		}
		// a value copy of a position (the search works on one, so does every caller that probes a move) is independent
		// of the original: moves made on the copy at the same history depth must not disturb the original's undo
		if rng.Chance(30) {
			cp := *p
			lm := w.legalMoves(&cp)
			if len(lm) >= 2 {
				m1, m2 := lm[rng.Intn(len(lm))], lm[rng.Intn(len(lm))]
				before := snap(p, nil, true)
				q := *p
				p.DoMove(m1)
				q.DoMove(m2)
				q.UndoMove()
				q.DoNullMove()
				q.UndoNullMove()
				p.UndoMove()
				if d := before.diff(snap(p, nil, true)); len(d) > 0 {
					v := in()
					v["fields"] = diffKeys(d)
					v["path"] = m1.StringUci() + " on the position, " + m2.StringUci() + " and a null move on a value copy of it in between"
					rep.Violate("undo-does-not-restore", v, fmt.Sprint(d))
				}
				rep.Stats["value_copy_independence_checks"]++
			}
		}
		// the key separates single-component differences: the same position without its en-passant square,
		// with one castling right less, with the other side to move must have another key
		if len(g.Moves) == 0 || rng.Chance(25) {
			ff := strings.Fields(p.StringFen())
			variants := map[string]string{}
			if ff[3] != "-" {
				variants["without the en-passant square"] = strings.Join([]string{ff[0], ff[1], ff[2], "-", ff[4], ff[5]}, " ")
			}
			if ff[2] != "-" {
				r := ff[2][1:]
				if r == "" {
					r = "-"
				}
				variants["with one castling right less"] = strings.Join([]string{ff[0], ff[1], r, ff[3], ff[4], ff[5]}, " ")
			}
			for what, vf := range variants {
				if q, err := position.NewPositionFen(vf); err == nil && q != nil && q.ZobristKey() == p.ZobristKey() {
					vi := in()
					vi["variant"] = vf
					rep.Violate("different-positions-same-key", vi, "the same position "+what+" has the same key")
				}
			}
			rep.Stats["key_variants_checked"] += len(variants)
		}
		// key is a function of (placement, side, rights, ep)
		core := fmt.Sprintf("%s|%s|%s|%s", cur.fields["board"], cur.fields["nextPlayer"], cur.fields["castling"], cur.fields["ep"])
		key := uint64(p.ZobristKey())
		if k2, ok := coreToKey[core]; ok && k2 != key {
			rep.Violate("same-position-different-key", in(), fmt.Sprintf("keys %d and %d for the same placement/side/rights/ep", key, k2))
		}
		coreToKey[core] = key
		if c2, ok := keyToCore[key]; ok && c2 != core {
			rep.Violate("different-positions-same-key", in(), "two different positions share a key: "+c2+" vs "+core)
		}
		keyToCore[key] = core
		// --- C15: evaluation repeated / second evaluator
		e1 := ev.Evaluate(p)
		e2 := ev.Evaluate(p)
		e3 := evaluator.NewEvaluator().Evaluate(p)
		if e1 != e2 || e1 != e3 {
			rep.Violate("evaluation-not-pure", in(), fmt.Sprintf("same position evaluated to %d, %d (repeat), %d (fresh evaluator)", e1, e2, e3))
		}
		// --- C03: excursions
		before := snap(p, ev, true)
		var path []string
		exRoot = in
		excursion(p, exDepth, &path)
		after := snap(p, ev, true)
		if d := before.diff(after); len(d) > 0 {
			v := in()
			v["fields"] = diffKeys(d)
			rep.Violate("undo-does-not-restore", v, fmt.Sprint(d))
		}
		rep.Sample(map[string]interface{}{"fen": p.StringFen(), "history_len": len(g.Moves)})
	})
	// key families: on boards where every castling right and an en-passant square on every file make sense, all
	// combinations of side to move x 16 rights sets x (no en-passant square or one of 8 files) are set up; positions
	// that print different placement/side/rights/en-passant fields must have different keys - also when they differ
	// in two or three of the components at once (key components that cancel each other)
	for _, brd := range []string{"r3k2r/8/8/pPpPpPpP/8/8/8/R3K2R", "r3k2r/8/8/8/pPpPpPpP/8/8/R3K2R", "r3k2r/2p2p2/8/pP1Pp1pP/Pp1pP1Pp/8/2P2P2/R3K2R"} {
		famKey := map[uint64]string{}
		for _, stm := range []string{"w", "b"} {
			for r := 0; r < 16; r++ {
				rights := ""
				for bi, c := range "KQkq" {
					if r&(1<<uint(bi)) != 0 {
						rights += string(c)
					}
				}
				if rights == "" {
					rights = "-"
				}
				eps := []string{"-"}
				for f := 0; f < 8; f++ {
					eps = append(eps, string(rune('a'+f))+map[string]string{"w": "6", "b": "3"}[stm])
				}
				for _, ep := range eps {
					fen := brd + " " + stm + " " + rights + " " + ep + " 0 1"
					q, err := position.NewPositionFen(fen)
					if err != nil || q == nil {
						continue
					}
					core := strings.Join(strings.Fields(q.StringFen())[:4], " ")
					rep.Stats["key_family_positions"]++
					if other, ok := famKey[uint64(q.ZobristKey())]; ok && other != core {
						rep.Violate("different-positions-same-key", map[string]interface{}{"fen": core + " 0 1", "variant": other + " 0 1"}, "two positions that differ only in side / castling rights / en-passant square share a key")
					}
					famKey[uint64(q.ZobristKey())] = core
				}
			}
		}
	}
	// a game as long as the undo history allows (MaxMoves plies) on ONE position object: every successor
	// compared with the successor of a fresh position, then everything undone again
	{
		starts := []string{position.StartFen, "r3k2r/pppppppp/8/8/8/8/PPPPPPPP/R3K2R w KQkq - 0 1"} // nothing can be captured by the shuffling officers
		p, _ := position.NewPositionFen(starts[int(seed)%len(starts)])
		startFen := p.StringFen()
		var fens []string
		var flags []int
		flagReported := false
		capacityOK := true
		for ply := 1; ply <= MaxMoves && capacityOK; ply++ {
			cp := *p
			lm := w.legalMoves(&cp)
			var cands []Move
			for _, m := range lm { // reversible officer shuffles keep the game going
				if (cp.GetPiece(m.From()).TypeOf() == Knight || cp.GetPiece(m.From()).TypeOf() == Rook) && cp.GetPiece(m.To()) == PieceNone && m.MoveType() == Normal {
					cands = append(cands, m)
				}
			}
			if len(cands) == 0 { // in check, or the officers are gone: any quiet move, else any move
				for _, m := range lm {
					if cp.GetPiece(m.To()) == PieceNone && m.MoveType() == Normal && cp.GetPiece(m.From()).TypeOf() != Pawn {
						cands = append(cands, m)
					}
				}
			}
			if len(cands) == 0 {
				cands = lm
			}
			if len(cands) == 0 {
				break
			}
			m := cands[rng.Intn(len(cands))]
			p.HasCheck() // as a search does at every node: the answer is cached and travels through the undo history
			flags = append(flags, p.VerifHasCheckFlag())
			prev := p.StringFen()
			fens = append(fens, prev)
			fresh, _ := position.NewPositionFen(prev)
			fresh.DoMove(m)
			p.DoMove(m)
			rep.Stats["capacity_game_plies"]++
			if p.StringFen() != fresh.StringFen() || p.ZobristKey() != fresh.ZobristKey() {
				rep.Violate("long-game-successor-wrong", map[string]interface{}{"start": startFen, "ply": ply, "move": m.StringUci(), "before": prev},
					"on the long-lived position: "+p.StringFen()+" ; on a fresh position: "+fresh.StringFen())
				capacityOK = false
			}
		}
		for k := len(fens) - 1; k >= 0 && capacityOK; k-- {
			p.UndoMove()
			if got := p.VerifHasCheckFlag(); got != flags[k] && !flagReported {
				flagReported = true
				rep.Violate("undo-does-not-restore", map[string]interface{}{"start": startFen, "ply": k + 1, "fields": "hasCheckFlag (long game)", "fen": p.StringFen()},
					"after undoing a "+strconv.Itoa(len(fens))+"-ply game back to ply "+strconv.Itoa(k+1)+": cached in-check answer "+strconv.Itoa(got)+", was "+strconv.Itoa(flags[k])+" before the move")
			}
			if us := p.NextPlayer(); p.PiecesBb(us, King) != 0 && p.HasCheck() != p.IsAttacked(p.KingSquare(us), us.Flip()) {
				rep.Violate("check-cache-stale", map[string]interface{}{"start": startFen, "ply": k + 1, "fen": p.StringFen()},
					"after undoing a "+strconv.Itoa(len(fens))+"-ply game back to ply "+strconv.Itoa(k+1)+": HasCheck() disagrees with IsAttacked(king)")
				break
			}
			if p.StringFen() != fens[k] {
				rep.Violate("undo-does-not-restore", map[string]interface{}{"start": startFen, "ply": k + 1, "fields": "long-game"},
					"after undoing ply "+strconv.Itoa(k+1)+": "+p.StringFen()+" ; expected "+fens[k])
				break
			}
		}
		rep.Cases++
	}
	return rep.Emit()
}

func init() { register("pos-monitor", posMonitor) }
